import Storrent.Model.Sched
import Storrent.Lemmas.Sched
import Storrent.Lemmas.SchedAvail
import Storrent.Lemmas.SchedUnder
/-
The per-peer FIFO argument of C09: the availability events of one peer reach the torrent in
the order in which the peer emitted them (`t.Event ++ p.events` is a queue per peer: `writeEvent`
goes straight to `t.Event` only when the overflow list is empty, `Run` moves the HEAD of the
overflow list to the TAIL of `t.Event`).  Hence, per peer and piece, the signs still in transit
alternate and end at the peer's current bit, so a retraction reaches `noteAvailable` only after
its announcement: the "Eek!  Available underflow." branch is unreachable.
-/
namespace Storrent.Sched

/-- the peer an availability event speaks for -/
def tagOf : TorEv → Option Nat
  | .bitmap p _ _ => some p
  | .phave p _ _ => some p
  | _ => none

/-- what event `e` does to (piece `i`, peer `k`): `true` = announce, `false` = retract -/
def sgn (i k : Nat) : TorEv → List Bool
  | .bitmap p bits hv => if p = k then List.replicate (cnt i bits) hv else []
  | .phave p idx hv => if p = k ∧ idx = i then [hv] else []
  | _ => []

def sigs (i k : Nat) (l : List TorEv) : List Bool := l.flatMap (sgn i k)

/-- signs (oldest first) alternate and the last one is the current bit -/
def altOK (final : Bool) : List Bool → Prop
  | [] => True
  | [x] => x = final
  | x :: y :: rest => x ≠ y ∧ altOK final (y :: rest)

/-- the bit the torrent has accounted so far -/
def acct (final : Bool) : List Bool → Bool
  | [] => final
  | x :: _ => !x

/-- `l` is a sequence of flips from bit `b0` to bit `b1` -/
def Flips (b0 : Bool) : List Bool → Bool → Prop
  | [], b1 => b1 = b0
  | x :: l, b1 => x ≠ b0 ∧ Flips x l b1

@[simp] theorem sigs_nil (i k : Nat) : sigs i k [] = [] := rfl
@[simp] theorem sigs_cons (i k : Nat) (e : TorEv) (l : List TorEv) : sigs i k (e :: l) = sgn i k e ++ sigs i k l := by
  simp [sigs]
@[simp] theorem sigs_append (i k : Nat) (l m : List TorEv) : sigs i k (l ++ m) = sigs i k l ++ sigs i k m := by
  simp [sigs]

theorem sgn_none (i k : Nat) (e : TorEv) (h : tagOf e = none) : sgn i k e = [] := by
  cases e <;> simp [tagOf] at h <;> rfl

theorem sgn_other (i k k' : Nat) (e : TorEv) (h : tagOf e = some k') (hk : k' ≠ k) : sgn i k e = [] := by
  cases e <;> simp [tagOf] at h
  · subst h; simp [sgn, hk]
  · subst h; simp [sgn, hk]

theorem sgn_tagged (i k j : Nat) (e : TorEv) (h : tagOf e = none ∨ tagOf e = some k) (hj : j ≠ k) : sgn i j e = [] := by
  rcases h with h | h
  · exact sgn_none i j e h
  · exact sgn_other i j k e h (fun hc => hj hc.symm)

theorem sigs_tagged (i k j : Nat) (l : List TorEv) (h : ∀ e ∈ l, tagOf e = none ∨ tagOf e = some k) (hj : j ≠ k) :
    sigs i j l = [] := by
  induction l with
  | nil => rfl
  | cons e es ih =>
    rw [sigs_cons, sgn_tagged i k j e (h e (by simp)) hj, ih (fun e he => h e (by simp [he]))]; rfl

theorem flips_alt : ∀ (l : List Bool) (b0 b1 : Bool), Flips b0 l b1 → altOK b1 l ∧ acct b1 l = b0 := by
  intro l
  induction l with
  | nil => intro b0 b1 h; exact ⟨trivial, h⟩
  | cons x l ih =>
    intro b0 b1 h
    obtain ⟨h1, h2⟩ := h
    obtain ⟨a1, a2⟩ := ih x b1 h2
    constructor
    · cases l with
      | nil => exact h2.symm
      | cons y r =>
        refine ⟨?_, a1⟩
        have a2' : (!y) = x := a2
        revert a2'
        cases x <;> cases y <;> decide
    · show (!x) = b0
      revert h1
      cases x <;> cases b0 <;> decide

theorem flips_append : ∀ (sig l : List Bool) (b0 b1 : Bool), altOK b0 sig → Flips b0 l b1 →
    altOK b1 (sig ++ l) ∧ acct b1 (sig ++ l) = acct b0 sig := by
  intro sig
  induction sig with
  | nil => intro l b0 b1 _ h; simpa [acct] using flips_alt l b0 b1 h
  | cons x t ih =>
    intro l b0 b1 ha hf
    cases t with
    | nil =>
      have hx : x = b0 := ha
      subst hx
      cases l with
      | nil => exact ⟨by simpa [altOK] using hf.symm, rfl⟩
      | cons y r =>
        obtain ⟨a1, _⟩ := flips_alt (y :: r) x b1 hf
        exact ⟨⟨fun h => hf.1 h.symm, a1⟩, rfl⟩
    | cons y r =>
      obtain ⟨h1, h2⟩ := ha
      obtain ⟨a1, _⟩ := ih l b0 b1 h2 hf
      exact ⟨⟨h1, a1⟩, rfl⟩

theorem altOK_pop (f x : Bool) (rest : List Bool) (h : altOK f (x :: rest)) :
    altOK f rest ∧ acct f rest = x := by
  cases rest with
  | nil => exact ⟨trivial, by simpa [acct, altOK] using h.symm⟩
  | cons y r =>
    obtain ⟨h1, h2⟩ := h
    refine ⟨h2, ?_⟩
    show (!y) = x
    revert h1
    cases x <;> cases y <;> decide

theorem altOK_pop_replicate (f x : Bool) (c : Nat) (rest : List Bool) (h : altOK f (List.replicate c x ++ rest)) :
    c ≤ 1 ∧ altOK f rest ∧ (c = 1 → acct f rest = x ∧ acct f (List.replicate c x ++ rest) = !x) := by
  cases c with
  | zero => exact ⟨by omega, by simpa using h, fun hc => by omega⟩
  | succ c =>
    cases c with
    | zero =>
      have h' : altOK f (x :: rest) := by simpa using h
      obtain ⟨a1, a2⟩ := altOK_pop f x rest h'
      exact ⟨by omega, a1, fun _ => ⟨a2, by simp [acct]⟩⟩
    | succ c =>
      exfalso
      have h' : altOK f (x :: x :: (List.replicate c x ++ rest)) := by
        simpa [List.replicate_succ] using h
      exact h'.1 rfl

/-! ### sums indexed by the position in the peer table -/

def sumI {α : Type} (f : Nat → α → Nat) : Nat → List α → Nat
  | _, [] => 0
  | k, p :: ps => f k p + sumI f (k+1) ps

theorem sumI_change {α : Type} (f f' : Nat → α → Nat) : ∀ (l : List α) (k0 k : Nat) (x a : α), l[k]? = some x →
    (∀ j p, j ≠ k0 + k → f' j p = f j p) →
    sumI f' k0 (setN l k a) + f (k0 + k) x = sumI f k0 l + f' (k0 + k) a := by
  intro l
  induction l with
  | nil => intro k0 k x a h; simp at h
  | cons y ys ih =>
    intro k0 k x a h hoff
    cases k with
    | zero =>
      simp at h; subst h
      have : ∀ (m : List α) (j0 : Nat), k0 < j0 → sumI f' j0 m = sumI f j0 m := by
        intro m
        induction m with
        | nil => intro _ _; rfl
        | cons z zs ihm =>
          intro j0 hj
          simp only [sumI]
          rw [hoff j0 z (by omega), ihm (j0+1) (by omega)]
      simp only [setN, sumI, Nat.add_zero]
      rw [this ys (k0+1) (by omega)]
      omega
    | succ k =>
      simp at h
      have := ih (k0+1) k x a h (fun j p hj => hoff j p (by omega))
      simp only [setN, sumI]
      rw [hoff k0 y (by omega)]
      have e : k0 + 1 + k = k0 + (k + 1) := by omega
      rw [e] at this
      omega

theorem sumI_congr {α : Type} (f f' : Nat → α → Nat) (h : ∀ j p, f' j p = f j p) : ∀ (l : List α) (k0 : Nat),
    sumI f' k0 l = sumI f k0 l := by
  intro l
  induction l with
  | nil => intro _; rfl
  | cons y ys ih => intro k0; simp only [sumI]; rw [h, ih]

theorem sumI_append_one {α : Type} (f : Nat → α → Nat) : ∀ (l : List α) (k0 : Nat) (a : α),
    sumI f k0 (l ++ [a]) = sumI f k0 l + f (k0 + l.length) a := by
  intro l
  induction l with
  | nil => intro k0 a; simp [sumI]
  | cons y ys ih =>
    intro k0 a
    simp only [List.cons_append, sumI, ih, List.length_cons]
    have : k0 + 1 + ys.length = k0 + (ys.length + 1) := by omega
    rw [this]; omega

theorem le_sumI {α : Type} (f : Nat → α → Nat) : ∀ (l : List α) (k0 k : Nat) (x : α), l[k]? = some x →
    f (k0 + k) x ≤ sumI f k0 l := by
  intro l
  induction l with
  | nil => intro k0 k x h; simp at h
  | cons y ys ih =>
    intro k0 k x h
    cases k with
    | zero => simp at h; subst h; simp [sumI]
    | succ k =>
      simp at h
      have := ih (k0+1) k x h
      have e : k0 + 1 + k = k0 + (k + 1) := by omega
      rw [e] at this
      simp only [sumI]; omega

theorem map_setN {α β : Type} (h : α → β) (l : List α) (i : Nat) (a : α) :
    (setN l i a).map h = setN (l.map h) i (h a) := by
  induction l generalizing i with
  | nil => rfl
  | cons x xs ih => cases i <;> simp [setN, ih]

theorem get_of_map_eq {α β : Type} (h : α → β) (l l' : List α) (e : l'.map h = l.map h) (k : Nat) (p' : α)
    (hp : l'[k]? = some p') : ∃ p, l[k]? = some p ∧ h p = h p' := by
  have h1 : (l'.map h)[k]? = some (h p') := by simp [hp]
  rw [e] at h1
  simp at h1
  obtain ⟨p, a, b⟩ := h1
  exact ⟨p, a, b⟩

end Storrent.Sched

namespace Storrent.Sched

/-! ### what each handler emits, as flips of the peer's bit -/

def tagW (e : TorEv) : Nat := if tagOf e = none then 0 else 1

theorem neutral_tagW : Neutral tagW := ⟨fun _ _ _ => rfl, fun _ _ _ _ _ => rfl, fun _ _ => rfl⟩

theorem allNone_of_sum (l : List TorEv) (h : sumL tagW l = 0) : ∀ e ∈ l, tagOf e = none := by
  intro e he
  have := sumL_eq_zero tagW l h e he
  unfold tagW at this
  split at this
  · assumption
  · cases this

theorem sigs_untagged (i k : Nat) (l : List TorEv) (h : ∀ e ∈ l, tagOf e = none) : sigs i k l = [] := by
  induction l with
  | nil => rfl
  | cons e es ih =>
    rw [sigs_cons, sgn_none i k e (h e (by simp)), ih (fun e he => h e (by simp [he]))]; rfl

theorem sgn_bitmap (i k : Nat) (bits : List Bool) (hv : Bool) :
    sgn i k (.bitmap k (bitList bits) hv) = if getB bits i then [hv] else [] := by
  simp only [sgn, if_true, cnt_bitList]
  split <;> rfl

theorem sigs_mapDrop (g : Geom) (i k : Nat) (l : List Nat) : sigs i k (l.map (dropEv g)) = [] :=
  sigs_untagged i k _ (by
    intro e he
    obtain ⟨c, _, rfl⟩ := List.mem_map.mp he
    rfl)

theorem tag_mapDrop (g : Geom) (k : Nat) (l : List Nat) : ∀ e ∈ l.map (dropEv g), tagOf e = none ∨ tagOf e = some k := by
  intro e he
  obtain ⟨c, _, rfl⟩ := List.mem_map.mp he
  exact Or.inl rfl

theorem sigs_retract (i k : Nat) (p : Peer) (hp : p.bmNil = true → ∀ j, getB p.bits j = false) :
    sigs i k (retract k p) = if getB p.bits i then [false] else [] := by
  unfold retract
  cases h : p.bmNil with
  | true => simp [hp h i]
  | false => simp [sgn_bitmap]

theorem tag_retract (k : Nat) (p : Peer) : ∀ e ∈ retract k p, tagOf e = none ∨ tagOf e = some k := by
  intro e he
  unfold retract at he
  split at he
  · cases he
  · simp at he; subst he; exact Or.inr rfl

/-- quiet handlers: nothing tagged is emitted and the bitmap is untouched -/
theorem quiet_flips (i k : Nat) (p p' : Peer) (evs : List TorEv) (hb : sameBits p p') (hs : sumL tagW evs = 0) :
    Flips (getB p.bits i) (sigs i k evs) (getB p'.bits i) ∧ ∀ e ∈ evs, tagOf e = none ∨ tagOf e = some k := by
  have hn := allNone_of_sum evs hs
  rw [sigs_untagged i k evs hn, hb.1]
  exact ⟨rfl, fun e he => Or.inl (hn e he)⟩

theorem flips_two (old new : Bool) :
    Flips old ((if old then [false] else []) ++ (if new then [true] else [])) new := by
  cases old <;> cases new <;> simp [Flips]

theorem handleMsg_flips (g : Geom) (pieces : List PieceSt) (k : Nat) (p : Peer) (m : Msg) (slow : Bool) (i : Nat)
    (hp : BitsOK g p) :
    Flips (getB p.bits i) (sigs i k (handleMsg g pieces k p m slow).2.1) (getB (handleMsg g pieces k p m slow).1.bits i) ∧
    ∀ e ∈ (handleMsg g pieces k p m slow).2.1, tagOf e = none ∨ tagOf e = some k := by
  obtain ⟨hlen, hnil⟩ := hp
  have hr := sigs_retract i k p hnil
  have htr := tag_retract k p
  cases m with
  | bad => exact ⟨rfl, fun e he => by cases he⟩
  | choke =>
    simp only [handleMsg]
    split
    · refine ⟨?_, ?_⟩
      · simp only [sigs_append, sigs_mapDrop, sigs_cons, sigs_nil, sgn]; exact rfl
      · intro e he
        rcases List.mem_append.mp he with h | h
        · exact tag_mapDrop g k _ e h
        · simp at h; subst h; exact Or.inl rfl
    · refine ⟨?_, ?_⟩
      · simp only [sigs_append, sigs_mapDrop, sigs_cons, sigs_nil, sgn]; exact rfl
      · intro e he
        rcases List.mem_append.mp he with h | h
        · rcases List.mem_append.mp h with h | h
          · exact tag_mapDrop g k _ e h
          · exact tag_mapDrop g k _ e h
        · simp at h; subst h; exact Or.inl rfl
  | unchoke =>
    simp only [handleMsg]
    exact ⟨rfl, fun e he => by simp at he; subst he; exact Or.inl rfl⟩
  | haveMsg x =>
    simp only [handleMsg]
    split
    · exact ⟨rfl, fun e he => by cases he⟩
    · split
      · rename_i hb
        have hb' : getB p.bits x = false := by simpa using hb
        refine ⟨?_, fun e he => by simp at he; subst he; exact Or.inr rfl⟩
        simp only [sigs_cons, sigs_nil, sgn, getB_setBit_true, List.append_nil]
        by_cases hxi : x = i
        · subst hxi
          simp [hb', Flips]
        · simp [hxi, Flips]
      · exact ⟨rfl, fun e he => by cases he⟩
  | bitfield bs =>
    simp only [handleMsg]
    split
    · exact ⟨rfl, fun e he => by cases he⟩
    · refine ⟨?_, ?_⟩
      · simp only [sigs_append, sigs_cons, sigs_nil, hr, sgn_bitmap, List.append_nil]
        exact flips_two _ _
      · intro e he
        rcases List.mem_append.mp he with h | h
        · exact htr e h
        · simp at h; subst h; exact Or.inr rfl
  | haveAll =>
    simp only [handleMsg]
    split
    · exact ⟨rfl, fun e he => by cases he⟩
    · split
      · refine ⟨?_, ?_⟩
        · simp only [sigs_append, sigs_cons, sigs_nil, hr, sgn_bitmap, List.append_nil]
          exact flips_two _ _
        · intro e he
          rcases List.mem_append.mp he with h | h
          · exact htr e h
          · simp at h; subst h; exact Or.inr rfl
      · refine ⟨?_, htr⟩
        rw [hr]
        have : getB ([] : List Bool) i = false := by cases i <;> rfl
        simp only [this]
        cases getB p.bits i <;> simp [Flips]
  | haveNone =>
    simp only [handleMsg]
    split
    · exact ⟨rfl, fun e he => by cases he⟩
    · refine ⟨?_, htr⟩
      rw [hr]
      have : getB ([] : List Bool) i = false := by cases i <;> rfl
      simp only [this]
      cases getB p.bits i <;> simp [Flips]
  | dontHave x =>
    simp only [handleMsg]
    split
    · exact ⟨rfl, fun e he => by cases he⟩
    · split
      · exact ⟨rfl, fun e he => by cases he⟩
      · split
        · rename_i hb
          refine ⟨?_, fun e he => by simp at he; subst he; exact Or.inr rfl⟩
          simp only [sigs_cons, sigs_nil, sgn, getB_setBit_false, List.append_nil]
          by_cases hxi : x = i
          · subst hxi
            simp [hb, Flips]
          · simp [hxi, Flips]
        · exact ⟨rfl, fun e he => by cases he⟩
  | allowedFast x =>
    simp only [handleMsg]
    split
    · exact ⟨rfl, fun e he => by cases he⟩
    · split
      · exact ⟨rfl, fun e he => by cases he⟩
      · exact ⟨rfl, fun e he => by cases he⟩
  | reject idx begin =>
    simp only [handleMsg]
    split
    · exact ⟨rfl, fun e he => by cases he⟩
    · split
      · rename_i p1 hp1
        have hsb : sameBits p p1 := by
          unfold delRequested at hp1
          split at hp1
          · cases hp1
          · split at hp1
            · simp at hp1; subst hp1; exact ⟨rfl, rfl⟩
            · cases hp1
        obtain ⟨h1, h2⟩ := maybeRequest_av neutral_tagW g slow p1 [dropEv g (toChunk g idx begin)]
        exact quiet_flips i k p _ _ (hsb.trans' h1) (by rw [h2]; rfl)
      · obtain ⟨h1, h2⟩ := maybeRequest_av neutral_tagW g slow p []
        exact quiet_flips i k p _ _ h1 (by rw [h2]; rfl)
  | piece idx begin len =>
    simp only [handleMsg]
    split
    · exact ⟨rfl, fun e he => by cases he⟩
    · split
      · obtain ⟨h1, h2⟩ := maybeRequest_av neutral_tagW g slow p []
        exact quiet_flips i k p _ _ h1 (by rw [h2]; rfl)
      · rename_i p1 r hp1
        have hsb : sameBits p p1 := by
          unfold delReq at hp1
          split at hp1
          · cases hp1
          · split at hp1
            · simp at hp1; obtain ⟨h, _⟩ := hp1; subst h; exact ⟨rfl, rfl⟩
            · split at hp1
              · simp at hp1; obtain ⟨h, _⟩ := hp1; subst h; exact ⟨rfl, rfl⟩
              · cases hp1
        split
        · exact ⟨rfl, fun e he => by cases he⟩
        · split
          · rename_i pc _ _
            obtain ⟨h1, h2⟩ := maybeRequest_av neutral_tagW g slow p1
              [.data (some k) idx begin len (addData g pc idx begin len).2.1]
            exact quiet_flips i k p _ _ (hsb.trans' h1) (by rw [h2]; rfl)
          · obtain ⟨h1, h2⟩ := maybeRequest_av neutral_tagW g slow p1 [dropEv g (toChunk g idx begin)]
            exact quiet_flips i k p _ _ (hsb.trans' h1) (by rw [h2]; rfl)

theorem handlePeerEv_flips (g : Geom) (k : Nat) (p : Peer) (e : PeerEv) (slow : Bool) (i : Nat) (hp : BitsOK g p) :
    Flips (getB p.bits i) (sigs i k (handlePeerEv g k p e slow).2.1) (getB (handlePeerEv g k p e slow).1.bits i) ∧
    ∀ x ∈ (handlePeerEv g k p e slow).2.1, tagOf x = none ∨ tagOf x = some k := by
  by_cases hne : e = .metadata
  · subst hne
    obtain ⟨_, hnil⟩ := hp
    unfold handlePeerEv
    simp only []
    split
    · exact ⟨rfl, fun x hx => by cases hx⟩
    · split
      · split
        · exact ⟨rfl, fun x hx => by cases hx⟩
        · rename_i hb
          have hb' : p.bmNil = true := by simpa using hb
          refine ⟨?_, fun x hx => by simp at hx; subst hx; exact Or.inr rfl⟩
          simp only [sigs_cons, sigs_nil, sgn_bitmap, List.append_nil, hnil hb' i]
          cases getB (List.replicate g.npieces true) i <;> simp [Flips]
      · split
        · exact ⟨rfl, fun x hx => by cases hx⟩
        · exact ⟨rfl, fun x hx => by cases hx⟩
  · obtain ⟨h1, h2⟩ := handlePeerEv_quiet neutral_tagW g k p e slow hne
    exact quiet_flips i k p _ _ h1 h2

theorem exitEvents_flips (g : Geom) (k : Nat) (p : Peer) (i : Nat) :
    Flips (getB p.bits i) (sigs i k (exitEvents g k p)) false ∧
    ∀ e ∈ exitEvents g k p, tagOf e = none ∨ tagOf e = some k := by
  unfold exitEvents
  refine ⟨?_, ?_⟩
  · simp only [sigs_append, sigs_mapDrop, sigs_cons, sigs_nil, sgn_bitmap]
    have : sgn i k (TorEv.goaway k) = [] := rfl
    rw [this]
    cases h : getB p.bits i <;> simp [Flips]
  · intro e he
    rcases List.mem_append.mp he with h | h
    · rcases List.mem_append.mp h with h | h
      · exact tag_mapDrop g k _ e h
      · exact tag_mapDrop g k _ e h
    · simp at h
      rcases h with h | h
      · subst h; exact Or.inr rfl
      · subst h; exact Or.inl rfl

end Storrent.Sched

namespace Storrent.Sched

/-! ### routing keeps the per-peer order -/

theorem emit1_sigs (i k tcap : Nat) (te ov : List TorEv) (e : TorEv) :
    sigs i k (emit1 tcap te ov e).1 ++ sigs i k (emit1 tcap te ov e).2 = sigs i k te ++ sigs i k ov ++ sgn i k e := by
  unfold emit1
  split
  · rename_i h
    have : ov = [] := by
      simp at h
      exact h.1
    subst this
    simp
  · simp

theorem emitAll_sigs (i k tcap : Nat) : ∀ (es te ov : List TorEv),
    sigs i k (emitAll tcap te ov es).1 ++ sigs i k (emitAll tcap te ov es).2
      = sigs i k te ++ sigs i k ov ++ sigs i k es := by
  intro es
  induction es with
  | nil => intro te ov; simp [emitAll]
  | cons e es ih =>
    intro te ov
    simp only [emitAll]
    rw [ih, emit1_sigs]
    simp

theorem emit1_mem (tcap : Nat) (te ov : List TorEv) (e : TorEv) :
    (∀ x ∈ (emit1 tcap te ov e).1, x ∈ te ∨ x = e) ∧ (∀ x ∈ (emit1 tcap te ov e).2, x ∈ ov ∨ x = e) := by
  unfold emit1
  split
  · exact ⟨fun x hx => by simpa using hx, fun x hx => Or.inl hx⟩
  · exact ⟨fun x hx => Or.inl hx, fun x hx => by simpa using hx⟩

theorem emitAll_mem (tcap : Nat) : ∀ (es te ov : List TorEv),
    (∀ x ∈ (emitAll tcap te ov es).1, x ∈ te ∨ x ∈ es) ∧ (∀ x ∈ (emitAll tcap te ov es).2, x ∈ ov ∨ x ∈ es) := by
  intro es
  induction es with
  | nil => intro te ov; exact ⟨fun x hx => Or.inl hx, fun x hx => Or.inl hx⟩
  | cons e es ih =>
    intro te ov
    simp only [emitAll]
    obtain ⟨a1, a2⟩ := ih (emit1 tcap te ov e).1 (emit1 tcap te ov e).2
    obtain ⟨b1, b2⟩ := emit1_mem tcap te ov e
    constructor
    · intro x hx
      rcases a1 x hx with h | h
      · rcases b1 x h with h | h
        · exact Or.inl h
        · exact Or.inr (by simp [h])
      · exact Or.inr (by simp [h])
    · intro x hx
      rcases a2 x hx with h | h
      · rcases b2 x h with h | h
        · exact Or.inl h
        · exact Or.inr (by simp [h])
      · exact Or.inr (by simp [h])

theorem emitAll_sigs_other (i j k tcap : Nat) (hj : j ≠ k) : ∀ (es te ov : List TorEv),
    (∀ e ∈ es, tagOf e = none ∨ tagOf e = some k) → sigs i j (emitAll tcap te ov es).1 = sigs i j te := by
  intro es
  induction es with
  | nil => intro te ov _; rfl
  | cons e es ih =>
    intro te ov h
    simp only [emitAll]
    rw [ih _ _ (fun x hx => h x (by simp [hx]))]
    unfold emit1
    split
    · simp [sgn_tagged i k j e (h e (by simp)) hj]
    · rfl

theorem flushLoop_sigs (i k tcap : Nat) : ∀ (fuel : Nat) (te ov : List TorEv),
    sigs i k (flushLoop tcap fuel te ov).1 ++ sigs i k (flushLoop tcap fuel te ov).2 = sigs i k te ++ sigs i k ov := by
  intro fuel
  induction fuel with
  | zero => intro te ov; rfl
  | succ fuel ih =>
    intro te ov
    simp only [flushLoop]
    split
    · rfl
    · split
      · rw [ih]; simp
      · rfl

theorem flushLoop_mem (tcap : Nat) : ∀ (fuel : Nat) (te ov : List TorEv),
    (∀ x ∈ (flushLoop tcap fuel te ov).1, x ∈ te ∨ x ∈ ov) ∧ (∀ x ∈ (flushLoop tcap fuel te ov).2, x ∈ ov) := by
  intro fuel
  induction fuel with
  | zero => intro te ov; exact ⟨fun x hx => Or.inl hx, fun x hx => hx⟩
  | succ fuel ih =>
    intro te ov
    simp only [flushLoop]
    split
    · exact ⟨fun x hx => Or.inl hx, fun x hx => hx⟩
    · rename_i e rest
      split
      · obtain ⟨a1, a2⟩ := ih (te ++ [e]) rest
        constructor
        · intro x hx
          rcases a1 x hx with h | h
          · rcases List.mem_append.mp h with h | h
            · exact Or.inl h
            · simp at h; exact Or.inr (by simp [h])
          · exact Or.inr (by simp [h])
        · intro x hx; simp [a2 x hx]
      · exact ⟨fun x hx => Or.inl hx, fun x hx => hx⟩

theorem flushLoop_sigs_other (i j k tcap : Nat) (hj : j ≠ k) : ∀ (fuel : Nat) (te ov : List TorEv),
    (∀ e ∈ ov, tagOf e = none ∨ tagOf e = some k) → sigs i j (flushLoop tcap fuel te ov).1 = sigs i j te := by
  intro fuel
  induction fuel with
  | zero => intro te ov _; rfl
  | succ fuel ih =>
    intro te ov h
    simp only [flushLoop]
    split
    · rfl
    · rename_i e rest
      split
      · rw [ih _ _ (fun x hx => h x (by simp [hx]))]
        simp [sgn_tagged i k j e (h e (by simp)) hj]
      · rfl

/-! ### the invariant -/

abbrev Strip := List Bool × Bool × Bool × List TorEv

/-- 1 iff the torrent currently counts peer `k` (stripped to `t`) as having piece `i` -/
def wB (te : List TorEv) (i k : Nat) (t : Strip) : Nat :=
  if acct (getB t.1 i) (sigs i k te ++ sigs i k t.2.2.2) then 1 else 0

structure FInv (s : State) : Prop where
  tagT : ∀ e ∈ s.tEvent, ∀ k, tagOf e = some k → k < s.peers.length
  tagO : ∀ k p, s.peers[k]? = some p → ∀ e ∈ p.overflow, tagOf e = none ∨ tagOf e = some k
  alt : ∀ i k p, s.peers[k]? = some p → altOK (getB p.bits i) (sigs i k s.tEvent ++ sigs i k p.overflow)
  val : s.sat = false → s.aunder = false ∧ ∀ i, getN s.avail i = sumI (wB s.tEvent i) 0 (s.peers.map strip)

theorem get_map_strip (l : List Peer) (k : Nat) (p : Peer) (h : l[k]? = some p) : (l.map strip)[k]? = some (strip p) := by
  simp [h]

theorem finv_commitPeer (s : State) (hF : FInv s) (k : Nat) (p0 : Peer) (h : s.peers[k]? = some p0)
    (evq : List PeerEv) (al : Bool) (p' : Peer) (evs : List TorEv)
    (hflip : ∀ i, Flips (getB p0.bits i) (sigs i k evs) (getB p'.bits i))
    (htag : ∀ e ∈ evs, tagOf e = none ∨ tagOf e = some k) :
    FInv (commitPeer s k p0.overflow evq al p' evs) := by
  have hk : k < s.peers.length := lt_of_get _ _ _ h
  have hmem := emitAll_mem s.tcap evs s.tEvent p0.overflow
  have hother : ∀ i j, j ≠ k → sigs i j (emitAll s.tcap s.tEvent p0.overflow evs).1 = sigs i j s.tEvent :=
    fun i j hj => emitAll_sigs_other i j k s.tcap hj evs s.tEvent p0.overflow htag
  have hself : ∀ i, altOK (getB p'.bits i) (sigs i k (emitAll s.tcap s.tEvent p0.overflow evs).1 ++
        sigs i k (emitAll s.tcap s.tEvent p0.overflow evs).2) ∧
      acct (getB p'.bits i) (sigs i k (emitAll s.tcap s.tEvent p0.overflow evs).1 ++
        sigs i k (emitAll s.tcap s.tEvent p0.overflow evs).2)
        = acct (getB p0.bits i) (sigs i k s.tEvent ++ sigs i k p0.overflow) := by
    intro i
    rw [emitAll_sigs]
    exact flips_append _ _ _ _ (hF.alt i k p0 h) (hflip i)
  unfold commitPeer
  simp only []
  refine ⟨?_, ?_, ?_, ?_⟩
  · intro e he j hj
    simp only [length_setN]
    rcases hmem.1 e he with h1 | h1
    · exact hF.tagT e h1 j hj
    · rcases htag e h1 with h2 | h2
      · rw [h2] at hj; cases hj
      · rw [h2] at hj; simp at hj; omega
  · intro j p hp e he
    rw [getElem?_setN] at hp
    split at hp
    · rename_i hc
      simp at hp; subst hp
      obtain ⟨rfl, _⟩ := hc
      rcases hmem.2 e he with h1 | h1
      · exact hF.tagO k p0 h e h1
      · exact htag e h1
    · exact hF.tagO j p hp e he
  · intro i j p hp
    rw [getElem?_setN] at hp
    split at hp
    · rename_i hc
      simp at hp; subst hp
      obtain ⟨rfl, _⟩ := hc
      exact (hself i).1
    · rename_i hc
      have hj : j ≠ k := fun e => hc ⟨e.symm, hk⟩
      rw [hother i j hj]
      exact hF.alt i j p hp
  · intro hs
    obtain ⟨a1, a2⟩ := hF.val hs
    refine ⟨a1, fun i => ?_⟩
    rw [a2 i, map_setN]
    have := sumI_change (wB s.tEvent i) (wB (emitAll s.tcap s.tEvent p0.overflow evs).1 i) (s.peers.map strip) 0 k
      (strip p0) (strip { p' with overflow := (emitAll s.tcap s.tEvent p0.overflow evs).2, evq := evq, alive := al })
      (get_map_strip _ _ _ h)
      (fun j t hj => by
        unfold wB
        rw [hother i j (by omega)])
    have e : wB (emitAll s.tcap s.tEvent p0.overflow evs).1 i (0 + k)
        (strip { p' with overflow := (emitAll s.tcap s.tEvent p0.overflow evs).2, evq := evq, alive := al })
        = wB s.tEvent i (0 + k) (strip p0) := by
      unfold wB strip
      simp only [Nat.zero_add]
      rw [(hself i).2]
    show _ = sumI (wB (emitAll s.tcap s.tEvent p0.overflow evs).1 i) 0 _
    omega

end Storrent.Sched

namespace Storrent.Sched

theorem length_of_map_eq {α β : Type} (h : α → β) (l l' : List α) (e : l'.map h = l.map h) : l'.length = l.length := by
  have := congrArg List.length e
  simpa using this

theorem finv_frame (s s' : State) (hF : FInv s) (hp : s'.peers.map strip = s.peers.map strip)
    (ht : ∀ i k, sigs i k s'.tEvent = sigs i k s.tEvent)
    (htag : ∀ e ∈ s'.tEvent, e ∈ s.tEvent ∨ tagOf e = none)
    (hav : s'.avail = s.avail) (hau : s'.aunder = s.aunder) (hs : s'.sat = false → s.sat = false) : FInv s' := by
  have hlen := length_of_map_eq strip _ _ hp
  refine ⟨?_, ?_, ?_, ?_⟩
  · intro e he k hk
    rw [hlen]
    rcases htag e he with h | h
    · exact hF.tagT e h k hk
    · rw [h] at hk; cases hk
  · intro k p' hp' e he
    obtain ⟨p, a, b⟩ := get_of_map_eq strip _ _ hp k p' hp'
    simp only [strip, Prod.mk.injEq] at b
    exact hF.tagO k p a e (by rw [b.2.2.2]; exact he)
  · intro i k p' hp'
    obtain ⟨p, a, b⟩ := get_of_map_eq strip _ _ hp k p' hp'
    simp only [strip, Prod.mk.injEq] at b
    rw [ht, ← b.1, ← b.2.2.2]
    exact hF.alt i k p a
  · intro hsat
    obtain ⟨a1, a2⟩ := hF.val (hs hsat)
    refine ⟨by rw [hau]; exact a1, fun i => ?_⟩
    rw [hav, a2 i, hp]
    exact (sumI_congr _ _ (fun j t => by unfold wB; rw [ht]) _ 0).symm

theorem sigs_append_untagged (i k : Nat) (l : List TorEv) (e : TorEv) (h : tagOf e = none) :
    sigs i k (l ++ [e]) = sigs i k l := by
  simp [sgn_none i k e h]

theorem finv_flush (s : State) (hF : FInv s) (k : Nat) (p : Peer) (h : s.peers[k]? = some p) (fuel : Nat) :
    FInv { s with tEvent := (flushLoop s.tcap fuel s.tEvent p.overflow).1,
                  peers := setN s.peers k { p with overflow := (flushLoop s.tcap fuel s.tEvent p.overflow).2 } } := by
  have hk : k < s.peers.length := lt_of_get _ _ _ h
  have hmem := flushLoop_mem s.tcap fuel s.tEvent p.overflow
  have htagp := hF.tagO k p h
  have hother : ∀ i j, j ≠ k → sigs i j (flushLoop s.tcap fuel s.tEvent p.overflow).1 = sigs i j s.tEvent :=
    fun i j hj => flushLoop_sigs_other i j k s.tcap hj fuel s.tEvent p.overflow htagp
  refine ⟨?_, ?_, ?_, ?_⟩
  · intro e he j hj
    simp only [length_setN]
    rcases hmem.1 e he with h1 | h1
    · exact hF.tagT e h1 j hj
    · rcases htagp e h1 with h2 | h2
      · rw [h2] at hj; cases hj
      · rw [h2] at hj; simp at hj; omega
  · intro j q hq e he
    rw [getElem?_setN] at hq
    split at hq
    · rename_i hc
      simp at hq; subst hq
      obtain ⟨rfl, _⟩ := hc
      exact htagp e (hmem.2 e he)
    · exact hF.tagO j q hq e he
  · intro i j q hq
    rw [getElem?_setN] at hq
    split at hq
    · rename_i hc
      simp at hq; subst hq
      obtain ⟨rfl, _⟩ := hc
      show altOK (getB p.bits i) (sigs i k (flushLoop s.tcap fuel s.tEvent p.overflow).1 ++
        sigs i k (flushLoop s.tcap fuel s.tEvent p.overflow).2)
      rw [flushLoop_sigs]
      exact hF.alt i k p h
    · rename_i hc
      have hj : j ≠ k := fun e => hc ⟨e.symm, hk⟩
      show altOK _ (sigs i j (flushLoop s.tcap fuel s.tEvent p.overflow).1 ++ _)
      rw [hother i j hj]
      exact hF.alt i j q hq
  · intro hs
    obtain ⟨a1, a2⟩ := hF.val hs
    refine ⟨a1, fun i => ?_⟩
    show getN s.avail i = sumI (wB (flushLoop s.tcap fuel s.tEvent p.overflow).1 i) 0 ((setN s.peers k _).map strip)
    rw [a2 i, map_setN]
    have := sumI_change (wB s.tEvent i) (wB (flushLoop s.tcap fuel s.tEvent p.overflow).1 i) (s.peers.map strip) 0 k
      (strip p) (strip { p with overflow := (flushLoop s.tcap fuel s.tEvent p.overflow).2 })
      (get_map_strip _ _ _ h)
      (fun j t hj => by
        unfold wB
        rw [hother i j (by omega)])
    have e : wB (flushLoop s.tcap fuel s.tEvent p.overflow).1 i (0 + k)
        (strip { p with overflow := (flushLoop s.tcap fuel s.tEvent p.overflow).2 })
        = wB s.tEvent i (0 + k) (strip p) := by
      unfold wB strip
      simp only [Nat.zero_add]
      rw [flushLoop_sigs]
    omega

theorem finv_connect (s : State) (hF : FInv s) (p : Peer)
    (hp : p.bits = List.replicate s.g.npieces false ∧ p.overflow = []) :
    FInv { s with peers := s.peers ++ [p] } := by
  obtain ⟨h1, h2⟩ := hp
  have hz : ∀ j, getB p.bits j = false := by intro j; rw [h1, getB_replicate]; split <;> rfl
  have hnew : ∀ i, sigs i s.peers.length s.tEvent = [] := by
    intro i
    have : ∀ (l : List TorEv), (∀ e ∈ l, ∀ k, tagOf e = some k → k < s.peers.length) → sigs i s.peers.length l = [] := by
      intro l
      induction l with
      | nil => intro _; rfl
      | cons e es ih =>
        intro hb
        rw [sigs_cons, ih (fun x hx => hb x (by simp [hx]))]
        cases ht : tagOf e with
        | none => rw [sgn_none i _ e ht]; rfl
        | some k' =>
          have := hb e (by simp) k' ht
          rw [sgn_other i _ k' e ht (by omega)]; rfl
    exact this s.tEvent hF.tagT
  refine ⟨?_, ?_, ?_, ?_⟩
  · intro e he k hk
    have := hF.tagT e he k hk
    simp; omega
  · intro k q hq e he
    rcases Nat.lt_or_ge k s.peers.length with hl | hl
    · rw [List.getElem?_append_left hl] at hq
      exact hF.tagO k q hq e he
    · rw [List.getElem?_append_right hl] at hq
      have : k - s.peers.length = 0 := by
        rcases Nat.eq_zero_or_pos (k - s.peers.length) with h | h
        · exact h
        · rw [List.getElem?_eq_none (by simp; omega)] at hq; cases hq
      rw [this] at hq; simp at hq; subst hq
      rw [h2] at he; cases he
  · intro i k q hq
    rcases Nat.lt_or_ge k s.peers.length with hl | hl
    · rw [List.getElem?_append_left hl] at hq
      exact hF.alt i k q hq
    · rw [List.getElem?_append_right hl] at hq
      have hk0 : k - s.peers.length = 0 := by
        rcases Nat.eq_zero_or_pos (k - s.peers.length) with h | h
        · exact h
        · rw [List.getElem?_eq_none (by simp; omega)] at hq; cases hq
      rw [hk0] at hq; simp at hq; subst hq
      have hk : k = s.peers.length := by omega
      subst hk
      show altOK _ (sigs i s.peers.length s.tEvent ++ sigs i s.peers.length p.overflow)
      rw [hnew i, h2]; exact trivial
  · intro hs
    obtain ⟨a1, a2⟩ := hF.val hs
    refine ⟨a1, fun i => ?_⟩
    show getN s.avail i = sumI (wB s.tEvent i) 0 ((s.peers ++ [p]).map strip)
    rw [a2 i, List.map_append, List.map_cons, List.map_nil, sumI_append_one]
    have : wB s.tEvent i (0 + (s.peers.map strip).length) (strip p) = 0 := by
      unfold wB strip
      simp only [List.length_map, Nat.zero_add]
      rw [hnew i, h2, hz i]; rfl
    omega

end Storrent.Sched

namespace Storrent.Sched

/-! ### the torrent applies an availability event -/

theorem lt_of_getN_pos (l : List Nat) (i : Nat) (h : 0 < getN l i) : i < l.length := by
  rcases Nat.lt_or_ge i l.length with h1 | h1
  · exact h1
  · rw [getN_ge _ _ h1] at h; omega

theorem noteAvail_dec (s : State) (i : Nat) (h : 0 < getN s.avail i) :
    noteAvail s i false = { s with avail := setN s.avail i (getN s.avail i - 1) } := by
  have hl := lt_of_getN_pos _ _ h
  unfold noteAvail
  simp only [Bool.false_eq_true, if_false]
  rw [if_neg (show ¬ s.avail.length ≤ i by omega), if_neg (show ¬ getN s.avail i = 0 by omega)]

theorem noteAvailAll_false : ∀ (bits : List Nat) (s : State), (∀ j, cnt j bits ≤ getN s.avail j) →
    (bits.foldl (fun s i => noteAvail s i false) s).aunder = s.aunder := by
  intro bits
  induction bits with
  | nil => intro s _; rfl
  | cons i is ih =>
    intro s h
    have hi : 0 < getN s.avail i := by have := h i; simp at this; omega
    simp only [List.foldl_cons]
    rw [noteAvail_dec s i hi, ih]
    intro j
    show cnt j is ≤ getN (setN s.avail i (getN s.avail i - 1)) j
    rw [getN_setN]
    have := h j
    simp at this
    split
    · rename_i hc; obtain ⟨rfl, _⟩ := hc; simp at this; omega
    · rename_i hc
      have : ¬ i = j := fun e => hc ⟨e, lt_of_getN_pos _ _ hi⟩
      simp [this] at *; omega

theorem noteAvail_true_aunder (s : State) (i : Nat) : (noteAvail s i true).aunder = s.aunder := by
  unfold noteAvail
  simp only [if_true]
  split <;> split <;> rfl

theorem noteAvailAll_true : ∀ (bits : List Nat) (s : State),
    (bits.foldl (fun s i => noteAvail s i true) s).aunder = s.aunder := by
  intro bits
  induction bits with
  | nil => intro s; rfl
  | cons i is ih => intro s; simp only [List.foldl_cons]; rw [ih, noteAvail_true_aunder]

theorem setN_same {α : Type} (l : List α) (k : Nat) (x : α) (h : l[k]? = some x) : setN l k x = l := by
  induction l generalizing k with
  | nil => rfl
  | cons y ys ih =>
    cases k with
    | zero => simp at h; subst h; rfl
    | succ k => simp at h; simp [setN, ih k h]

/-- popping an availability event of peer `p` that touches the pieces `bits` -/
theorem finv_pop (s : State) (hF : FInv s) (e : TorEv) (rest : List TorEv) (h : s.tEvent = e :: rest)
    (p : Nat) (bits : List Nat) (hv : Bool) (htag : tagOf e = some p)
    (hsgn : ∀ i k, sgn i k e = if p = k then List.replicate (cnt i bits) hv else []) :
    FInv (bits.foldl (fun s i => noteAvail s i hv) { s with tEvent := rest }) := by
  have hp : p < s.peers.length := hF.tagT e (by rw [h]; simp) p htag
  obtain ⟨pr, hpr⟩ : ∃ pr, s.peers[p]? = some pr := ⟨s.peers[p], by simp [hp]⟩
  have hsig : ∀ i k, sigs i k s.tEvent = (if p = k then List.replicate (cnt i bits) hv else []) ++ sigs i k rest := by
    intro i k; rw [h, sigs_cons, hsgn]
  -- what the alternation says about peer p
  have hpop : ∀ i, cnt i bits ≤ 1 ∧ altOK (getB pr.bits i) (sigs i p rest ++ sigs i p pr.overflow) ∧
      (cnt i bits = 1 → acct (getB pr.bits i) (sigs i p rest ++ sigs i p pr.overflow) = hv ∧
        acct (getB pr.bits i) (sigs i p s.tEvent ++ sigs i p pr.overflow) = !hv) := by
    intro i
    have := hF.alt i p pr hpr
    rw [hsig i p, if_pos rfl, List.append_assoc] at this
    have r := altOK_pop_replicate _ hv (cnt i bits) _ this
    refine ⟨r.1, r.2.1, fun hc => ?_⟩
    rw [hsig i p, if_pos rfl, List.append_assoc]
    exact r.2.2 hc
  obtain ⟨av, sat, au, e1, hsp⟩ := noteAvailAll_av hv bits { s with tEvent := rest }
  obtain ⟨_, sat2, _, e2, hsat⟩ := noteAvailAll_spec hv bits { s with tEvent := rest }
  have hau : s.sat = false → (bits.foldl (fun s i => noteAvail s i hv) { s with tEvent := rest }).aunder = false := by
    intro hs
    obtain ⟨a1, a2⟩ := hF.val hs
    cases hv with
    | true => rw [noteAvailAll_true]; exact a1
    | false =>
      rw [noteAvailAll_false]
      · exact a1
      · intro j
        show cnt j bits ≤ getN s.avail j
        rcases Nat.eq_zero_or_pos (cnt j bits) with hz | hz
        · omega
        · have hc1 : cnt j bits = 1 := by have := (hpop j).1; omega
          have hw : wB s.tEvent j (0 + p) (strip pr) = 1 := by
            unfold wB strip
            simp only [Nat.zero_add]
            rw [((hpop j).2.2 hc1).2]; rfl
          have := le_sumI (wB s.tEvent j) (s.peers.map strip) 0 p (strip pr) (get_map_strip _ _ _ hpr)
          rw [a2 j]; omega
  have hstate : (bits.foldl (fun s i => noteAvail s i hv) { s with tEvent := rest }).tEvent = rest ∧
      (bits.foldl (fun s i => noteAvail s i hv) { s with tEvent := rest }).peers = s.peers := by
    rw [e1]; exact ⟨rfl, rfl⟩
  refine ⟨?_, ?_, ?_, ?_⟩
  · intro x hx k hk
    rw [hstate.1] at hx; rw [hstate.2]
    exact hF.tagT x (by rw [h]; simp [hx]) k hk
  · intro k q hq x hx
    rw [hstate.2] at hq
    exact hF.tagO k q hq x hx
  · intro i k q hq
    rw [hstate.2] at hq
    rw [hstate.1]
    by_cases hk : p = k
    · subst hk
      have : q = pr := by rw [hpr] at hq; simp at hq; exact hq.symm
      subst this
      exact (hpop i).2.1
    · have := hF.alt i k q hq
      rw [hsig i k, if_neg hk] at this
      simpa using this
  · intro hs'
    have hs2 : sat2 = false := by rw [e2] at hs'; exact hs'
    have hs : s.sat = false := hsat hs2
    have hau' := hau hs
    refine ⟨hau', fun i => ?_⟩
    obtain ⟨a1, a2⟩ := hF.val hs
    have hsat1 : sat = false := by rw [e1] at hs'; exact hs'
    have hau1 : au = false := by rw [e1] at hau'; exact hau'
    obtain ⟨_, _, b3⟩ := hsp hau1 hsat1
    have harith := b3 i
    rw [hstate.1, hstate.2]
    have hav : (bits.foldl (fun s i => noteAvail s i hv) { s with tEvent := rest }).avail = av := by rw [e1]
    rw [hav]
    have hch := sumI_change (wB s.tEvent i) (wB rest i) (s.peers.map strip) 0 p (strip pr) (strip pr)
      (get_map_strip _ _ _ hpr)
      (fun j t hj => by
        unfold wB
        rw [hsig i j, if_neg (show ¬ p = j by omega)]; rfl)
    rw [setN_same _ _ _ (get_map_strip _ _ _ hpr)] at hch
    have hw : wB rest i (0 + p) (strip pr) + (if hv then 0 else cnt i bits)
        = wB s.tEvent i (0 + p) (strip pr) + (if hv then cnt i bits else 0) := by
      rcases Nat.eq_zero_or_pos (cnt i bits) with hz | hz
      · unfold wB strip
        simp only [Nat.zero_add]
        rw [hsig i p, if_pos rfl, hz]
        cases hv <;> simp
      · have hc1 : cnt i bits = 1 := by have := (hpop i).1; omega
        obtain ⟨c1, c2⟩ := (hpop i).2.2 hc1
        unfold wB strip
        simp only [Nat.zero_add]
        rw [c1, c2, hc1]
        cases hv <;> simp
    have a2i := a2 i
    simp only [] at harith
    omega

end Storrent.Sched

namespace Storrent.Sched

/-- `te'` carries the same availability events as `te`, in the same order -/
structure TSame (te te' : List TorEv) : Prop where
  sig : ∀ i k, sigs i k te' = sigs i k te
  mem : ∀ e ∈ te', e ∈ te ∨ tagOf e = none

theorem TSame.refl (te : List TorEv) : TSame te te := ⟨fun _ _ => rfl, fun _ h => Or.inl h⟩
theorem TSame.append (te : List TorEv) (e : TorEv) (h : tagOf e = none) : TSame te (te ++ [e]) :=
  ⟨fun i k => sigs_append_untagged i k te e h, fun x hx => by
    rcases List.mem_append.mp hx with hx | hx
    · exact Or.inl hx
    · simp at hx; subst hx; exact Or.inr h⟩
theorem TSame.pop (te rest : List TorEv) (e : TorEv) (he : te = e :: rest) (h : tagOf e = none) : TSame te rest :=
  ⟨fun i k => by rw [he, sigs_cons, sgn_none i k e h]; rfl, fun x hx => Or.inl (by rw [he]; simp [hx])⟩

theorem finv_frameT (s s' : State) (hF : FInv s) (hp : s'.peers.map strip = s.peers.map strip)
    (hT : TSame s.tEvent s'.tEvent)
    (hav : s'.avail = s.avail) (hau : s'.aunder = s.aunder) (hs : s'.sat = false → s.sat = false) : FInv s' :=
  finv_frame s s' hF hp hT.sig hT.mem hav hau hs

theorem finv_setPeer (s : State) (hF : FInv s) (k : Nat) (p0 p1 : Peer) (h : s.peers[k]? = some p0)
    (hb : p1.bits = p0.bits) (hn : p1.bmNil = p0.bmNil) (ha : p1.alive = p0.alive) (ho : p1.overflow = p0.overflow) :
    FInv { s with peers := setN s.peers k p1 } :=
  finv_frameT s _ hF (map_setN_same strip s.peers k p0 p1 h (by simp [strip, hb, hn, ha, ho])) (TSame.refl _) rfl rfl id

theorem finv_handleTorEv (s : State) (hF : FInv s) (e : TorEv) (rest : List TorEv) (h : s.tEvent = e :: rest) :
    FInv (handleTorEv { s with tEvent := rest } e) := by
  cases e with
  | data src idx begin len c =>
    have hT := TSame.pop s.tEvent rest _ h rfl
    simp only [handleTorEv]
    split
    · exact finv_frameT s _ hF rfl hT rfl rfl id
    · obtain ⟨inf, und, pan, prs, e1, hs⟩ := dataLoop_strip src (covRange s.g idx begin len) { s with tEvent := rest }
      rw [e1]
      exact finv_frameT s _ hF hs hT rfl rfl id
  | drop idx begin len =>
    have hT := TSame.pop s.tEvent rest _ h rfl
    simp only [handleTorEv]
    obtain ⟨inf, und, pan, e1, _, _⟩ := decrAll_spec (covRange s.g idx begin len) { s with tEvent := rest }
    rw [e1]
    exact finv_frameT s _ hF rfl hT rfl rfl id
  | unchoke p b => exact finv_frameT s _ hF rfl (TSame.pop s.tEvent rest _ h rfl) rfl rfl id
  | goaway p =>
    have hT := TSame.pop s.tEvent rest _ h rfl
    simp only [handleTorEv]
    split
    · exact finv_frameT s _ hF rfl hT rfl rfl id
    · rename_i pr hpr
      split
      · exact finv_frameT s _ hF rfl hT rfl rfl id
      · obtain ⟨inf, und, pan, e1, _, _⟩ := decrAll_spec (pr.evq.flatMap reqChunks)
          { s with tEvent := rest, peers := setN s.peers p { pr with present := false, evq := [] } }
        rw [e1]
        exact finv_frameT s _ hF (map_setN_same strip s.peers p pr _ hpr rfl) hT rfl rfl id
  | bitmap p bits hv =>
    simp only [handleTorEv]
    exact finv_pop s hF _ rest h p bits hv rfl (fun i k => rfl)
  | phave p idx hv =>
    have : handleTorEv { s with tEvent := rest } (.phave p idx hv)
        = [idx].foldl (fun s i => noteAvail s i hv) { s with tEvent := rest } := rfl
    rw [this]
    refine finv_pop s hF _ rest h p [idx] hv rfl (fun i k => ?_)
    simp only [sgn, cnt_cons, cnt_nil]
    by_cases h1 : p = k <;> by_cases h2 : idx = i <;> simp [h1, h2]

theorem step_finv (s : State) (op : Op) (hF : FInv s) (hA : AInv s) : FInv (step s op).1 := by
  have hW := hA.1
  unfold step
  split
  · exact hF
  · cases op with
    | connect fast evcap wcap => exact finv_connect s hF _ ⟨rfl, rfl⟩
    | request i cs ad =>
      simp only []
      split
      · exact hF
      · rename_i p hp
        split
        · exact hF
        · split
          · exact hF
          · split
            · exact hF
            · split
              · exact hF
              · obtain ⟨f1, f2, f3, f4, f5, _⟩ := incrAll_frame
                  { s with peers := setN s.peers i { p with evq := p.evq ++ [.request cs] } } cs
                refine finv_frameT s _ hF ?_ (by rw [f3]; exact TSame.refl _) f4 f5 (incrAll_sat cs _)
                rw [f2]; exact map_setN_same strip s.peers i p _ hp rfl
    | push i e =>
      simp only []
      split
      · exact hF
      · rename_i p hp
        split
        · exact hF
        · split
          · exact hF
          · cases e with
            | request cs => exact hF
            | cancel c => exact finv_setPeer s hF i p _ hp rfl rfl rfl rfl
            | cancelPiece c => exact finv_setPeer s hF i p _ hp rfl rfl rfl rfl
            | done => exact finv_setPeer s hF i p _ hp rfl rfl rfl rfl
            | metadata => exact finv_setPeer s hF i p _ hp rfl rfl rfl rfl
    | peerEvent i slow =>
      simp only []
      split
      · exact hF
      · rename_i p hp
        split
        · exact hF
        · split
          · exact hF
          · rename_i e rest he
            have hbo : BitsOK s.g { p with evq := rest } := hW.bits p (mem_of_get _ _ _ hp)
            exact finv_commitPeer s hF i p hp rest true _ _
              (fun j => (handlePeerEv_flips s.g i { p with evq := rest } e slow j hbo).1)
              (handlePeerEv_flips s.g i { p with evq := rest } e slow 0 hbo).2
    | peerMsg i m slow =>
      simp only []
      split
      · exact hF
      · rename_i p hp
        split
        · exact hF
        · have hbo := hW.bits p (mem_of_get _ _ _ hp)
          have hF' : FInv { s with pieces := (handleMsg s.g s.pieces i p m slow).2.2.2.1 } :=
            finv_frameT s _ hF rfl (TSame.refl _) rfl rfl id
          exact finv_commitPeer _ hF' i p hp p.evq true _ _
            (fun j => (handleMsg_flips s.g s.pieces i p m slow j hbo).1)
            (handleMsg_flips s.g s.pieces i p m slow 0 hbo).2
    | tick i rto slow =>
      simp only []
      split
      · exact hF
      · rename_i p hp
        split
        · exact hF
        · split
          · exact hF
          · generalize (min rto 5000 + (if p.canFast then 2000 else 0)) = to
            obtain ⟨x1, x2⟩ := expireLoop_av neutral_tagW s.g to (p.requested.length + 1) 0 p [] false
            split
            · obtain ⟨m1, m2⟩ := maybeRequest_av neutral_tagW s.g slow
                (expireLoop s.g to (p.requested.length + 1) 0 p [] false).1
                (expireLoop s.g to (p.requested.length + 1) 0 p [] false).2.1
              have hsb := x1.trans' m1
              have hz : sumL tagW (maybeRequest s.g slow (expireLoop s.g to (p.requested.length + 1) 0 p [] false).1
                  (expireLoop s.g to (p.requested.length + 1) 0 p [] false).2.1).2 = 0 := by rw [m2, x2]; rfl
              exact finv_commitPeer s hF i p hp p.evq true _ _
                (fun j => (quiet_flips j i p _ _ hsb hz).1) (quiet_flips 0 i p _ _ hsb hz).2
            · have hz : sumL tagW (expireLoop s.g to (p.requested.length + 1) 0 p [] false).2.1 = 0 := by rw [x2]; rfl
              exact finv_commitPeer s hF i p hp p.evq true _ _
                (fun j => (quiet_flips j i p _ _ x1 hz).1) (quiet_flips 0 i p _ _ x1 hz).2
    | age i d =>
      simp only []
      split
      · exact hF
      · rename_i p hp
        exact finv_setPeer s hF i p _ hp rfl rfl rfl rfl
    | exit i =>
      simp only []
      split
      · exact hF
      · rename_i p hp
        split
        · exact hF
        · have hz : ∀ j, getB (List.replicate s.g.npieces false) j = false := by
            intro j; rw [getB_replicate]; split <;> rfl
          refine finv_commitPeer s hF i p hp p.evq false _ _ (fun j => ?_) (exitEvents_flips s.g i p 0).2
          have := (exitEvents_flips s.g i p j).1
          show Flips _ _ (getB (List.replicate s.g.npieces false) j)
          rw [hz j]; exact this
    | flush i =>
      simp only []
      split
      · exact hF
      · rename_i p hp
        exact finv_flush s hF i p hp _
    | torEvent =>
      simp only []
      split
      · exact hF
      · rename_i e rest he
        split
        · exact finv_frameT s _ hF rfl (TSame.refl _) rfl rfl id
        · exact finv_handleTorEv s hF e rest he
    | wdrain i =>
      simp only []
      split
      · exact hF
      · rename_i p hp
        exact finv_setPeer s hF i p _ hp rfl rfl rfl rfl
    | wfill i k =>
      simp only []
      split
      · exact hF
      · rename_i p hp
        split
        · exact hF
        · exact finv_setPeer s hF i p _ hp rfl rfl rfl rfl
    | wsReserve idx =>
      simp only []
      split
      · exact hF
      · split
        · exact hF
        · rename_i o l0 _
          generalize (if l0 > 1048576 then 1048576 else l0) = l
          split
          · exact finv_frameT s _ hF rfl (TSame.refl _) rfl rfl id
          · obtain ⟨f1, f2, f3, f4, f5, _⟩ := incrAll_frame s (wsChunks s.g idx o l)
            exact finv_frameT s _ hF (by rw [f2]) (by rw [f3]; exact TSame.refl _) f4 f5 (incrAll_sat _ _)
    | wWrite w n =>
      simp only []
      split
      · exact hF
      · rename_i wr hwr
        split
        · exact hF
        · split
          · exact hF
          · split
            · exact finv_frameT s _ hF rfl (TSame.refl _) rfl rfl id
            · split
              · split
                · exact finv_frameT s _ hF rfl (TSame.refl _) rfl rfl id
                · exact finv_frameT s _ hF rfl (TSame.append _ _ rfl) rfl rfl id
              · exact finv_frameT s _ hF rfl (TSame.refl _) rfl rfl id
    | wClose w =>
      simp only []
      split
      · exact hF
      · rename_i wr hwr
        split
        · exact hF
        · split
          · split
            · exact finv_frameT s _ hF rfl (TSame.refl _) rfl rfl id
            · exact finv_frameT s _ hF rfl (TSame.append _ _ rfl) rfl rfl id
          · exact finv_frameT s _ hF rfl (TSame.refl _) rfl rfl id
    | finalise idx =>
      simp only []
      split
      · exact hF
      · split
        · exact finv_frameT s _ hF rfl (TSame.refl _) rfl rfl id
        · exact hF
    | metaComplete =>
      simp only []
      split
      · exact hF
      · split
        · exact finv_frameT s _ hF rfl (TSame.refl _) rfl rfl id
        · exact finv_frameT s _ hF (castMeta_strip s.peers) (TSame.refl _) rfl rfl id

theorem init_finv (g : Geom) (tcap : Nat) : FInv (init g tcap) := by
  refine ⟨?_, ?_, ?_, ?_⟩
  · intro e he; simp [init] at he
  · intro k p hp; simp [init] at hp
  · intro i k p hp; simp [init] at hp
  · intro _
    exact ⟨rfl, fun i => by simp [init, sumI, getN]⟩

theorem run_finv (ops : List Op) : ∀ (s : State), FInv s → AInv s → FInv (run s ops) := by
  induction ops with
  | nil => intro s h _; exact h
  | cons op ops ih => intro s h hA; exact ih _ (step_finv s op h hA) (step_ainv s op hA)

end Storrent.Sched
