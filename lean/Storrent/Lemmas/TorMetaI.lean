import Storrent.Lemmas.TorI
/- torrent-side lemmas about the metadata buffers (metadataVote / resizeMetadata /
   requestMetadata / gotMetadata) and the frames of the counters -/
namespace Storrent.PeerMsg
open Storrent

/-- the metadata-side invariant of a torrent: votes and buffers within `metadataVote`'s cap,
    the request table sized like the buffer, the guard of gotMetadata is `>=` -/
structure TorInv (t : TorState) : Prop where
  votes_cap : ∀ kv, kv ∈ t.votes → kv.1 ≤ metaCap
  info_cap : t.infoLen ≤ metaCap
  req_len : t.infoRequested.length = (t.infoLen + 16383) / 16384
  guard : t.metaGuardGe = true

/-- everything the metadata buffers can cost: the buffer, its request table, the permutation -/
def metaConst : Nat := metaCap + 9 * ((metaCap + 16383) / 16384)

theorem requestMetadata_spec (t : TorState) (env : TorEnv) (hi : TorInv t) (t' : TorState) (a : Nat)
    (h : requestMetadata t env = some (t', a)) : TorInv t' ∧ a ≤ metaConst ∧ t'.infoComplete = t.infoComplete := by
  unfold requestMetadata at h
  split at h
  · cases h
  rename_i hg
  have hguess : env.guess ≤ metaCap := by
    simp only [Bool.not_eq_true, Bool.not_eq_false', List.any_eq_true] at hg
    obtain ⟨x, hx, hx2⟩ := hg
    have := hi.votes_cap x hx
    simp only [Bool.and_eq_true, beq_iff_eq] at hx2
    omega
  -- the state after the (possible) resize
  have key : ∀ (t1 : TorState) (a1 : Nat), TorInv t1 → a1 ≤ metaCap + (metaCap + 16383) / 16384 →
      t1.infoComplete = t.infoComplete →
      (match env.getMeta with
        | none => some (t1, a1 + 8 * t1.infoRequested.length)
        | some j =>
          if j < t1.infoRequested.length ∧ (!bmGet t1.infoBits j) = true then
            some ({ t1 with infoRequested := t1.infoRequested.modify j fun x => x + 1 }, a1 + 8 * t1.infoRequested.length)
          else none) = some (t', a) →
      TorInv t' ∧ a ≤ metaConst ∧ t'.infoComplete = t.infoComplete := by
    intro t1 a1 h1 ha1 hic hm
    have hlen : t1.infoRequested.length ≤ (metaCap + 16383) / 16384 := by
      rw [h1.req_len]; have := h1.info_cap; unfold metaCap at *; omega
    cases hgm : env.getMeta with
    | none =>
      rw [hgm] at hm
      simp only [Option.some.injEq, Prod.mk.injEq] at hm
      obtain ⟨rfl, rfl⟩ := hm
      exact ⟨h1, by unfold metaConst; omega, hic⟩
    | some j =>
      rw [hgm] at hm
      dsimp only at hm
      split at hm
      · simp only [Option.some.injEq, Prod.mk.injEq] at hm
        obtain ⟨rfl, rfl⟩ := hm
        refine ⟨⟨h1.votes_cap, h1.info_cap, ?_, h1.guard⟩, by unfold metaConst; omega, hic⟩
        simp [h1.req_len]
      · cases hm
  dsimp only at h
  by_cases hne : t.infoLen = env.guess
  · have hn : ¬ (t.infoLen ≠ env.guess) := by simp [hne]
    rw [if_neg hn] at h
    dsimp only at h
    exact key t 0 hi (Nat.zero_le _) rfl h
  · have hn : t.infoLen ≠ env.guess := hne
    rw [if_pos hn] at h
    dsimp only at h
    have hle : (env.guess + 16383) / 16384 ≤ (metaCap + 16383) / 16384 := Nat.div_le_div_right (by omega)
    refine key { t with infoLen := env.guess, infoBits := [], infoRequested := List.replicate ((env.guess + 16383) / 16384) 0 } (env.guess + (env.guess + 16383) / 16384) ?_ ?_ rfl h
    · exact ⟨hi.votes_cap, hguess, by simp, hi.guard⟩
    · omega


/-- what the counter updates leave alone: everything but the contents of the two tables -/
structure SameMeta (t t' : TorState) : Prop where
  ic : t'.infoComplete = t.infoComplete
  il : t'.infoLen = t.infoLen
  ir : t'.infoRequested = t.infoRequested
  vo : t'.votes = t.votes
  gd : t'.metaGuardGe = t.metaGuardGe
  ps : t'.pieceSize = t.pieceSize
  ln : t'.length = t.length
  fl : t'.inFlight.len = t.inFlight.len

theorem SameMeta.refl (t : TorState) : SameMeta t t := ⟨rfl, rfl, rfl, rfl, rfl, rfl, rfl, rfl⟩
theorem SameMeta.trans {a b c : TorState} (h1 : SameMeta a b) (h2 : SameMeta b c) : SameMeta a c :=
  ⟨h2.ic.trans h1.ic, h2.il.trans h1.il, h2.ir.trans h1.ir, h2.vo.trans h1.vo, h2.gd.trans h1.gd,
   h2.ps.trans h1.ps, h2.ln.trans h1.ln, h2.fl.trans h1.fl⟩

theorem SameMeta.inv {t t' : TorState} (h : SameMeta t t') (hi : TorInv t) : TorInv t' :=
  ⟨by rw [h.vo]; exact hi.votes_cap, by rw [h.il]; exact hi.info_cap, by rw [h.ir, h.il]; exact hi.req_len,
    by rw [h.gd]; exact hi.guard⟩

theorem noteAvailable_same (t : TorState) (i : Nat) (h : Bool) : SameMeta t (noteAvailable t i h).1 := by
  unfold noteAvailable
  dsimp only
  split <;> exact ⟨rfl, rfl, rfl, rfl, rfl, rfl, rfl, rfl⟩

theorem foldAvail_same (l : List Nat) (h : Bool) (t : TorState) :
    SameMeta t (l.foldl (fun t i => (noteAvailable t i h).1) t) := by
  induction l generalizing t with
  | nil => exact SameMeta.refl t
  | cons a l ih =>
    simp only [List.foldl_cons]
    exact (noteAvailable_same t a h).trans (ih (noteAvailable t a h).1)

theorem releaseInFlight_same (t t' : TorState) (ch : Nat) (h : releaseInFlight t ch = some t') : SameMeta t t' := by
  unfold releaseInFlight at h
  split at h
  · cases h
  · simp only [Option.some.injEq] at h
    subst h
    split
    · exact SameMeta.refl t
    · exact ⟨rfl, rfl, rfl, rfl, rfl, rfl, rfl, sparse_set_len _ _ _⟩

theorem releaseLoop_same (n : Nat) : ∀ (t t' : TorState) (base i0 : Nat),
    releaseLoop t base n i0 = some t' → SameMeta t t' := by
  induction n with
  | zero => intro t t' base i0 h; cases h; exact SameMeta.refl t
  | succ n ih =>
    intro t t' base i0 h
    unfold releaseLoop at h
    split at h
    · cases h
    · rename_i t1 h1
      exact (releaseInFlight_same _ _ _ h1).trans (ih _ _ _ _ h)

/-- the geometry invariant of a torrent whose metadata is known (what tor.MetadataComplete
    establishes): piece size a positive multiple of 16 KiB, one in-flight slot per block,
    fewer than 2^32 blocks -/
structure Geom.Valid (t : TorState) : Prop where
  ps_pos : CS ≤ t.pieceSize
  ps_mul : t.pieceSize % CS = 0
  slots : t.inFlight.len = chunksOf t.length
  small : chunksOf t.length < U32

/-- the geometry the environment reports for completed metadata is one
    tor.MetadataComplete accepts -/
def EnvValid (env : TorEnv) : Prop :=
  CS ≤ env.pieceSize ∧ env.pieceSize % CS = 0 ∧ chunksOf env.length < U32

/-- invariant of the torrent state: metadata buffers within their cap and consistently
    sized; geometry valid once the metadata is complete -/
structure TInv (t : TorState) : Prop where
  md : TorInv t
  geom : t.infoComplete = true → Geom.Valid t

theorem geom_same {t t' : TorState} (h : SameMeta t t') (hg : t.infoComplete = true → Geom.Valid t) :
    t'.infoComplete = true → Geom.Valid t' := by
  intro hic
  have g := hg (by rw [← h.ic]; exact hic)
  exact ⟨by rw [h.ps]; exact g.ps_pos, by rw [h.ps]; exact g.ps_mul, by rw [h.fl, h.ln]; exact g.slots,
    by rw [h.ln]; exact g.small⟩

theorem tinv_same {t t' : TorState} (h : SameMeta t t') (hi : TInv t) : TInv t' :=
  ⟨h.inv hi.md, geom_same h hi.geom⟩

/-- a state whose metadata is still incomplete has no geometry obligation -/
theorem tinv_incomplete {t : TorState} (h : TorInv t) (hic : t.infoComplete = false) : TInv t :=
  ⟨h, fun h' => by rw [hic] at h'; cases h'⟩

theorem arm_peerExtended (t : TorState) (n : Nat) (env : TorEnv) (hT : TInv t) :
    (∀ w, (torPeerExtended t n env).res ≠ .panic w) ∧
    (torPeerExtended t n env).alloc ≤ 48 + metaConst ∧
    TInv (torPeerExtended t n env).t := by
  have hi := hT.md
  unfold torPeerExtended
  dsimp only
  split
  · exact ⟨by simp, by simp, hT⟩
  rename_i hic0
  have hic : t.infoComplete = false := by simpa using hic0
  split
  · exact ⟨by simp, by simp, hT⟩
  split
  · exact ⟨by simp, by simp, hT⟩
  rename_i _ hcap
  have hn : n ≤ metaCap := by omega
  -- the votes after this one
  have hv : ∀ (vs : List (Nat × Nat)), (∀ kv, kv ∈ vs → kv.1 ≤ metaCap) →
      ∀ kv, kv ∈ (match vs.find? (fun (kv : Nat × Nat) => kv.1 == n) with
        | some _ => vs.map (fun (kv : Nat × Nat) => if kv.1 == n then (kv.1, kv.2 + 1) else kv)
        | none => vs ++ [(n, 1)]) → kv.1 ≤ metaCap := by
    intro vs hvs kv hkv
    split at hkv
    · obtain ⟨kv0, h0, rfl⟩ := List.mem_map.mp hkv
      have := hvs kv0 h0
      split <;> simpa using this
    · rcases List.mem_append.mp hkv with h | h
      · exact hvs kv h
      · simp at h; subst h; exact hn
  have hi1 : TorInv { t with votes := (match t.votes.find? (fun (kv : Nat × Nat) => kv.1 == n) with
        | some _ => t.votes.map (fun (kv : Nat × Nat) => if kv.1 == n then (kv.1, kv.2 + 1) else kv)
        | none => t.votes ++ [(n, 1)]) } :=
    ⟨hv t.votes hi.votes_cap, hi.info_cap, hi.req_len, hi.guard⟩
  split
  · exact ⟨by simp, by simp, tinv_incomplete hi1 hic⟩
  · rename_i t2 a hr
    obtain ⟨h2, ha, h3⟩ := requestMetadata_spec _ env hi1 t2 a hr
    exact ⟨by simp, by simp; omega, tinv_incomplete h2 (by rw [h3]; exact hic)⟩

theorem rqMeta_spec (env : TorEnv) (t0 : TorState) (a : Nat) (tag : String) (h0 : TorInv t0)
    (hic : t0.infoComplete = false) (ha : a ≤ 1025) :
    (∀ w, (rqMeta env t0 a tag).res ≠ .panic w) ∧ (rqMeta env t0 a tag).alloc ≤ 1025 + metaConst ∧
    TInv (rqMeta env t0 a tag).t := by
  unfold rqMeta
  split
  · exact ⟨by simp, by simp; omega, tinv_incomplete h0 hic⟩
  · split
    · exact ⟨by simp, by simp; omega, tinv_incomplete h0 hic⟩
    · rename_i t2 a2 hr
      obtain ⟨h2, ha2, h3⟩ := requestMetadata_spec _ env h0 t2 a2 hr
      exact ⟨by simp, by simp; omega, tinv_incomplete h2 (by rw [h3]; exact hic)⟩

theorem arm_metaData (t : TorState) (size index : Nat) (data : Bytes) (env : TorEnv) (hT : TInv t) (henv : EnvValid env) :
    (∀ w, (torMetaData t size index data env).res ≠ .panic w) ∧
    (torMetaData t size index data env).alloc ≤ 1025 + metaConst ∧
    TInv (torMetaData t size index data env).t := by
  have hi := hT.md
  unfold torMetaData
  by_cases h1 : t.infoComplete = true
  · rw [if_pos h1]; exact ⟨by simp, by simp, hT⟩
  rw [if_neg h1]
  have hic : t.infoComplete = false := by simpa using h1
  by_cases h2 : size ≠ t.infoLen
  · rw [if_pos h2]; exact ⟨by simp, by simp, hT⟩
  rw [if_neg h2]
  by_cases h3g : (if t.metaGuardGe = true then index ≥ t.infoRequested.length else index > t.infoRequested.length)
  · rw [if_pos h3g]; exact ⟨by simp, by simp, hT⟩
  rw [if_neg h3g]
  have h3 : ¬ index ≥ t.infoRequested.length := by simpa [hi.guard] using h3g
  have hlt : index < (t.infoLen + 16383) / 16384 := by rw [← hi.req_len]; omega
  have hcap := hi.info_cap
  by_cases h4 : data.length ≠ 16384 ∧ index * 16384 + data.length ≠ t.infoLen
  · rw [if_pos h4]; exact ⟨by simp, by simp, hT⟩
  rw [if_neg h4]
  by_cases h5 : bmGet t.infoBits index = true
  · rw [if_pos h5]; exact rqMeta_spec env t 0 _ hi hic (by omega)
  rw [if_neg h5]
  have h6 : ¬ (index * 16384 % U32 > t.infoLen) := by
    have : index * 16384 < U32 := by unfold metaCap U32 at *; omega
    rw [Nat.mod_eq_of_lt this]
    omega
  rw [if_neg h6]
  have hgrow : bmGrow t.infoBits index ≤ 1025 := by
    unfold bmGrow; unfold metaCap at *; split <;> omega
  have hi1 : TorInv { t with infoBits := bmSet t.infoBits index } :=
    ⟨hi.votes_cap, hi.info_cap, hi.req_len, hi.guard⟩
  split
  · exact rqMeta_spec env _ _ _ hi1 hic hgrow
  split
  · exact ⟨by simp, by simpa using Nat.le_trans hgrow (by omega),
      tinv_incomplete ⟨hi.votes_cap, by simp, by simp, hi.guard⟩ hic⟩
  split
  · exact ⟨by simp, by simpa using Nat.le_trans hgrow (by omega),
      tinv_incomplete ⟨hi.votes_cap, by simp, by simp, hi.guard⟩ hic⟩
  · unfold metaDone
    refine ⟨by simp, by simpa using Nat.le_trans hgrow (by omega), ⟨⟨by simp, by simp, by simp, hi.guard⟩, ?_⟩⟩
    intro _
    exact ⟨henv.1, henv.2.1, rfl, henv.2.2⟩

/-- what one event may cost the torrent, as a function of the event alone (no torrent
    state, no numeric field beyond the index a peer was allowed to announce) -/
def torCost : TEv → Nat
  | .peerHave i _ => 2 * (i + 1)
  | .peerBitmap bm _ => 10 * bmLen bm
  | .peerExtended _ => 48 + metaConst
  | .metaData _ _ _ => 1025 + metaConst
  | .addKnown _ _ _ v => 512 + v.length
  | _ => 0

end Storrent.PeerMsg
