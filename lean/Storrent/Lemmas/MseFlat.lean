import Storrent.Lemmas.Handshake
import Storrent.Lemmas.Bytes
/-
Flat-stream runs of the MSE handshake programs on the streams an honest peer sends,
generic in the continuation and in the cryptography (only structural facts are used:
lengths of public keys and hashes, XOR with the same keystream twice is the identity).
Used by Props/C07 (agreement, determinacy for honest peers) and Props/C08 (keys/framing).
-/
namespace Storrent.Handshake
open Storrent Storrent.Chunked Storrent.Policy

/-! ### small list facts -/

theorem take_app {α : Type} (a b : List α) (n : Nat) (h : a.length = n) : (a ++ b).take n = a := by
  subst h; exact List.take_left

theorem drop_app {α : Type} (a b : List α) (n : Nat) (h : a.length = n) : (a ++ b).drop n = b := by
  subst h; exact List.drop_left

theorem xorBytes_length (a b : Bytes) : (xorBytes a b).length = min a.length b.length := by
  induction a generalizing b with
  | nil => simp [xorBytes]
  | cons x xs ih =>
    cases b with
    | nil => simp [xorBytes]
    | cons y ys => simp [xorBytes, ih, Nat.succ_min_succ]

theorem xorBytes_cancel (a b : Bytes) (h : a.length = b.length) : xorBytes (xorBytes a b) b = a := by
  induction a generalizing b with
  | nil => cases b <;> simp [xorBytes]
  | cons x xs ih =>
    cases b with
    | nil => simp at h
    | cons y ys =>
      simp only [xorBytes, List.cons.injEq]
      refine ⟨?_, ih ys (by simpa using h)⟩
      rw [UInt8.xor_assoc, UInt8.xor_self, UInt8.xor_zero]

theorem vc_length : vc.length = 8 := rfl

theorem rdBE_word (p : Nat) (hp : p < 256) : rdBE [0, 0, 0, UInt8.ofNat p] = p := by
  rw [rdBE_four]
  simp only [UInt8.toNat_ofNat']
  simp
  omega

theorem rdBE_zero2 : rdBE [0, 0] = 0 := by decide

/-- `v` occurs in `w` at offset `j`: then `bytes.Index` finds an occurrence at or before `j` -/
theorem findSub_le_of_occurs (v pre post : Bytes) :
    ∃ i, findSub v (pre ++ v ++ post) = some i ∧ i ≤ pre.length := by
  induction pre with
  | nil =>
    refine ⟨0, ?_, Nat.le_refl _⟩
    cases hv : v ++ post with
    | nil =>
      have h1 : v = [] := by
        cases v with
        | nil => rfl
        | cons a b => simp at hv
      have h2 : post = [] := by subst h1; simpa using hv
      subst h1; subst h2
      simp [findSub]
    | cons x xs =>
      have : v.isPrefixOf (x :: xs) = true := by
        rw [← hv, List.isPrefixOf_iff_prefix]; exact List.prefix_append _ _
      simp [hv, findSub, this]
  | cons x xs ih =>
    obtain ⟨i, hi, hle⟩ := ih
    simp only [List.cons_append, findSub]
    split
    · exact ⟨0, rfl, Nat.zero_le _⟩
    · refine ⟨i + 1, ?_, by simp; omega⟩
      simp only [List.append_assoc] at hi ⊢
      simp [hi]

/-! ### the messages of a session -/

def ksA (cr : MseCrypto) (s skey : Bytes) : Nat → UInt8 := discard1024 (cr.table "keyA" s skey)
def ksB (cr : MseCrypto) (s skey : Bytes) : Nat → UInt8 := discard1024 (cr.table "keyB" s skey)

/-- what the client model writes as message 3 -/
def msg3 (cr : MseCrypto) (s skey : Bytes) (provide : Nat) (ia : Bytes) : Bytes :=
  cr.req1 s ++ xorBytes (cr.req2 skey) (cr.req3 s) ++
    xorAt (ksA cr s skey) 0 (vc ++ [0, 0, 0, UInt8.ofNat provide] ++ [0, 0] ++ be16 ia.length ++ ia)

/-- what the server model writes as message 4 -/
def msg4 (cr : MseCrypto) (s skey : Bytes) (select : Nat) : Bytes :=
  xorAt (ksB cr s skey) 0 (vc ++ [0, 0, 0, UInt8.ofNat select] ++ [0, 0])

/-! ### crypto.ServerHandshake on an honest client's stream -/

theorem mseServer_flat {α : Type} (cr : MseCrypto) (o : Options) (x pad : Bytes) (skeys : List Bytes)
    (k : Bool → Bytes → (Bytes → Bytes) → Prog α)
    (ya padA skey ia : Bytes) (provide : Nat) (more out : List Bytes)
    (ha : o.allowCH = true) (hya : ya.length = 96) (htriv : cr.trivial ya = false)
    (hH : ∀ b, (cr.hash b).length = 20)
    (hfirst : findSub (cr.req1 (cr.dh x ya)) (padA ++ msg3 cr (cr.dh x ya) skey provide ia) = some padA.length)
    (hpad : padA.length ≤ 512)
    (hskey : findSkey cr (cr.req2 skey) skeys = some skey)
    (hprov : provide < 256) (hprov4 : provide % 4 ≠ 0)
    (hia : ia.length < 65536)
    (hsel : serverSelect o provide ≠ 0) :
    runF (mseServer cr o x pad skeys k) ⟨ya ++ padA, msg3 cr (cr.dh x ya) skey provide ia :: more, out⟩
      = runF (if serverSelect o provide = 1 then .unread ia (k false skey id)
              else .xorAll (fun i => ksA cr (cr.dh x ya) skey (16 + ia.length + i))
                    (.unread ia (k true skey (xorAt (ksB cr (cr.dh x ya) skey) 14))))
          ⟨more.headD [], more.tail,
            out ++ [cr.pub x ++ pad] ++ [msg4 cr (cr.dh x ya) skey (serverSelect o provide)]⟩ := by
  unfold mseServer
  simp only [ha, Bool.not_true, Bool.false_eq_true, if_false]
  rw [runF_take _ _ _ _ _ (by simp only [List.length_append]; omega)]
  simp only [take_app _ _ _ hya, drop_app _ _ _ hya, htriv, Bool.false_eq_true, if_false]
  rw [runF_write]
  simp only [List.headD_cons, List.tail_cons]
  rw [runF_sync _ _ _ _ _ padA.length hfirst (by simp only [MseCrypto.req1, hH]; omega)]
  generalize cr.dh x ya = s at *
  have hR1 : (cr.req1 s).length = 20 := hH _
  have hX : (xorBytes (cr.req2 skey) (cr.req3 s)).length = 20 := by
    rw [xorBytes_length]; simp only [MseCrypto.req2, MseCrypto.req3, hH]; rfl
  have hcancel : xorBytes (xorBytes (cr.req2 skey) (cr.req3 s)) (cr.req3 s) = cr.req2 skey :=
    xorBytes_cancel _ _ (by simp only [MseCrypto.req2, MseCrypto.req3, hH])
  simp only [ksA, ksB, msg3, msg4] at *
  have hdrop : ∀ E : Bytes, (padA ++ (cr.req1 s ++ xorBytes (cr.req2 skey) (cr.req3 s) ++ E)).drop
        (padA.length + (cr.req1 s).length) = xorBytes (cr.req2 skey) (cr.req3 s) ++ E := by
    intro E
    rw [← List.drop_drop, List.drop_left, List.append_assoc, List.drop_left]
  simp only [hdrop]
  rw [runF_take _ _ _ _ _ (by simp only [List.length_append, hX]; omega)]
  simp only [take_app _ _ _ hX, drop_app _ _ _ hX, hcancel, hskey]
  generalize discard1024 (cr.table "keyA" s skey) = kA at *
  generalize discard1024 (cr.table "keyB" s skey) = kB at *
  -- the encrypted part of message 3
  have hE : xorAt kA 0 (vc ++ [0, 0, 0, UInt8.ofNat provide] ++ [0, 0] ++ be16 ia.length ++ ia)
      = xorAt kA 0 (vc ++ [0, 0, 0, UInt8.ofNat provide] ++ [0, 0]) ++ (xorAt kA 14 (be16 ia.length) ++ xorAt kA 16 ia) := by
    rw [List.append_assoc (vc ++ [0, 0, 0, UInt8.ofNat provide] ++ [0, 0]), xorAt_append, xorAt_append]
    rfl
  have hP14 : (xorAt kA 0 (vc ++ [0, 0, 0, UInt8.ofNat provide] ++ [0, 0])).length = 14 := by
    rw [xorAt_length]; rfl
  rw [hE]
  rw [runF_take _ _ _ _ _ (by simp only [List.length_append, hP14]; omega)]
  simp only [take_app _ _ _ hP14, drop_app _ _ _ hP14, xorAt_xorAt]
  have t8 : (vc ++ [0, 0, 0, UInt8.ofNat provide] ++ [0, 0]).take 8 = vc := by
    rw [List.append_assoc, take_app _ _ _ vc_length]
  have d8t4 : ((vc ++ [0, 0, 0, UInt8.ofNat provide] ++ [0, 0]).drop 8).take 4 = [0, 0, 0, UInt8.ofNat provide] := by
    rw [List.append_assoc, drop_app _ _ _ vc_length]; rfl
  have d12 : (vc ++ [0, 0, 0, UInt8.ofNat provide] ++ [0, 0]).drop 12 = [0, 0] := by
    rw [drop_app _ _ _ (by rfl)]
  simp only [t8, d8t4, d12, rdBE_word provide hprov, rdBE_zero2, ne_eq, not_true_eq_false, if_false,
    hprov4, Nat.lt_irrefl, gt_iff_lt, Nat.add_zero]
  have hL2 : (xorAt kA 14 (be16 ia.length)).length = 2 := by rw [xorAt_length]; rfl
  rw [runF_take _ _ _ _ _ (by simp only [List.length_append, hL2]; omega)]
  simp only [take_app _ _ _ hL2, drop_app _ _ _ hL2, xorAt_xorAt, rdBE_be16 _ hia]
  have hLia : (xorAt kA 16 ia).length = ia.length := xorAt_length _ _ _
  rw [runF_take _ _ _ _ _ (by simp only [hLia]; omega)]
  simp only [List.take_of_length_le (Nat.le_of_eq hLia), List.drop_of_length_le (Nat.le_of_eq hLia),
    xorAt_xorAt]
  rw [runF_ifEmpty_nil _ _ _ rfl]
  simp only [hsel, if_false]
  rw [runF_write]
  simp only [List.nil_append]

/-! ### crypto.ClientHandshake on an honest server's stream -/

/-- what crypto.ClientHandshake does with the server's `crypto_select` -/
def clientFin {α : Type} (cr : MseCrypto) (o : Options) (s skey : Bytes) (select : Nat)
    (k : Bool → Prog α) : Prog α :=
  if select = 1 then (if o.forceE then .fail .peerDidntNegotiate else k false)
  else if select = 2 then
    (if !o.allowE then .fail .peerDidNegotiate
     else .xorAll (fun i => ksB cr s skey (14 + i)) (k true))
  else .fail .badSelect

theorem mseClient_flat {α : Type} (cr : MseCrypto) (o : Options) (x pad skey ia : Bytes)
    (k : Bool → Prog α) (yb padB t : Bytes) (select : Nat) (more out : List Bytes)
    (ha : o.allowCH = true) (hyb : yb.length = 96) (htriv : cr.trivial yb = false)
    (hprov : cryptoProvide o ≠ 0)
    (hfirst : findSub (xorAt (ksB cr (cr.dh x yb) skey) 0 vc)
        (padB ++ (msg4 cr (cr.dh x yb) skey select ++ t)) = some padB.length)
    (hpad : padB.length ≤ 512) (hsel : select < 256) :
    runF (mseClient cr o x pad skey ia k)
        ⟨[], (yb ++ padB) :: (msg4 cr (cr.dh x yb) skey select ++ t) :: more, out⟩
      = runF (clientFin cr o (cr.dh x yb) skey select k)
          ⟨t, more, out ++ [cr.pub x ++ pad] ++ [msg3 cr (cr.dh x yb) skey (cryptoProvide o) ia]⟩ := by
  unfold mseClient
  simp only [ha, Bool.not_true, Bool.false_eq_true, if_false]
  rw [runF_write]
  simp only [List.headD_cons, List.tail_cons, List.nil_append]
  rw [runF_take _ _ _ _ _ (by simp only [List.length_append]; omega)]
  simp only [take_app _ _ _ hyb, drop_app _ _ _ hyb, htriv, Bool.false_eq_true, if_false, hprov]
  rw [runF_write]
  simp only [List.headD_cons, List.tail_cons]
  generalize cr.dh x yb = s at *
  simp only [ksA, ksB, msg3, msg4, clientFin] at *
  generalize discard1024 (cr.table "keyA" s skey) = kA at *
  generalize discard1024 (cr.table "keyB" s skey) = kB at *
  have hvc : (xorAt kB 0 vc).length = 8 := by rw [xorAt_length]; rfl
  rw [runF_sync _ _ _ _ _ padB.length hfirst (by rw [hvc]; omega)]
  have hM4 : xorAt kB 0 (vc ++ [0, 0, 0, UInt8.ofNat select] ++ [0, 0])
      = xorAt kB 0 vc ++ xorAt kB 8 [0, 0, 0, UInt8.ofNat select, 0, 0] := by
    rw [List.append_assoc, xorAt_append]; rfl
  have hdrop : (padB ++ (xorAt kB 0 (vc ++ [0, 0, 0, UInt8.ofNat select] ++ [0, 0]) ++ t)).drop
      (padB.length + (xorAt kB 0 vc).length) = xorAt kB 8 [0, 0, 0, UInt8.ofNat select, 0, 0] ++ t := by
    rw [hM4, ← List.drop_drop, List.drop_left, List.append_assoc, List.drop_left]
  simp only [hdrop]
  have h6 : (xorAt kB 8 [0, 0, 0, UInt8.ofNat select, 0, 0]).length = 6 := by rw [xorAt_length]; rfl
  rw [runF_take _ _ _ _ _ (by simp only [List.length_append, h6]; omega)]
  simp only [take_app _ _ _ h6, drop_app _ _ _ h6, xorAt_xorAt]
  have t4 : ([0, 0, 0, UInt8.ofNat select, 0, 0] : Bytes).take 4 = [0, 0, 0, UInt8.ofNat select] := rfl
  have d4 : ([0, 0, 0, UInt8.ofNat select, 0, 0] : Bytes).drop 4 = [0, 0] := rfl
  simp only [t4, d4, rdBE_word select hsel, rdBE_zero2, gt_iff_lt, Nat.lt_irrefl, if_false, Nat.add_zero]

/-! ### the BitTorrent handshake proper -/

/-- a BitTorrent handshake with arbitrary reserved bytes (`handshakeMsg` = `hsWith reserved`) -/
def hsWith (r infoHash myid : Bytes) : Bytes := header ++ r ++ infoHash ++ myid

theorem handshakeMsg_eq (ih id : Bytes) : handshakeMsg ih id = hsWith reserved ih id := rfl

theorem header_len : header.length = 20 := rfl

theorem caps_prefix (r t : Bytes) (hr : r.length = 8) :
    capDht (r ++ t) = capDht r ∧ capFast (r ++ t) = capFast r ∧ capExt (r ++ t) = capExt r := by
  have h7 : (r ++ t).getD 7 0 = r.getD 7 0 := by
    simp only [List.getD_eq_getElem?_getD]
    rw [List.getElem?_append_left (by omega)]
  have h5 : (r ++ t).getD 5 0 = r.getD 5 0 := by
    simp only [List.getD_eq_getElem?_getD]
    rw [List.getElem?_append_left (by omega)]
  simp only [capDht, capFast, capExt, h7, h5, and_self]

/-- ClientHandshake from the 68-byte read on, on a reply `header ++ r ++ ih' ++ ids ++ early` -/
theorem clientTail_flat (ih ih' ids r early : Bytes) (rc4 : Bool) (later out : List Bytes)
    (hih : ih'.length = 20) (hids : ids.length = 20) (hr : r.length = 8) :
    runF (clientTail ih rc4) ⟨hsWith r ih' ids ++ early, later, out⟩
      = if ih' = ih then
          .ok { hash := ih, id := ids, dht := capDht r, fast := capFast r, ext := capExt r, rc4 := rc4 }
            ⟨early, later, out⟩
        else .err .unexpectedInfoHash out := by
  have hlen : (hsWith r ih' ids).length = 68 := by
    simp only [hsWith, List.length_append, header_len, hr, hih, hids]
  have t20 : (hsWith r ih' ids).take 20 = header := by
    simp only [hsWith, List.append_assoc]; exact take_app _ _ _ header_len
  have d20 : (hsWith r ih' ids).drop 20 = r ++ (ih' ++ ids) := by
    simp only [hsWith, List.append_assoc]; exact drop_app _ _ _ header_len
  have d8 : (r ++ (ih' ++ ids)).drop 8 = ih' ++ ids := drop_app _ _ _ hr
  have d28 : (r ++ (ih' ++ ids)).drop 28 = ids := by
    rw [← List.append_assoc]; exact drop_app _ _ _ (by simp only [List.length_append, hr, hih])
  have t20' : (ih' ++ ids).take 20 = ih' := take_app _ _ _ hih
  obtain ⟨c1, c2, c3⟩ := caps_prefix r (ih' ++ ids) hr
  unfold clientTail
  rw [runF_take _ _ _ _ _ (by simp only [List.length_append, hlen]; omega)]
  simp only [take_app _ _ _ hlen, drop_app _ _ _ hlen, t20, d20, d8, d28, t20', c1, c2, c3, ne_eq,
    not_true_eq_false, if_false]
  by_cases h : ih' = ih
  · subst h; simp only [if_true, not_true_eq_false, if_false]; rw [runF_ret]
  · simp only [h, not_false_eq_true, if_true, if_false]; rw [runF_fail]

/-- ServerHandshake from the 28-byte read on (the 20 header bytes are consumed) -/
theorem serverTail_flat (hashes : List (Bytes × Bytes)) (skey : Option Bytes) (rc4 : Bool)
    (enc : Bytes → Bytes) (r ih idc early : Bytes) (later out : List Bytes)
    (hskey : skey = none ∨ skey = some ih)
    (hih : ih.length = 20) (hidc : idc.length = 20) (hr : r.length = 8) :
    runF (serverTail hashes skey rc4 enc) ⟨r ++ ih ++ idc ++ early, later, out⟩
      = match findHash ih hashes with
        | .panic => .err .panic out
        | .notFound => .err .unknownTorrent out
        | .found h =>
          .ok { hash := ih, id := idc, dht := capDht r, fast := capFast r, ext := capExt r, rc4 := rc4 }
            ⟨early ++ later.headD [], later.tail, out ++ [enc (handshakeMsg ih h.2)]⟩ := by
  have h28 : (r ++ ih).length = 28 := by simp only [List.length_append, hr, hih]
  have d8 : (r ++ ih).drop 8 = ih := drop_app _ _ _ hr
  obtain ⟨c1, c2, c3⟩ := caps_prefix r ih hr
  unfold serverTail
  rw [runF_take _ _ _ _ _ (by simp only [List.length_append, hr, hih]; omega)]
  simp only [List.append_assoc]
  rw [← List.append_assoc r ih]
  simp only [take_app _ _ _ h28, drop_app _ _ _ h28, d8, c1, c2, c3]
  have hstep : ∀ P : Prog HsResult, P = (match findHash ih hashes with
        | Find.panic => Prog.fail HsErr.panic
        | Find.notFound => Prog.fail HsErr.unknownTorrent
        | Find.found h =>
          Prog.write (enc (handshakeMsg ih h.snd))
            (Prog.take RM.proto 20 0 fun id =>
              Prog.ret { hash := ih, id := id, dht := capDht r, fast := capFast r, ext := capExt r, rc4 := rc4 })) →
      runF P ⟨idc ++ early, later, out⟩ = (match findHash ih hashes with
        | .panic => .err .panic out
        | .notFound => .err .unknownTorrent out
        | .found h =>
          .ok { hash := ih, id := idc, dht := capDht r, fast := capFast r, ext := capExt r, rc4 := rc4 }
            ⟨early ++ later.headD [], later.tail, out ++ [enc (handshakeMsg ih h.2)]⟩) := by
    intro P hP
    subst hP
    cases hf : findHash ih hashes with
    | panic => simp only; rw [runF_fail]
    | notFound => simp only; rw [runF_fail]
    | found h =>
      simp only
      rw [runF_write, runF_take _ _ _ _ _ (by simp only [List.length_append, hidc]; omega)]
      simp only [List.append_assoc, take_app _ _ _ hidc, drop_app _ _ _ hidc]
      rw [runF_ret]
  apply hstep
  rcases hskey with h | h <;> subst h <;> simp [hih] <;> (cases findHash ih hashes <;> rfl)


/-! ### the complete functions on honest streams -/

theorem xorAt_shift (ks : Nat → UInt8) (c p : Nat) (bs : Bytes) :
    xorAt (fun i => ks (c + i)) p bs = xorAt ks (c + p) bs := by
  induction bs generalizing p with
  | nil => rfl
  | cons b bs ih => simp only [xorAt, ih, Nat.add_assoc]

theorem hsWith_length (r ih id : Bytes) (hr : r.length = 8) (hih : ih.length = 20) (hid : id.length = 20) :
    (hsWith r ih id).length = 68 := by
  simp only [hsWith, List.length_append, header_len, hr, hih, hid]

theorem serverSelect_cases (o : Options) (p : Nat) :
    serverSelect o p = 0 ∨ serverSelect o p = 1 ∨ serverSelect o p = 2 := by
  unfold serverSelect
  simp only
  repeat' split
  all_goals simp

/-- what the negotiated method does to a byte string at keystream position `pos` -/
def encSel (ks : Nat → UInt8) (pos select : Nat) (b : Bytes) : Bytes :=
  if select = 2 then xorAt ks pos b else b

/-- **protocol.ServerHandshake on an honest MSE client's stream** (flat): epoch 0 = Ya ++ PadA,
    epoch 1 = message 3 with IA = the BitTorrent handshake, epoch 2 = the client's payload,
    encrypted by the negotiated method at keystream position 16 + 68 of keyA. -/
theorem serverMse_flat (v : Variant) (cr : MseCrypto) (o : Options) (x pad : Bytes)
    (hashes : List (Bytes × Bytes)) (ya padA ih idc ids early : Bytes) (provide : Nat)
    (ha : o.allowCH = true) (hya : ya.length = 96) (htriv : cr.trivial ya = false)
    (hnh : ya.take 20 ≠ header)
    (hH : ∀ b, (cr.hash b).length = 20)
    (hfirst : findSub (cr.req1 (cr.dh x ya))
        (padA ++ msg3 cr (cr.dh x ya) ih provide (handshakeMsg ih idc)) = some padA.length)
    (hpad : padA.length ≤ 512)
    (hskey : findSkey cr (cr.req2 ih) (hashes.map (·.1)) = some ih)
    (hfind : findHash ih hashes = .found (ih, ids))
    (hih : ih.length = 20) (hidc : idc.length = 20)
    (hprov : provide < 256) (hprov4 : provide % 4 ≠ 0)
    (hsel : serverSelect o provide ≠ 0) :
    runF (server v cr o x pad hashes)
        ⟨ya ++ padA, [msg3 cr (cr.dh x ya) ih provide (handshakeMsg ih idc),
                      encSel (ksA cr (cr.dh x ya) ih) 84 (serverSelect o provide) early], []⟩
      = .ok { hash := ih, id := idc, dht := true, fast := true, ext := true,
              rc4 := decide (serverSelect o provide = 2) }
          ⟨early, [], [cr.pub x ++ pad, msg4 cr (cr.dh x ya) ih (serverSelect o provide),
                       encSel (ksB cr (cr.dh x ya) ih) 14 (serverSelect o provide) (handshakeMsg ih ids)]⟩ := by
  have hia : (handshakeMsg ih idc).length = 68 := hsWith_length _ _ _ rfl hih hidc
  have hb : (ya ++ padA).take 20 = ya.take 20 := List.take_append_of_le_length (by omega)
  have hIA : ∀ e : Bytes, handshakeMsg ih idc ++ e = header ++ (reserved ++ ih ++ idc ++ e) := by
    intro e; simp only [handshakeMsg, List.append_assoc]
  have hcaps : capDht reserved = true ∧ capFast reserved = true ∧ capExt reserved = true := by decide
  unfold server
  rw [runF_peek _ _ _ _ _ (by simp only [List.length_append]; omega)]
  simp only [hb]
  unfold serverK
  simp only [hnh, if_false, ha, if_true]
  rw [mseServer_flat cr o x pad _ _ ya padA ih (handshakeMsg ih idc) provide _ _ ha hya htriv hH hfirst hpad
    hskey hprov hprov4 (by omega) hsel]
  simp only [List.headD_cons, List.tail_cons, hia, List.nil_append]
  rcases serverSelect_cases o provide with h0 | h1 | h2
  · exact absurd h0 hsel
  · simp only [h1, if_true, encSel, Nat.reduceEqDiff, if_false, decide_false]
    rw [runF_unread, runF_take _ _ _ _ _ (by simp only [List.length_append, hia]; omega)]
    simp only [hIA, take_app _ _ _ header_len, drop_app _ _ _ header_len, ne_eq, not_true_eq_false, if_false]
    rw [serverTail_flat hashes (some ih) false id reserved ih idc early [] _ (Or.inr rfl) hih hidc rfl]
    simp only [hfind, hcaps.1, hcaps.2.1, hcaps.2.2, List.headD_nil, List.append_nil, List.tail_nil,
      List.cons_append, List.nil_append, id]
  · simp only [h2, Nat.reduceEqDiff, if_false, encSel, if_true, decide_true]
    rw [runF_xorAll, runF_unread]
    simp only [xorAt_shift, Nat.add_zero, xorAt_xorAt, xorEpochs]
    rw [runF_take _ _ _ _ _ (by simp only [List.length_append, hia]; omega)]
    simp only [hIA, take_app _ _ _ header_len, drop_app _ _ _ header_len, ne_eq, not_true_eq_false, if_false]
    rw [serverTail_flat hashes (some ih) true _ reserved ih idc early [] _ (Or.inr rfl) hih hidc rfl]
    simp only [hfind, hcaps.1, hcaps.2.1, hcaps.2.2, List.headD_nil, List.append_nil, List.tail_nil,
      List.cons_append, List.nil_append]


/-- **protocol.ClientHandshake with the crypto handshake on an honest server's stream** (flat):
    nothing before the client's Ya; then Yb ++ PadB; then message 4 followed by the server's
    BitTorrent handshake and payload, encrypted by the selected method from keystream
    position 14 of keyB on. -/
theorem cryptoClient_flat (cr : MseCrypto) (o : Options) (x pad ih idc : Bytes)
    (yb padB ids early : Bytes) (select : Nat)
    (ha : o.allowCH = true) (hyb : yb.length = 96) (htriv : cr.trivial yb = false)
    (hprov : cryptoProvide o ≠ 0)
    (hfirst : findSub (xorAt (ksB cr (cr.dh x yb) ih) 0 vc)
        (padB ++ (msg4 cr (cr.dh x yb) ih select ++
          encSel (ksB cr (cr.dh x yb) ih) 14 select (handshakeMsg ih ids ++ early))) = some padB.length)
    (hpad : padB.length ≤ 512)
    (hih : ih.length = 20) (hids : ids.length = 20)
    (hs12 : select = 1 ∨ select = 2)
    (hc1 : select = 1 → o.forceE = false) (hc2 : select = 2 → o.allowE = true) :
    runF (cryptoClient cr o x pad ih idc)
        ⟨[], [yb ++ padB, msg4 cr (cr.dh x yb) ih select ++
                encSel (ksB cr (cr.dh x yb) ih) 14 select (handshakeMsg ih ids ++ early)], []⟩
      = .ok { hash := ih, id := ids, dht := true, fast := true, ext := true, rc4 := decide (select = 2) }
          ⟨early, [], [cr.pub x ++ pad, msg3 cr (cr.dh x yb) ih (cryptoProvide o) (handshakeMsg ih idc)]⟩ := by
  have hcaps : capDht reserved = true ∧ capFast reserved = true ∧ capExt reserved = true := by decide
  unfold cryptoClient
  rw [mseClient_flat cr o x pad ih _ _ yb padB _ select [] [] ha hyb htriv hprov hfirst hpad
    (by rcases hs12 with h | h <;> omega)]
  unfold clientFin
  rcases hs12 with h1 | h2
  · subst h1
    simp only [if_true, hc1 rfl, Bool.false_eq_true, if_false, encSel, Nat.reduceEqDiff, decide_false]
    rw [handshakeMsg_eq, clientTail_flat ih ih ids reserved early false [] _ hih hids rfl]
    simp only [if_true, hcaps.1, hcaps.2.1, hcaps.2.2, List.nil_append, List.cons_append]
  · subst h2
    simp only [Nat.reduceEqDiff, if_false, if_true, hc2 rfl, Bool.not_true, Bool.false_eq_true, encSel,
      decide_true]
    rw [runF_xorAll]
    simp only [xorAt_shift, Nat.add_zero, xorAt_xorAt, xorEpochs]
    rw [handshakeMsg_eq, clientTail_flat ih ih ids reserved early true [] _ hih hids rfl]
    simp only [if_true, hcaps.1, hcaps.2.1, hcaps.2.2, List.nil_append, List.cons_append]


end Storrent.Handshake
