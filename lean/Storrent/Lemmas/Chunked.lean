import Storrent.Model.Chunked
/-
Refinement lemmas: the chunked readers only ever see a prefix of the flat stream
`acc ++ src.flatten`, and what they leave (`buffer ++ rest.flatten`) is exactly the
unconsumed suffix — "buf contains only bytes actually received, each exactly once".
-/
namespace Storrent.Chunked
open Storrent

/-! ### io.ReadAtLeast -/

theorem readAtLeast_flat (cap min : Nat) (src : Src) (acc : Bytes) :
    (readAtLeast cap min src acc).1 ++ (readAtLeast cap min src acc).2.2.flatten
      = acc ++ src.flatten := by
  induction src generalizing acc with
  | nil => simp [readAtLeast]
  | cons c cs ih =>
    unfold readAtLeast
    split
    · simp
    · split
      · rw [ih]; simp
      · simp only [List.flatten_cons, List.append_assoc]
        rw [← List.append_assoc (List.take _ c), List.take_append_drop]

theorem readAtLeast_true (cap min : Nat) (src : Src) (acc : Bytes)
    (hc : min ≤ cap) (ha : acc.length ≤ cap)
    (h : (readAtLeast cap min src acc).2.1 = true) :
    min ≤ (readAtLeast cap min src acc).1.length := by
  induction src generalizing acc with
  | nil => simpa [readAtLeast] using h
  | cons c cs ih =>
    unfold readAtLeast at h ⊢
    split
    · assumption
    · rename_i hlt
      split
      · rename_i hle
        simp only [hlt, hle, if_true, if_false] at h
        exact ih (acc ++ c) (by simp; omega) h
      · rename_i hgt
        simp only [List.length_append, List.length_take]
        omega

theorem readAtLeast_false (cap min : Nat) (src : Src) (acc : Bytes)
    (h : (readAtLeast cap min src acc).2.1 = false) :
    (readAtLeast cap min src acc).2.2 = [] ∧ (readAtLeast cap min src acc).1.length < min := by
  induction src generalizing acc with
  | nil => simpa [readAtLeast] using h
  | cons c cs ih =>
    unfold readAtLeast at h ⊢
    split
    · rename_i hle; simp [hle] at h
    · rename_i hlt
      split
      · rename_i hle
        simp only [hlt, hle, if_true, if_false] at h
        exact ih (acc ++ c) h
      · rename_i hgt
        simp [hlt, hgt] at h

theorem readAtLeast_len (cap min : Nat) (src : Src) (acc : Bytes) (ha : acc.length ≤ cap) :
    (readAtLeast cap min src acc).1.length ≤ cap := by
  induction src generalizing acc with
  | nil => simpa [readAtLeast] using ha
  | cons c cs ih =>
    unfold readAtLeast
    split
    · exact ha
    · split
      · exact ih (acc ++ c) (by simp; omega)
      · simp only [List.length_append, List.length_take]; omega

/-- `io.ReadAtLeast` succeeds exactly when the flat stream has `min` bytes. -/
theorem readAtLeast_ok_iff (cap min : Nat) (src : Src) (acc : Bytes)
    (hc : min ≤ cap) (ha : acc.length ≤ cap) :
    (readAtLeast cap min src acc).2.1 = true ↔ min ≤ (acc ++ src.flatten).length := by
  have hf := readAtLeast_flat cap min src acc
  constructor
  · intro h
    have := readAtLeast_true cap min src acc hc ha h
    rw [← hf, List.length_append]; omega
  · intro h
    cases hb : (readAtLeast cap min src acc).2.1 with
    | true => rfl
    | false =>
      obtain ⟨h1, h2⟩ := readAtLeast_false cap min src acc hb
      rw [h1] at hf
      simp only [List.flatten_nil, List.append_nil] at hf
      rw [← hf] at h
      omega

/-! ### readMore (the truncating one) -/

theorem readMore_flat (buf : Bytes) (n m : Nat) (src : Src) :
    (readMore true buf n m src).1 ++ (readMore true buf n m src).2.2.flatten
      = buf ++ src.flatten := by
  unfold readMore
  simp only
  split
  · rfl
  · simp only [if_true]
    have := readAtLeast_flat ((if m < n then n else m) - buf.length) (n - buf.length) src []
    simp only [List.nil_append] at this
    rw [List.append_assoc, this]

theorem readMore_true (buf : Bytes) (n m : Nat) (src : Src)
    (h : (readMore true buf n m src).2.1 = true) :
    n ≤ (readMore true buf n m src).1.length := by
  by_cases hle : n ≤ buf.length
  · simp [readMore, hle]
  · simp only [readMore, hle, if_true, if_false] at h ⊢
    have := readAtLeast_true ((if m < n then n else m) - buf.length) (n - buf.length) src []
      (by split <;> omega) (by simp) h
    simp only [List.length_append]
    omega

theorem readMore_false (buf : Bytes) (n m : Nat) (src : Src)
    (h : (readMore true buf n m src).2.1 = false) :
    (readMore true buf n m src).2.2 = [] ∧ (buf ++ src.flatten).length < n := by
  have hf := readMore_flat buf n m src
  unfold readMore at h hf ⊢
  simp only at h hf ⊢
  split
  · rename_i hle; simp [hle] at h
  · rename_i hlt
    simp only [hlt, if_true, if_false] at h hf ⊢
    obtain ⟨h1, h2⟩ := readAtLeast_false _ _ src [] h
    refine ⟨h1, ?_⟩
    rw [h1] at hf
    simp only [List.flatten_nil, List.append_nil] at hf
    rw [← hf, List.length_append]
    omega

/-- `readMore` succeeds exactly when the flat stream has `n` bytes -/
theorem readMore_ok_iff (buf : Bytes) (n m : Nat) (src : Src) :
    (readMore true buf n m src).2.1 = true ↔ n ≤ (buf ++ src.flatten).length := by
  constructor
  · intro h
    have := readMore_true buf n m src h
    rw [← readMore_flat buf n m src, List.length_append]; omega
  · intro h
    cases hb : (readMore true buf n m src).2.1 with
    | true => rfl
    | false => have := (readMore_false buf n m src hb).2; omega

/-! ### bytes.Index -/

theorem findSub_some_le (v : Bytes) (w : Bytes) (i : Nat) (h : findSub v w = some i) :
    i + v.length ≤ w.length := by
  induction w generalizing i with
  | nil =>
    unfold findSub at h
    split at h
    · rename_i hv; simp at hv h; subst hv; subst h; simp
    · simp at h
  | cons x xs ih =>
    unfold findSub at h
    split at h
    · rename_i hp
      have := (List.isPrefixOf_iff_prefix.mp hp).length_le
      simp at h; subst h; simpa using this
    · cases hr : findSub v xs with
      | none => simp [hr] at h
      | some j =>
        simp [hr] at h; subst h
        have := ih j hr
        simp; omega

theorem findSub_append_some (v w t : Bytes) (i : Nat) (h : findSub v w = some i) :
    findSub v (w ++ t) = some i := by
  induction w generalizing i with
  | nil =>
    unfold findSub at h
    split at h
    · rename_i hv
      simp at hv h; subst hv; subst h
      cases t <;> simp [findSub]
    · simp at h
  | cons x xs ih =>
    unfold findSub at h
    rw [List.cons_append]
    unfold findSub
    split at h
    · rename_i hp
      have hp' : v.isPrefixOf (x :: (xs ++ t)) = true := by
        rw [List.isPrefixOf_iff_prefix] at hp ⊢
        exact hp.trans (by rw [← List.cons_append]; exact List.prefix_append _ _)
      simp [hp']; simpa using h
    · rename_i hnp
      cases hr : findSub v xs with
      | none => simp [hr] at h
      | some j =>
        simp [hr] at h; subst h
        have hle := findSub_some_le v xs j hr
        have hnp' : ¬ v.isPrefixOf (x :: (xs ++ t)) = true := by
          intro hp
          apply hnp
          rw [List.isPrefixOf_iff_prefix] at hp ⊢
          refine List.prefix_of_prefix_length_le hp (by rw [← List.cons_append]; exact List.prefix_append _ _) ?_
          simp; omega
        simp [hnp', ih j hr]

/-- an occurrence found in the extended buffer but not in `w` ends beyond `w` -/
theorem findSub_append_none (v w t : Bytes) (i : Nat) (h : findSub v w = none)
    (h2 : findSub v (w ++ t) = some i) : w.length < i + v.length := by
  induction w generalizing i with
  | nil =>
    unfold findSub at h
    split at h
    · simp at h
    · rename_i hv
      have : 0 < v.length := by
        cases v with
        | nil => simp at hv
        | cons a b => simp
      simp; omega
  | cons x xs ih =>
    unfold findSub at h
    rw [List.cons_append] at h2
    unfold findSub at h2
    split at h
    · simp at h
    · rename_i hnp
      split at h2
      · rename_i hp
        simp at h2; subst h2
        simp only [Nat.zero_add]
        apply Nat.lt_of_not_le
        intro hle
        apply hnp
        rw [List.isPrefixOf_iff_prefix] at hp ⊢
        exact List.prefix_of_prefix_length_le hp (by rw [← List.cons_append]; exact List.prefix_append _ _) hle
      · cases hr : findSub v xs with
        | some j => simp [hr] at h
        | none =>
          cases hr2 : findSub v (xs ++ t) with
          | none => simp [hr2] at h2
          | some j =>
            simp [hr2] at h2; subst h2
            have := ih j hr hr2
            simp; omega


/-! ### crypto.synchronise -/

/-- What `synchronise` found, in terms of the flat stream `t = w ++ src.flatten` only. -/
def SyncSpec (v : Bytes) (n : Nat) (t : Bytes) (r : Bytes × SyncRes × Src) : Prop :=
  (r.2.1 = .found → ∃ i, findSub v t = some i ∧ r.1 ++ r.2.2.flatten = t.drop (i + v.length)) ∧
  (r.2.1 = .fail → n ≤ t.length ∧ ∀ i, findSub v t = some i → n < i + v.length) ∧
  (r.2.1 = .eof → t.length < n ∧ findSub v t = none ∧ r.2.2 = [])

theorem syncLoop_spec (v : Bytes) (n m : Nat) (hnm : n ≤ m) (src : Src) (w : Bytes) :
    SyncSpec v n (w ++ src.flatten) (syncLoop v n m src w) := by
  induction src generalizing w with
  | nil =>
    unfold syncLoop
    cases hf : findSub v w with
    | some i =>
      refine ⟨fun _ => ⟨i, by simpa using hf, by simp⟩, by simp, by simp⟩
    | none =>
      by_cases hn : n ≤ w.length
      · simp only [hn, if_true]
        refine ⟨by simp, fun _ => ⟨by simpa using hn, by simp [hf]⟩, by simp⟩
      · simp only [hn, if_false]
        refine ⟨by simp, by simp, fun _ => ⟨by simpa using hn, by simpa using hf, rfl⟩⟩
  | cons c cs ih =>
    unfold syncLoop
    cases hf : findSub v w with
    | some i =>
      refine ⟨fun _ => ⟨i, findSub_append_some v w _ i hf, ?_⟩, by simp, by simp⟩
      have := findSub_some_le v w i hf
      simp only
      rw [List.drop_append_of_le_length this]
    | none =>
      by_cases hn : n ≤ w.length
      · simp only [hn, if_true]
        refine ⟨by simp, fun _ => ⟨by simp; omega, fun i hi => ?_⟩, by simp⟩
        have := findSub_append_none v w _ i hf hi
        omega
      · simp only [hn, if_false]
        by_cases hc : c.length ≤ m - w.length
        · simp only [hc, if_true]
          have := ih (w ++ c)
          simpa [List.append_assoc] using this
        · simp only [hc, if_false]
          have hlen : (w ++ c.take (m - w.length)).length = m := by
            simp only [List.length_append, List.length_take]; omega
          have ht : w ++ (c :: cs).flatten
              = (w ++ c.take (m - w.length)) ++ (c.drop (m - w.length) ++ cs.flatten) := by
            simp only [List.flatten_cons, List.append_assoc]
            rw [← List.append_assoc (List.take _ c), List.take_append_drop]
          rw [ht]
          cases hf' : findSub v (w ++ c.take (m - w.length)) with
          | some i =>
            refine ⟨fun _ => ⟨i, findSub_append_some v _ _ i hf', ?_⟩, by simp, by simp⟩
            have := findSub_some_le v _ i hf'
            simp only [List.flatten_cons]
            rw [List.drop_append_of_le_length this]
          | none =>
            refine ⟨by simp, fun _ => ⟨by rw [List.length_append, hlen]; omega, fun i hi => ?_⟩, by simp⟩
            have := findSub_append_none v _ _ i hf' hi
            omega

/-! ### positional XOR -/

theorem xorAt_length (ks : Nat → UInt8) (p : Nat) (bs : Bytes) : (xorAt ks p bs).length = bs.length := by
  induction bs generalizing p with
  | nil => rfl
  | cons b bs ih => simp [xorAt, ih]

theorem xorAt_append (ks : Nat → UInt8) (p : Nat) (a b : Bytes) :
    xorAt ks p (a ++ b) = xorAt ks p a ++ xorAt ks (p + a.length) b := by
  induction a generalizing p with
  | nil => simp [xorAt]
  | cons x xs ih =>
    simp only [List.cons_append, xorAt, ih, List.length_cons]
    congr 3; omega

theorem xorSrc_flatten (ks : Nat → UInt8) (p : Nat) (s : Src) :
    (xorSrc ks p s).flatten = xorAt ks p s.flatten := by
  induction s generalizing p with
  | nil => simp [xorSrc, xorAt]
  | cons c cs ih => simp [xorSrc, xorAt_append, ih]

/-- XOR with the same keystream at the same position twice is the identity -/
theorem xorAt_xorAt (ks : Nat → UInt8) (p : Nat) (bs : Bytes) : xorAt ks p (xorAt ks p bs) = bs := by
  induction bs generalizing p with
  | nil => rfl
  | cons b bs ih =>
    simp only [xorAt, ih]
    congr 1
    rw [UInt8.xor_assoc, UInt8.xor_self, UInt8.xor_zero]

theorem xorAt_take (ks : Nat → UInt8) (p k : Nat) (bs : Bytes) :
    (xorAt ks p bs).take k = xorAt ks p (bs.take k) := by
  induction bs generalizing p k with
  | nil => simp [xorAt]
  | cons b bs ih =>
    cases k with
    | zero => simp [xorAt]
    | succ k => simp [xorAt, ih]

theorem xorAt_drop (ks : Nat → UInt8) (p k : Nat) (bs : Bytes) :
    (xorAt ks p bs).drop k = xorAt ks (p + min k bs.length) (bs.drop k) := by
  induction bs generalizing p k with
  | nil => simp [xorAt]
  | cons b bs ih =>
    cases k with
    | zero => simp [xorAt]
    | succ k =>
      simp only [xorAt, List.drop_succ_cons, ih, List.length_cons]
      congr 1; omega

/-! ### cut -/
theorem cut_flatten (ks : List Nat) (bs : Bytes) : (cut ks bs).flatten = bs := by
  induction ks generalizing bs with
  | nil => unfold cut; split <;> simp_all
  | cons k ks ih =>
    unfold cut
    split
    · simp_all
    · simp [ih]

end Storrent.Chunked
