import Storrent.Lemmas.Namespace
/- the directory rows of a page (`torrentDir` inside the loop of `torrentEntry`): which
   directories are shown, that each is shown once, and that it precedes its files -/
namespace Storrent.NS
open Storrent Storrent.Http

/-- the directory rows of a page, in order -/
def dirRowsOf : List Row → List Path
  | [] => []
  | .dir p :: rs => p :: dirRowsOf rs
  | .file _ _ :: rs => dirRowsOf rs

theorem dirRowsOf_append (a b : List Row) : dirRowsOf (a ++ b) = dirRowsOf a ++ dirRowsOf b := by
  induction a with
  | nil => rfl
  | cons r rs ih => cases r <;> simp [dirRowsOf, ih]

/-! ### the common-prefix loop -/

theorem cp_prefix_left : ∀ (a b : Path), commonPrefix a b <+: a := by
  intro a
  induction a with
  | nil => intro b; simp [commonPrefix]
  | cons x xs ih =>
    intro b
    cases b with
    | nil => simp [commonPrefix]
    | cons y ys =>
      unfold commonPrefix
      by_cases h : x = y
      · simp only [h, if_true]
        obtain ⟨t, ht⟩ := ih ys
        exact ⟨t, by rw [List.cons_append, ht]⟩
      · simp [h]

theorem cp_prefix_right : ∀ (a b : Path), commonPrefix a b <+: b := by
  intro a
  induction a with
  | nil => intro b; simp [commonPrefix]
  | cons x xs ih =>
    intro b
    cases b with
    | nil => simp [commonPrefix]
    | cons y ys =>
      unfold commonPrefix
      by_cases h : x = y
      · simp only [h, if_true]
        obtain ⟨t, ht⟩ := ih ys
        exact ⟨t, by rw [List.cons_append, ht]⟩
      · simp [h]

theorem cp_max : ∀ (d a b : Path), d <+: a → d <+: b → d <+: commonPrefix a b := by
  intro d
  induction d with
  | nil => intro a b _ _; exact List.nil_prefix
  | cons z zs ih =>
    intro a b ha hb
    obtain ⟨ta, hta⟩ := ha
    obtain ⟨tb, htb⟩ := hb
    subst hta; subst htb
    simp only [List.cons_append]
    unfold commonPrefix
    simp only [if_true]
    obtain ⟨t, ht⟩ := ih (zs ++ ta) (zs ++ tb) (List.prefix_append _ _) (List.prefix_append _ _)
    exact ⟨t, by rw [List.cons_append, ht]⟩

/-- the rows `torrentDir` prints when the directory changes from `q` to `p`: exactly the
    prefixes of `p` that are not prefixes of `q` -/
theorem mem_dirRows (p q : Path) (r : Row) :
    r ∈ dirRows p q ↔ ∃ d, r = .dir d ∧ d <+: p ∧ ¬ d <+: q := by
  unfold dirRows
  simp only [List.mem_map, List.mem_range]
  constructor
  · rintro ⟨i, hi, rfl⟩
    refine ⟨_, rfl, List.take_prefix _ _, ?_⟩
    intro hq
    have h1 := cp_max _ p q (List.take_prefix _ _) hq
    have h2 := h1.length_le
    rw [List.length_take] at h2
    omega
  · rintro ⟨d, rfl, hp, hq⟩
    have hk : (commonPrefix p q).length < d.length := by
      apply Nat.lt_of_not_le
      intro hle
      exact hq ((List.prefix_of_prefix_length_le hp (cp_prefix_left p q) hle).trans (cp_prefix_right p q))
    have hdl := hp.length_le
    refine ⟨d.length - (commonPrefix p q).length - 1, by omega, ?_⟩
    have : (commonPrefix p q).length + (d.length - (commonPrefix p q).length - 1) + 1 = d.length := by omega
    rw [this, ← List.prefix_iff_eq_take.mp hp]

theorem dirRows_self (p : Path) : dirRows p p = [] := by
  cases h : dirRows p p with
  | nil => rfl
  | cons r rs =>
    have : r ∈ dirRows p p := by rw [h]; exact List.mem_cons_self
    obtain ⟨d, _, h1, h2⟩ := (mem_dirRows p p r).mp this
    exact absurd h1 h2

theorem dirRowsOf_dirRows_mem (p q d : Path) : d ∈ dirRowsOf (dirRows p q) ↔ d <+: p ∧ ¬ d <+: q := by
  have key : ∀ (l : List Row), (∀ r ∈ l, ∃ e, r = Row.dir e) → (d ∈ dirRowsOf l ↔ Row.dir d ∈ l) := by
    intro l
    induction l with
    | nil => intro _; simp [dirRowsOf]
    | cons r rs ih =>
      intro h
      obtain ⟨e, rfl⟩ := h r List.mem_cons_self
      simp [dirRowsOf, ih (fun r hr => h r (List.mem_cons_of_mem _ hr))]
  rw [key _ (fun r hr => by obtain ⟨e, he, _⟩ := (mem_dirRows p q r).mp hr; exact ⟨e, he⟩), mem_dirRows]
  constructor
  · rintro ⟨e, he, h1, h2⟩; injection he with he; subst he; exact ⟨h1, h2⟩
  · rintro ⟨h1, h2⟩; exact ⟨d, rfl, h1, h2⟩

theorem dirRowsOf_dirRows_nodup (p q : Path) : (dirRowsOf (dirRows p q)).Nodup := by
  unfold dirRows
  simp only
  have hmap : ∀ (l : List Nat) (g : Nat → Path), dirRowsOf (l.map fun i => Row.dir (g i)) = l.map g := by
    intro l g
    induction l with
    | nil => rfl
    | cons i is ih => simp [dirRowsOf, ih]
  rw [hmap]
  unfold List.Nodup
  rw [List.pairwise_map]
  refine List.Pairwise.imp_of_mem ?_ (List.pairwise_lt_range)
  intro a b ha hb hab heq
  rw [List.mem_range] at ha hb
  have := congrArg List.length heq
  rw [List.length_take, List.length_take] at this
  omega

/-- the loop of `torrentEntry`, uniformly: the rows for the change of directory (none when
    it did not change), the file row, the rest with the new directory -/
theorem tableLoop_cons (f : File) (fs : List File) (lastdir : Path) :
    tableLoop (f :: fs) lastdir =
      dirRows f.path.dropLast lastdir ++ Row.file f.path f.length :: tableLoop fs f.path.dropLast := by
  rw [tableLoop]
  split
  · rename_i he
    have : f.path.dropLast = lastdir := by simpa [equal] using he
    rw [← this, dirRows_self]; rfl
  · rfl

/-! ### which directories are shown -/

theorem dirRowsOf_tableLoop_sound : ∀ (l : List File) (lastdir d : Path),
    d ∈ dirRowsOf (tableLoop l lastdir) → d ≠ [] ∧ ∃ f ∈ l, d <+: f.path.dropLast := by
  intro l
  induction l with
  | nil => intro _ _ h; cases h
  | cons f fs ih =>
    intro lastdir d h
    rw [tableLoop_cons, dirRowsOf_append] at h
    rcases List.mem_append.mp h with h | h
    · obtain ⟨h1, h2⟩ := (dirRowsOf_dirRows_mem _ _ d).mp h
      refine ⟨?_, f, List.mem_cons_self, h1⟩
      intro e; subst e; exact h2 List.nil_prefix
    · simp only [dirRowsOf] at h
      obtain ⟨hne, g, hg, hd⟩ := ih _ d h
      exact ⟨hne, g, List.mem_cons_of_mem _ hg, hd⟩

theorem dirRowsOf_tableLoop_complete : ∀ (l : List File) (lastdir d : Path) (f : File),
    f ∈ l → d <+: f.path.dropLast →
    d ∈ dirRowsOf (tableLoop l lastdir) ∨ d <+: lastdir := by
  intro l
  induction l with
  | nil => intro _ _ _ h; cases h
  | cons g gs ih =>
    intro lastdir d f hf hd
    rw [tableLoop_cons, dirRowsOf_append]
    have head : d <+: g.path.dropLast →
        d ∈ dirRowsOf (dirRows g.path.dropLast lastdir) ++
          dirRowsOf (Row.file g.path g.length :: tableLoop gs g.path.dropLast) ∨ d <+: lastdir := by
      intro hdg
      by_cases hq : d <+: lastdir
      · exact Or.inr hq
      · exact Or.inl (List.mem_append_left _ ((dirRowsOf_dirRows_mem _ _ d).mpr ⟨hdg, hq⟩))
    rcases List.mem_cons.mp hf with rfl | hf'
    · exact head hd
    · rcases ih g.path.dropLast d f hf' hd with h | h
      · exact Or.inl (List.mem_append_right _ (by simpa [dirRowsOf] using h))
      · exact head h

/-! ### each directory is shown once -/

/-- in the lexicographic order the paths below a directory are contiguous -/
theorem le_contiguous : ∀ (d a b c : Path), le a b → le b c → d <+: a → d <+: c → d <+: b := by
  intro d
  induction d with
  | nil => intro _ _ _ _ _ _ _; exact List.nil_prefix
  | cons x d' ih =>
    intro a b c hab hbc ha hc
    obtain ⟨ta, rfl⟩ := ha
    obtain ⟨tc, rfl⟩ := hc
    simp only [List.cons_append] at hab hbc
    cases b with
    | nil => exact absurd hab (not_le_cons_nil _ _)
    | cons y b' =>
      rw [le_cons_iff] at hab hbc
      rcases hab with h1 | ⟨rfl, h1⟩
      · rcases hbc with h2 | ⟨rfl, _⟩
        · rw [ltStr_asymm _ _ h1] at h2; cases h2
        · rw [ltStr_irrefl] at h1; cases h1
      · rcases hbc with h2 | ⟨_, h2⟩
        · rw [ltStr_irrefl] at h2; cases h2
        · obtain ⟨t, ht⟩ := ih _ _ _ h1 h2 (List.prefix_append _ _) (List.prefix_append _ _)
          exact ⟨t, by rw [List.cons_append, ht]⟩

theorem prefix_dropLast_of_ne (d p : Path) (h : d <+: p) (hne : d ≠ p) : d <+: p.dropLast := by
  have hl : d.length < p.length := by
    have := h.length_le
    rcases Nat.lt_or_ge d.length p.length with h' | h'
    · exact h'
    · exact absurd (h.eq_of_length (by omega)) hne
  apply List.prefix_of_prefix_length_le h (List.dropLast_prefix p)
  rw [List.length_dropLast]; omega

/-- the invariant that makes "once" true: files are sorted and no path is a prefix of
    another, and whatever directory the previous file was in is not re-entered later -/
theorem dirRowsOf_tableLoop_nodup : ∀ (l : List File) (lastdir : Path),
    l.Pairwise (fun a b => le a.path b.path) →
    (∀ f ∈ l, ∀ g ∈ l, f.path <+: g.path → f.path = g.path) →
    (∀ f ∈ l, f.path ≠ []) →
    (∀ d, d ≠ [] → d <+: lastdir → ∀ pre g post, l = pre ++ g :: post → d <+: g.path →
        ∀ x ∈ pre, d <+: x.path.dropLast) →
    (dirRowsOf (tableLoop l lastdir)).Nodup ∧
    ∀ d ∈ dirRowsOf (tableLoop l lastdir), ¬ d <+: lastdir := by
  intro l
  induction l with
  | nil => intro _ _ _ _ _; simp [tableLoop, dirRowsOf]
  | cons f fs ih =>
    intro lastdir hs hw hne hH
    have hs' := List.pairwise_cons.mp hs
    -- the invariant for the rest, with the directory of f as the previous one
    have hH' : ∀ d, d ≠ [] → d <+: f.path.dropLast → ∀ pre g post, fs = pre ++ g :: post →
        d <+: g.path → ∀ x ∈ pre, d <+: x.path.dropLast := by
      intro d _ hdf pre g post hfs hdg x hx
      have hxfs : x ∈ fs := by rw [hfs]; exact List.mem_append_left _ hx
      have hgfs : g ∈ fs := by rw [hfs]; exact List.mem_append_right _ List.mem_cons_self
      have hdfp : d <+: f.path := hdf.trans (List.dropLast_prefix _)
      have hfx : le f.path x.path := hs'.1 x hxfs
      have hxg : le x.path g.path := by
        have := hs'.2
        rw [hfs, List.pairwise_append] at this
        exact this.2.2 x hx g List.mem_cons_self
      have hdx : d <+: x.path := le_contiguous d _ _ _ hfx hxg hdfp hdg
      apply prefix_dropLast_of_ne d x.path hdx
      intro e
      -- then x.path = d is a prefix of f.path, hence equal to it, but d is shorter
      have hxf : x.path <+: f.path := e ▸ hdfp
      have := hw x (List.mem_cons_of_mem _ hxfs) f List.mem_cons_self hxf
      have hl := hdf.length_le
      rw [List.length_dropLast] at hl
      have hfl : 0 < f.path.length := List.length_pos_iff.mpr (hne f List.mem_cons_self)
      have hdl : d.length = f.path.length := by rw [e, this]
      omega
    obtain ⟨ih1, ih2⟩ := ih f.path.dropLast hs'.2
      (fun a ha b hb => hw a (List.mem_cons_of_mem _ ha) b (List.mem_cons_of_mem _ hb))
      (fun a ha => hne a (List.mem_cons_of_mem _ ha)) hH'
    rw [tableLoop_cons, dirRowsOf_append]
    have htail : dirRowsOf (Row.file f.path f.length :: tableLoop fs f.path.dropLast) =
        dirRowsOf (tableLoop fs f.path.dropLast) := rfl
    rw [htail]
    constructor
    · refine List.nodup_append.mpr ⟨dirRowsOf_dirRows_nodup _ _, ih1, ?_⟩
      intro a ha b hb hab
      subst hab
      exact ih2 a hb ((dirRowsOf_dirRows_mem _ _ a).mp ha).1
    · intro d hd
      rcases List.mem_append.mp hd with hd | hd
      · exact ((dirRowsOf_dirRows_mem _ _ d).mp hd).2
      · intro hdl
        obtain ⟨hdne, g, hg, hdg⟩ := dirRowsOf_tableLoop_sound fs _ d hd
        obtain ⟨pre, post, hfs⟩ := List.append_of_mem hg
        have := hH d hdne hdl (f :: pre) g post (by rw [hfs]; rfl)
          (hdg.trans (List.dropLast_prefix _)) f List.mem_cons_self
        exact ih2 d hd this

/-! ### a directory row comes before the files below it -/

/-- all non-empty prefixes of `q` -/
def prefixesOf (q : Path) : List Path := (List.range q.length).map fun i => q.take (i + 1)

/-- walks the rows: at every file row every ancestor directory must have been shown already -/
def dirsBeforeFiles : List Row → List Path → Bool
  | [], _ => true
  | .dir d :: rs, seen => dirsBeforeFiles rs (d :: seen)
  | .file p _ :: rs, seen =>
    (prefixesOf p.dropLast).all (fun d => seen.contains d) && dirsBeforeFiles rs seen

theorem dirsBeforeFiles_append_dirs : ∀ (a : List Row) (b : List Row) (seen : List Path),
    (∀ r ∈ a, ∃ e, r = Row.dir e) →
    dirsBeforeFiles (a ++ b) seen = dirsBeforeFiles b ((dirRowsOf a).reverse ++ seen) := by
  intro a
  induction a with
  | nil => intro b seen _; rfl
  | cons r rs ih =>
    intro b seen h
    obtain ⟨e, rfl⟩ := h r List.mem_cons_self
    simp only [List.cons_append, dirsBeforeFiles, dirRowsOf, List.reverse_cons, List.append_assoc]
    exact ih b (e :: seen) (fun r hr => h r (List.mem_cons_of_mem _ hr))

theorem mem_prefixesOf (q d : Path) : d ∈ prefixesOf q ↔ d ≠ [] ∧ d <+: q := by
  unfold prefixesOf
  simp only [List.mem_map, List.mem_range]
  constructor
  · rintro ⟨i, hi, rfl⟩
    refine ⟨?_, List.take_prefix _ _⟩
    intro e
    have := congrArg List.length e
    rw [List.length_take] at this
    simp only [List.length_nil] at this
    omega
  · rintro ⟨hne, hp⟩
    have hl := hp.length_le
    have hpos : 0 < d.length := List.length_pos_iff.mpr hne
    refine ⟨d.length - 1, by omega, ?_⟩
    have : d.length - 1 + 1 = d.length := by omega
    rw [this, ← List.prefix_iff_eq_take.mp hp]

theorem dirsBeforeFiles_tableLoop : ∀ (l : List File) (lastdir : Path) (seen : List Path),
    (∀ d, d ≠ [] → d <+: lastdir → d ∈ seen) →
    dirsBeforeFiles (tableLoop l lastdir) seen = true := by
  intro l
  induction l with
  | nil => intro _ _ _; rfl
  | cons f fs ih =>
    intro lastdir seen hseen
    rw [tableLoop_cons, dirsBeforeFiles_append_dirs _ _ _
      (fun r hr => by obtain ⟨e, he, _⟩ := (mem_dirRows _ _ r).mp hr; exact ⟨e, he⟩)]
    have hseen' : ∀ d, d ≠ [] → d <+: f.path.dropLast →
        d ∈ (dirRowsOf (dirRows f.path.dropLast lastdir)).reverse ++ seen := by
      intro d hne hd
      by_cases hq : d <+: lastdir
      · exact List.mem_append_right _ (hseen d hne hq)
      · exact List.mem_append_left _ (List.mem_reverse.mpr ((dirRowsOf_dirRows_mem _ _ d).mpr ⟨hd, hq⟩))
    simp only [dirsBeforeFiles, Bool.and_eq_true, List.all_eq_true]
    refine ⟨?_, ih _ _ hseen'⟩
    intro d hd
    obtain ⟨hne, hp⟩ := (mem_prefixesOf _ d).mp hd
    exact List.contains_iff_mem.mpr (hseen' d hne hp)

end Storrent.NS
