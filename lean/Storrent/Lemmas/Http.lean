import Storrent.Model.Http
/- helper lemmas for Props/C19 (core only) -/
namespace Storrent.Http

/-! ### ParseIP: what an accepted literal looks like -/

theorem ipv4Loop_chars : ∀ (s : Str) (first prevDot : Bool) (val pos digLen : Nat),
    ipv4Loop s first prevDot val pos digLen = true → ∀ c ∈ s, isDigit c = true ∨ c = 46 := by
  intro s
  induction s with
  | nil => intro _ _ _ _ _ _ c hc; cases hc
  | cons x xs ih =>
    intro first prevDot val pos digLen h c hc
    unfold ipv4Loop at h
    by_cases hd : isDigit x = true
    · simp only [hd, if_true] at h
      by_cases h1 : digLen = 1 ∧ val = 0
      · simp [h1] at h
      · simp only [h1, if_false] at h
        by_cases h2 : val * 10 + (x.toNat - 48) > 255
        · simp [h2] at h
        · simp only [h2, if_false] at h
          rcases List.mem_cons.mp hc with rfl | hc'
          · exact Or.inl hd
          · exact ih _ _ _ _ _ h c hc'
    · simp only [hd] at h
      by_cases hdot : x = 46
      · simp only [hdot, if_true] at h
        by_cases h3 : (first || xs.isEmpty || prevDot) = true
        · simp [h3] at h
        · simp only [h3] at h
          by_cases h4 : pos = 3
          · simp [h4] at h
          · simp only [h4, if_false] at h
            rcases List.mem_cons.mp hc with rfl | hc'
            · exact Or.inr hdot
            · exact ih _ _ _ _ _ h c hc'
      · simp [hdot] at h

/-- an accepted IP literal is made of digits and dots only, or contains a colon -/
theorem parseIP_shape (s : Str) (h : parseIP s = true) :
    (∀ c ∈ s, isDigit c = true ∨ c = 46) ∨ 58 ∈ s := by
  unfold parseIP at h
  split at h
  · rename_i c hf
    by_cases h46 : c = 46
    · simp only [h46, if_true] at h
      exact Or.inl (ipv4Loop_chars s _ _ _ _ _ h)
    · simp only [h46, if_false] at h
      by_cases h58 : c = 58
      · subst h58
        exact Or.inr (List.mem_of_find?_eq_some hf)
      · simp [h58] at h
  · cases h

/-! ### ParseIP: the alphabet of an accepted literal -/

/-- hex digit, ':' or '.' -/
def ipChar (c : UInt8) : Bool := isHexDigit c || c == 58 || c == 46

theorem isDigit_ipChar {c : UInt8} (h : isDigit c = true ∨ c = 46) : ipChar c = true := by
  rcases h with h | h
  · unfold isDigit at h; unfold ipChar isHexDigit; simp [h]
  · subst h; decide

theorem take_takeWhile_mem (p : UInt8 → Bool) : ∀ (s : Str) (c : UInt8),
    c ∈ s.take (s.takeWhile p).length → p c = true := by
  intro s
  induction s with
  | nil => intro c h; simp at h
  | cons x xs ih =>
    intro c h
    by_cases hx : p x = true
    · simp only [List.takeWhile_cons, hx, if_true, List.length_cons, List.take_succ_cons,
        List.mem_cons] at h
      rcases h with rfl | h
      · exact hx
      · exact ih c h
    · simp [hx] at h

theorem mem_take_or_drop (n : Nat) (s : Str) (c : UInt8) (h : c ∈ s) : c ∈ s.take n ∨ c ∈ s.drop n := by
  rw [← List.take_append_drop n s] at h
  exact List.mem_append.mp h

theorem v6Finish_nil {s : Str} {i : Nat} {ell : Bool} (h : v6Finish s i ell = true) : s = [] := by
  unfold v6Finish at h
  cases s with
  | nil => rfl
  | cons a b => simp at h

theorem v6Loop_chars : ∀ (fuel : Nat) (s : Str) (i : Nat) (ell : Bool),
    v6Loop fuel s i ell = true → ∀ c ∈ s, ipChar c = true := by
  intro fuel
  induction fuel with
  | zero =>
    intro s i ell h c hc
    unfold v6Loop at h
    rw [v6Finish_nil h] at hc; cases hc
  | succ fuel ih =>
    intro s i ell h c hc
    unfold v6Loop at h
    by_cases h16 : 16 ≤ i
    · simp only [h16, if_true] at h
      rw [v6Finish_nil h] at hc; cases hc
    · simp only [h16, if_false] at h
      by_cases hn4 : 4 < (s.takeWhile isHexDigit).length
      · simp [hn4] at h
      · simp only [hn4, if_false] at h
        by_cases hn0 : (s.takeWhile isHexDigit).length = 0
        · simp [hn0] at h
        · simp only [hn0, if_false] at h
          -- the hex group
          rcases mem_take_or_drop (s.takeWhile isHexDigit).length s c hc with hct | hcd
          · have := take_takeWhile_mem isHexDigit s c hct
            unfold ipChar; simp [this]
          · by_cases hdot : (s.drop (s.takeWhile isHexDigit).length).head? = some 46
            · simp only [hdot, if_true] at h
              simp at h
              obtain ⟨_, _, h3, _⟩ := h
              exact isDigit_ipChar (ipv4Loop_chars s _ _ _ _ _ h3 c hc)
            · simp only [hdot, if_false] at h
              cases hs1 : s.drop (s.takeWhile isHexDigit).length with
              | nil => rw [hs1] at hcd; cases hcd
              | cons x s2 =>
                rw [hs1] at h hcd
                simp only at h
                by_cases hx : x = 58
                · subst hx
                  simp only [ne_eq, not_true_eq_false, if_false] at h
                  rcases List.mem_cons.mp hcd with rfl | hc2
                  · decide
                  · cases s2 with
                    | nil => cases hc2
                    | cons d s3 =>
                      simp only at h
                      by_cases hd : d = 58
                      · subst hd
                        simp only [if_true] at h
                        by_cases hell : ell = true
                        · simp [hell] at h
                        · simp only [hell, Bool.false_eq_true, if_false] at h
                          rcases List.mem_cons.mp hc2 with rfl | hc3
                          · decide
                          · by_cases he : s3.isEmpty = true
                            · cases s3 with
                              | nil => cases hc3
                              | cons _ _ => simp at he
                            · simp only [he, Bool.false_eq_true, if_false] at h
                              exact ih _ _ _ h c hc3
                      · simp only [hd, if_false] at h
                        exact ih _ _ _ h c hc2
                · simp [hx] at h

theorem parseIPv6_chars (s : Str) (h : parseIPv6 s = true) : ∀ c ∈ s, ipChar c = true := by
  unfold parseIPv6 at h
  split at h
  · rename_i rest
    intro c hc
    rcases List.mem_cons.mp hc with rfl | hc
    · decide
    · rcases List.mem_cons.mp hc with rfl | hc
      · decide
      · by_cases he : rest.isEmpty = true
        · cases rest with
          | nil => cases hc
          | cons _ _ => simp at he
        · simp only [he, Bool.false_eq_true, if_false] at h
          exact v6Loop_chars _ _ _ _ h c hc
  · exact v6Loop_chars _ _ _ _ h

/-- an accepted IP literal consists of hex digits, ':' and '.' only -/
theorem parseIP_chars (s : Str) (h : parseIP s = true) : ∀ c ∈ s, ipChar c = true := by
  unfold parseIP at h
  split at h
  · rename_i c0 _
    by_cases h46 : c0 = 46
    · simp only [h46, if_true] at h
      exact fun c hc => isDigit_ipChar (ipv4Loop_chars s _ _ _ _ _ h c hc)
    · simp only [h46, if_false] at h
      by_cases h58 : c0 = 58
      · simp only [h58, if_true] at h
        simp at h
        exact parseIPv6_chars s h.2
      · simp [h58] at h
  · cases h

/-! ### SplitHostPort on the plain `name:port` shape -/

theorem lastIndexOf_none (c : UInt8) : ∀ (s : Str), c ∉ s → lastIndexOf c s = none := by
  intro s
  induction s with
  | nil => intro _; rfl
  | cons x xs ih =>
    intro h
    have hx : x ≠ c := fun e => h (e ▸ List.mem_cons_self)
    have hxs : c ∉ xs := fun m => h (List.mem_cons_of_mem _ m)
    simp [lastIndexOf, ih hxs, hx]

theorem lastIndexOf_append (c : UInt8) (port : Str) (hp : c ∉ port) :
    ∀ (name : Str), lastIndexOf c (name ++ c :: port) = some name.length := by
  intro name
  induction name with
  | nil => simp [lastIndexOf, lastIndexOf_none c port hp]
  | cons x xs ih => simp [lastIndexOf, ih]

theorem contains_false_of_not_mem (c : UInt8) (s : Str) (h : c ∉ s) : s.contains c = false := by
  cases hc : s.contains c
  · rfl
  · exact absurd (List.contains_iff_mem.mp hc) h

/-- a Host header of the plain shape `name:port` splits into exactly (name, port) -/
theorem splitHostPort_plain (name port : Str)
    (hn : 58 ∉ name ∧ 91 ∉ name ∧ 93 ∉ name) (hp : 58 ∉ port ∧ 91 ∉ port ∧ 93 ∉ port) :
    splitHostPort (name ++ 58 :: port) = some (name, port) := by
  obtain ⟨hn58, hn91, hn93⟩ := hn
  obtain ⟨hp58, hp91, hp93⟩ := hp
  have hhead : (name ++ 58 :: port).head? ≠ some 91 := by
    cases name with
    | nil => simp
    | cons x xs =>
      simp only [List.cons_append, List.head?_cons, ne_eq, Option.some.injEq]
      intro e; exact hn91 (e ▸ List.mem_cons_self)
  have h91 : (91 : UInt8) ∉ name ++ 58 :: port := by
    simp only [List.mem_append, List.mem_cons, not_or]
    exact ⟨hn91, by decide, hp91⟩
  have h93 : (93 : UInt8) ∉ name ++ 58 :: port := by
    simp only [List.mem_append, List.mem_cons, not_or]
    exact ⟨hn93, by decide, hp93⟩
  unfold splitHostPort
  rw [lastIndexOf_append 58 port hp58 name]
  simp only [hhead, if_false]
  have ht : (name ++ 58 :: port).take name.length = name := List.take_left' rfl
  have hd : (name ++ 58 :: port).drop (name.length + 1) = port := by
    rw [← List.drop_drop, List.drop_left' rfl]; rfl
  simp only [ht, hd, contains_false_of_not_mem 58 name hn58, contains_false_of_not_mem 91 _ h91,
    contains_false_of_not_mem 93 _ h93]
  rfl

/-! ### html.EscapeString -/

/-- executable statement of "escaped": none of < > " ' and every & starts an entity -/
def wellEscaped : Str → Bool
  | [] => true
  | c :: rest =>
    if c = 38 then entities.any (fun e => e.isPrefixOf (c :: rest)) && wellEscaped rest
    else (c != 60 && c != 62 && c != 34 && c != 39) && wellEscaped rest

theorem wellEscaped_htmlEscape (s : Str) : wellEscaped (htmlEscape s) = true := by
  induction s with
  | nil => rfl
  | cons c s ih =>
    have hcons : htmlEscape (c :: s) = escByte c ++ htmlEscape s := by
      simp [htmlEscape, List.flatMap_cons]
    rw [hcons]
    unfold escByte
    by_cases h38 : c = 38
    · simp [h38, entAmp, wellEscaped, entities, entApos, entLt, entGt, entQuot, List.isPrefixOf, ih]
    · by_cases h39 : c = 39
      · simp [h39, entAmp, wellEscaped, entities, entApos, entLt, entGt, entQuot, List.isPrefixOf, ih]
      · by_cases h60 : c = 60
        · simp [h60, entAmp, wellEscaped, entities, entApos, entLt, entGt, entQuot, List.isPrefixOf, ih]
        · by_cases h62 : c = 62
          · simp [h62, entAmp, wellEscaped, entities, entApos, entLt, entGt, entQuot, List.isPrefixOf, ih]
          · by_cases h34 : c = 34
            · simp [h34, entAmp, wellEscaped, entities, entApos, entLt, entGt, entQuot, List.isPrefixOf, ih]
            · simp [h38, h39, h60, h62, h34, wellEscaped, ih]

/-- what `wellEscaped` means position by position -/
theorem wellEscaped_spec : ∀ (pre o : Str), wellEscaped o = true → ∀ c suf, o = pre ++ c :: suf →
    (c ≠ 60 ∧ c ≠ 62 ∧ c ≠ 34 ∧ c ≠ 39) ∧ (c = 38 → ∃ e ∈ entities, e <+: c :: suf) := by
  intro pre
  induction pre with
  | nil =>
    intro o h c suf ho
    subst ho
    simp only [List.nil_append] at h
    unfold wellEscaped at h
    by_cases h38 : c = 38
    · simp only [h38, if_true, Bool.and_eq_true, List.any_eq_true] at h
      refine ⟨by subst h38; decide, fun _ => ?_⟩
      obtain ⟨⟨e, he, hpre⟩, _⟩ := h
      exact ⟨e, he, by subst h38; exact List.isPrefixOf_iff_prefix.mp hpre⟩
    · simp only [h38, if_false, Bool.and_eq_true, bne_iff_ne, ne_eq] at h
      exact ⟨⟨h.1.1.1.1, h.1.1.1.2, h.1.1.2, h.1.2⟩, fun e => absurd e h38⟩
  | cons p ps ih =>
    intro o h c suf ho
    subst ho
    have h' : wellEscaped (ps ++ c :: suf) = true := by
      simp only [List.cons_append] at h
      unfold wellEscaped at h
      by_cases h38 : p = 38
      · simp only [h38, if_true, Bool.and_eq_true] at h; exact h.2
      · simp only [h38, if_false, Bool.and_eq_true] at h; exact h.2
    exact ih _ h' c suf rfl

/-! ### url.PathEscape / pathUrl -/

/-- none of < > " ' space LF CR -/
def pathSafe (b : UInt8) : Bool :=
  b != 60 && b != 62 && b != 34 && b != 39 && b != 32 && b != 10 && b != 13

theorem getD_mem_or (l : Str) (n : Nat) (d : UInt8) : l.getD n d ∈ d :: l := by
  rw [List.getD_eq_getElem?_getD]
  cases h : l[n]? with
  | none => simp
  | some x => simp only [Option.getD_some]; exact List.mem_cons_of_mem _ (List.mem_of_getElem? h)

theorem upperhex_safe (n : Nat) : pathSafe (upperhex n) = true := by
  have h : ∀ x ∈ (48 : UInt8) :: upperhexTable, pathSafe x = true := by decide
  exact h _ (getD_mem_or _ _ _)

theorem hexLower_safe (n : Nat) : pathSafe (hexLower n) = true := by
  have h : ∀ x ∈ (48 : UInt8) :: lowerhexTable, pathSafe x = true := by decide
  exact h _ (getD_mem_or _ _ _)

theorem shouldEscape_of_unsafe (c : UInt8) (h : pathSafe c = false) : shouldEscape c = true := by
  have : c = 60 ∨ c = 62 ∨ c = 34 ∨ c = 39 ∨ c = 32 ∨ c = 10 ∨ c = 13 := by
    simp only [pathSafe, Bool.and_eq_false_iff, bne_eq_false_iff_eq] at h
    rcases h with ((((((h | h) | h) | h) | h) | h) | h) <;> simp [h]
  rcases this with h | h | h | h | h | h | h <;> subst h <;> decide

theorem pctByte_safe (c b : UInt8) (hb : b ∈ pctByte c) : pathSafe b = true := by
  unfold pctByte at hb
  by_cases hs : shouldEscape c = true
  · simp only [hs, if_true, List.mem_cons, List.not_mem_nil, or_false] at hb
    rcases hb with rfl | rfl | rfl
    · decide
    · exact upperhex_safe _
    · exact upperhex_safe _
  · have hs' : shouldEscape c = false := by simpa using hs
    simp only [hs', Bool.false_eq_true, if_false, List.mem_singleton] at hb
    subst hb
    cases hp : pathSafe b
    · exact absurd (shouldEscape_of_unsafe b hp) (by simp [hs'])
    · rfl

theorem pathEscape_safe (s : Str) (b : UInt8) (hb : b ∈ pathEscape s) : pathSafe b = true := by
  unfold pathEscape at hb
  obtain ⟨c, _, hc⟩ := List.mem_flatMap.mp hb
  exact pctByte_safe c b hc

theorem pathUrl_safe (p : List Str) (u : Str) (h : pathUrl p = .ok u) : ∀ b ∈ u, pathSafe b = true := by
  unfold pathUrl at h
  simp only at h
  split at h
  · cases h
  · injection h with h
    subst h
    intro b hb
    have hb' := List.dropLast_subset _ hb
    obtain ⟨s, _, hs⟩ := List.mem_flatMap.mp hb'
    rcases List.mem_append.mp hs with h1 | h1
    · exact pathEscape_safe s b h1
    · simp only [List.mem_singleton] at h1; subst h1; decide

theorem pathUrl_panic_iff (p : List Str) : pathUrl p = .panic ↔ p = [] := by
  unfold pathUrl
  cases p with
  | nil => simp
  | cons s ss => simp [List.flatMap_cons]

end Storrent.Http
