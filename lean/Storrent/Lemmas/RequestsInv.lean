import Storrent.Model.Requests
/- The representation invariant of `Requests`: queued and sent chunk numbers are pairwise
   distinct and the membership bitmap is exactly their union. -/
namespace Storrent.Requests

def idx (l : List Req) : List Nat := l.map (·.index)

def RInv (rs : Requests) : Prop :=
  (idx rs.queue ++ idx rs.requested).Nodup ∧
  ∀ c, rs.member c = true ↔ c ∈ idx rs.queue ∨ c ∈ idx rs.requested

theorem mem_swapRemove {α : Type} {l : List α} {i : Nat} {x : α} (h : x ∈ swapRemove l i) : x ∈ l := by
  unfold swapRemove at h
  simp only at h
  cases hb : (l.drop (i + 1)).getLast? with
  | none => rw [hb] at h; exact List.mem_of_mem_take h
  | some y =>
    rw [hb] at h
    simp only [List.mem_append, List.mem_cons] at h
    rcases h with h | h | h
    · exact List.mem_of_mem_take h
    · subst h; exact List.mem_of_mem_drop (List.mem_of_getLast? hb)
    · exact List.mem_of_mem_drop (List.dropLast_subset _ h)

theorem findIdx_some {l : List Req} {c i : Nat} (h : findIdx l c = some i) :
    ∃ r, l[i]? = some r ∧ r.index = c := by
  unfold findIdx at h
  rw [List.findIdx?_eq_some_iff_getElem] at h
  obtain ⟨hi, hp, _⟩ := h
  exact ⟨l[i], List.getElem?_eq_getElem hi, by simpa using hp⟩

theorem RInv_empty : RInv {} := by
  constructor <;> simp [idx]

theorem RInv_enqueue {rs : Requests} (h : RInv rs) (c : Nat) : RInv (enqueue rs c).1 := by
  unfold enqueue
  split
  · exact h
  · rename_i hm
    have hnm : ¬ (c ∈ idx rs.queue ∨ c ∈ idx rs.requested) := fun hc => hm ((h.2 c).2 hc)
    constructor
    · simp only [idx, List.map_append, List.map_cons, List.map_nil] at *
      have := h.1
      rw [List.nodup_append] at this ⊢
      obtain ⟨h1, h2, h3⟩ := this
      refine ⟨?_, h2, ?_⟩
      · rw [List.nodup_append]
        refine ⟨h1, by simp, ?_⟩
        intro a ha b hb
        simp only [List.mem_singleton] at hb
        subst hb
        intro e; subst e
        exact hnm (Or.inl ha)
      · intro a ha b hb
        simp only [List.mem_append, List.mem_singleton] at ha
        rcases ha with ha | ha
        · exact h3 a ha b hb
        · subst ha
          intro e; subst e
          exact hnm (Or.inr hb)
    · intro x
      simp only [mset, idx, List.map_append, List.map_cons, List.map_nil, List.mem_append,
        List.mem_singleton, Bool.or_eq_true, beq_iff_eq]
      have := h.2 x
      simp only [idx] at this
      rw [this]
      constructor
      · rintro (h | h | h)
        · exact Or.inl (Or.inr h)
        · exact Or.inl (Or.inl h)
        · exact Or.inr h
      · rintro ((h | h) | h)
        · exact Or.inr (Or.inl h)
        · exact Or.inl h
        · exact Or.inr (Or.inr h)

/-- the head of the queue is not outstanding, and taking it off keeps the invariant (the
    request is in limbo: in neither list, bit cleared) -/
theorem RInv_dequeue {rs rs1 : Requests} {q : Req} (h : RInv rs) (hd : dequeue rs = some (q, rs1)) :
    RInv rs1 ∧ q.index ∉ idx rs.requested ∧ rs1.member q.index = false := by
  unfold dequeue at hd
  split at hd
  · cases hd
  · rename_i q' rest hq
    cases hd
    have hn := h.1
    rw [hq] at hn
    simp only [idx, List.map_cons, List.cons_append, List.nodup_cons, List.mem_append, not_or] at hn
    refine ⟨⟨hn.2, ?_⟩, hn.1.2, by simp [mreset]⟩
    intro c
    simp only [mreset, Bool.and_eq_true, bne_iff_ne, ne_eq]
    have := h.2 c
    rw [hq] at this
    simp only [idx, List.map_cons, List.mem_cons] at this
    rw [this]
    simp only [idx]
    constructor
    · rintro ⟨hne, (h | h) | h⟩
      · exact absurd h hne
      · exact Or.inl h
      · exact Or.inr h
    · rintro (h | h)
      · exact ⟨fun e => hn.1.1 (e ▸ h), Or.inl (Or.inr h)⟩
      · exact ⟨fun e => hn.1.2 (e ▸ h), Or.inr h⟩

/-- `EnqueueRequest` of a chunk whose bit is clear never panics and keeps the invariant -/
theorem RInv_enqueueRequest {rs : Requests} {r : Req} (h : RInv rs) (hm : rs.member r.index = false) :
    ∃ rs2, enqueueRequest rs r = some rs2 ∧ RInv rs2 := by
  unfold enqueueRequest
  simp only [hm, Bool.false_eq_true, if_false]
  refine ⟨_, rfl, ?_⟩
  have hnm : ¬ (r.index ∈ idx rs.queue ∨ r.index ∈ idx rs.requested) := by
    intro hc
    have := (h.2 r.index).2 hc
    rw [hm] at this
    cases this
  constructor
  · simp only [idx, List.map_append, List.map_cons, List.map_nil] at *
    have := h.1
    rw [← List.append_assoc, List.nodup_append]
    refine ⟨this, by simp, ?_⟩
    intro a ha b hb
    simp only [List.mem_singleton] at hb
    subst hb
    intro e; subst e
    exact hnm (List.mem_append.1 ha)
  · intro x
    simp only [mset, idx, List.map_append, List.map_cons, List.map_nil, List.mem_append,
      List.mem_singleton, Bool.or_eq_true, beq_iff_eq]
    have := h.2 x
    simp only [idx] at this
    rw [this]
    constructor
    · rintro (h | h | h)
      · exact Or.inr (Or.inr h)
      · exact Or.inl h
      · exact Or.inr (Or.inl h)
    · rintro (h | h | h)
      · exact Or.inr (Or.inl h)
      · exact Or.inr (Or.inr h)
      · exact Or.inl h

theorem RInv_clear_both (rs : Requests) : RInv (clear rs true).1 := by
  unfold clear
  simp only [if_true]
  constructor <;> simp [idx]

/-! ### swap-remove, cancel marks, `Clear(false)`, ageing -/

theorem swapRemove_perm {α : Type} (l : List α) (i : Nat) :
    (swapRemove l i).Perm (l.take i ++ l.drop (i + 1)) := by
  unfold swapRemove
  simp only
  cases hb : (l.drop (i + 1)).getLast? with
  | none =>
    rw [List.getLast?_eq_none_iff] at hb
    rw [hb]; simp
  | some y =>
    obtain ⟨ys, hys⟩ := List.getLast?_eq_some_iff.1 hb
    rw [hys, List.dropLast_concat]
    exact List.Perm.append_left _ (List.perm_append_singleton y ys).symm

theorem split_at {α : Type} (l : List α) (i : Nat) (h : i < l.length) :
    l = l.take i ++ l[i] :: l.drop (i + 1) := by
  conv => lhs; rw [← List.take_append_drop i l]
  rw [List.drop_eq_getElem_cons h]

theorem nodup_remove_mid {A P S : List Nat} {c : Nat} (h : (A ++ (P ++ c :: S)).Nodup) :
    (A ++ (P ++ S)).Nodup ∧ c ∉ A ∧ c ∉ P ∧ c ∉ S := by
  simp only [List.nodup_append, List.nodup_cons, List.mem_append, List.mem_cons] at h ⊢
  grind

/-- removing the found entry `l[i]` (chunk `c`) by swap-remove: the chunk numbers left are a
    permutation of those before and after position `i` -/
theorem idx_swapRemove {l : List Req} {i c : Nat} {r0 : Req} (hr : l[i]? = some r0)
    (hc : r0.index = c) :
    ∃ P S, idx l = P ++ c :: S ∧ (idx (swapRemove l i)).Perm (P ++ S) := by
  obtain ⟨hi, hli⟩ := List.getElem?_eq_some_iff.1 hr
  refine ⟨idx (l.take i), idx (l.drop (i + 1)), ?_, ?_⟩
  · have := congrArg idx (split_at l i hi)
    rw [this]
    simp only [idx, List.map_append, List.map_cons, hli, hc]
  · have := (swapRemove_perm l i).map (·.index)
    simpa [idx] using this

theorem RInv_del {rs rs2 : Requests} {c : Nat} {ro q r : Bool} (h : RInv rs)
    (hd : del rs c ro = some (rs2, q, r)) :
    RInv rs2 ∧ (∀ x, x ∈ rs2.requested → x ∈ rs.requested) ∧
      (∀ x, x ∈ rs2.queue → x ∈ rs.queue) := by
  unfold del at hd
  split at hd
  · cases hd; exact ⟨h, fun _ hx => hx, fun _ hx => hx⟩
  · split at hd
    · rename_i i hf
      cases hd
      obtain ⟨r0, hr0, hc0⟩ := findIdx_some hf
      obtain ⟨P, S, hidx, hperm⟩ := idx_swapRemove hr0 hc0
      refine ⟨⟨?_, ?_⟩, fun _ hx => mem_swapRemove hx, fun _ hx => hx⟩
      · have hn := h.1
        rw [hidx] at hn
        have := nodup_remove_mid hn
        exact ((List.Perm.append_left (idx rs.queue) hperm).nodup_iff).2 this.1
      · intro x
        have hn := h.1
        rw [hidx] at hn
        have hfacts := nodup_remove_mid hn
        have hm := h.2 x
        rw [hidx] at hm
        have hp := hperm.mem_iff (a := x)
        simp only [mreset, Bool.and_eq_true, bne_iff_ne, ne_eq, List.mem_append, List.mem_cons] at *
        grind
    · split at hd
      · cases hd; exact ⟨h, fun _ hx => hx, fun _ hx => hx⟩
      · split at hd
        · rename_i i hf
          cases hd
          obtain ⟨r0, hr0, hc0⟩ := findIdx_some hf
          obtain ⟨P, S, hidx, hperm⟩ := idx_swapRemove hr0 hc0
          have hn : (idx rs.requested ++ (P ++ c :: S)).Nodup := by
            have := h.1
            rw [hidx] at this
            exact (List.perm_append_comm.nodup_iff).1 this
          have hfacts := nodup_remove_mid hn
          refine ⟨⟨?_, ?_⟩, fun _ hx => hx, fun _ hx => mem_swapRemove hx⟩
          · have h1 : (idx rs.requested ++ idx (swapRemove rs.queue i)).Nodup :=
              ((List.Perm.append_left (idx rs.requested) hperm).nodup_iff).2 hfacts.1
            exact (List.perm_append_comm.nodup_iff).1 h1
          · intro x
            have hm := h.2 x
            rw [hidx] at hm
            have hp := hperm.mem_iff (a := x)
            simp only [mreset, Bool.and_eq_true, bne_iff_ne, ne_eq, List.mem_append,
              List.mem_cons] at *
            grind
        · cases hd

theorem RInv_delRequested {rs : Requests} (h : RInv rs) (c : Nat) :
    RInv (delRequested rs c).1 ∧ (∀ x, x ∈ (delRequested rs c).1.requested → x ∈ rs.requested) := by
  unfold delRequested
  cases hd : del rs c true with
  | none => exact ⟨h, fun _ hx => hx⟩
  | some t =>
    obtain ⟨rs2, q, r⟩ := t
    have := RInv_del h hd
    exact ⟨this.1, this.2.1⟩

/-- marking a request (cancel mark / time stamps) does not change any chunk number -/
theorem idx_set_same {l : List Req} {i : Nat} {r r' : Req} (hr : l[i]? = some r)
    (hi : r'.index = r.index) : idx (l.set i r') = idx l := by
  obtain ⟨hlt, hli⟩ := List.getElem?_eq_some_iff.1 hr
  unfold idx
  rw [List.map_set, hi, ← hli]
  have : (List.map (·.index) l)[i]'(by simpa using hlt) = l[i].index := by simp
  rw [← this]
  exact List.set_getElem_self _

theorem RInv_mark {rs : Requests} {i : Nat} {r r' : Req} (h : RInv rs) (hr : rs.requested[i]? = some r)
    (hi : r'.index = r.index) : RInv { rs with requested := rs.requested.set i r' } := by
  unfold RInv
  simp only [idx_set_same hr hi]
  exact h

theorem mem_set_index {l : List Req} {i : Nat} {r r' x : Req} (hr : l[i]? = some r)
    (hi : r'.index = r.index) (hx : x ∈ l.set i r') : ∃ y, y ∈ l ∧ x.index = y.index := by
  rcases List.mem_or_eq_of_mem_set hx with h | h
  · exact ⟨x, h, rfl⟩
  · exact ⟨r, List.mem_of_getElem? hr, by rw [h, hi]⟩

theorem RInv_cancel {rs : Requests} (h : RInv rs) (c : Nat) :
    RInv (cancel rs c).1 ∧
    (∀ x, x ∈ (cancel rs c).1.requested → ∃ y, y ∈ rs.requested ∧ x.index = y.index) := by
  have triv : RInv rs ∧ (∀ x, x ∈ rs.requested → ∃ y, y ∈ rs.requested ∧ x.index = y.index) :=
    ⟨h, fun x hx => ⟨x, hx, rfl⟩⟩
  unfold cancel
  split
  · exact triv
  · split
    · exact triv
    · rename_i i hf
      split
      · exact triv
      · rename_i r hr
        split
        · exact triv
        · exact ⟨RInv_mark h hr rfl, fun x hx =>
            mem_set_index (r' := { r with cancelled := true, cage := 1 }) hr rfl hx⟩

theorem RInv_clear_false {rs : Requests} (h : RInv rs) : RInv (clear rs false).1 := by
  unfold clear
  simp only [Bool.false_eq_true, if_false]
  constructor
  · simp only [idx, List.map_nil, List.nil_append]
    have := h.1
    rw [List.nodup_append] at this
    exact this.2.1
  · intro c
    simp only [idx, List.map_nil, List.not_mem_nil, false_or, List.any_eq_true, beq_iff_eq,
      List.mem_map]

theorem RInv_age {rs : Requests} (h : RInv rs) (d : Nat) : RInv (age rs d) := by
  unfold RInv age
  have : idx (rs.requested.map (fun r =>
      { r with rage := r.rage + d, cage := if r.cancelled then r.cage + d else r.cage })) =
      idx rs.requested := by
    simp [idx, List.map_map, Function.comp_def]
  simp only [this]
  exact h

theorem mem_age_index {rs : Requests} {d : Nat} {x : Req} (hx : x ∈ (age rs d).requested) :
    ∃ y, y ∈ rs.requested ∧ x.index = y.index := by
  unfold age at hx
  simp only [List.mem_map] at hx
  obtain ⟨y, hy, e⟩ := hx
  exact ⟨y, hy, by rw [← e]⟩

/-! ### no panic under the invariant -/

theorem findIdx_of_mem {l : List Req} {r : Req} (h : r ∈ l) : ∃ i, findIdx l r.index = some i := by
  cases hf : findIdx l r.index with
  | some i => exact ⟨i, rfl⟩
  | none =>
    unfold findIdx at hf
    rw [List.findIdx?_eq_none_iff] at hf
    have := hf r h
    simp at this

/-- "Requests is broken!" cannot happen: a set membership bit means the chunk is in one of
    the two lists -/
theorem del_no_panic {rs : Requests} (h : RInv rs) (c : Nat) (ro : Bool) :
    ∃ t, del rs c ro = some t := by
  unfold del
  split
  · exact ⟨_, rfl⟩
  · rename_i hm
    have hm' : rs.member c = true := by simpa using hm
    split
    · exact ⟨_, rfl⟩
    · rename_i hfr
      split
      · exact ⟨_, rfl⟩
      · split
        · exact ⟨_, rfl⟩
        · rename_i hfq
          exfalso
          rcases (h.2 c).1 hm' with hq | hr
          · obtain ⟨r, hr1, hr2⟩ := List.mem_map.1 hq
            obtain ⟨i, hi⟩ := findIdx_of_mem hr1
            rw [hr2] at hi
            rw [hi] at hfq
            cases hfq
          · obtain ⟨r, hr1, hr2⟩ := List.mem_map.1 hr
            obtain ⟨i, hi⟩ := findIdx_of_mem hr1
            rw [hr2] at hi
            rw [hi] at hfr
            cases hfr

/-- "Couldn't delete request" cannot happen: `DelRequested` finds every sent request -/
theorem delRequested_found {rs : Requests} (h : RInv rs) {r : Req} (hr : r ∈ rs.requested) :
    (delRequested rs r.index).2 = true := by
  have hm : rs.member r.index = true := (h.2 _).2 (Or.inr (List.mem_map.2 ⟨r, hr, rfl⟩))
  obtain ⟨i, hi⟩ := findIdx_of_mem hr
  unfold delRequested del
  simp [hm, hi]

/-- `Expire` never panics and keeps the invariant, whatever the callbacks do to their state -/
theorem expireLoop_inv {σ : Type} (dropF : Nat → σ → σ) (cancelF : Requests → Req → σ → σ)
    (a0 a1 : Nat) : ∀ (fuel i : Nat) (rs : Requests) (st : σ) (d : Bool), RInv rs →
    ∃ rs' st' d', expireLoop dropF cancelF a0 a1 fuel i rs st d = some (rs', st', d') ∧ RInv rs'
  | 0, i, rs, st, d, h => by
    unfold expireLoop
    exact ⟨rs, st, d, rfl, h⟩
  | fuel + 1, i, rs, st, d, h => by
    unfold expireLoop
    split
    · exact ⟨rs, st, d, rfl, h⟩
    · rename_i r hr
      split
      · have hf := delRequested_found h (List.mem_of_getElem? hr)
        have hi := (RInv_delRequested h r.index).1
        cases hdr : delRequested rs r.index with
        | mk rs2 found =>
          rw [hdr] at hf hi
          simp only at hf hi
          simp only [hf, Bool.not_true, Bool.false_eq_true, if_false]
          exact expireLoop_inv dropF cancelF a0 a1 fuel i rs2 _ true hi
      · split
        · exact expireLoop_inv dropF cancelF a0 a1 fuel (i + 1) _ _ d (RInv_mark h hr rfl)
        · exact expireLoop_inv dropF cancelF a0 a1 fuel (i + 1) rs st d h

theorem rstep_inv {rs : Requests} (h : RInv rs) (op : ROp) :
    ∃ rs', rstep rs op = some rs' ∧ RInv rs' := by
  cases op with
  | enqueue c => exact ⟨_, rfl, RInv_enqueue h c⟩
  | dequeue send =>
    simp only [rstep]
    cases hq : rs.queue with
    | nil => exact ⟨rs, by simp, h⟩
    | cons q rest =>
      have hd : dequeue rs = some (q, { rs with queue := rest, member := mreset rs.member q.index }) := by
        unfold dequeue; rw [hq]
      obtain ⟨h1, _, h3⟩ := RInv_dequeue h hd
      simp only [List.isEmpty_cons, Bool.false_eq_true, if_false, hd]
      cases send with
      | true =>
        obtain ⟨rs2, e, hi⟩ := RInv_enqueueRequest h1 h3
        exact ⟨rs2, by simpa using e, hi⟩
      | false => exact ⟨_, by simp, h1⟩
  | del c =>
    obtain ⟨t, ht⟩ := del_no_panic h c false
    obtain ⟨rs2, q, r⟩ := t
    exact ⟨rs2, by simp [rstep, ht], (RInv_del h ht).1⟩
  | delRequested c => exact ⟨_, rfl, (RInv_delRequested h c).1⟩
  | cancel c => exact ⟨_, rfl, (RInv_cancel h c).1⟩
  | clear both =>
    refine ⟨_, rfl, ?_⟩
    cases both
    · exact RInv_clear_false h
    · exact RInv_clear_both rs
  | expire a0 a1 =>
    obtain ⟨rs', st', d', e, hi⟩ := expireLoop_inv (σ := Unit) (fun _ s => s) (fun _ _ s => s) a0 a1
      (2 * rs.requested.length + 1) 0 rs () false h
    exact ⟨rs', by simp [rstep, expire, e], hi⟩
  | age d => exact ⟨_, rfl, RInv_age h d⟩

theorem rrun_inv : ∀ (ops : List ROp) (rs : Requests), RInv rs →
    ∃ rs', rrun rs ops = some rs' ∧ RInv rs'
  | [], rs, h => ⟨rs, rfl, h⟩
  | op :: ops, rs, h => by
    obtain ⟨rs1, e, h1⟩ := rstep_inv h op
    obtain ⟨rs2, e2, h2⟩ := rrun_inv ops rs1 h1
    exact ⟨rs2, by simp [rrun, e, e2], h2⟩

/-! ### the bundle carried through the peer's handlers -/

/-- every queued / sent chunk number is below `N`, and the representation invariant holds -/
def RQ (N : Nat) (rs : Requests) : Prop :=
  (∀ r, r ∈ rs.queue → r.index < N) ∧ (∀ r, r ∈ rs.requested → r.index < N) ∧ RInv rs

theorem RQ_empty (N : Nat) : RQ N {} := ⟨by simp, by simp, RInv_empty⟩

theorem RQ_enqueue {N : Nat} {rs : Requests} (h : RQ N rs) {c : Nat} (hc : c < N) :
    RQ N (enqueue rs c).1 := by
  refine ⟨?_, ?_, RInv_enqueue h.2.2 c⟩
  · intro r hr
    unfold enqueue at hr
    split at hr
    · exact h.1 r hr
    · simp only [List.mem_append, List.mem_singleton] at hr
      rcases hr with hr | hr
      · exact h.1 r hr
      · subst hr; exact hc
  · intro r hr
    unfold enqueue at hr
    split at hr <;> exact h.2.1 r hr

theorem RQ_dequeue {N : Nat} {rs rs1 : Requests} {q : Req} (h : RQ N rs)
    (hd : dequeue rs = some (q, rs1)) :
    RQ N rs1 ∧ q.index < N ∧ q.index ∉ idx rs.requested ∧ rs1.member q.index = false := by
  obtain ⟨h1, h2, h3⟩ := RInv_dequeue h.2.2 hd
  unfold dequeue at hd
  split at hd
  · cases hd
  · rename_i q' rest hq
    cases hd
    refine ⟨⟨?_, h.2.1, h1⟩, h.1 q (by rw [hq]; exact List.mem_cons_self), h2, h3⟩
    intro r hr
    exact h.1 r (by rw [hq]; exact List.mem_cons_of_mem _ hr)

theorem RQ_enqueueRequest {N : Nat} {rs rs2 : Requests} {r : Req} (h : RQ N rs) (hr : r.index < N)
    (he : enqueueRequest rs r = some rs2) : RQ N rs2 := by
  have hm : rs.member r.index = false := by
    unfold enqueueRequest at he
    split at he
    · cases he
    · rename_i hm; simpa using hm
  obtain ⟨rs2', e, hinv⟩ := RInv_enqueueRequest h.2.2 hm
  rw [he] at e
  cases e
  unfold enqueueRequest at he
  simp only [hm, Bool.false_eq_true, if_false, Option.some.injEq] at he
  subst he
  refine ⟨h.1, ?_, hinv⟩
  intro x hx
  simp only [List.mem_append, List.mem_singleton] at hx
  rcases hx with hx | hx
  · exact h.2.1 x hx
  · subst hx; exact hr

theorem RQ_del {N : Nat} {rs rs2 : Requests} {c : Nat} {ro q r : Bool} (h : RQ N rs)
    (hd : del rs c ro = some (rs2, q, r)) : RQ N rs2 := by
  obtain ⟨h1, h2, h3⟩ := RInv_del h.2.2 hd
  exact ⟨fun x hx => h.1 x (h3 x hx), fun x hx => h.2.1 x (h2 x hx), h1⟩

theorem delRequested_queue' (rs : Requests) (c : Nat) : (delRequested rs c).1.queue = rs.queue := by
  unfold delRequested del
  split <;> rename_i h
  · split at h
    · cases h; rfl
    · split at h
      · cases h; rfl
      · simp only [if_true] at h
        cases h; rfl
  · rfl

theorem RQ_delRequested {N : Nat} {rs : Requests} (h : RQ N rs) (c : Nat) :
    RQ N (delRequested rs c).1 := by
  obtain ⟨h1, h2⟩ := RInv_delRequested h.2.2 c
  refine ⟨?_, fun x hx => h.2.1 x (h2 x hx), h1⟩
  rw [delRequested_queue']
  exact h.1

theorem RQ_mark {N : Nat} {rs : Requests} {i : Nat} {r r' : Req} (h : RQ N rs)
    (hr : rs.requested[i]? = some r) (hi : r'.index = r.index) :
    RQ N { rs with requested := rs.requested.set i r' } := by
  refine ⟨h.1, ?_, RInv_mark h.2.2 hr hi⟩
  intro x hx
  obtain ⟨y, hy, e⟩ := mem_set_index hr hi hx
  rw [e]; exact h.2.1 y hy

theorem cancel_queue' (rs : Requests) (c : Nat) : (cancel rs c).1.queue = rs.queue := by
  unfold cancel
  split
  · rfl
  · split
    · rfl
    · split
      · rfl
      · split <;> rfl

theorem RQ_cancel {N : Nat} {rs : Requests} (h : RQ N rs) (c : Nat) : RQ N (cancel rs c).1 := by
  obtain ⟨h1, h2⟩ := RInv_cancel h.2.2 c
  refine ⟨?_, ?_, h1⟩
  · rw [cancel_queue']; exact h.1
  · intro x hx
    obtain ⟨y, hy, e⟩ := h2 x hx
    rw [e]; exact h.2.1 y hy

theorem RQ_clear {N : Nat} {rs : Requests} (h : RQ N rs) (both : Bool) : RQ N (clear rs both).1 := by
  cases both with
  | true =>
    refine ⟨?_, ?_, RInv_clear_both rs⟩ <;> simp [clear]
  | false =>
    refine ⟨?_, ?_, RInv_clear_false h.2.2⟩
    · simp [clear]
    · intro x hx
      have : (clear rs false).1.requested = rs.requested := by simp [clear]
      rw [this] at hx
      exact h.2.1 x hx

theorem RQ_age {N : Nat} {rs : Requests} (h : RQ N rs) (d : Nat) : RQ N (age rs d) := by
  refine ⟨h.1, ?_, RInv_age h.2.2 d⟩
  intro x hx
  obtain ⟨y, hy, e⟩ := mem_age_index hx
  rw [e]; exact h.2.1 y hy

end Storrent.Requests
