import Storrent.Model.Requests
/- The representation invariant of `Requests`: queued and sent chunk numbers are pairwise
   distinct and the membership bitmap is exactly their union. -/
namespace Storrent.Requests

def idx (l : List Req) : List Nat := l.map (·.index)

def RInv (rs : Requests) : Prop :=
  (idx rs.queue ++ idx rs.requested).Nodup ∧
  ∀ c, rs.member c = true ↔ c ∈ idx rs.queue ∨ c ∈ idx rs.requested

theorem RInv_empty : RInv {} := by
  constructor <;> simp [idx]

theorem RInv_enqueue {rs : Requests} (h : RInv rs) (c : Nat) : RInv (enqueue rs c).1 := by
  unfold enqueue
  split
  · exact h
  · rename_i hm
    have hnm : ¬ (c ∈ idx rs.queue ∨ c ∈ idx rs.requested) := fun hc => hm ((h.2 c).2 hc)
    constructor
    · simp only [idx, List.map_append, List.map_cons, List.map_nil] at *
      have := h.1
      rw [List.nodup_append] at this ⊢
      obtain ⟨h1, h2, h3⟩ := this
      refine ⟨?_, h2, ?_⟩
      · rw [List.nodup_append]
        refine ⟨h1, by simp, ?_⟩
        intro a ha b hb
        simp only [List.mem_singleton] at hb
        subst hb
        intro e; subst e
        exact hnm (Or.inl ha)
      · intro a ha b hb
        simp only [List.mem_append, List.mem_singleton] at ha
        rcases ha with ha | ha
        · exact h3 a ha b hb
        · subst ha
          intro e; subst e
          exact hnm (Or.inr hb)
    · intro x
      simp only [mset, idx, List.map_append, List.map_cons, List.map_nil, List.mem_append,
        List.mem_singleton, Bool.or_eq_true, beq_iff_eq]
      have := h.2 x
      simp only [idx] at this
      rw [this]
      constructor
      · rintro (h | h | h)
        · exact Or.inl (Or.inr h)
        · exact Or.inl (Or.inl h)
        · exact Or.inr h
      · rintro ((h | h) | h)
        · exact Or.inr (Or.inl h)
        · exact Or.inl h
        · exact Or.inr (Or.inr h)

/-- the head of the queue is not outstanding, and taking it off keeps the invariant (the
    request is in limbo: in neither list, bit cleared) -/
theorem RInv_dequeue {rs rs1 : Requests} {q : Req} (h : RInv rs) (hd : dequeue rs = some (q, rs1)) :
    RInv rs1 ∧ q.index ∉ idx rs.requested ∧ rs1.member q.index = false := by
  unfold dequeue at hd
  split at hd
  · cases hd
  · rename_i q' rest hq
    cases hd
    have hn := h.1
    rw [hq] at hn
    simp only [idx, List.map_cons, List.cons_append, List.nodup_cons, List.mem_append, not_or] at hn
    refine ⟨⟨hn.2, ?_⟩, hn.1.2, by simp [mreset]⟩
    intro c
    simp only [mreset, Bool.and_eq_true, bne_iff_ne, ne_eq]
    have := h.2 c
    rw [hq] at this
    simp only [idx, List.map_cons, List.mem_cons] at this
    rw [this]
    simp only [idx]
    constructor
    · rintro ⟨hne, (h | h) | h⟩
      · exact absurd h hne
      · exact Or.inl h
      · exact Or.inr h
    · rintro (h | h)
      · exact ⟨fun e => hn.1.1 (e ▸ h), Or.inl (Or.inr h)⟩
      · exact ⟨fun e => hn.1.2 (e ▸ h), Or.inr h⟩

/-- `EnqueueRequest` of a chunk whose bit is clear never panics and keeps the invariant -/
theorem RInv_enqueueRequest {rs : Requests} {r : Req} (h : RInv rs) (hm : rs.member r.index = false) :
    ∃ rs2, enqueueRequest rs r = some rs2 ∧ RInv rs2 := by
  unfold enqueueRequest
  simp only [hm, Bool.false_eq_true, if_false]
  refine ⟨_, rfl, ?_⟩
  have hnm : ¬ (r.index ∈ idx rs.queue ∨ r.index ∈ idx rs.requested) := by
    intro hc
    have := (h.2 r.index).2 hc
    rw [hm] at this
    cases this
  constructor
  · simp only [idx, List.map_append, List.map_cons, List.map_nil] at *
    have := h.1
    rw [← List.append_assoc, List.nodup_append]
    refine ⟨this, by simp, ?_⟩
    intro a ha b hb
    simp only [List.mem_singleton] at hb
    subst hb
    intro e; subst e
    exact hnm (List.mem_append.1 ha)
  · intro x
    simp only [mset, idx, List.map_append, List.map_cons, List.map_nil, List.mem_append,
      List.mem_singleton, Bool.or_eq_true, beq_iff_eq]
    have := h.2 x
    simp only [idx] at this
    rw [this]
    constructor
    · rintro (h | h | h)
      · exact Or.inr (Or.inr h)
      · exact Or.inl h
      · exact Or.inr (Or.inl h)
    · rintro (h | h | h)
      · exact Or.inr (Or.inl h)
      · exact Or.inr (Or.inr h)
      · exact Or.inl h

theorem RInv_clear_both (rs : Requests) : RInv (clear rs true).1 := by
  unfold clear
  simp only [if_true]
  constructor <;> simp [idx]

end Storrent.Requests
