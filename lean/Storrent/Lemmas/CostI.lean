import Storrent.Lemmas.PeerMsgCases
import Storrent.Lemmas.TorMetaI
/- Amortised cost logic for the `PM` monad.

   `Psi c` = bytes the peer side has allocated so far + what the torrent will allocate for
   the events emitted so far (`torCost`, a function of the event alone).
   `Pot s` = potential of the peer state: what retracting / dropping / rejecting the state
   held for the remote can still cost (its bitmap is copied into the retraction event and
   its bits re-announced, queued and sent requests are dropped one by one, the upload queue
   is rejected one by one).  A step costs `K` if `Psi + Pot` grows by at most `K`; summing
   over a handler gives  cost ≤ K(message) + Pot(state before). -/
namespace Storrent.PeerMsg
open Storrent Storrent.RequestsI

def outCost : Out → Nat
  | .msg _ => 0
  | .ev e => torCost e

def sumCost (l : List Out) : Nat := (l.map outCost).sum

def Psi (c : Ctx) : Nat := c.alloc + sumCost c.outs

def potA : Nat := 400   -- per queued request: Request written, moved to `requested`, or dropped
def potB : Nat := 128   -- per sent request: dropped
def potC : Nat := 32    -- per upload request: rejected
def potD : Nat := 97    -- per byte of the remote's bitmap: copy + 80 for the retraction + 16 for DontHave

def Pot (s : PeerState) : Nat :=
  potA * s.requests.queue.length + potB * s.requests.requested.length + potC * s.upload.length +
  potD * (s.bitmap.getD []).length

/-- `Psi + Pot` grows by at most `K` from `c` to `c'` -/
def Le (c c' : Ctx) (K : Nat) : Prop := Psi c' + Pot c'.s ≤ Psi c + Pot c.s + K

theorem Le.refl (c : Ctx) : Le c c 0 := Nat.le_refl _
theorem Le.trans {a b c : Ctx} {K1 K2 : Nat} (h1 : Le a b K1) (h2 : Le b c K2) : Le a c (K1 + K2) := by
  unfold Le at *; omega
theorem Le.mono {a b : Ctx} {K K' : Nat} (h : Le a b K) (hk : K ≤ K') : Le a b K' := by
  unfold Le at *; omega

/-- cost specification: from a state satisfying `Inv`, whatever the outcome (return or
    `return err`), `Psi + Pot` grows by at most `K` (faults are excluded by `Spec`) -/
def CostOut {α} (st : Step α) (c : Ctx) (K : Nat) : Prop :=
  match st with
  | .ret _ c' => Le c c' K
  | .err _ c' => Le c c' K
  | .panic _ _ => True

@[simp] theorem costOut_ret {α} (a : α) (c c' : Ctx) (K : Nat) : CostOut (.ret a c') c K ↔ Le c c' K := Iff.rfl
@[simp] theorem costOut_err {α} (e : String) (c c' : Ctx) (K : Nat) : CostOut (.err e c' : Step α) c K ↔ Le c c' K := Iff.rfl
@[simp] theorem costOut_panic {α} (w : String) (c c' : Ctx) (K : Nat) : CostOut (.panic w c' : Step α) c K ↔ True := Iff.rfl

theorem CostOut.mono {α} {st : Step α} {c : Ctx} {K K' : Nat} (h : CostOut st c K) (hk : K ≤ K') : CostOut st c K' := by
  cases st <;> simp_all <;> exact Le.mono h hk

def CSpec {α} (x : PM α) (K : Nat) : Prop := ∀ c, Inv c.s → CostOut (x c) c K

/-- the same for helpers that need the metadata; the (immutable) geometry is a parameter so
    that what `numPieces` returns is known -/
def npOf (s : PeerState) : Nat := (s.length + s.pieceSize - 1) / s.pieceSize

def CSpecG {α} (N : Nat) (x : PM α) (K : Nat) : Prop :=
  ∀ c, Inv c.s → c.s.info = true → npOf c.s = N → CostOut (x c) c K

theorem cspec_mono {α} {x : PM α} {K K' : Nat} (hk : K ≤ K') (h : CSpec x K) : CSpec x K' :=
  fun c hi => (h c hi).mono hk

theorem cspecG_mono {α} {N : Nat} {x : PM α} {K K' : Nat} (hk : K ≤ K') (h : CSpecG N x K) :
    CSpecG N x K' :=
  fun c hi hinfo h1 => (h c hi hinfo h1).mono hk

theorem cspecG_of_cspec {α} {N : Nat} {x : PM α} {K : Nat} (h : CSpec x K) : CSpecG N x K :=
  fun c hi _ _ => h c hi

theorem bindE {α β} (x : PM α) (f : α → PM β) (c : Ctx) : (x >>= f) c = match x c with
  | .ret a c' => f a c' | .err e c' => .err e c' | .panic w c' => .panic w c' := rfl

/-- sequencing: the first step is known not to fault and to keep `Inv` (`Spec`) -/
theorem cspec_bind {α β} {x : PM α} {f : α → PM β} {K K1 : Nat} (hs : Spec x) (hx : CSpec x K1)
    (hf : ∀ a, CSpec (f a) (K - K1)) (hk : K1 ≤ K) : CSpec (x >>= f) K := by
  intro c hi
  rw [bindE]
  have h1 := hx c hi
  have h2 := hs c hi
  unfold Ok at h2
  cases hxc : x c with
  | ret a c' =>
    rw [hxc] at h1 h2
    simp only [costOut_ret] at h1
    dsimp only at h2 ⊢
    have h3 := hf a c' h2.2
    cases hfc : f a c' with
    | ret b c'' => rw [hfc] at h3; exact Le.mono (Le.trans h1 h3) (by omega)
    | err e c'' => rw [hfc] at h3; exact Le.mono (Le.trans h1 h3) (by omega)
    | panic w c'' => trivial
  | err e c' => rw [hxc] at h1; exact Le.mono h1 hk
  | panic w c' => trivial

theorem cspecG_bind {α β} {N : Nat} {x : PM α} {f : α → PM β} {K K1 : Nat} (hs : SpecG x)
    (hx : CSpecG N x K1) (hf : ∀ a, CSpecG N (f a) (K - K1)) (hk : K1 ≤ K) :
    CSpecG N (x >>= f) K := by
  intro c hi hinfo hN
  rw [bindE]
  have h1 := hx c hi hinfo hN
  have h2 := hs c hi hinfo
  unfold Ok at h2
  cases hxc : x c with
  | ret a c' =>
    rw [hxc] at h1 h2
    simp only [costOut_ret] at h1
    dsimp only at h2 ⊢
    have hN' : npOf c'.s = N := by unfold npOf at *; rw [h2.1.2.1, h2.1.2.2]; exact hN
    have h3 := hf a c' h2.2 (by rw [h2.1.1]; exact hinfo) hN'
    cases hfc : f a c' with
    | ret b c'' => rw [hfc] at h3; exact Le.mono (Le.trans h1 h3) (by omega)
    | err e c'' => rw [hfc] at h3; exact Le.mono (Le.trans h1 h3) (by omega)
    | panic w c'' => trivial
  | err e c' => rw [hxc] at h1; exact Le.mono h1 hk
  | panic w c' => trivial

/-- `numPieces` returns the piece count of the (known) geometry, or faults -/
theorem cspecG_numPieces_bind {β} {N : Nat} {f : Nat → PM β} {K : Nat}
    (hf : CSpecG N (f N) K) : CSpecG N (numPieces >>= f) K := by
  intro c hi hinfo hN
  rw [bindE]
  have hps : ¬ c.s.pieceSize = 0 := by have := hi.geom hinfo; unfold CS at this; omega
  have he : numPieces c = .ret N c := by
    unfold numPieces
    simp only [bindE, get]
    rw [if_neg hps, ← hN]
    rfl
  rw [he]
  exact hf c hi hinfo hN

theorem cspec_get_bind {β} {f : PeerState → PM β} {K : Nat} (hf : ∀ s, CSpec (f s) K) : CSpec (get >>= f) K := by
  intro c hi; rw [bindE]; exact hf c.s c hi

theorem cspecG_get_bind {β} {N : Nat} {f : PeerState → PM β} {K : Nat}
    (hf : ∀ s, CSpecG N (f s) K) : CSpecG N (get >>= f) K := by
  intro c hi hinfo hN; rw [bindE]; exact hf c.s c hi hinfo hN

/-! leaves -/
theorem sumCost_append (l : List Out) (o : Out) : sumCost (l ++ [o]) = sumCost l + outCost o := by
  simp [sumCost]

theorem cspec_pure {α} (a : α) : CSpec (pure a : PM α) 0 := fun c _ => Le.refl c
theorem cspec_charge (n : Nat) : CSpec (charge n) n := by
  intro c _; simp only [charge, costOut_ret, Le, Psi]; omega
theorem cspec_chargeStore (n : Nat) : CSpec (chargeStore n) 0 := by
  intro c _; simp only [chargeStore, costOut_ret, Le, Psi]; omega
theorem cspec_tagAs (t : String) : CSpec (tagAs t) 0 := by
  intro c _; simp only [tagAs, costOut_ret, Le, Psi]; omega
theorem cspec_emit (o : Out) : CSpec (emit o) (outCost o) := by
  intro c _; simp only [emit, costOut_ret, Le, Psi, sumCost_append]; omega
theorem cspec_throw {α} (e : String) : CSpec (throw e : PM α) 0 := fun c _ => Le.refl c
theorem cspec_failTag {α} (t e : String) : CSpec (failTag t e : PM α) 0 := by
  intro c _; simp only [failTag, costOut_err, Le, Psi]; omega
theorem cspec_failW {α} (r : WRes) : CSpec (failW r : PM α) 0 := by
  cases r <;> exact cspec_throw _
theorem cspec_fault {α} (w : String) : CSpec (fault w : PM α) 0 := fun _ _ => trivial

theorem cspec_writeEvent (e : TEv) : CSpec (writeEvent e) (evCost + torCost e) := by
  intro c _; simp only [writeEvent, bindE, emit, charge, costOut_ret, Le, Psi, sumCost_append, outCost]; omega

theorem cspec_modify_le (f : PeerState → PeerState) (K : Nat) (h : ∀ s, Pot (f s) ≤ Pot s + K) :
    CSpec (modify f) K := by
  intro c _; have := h c.s; simp only [modify, costOut_ret, Le, Psi]; omega

theorem bmRangeAux_lt (b : Bytes) (base : Nat) : ∀ x, x ∈ bmRangeAux b base → x < base + 8 * b.length := by
  induction b generalizing base with
  | nil => intro x hx; simp [bmRangeAux] at hx
  | cons v r ih =>
    intro x hx
    unfold bmRangeAux at hx
    rcases List.mem_append.mp hx with h | h
    · split at h
      · cases h
      · obtain ⟨j, hj, hj2⟩ := List.mem_filterMap.mp h
        have hj8 : j < 8 := by simpa using hj
        split at hj2
        · cases hj2; simp; omega
        · cases hj2
    · have := ih (base + 8) x h
      simp at this ⊢; omega

/-- a bitmap of `n` bytes announces at most `8n` pieces -/
theorem bmLen_le (b : Bytes) : bmLen b ≤ 8 * b.length := by
  unfold bmLen bmRange
  split
  · omega
  · rename_i i hi
    have := bmRangeAux_lt b 0 i (List.mem_of_getLast? hi)
    omega


theorem get_eval (c : Ctx) : get c = .ret c.s c := rfl

theorem cspec_fault_bind {α β} (w : String) (f : α → PM β) (K : Nat) : CSpec ((fault w : PM α) >>= f) K :=
  fun _ _ => trivial
theorem cspecG_fault_bind {α β} {N : Nat} (w : String) (f : α → PM β) (K : Nat) :
    CSpecG N ((fault w : PM α) >>= f) K := fun _ _ _ _ => trivial

theorem cspec_failTag_bind {α β} (t e : String) (f : α → PM β) (K : Nat) :
    CSpec ((failTag t e : PM α) >>= f) K := by
  intro c _; rw [bindE]; simp only [failTag, costOut_err, Le, Psi]; omega
theorem cspec_throw_bind {α β} (e : String) (f : α → PM β) (K : Nat) : CSpec ((throw e : PM α) >>= f) K := by
  intro c _; rw [bindE]; simp only [throw, costOut_err, Le, Psi]; omega
theorem cspec_failW_bind {α β} (r : WRes) (f : α → PM β) (K : Nat) : CSpec ((failW r : PM α) >>= f) K := by
  cases r <;> exact cspec_throw_bind _ _ _

theorem tagAs_eval (t : String) (c : Ctx) :
    tagAs t c = .ret () { c with tag := if c.tag.isEmpty then t else c.tag ++ "+" ++ t } := rfl
theorem modify_eval (f : PeerState → PeerState) (c : Ctx) : modify f c = .ret () { c with s := f c.s } := rfl
theorem charge_eval (n : Nat) (c : Ctx) : charge n c = .ret () { c with alloc := c.alloc + n } := rfl

/-! evaluation of the pure reads -/
theorem fromChunk_eval (ch : Nat) (c : Ctx) (h : CS ≤ c.s.pieceSize) :
    fromChunk ch c = .ret (ch / (c.s.pieceSize / CS), (ch % (c.s.pieceSize / CS)) * CS % U32) c := by
  have h0 : ¬ c.s.pieceSize / CS = 0 := by unfold CS at *; omega
  unfold fromChunk
  simp only [bindE, get]
  rw [if_neg h0]
  rfl

theorem chunkSize_eval (ch : Nat) (c : Ctx) : ∃ v, chunkSize ch c = .ret v c := by
  unfold chunkSize
  simp only [bindE, get]
  split <;> exact ⟨_, rfl⟩

theorem isCongested_eval (c : Ctx) : isCongested c = .ret (decide (c.s.wlen > c.s.wcap / 2)) c := by
  simp [isCongested, bindE, get, pure, PM.pure]

theorem drop_eval (ch : Nat) (c : Ctx) (h : CS ≤ c.s.pieceSize) :
    ∃ e, torCost e = 0 ∧ drop ch c = .ret () { c with outs := c.outs ++ [.ev e], alloc := c.alloc + evCost } := by
  refine ⟨.drop (ch / (c.s.pieceSize / CS)) ((ch % (c.s.pieceSize / CS)) * CS % U32) CS, rfl, ?_⟩
  simp [drop, bindE, fromChunk_eval ch c h, writeEvent, emit, charge]

/-- `write`: never an error; at most one boxed message; nothing else of the state moves -/
theorem write_spec (m : Wire.Msg) (c : Ctx) : ∃ r c', write m c = .ret r c' ∧ Le c c' msgCost ∧
    c'.s.requests = c.s.requests ∧ c'.s.upload = c.s.upload ∧ c'.s.bitmap = c.s.bitmap ∧
    c'.s.info = c.s.info ∧ c'.s.pieceSize = c.s.pieceSize ∧ c'.s.length = c.s.length ∧
    c'.s.reqQ = c.s.reqQ ∧ c'.s.fastRate = c.s.fastRate ∧ c'.s.unchoked = c.s.unchoked ∧ c'.s.fast = c.s.fast := by
  unfold write
  simp only [bindE, get]
  cases hw : c.s.wscript with
  | cons r rest =>
    simp only [modify]
    by_cases hr : (r == WRes.ok) = true
    · simp only [hr, ↓reduceIte, bindE, modify, emit, charge, pure, PM.pure]
      refine ⟨_, _, rfl, ?_, rfl, rfl, rfl, rfl, rfl, rfl, rfl, rfl, rfl, rfl⟩
      simp only [Le, Psi, Pot, sumCost_append, outCost]; omega
    · simp only [hr, ↓reduceIte, pure, PM.pure, Bool.false_eq_true]
      refine ⟨_, _, rfl, ?_, rfl, rfl, rfl, rfl, rfl, rfl, rfl, rfl, rfl, rfl⟩
      simp only [Le, Psi, Pot]; omega
  | nil =>
    by_cases h1 : c.s.wlen < c.s.wcap
    · simp only [h1, ↓reduceIte, bindE, modify, emit, charge, pure, PM.pure]
      refine ⟨_, _, rfl, ?_, rfl, rfl, rfl, rfl, rfl, rfl, rfl, rfl, rfl, rfl⟩
      simp only [Le, Psi, Pot, sumCost_append, outCost]; omega
    · simp only [h1, ↓reduceIte]
      split <;> (refine ⟨_, _, rfl, ?_, rfl, rfl, rfl, rfl, rfl, rfl, rfl, rfl, rfl, rfl⟩; simp only [Le, Psi, Pot]; omega)

/-- the retraction of the remote's bitmap is paid for by the potential it held -/
theorem cspec_retractBitmap (t1 t2 : String) : CSpec (retractBitmap t1 t2) evCost := by
  intro c _
  unfold retractBitmap
  simp only [bindE, get]
  cases hb : c.s.bitmap with
  | none =>
    simp only [tagAs, costOut_ret, Le, Psi, Pot]; omega
  | some old =>
    have hl := bmLen_le old
    simp only [bindE, tagAs, charge, writeEvent, emit, modify, costOut_ret, Le, Psi, Pot, sumCost_append, outCost, torCost,
      hb, Option.getD_some, Option.getD_none, List.length_nil, potD]
    omega


/-! the request structure -/
theorem swapDel_length {α} (l : List α) (i : Nat) : (swapDel l i).length ≤ l.length := by
  unfold swapDel
  split
  · omega
  · simp [List.length_dropLast]

theorem del_len {rs rs' : Requests} {i : Nat} {ro q r : Bool} (h : del rs i ro = some (rs', q, r)) :
    rs'.queue.length ≤ rs.queue.length ∧ rs'.requested.length ≤ rs.requested.length := by
  unfold del at h
  split at h
  · cases h; exact ⟨Nat.le_refl _, Nat.le_refl _⟩
  · split at h
    · cases h; exact ⟨Nat.le_refl _, swapDel_length _ _⟩
    · split at h
      · cases h; exact ⟨Nat.le_refl _, Nat.le_refl _⟩
      · split at h
        · cases h; exact ⟨swapDel_length _ _, Nat.le_refl _⟩
        · cases h

theorem cspec_delReq (ch : Nat) (ro : Bool) : CSpec (delReq ch ro) 0 := by
  intro c _
  unfold delReq
  simp only [bindE, get]
  cases hd : del c.s.requests ch ro with
  | none => trivial
  | some v =>
    obtain ⟨rs, q, r⟩ := v
    obtain ⟨h1, h2⟩ := del_len hd
    simp only [bindE, modify, pure, PM.pure, costOut_ret, Le, Psi, Pot]
    have := Nat.mul_le_mul_left potA h1
    have := Nat.mul_le_mul_left potB h2
    omega

theorem dequeue_facts {rs rs' : Requests} {q : Nat} (h : dequeue rs = some (rs', q)) :
    rs.queue = q :: rs'.queue ∧ rs'.requested = rs.requested ∧ rs'.bits.length = rs.bits.length := by
  unfold dequeue at h
  split at h
  · cases h
  · rename_i a rest hq
    cases h
    exact ⟨hq, rfl, by simp [bReset]⟩

theorem bGet_lt {b : List Bool} {i : Nat} (h : bGet b i = true) : i < b.length := by
  unfold bGet at h
  by_cases hl : i < b.length
  · exact hl
  · simp [List.getD, List.getElem?_eq_none (Nat.le_of_not_lt hl)] at h

theorem enqueueRequest_facts {rs rs2 : Requests} {i a : Nat} (h : enqueueRequest rs i = some (rs2, a)) :
    rs2.queue = rs.queue ∧ rs2.requested.length = rs.requested.length + 1 ∧ a = 80 + bSetAlloc rs.bits i := by
  unfold enqueueRequest at h
  split at h
  · cases h
  · cases h; exact ⟨rfl, by simp, rfl⟩

theorem bSetAlloc_zero {b : List Bool} {i : Nat} (h : i < b.length) : bSetAlloc b i = 0 := by
  unfold bSetAlloc bBytes
  split
  · omega
  · rfl

theorem CostOut.trans {α} {st : Step α} {c c1 : Ctx} {K1 K2 : Nat} (h1 : Le c c1 K1)
    (h2 : CostOut st c1 K2) : CostOut st c (K1 + K2) := by
  cases st <;> simp_all <;> exact Le.trans h1 h2

theorem pot_dequeue (s : PeerState) (rs : Requests) (h1 : s.requests.queue.length = rs.queue.length + 1)
    (h2 : rs.requested = s.requests.requested) : Pot { s with requests := rs } + potA = Pot s := by
  simp only [Pot, h1, h2, Nat.mul_add]; omega

theorem pot_enqueueRequest (s : PeerState) (rs rs2 : Requests) (hs : s.requests = rs) (h1 : rs2.queue = rs.queue)
    (h2 : rs2.requested.length = rs.requested.length + 1) : Pot { s with requests := rs2 } = Pot s + potB := by
  simp only [Pot, hs, h1, h2, Nat.mul_add]; omega

theorem psi_event (c : Ctx) (e : TEv) (n : Nat) :
    Psi { c with outs := c.outs ++ [.ev e], alloc := c.alloc + n } = Psi c + n + torCost e := by
  simp only [Psi, sumCost_append, outCost]; omega

theorem cspecI_loop (fuel : Nat) : ∀ c, Inv c.s → c.s.info = true → CostOut (maybeRequestLoop fuel c) c 0 := by
  induction fuel with
  | zero => intro c _ _; unfold maybeRequestLoop; exact Le.refl c
  | succ n ih =>
    intro c hi hinfo
    have hps := hi.geom hinfo
    unfold maybeRequestLoop
    simp only [bindE, get, isCongested_eval]
    split
    · exact Le.refl c
    split
    · exact Le.refl c
    cases hdq : dequeue c.s.requests with
    | none => trivial
    | some v =>
      obtain ⟨rs, index⟩ := v
      obtain ⟨hc, hbit, _, _, hmem⟩ := dequeue_consistent hi.cons hdq
      obtain ⟨hqe, hre, hbl⟩ := dequeue_facts hdq
      have hset : bGet c.s.requests.bits index = true := (hi.cons.2 index).mpr hmem
      have hlt : index < rs.bits.length := by rw [hbl]; exact bGet_lt hset
      simp only [bindE, modify]
      have hi1 : Inv ({ c.s with requests := rs }) := ⟨hi.geom, hc, fun h => by simp [hinfo] at h⟩
      have hql : c.s.requests.queue.length = rs.queue.length + 1 := by rw [hqe]; simp
      have hpot1 := pot_dequeue c.s rs hql hre
      have hfe := fromChunk_eval index { c with s := { c.s with requests := rs } } hps
      rw [hfe]
      dsimp only
      split
      · obtain ⟨e, he0, hd⟩ := drop_eval index { c with s := { c.s with requests := rs } } hps
        dsimp only at hd
        rw [bindE, hd]
        dsimp only
        have key := ih { c with s := { c.s with requests := rs }, outs := c.outs ++ [.ev e], alloc := c.alloc + evCost } hi1 hinfo
        have hle : Le c { c with s := { c.s with requests := rs }, outs := c.outs ++ [.ev e], alloc := c.alloc + evCost } 0 := by
          have hp := psi_event { c with s := { c.s with requests := rs } } e evCost
          simp only [Le]
          dsimp only at hp ⊢
          rw [hp, he0]
          simp only [Psi] at *
          simp only [potA, evCost] at *
          omega
        exact CostOut.trans hle key
      · obtain ⟨v, hv⟩ := chunkSize_eval index { c with s := { c.s with requests := rs } }
        dsimp only at hv
        rw [bindE, hv]
        dsimp only
        obtain ⟨r, c2, hw, hle, hreq, hup, hbm, hinfo2, hps2, hlen2, _⟩ := write_spec
          (Wire.Msg.request (index / (c.s.pieceSize / CS)) (index % (c.s.pieceSize / CS) * CS % U32) v)
          { c with s := { c.s with requests := rs } }
        dsimp only at hw hle hreq hup hbm hinfo2 hps2 hlen2
        rw [bindE, hw]
        dsimp only
        have hi2 : Inv c2.s := inv_frame hi1 hinfo2 hps2 hreq
        have hinfo2' : c2.s.info = true := by rw [hinfo2]; exact hinfo
        -- Psi c2 + Pot c2 + potA ≤ Psi c + Pot c + msgCost
        have hbase : Psi c2 + Pot c2.s + potA ≤ Psi c + Pot c.s + msgCost := by
          simp only [Le] at hle
          have : Psi { c with s := { c.s with requests := rs } } = Psi c := rfl
          dsimp only at hle this
          omega
        split
        · obtain ⟨e, he0, hd⟩ := drop_eval index c2 (by rw [hps2]; exact hps)
          rw [hd]
          have hp := psi_event c2 e evCost
          simp only [costOut_ret, Le]
          rw [hp, he0]
          simp only [potA, msgCost, evCost] at *
          omega
        · cases he : enqueueRequest rs index with
          | none => trivial
          | some w =>
            obtain ⟨rs2, a⟩ := w
            obtain ⟨hq2, hr2, ha⟩ := enqueueRequest_facts he
            rw [bSetAlloc_zero hlt] at ha
            simp only [bindE, modify, charge]
            obtain ⟨rs', a', he', hc2, _⟩ := enqueueRequest_consistent hc index hbit
            rw [he] at he'; cases he'
            have hpot2 := pot_enqueueRequest c2.s rs rs2 hreq hq2 hr2
            have hi3 : Inv ({ c2.s with requests := rs2 }) := ⟨hi2.geom, hc2, fun h => by simp [hinfo2'] at h⟩
            have key := ih { c2 with s := { c2.s with requests := rs2 }, alloc := c2.alloc + a } hi3 hinfo2'
            have hle3 : Le c { c2 with s := { c2.s with requests := rs2 }, alloc := c2.alloc + a } 0 := by
              simp only [Le]
              have hps3 : Psi { c2 with s := { c2.s with requests := rs2 }, alloc := c2.alloc + a } = Psi c2 + a := by
                simp only [Psi]; omega
              dsimp only at hps3 hpot2 ⊢
              rw [hps3, hpot2, ha]
              simp only [potA, potB, msgCost] at *
              omega
            exact CostOut.trans hle3 key

theorem cspecG_maybeRequest {N : Nat} : CSpecG N maybeRequest 0 := by
  intro c hi hinfo _
  unfold maybeRequest
  simp only [bindE, get]
  split
  · exact Le.refl c
  · exact cspecI_loop _ c hi hinfo

end Storrent.PeerMsg
