import Storrent.Util
/- big-endian helper lemmas shared by the wire and handshake proofs -/
namespace Storrent

theorem be32_length (n : Nat) : (be32 n).length = 4 := rfl
theorem be16_length (n : Nat) : (be16 n).length = 2 := rfl

theorem rdBE_four (a b c d : UInt8) :
    rdBE [a, b, c, d] = ((a.toNat * 256 + b.toNat) * 256 + c.toNat) * 256 + d.toNat := by
  simp [rdBE]

theorem rdBE_two (a b : UInt8) : rdBE [a, b] = a.toNat * 256 + b.toNat := by
  simp [rdBE]

theorem rdBE_be32 (n : Nat) (h : n < 4294967296) : rdBE (be32 n) = n := by
  unfold be32
  rw [rdBE_four]
  simp only [UInt8.toNat_ofNat']
  omega

theorem rdBE_be16 (n : Nat) (h : n < 65536) : rdBE (be16 n) = n := by
  unfold be16
  rw [rdBE_two]
  simp only [UInt8.toNat_ofNat']
  omega

end Storrent
