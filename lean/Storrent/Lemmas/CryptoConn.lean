import Storrent.Model.CryptoConn
import Storrent.Lemmas.Chunked
/- lemmas about crypto.Conn.Write / Read (model: Model/CryptoConn.lean) -/
namespace Storrent.CryptoConn
open Storrent Storrent.Chunked

theorem stage_pos : 0 < stage := by decide

theorem take_length_add {α : Type} (a b : List α) (j : Nat) :
    (a ++ b).take (a.length + j) = a ++ b.take j := by
  induction a with
  | nil => simp
  | cons x xs ih => simp [Nat.succ_add, ih]

/-- the loop invariant of Conn.Write, for ANY behaviour of the underlying connection:
    what reached the wire is the encryption of exactly the `n' - n` bytes reported,
    success means everything was sent, failure is latched. -/
theorem writeLoop_spec (ks : Nat → UInt8) (fuel : Nat) (c : Conn) (rem : Bytes) (n : Nat)
    (env : List WResp) (wire : Bytes) (hf : rem.length < fuel) :
    n ≤ (writeLoop ks fuel c rem n env wire).n ∧
    (writeLoop ks fuel c rem n env wire).n - n ≤ rem.length ∧
    (writeLoop ks fuel c rem n env wire).wire
      = wire ++ (xorAt ks c.encPos rem).take ((writeLoop ks fuel c rem n env wire).n - n) ∧
    c.encPos + ((writeLoop ks fuel c rem n env wire).n - n) ≤ (writeLoop ks fuel c rem n env wire).conn.encPos ∧
    (writeLoop ks fuel c rem n env wire).conn.decPos = c.decPos ∧
    ((writeLoop ks fuel c rem n env wire).err = none →
      (writeLoop ks fuel c rem n env wire).n - n = rem.length ∧
      (writeLoop ks fuel c rem n env wire).conn.err = c.err ∧
      (writeLoop ks fuel c rem n env wire).conn.encPos = c.encPos + rem.length) ∧
    (∀ e, (writeLoop ks fuel c rem n env wire).err = some e →
      (writeLoop ks fuel c rem n env wire).conn.err = some e) := by
  induction fuel generalizing c rem n env wire with
  | zero => omega
  | succ fuel ih =>
    unfold writeLoop
    by_cases hre : rem.isEmpty = true
    · have : rem = [] := by simpa using hre
      subst this
      simp [xorAt]
    · simp only [hre, Bool.false_eq_true, ↓reduceIte]
      have hpos : 0 < rem.length := by
        cases rem with
        | nil => simp at hre
        | cons a b => simp
      have hm0 : 0 < min rem.length stage := by have := stage_pos; omega
      have hmle : min rem.length stage ≤ rem.length := Nat.min_le_left _ _
      generalize min rem.length stage = m at hm0 hmle ⊢
      have hsplit : xorAt ks c.encPos rem
          = xorAt ks c.encPos (rem.take m) ++ xorAt ks (c.encPos + m) (rem.drop m) := by
        conv => lhs; rw [← List.take_append_drop m rem]
        rw [xorAt_append]
        simp [List.length_take, Nat.min_eq_left hmle]
      have hctlen : (xorAt ks c.encPos (rem.take m)).length = m := by
        rw [xorAt_length, List.length_take]; omega
      generalize hct : xorAt ks c.encPos (rem.take m) = ct at hsplit hctlen ⊢
      generalize (env.headD ⟨m, none⟩ : WResp) = r
      have hl : min r.l m ≤ m := Nat.min_le_right _ _
      have hfail : (wire ++ ct.take (min r.l m))
          = wire ++ (xorAt ks c.encPos rem).take (n + min r.l m - n) := by
        rw [Nat.add_sub_cancel_left, hsplit, List.take_append_of_le_length (by rw [hctlen]; exact hl)]
      cases hre2 : r.err with
      | some e =>
        simp only
        refine ⟨by omega, by omega, hfail, by simp only [Nat.add_sub_cancel_left]; omega, by trivial,
          by simp, by simp⟩
      | none =>
        by_cases hlt : min r.l m < m
        · simp only [hlt, if_true]
          refine ⟨by omega, by omega, hfail, by simp only [Nat.add_sub_cancel_left]; omega, by trivial,
            by simp, by simp⟩
        · have hleq : min r.l m = m := by omega
          simp only [hlt, if_false]
          rw [hleq]
          have hdl : (rem.drop m).length < fuel := by
            rw [List.length_drop]; omega
          have := ih { c with encPos := c.encPos + m } (rem.drop m) (n + m) env.tail (wire ++ ct.take m) hdl
          generalize writeLoop ks fuel { c with encPos := c.encPos + m } (rem.drop m) (n + m) env.tail
            (wire ++ ct.take m) = o at this ⊢
          obtain ⟨h1, h2, h3, h4, h5, h6, h7⟩ := this
          rw [List.length_drop] at h2 h6
          simp only at h3 h4 h5 h6 h7
          refine ⟨by omega, by omega, ?_, by omega, h5, ?_, h7⟩
          · rw [h3, hsplit]
            have hk : o.n - n = ct.length + (o.n - (n + m)) := by omega
            rw [hk, take_length_add, List.take_of_length_le (by omega), List.append_assoc]
          · intro he
            obtain ⟨a, b, d⟩ := h6 he
            exact ⟨by omega, b, by omega⟩

/-- one `conn.Read` delivers a prefix of the flat stream -/
theorem read_flat (k : Nat) (src : Src) (got : Bytes) (src' : Src)
    (h : Chunked.read k src = some (got, src')) : got ++ src'.flatten = src.flatten := by
  cases src with
  | nil => simp [Chunked.read] at h
  | cons c cs =>
    simp only [Chunked.read] at h
    split at h
    · simp at h; obtain ⟨rfl, rfl⟩ := h; rfl
    · simp at h; obtain ⟨rfl, rfl⟩ := h
      simp only [List.flatten_cons]
      rw [← List.append_assoc, List.take_append_drop]

/-- any sequence of Conn.Read calls: what was read, followed by what the rest of the wire
    will decrypt to, is the decryption of the whole wire; `dec` has advanced by exactly the
    bytes read. -/
theorem readAll_spec (ks : Nat → UInt8) (c : Conn) (rd : List Nat) (src : Src) :
    let r := readAll ks c rd src
    r.1.flatten ++ xorAt ks r.2.1.decPos r.2.2.flatten = xorAt ks c.decPos src.flatten ∧
    r.2.1.decPos = c.decPos + r.1.flatten.length := by
  induction rd generalizing c src with
  | nil => simp [readAll]
  | cons k rd ih =>
    unfold readAll
    cases hr : read ks c k src with
    | none => simp
    | some v =>
      obtain ⟨got, c', src'⟩ := v
      unfold read at hr
      cases hc : Chunked.read k src with
      | none => simp [hc] at hr
      | some w =>
        obtain ⟨g, s'⟩ := w
        simp only [hc, Option.some.injEq, Prod.mk.injEq] at hr
        obtain ⟨rfl, rfl, rfl⟩ := hr
        have hflat := read_flat k src g s' hc
        have := ih { c with decPos := c.decPos + g.length } s'
        simp only at this ⊢
        obtain ⟨h1, h2⟩ := this
        refine ⟨?_, ?_⟩
        · simp only [List.flatten_cons, List.append_assoc, h1]
          rw [← hflat, xorAt_append]
        · rw [h2]; simp [xorAt_length]; omega

theorem readE_flat (k : Nat) (src : ESrc) (got : Bytes) (e : Option Nat) (src' : ESrc)
    (h : readE k src = some (got, e, src')) : got ++ src'.bytes = src.bytes := by
  cases src with
  | nil => simp [readE] at h
  | cons ce cs =>
    obtain ⟨c, e0⟩ := ce
    simp only [readE] at h
    split at h
    · simp at h; obtain ⟨rfl, rfl, rfl⟩ := h; simp [ESrc.bytes]
    · simp at h; obtain ⟨rfl, rfl, rfl⟩ := h
      simp only [ESrc.bytes, List.map_cons, List.flatten_cons]
      rw [← List.append_assoc, List.take_append_drop]

/-- any sequence of Conn.Read calls on a connection that may deliver bytes together with
    errors: ALL bytes returned (whatever error came with them), followed by what the rest of
    the wire will decrypt to, are the decryption of the whole wire; `dec` has advanced by
    exactly the bytes returned — the keystream stays in sync after every error. -/
theorem readAllErr_spec (ks : Nat → UInt8) (c : Conn) (rd : List Nat) (src : ESrc) :
    ((readAllErr ks c rd src).1.map (·.1)).flatten
        ++ xorAt ks (readAllErr ks c rd src).2.1.decPos (readAllErr ks c rd src).2.2.bytes
      = xorAt ks c.decPos src.bytes ∧
    (readAllErr ks c rd src).2.1.decPos
      = c.decPos + ((readAllErr ks c rd src).1.map (·.1)).flatten.length := by
  induction rd generalizing c src with
  | nil => simp [readAllErr]
  | cons k rd ih =>
    unfold readAllErr
    cases hr : readErr ks c k src with
    | none => simp
    | some v =>
      obtain ⟨got, e, c', src'⟩ := v
      unfold readErr at hr
      cases hc : readE k src with
      | none => simp [hc] at hr
      | some w =>
        obtain ⟨g, e', s'⟩ := w
        simp only [hc, Option.some.injEq, Prod.mk.injEq] at hr
        obtain ⟨rfl, rfl, rfl, rfl⟩ := hr
        have hflat := readE_flat k src g e' s' hc
        obtain ⟨h1, h2⟩ := ih { c with decPos := c.decPos + g.length } s'
        simp only at h1 h2 ⊢
        refine ⟨?_, ?_⟩
        · simp only [List.map_cons, List.flatten_cons, List.append_assoc, h1]
          rw [← hflat, xorAt_append]
        · rw [h2]; simp [xorAt_length]; omega

end Storrent.CryptoConn
