import Storrent.Lemmas.CostChoke
/- every message: `handleWire m` makes `Psi + Pot` grow by at most `msgK m s`, and `msgK` is
   linear in the wire size of the message with explicit constants -/
namespace Storrent.PeerMsg
open Storrent Storrent.RequestsI Storrent.Wire

/-- the amortised cost of one message in state `s` -/
def msgK (m : Msg) (s : PeerState) : Nat :=
  match m with
  | .keepAlive => 0
  | .choke => kChoke s
  | .unchoke => evCost
  | .interested => evCost
  | .notInterested => msgCost + evCost
  | .have _ => kHave (Nof s)
  | .bitfield bs => kBitfield bs
  | .request _ _ _ => kRequest
  | .piece _ _ _ => 2 * evCost + 512
  | .cancel _ _ _ => msgCost
  | .port _ => 0
  | .suggest _ => 0
  | .haveAll => kHaveAll (Nof s)
  | .haveNone => evCost
  | .reject _ _ _ => evCost
  | .allowedFast _ => 4
  | .ext0 e => 5 * evCost + 4 * (512 + e.version.length) + 48 + metaConst
  | .pex _ a _ => (40 + evCost + 512) * a.length
  | .metadata _ _ _ _ _ => 2 * msgCost + evCost + 1025 + metaConst
  | .dontHave _ _ => kDontHave s
  | .uploadOnly _ _ => 0
  | .extUnknown _ => 0
  | .unknown _ => 0

theorem cost_handleWire (m : Msg) (ae : AddEnv) (c : Ctx) (hi : Inv c.s) :
    CostOut (handleWire m ae c) c (msgK m c.s) := by
  cases m with
  | keepAlive => exact c_keepAlive ae c hi
  | choke => exact c_choke ae c hi
  | unchoke => exact c_unchoke ae c hi
  | interested => exact c_interested ae c hi
  | notInterested => exact c_notInterested ae c hi
  | «have» i => exact c_have ae i c hi
  | bitfield bs => exact c_bitfield ae bs c hi
  | request i b l => exact c_request ae i b l c hi
  | piece i b d => exact c_piece ae i b d c hi
  | cancel i b l => exact c_cancel ae i b l c hi
  | port p => exact c_port ae p c hi
  | suggest i => exact c_suggest ae i c hi
  | haveAll => exact c_haveAll ae c hi
  | haveNone => exact c_haveNone ae c hi
  | reject i b l => exact c_reject ae i b l c hi
  | allowedFast i => exact c_allowedFast ae i c hi
  | ext0 e => exact c_ext0 ae e c hi
  | pex s a d => exact c_pex ae s a d c hi
  | metadata s t p tot d => exact c_metadata ae s t p tot d c hi
  | dontHave s i => exact c_dontHave ae s i c hi
  | uploadOnly s v => exact c_uploadOnly ae s v c hi
  | extUnknown s => exact c_extUnknown ae s c hi
  | unknown t => exact c_unknown ae t c hi

/-- a lower bound on the size of the frame that carries `m` (length prefix, id, fixed fields,
    payload; 6 bytes per PEX peer in compact form, the version string of an extension
    handshake) -/
def wireSize : Msg → Nat
  | .bitfield bs => 5 + bs.length
  | .piece _ _ d => 13 + d.length
  | .pex _ a d => 6 + 6 * a.length + 6 * d.length
  | .ext0 e => 6 + e.version.length
  | .metadata _ _ _ _ d => 6 + d.length
  | .keepAlive => 4
  | _ => 5

theorem bmSetMultiple_length (n : Nat) : (bmSetMultiple [] n).length ≤ n / 8 + 1 := by
  unfold bmSetMultiple
  dsimp only
  have h1 : ((bmExtend [] n).mapIdx (fun i v => if i < n / 8 then (255 : UInt8) else v)).length = n / 8 + 1 := by
    simp [bmExtend]
  -- every bit set afterwards lies in the last byte
  have key : ∀ (l : List Nat) (b : Bytes), b.length = n / 8 + 1 → (∀ j, j ∈ l → j < 8) →
      (l.foldl (fun acc j => bmSet acc (n / 8 * 8 + j)) b).length = n / 8 + 1 := by
    intro l
    induction l with
    | nil => intro b hb _; simpa using hb
    | cons j l ih =>
      intro b hb hj
      simp only [List.foldl_cons]
      apply ih
      · have : (n / 8 * 8 + j) / 8 = n / 8 := by have := hj j (by simp); omega
        unfold bmSet bmExtend
        rw [this]
        have : ¬ b.length ≤ n / 8 := by omega
        simp [this, List.length_modify, hb]
      · intro j' hj'; exact hj j' (by simp [hj'])
  have := key (List.range (n % 8)) _ h1 (fun j hj => by simp at hj; omega)
  omega

/-- the index-sized part of the constants: what a message carrying (or implying) a piece
    index may cost in terms of the piece count it is checked against -/
def idxTerm (s : PeerState) : Nat := 23 * Nof s + 512

/-- what the state holds for the remote: released or re-examined by Choke / DontHave -/
def stateTerm (s : PeerState) : Nat := Pot s + bBytes s.requests.bits + 16 * (s.bitmap.getD []).length + 2

def constB : Nat := metaConst + 8192

/-- explicit linear bound: `msgK m s ≤ 192·|m| + constB + idxTerm s + (stateTerm s - Pot s)` -/
theorem msgK_le (m : Msg) (s : PeerState) :
    msgK m s + Pot s ≤ 192 * wireSize m + constB + idxTerm s + stateTerm s := by
  have hall := bmSetMultiple_length (Nof s)
  have hlen := bmLen_le (bmSetMultiple [] (Nof s))
  cases m with
  | bitfield bs =>
    have := bmLen_le bs
    unfold msgK wireSize; dsimp only
    unfold kBitfield stateTerm idxTerm constB evCost msgCost potD; omega
  | haveAll =>
    unfold msgK wireSize; dsimp only
    unfold kHaveAll stateTerm idxTerm constB evCost msgCost potD; omega
  | «have» i =>
    unfold msgK wireSize; dsimp only
    unfold kHave stateTerm idxTerm constB evCost msgCost potD; omega
  | choke =>
    unfold msgK wireSize; dsimp only
    unfold kChoke stateTerm idxTerm constB evCost; omega
  | dontHave sub i =>
    unfold msgK wireSize; dsimp only
    unfold kDontHave stateTerm idxTerm constB evCost; omega
  | request i b l =>
    unfold msgK wireSize; dsimp only
    unfold kRequest stateTerm idxTerm constB msgCost potC; omega
  | _ =>
    unfold msgK wireSize; dsimp only
    unfold stateTerm idxTerm constB
    first | omega | (unfold evCost; first | omega | (unfold msgCost; omega)) | (unfold msgCost; omega)

end Storrent.PeerMsg
