import Storrent.Model.Bitmap
/-
Byte-level facts about `mask`/`getByte`/`popcount8` (Model/Bitmap), closed by kernel
evaluation over all 256 bytes (a finite table, `decide +kernel`).  Split from
Lemmas/Bitmap.lean because these take ~30 s to check.
-/
namespace Storrent.Bitmap

/-! ### one byte -/

theorem byte_cases (P : UInt8 → Prop) (h : ∀ n, n < 256 → P (UInt8.ofNat n)) (x : UInt8) :
    P x := by
  have := h x.toNat x.toNat_lt
  simpa using this

theorem mask_mod (k : Nat) : mask (k % 8) = mask k := by simp [mask]
theorem getByte_mod (x : UInt8) (j : Nat) : getByte x (j % 8) = getByte x j := by
  simp [getByte, mask]

theorem getByte_or_mask (x : UInt8) (k j : Nat) :
    getByte (x ||| mask k) j = (decide (k % 8 = j % 8) || getByte x j) := by
  rw [← mask_mod k, ← getByte_mod _ j, ← getByte_mod x j]
  have key : ∀ n, n < 256 → ∀ k, k < 8 → ∀ j, j < 8 →
      getByte (UInt8.ofNat n ||| mask k) j = (decide (k = j) || getByte (UInt8.ofNat n) j) := by
    decide +kernel
  revert x
  apply byte_cases
  intro n hn
  exact key n hn (k % 8) (Nat.mod_lt _ (by omega)) (j % 8) (Nat.mod_lt _ (by omega))

theorem getByte_and_not_mask (x : UInt8) (k j : Nat) :
    getByte (x &&& ~~~ mask k) j = (!decide (k % 8 = j % 8) && getByte x j) := by
  rw [← mask_mod k, ← getByte_mod _ j, ← getByte_mod x j]
  have key : ∀ n, n < 256 → ∀ k, k < 8 → ∀ j, j < 8 →
      getByte (UInt8.ofNat n &&& ~~~ mask k) j =
        (!decide (k = j) && getByte (UInt8.ofNat n) j) := by
    decide +kernel
  revert x
  apply byte_cases
  intro n hn
  exact key n hn (k % 8) (Nat.mod_lt _ (by omega)) (j % 8) (Nat.mod_lt _ (by omega))

@[simp] theorem getByte_zero (j : Nat) : getByte 0 j = false := by
  rw [← getByte_mod]
  have : ∀ j, j < 8 → getByte 0 j = false := by decide
  exact this _ (Nat.mod_lt _ (by omega))

@[simp] theorem getByte_ff (j : Nat) : getByte 0xFF j = true := by
  rw [← getByte_mod]
  have : ∀ j, j < 8 → getByte 0xFF j = true := by decide
  exact this _ (Nat.mod_lt _ (by omega))

theorem eq_ff_iff (x : UInt8) : x = 0xFF ↔ ∀ j, j < 8 → getByte x j = true := by
  revert x
  apply byte_cases
  have : ∀ n, n < 256 → (UInt8.ofNat n = 0xFF ↔ ∀ j, j < 8 → getByte (UInt8.ofNat n) j = true) := by
    decide +kernel
  exact this

theorem eq_zero_iff (x : UInt8) : x = 0 ↔ ∀ j, j < 8 → getByte x j = false := by
  revert x
  apply byte_cases
  have : ∀ n, n < 256 → (UInt8.ofNat n = 0 ↔ ∀ j, j < 8 → getByte (UInt8.ofNat n) j = false) := by
    decide +kernel
  exact this

/-- the partial byte tested by `All(n)`, `m = n % 8`, `0 < m < 8` -/
theorem eq_partial_iff (x : UInt8) (m : Nat) (h0 : 0 < m) (h8 : m < 8) :
    x = (0xFF : UInt8) <<< UInt8.ofNat (8 - m) ↔ ∀ j, j < 8 → getByte x j = decide (j < m) := by
  revert x
  apply byte_cases
  have : ∀ n, n < 256 → ∀ m, m < 8 → 0 < m →
      (UInt8.ofNat n = (0xFF : UInt8) <<< UInt8.ofNat (8 - m) ↔
        ∀ j, j < 8 → getByte (UInt8.ofNat n) j = decide (j < m)) := by
    decide +kernel
  intro n hn
  exact this n hn m h8 h0

theorem popcount8_or_mask (x : UInt8) (k : Nat) :
    popcount8 (x ||| mask k) = popcount8 x + (if getByte x k then 0 else 1) := by
  rw [← mask_mod k, ← getByte_mod x k]
  have key : ∀ n, n < 256 → ∀ k, k < 8 →
      popcount8 (UInt8.ofNat n ||| mask k) =
        popcount8 (UInt8.ofNat n) + (if getByte (UInt8.ofNat n) k then 0 else 1) := by
    decide +kernel
  revert x
  apply byte_cases
  intro n hn
  exact key n hn (k % 8) (Nat.mod_lt _ (by omega))

theorem popcount8_and_not_mask (x : UInt8) (k : Nat) :
    popcount8 (x &&& ~~~ mask k) + (if getByte x k then 1 else 0) = popcount8 x := by
  rw [← mask_mod k, ← getByte_mod x k]
  have key : ∀ n, n < 256 → ∀ k, k < 8 →
      popcount8 (UInt8.ofNat n &&& ~~~ mask k) + (if getByte (UInt8.ofNat n) k then 1 else 0) =
        popcount8 (UInt8.ofNat n) := by
    decide +kernel
  revert x
  apply byte_cases
  intro n hn
  exact key n hn (k % 8) (Nat.mod_lt _ (by omega))

@[simp] theorem popcount8_zero : popcount8 0 = 0 := by decide
theorem popcount8_le (x : UInt8) : popcount8 x ≤ 8 := by
  unfold popcount8
  exact Nat.le_trans (List.countP_le_length) (by simp)

theorem popcount8_eq_zero (x : UInt8) : popcount8 x = 0 ↔ x = 0 := by
  revert x
  apply byte_cases
  have : ∀ n, n < 256 → (popcount8 (UInt8.ofNat n) = 0 ↔ UInt8.ofNat n = 0) := by decide +kernel
  exact this

theorem popcount8_eq_eight (x : UInt8) : popcount8 x = 8 ↔ x = 0xFF := by
  revert x
  apply byte_cases
  have : ∀ n, n < 256 → (popcount8 (UInt8.ofNat n) = 8 ↔ UInt8.ofNat n = 0xFF) := by
    decide +kernel
  exact this

end Storrent.Bitmap
