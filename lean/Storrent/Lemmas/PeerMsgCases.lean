import Storrent.Lemmas.PeerMsgI
/- `handleWire` case by case: every message type keeps `Inv`, keeps the geometry and never
   faults (`Spec`).  Value-agnostic cases are discharged structurally (`spec_auto2`), the
   cases that divide by the geometry under the metadata guard (`specg_auto`), the cases
   that depend on the request structure (Choke, Piece, Reject) by explicit steps. -/
namespace Storrent.PeerMsg
open Storrent Storrent.RequestsI Storrent.Wire

attribute [local irreducible] get modify emit charge chargeStore tagAs throw fault failTag write
  isCongested writeEvent failW fromChunk toChunk chunkSize numPieces drop dropAll reject docancel
  active startStopUpload rejectAll unchoke maybeInterested maybeRequestLoop maybeRequest pexAdd pexDrop

macro "spec_leaf" : tactic => `(tactic| first
  | exact spec_pure _ | exact spec_writeEvent _ | exact spec_write _ | exact spec_isCongested
  | exact spec_reject _ _ _ | exact spec_chunkSize _ | exact spec_failW _ | exact spec_throw _
  | exact spec_failTag _ _ | exact spec_tagAs _ | exact spec_charge _ | exact spec_chargeStore _
  | exact spec_unchoke _ | exact spec_maybeInterested | exact spec_startStopUpload
  | exact spec_pexAdd _ | exact spec_pexDrop _ | exact spec_active | exact spec_rejectAll _
  | assumption
  | frame_modify)

macro "spec_auto2" : tactic => `(tactic| repeat' (first
  | spec_leaf
  | (exfalso; simp_all [uploadQ]; done)
  | (refine spec_get_bind (fun _ => ?_)) | (refine spec_bind ?_ (fun _ => ?_)) | split | (dsimp only)))

macro "specg_auto" : tactic => `(tactic| repeat' (first
  | exact specG_numPieces | exact specG_toChunk _ _ | exact specG_fromChunk _ | exact specG_drop _
  | exact specG_dropAll _ | exact specG_docancel _ | exact specG_maybeRequest
  | assumption
  | exact specG_of_spec (by spec_leaf)
  | (refine specG_get_bind (fun _ => ?_)) | (refine specG_bind ?_ (fun _ => ?_)) | split | (dsimp only)))

theorem t_keepAlive (ae) : Spec (handleWire .keepAlive ae) := by unfold handleWire; refine spec_get_bind (fun s => ?_); dsimp only; spec_auto2
theorem t_unchoke (ae) : Spec (handleWire .unchoke ae) := by unfold handleWire; refine spec_get_bind (fun s => ?_); dsimp only; spec_auto2
theorem t_interested (ae) : Spec (handleWire .interested ae) := by unfold handleWire; refine spec_get_bind (fun s => ?_); dsimp only; spec_auto2
theorem t_notInterested (ae) : Spec (handleWire .notInterested ae) := by unfold handleWire; refine spec_get_bind (fun s => ?_); dsimp only; spec_auto2
theorem t_cancel (ae i b l) : Spec (handleWire (.cancel i b l) ae) := by unfold handleWire; refine spec_get_bind (fun s => ?_); dsimp only; spec_auto2
theorem t_port (ae p) : Spec (handleWire (.port p) ae) := by unfold handleWire; refine spec_get_bind (fun s => ?_); dsimp only; spec_auto2
theorem t_suggest (ae p) : Spec (handleWire (.suggest p) ae) := by unfold handleWire; refine spec_get_bind (fun s => ?_); dsimp only; spec_auto2
theorem t_haveNone (ae) : Spec (handleWire .haveNone ae) := by unfold handleWire; refine spec_get_bind (fun s => ?_); dsimp only; spec_auto2
theorem t_ext0 (ae e) : Spec (handleWire (.ext0 e) ae) := by unfold handleWire; refine spec_get_bind (fun s => ?_); dsimp only; spec_auto2
theorem t_pex (ae s a d) : Spec (handleWire (.pex s a d) ae) := by unfold handleWire; refine spec_get_bind (fun s => ?_); dsimp only; spec_auto2
theorem t_metadata (ae s t p tot d) : Spec (handleWire (.metadata s t p tot d) ae) := by unfold handleWire; refine spec_get_bind (fun s => ?_); dsimp only; spec_auto2
theorem t_uploadOnly (ae s v) : Spec (handleWire (.uploadOnly s v) ae) := by unfold handleWire; refine spec_get_bind (fun s => ?_); dsimp only; spec_auto2
theorem t_extUnknown (ae s) : Spec (handleWire (.extUnknown s) ae) := by unfold handleWire; refine spec_get_bind (fun s => ?_); dsimp only; spec_auto2
theorem t_unknown (ae s) : Spec (handleWire (.unknown s) ae) := by unfold handleWire; refine spec_get_bind (fun s => ?_); dsimp only; spec_auto2

theorem t_have (ae i) : Spec (handleWire (.have i) ae) := by
  intro c hi
  unfold handleWire
  rw [ok_bind, ok_get]
  dsimp only
  split
  · rename_i hinfo
    refine (?_ : SpecG _) c hi hinfo
    specg_auto
  · refine (?_ : Spec _) c hi
    spec_auto2

theorem t_bitfield (ae bs) : Spec (handleWire (.bitfield bs) ae) := by
  intro c hi
  unfold handleWire
  rw [ok_bind, ok_get]
  dsimp only
  refine ok_step_spec (spec_charge _) hi ?_
  intro _ c1 hg1
  split
  · rename_i hinfo
    refine (?_ : SpecG _) c1 hg1.2 (by rw [hg1.1.1]; exact hinfo)
    specg_auto
  · refine (?_ : Spec _) c1 hg1.2
    spec_auto2

theorem tG_haveAll (ae) : SpecG (handleWire .haveAll ae) := by
  unfold handleWire; refine specG_get_bind (fun s => ?_); dsimp only; specg_auto
theorem tG_dontHave (ae sub i) : SpecG (handleWire (.dontHave sub i) ae) := by
  unfold handleWire; refine specG_get_bind (fun s => ?_); dsimp only; specg_auto

theorem t_haveAll (ae) : Spec (handleWire .haveAll ae) := by
  intro c hi
  by_cases hinfo : c.s.info = true
  · exact tG_haveAll ae c hi hinfo
  · unfold handleWire
    rw [ok_bind, ok_get]
    dsimp only
    simp only [hinfo, Bool.false_eq_true, ↓reduceIte]
    refine (?_ : Spec _) c hi
    spec_auto2

theorem t_dontHave (ae sub i) : Spec (handleWire (.dontHave sub i) ae) := by
  intro c hi
  by_cases hinfo : c.s.info = true
  · exact tG_dontHave ae sub i c hi hinfo
  · unfold handleWire
    rw [ok_bind, ok_get]
    dsimp only
    simp only [hinfo, Bool.false_eq_true, ↓reduceIte]
    refine (?_ : Spec _) c hi
    spec_auto2


theorem tG_request (ae i b l) : SpecG (handleWire (.request i b l) ae) := by
  unfold handleWire; refine specG_get_bind (fun s => ?_); dsimp only
  repeat' (first
    | exact specG_numPieces
    | exact specG_of_spec (by spec_leaf)
    | (exfalso; simp_all [uploadQ]; done)
    | (refine specG_get_bind (fun _ => ?_)) | (refine specG_bind ?_ (fun _ => ?_)) | split | (dsimp only))

theorem t_request (ae i b l) : Spec (handleWire (.request i b l) ae) := by
  intro c hi
  by_cases hinfo : c.s.info = true
  · exact tG_request ae i b l c hi hinfo
  · unfold handleWire
    rw [ok_bind, ok_get]
    dsimp only
    simp only [hinfo, Bool.not_false, Bool.true_or, ↓reduceIte]
    refine (?_ : Spec _) c hi
    spec_auto2

theorem tG_allowedFast (ae i) : SpecG (handleWire (.allowedFast i) ae) := by
  unfold handleWire; refine specG_get_bind (fun s => ?_); dsimp only; specg_auto

theorem t_allowedFast (ae i) : Spec (handleWire (.allowedFast i) ae) := by
  intro c hi
  by_cases hinfo : c.s.info = true
  · exact tG_allowedFast ae i c hi hinfo
  · unfold handleWire
    rw [ok_bind, ok_get]
    dsimp only
    simp only [hinfo, Bool.false_eq_true, ↓reduceIte]
    refine (?_ : Spec _) c hi
    spec_auto2

theorem ok_step_modify {β} {f : PeerState → PeerState} {g : Unit → PM β} {c : Ctx}
    (hgeo : (f c.s).info = c.s.info ∧ (f c.s).pieceSize = c.s.pieceSize ∧ (f c.s).length = c.s.length)
    (hinv : Inv (f c.s))
    (h : Ok (g ()) { c with s := f c.s } (fun _ c'' => Good { c with s := f c.s } c'')) :
    Ok (modify f >>= g) c (fun _ c'' => Good c c'') := by
  rw [ok_bind, ok_modify]
  exact ok_mono h (fun _ _ h' => ⟨Geo.trans (b := { c with s := f c.s }) hgeo h'.1, h'.2⟩)

theorem members_nil_of_noinfo {s : PeerState} (hi : Inv s) (h : s.info = false) : members s.requests = [] := by
  obtain ⟨hq, hr⟩ := hi.noinfo h
  simp [members, hq, hr]

theorem t_choke (ae) : Spec (handleWire .choke ae) := by
  intro c hi
  unfold handleWire
  rw [ok_bind, ok_get]
  dsimp only
  refine ok_step_spec (spec_tagAs _) hi ?_
  intro _ c1 hg1
  refine ok_step_spec (by frame_modify) hg1.2 ?_
  intro _ c2 hg2
  have hg02 : Good c c2 := hg1.trans hg2
  obtain ⟨hcc, hdrop, hmem⟩ := clear_consistent hi.cons (!c.s.canFast)
  generalize clear c.s.requests (!c.s.canFast) = cl at hcc hdrop hmem
  obtain ⟨rs, dropped, a⟩ := cl
  dsimp only at hcc hdrop hmem ⊢
  have hinv3 : Inv { c2.s with requests := rs } := by
    refine ⟨hg2.2.geom, hcc, ?_⟩
    intro h
    have h0 : c.s.info = false := by rw [← hg02.1.1]; exact h
    have hm := members_nil_of_noinfo hi h0
    have : members rs = [] := by
      cases hr : members rs with
      | nil => rfl
      | cons x xs => have := hmem x (by rw [hr]; simp); rw [hm] at this; cases this
    simp [members] at this
    exact this
  refine ok_step_modify ⟨rfl, rfl, rfl⟩ hinv3 ?_
  refine ok_step_spec (spec_charge _) hinv3 ?_
  intro _ c4 hg4
  by_cases hinfo : c.s.info = true
  · have hinfo4 : c4.s.info = true := by rw [hg4.1.1]; show c2.s.info = true; rw [hg02.1.1]; exact hinfo
    refine ok_step_specG (specG_dropAll dropped) hg4.2 hinfo4 ?_
    intro _ c5 hg5 _
    exact spec_writeEvent _ c5 hg5.2
  · have h0 : c.s.info = false := by simpa using hinfo
    have hm := members_nil_of_noinfo hi h0
    have : dropped = [] := by
      cases hd : dropped with
      | nil => rfl
      | cons x xs => have := hdrop x (by rw [hd]; simp); rw [hm] at this; cases this
    subst this
    refine ok_step_spec spec_dropAll_nil hg4.2 ?_
    intro _ c5 hg5
    exact spec_writeEvent _ c5 hg5.2


theorem spec_delReq (ch : Nat) (ro : Bool) : Spec (delReq ch ro) := by
  intro c hi
  unfold delReq
  rw [ok_bind, ok_get]
  obtain ⟨rs', q, r, hd, hc, hmem⟩ := del_consistent hi.cons ch ro
  rw [hd]
  dsimp only
  have hinv2 : Inv { c.s with requests := rs' } := by
    refine ⟨hi.geom, hc, ?_⟩
    intro h
    have hm := members_nil_of_noinfo hi h
    have : members rs' = [] := by
      cases hr : members rs' with
      | nil => rfl
      | cons x xs => have := hmem x (by rw [hr]; simp); rw [hm] at this; cases this
    simp [members] at this
    exact this
  refine ok_step_modify ⟨rfl, rfl, rfl⟩ hinv2 ?_
  exact spec_pure _ _ hinv2

theorem t_reject (ae i b l) : Spec (handleWire (.reject i b l) ae) := by
  intro c hi
  unfold handleWire
  rw [ok_bind, ok_get]
  dsimp only
  split
  · simp only [ok_bind, ok_failTag]; exact hi
  split
  · simp only [ok_bind, ok_failTag]; exact hi
  rename_i _ hinf
  have hinfo : c.s.info = true := by simpa using hinf
  refine ok_step_specG (specG_toChunk i b) hi hinfo ?_
  intro ch c1 hg1 hinfo1
  refine ok_step_spec (spec_delReq ch true) hg1.2 ?_
  intro qr c2 hg2
  have hinfo2 : c2.s.info = true := by rw [hg2.1.1]; exact hinfo1
  refine (?_ : SpecG _) _ hg2.2 hinfo2
  specg_auto

theorem t_piece (ae i b d) : Spec (handleWire (.piece i b d) ae) := by
  intro c hi
  unfold handleWire
  rw [ok_bind, ok_get]
  dsimp only
  split
  · simp only [ok_bind, ok_failTag]; exact hi
  rename_i hinf
  have hinfo : c.s.info = true := by simpa using hinf
  refine ok_step_specG specG_numPieces hi hinfo ?_
  intro n c0 hg0 hinfo0
  split
  · simp only [ok_bind, ok_failTag]; exact hg0.2
  refine ok_step_specG (specG_toChunk i b) hg0.2 hinfo0 ?_
  intro ch c1 hg1 hinfo1
  refine ok_step_spec (spec_delReq ch false) hg1.2 ?_
  intro qr c2 hg2
  have hinfo2 : c2.s.info = true := by rw [hg2.1.1]; exact hinfo1
  refine (?_ : SpecG _) _ hg2.2 hinfo2
  specg_auto

/-- every decoded message: no fault, `Inv` and the geometry are kept (also on `return err`) -/
theorem spec_handleWire (m : Msg) (ae : AddEnv) : Spec (handleWire m ae) := by
  cases m with
  | keepAlive => exact t_keepAlive ae
  | choke => exact t_choke ae
  | unchoke => exact t_unchoke ae
  | interested => exact t_interested ae
  | notInterested => exact t_notInterested ae
  | «have» i => exact t_have ae i
  | bitfield bs => exact t_bitfield ae bs
  | request i b l => exact t_request ae i b l
  | piece i b d => exact t_piece ae i b d
  | cancel i b l => exact t_cancel ae i b l
  | port p => exact t_port ae p
  | suggest i => exact t_suggest ae i
  | haveAll => exact t_haveAll ae
  | haveNone => exact t_haveNone ae
  | reject i b l => exact t_reject ae i b l
  | allowedFast i => exact t_allowedFast ae i
  | ext0 e => exact t_ext0 ae e
  | pex s a d => exact t_pex ae s a d
  | metadata s t p tot d => exact t_metadata ae s t p tot d
  | dontHave s i => exact t_dontHave ae s i
  | uploadOnly s v => exact t_uploadOnly ae s v
  | extUnknown s => exact t_extUnknown ae s
  | unknown t => exact t_unknown ae t

end Storrent.PeerMsg
