import Storrent.Model.RequestsI
/- Lemmas about the model of peer/requests: the membership bitmap and the two lists. -/
namespace Storrent.RequestsI

theorem bGet_extend (b : List Bool) (i j : Nat) : bGet (bExtend b i) j = bGet b j := by
  unfold bGet bExtend
  split
  · by_cases h : j < b.length
    · simp [List.getD, List.getElem?_append_left h]
    · have h' : b.length ≤ j := Nat.le_of_not_lt h
      simp only [List.getD, List.getElem?_append_right h']
      rw [List.getElem?_eq_none (l := b) h']
      cases hh : (List.replicate (i + 1 - b.length) false)[j - b.length]? with
      | none => rfl
      | some v =>
        have := List.mem_of_getElem? hh
        simp [List.mem_replicate] at this
        simp [this]
  · rfl

theorem extend_len (b : List Bool) (i : Nat) : i < (bExtend b i).length := by
  unfold bExtend
  split
  · simp; omega
  · omega

theorem bGet_set (b : List Bool) (i j : Nat) : bGet (bSet b i) j = (decide (j = i) || bGet b j) := by
  unfold bSet
  have hl := extend_len b i
  by_cases h : j = i
  · subst h
    simp [bGet, List.getD, List.getElem?_set_self hl]
  · have h' : i ≠ j := fun e => h e.symm
    have : bGet ((bExtend b i).set i true) j = bGet (bExtend b i) j := by
      simp [bGet, List.getD, List.getElem?_set_ne h']
    rw [this, bGet_extend]; simp [h]

theorem bGet_reset (b : List Bool) (i j : Nat) : bGet (bReset b i) j = (!decide (j = i) && bGet b j) := by
  unfold bReset
  by_cases h : j = i
  · subst h
    simp only [bGet, List.getD, decide_true, Bool.not_true, Bool.false_and]
    by_cases hl : j < b.length
    · simp [List.getElem?_set_self hl]
    · have : b.length ≤ j := Nat.le_of_not_lt hl
      simp [List.getElem?_eq_none, this]
  · have h' : i ≠ j := fun e => h e.symm
    simp [bGet, List.getD, List.getElem?_set_ne h', h]

theorem bGet_nil (i : Nat) : bGet [] i = false := by simp [bGet]

def members (rs : Requests) : List Nat := rs.queue ++ rs.requested.map (·.index)

theorem consistent_empty : Consistent {} := by
  constructor
  · simp
  · intro i; simp [bGet]

theorem dropLast_perm {α} (l : List α) (z : α) (h : l.getLast? = some z) : (z :: l.dropLast).Perm l := by
  obtain ⟨ys, rfl⟩ := List.getLast?_eq_some_iff.mp h
  simp only [List.dropLast_concat]
  exact (List.perm_append_singleton z ys).symm

theorem swapDel_perm {α} (l : List α) (i : Nat) (hi : i < l.length) : (swapDel l i).Perm (l.eraseIdx i) := by
  induction l generalizing i with
  | nil => simp at hi
  | cons a l ih =>
    cases l with
    | nil =>
      have : i = 0 := by simp at hi; omega
      subst this
      simp [swapDel]
    | cons b l' =>
      obtain ⟨z, hz⟩ : ∃ z, (b :: l').getLast? = some z := by
        cases h : (b :: l').getLast? with
        | none => simp at h
        | some z => exact ⟨z, rfl⟩
      have hz' : (a :: b :: l').getLast? = some z := by rw [List.getLast?_cons_cons]; exact hz
      cases i with
      | zero =>
        simp only [swapDel, hz', List.set_cons_zero, List.eraseIdx_cons_zero]
        rw [List.dropLast_cons_of_ne_nil (by simp)]
        exact dropLast_perm _ z hz
      | succ k =>
        have hk : k < (b :: l').length := by simp at hi ⊢; omega
        have := ih k hk
        simp only [swapDel, hz] at this
        simp only [swapDel, hz', List.set_cons_succ, List.eraseIdx_cons_succ]
        rw [List.dropLast_cons_of_ne_nil (by simp)]
        exact List.Perm.cons a this

theorem swapDel_map {α β} (f : α → β) (l : List α) (i : Nat) : (swapDel l i).map f = swapDel (l.map f) i := by
  unfold swapDel
  rw [List.getLast?_map]
  cases l.getLast? with
  | none => simp
  | some z => simp [List.map_set, List.map_dropLast]

theorem nodup_eraseIdx_mem {l : List Nat} (hn : l.Nodup) (k : Nat) (h : k < l.length) (x : Nat) :
    x ∈ l.eraseIdx k ↔ x ≠ l[k] ∧ x ∈ l := by
  rw [List.mem_eraseIdx_iff_getElem]
  constructor
  · rintro ⟨i, hi, hne, rfl⟩
    refine ⟨?_, List.getElem_mem hi⟩
    intro e
    exact hne ((List.getElem_inj hn).mp e)
  · rintro ⟨hne, hm⟩
    obtain ⟨i, hi, rfl⟩ := List.getElem_of_mem hm
    exact ⟨i, hi, fun e => hne (by subst e; rfl), rfl⟩

/-- removing position `k` (value `v`) from a duplicate-free membership list, up to order -/
theorem consistent_remove {M M' : List Nat} {b : List Bool} (hn : M.Nodup)
    (hb : ∀ j, bGet b j = true ↔ j ∈ M) (k : Nat) (hk : k < M.length) (v : Nat) (hv : M[k] = v)
    (hp : M'.Perm (M.eraseIdx k)) :
    M'.Nodup ∧ ∀ j, bGet (bReset b v) j = true ↔ j ∈ M' := by
  constructor
  · exact hp.nodup_iff.mpr (hn.eraseIdx k)
  · intro j
    rw [bGet_reset, hp.mem_iff, nodup_eraseIdx_mem hn k hk, hv]
    simp [hb]

theorem findReq_spec {l : List Req} {i k : Nat} (h : findReq l i = some k) :
    ∃ hk : k < (l.map (·.index)).length, (l.map (·.index))[k] = i := by
  unfold findReq at h
  obtain ⟨hk, hp, _⟩ := List.findIdx?_eq_some_iff_getElem.mp h
  refine ⟨by simpa using hk, ?_⟩
  simpa using hp

theorem findReq_none {l : List Req} {i : Nat} (h : findReq l i = none) : i ∉ l.map (·.index) := by
  unfold findReq at h
  rw [List.findIdx?_eq_none_iff] at h
  intro hm
  obtain ⟨r, hr, rfl⟩ := List.mem_map.mp hm
  simpa using h r hr

theorem findQ_spec {l : List Nat} {i k : Nat} (h : findQ l i = some k) : ∃ hk : k < l.length, l[k] = i := by
  unfold findQ at h
  obtain ⟨hk, hp, _⟩ := List.findIdx?_eq_some_iff_getElem.mp h
  exact ⟨hk, by simpa using hp⟩

theorem findQ_none {l : List Nat} {i : Nat} (h : findQ l i = none) : i ∉ l := by
  unfold findQ at h
  rw [List.findIdx?_eq_none_iff] at h
  intro hm
  simpa using h i hm

/-- `del` never hits "Requests is broken!" on a consistent structure, and keeps it consistent -/
theorem del_consistent {rs : Requests} (hc : Consistent rs) (i : Nat) (ro : Bool) :
    ∃ rs' q r, del rs i ro = some (rs', q, r) ∧ Consistent rs' ∧
      (∀ j, j ∈ members rs' → j ∈ members rs) := by
  obtain ⟨hn, hb⟩ := hc
  unfold del
  by_cases hg : bGet rs.bits i = true
  · simp only [hg, Bool.not_true, Bool.false_eq_true, ↓reduceIte]
    cases hf : findReq rs.requested i with
    | some k =>
      obtain ⟨hk, hv⟩ := findReq_spec hf
      refine ⟨_, _, _, rfl, ?_, ?_⟩
      · have hp : (rs.queue ++ (swapDel rs.requested k).map (·.index)).Perm
            ((rs.queue ++ rs.requested.map (·.index)).eraseIdx (rs.queue.length + k)) := by
          rw [swapDel_map, List.eraseIdx_append_of_length_le (by omega)]
          simp only [Nat.add_sub_cancel_left]
          exact List.Perm.append_left _ (swapDel_perm _ k hk)
        have := consistent_remove hn hb (rs.queue.length + k) (by simp at hk ⊢; omega) i
          (by rw [List.getElem_append_right (by omega)]; simpa using hv) hp
        exact this
      · intro j hj
        simp only [members] at hj ⊢
        rw [swapDel_map] at hj
        rcases List.mem_append.mp hj with h | h
        · exact List.mem_append_left _ h
        · exact List.mem_append_right _ (((swapDel_perm _ k hk).mem_iff.mp h) |> List.mem_of_mem_eraseIdx)
    | none =>
      have hnr := findReq_none hf
      cases ro with
      | true => exact ⟨rs, false, false, rfl, ⟨hn, hb⟩, fun _ h => h⟩
      | false =>
        have hm : i ∈ rs.queue := by
          have := (hb i).mp hg
          rcases List.mem_append.mp this with h | h
          · exact h
          · exact absurd h hnr
        cases hq : findQ rs.queue i with
        | none => exact absurd hm (findQ_none hq)
        | some k =>
          obtain ⟨hk, hv⟩ := findQ_spec hq
          refine ⟨_, _, _, rfl, ?_, ?_⟩
          · have hp : (swapDel rs.queue k ++ rs.requested.map (·.index)).Perm
                ((rs.queue ++ rs.requested.map (·.index)).eraseIdx k) := by
              rw [List.eraseIdx_append_of_lt_length hk]
              exact List.Perm.append_right _ (swapDel_perm _ k hk)
            exact consistent_remove hn hb k (by simp; omega) i
              (by rw [List.getElem_append_left hk]; exact hv) hp
          · intro j hj
            simp only [members] at hj ⊢
            rcases List.mem_append.mp hj with h | h
            · exact List.mem_append_left _ (List.mem_of_mem_eraseIdx ((swapDel_perm _ k hk).mem_iff.mp h))
            · exact List.mem_append_right _ h
  · simp only [hg, Bool.not_false, ↓reduceIte]
    exact ⟨rs, false, false, rfl, ⟨hn, hb⟩, fun _ h => h⟩


theorem enqueue_consistent {rs : Requests} (hc : Consistent rs) (i : Nat) :
    Consistent (enqueue rs i).1 := by
  obtain ⟨hn, hb⟩ := hc
  unfold enqueue
  by_cases hg : bGet rs.bits i = true
  · simp only [hg, ↓reduceIte]; exact ⟨hn, hb⟩
  · simp only [hg, Bool.false_eq_true, ↓reduceIte]
    have hni : i ∉ rs.queue ++ rs.requested.map (·.index) := fun h => hg ((hb i).mpr h)
    have hp : ((rs.queue ++ [i]) ++ rs.requested.map (·.index)).Perm
        (i :: (rs.queue ++ rs.requested.map (·.index))) := by
      rw [List.append_assoc]
      exact (List.perm_middle)
    constructor
    · exact hp.nodup_iff.mpr (List.nodup_cons.mpr ⟨hni, hn⟩)
    · intro j
      rw [bGet_set, hp.mem_iff]
      simp [hb]

theorem dequeue_consistent {rs rs' : Requests} {q : Nat} (hc : Consistent rs)
    (h : dequeue rs = some (rs', q)) :
    Consistent rs' ∧ bGet rs'.bits q = false ∧ rs'.queue.length < rs.queue.length ∧
      (∀ j, j ∈ members rs' → j ∈ members rs) ∧ q ∈ members rs := by
  obtain ⟨hn, hb⟩ := hc
  unfold dequeue at h
  cases hq : rs.queue with
  | nil => simp [hq] at h
  | cons a rest =>
    simp only [hq, Option.some.injEq, Prod.mk.injEq] at h
    obtain ⟨rfl, rfl⟩ := h
    rw [hq] at hn hb
    simp only [List.cons_append, List.nodup_cons] at hn
    refine ⟨⟨hn.2, ?_⟩, ?_, by simp, ?_, ?_⟩
    · intro j
      rw [bGet_reset]
      have := hb j
      simp only [List.cons_append, List.mem_cons] at this
      by_cases e : j = a
      · subst e; simp [hn.1]
      · simp [e, this]
    · rw [bGet_reset]; simp
    · intro j hj; simp only [members, hq] at hj ⊢; exact List.mem_cons_of_mem _ hj
    · simp [members, hq]

theorem dequeue_some {rs : Requests} (h : rs.queue.isEmpty = false) : ∃ r, dequeue rs = some r := by
  unfold dequeue
  cases hq : rs.queue with
  | nil => simp [hq] at h
  | cons a rest => exact ⟨_, rfl⟩

theorem enqueueRequest_consistent {rs : Requests} (hc : Consistent rs) (i : Nat)
    (hg : bGet rs.bits i = false) :
    ∃ rs' a, enqueueRequest rs i = some (rs', a) ∧ Consistent rs' ∧ rs'.queue = rs.queue ∧
      (∀ j, j ∈ members rs' → j = i ∨ j ∈ members rs) := by
  obtain ⟨hn, hb⟩ := hc
  unfold enqueueRequest
  simp only [hg, Bool.false_eq_true, ↓reduceIte]
  refine ⟨_, _, rfl, ?_, rfl, ?_⟩
  · have hni : i ∉ rs.queue ++ rs.requested.map (·.index) := fun h => by
      have := (hb i).mpr h; simp [hg] at this
    have hp : (rs.queue ++ (rs.requested ++ [(⟨i, false⟩ : Req)]).map (fun r => r.index)).Perm
        (i :: (rs.queue ++ rs.requested.map (·.index))) := by
      simp only [List.map_append, List.map_cons, List.map_nil, ← List.append_assoc]
      exact List.perm_append_singleton _ _
    constructor
    · exact hp.nodup_iff.mpr (List.nodup_cons.mpr ⟨hni, hn⟩)
    · intro j
      rw [bGet_set, hp.mem_iff]
      simp [hb]
  · intro j hj
    simp only [members, List.map_append, List.map_cons, List.map_nil, ← List.append_assoc,
      List.mem_append, List.mem_singleton] at hj ⊢
    rcases hj with (h | h) | h
    · exact Or.inr (Or.inl h)
    · exact Or.inr (Or.inr h)
    · exact Or.inl h

theorem foldSet_get (l : List Req) (b : List Bool) (j : Nat) :
    bGet (l.foldl (fun b r => bSet b r.index) b) j = (bGet b j || decide (j ∈ l.map (·.index))) := by
  induction l generalizing b with
  | nil => simp
  | cons r l ih =>
    simp only [List.foldl_cons, ih, bGet_set, List.map_cons, List.mem_cons]
    by_cases e : j = r.index <;> simp [e, Bool.or_comm]

theorem clear_consistent {rs : Requests} (hc : Consistent rs) (both : Bool) :
    Consistent (clear rs both).1 ∧ (∀ j, j ∈ (clear rs both).2.1 → j ∈ members rs) ∧
      (∀ j, j ∈ members (clear rs both).1 → j ∈ members rs) := by
  obtain ⟨hn, hb⟩ := hc
  unfold clear
  cases both with
  | true =>
    simp only [↓reduceIte]
    refine ⟨consistent_empty, ?_, ?_⟩
    · intro j hj; simp only [members]; rcases List.mem_append.mp hj with h | h
      · exact List.mem_append_right _ h
      · exact List.mem_append_left _ h
    · intro j hj; simp [members] at hj
  | false =>
    simp only [Bool.false_eq_true, ↓reduceIte]
    refine ⟨⟨?_, ?_⟩, ?_, ?_⟩
    · simpa using (List.nodup_append.mp hn).2.1
    · intro j; rw [foldSet_get]; simp [bGet_nil]
    · intro j hj; exact List.mem_append_left _ hj
    · intro j hj; simp only [members, List.nil_append] at hj; exact List.mem_append_right _ hj

theorem cancel_consistent {rs : Requests} (hc : Consistent rs) (i : Nat) :
    Consistent (cancel rs i).1 ∧ members (cancel rs i).1 = members rs := by
  unfold cancel
  split
  · exact ⟨hc, rfl⟩
  · split
    · exact ⟨hc, rfl⟩
    · rename_i k hf
      split
      · exact ⟨hc, rfl⟩
      · rename_i r hr
        split
        · exact ⟨hc, rfl⟩
        · have hm : (rs.requested.set k { r with cancelled := true }).map (·.index) = rs.requested.map (·.index) := by
            rw [List.map_set]
            have hk : k < rs.requested.length := (List.getElem?_eq_some_iff.mp hr).1
            have : (rs.requested.map (·.index))[k]'(by simpa using hk) = r.index := by
              simp [(List.getElem?_eq_some_iff.mp hr).2]
            rw [← this]; exact List.set_getElem_self _
          refine ⟨?_, by simp [members, hm]⟩
          obtain ⟨hn, hb⟩ := hc
          exact ⟨by simpa [hm] using hn, by simpa [hm] using hb⟩

end Storrent.RequestsI


