import Storrent.Model.Sched
import Storrent.Lemmas.Sched
import Storrent.Lemmas.SchedSat
import Storrent.Lemmas.SchedMeta
/-
Lifting `C09_every_command_answered` from handlers to histories: per peer and block,
#blocks of accepted PeerRequests = #TorData/TorDrop answers emitted + #released by delPeer's
drain + #still pending.
-/
namespace Storrent.Sched

theorem pendL_setN_other (k b : Nat) (l : List Peer) (i : Nat) (x : Peer) (h : i ≠ k) :
    pendL k b (setN l i x) = pendL k b l := by
  unfold pendL
  rw [getElem?_setN, if_neg (fun hc => h hc.1)]

theorem pendL_setN_self (k b : Nat) (l : List Peer) (x p : Peer) (h : l[k]? = some p) :
    pendL k b (setN l k x) = reqOwed b x.evq + x.outstanding b := by
  unfold pendL
  rw [getElem?_setN, if_pos ⟨rfl, lt_of_get _ _ _ h⟩]

theorem pendL_of_get (k b : Nat) (l : List Peer) (p : Peer) (h : l[k]? = some p) :
    pendL k b l = reqOwed b p.evq + p.outstanding b := by
  unfold pendL; rw [h]

theorem pendL_setN_same (k b : Nat) (l : List Peer) (i : Nat) (x p : Peer) (h : l[i]? = some p)
    (hx : reqOwed b x.evq + x.outstanding b = reqOwed b p.evq + p.outstanding b) :
    pendL k b (setN l i x) = pendL k b l := by
  by_cases hik : i = k
  · subst hik
    rw [pendL_setN_self i b l x p h, pendL_of_get i b l p h, hx]
  · exact pendL_setN_other k b l i x hik

theorem pendL_append_fresh (k b : Nat) (l : List Peer) (x : Peer) (hx : reqOwed b x.evq + x.outstanding b = 0) :
    pendL k b (l ++ [x]) = pendL k b l := by
  unfold pendL
  rcases Nat.lt_or_ge k l.length with h | h
  · rw [List.getElem?_append_left h]
  · rw [List.getElem?_append_right h, List.getElem?_eq_none h]
    rcases Nat.eq_zero_or_pos (k - l.length) with h0 | h0
    · rw [h0]; simp [hx]
    · rw [List.getElem?_eq_none (by simp; omega)]

theorem pendL_castCancel (ex : Option Nat) (c b : Nat) : ∀ (l : List Peer) (i0 k : Nat),
    pendL k b (castCancel ex c i0 l) = pendL k b l := by
  intro l
  induction l with
  | nil => intro _ _; rfl
  | cons p ps ih =>
    intro i0 k
    cases k with
    | zero =>
      simp only [castCancel, pendL, List.getElem?_cons_zero]
      split
      · simp [reqChunks, outstanding_def]
      · rfl
    | succ k =>
      have := ih (i0+1) k
      simp only [castCancel, pendL, List.getElem?_cons_succ] at this ⊢
      exact this

theorem dataLoop_pend (ex : Option Nat) (k b : Nat) : ∀ (cs : List Nat) (s : State),
    pendL k b (dataLoop ex cs s).peers = pendL k b s.peers := by
  intro cs
  induction cs with
  | nil => intro s; rfl
  | cons c cs ih =>
    intro s
    obtain ⟨_, _, a3, _⟩ := decr_le s c
    simp only [dataLoop]
    split
    · rw [ih]
      show pendL k b (castCancel ex c 0 (decr s c).peers) = _
      rw [pendL_castCancel, a3]
    · rw [ih, a3]

theorem handleTorEv_blocked_goaway (s : State) (p : Nat) : (handleTorEv s (.goaway p)).blocked = s.blocked := by
  simp only [handleTorEv]
  split
  · rfl
  · split
    · rfl
    · rename_i pr _ _
      obtain ⟨_, _, _, e, _, _⟩ := decrAll_spec (pr.evq.flatMap reqChunks)
        { s with peers := setN s.peers p { pr with present := false, evq := [] } }
      rw [e]

end Storrent.Sched

namespace Storrent.Sched

def Op.plainT : Op → Bool
  | .request _ _ _ => false
  | .peerEvent _ _ => false
  | .peerMsg _ _ _ => false
  | .tick _ _ _ => false
  | .exit _ => false
  | .torEvent => false
  | _ => true

theorem traces_plain (s : State) (op : Op) (k : Nat) (h : op.plainT = true) :
    stepEmitted s op k = [] ∧ stepDrained s op k = [] ∧ stepAccepted s op k = [] := by
  cases op <;> simp [Op.plainT] at h <;>
    exact ⟨by unfold stepEmitted; split <;> rfl, by unfold stepDrained; split <;> rfl, rfl⟩

theorem step_pend_plain (s : State) (op : Op) (k b : Nat) (h : op.plainT = true) (hp : ¬ s.panicked = true) :
    pend k b (step s op).1 = pend k b s := by
  unfold pend step
  rw [if_neg hp]
  cases op with
  | connect fast evcap wcap =>
    exact pendL_append_fresh k b s.peers _ (by simp [outstanding_def])
  | push i e =>
    simp only []
    split
    · rfl
    · rename_i p hpp
      split
      · rfl
      · split
        · rfl
        · cases e with
          | request cs => rfl
          | cancel c => exact pendL_setN_same k b s.peers i _ p hpp (by simp [reqChunks, outstanding_def])
          | cancelPiece c => exact pendL_setN_same k b s.peers i _ p hpp (by simp [reqChunks, outstanding_def])
          | done => exact pendL_setN_same k b s.peers i _ p hpp (by simp [reqChunks, outstanding_def])
          | metadata => exact pendL_setN_same k b s.peers i _ p hpp (by simp [reqChunks, outstanding_def])
  | age i d =>
    simp only []
    split
    · rfl
    · rename_i p hpp
      refine pendL_setN_same k b s.peers i _ p hpp ?_
      have hm : cntR b (p.requested.map (fun (r : Req) =>
          { r with rage := r.rage + d, cage := if r.canc then r.cage + d else r.cage })) = cntR b p.requested :=
        cntR_map_chunk b _ _ (fun _ => rfl)
      simp only [outstanding_def]
      rw [hm]
  | flush i =>
    simp only []
    split
    · rfl
    · rename_i p hpp
      exact pendL_setN_same k b s.peers i _ p hpp rfl
  | wdrain i =>
    simp only []
    split
    · rfl
    · rename_i p hpp
      exact pendL_setN_same k b s.peers i _ p hpp rfl
  | wfill i n =>
    simp only []
    split
    · rfl
    · rename_i p hpp
      split
      · rfl
      · exact pendL_setN_same k b s.peers i _ p hpp rfl
  | wsReserve idx =>
    simp only []
    split
    · rfl
    · split
      · rfl
      · rename_i o l0 _
        generalize (if l0 > 1048576 then 1048576 else l0) = l
        split
        · rfl
        · obtain ⟨_, f2, _, _, _, _⟩ := incrAll_frame s (wsChunks s.g idx o l)
          show pendL k b (incrAll s (wsChunks s.g idx o l)).peers = _
          rw [f2]
  | wWrite w n =>
    simp only []
    split
    · rfl
    · split
      · rfl
      · split
        · rfl
        · split
          · rfl
          · split
            · split <;> rfl
            · rfl
  | wClose w =>
    simp only []
    split
    · rfl
    · split
      · rfl
      · split
        · split <;> rfl
        · rfl
  | finalise idx =>
    simp only []
    split
    · rfl
    · split <;> rfl
  | metaComplete =>
    simp only []
    split
    · rfl
    · split
      · rfl
      · show pendL k b (castMeta s.peers) = pendL k b s.peers
        unfold pendL castMeta
        rw [List.getElem?_map]
        cases s.peers[k]? with
        | none => rfl
        | some p =>
          simp only [Option.map_some]
          split <;> simp [reqChunks, outstanding_def]
  | request i cs ad => cases h
  | peerEvent i slow => cases h
  | peerMsg i m slow => cases h
  | tick i rto slow => cases h
  | exit i => cases h
  | torEvent => cases h

end Storrent.Sched

namespace Storrent.Sched

theorem request_shape (s : State) (i : Nat) (cs : List Nat) (ad : Bool) (hp : ¬ s.panicked = true) :
    ((step s (.request i cs ad)).1 = s ∧ (step s (.request i cs ad)).2.isOk = false) ∨
    (∃ p, s.peers[i]? = some p ∧ (step s (.request i cs ad)).2.isOk = true ∧
      (step s (.request i cs ad)).1 =
        incrAll { s with peers := setN s.peers i { p with evq := p.evq ++ [.request cs] } } cs) := by
  unfold step
  rw [if_neg hp]
  simp only []
  split
  · exact Or.inl ⟨rfl, rfl⟩
  · rename_i p hpp
    split
    · exact Or.inl ⟨rfl, rfl⟩
    · split
      · exact Or.inl ⟨rfl, rfl⟩
      · split
        · exact Or.inl ⟨rfl, rfl⟩
        · split
          · exact Or.inl ⟨rfl, rfl⟩
          · exact Or.inr ⟨p, hpp, rfl, rfl⟩

theorem peerEvent_shape (s : State) (i : Nat) (slow : Bool) (hp : ¬ s.panicked = true) :
    ((step s (.peerEvent i slow)).1 = s ∧ ∀ k, stepEmitted s (.peerEvent i slow) k = []) ∨
    (∃ p e rest, s.peers[i]? = some p ∧ p.alive = true ∧ p.evq = e :: rest ∧
      (step s (.peerEvent i slow)).1 = commitPeer s i p.overflow rest true
        (handlePeerEv s.g i { p with evq := rest } e slow).1 (handlePeerEv s.g i { p with evq := rest } e slow).2.1 ∧
      stepEmitted s (.peerEvent i slow) i = (handlePeerEv s.g i { p with evq := rest } e slow).2.1 ∧
      ∀ k, i ≠ k → stepEmitted s (.peerEvent i slow) k = []) := by
  unfold step
  rw [if_neg hp]
  simp only []
  split
  · rename_i hpp
    exact Or.inl ⟨rfl, fun k => by unfold stepEmitted; simp [hp, hpp]⟩
  · rename_i p hpp
    split
    · rename_i ha
      exact Or.inl ⟨rfl, fun k => by unfold stepEmitted; simp [hp, hpp, ha]⟩
    · rename_i ha
      split
      · rename_i he
        exact Or.inl ⟨rfl, fun k => by unfold stepEmitted; simp [hp, hpp, ha, he]⟩
      · rename_i e rest he
        exact Or.inr ⟨p, e, rest, hpp, by simpa using ha, he, rfl, by unfold stepEmitted; simp [hp, hpp, ha, he],
          fun k hk => by unfold stepEmitted; simp [hp, hk]⟩

theorem peerMsg_shape (s : State) (i : Nat) (m : Msg) (slow : Bool) (hp : ¬ s.panicked = true) :
    ((step s (.peerMsg i m slow)).1 = s ∧ ∀ k, stepEmitted s (.peerMsg i m slow) k = []) ∨
    (∃ p, s.peers[i]? = some p ∧
      (step s (.peerMsg i m slow)).1 = commitPeer { s with pieces := (handleMsg s.g s.pieces i p m slow).2.2.2.1 } i
        p.overflow p.evq true (handleMsg s.g s.pieces i p m slow).1 (handleMsg s.g s.pieces i p m slow).2.1 ∧
      stepEmitted s (.peerMsg i m slow) i = (handleMsg s.g s.pieces i p m slow).2.1 ∧
      ∀ k, i ≠ k → stepEmitted s (.peerMsg i m slow) k = []) := by
  unfold step
  rw [if_neg hp]
  simp only []
  split
  · rename_i hpp
    exact Or.inl ⟨rfl, fun k => by unfold stepEmitted; simp [hp, hpp]⟩
  · rename_i p hpp
    split
    · rename_i ha
      exact Or.inl ⟨rfl, fun k => by unfold stepEmitted; simp [hp, hpp, ha]⟩
    · rename_i ha
      exact Or.inr ⟨p, hpp, rfl, by unfold stepEmitted; simp [hp, hpp, ha],
        fun k hk => by unfold stepEmitted; simp [hp, hk]⟩

theorem exit_shape (s : State) (i : Nat) (hp : ¬ s.panicked = true) :
    ((step s (.exit i)).1 = s ∧ ∀ k, stepEmitted s (.exit i) k = []) ∨
    (∃ p, s.peers[i]? = some p ∧
      (step s (.exit i)).1 = commitPeer s i p.overflow p.evq false
        { p with alive := false, queue := [], requested := [],
                 bits := List.replicate s.g.npieces false, bmNil := true } (exitEvents s.g i p) ∧
      stepEmitted s (.exit i) i = exitEvents s.g i p ∧
      ∀ k, i ≠ k → stepEmitted s (.exit i) k = []) := by
  unfold step
  rw [if_neg hp]
  simp only []
  split
  · rename_i hpp
    exact Or.inl ⟨rfl, fun k => by unfold stepEmitted; simp [hp, hpp]⟩
  · rename_i p hpp
    split
    · rename_i ha
      exact Or.inl ⟨rfl, fun k => by unfold stepEmitted; simp [hp, hpp, ha]⟩
    · rename_i ha
      exact Or.inr ⟨p, hpp, rfl, by unfold stepEmitted; simp [hp, hpp, ha],
        fun k hk => by unfold stepEmitted; simp [hp, hk]⟩

/-- what the timer step emits -/
def tickOut (g : Geom) (p : Peer) (rto : Nat) (slow : Bool) : Peer × List TorEv :=
  let to := min rto 5000 + (if p.canFast then 2000 else 0)
  let r := expireLoop g to (p.requested.length + 1) 0 p [] false
  if r.2.2 then maybeRequest g slow r.1 r.2.1 else (r.1, r.2.1)

theorem tick_shape (s : State) (i rto : Nat) (slow : Bool) (hp : ¬ s.panicked = true) :
    ((step s (.tick i rto slow)).1 = s ∧ ∀ k, stepEmitted s (.tick i rto slow) k = []) ∨
    (∃ p, s.peers[i]? = some p ∧
      (step s (.tick i rto slow)).1 = commitPeer s i p.overflow p.evq true
        (tickOut s.g p rto slow).1 (tickOut s.g p rto slow).2 ∧
      stepEmitted s (.tick i rto slow) i = (tickOut s.g p rto slow).2 ∧
      ∀ k, i ≠ k → stepEmitted s (.tick i rto slow) k = []) := by
  unfold step
  rw [if_neg hp]
  simp only []
  split
  · rename_i hpp
    exact Or.inl ⟨rfl, fun k => by unfold stepEmitted; simp [hp, hpp]⟩
  · rename_i p hpp
    split
    · rename_i ha
      exact Or.inl ⟨rfl, fun k => by unfold stepEmitted; simp [hp, hpp, ha]⟩
    · rename_i ha
      split
      · rename_i he
        exact Or.inl ⟨rfl, fun k => by unfold stepEmitted; simp [hp, hpp, ha, he]⟩
      · rename_i he
        refine Or.inr ⟨p, hpp, rfl, ?_, fun k hk => by unfold stepEmitted; simp [hp, hk]⟩
        unfold stepEmitted tickOut
        simp only [hp, hpp, ha, he, if_false, ne_eq, not_true_eq_false, Bool.false_eq_true]
        rw [apply_ite Prod.snd]

end Storrent.Sched

namespace Storrent.Sched

theorem pend_commit (s : State) (i k b : Nat) (ov : List TorEv) (evq : List PeerEv) (al : Bool) (p' : Peer)
    (evs : List TorEv) (p : Peer) (h : s.peers[i]? = some p) :
    pend k b (commitPeer s i ov evq al p' evs) =
      if i = k then reqOwed b evq + p'.outstanding b else pend k b s := by
  unfold pend commitPeer
  simp only []
  split
  · rename_i hik; subst hik
    rw [pendL_setN_self i b s.peers _ p h]; rfl
  · rename_i hik
    exact pendL_setN_other k b s.peers i _ hik

theorem torEvent_pend (s : State) (k b : Nat) (hp : ¬ s.panicked = true) :
    pend k b (step s .torEvent).1 + cnt b (stepDrained s .torEvent k) = pend k b s := by
  unfold step stepDrained
  rw [if_neg hp]
  simp only []
  cases hte : s.tEvent with
  | nil => simp
  | cons e rest =>
    simp only []
    by_cases hb : (handleTorEv { s with tEvent := rest } e).blocked = true
    · rw [if_pos hb]
      -- nothing is processed; if `e` is a goaway then `s.blocked` was already set
      cases e with
      | goaway p =>
        have hbl : s.blocked = true := by
          have h0 := handleTorEv_blocked_goaway { s with tEvent := rest } p
          rw [h0] at hb; exact hb
        simp [hbl, pend]
      | data a1 a2 a3 a4 a5 => simp [pend]
      | drop a1 a2 a3 => simp [pend]
      | bitmap a1 a2 a3 => simp [pend]
      | phave a1 a2 a3 => simp [pend]
      | unchoke a1 a2 => simp [pend]
    · rw [if_neg hb]
      cases e with
      | data src idx begin len c =>
        have hd : (if (s.panicked || s.blocked) = true then [] else ([] : List Nat)) = [] := by split <;> rfl
        simp only [hd, cnt_nil, Nat.add_zero]
        unfold pend
        simp only [handleTorEv]
        split
        · rfl
        · exact dataLoop_pend src k b _ _
      | drop idx begin len =>
        have hd : (if (s.panicked || s.blocked) = true then [] else ([] : List Nat)) = [] := by split <;> rfl
        simp only [hd, cnt_nil, Nat.add_zero]
        unfold pend
        simp only [handleTorEv]
        obtain ⟨_, _, a3, _⟩ := decrAll_le (covRange s.g idx begin len) { s with tEvent := rest }
        rw [a3]
      | bitmap p bits hv =>
        have hd : (if (s.panicked || s.blocked) = true then [] else ([] : List Nat)) = [] := by split <;> rfl
        simp only [hd, cnt_nil, Nat.add_zero]
        unfold pend
        simp only [handleTorEv]
        obtain ⟨_, _, _, e1, _⟩ := noteAvailAll_spec hv bits { s with tEvent := rest }
        rw [e1]
      | phave p idx hv =>
        have hd : (if (s.panicked || s.blocked) = true then [] else ([] : List Nat)) = [] := by split <;> rfl
        simp only [hd, cnt_nil, Nat.add_zero]
        unfold pend
        simp only [handleTorEv]
        obtain ⟨_, _, _, e1, _⟩ := noteAvail_spec { s with tEvent := rest } idx hv
        rw [e1]
      | unchoke p u =>
        have hd : (if (s.panicked || s.blocked) = true then [] else ([] : List Nat)) = [] := by split <;> rfl
        simp only [hd, cnt_nil, Nat.add_zero]
        rfl
      | goaway p =>
        have hbl : s.blocked = false := by
          have := handleTorEv_blocked_goaway { s with tEvent := rest } p
          rw [this] at hb
          simpa using hb
        have hpf : s.panicked = false := by simpa using hp
        rw [if_neg (by simp [hpf, hbl])]
        unfold pend
        simp only [handleTorEv]
        cases hpe : s.peers[p]? with
        | none =>
          simp only []
          split <;> simp
        | some pr =>
          simp only []
          by_cases hpres : pr.present = true
          · have hn : ¬ (!pr.present) = true := by simp [hpres]
            rw [if_neg hn]
            obtain ⟨_, _, a3, _⟩ := decrAll_le (pr.evq.flatMap reqChunks)
              { s with tEvent := rest, peers := setN s.peers p { pr with present := false, evq := [] } }
            rw [a3]
            by_cases hpk : p = k
            · subst hpk
              rw [pendL_setN_self p b s.peers _ pr hpe, pendL_of_get p b s.peers pr hpe]
              simp [hpres, reqOwed_flatMap, outstanding_def]
              omega
            · rw [pendL_setN_other k b s.peers p _ hpk]
              simp [hpk]
          · have hn : (!pr.present) = true := by simp at hpres; simp [hpres]
            rw [if_pos hn]
            split
            · simp
            · simp [hpres]

theorem step_pend (s : State) (op : Op) (k b : Nat) (hI : Inv s) (hM : MInv s) :
    pend k b (step s op).1 + covL s.g b (stepEmitted s op k) + cnt b (stepDrained s op k)
      = pend k b s + cnt b (stepAccepted s op k) := by
  have hg := hI.1.valid
  by_cases hp : s.panicked = true
  · have h1 : (step s op) = (s, .panic) := by unfold step; rw [if_pos hp]
    have h2 : stepEmitted s op k = [] := by unfold stepEmitted; rw [if_pos hp]
    have h3 : stepDrained s op k = [] := by unfold stepDrained; rw [if_pos (by simp [hp])]
    have h4 : stepAccepted s op k = [] := by
      cases op <;> try rfl
      unfold stepAccepted; simp [h1, Res.isOk]
    rw [h1, h2, h3, h4]; simp
  · by_cases hpl : op.plainT = true
    · obtain ⟨h2, h3, h4⟩ := traces_plain s op k hpl
      rw [h2, h3, h4, step_pend_plain s op k b hpl hp]; simp
    · cases op with
      | request i cs ad =>
        have h2 : stepEmitted s (.request i cs ad) k = [] := by unfold stepEmitted; split <;> rfl
        have h3 : stepDrained s (.request i cs ad) k = [] := by unfold stepDrained; split <;> rfl
        rw [h2, h3]
        simp only [covL_nil, cnt_nil, Nat.add_zero]
        rcases request_shape s i cs ad hp with ⟨a1, a2⟩ | ⟨p, hpp, a2, a1⟩
        · have : stepAccepted s (.request i cs ad) k = [] := by unfold stepAccepted; simp [a2]
          rw [a1, this]; simp
        · have hacc : stepAccepted s (.request i cs ad) k = if i = k then cs else [] := by
            unfold stepAccepted; simp [a2]
          rw [a1, hacc]
          obtain ⟨_, f2, _, _, _, _⟩ := incrAll_frame
            { s with peers := setN s.peers i { p with evq := p.evq ++ [.request cs] } } cs
          unfold pend
          rw [f2]
          by_cases hik : i = k
          · subst hik
            rw [pendL_setN_self i b s.peers _ p hpp, pendL_of_get i b s.peers p hpp]
            simp [reqChunks, outstanding_def]; omega
          · rw [pendL_setN_other k b s.peers i _ hik]; simp [hik]
      | peerEvent i slow =>
        have h3 : stepDrained s (.peerEvent i slow) k = [] := by unfold stepDrained; split <;> rfl
        have h4 : stepAccepted s (.peerEvent i slow) k = [] := rfl
        rw [h3, h4]
        simp only [cnt_nil, Nat.add_zero]
        rcases peerEvent_shape s i slow hp with ⟨a1, a2⟩ | ⟨p, e, rest, hpp, hal, he, a1, a2, a3⟩
        · rw [a1, a2 k]; simp
        · rw [a1, pend_commit s i k b _ _ _ _ _ p hpp]
          by_cases hik : i = k
          · subst hik
            rw [if_pos rfl, a2]
            have hreq : ∀ cs, e = .request cs → ({ p with evq := rest } : Peer).hasInfo = true := by
              intro cs hcs
              have := hM.safe p (mem_of_get _ _ _ hpp) hal
              rw [he, hcs] at this
              exact safeQ_request _ cs rest this
            have := handlePeerEv_loc hg b i { p with evq := rest } e slow hreq
            have h5 : ({ p with evq := rest } : Peer).outstanding b = p.outstanding b := rfl
            rw [h5] at this
            unfold pend
            rw [pendL_of_get i b s.peers p hpp, he]
            simp only [reqOwed_cons]; omega
          · rw [if_neg hik, a3 k hik]; simp
      | peerMsg i m slow =>
        have h3 : stepDrained s (.peerMsg i m slow) k = [] := by unfold stepDrained; split <;> rfl
        have h4 : stepAccepted s (.peerMsg i m slow) k = [] := rfl
        rw [h3, h4]
        simp only [cnt_nil, Nat.add_zero]
        rcases peerMsg_shape s i m slow hp with ⟨a1, a2⟩ | ⟨p, hpp, a1, a2, a3⟩
        · rw [a1, a2 k]; simp
        · rw [a1, pend_commit { s with pieces := (handleMsg s.g s.pieces i p m slow).2.2.2.1 } i k b _ _ _ _ _ p hpp]
          by_cases hik : i = k
          · subst hik
            rw [if_pos rfl, a2]
            have hOK : ∀ c, s.g.nchunks ≤ c → p.outstanding c = 0 := by
              intro c hc
              have := hI.1.chunksOK p (mem_of_get _ _ _ hpp) c hc
              omega
            have := handleMsg_loc hg b s.pieces i p m slow hOK
            unfold pend
            rw [pendL_of_get i b s.peers p hpp]
            omega
          · rw [if_neg hik, a3 k hik]
            show pend k b s + covL s.g b [] = _
            simp
      | tick i rto slow =>
        have h3 : stepDrained s (.tick i rto slow) k = [] := by unfold stepDrained; split <;> rfl
        have h4 : stepAccepted s (.tick i rto slow) k = [] := rfl
        rw [h3, h4]
        simp only [cnt_nil, Nat.add_zero]
        rcases tick_shape s i rto slow hp with ⟨a1, a2⟩ | ⟨p, hpp, a1, a2, a3⟩
        · rw [a1, a2 k]; simp
        · rw [a1, pend_commit s i k b _ _ _ _ _ p hpp]
          by_cases hik : i = k
          · subst hik
            rw [if_pos rfl, a2]
            have hloc : (tickOut s.g p rto slow).1.outstanding b + covL s.g b (tickOut s.g p rto slow).2
                = p.outstanding b := by
              unfold tickOut
              simp only []
              generalize (min rto 5000 + (if p.canFast then 2000 else 0)) = to
              have h1 := expireLoop_loc hg b to (p.requested.length + 1) 0 p [] false
              simp only [covL_nil] at h1
              split
              · rw [maybeRequest_loc hg]; omega
              · exact h1
            unfold pend
            rw [pendL_of_get i b s.peers p hpp]
            omega
          · rw [if_neg hik, a3 k hik]; simp
      | exit i =>
        have h3 : stepDrained s (.exit i) k = [] := by unfold stepDrained; split <;> rfl
        have h4 : stepAccepted s (.exit i) k = [] := rfl
        rw [h3, h4]
        simp only [cnt_nil, Nat.add_zero]
        rcases exit_shape s i hp with ⟨a1, a2⟩ | ⟨p, hpp, a1, a2, a3⟩
        · rw [a1, a2 k]; simp
        · rw [a1, pend_commit s i k b _ _ _ _ _ p hpp]
          by_cases hik : i = k
          · subst hik
            rw [if_pos rfl, a2, exitEvents_cov hg]
            unfold pend
            rw [pendL_of_get i b s.peers p hpp]
            simp [outstanding_def]
          · rw [if_neg hik, a3 k hik]; simp
      | torEvent =>
        have h2 : stepEmitted s .torEvent k = [] := by unfold stepEmitted; split <;> rfl
        have h4 : stepAccepted s .torEvent k = [] := rfl
        rw [h2, h4]
        simp only [covL_nil, cnt_nil, Nat.add_zero]
        exact torEvent_pend s k b hp
      | connect a1 a2 a3 => exact absurd rfl hpl
      | push a1 a2 => exact absurd rfl hpl
      | age a1 a2 => exact absurd rfl hpl
      | flush a1 => exact absurd rfl hpl
      | wdrain a1 => exact absurd rfl hpl
      | wfill a1 a2 => exact absurd rfl hpl
      | wsReserve a1 => exact absurd rfl hpl
      | wWrite a1 a2 => exact absurd rfl hpl
      | wClose a1 => exact absurd rfl hpl
      | finalise a1 => exact absurd rfl hpl
      | metaComplete => exact absurd rfl hpl

theorem run_pend (k b : Nat) : ∀ (ops : List Op) (s : State), Inv s → MInv s →
    pend k b (run s ops) + histAnswered k b s ops + histDrained k b s ops = pend k b s + histAccepted k b s ops := by
  intro ops
  induction ops with
  | nil => intro s _ _; simp [run, histAnswered, histDrained, histAccepted]
  | cons op ops ih =>
    intro s hI hM
    have h1 := ih (step s op).1 (step_inv s op hI hM) (step_minv s op hM)
    have h2 := step_pend s op k b hI hM
    simp only [run, histAnswered, histDrained, histAccepted]
    omega

end Storrent.Sched
