import Storrent.Lemmas.CostHelpers
/- the cost of every message: `handleWire m` makes `Psi + Pot` grow by at most `msgK m s` -/
namespace Storrent.PeerMsg
open Storrent Storrent.RequestsI Storrent.Wire

attribute [local irreducible] get modify emit charge chargeStore tagAs throw fault failTag write
  isCongested writeEvent failW fromChunk toChunk chunkSize numPieces drop dropAll reject docancel
  active startStopUpload rejectAll unchoke maybeInterested maybeRequestLoop maybeRequest pexAdd pexDrop
  retractBitmap delReq

/-! modifications that move the potential -/
theorem bmSet_length (b : Bytes) (i : Nat) : (bmSet b i).length ≤ b.length + (i / 8 + 1) := by
  unfold bmSet bmExtend
  split <;> simp [List.length_modify] <;> omega

instance (b : Bytes) : HasCost (modify (fun s => { s with bitmap := some b })) (potD * b.length) :=
  ⟨cspec_modify_le _ _ (fun s => by simp only [Pot, Option.getD_some]; omega)⟩
instance : HasCost (modify (fun s => { s with bitmap := none })) 0 :=
  ⟨cspec_modify_le _ _ (fun s => by simp only [Pot, Option.getD_none, List.length_nil]; omega)⟩
instance (v : Bool) : HasCost (modify (fun s => { s with bitmap := none, isSeed := v })) 0 :=
  ⟨cspec_modify_le _ _ (fun s => by simp only [Pot, Option.getD_none, List.length_nil]; omega)⟩
instance (x : Nat × Nat × Nat) : HasCost (modify (fun s => { s with upload := s.upload ++ [x] })) potC :=
  ⟨cspec_modify_le _ _ (fun s => by simp only [Pot, List.length_append, List.length_singleton, Nat.mul_add]; omega)⟩
instance (k : Nat) : HasCost (modify (fun s => { s with upload := s.upload.eraseIdx k })) 0 :=
  ⟨cspec_modify_le _ _ (fun s => by
    have : (s.upload.eraseIdx k).length ≤ s.upload.length := by
      rw [List.length_eraseIdx]; split <;> omega
    have := Nat.mul_le_mul_left potC this
    simp only [Pot]; omega)⟩
instance : HasCost (modify (fun s => { s with upload := s.upload.tail })) 0 :=
  ⟨cspec_modify_le _ _ (fun s => by
    have : s.upload.tail.length ≤ s.upload.length := by simp
    have := Nat.mul_le_mul_left potC this
    simp only [Pot]; omega)⟩
instance (i : Nat) : HasCost (modify (fun s => { s with bitmap := some (bmSet (s.bitmap.getD []) i) }))
    (potD * (i / 8 + 1)) :=
  ⟨cspec_modify_le _ _ (fun s => by
    have := Nat.mul_le_mul_left potD (bmSet_length (s.bitmap.getD []) i)
    simp only [Pot, Option.getD_some, Nat.mul_add] at *; omega)⟩
instance (i : Nat) : HasCost (modify (fun s => { s with bitmap := s.bitmap.map (fun b => bmReset b i) })) 0 :=
  ⟨cspec_modify_le _ _ (fun s => by
    cases hb : s.bitmap <;> simp [Pot, hb, bmReset, List.length_modify])⟩

theorem bmGrow_le (b : Bytes) (i : Nat) : bmGrow b i ≤ i / 8 + 1 := by
  unfold bmGrow; split <;> omega
instance (b : Bytes) (i : Nat) : HasCost (charge (bmGrow b i)) (i / 8 + 1) :=
  ⟨cspec_mono (bmGrow_le b i) (cspec_charge _)⟩

/-! the variant for helpers that need the metadata -/
class HasCostG {α : Type} (x : PM α) (K : outParam Nat) : Prop where
  spec : ∀ N, CSpecG N x K

instance {α} (x : PM α) (K : Nat) [h : HasCost x K] : HasCostG x K := ⟨fun _ => cspecG_of_cspec h.spec⟩
instance (i b : Nat) : HasCostG (toChunk i b) 0 := ⟨fun _ => cspecG_toChunk i b⟩
instance (ch : Nat) : HasCostG (fromChunk ch) 0 := ⟨fun _ => cspecG_fromChunk ch⟩
instance (ch : Nat) : HasCostG (drop ch) evCost := ⟨fun _ => cspecG_drop ch⟩
instance (l : List Nat) : HasCostG (dropAll l) (evCost * l.length) := ⟨fun _ => cspecG_dropAll l⟩
instance (ch : Nat) : HasCostG (docancel ch) msgCost := ⟨fun _ => cspecG_docancel ch⟩
instance : HasCostG maybeRequest 0 := ⟨fun _ => cspecG_maybeRequest⟩

theorem cspecG_bindI {α β} {N : Nat} {x : PM α} {f : α → PM β} {K K1 : Nat} [h : HasCostG x K1]
    (hs : SpecG x) (hf : ∀ a, CSpecG N (f a) (K - K1)) (hk : K1 ≤ K) : CSpecG N (x >>= f) K :=
  cspecG_bind hs (h.spec N) hf hk

theorem cspecG_leafI {α} {N : Nat} {x : PM α} {K K1 : Nat} [h : HasCostG x K1] (hk : K1 ≤ K) :
    CSpecG N x K := cspecG_mono hk (h.spec N)

theorem cspecG_bind_modify {β} {N : Nat} {f : PeerState → PeerState} {g : Unit → PM β} {K : Nat}
    (hp : ∀ s, Pot (f s) = Pot s) (hs : Spec (modify f)) (hg : CSpecG N (g ()) K) :
    CSpecG N (modify f >>= g) K :=
  cspecG_bind (K1 := 0) (specG_of_spec hs) (cspecG_of_cspec (cspec_modify_frame f hp)) (fun _ => by simpa using hg) (by omega)

theorem spec_retractBitmap (t1 t2 : String) : Spec (retractBitmap t1 t2) := by
  unfold retractBitmap; spec_auto2

/-- the uint32 range guard, with the plain consequence `i < N` for the accepted branch -/
theorem cspecG_ite_range {α} {N i K : Nat} {x y : PM α} (h1 : i ≥ N % U32 → CSpecG N x K)
    (h2 : i < N → CSpecG N y K) : CSpecG N (if i ≥ N % U32 then x else y) K := by
  split
  · rename_i h; exact h1 h
  · rename_i h; exact h2 (Nat.lt_of_lt_of_le (Nat.lt_of_not_le h) (Nat.mod_le _ _))

macro "spec_leaf3" : tactic => `(tactic| first
  | spec_leaf2 | exact spec_retractBitmap _ _ | exact spec_delReq _ _)

macro "specg_leaf" : tactic => `(tactic| first
  | exact specG_numPieces | exact specG_toChunk _ _ | exact specG_fromChunk _ | exact specG_drop _
  | exact specG_dropAll _ | exact specG_docancel _ | exact specG_maybeRequest
  | exact specG_of_spec (by spec_leaf3))

macro "cost_side2" : tactic => `(tactic| first
  | omega
  | (simp only [evCost, msgCost, torCost, outCost, potA, potB, potC, potD, uploadQ, U32, maxPiecesPre] at * <;> omega)
  | (simp [evCost, msgCost, torCost, outCost, potA, potB, potC, potD, uploadQ, U32, maxPiecesPre] at * <;> omega))

macro "cspec_auto3" : tactic => `(tactic| repeat' (first
  | exact cspec_fault_bind _ _ _
  | exact cspec_failTag_bind _ _ _ _
  | exact cspec_throw_bind _ _ _
  | exact cspec_failW_bind _ _ _
  | (refine cspec_leafI ?_; cost_side2)
  | (refine cspec_mono (K := 0) ?_ ?_; omega; apply cspec_modify_frame; intro _; rfl)
  | assumption
  | (refine cspec_mono' (by assumption) ?_; cost_side2)
  | (refine cspec_get_bind (fun _ => ?_))
  | (refine cspec_bind_modify ?_ ?_ ?_; (intro _; rfl); frame_modify)
  | (refine cspec_bindI ?_ (fun _ => ?_) ?_; spec_leaf3; rotate_left; cost_side2)
  | split | (dsimp only)))

macro "cspecg_auto" : tactic => `(tactic| repeat' (first
  | exact cspecG_fault_bind _ _ _
  | exact cspecG_of_cspec (cspec_failTag_bind _ _ _ _)
  | exact cspecG_of_cspec (cspec_throw_bind _ _ _)
  | exact cspecG_of_cspec (cspec_failW_bind _ _ _)
  | (refine cspecG_leafI ?_; cost_side2)
  | (refine cspecG_mono (K := 0) ?_ (cspecG_of_cspec ?_); omega; apply cspec_modify_frame; intro _; rfl)
  | assumption
  | (refine cspecG_get_bind (fun _ => ?_))
  | (refine cspecG_numPieces_bind ?_)
  | (refine cspecG_ite_range ?_ ?_ <;> intro _)
  | (refine cspecG_bind_modify ?_ ?_ ?_; (intro _; rfl); frame_modify)
  | (refine cspecG_bindI ?_ (fun _ => ?_) ?_; specg_leaf; rotate_left; cost_side2)
  | split | (dsimp only)))

/-! the value-agnostic cases -/
theorem c_keepAlive (ae) : CSpec (handleWire .keepAlive ae) 0 := by
  unfold handleWire; refine cspec_get_bind (fun s => ?_); dsimp only; cspec_auto3
theorem c_unchoke (ae) : CSpec (handleWire .unchoke ae) evCost := by
  unfold handleWire; refine cspec_get_bind (fun s => ?_); dsimp only; cspec_auto3
theorem c_interested (ae) : CSpec (handleWire .interested ae) evCost := by
  unfold handleWire; refine cspec_get_bind (fun s => ?_); dsimp only; cspec_auto3
theorem c_notInterested (ae) : CSpec (handleWire .notInterested ae) (msgCost + evCost) := by
  unfold handleWire; refine cspec_get_bind (fun s => ?_); dsimp only; cspec_auto3
theorem c_port (ae p) : CSpec (handleWire (.port p) ae) 0 := by
  unfold handleWire; refine cspec_get_bind (fun s => ?_); dsimp only; cspec_auto3
theorem c_suggest (ae p) : CSpec (handleWire (.suggest p) ae) 0 := by
  unfold handleWire; refine cspec_get_bind (fun s => ?_); dsimp only; cspec_auto3
theorem c_cancel (ae i b l) : CSpec (handleWire (.cancel i b l) ae) msgCost := by
  unfold handleWire; refine cspec_get_bind (fun s => ?_); dsimp only; cspec_auto3
theorem c_haveNone (ae) : CSpec (handleWire .haveNone ae) evCost := by
  unfold handleWire; refine cspec_get_bind (fun s => ?_); dsimp only; cspec_auto3
theorem c_uploadOnly (ae s v) : CSpec (handleWire (.uploadOnly s v) ae) 0 := by
  unfold handleWire; refine cspec_get_bind (fun s => ?_); dsimp only; cspec_auto3
theorem c_extUnknown (ae s) : CSpec (handleWire (.extUnknown s) ae) 0 := by
  unfold handleWire; refine cspec_get_bind (fun s => ?_); dsimp only; cspec_auto3
theorem c_unknown (ae s) : CSpec (handleWire (.unknown s) ae) 0 := by
  unfold handleWire; refine cspec_get_bind (fun s => ?_); dsimp only; cspec_auto3


theorem c_ext0 (ae e) : CSpec (handleWire (.ext0 e) ae)
    (5 * evCost + 4 * (512 + e.version.length) + 48 + metaConst) := by
  unfold handleWire; refine cspec_get_bind (fun s => ?_); dsimp only; cspec_auto3
theorem c_pex (ae sub a d) : CSpec (handleWire (.pex sub a d) ae) ((40 + evCost + 512) * a.length) := by
  unfold handleWire; refine cspec_get_bind (fun s => ?_); dsimp only; cspec_auto3
theorem c_metadata (ae sub t p tot d) : CSpec (handleWire (.metadata sub t p tot d) ae)
    (2 * msgCost + evCost + 1025 + metaConst) := by
  unfold handleWire; refine cspec_get_bind (fun s => ?_); dsimp only; cspec_auto3


/-- the piece count a piece index is checked against: the real one once the metadata is
    known, `maxPieces` (8·2^20) before -/
def Nof (s : PeerState) : Nat :=
  if s.info then (s.length + s.pieceSize - 1) / s.pieceSize else maxPiecesPre

/-- enter a case with the metadata unknown: the guards on `s.info` are decided -/
macro "noinfo_case" hinfo:ident c:ident hi:ident : tactic => `(tactic|
  (unfold handleWire
   rw [bindE, get_eval]
   dsimp only
   simp only [$hinfo:ident, Bool.false_eq_true, Bool.not_false, Bool.true_or, ↓reduceIte]
   refine (?_ : CSpec _ _) $c $hi))

/-- enter a case with the metadata known -/
macro "info_case" hinfo:ident c:ident hi:ident hN:ident : tactic => `(tactic|
  (unfold handleWire
   rw [bindE, get_eval]
   dsimp only
   simp only [$hinfo:ident, Bool.not_true, Bool.false_or, ↓reduceIte]
   refine (?_ : CSpecG _ _ _) $c $hi $hinfo $hN))

def kRequest : Nat := 2 * msgCost + 12 + potC
theorem c_request (ae i b l) : CSpec (handleWire (.request i b l) ae) kRequest := by
  intro c hi
  by_cases hinfo : c.s.info = true
  · have hN : npOf c.s = npOf c.s := rfl
    info_case hinfo c hi hN
    unfold kRequest; cspecg_auto
  · noinfo_case hinfo c hi
    unfold kRequest; cspec_auto3

/-- an accepted piece index: byte of the remote's bitmap (allocation + potential), the
    availability counters, one event, one Interested -/
def kHave (N : Nat) : Nat := (N / 8 + 1) + potD * (N / 8 + 1) + evCost + 2 * (N + 1) + msgCost

theorem Nof_info {s : PeerState} (h : s.info = true) : Nof s = npOf s := by simp [Nof, h, npOf]

theorem c_have (ae i) (c : Ctx) (hi : Inv c.s) : CostOut (handleWire (.have i) ae c) c (kHave (Nof c.s)) := by
  by_cases hinfo : c.s.info = true
  · rw [Nof_info hinfo]
    generalize hN : npOf c.s = N
    info_case hinfo c hi hN
    unfold kHave; cspecg_auto
  · have hN : Nof c.s = maxPiecesPre := by simp [Nof, hinfo]
    rw [hN]
    noinfo_case hinfo c hi
    unfold kHave; cspec_auto3


theorem c_allowedFast (ae i) : CSpec (handleWire (.allowedFast i) ae) 4 := by
  intro c hi
  by_cases hinfo : c.s.info = true
  · generalize hN : npOf c.s = N
    info_case hinfo c hi hN
    cspecg_auto
  · noinfo_case hinfo c hi
    cspec_auto3

/-- a bitfield of `n` bytes: two copies, the potential of the new bitmap, the availability
    counters of the bits it announces, two events, one Interested -/
def kBitfield (bs : Bytes) : Nat := 2 * bs.length + potD * bs.length + 2 * evCost + 10 * bmLen bs + msgCost

theorem c_bitfield (ae bs) : CSpec (handleWire (.bitfield bs) ae) (kBitfield bs) := by
  intro c hi
  by_cases hinfo : c.s.info = true
  · generalize hN : npOf c.s = N
    info_case hinfo c hi hN
    unfold kBitfield; cspecg_auto
  · noinfo_case hinfo c hi
    unfold kBitfield; cspec_auto3

theorem c_piece (ae i b d) : CSpec (handleWire (.piece i b d) ae) (2 * evCost + 512) := by
  intro c hi
  by_cases hinfo : c.s.info = true
  · generalize hN : npOf c.s = N
    info_case hinfo c hi hN
    cspecg_auto
  · noinfo_case hinfo c hi
    cspec_auto3

theorem c_reject (ae i b l) : CSpec (handleWire (.reject i b l) ae) evCost := by
  intro c hi
  by_cases hinfo : c.s.info = true
  · generalize hN : npOf c.s = N
    info_case hinfo c hi hN
    cspecg_auto
  · noinfo_case hinfo c hi
    cspec_auto3


def kHaveAll (N : Nat) : Nat :=
  2 * evCost + 2 * (bmSetMultiple [] N).length + potD * (bmSetMultiple [] N).length +
    10 * bmLen (bmSetMultiple [] N) + msgCost

theorem c_haveAll (ae) (c : Ctx) (hi : Inv c.s) : CostOut (handleWire .haveAll ae c) c (kHaveAll (Nof c.s)) := by
  by_cases hinfo : c.s.info = true
  · rw [Nof_info hinfo]
    generalize hN : npOf c.s = N
    info_case hinfo c hi hN
    unfold kHaveAll; cspecg_auto
  · noinfo_case hinfo c hi
    unfold kHaveAll; cspec_auto3

/-- a DontHave is announced only for a bit the remote's bitmap holds: the index is below 8
    times its length -/
def kDontHave (s : PeerState) : Nat := evCost + 16 * (s.bitmap.getD []).length + 2

theorem peerHas_lt {s : PeerState} {i : Nat} (h : peerHas s i = true) : i / 8 < (s.bitmap.getD []).length := by
  unfold peerHas at h
  cases hb : s.bitmap with
  | none => simp [hb] at h
  | some b =>
    simp only [hb] at h
    unfold bmGet at h
    simp only [Option.getD_some]
    cases hg : b[i / 8]? with
    | none => simp [hg] at h
    | some v => exact (List.getElem?_eq_some_iff.mp hg).1

theorem c_dontHave (ae sub i) (c : Ctx) (hi : Inv c.s) :
    CostOut (handleWire (.dontHave sub i) ae c) c (kDontHave c.s) := by
  by_cases hp : peerHas c.s i = true
  · have hlt := peerHas_lt hp
    have hk : evCost + 2 * (i + 1) ≤ kDontHave c.s := by unfold kDontHave; omega
    refine CostOut.mono ?_ hk
    by_cases hinfo : c.s.info = true
    · generalize hN : npOf c.s = N
      info_case hinfo c hi hN
      cspecg_auto
    · noinfo_case hinfo c hi
      cspec_auto3
  · refine CostOut.mono (K := 0) ?_ (Nat.zero_le _)
    by_cases hinfo : c.s.info = true
    · generalize hN : npOf c.s = N
      info_case hinfo c hi hN
      simp only [hp, Bool.false_eq_true, ↓reduceIte]
      cspecg_auto
    · noinfo_case hinfo c hi
      simp only [hp, Bool.false_eq_true, ↓reduceIte]
      cspec_auto3

end Storrent.PeerMsg
