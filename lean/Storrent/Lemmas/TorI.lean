import Storrent.Model.PeerMsg
/- torrent-side lemmas: releasing in-flight counters stays inside the table -/
namespace Storrent.PeerMsg
open Storrent

theorem sparse_set_len (v : Sparse) (i x : Nat) : (v.set i x).len = v.len := by
  unfold Sparse.set; split <;> rfl

theorem releaseInFlight_some (t : TorState) (ch : Nat) (h : ch < t.inFlight.len) :
    ∃ t', releaseInFlight t ch = some t' ∧ t'.inFlight.len = t.inFlight.len ∧
      t'.pieceSize = t.pieceSize ∧ t'.length = t.length := by
  unfold releaseInFlight
  have : ¬ ch ≥ t.inFlight.len := by omega
  simp only [this, ↓reduceIte]
  split
  · exact ⟨_, rfl, rfl, rfl, rfl⟩
  · exact ⟨_, rfl, by simp [sparse_set_len], rfl, rfl⟩

theorem releaseLoop_some (n : Nat) : ∀ (t : TorState) (base i0 : Nat),
    (∀ k, k < n → (base + (i0 + k)) % U32 < t.inFlight.len) →
    ∃ t', releaseLoop t base n i0 = some t' := by
  induction n with
  | zero => intro t base i0 _; exact ⟨t, rfl⟩
  | succ n ih =>
    intro t base i0 h
    unfold releaseLoop
    obtain ⟨t', ht', hl, -, -⟩ := releaseInFlight_some t ((base + i0) % U32) (by simpa using h 0 (by omega))
    rw [ht']
    dsimp only
    apply ih
    intro k hk
    rw [hl]
    have := h (k + 1) (by omega)
    rw [show i0 + (k + 1) = i0 + 1 + k by omega] at this
    exact this

end Storrent.PeerMsg
