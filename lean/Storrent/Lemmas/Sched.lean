import Storrent.Model.Sched
/-
Lemmas for C09: list helpers, chunk arithmetic, local conservation of every peer handler,
routing of emitted events, and preservation of the global invariant by every step.
-/
namespace Storrent.Sched

/-! ### list helpers -/

@[simp] theorem cnt_nil (b : Nat) : cnt b [] = 0 := rfl
@[simp] theorem cnt_cons (b x : Nat) (xs : List Nat) :
    cnt b (x :: xs) = (if x = b then 1 else 0) + cnt b xs := rfl
@[simp] theorem cnt_append (b : Nat) (l m : List Nat) : cnt b (l ++ m) = cnt b l + cnt b m := by
  induction l with
  | nil => simp
  | cons x xs ih => simp [ih]; omega

@[simp] theorem sumL_nil {α : Type} (f : α → Nat) : sumL f [] = 0 := rfl
@[simp] theorem sumL_cons {α : Type} (f : α → Nat) (x : α) (xs : List α) :
    sumL f (x :: xs) = f x + sumL f xs := rfl
@[simp] theorem sumL_append {α : Type} (f : α → Nat) (l m : List α) :
    sumL f (l ++ m) = sumL f l + sumL f m := by
  induction l with
  | nil => simp
  | cons x xs ih => simp [ih]; omega

theorem sumL_congr {α : Type} (f g : α → Nat) (l : List α) (h : ∀ x ∈ l, f x = g x) :
    sumL f l = sumL g l := by
  induction l with
  | nil => rfl
  | cons x xs ih =>
    simp only [sumL_cons]
    rw [h x (by simp), ih (fun y hy => h y (by simp [hy]))]

theorem sumL_zero {α : Type} (f : α → Nat) (l : List α) (h : ∀ x ∈ l, f x = 0) : sumL f l = 0 := by
  induction l with
  | nil => rfl
  | cons x xs ih =>
    simp only [sumL_cons]
    rw [h x (by simp), ih (fun y hy => h y (by simp [hy]))]

theorem sumL_eq_zero {α : Type} (f : α → Nat) (l : List α) (h : sumL f l = 0) : ∀ x ∈ l, f x = 0 := by
  induction l with
  | nil => intro x hx; cases hx
  | cons y ys ih =>
    simp only [sumL_cons] at h
    intro x hx
    rcases List.mem_cons.mp hx with rfl | hx
    · omega
    · exact ih (by omega) x hx

@[simp] theorem length_setN {α : Type} (l : List α) (i : Nat) (v : α) : (setN l i v).length = l.length := by
  induction l generalizing i with
  | nil => rfl
  | cons x xs ih => cases i <;> simp [setN, ih]

theorem getN_setN (l : List Nat) (i j v : Nat) :
    getN (setN l i v) j = if i = j ∧ i < l.length then v else getN l j := by
  induction l generalizing i j with
  | nil => simp [setN, getN]
  | cons x xs ih =>
    cases i with
    | zero => cases j <;> simp [setN, getN]
    | succ i =>
      cases j with
      | zero => simp [setN, getN]
      | succ j => simp [setN, getN, ih]

theorem getN_ge (l : List Nat) (i : Nat) (h : l.length ≤ i) : getN l i = 0 := by
  induction l generalizing i with
  | nil => cases i <;> rfl
  | cons x xs ih =>
    cases i with
    | zero => simp at h
    | succ i => simp [getN]; exact ih i (by simpa using h)

/-- replacing element `i` (which was `x`) by `a` -/
theorem sumL_setN {α : Type} (f : α → Nat) (l : List α) (i : Nat) (x a : α) (h : l[i]? = some x) :
    sumL f (setN l i a) + f x = sumL f l + f a := by
  induction l generalizing i with
  | nil => simp at h
  | cons y ys ih =>
    cases i with
    | zero =>
      simp at h; subst h
      simp [setN]; omega
    | succ i =>
      simp at h
      have := ih i h
      simp [setN]; omega

theorem mem_setN {α : Type} (l : List α) (i : Nat) (a y : α) (h : y ∈ setN l i a) : y = a ∨ y ∈ l := by
  induction l generalizing i with
  | nil => simp [setN] at h
  | cons x xs ih =>
    cases i with
    | zero =>
      simp [setN] at h
      rcases h with h | h
      · exact Or.inl h
      · exact Or.inr (by simp [h])
    | succ i =>
      simp [setN] at h
      rcases h with h | h
      · exact Or.inr (by simp [h])
      · rcases ih i h with h | h
        · exact Or.inl h
        · exact Or.inr (by simp [h])

theorem getElem?_setN {α : Type} (l : List α) (i j : Nat) (a : α) :
    (setN l i a)[j]? = if i = j ∧ i < l.length then some a else l[j]? := by
  induction l generalizing i j with
  | nil => simp [setN]
  | cons x xs ih =>
    cases i with
    | zero => cases j <;> simp [setN]
    | succ i =>
      cases j with
      | zero => simp [setN]
      | succ j => simp [setN, ih]

theorem cnt_chunksFrom (b s n : Nat) :
    cnt b (chunksFrom s n) = if s ≤ b ∧ b < s + n then 1 else 0 := by
  unfold chunksFrom
  induction n with
  | zero => simp
  | succ n ih =>
    rw [List.range_succ, List.map_append, cnt_append, ih]
    simp
    split <;> split <;> split <;> omega

theorem chunksFrom_one (s : Nat) : chunksFrom s 1 = [s] := by
  simp [chunksFrom, List.range_succ]

theorem chunksFrom_zero (s : Nat) : chunksFrom s 0 = [] := by
  simp [chunksFrom]

/-! ### requests lists -/

def cntR (b : Nat) (l : List Req) : Nat := cnt b (chunksOf l)

@[simp] theorem cntR_nil (b : Nat) : cntR b [] = 0 := rfl
@[simp] theorem cntR_cons (b : Nat) (r : Req) (l : List Req) :
    cntR b (r :: l) = (if r.chunk = b then 1 else 0) + cntR b l := rfl
@[simp] theorem cntR_append (b : Nat) (l m : List Req) : cntR b (l ++ m) = cntR b l + cntR b m := by
  simp [cntR, chunksOf]

theorem cntR_eq_sumL (b : Nat) (l : List Req) :
    cntR b l = sumL (fun r => if r.chunk = b then 1 else 0) l := by
  induction l with
  | nil => rfl
  | cons r rs ih => simp [ih]

theorem cntR_setN (b : Nat) (l : List Req) (i : Nat) (x a : Req) (h : l[i]? = some x) :
    cntR b (setN l i a) + (if x.chunk = b then 1 else 0) = cntR b l + (if a.chunk = b then 1 else 0) := by
  rw [cntR_eq_sumL, cntR_eq_sumL]
  exact sumL_setN _ l i x a h

theorem cntR_reverse (b : Nat) (l : List Req) : cntR b l.reverse = cntR b l := by
  induction l with
  | nil => rfl
  | cons r rs ih => simp [ih]; omega

theorem cntR_swapRemove (b : Nat) (l : List Req) (j : Nat) (x : Req) (h : l[j]? = some x) :
    cntR b (swapRemove l j) + (if x.chunk = b then 1 else 0) = cntR b l := by
  unfold swapRemove
  have hl : l = l.reverse.reverse := by simp
  cases hr : l.reverse with
  | nil =>
    have : l = [] := by simpa using hr
    subst this; simp at h
  | cons last revInit =>
    have hl' : l = revInit.reverse ++ [last] := by rw [hl, hr]; simp
    simp only []
    split
    · rename_i hlt
      have hx : (revInit.reverse)[j]? = some x := by
        rw [hl'] at h
        rwa [List.getElem?_append_left hlt] at h
      have := cntR_setN b revInit.reverse j x last hx
      rw [hl']; simp; omega
    · rename_i hge
      have hj : j = revInit.reverse.length := by
        have : j < l.length := by
          rcases Nat.lt_or_ge j l.length with h1 | h1
          · exact h1
          · rw [List.getElem?_eq_none h1] at h; cases h
        rw [hl'] at this; simp at this; simp at hge; simp; omega
      rw [hl'] at h
      rw [hj] at h
      simp at h
      subst h
      rw [hl']; simp

theorem findIdx_some (l : List Req) (c j : Nat) (h : findIdx l c = some j) :
    ∃ r, l[j]? = some r ∧ r.chunk = c := by
  induction l generalizing j with
  | nil => simp [findIdx] at h
  | cons r rs ih =>
    simp only [findIdx] at h
    split at h
    · rename_i hc
      simp at h; subst h
      exact ⟨r, by simp, hc⟩
    · cases hf : findIdx rs c with
      | none => simp [hf] at h
      | some k =>
        simp [hf] at h; subst h
        obtain ⟨r', h1, h2⟩ := ih k hf
        exact ⟨r', by simpa using h1, h2⟩

theorem cntR_map_chunk (b : Nat) (l : List Req) (f : Req → Req) (hf : ∀ r, (f r).chunk = r.chunk) :
    cntR b (l.map f) = cntR b l := by
  induction l with
  | nil => rfl
  | cons r rs ih => simp [ih, hf]

end Storrent.Sched

namespace Storrent.Sched

/-! ### chunk arithmetic -/

theorem Geom.Valid.cpp_pos {g : Geom} (h : g.Valid) : 0 < g.cpp := by
  obtain ⟨h1, h2, _, _, _⟩ := h
  unfold Geom.cpp CS at *
  omega

theorem Geom.Valid.cpp_mul {g : Geom} (h : g.Valid) : g.cpp * 16384 = g.ps := by
  obtain ⟨h1, h2, _, _, _⟩ := h
  unfold Geom.cpp CS at *
  omega

theorem Geom.Valid.ps_lt {g : Geom} (h : g.Valid) : g.ps < 4294967296 := h.2.2.2.1

theorem u32_of_lt {x : Nat} (h : x < 4294967296) : u32 x = x := by
  unfold u32 U32; exact Nat.mod_eq_of_lt h

theorem covRange_block {g : Geom} (hg : g.Valid) (idx k len : Nat) (hk : k < g.cpp)
    (hl : 0 < len) (hl2 : len ≤ 16384) :
    covRange g idx (k * 16384) len = [idx * g.cpp + k] := by
  have hc := hg.cpp_mul
  have hp := hg.ps_lt
  unfold covRange
  have h1 : k * 16384 % CS = 0 := by unfold CS; omega
  have h2 : u32 (k * 16384 + len) = k * 16384 + len := u32_of_lt (by omega)
  rw [if_neg (by simp [h1]), h2, if_neg (by omega)]
  have h3 : k * 16384 / CS = k := by unfold CS; omega
  have h4 : (len + CS - 1) / CS = 1 := by unfold CS; omega
  rw [h3, h4, chunksFrom_one]

theorem fromChunk_spec {g : Geom} (hg : g.Valid) (c : Nat) :
    fromChunk g c = (c / g.cpp, (c % g.cpp) * 16384) := by
  have hc := hg.cpp_mul
  have hp := hg.ps_lt
  have hk : c % g.cpp < g.cpp := Nat.mod_lt _ hg.cpp_pos
  unfold fromChunk
  have : u32 (c % g.cpp * CS) = c % g.cpp * 16384 := by
    unfold CS; exact u32_of_lt (by omega)
  rw [this]

theorem cov_dropEv {g : Geom} (hg : g.Valid) (c : Nat) : cov g (dropEv g c) = [c] := by
  have hk : c % g.cpp < g.cpp := Nat.mod_lt _ hg.cpp_pos
  unfold dropEv
  rw [fromChunk_spec hg]
  simp only [cov]
  have := covRange_block hg (c / g.cpp) (c % g.cpp) CS hk (by unfold CS; omega) (by unfold CS; omega)
  rw [this, Nat.div_add_mod']

theorem pieceLength_le {g : Geom} (hg : g.Valid) (i : Nat) : g.pieceLength i ≤ g.ps := by
  unfold Geom.pieceLength
  have := Nat.mod_lt g.len hg.1
  simp only []
  split
  · omega
  · split <;> omega

theorem npieces_mul {g : Geom} (hg : g.Valid) : g.len ≤ g.npieces * g.ps := by
  unfold Geom.npieces
  have hps := hg.1
  have h1 := Nat.div_add_mod (g.len + g.ps - 1) g.ps
  have h2 := Nat.mod_lt (g.len + g.ps - 1) hps
  rw [Nat.mul_comm] at h1
  omega

theorem nchunks_le {g : Geom} (hg : g.Valid) : g.nchunks ≤ g.npieces * g.cpp := by
  have h1 := npieces_mul hg
  have h2 := hg.cpp_mul
  unfold Geom.nchunks CS
  have : g.npieces * g.ps = (g.npieces * g.cpp) * 16384 := by
    rw [← h2]; rw [Nat.mul_assoc]
  omega

theorem chunkSize_pos {g : Geom} (hg : g.Valid) (c : Nat) (hc : c < g.nchunks) :
    0 < chunkSize g c ∧ chunkSize g c ≤ 16384 := by
  have h1 := nchunks_le hg
  have h2 : g.npieces * g.cpp < 4294967296 := hg.2.2.2.2
  unfold chunkSize
  unfold Geom.nchunks CS at *
  have h3 : u32 (g.len / 16384) = g.len / 16384 := u32_of_lt (by omega)
  have h4 : u32 (g.len % 16384) = g.len % 16384 := u32_of_lt (by omega)
  rw [h3, h4]
  split <;> omega

/-- `toChunk` of a position inside piece `idx` -/
theorem toChunk_spec {g : Geom} (hg : g.Valid) (idx begin : Nat) (hi : idx < g.npieces)
    (hb : begin < g.ps) : toChunk g idx begin = idx * g.cpp + begin / 16384 := by
  have h2 : g.npieces * g.cpp < 4294967296 := hg.2.2.2.2
  have hc := hg.cpp_mul
  have hcp := hg.cpp_pos
  have h3 : (idx + 1) * g.cpp ≤ g.npieces * g.cpp := Nat.mul_le_mul_right _ hi
  have h4 : begin / 16384 < g.cpp := by omega
  have h5 : (idx + 1) * g.cpp = idx * g.cpp + g.cpp := by rw [Nat.add_mul]; simp
  unfold toChunk
  have h6 : ¬ idx > (U32 - 1) / g.cpp := by
    unfold U32
    have : idx * g.cpp ≤ 4294967296 - 1 := by omega
    have := (Nat.le_div_iff_mul_le hcp).mpr this
    omega
  rw [if_neg h6]
  unfold CS
  exact u32_of_lt (by omega)

end Storrent.Sched

namespace Storrent.Sched

/-! ### AddData -/

theorem addLoop_spec (pl dlen begin : Nat) :
    ∀ (fuel offset count : Nat) (bits : List Bool), offset = begin + count → offset ≤ pl →
      count % 16384 = 0 → count ≤ dlen →
      let r := addLoop pl dlen fuel offset count bits
      begin + r.1 ≤ pl ∧ r.1 ≤ dlen ∧ (r.1 % 16384 = 0 ∨ begin + r.1 = pl) := by
  intro fuel
  induction fuel with
  | zero => intro offset count bits h0 h1 h2 h3; simp [addLoop]; omega
  | succ fuel ih =>
    intro offset count bits h0 h1 h2 h3
    simp only [addLoop]
    split
    · split
      · simp; omega
      · rename_i hlt hno
        have hno' : ¬ (min (pl - offset) CS = 0) ∧ ¬ (dlen < count + min (pl - offset) CS) := by
          constructor
          · intro h; exact hno (Or.inl h)
          · intro h; exact hno (Or.inr h)
        unfold CS at hno' ⊢
        split
        · simp; omega
        · rename_i hmod
          have hl : min (pl - offset) 16384 = 16384 := by omega
          rw [hl]
          exact ih (offset + 16384) (count + 16384) _ (by omega) (by omega) (by omega) (by omega)
    · simp; omega

theorem addData_spec (g : Geom) (pc : PieceSt) (index begin dlen : Nat) :
    let a := addData g pc index begin dlen
    a.1 ≤ dlen ∧ (0 < a.1 → begin % 16384 = 0 ∧ begin + a.1 ≤ g.pieceLength index ∧
      (a.1 % 16384 = 0 ∨ begin + a.1 = g.pieceLength index)) := by
  unfold addData
  simp only []
  split
  · simp
  · split
    · simp
    · split
      · simp
      · rename_i h1 h2 h3
        have := addLoop_spec (g.pieceLength index) dlen begin (dlen / CS + 2) begin 0 pc.bits
          (by omega) (by omega) (by omega) (by omega)
        simp only [] at this
        unfold CS at h2
        refine ⟨this.2.1, fun _ => ⟨by omega, this.1, this.2.2⟩⟩

end Storrent.Sched

namespace Storrent.Sched

/-! ### local conservation: what a peer handler removes from its lists it emits as events -/

@[simp] theorem covL_nil (g : Geom) (b : Nat) : covL g b [] = 0 := rfl
@[simp] theorem covL_cons (g : Geom) (b : Nat) (e : TorEv) (es : List TorEv) :
    covL g b (e :: es) = cnt b (cov g e) + covL g b es := rfl
@[simp] theorem covL_append (g : Geom) (b : Nat) (l m : List TorEv) :
    covL g b (l ++ m) = covL g b l + covL g b m := by simp [covL]

theorem covL_drop {g : Geom} (hg : g.Valid) (b c : Nat) :
    covL g b [dropEv g c] = if c = b then 1 else 0 := by
  simp [cov_dropEv hg]

theorem covL_mapDrop {g : Geom} (hg : g.Valid) (b : Nat) (l : List Nat) :
    covL g b (l.map (dropEv g)) = cnt b l := by
  induction l with
  | nil => rfl
  | cons c cs ih => simp [ih, cov_dropEv hg]

theorem outstanding_def (p : Peer) (b : Nat) : p.outstanding b = cntR b p.queue + cntR b p.requested := rfl

theorem write_out (p : Peer) (b : Nat) : p.write.1.outstanding b = p.outstanding b := by
  unfold Peer.write; split <;> rfl

theorem write_queue (p : Peer) : p.write.1.queue = p.queue := by
  unfold Peer.write; split <;> rfl
theorem write_requested (p : Peer) : p.write.1.requested = p.requested := by
  unfold Peer.write; split <;> rfl

theorem maybeRequestLoop_loc {g : Geom} (hg : g.Valid) (slow : Bool) (b : Nat) :
    ∀ (fuel : Nat) (p : Peer) (evs : List TorEv),
      (maybeRequestLoop g slow fuel p evs).1.outstanding b + covL g b (maybeRequestLoop g slow fuel p evs).2
        = p.outstanding b + covL g b evs := by
  intro fuel
  induction fuel with
  | zero => intro p evs; rfl
  | succ fuel ih =>
    intro p evs
    simp only [maybeRequestLoop]
    split
    · rfl
    · split
      · rfl
      · rename_i q rest hq
        split
        · rfl
        · split
          · rw [ih]
            simp [outstanding_def, hq, covL_drop hg]
            omega
          · have hw1 := write_queue { p with queue := rest }
            have hw2 := write_requested { p with queue := rest }
            cases hw : ({ p with queue := rest } : Peer).write with
            | mk p2 ok =>
              rw [hw] at hw1 hw2
              simp only [] at hw1 hw2
              cases ok with
              | true =>
                simp only [if_true]
                rw [ih]
                simp [outstanding_def, hq, hw1, hw2]
                omega
              | false =>
                simp [outstanding_def, hq, hw1, hw2, covL_drop hg]
                omega

theorem maybeRequest_loc {g : Geom} (hg : g.Valid) (slow : Bool) (b : Nat) (p : Peer) (evs : List TorEv) :
    (maybeRequest g slow p evs).1.outstanding b + covL g b (maybeRequest g slow p evs).2
      = p.outstanding b + covL g b evs := by
  unfold maybeRequest
  split
  · rfl
  · exact maybeRequestLoop_loc hg slow b _ p evs

end Storrent.Sched

namespace Storrent.Sched

theorem enqueueAll_loc {g : Geom} (hg : g.Valid) (b : Nat) :
    ∀ (cs : List Nat) (p : Peer) (evs : List TorEv),
      (enqueueAll g cs p evs).1.outstanding b + covL g b (enqueueAll g cs p evs).2
        = p.outstanding b + covL g b evs + cnt b cs := by
  intro cs
  induction cs with
  | nil => intro p evs; simp [enqueueAll]
  | cons c cs ih =>
    intro p evs
    simp only [enqueueAll]
    split
    · rw [ih]; simp [outstanding_def]; omega
    · rw [ih]; simp [covL_drop hg]; omega

theorem cancelChunk_loc {g : Geom} (hg : g.Valid) (b : Nat) (p : Peer) (c : Nat) (evs : List TorEv) :
    (cancelChunk g p c evs).1.outstanding b + covL g b (cancelChunk g p c evs).2
      = p.outstanding b + covL g b evs := by
  unfold cancelChunk
  split
  · rfl
  · split
    · rename_i j hj
      split
      · rename_i r hr
        split
        · rfl
        · rw [write_out]
          have := cntR_setN b p.requested j r { r with canc := true, cage := 0 } hr
          simp [outstanding_def] at this ⊢
          omega
      · rfl
    · split
      · rename_i j hj
        obtain ⟨r, hr, hrc⟩ := findIdx_some _ _ _ hj
        have := cntR_swapRemove b p.queue j r hr
        simp [outstanding_def, covL_drop hg]
        rw [hrc] at this
        omega
      · rfl

theorem cancelPieceLoop_loc {g : Geom} (hg : g.Valid) (b idx : Nat) :
    ∀ (fuel i : Nat) (p : Peer) (evs : List TorEv),
      (cancelPieceLoop g idx fuel i p evs).1.outstanding b + covL g b (cancelPieceLoop g idx fuel i p evs).2
        = p.outstanding b + covL g b evs := by
  intro fuel
  induction fuel with
  | zero => intro i p evs; rfl
  | succ fuel ih =>
    intro i p evs
    simp only [cancelPieceLoop]
    rw [ih]
    exact cancelChunk_loc hg b p _ evs

theorem expireLoop_loc {g : Geom} (hg : g.Valid) (b to : Nat) :
    ∀ (fuel i : Nat) (p : Peer) (evs : List TorEv) (d : Bool),
      (expireLoop g to fuel i p evs d).1.outstanding b + covL g b (expireLoop g to fuel i p evs d).2.1
        = p.outstanding b + covL g b evs := by
  intro fuel
  induction fuel with
  | zero => intro i p evs d; rfl
  | succ fuel ih =>
    intro i p evs d
    simp only [expireLoop]
    split
    · rfl
    · rename_i r hr
      split
      · split
        · rename_i j hj
          obtain ⟨r', hr', hrc⟩ := findIdx_some _ _ _ hj
          have := cntR_swapRemove b p.requested j r' hr'
          rw [ih]
          simp [outstanding_def, covL_drop hg]
          rw [hrc] at this
          omega
        · rfl
      · split
        · rw [ih, write_out]
          have := cntR_setN b p.requested i r { r with canc := true, cage := 0 } hr
          simp [outstanding_def] at this ⊢
          omega
        · rw [ih]

theorem exitEvents_cov {g : Geom} (hg : g.Valid) (b i : Nat) (p : Peer) :
    covL g b (exitEvents g i p) = p.outstanding b := by
  unfold exitEvents
  simp [covL_mapDrop hg, outstanding_def, cntR, cov]
  omega

/-- (a PeerRequest reaches a peer only after its PeerMetadataComplete: invariant `MInv`) -/
theorem handlePeerEv_loc {g : Geom} (hg : g.Valid) (b k : Nat) (p : Peer) (e : PeerEv) (slow : Bool)
    (hreq : ∀ cs, e = .request cs → p.hasInfo = true) :
    (handlePeerEv g k p e slow).1.outstanding b + covL g b (handlePeerEv g k p e slow).2.1
      = p.outstanding b + cnt b (reqChunks e) := by
  unfold handlePeerEv
  cases e with
  | request cs =>
    have := hreq cs rfl
    simp only [reqChunks, this, Bool.not_true, Bool.false_eq_true, if_false]
    rw [maybeRequest_loc hg, enqueueAll_loc hg]; simp
  | cancel c =>
    simp only [reqChunks]
    split
    · simp
    · rw [cancelChunk_loc hg]; simp
  | cancelPiece idx =>
    simp only [reqChunks]
    split
    · simp
    · rw [cancelPieceLoop_loc hg]; simp
  | done => simp [reqChunks]
  | metadata =>
    simp only [reqChunks]
    split
    · simp
    · split
      · split
        · simp [outstanding_def]
        · simp [outstanding_def, cov]
      · split <;> simp [outstanding_def]

end Storrent.Sched

namespace Storrent.Sched

theorem delReq_some (p p1 : Peer) (c : Nat) (r : Bool) (h : delReq p c = some (p1, r)) (b : Nat) :
    p1.outstanding b + (if c = b then 1 else 0) = p.outstanding b := by
  unfold delReq at h
  split at h
  · cases h
  · split at h
    · rename_i j hj
      obtain ⟨x, hx, hxc⟩ := findIdx_some _ _ _ hj
      have := cntR_swapRemove b p.requested j x hx
      simp at h; obtain ⟨h1, _⟩ := h; subst h1
      simp [outstanding_def]; rw [hxc] at this; omega
    · split at h
      · rename_i j hj
        obtain ⟨x, hx, hxc⟩ := findIdx_some _ _ _ hj
        have := cntR_swapRemove b p.queue j x hx
        simp at h; obtain ⟨h1, _⟩ := h; subst h1
        simp [outstanding_def]; rw [hxc] at this; omega
      · cases h

theorem delRequested_some (p p1 : Peer) (c : Nat) (h : delRequested p c = some p1) (b : Nat) :
    p1.outstanding b + (if c = b then 1 else 0) = p.outstanding b := by
  unfold delRequested at h
  split at h
  · cases h
  · split at h
    · rename_i j hj
      obtain ⟨x, hx, hxc⟩ := findIdx_some _ _ _ hj
      have := cntR_swapRemove b p.requested j x hx
      simp at h; subst h
      simp [outstanding_def]; rw [hxc] at this; omega
    · cases h

/-- the TorData a peer emits for an accepted block covers exactly the block whose request it removed -/
theorem cov_pieceData {g : Geom} (hg : g.Valid) (pc : PieceSt) (idx begin len : Nat)
    (hi : idx < g.npieces) (hc : toChunk g idx begin < g.nchunks)
    (h1 : (addData g pc idx begin len).1 = len)
    (h2 : (addData g pc idx begin len).1 = chunkSize g (toChunk g idx begin)) :
    covRange g idx begin len = [toChunk g idx begin] := by
  have hsz := chunkSize_pos hg _ hc
  have ha := addData_spec g pc idx begin len
  simp only [] at ha
  rw [h1] at ha h2
  have hpos : 0 < len := by omega
  obtain ⟨hal, hle, _⟩ := ha.2 hpos
  have hpl := pieceLength_le hg idx
  have hb : begin < g.ps := by omega
  rw [toChunk_spec hg idx begin hi hb]
  have hcm := hg.cpp_mul
  have hk : begin / 16384 < g.cpp := by omega
  have hbe : begin = begin / 16384 * 16384 := by omega
  have := covRange_block hg idx (begin / 16384) len hk hpos (by omega)
  rw [← hbe] at this
  exact this

theorem handleMsg_loc {g : Geom} (hg : g.Valid) (b : Nat) (pieces : List PieceSt) (i : Nat) (p : Peer)
    (m : Msg) (slow : Bool) (hOK : ∀ c, g.nchunks ≤ c → p.outstanding c = 0) :
    (handleMsg g pieces i p m slow).1.outstanding b + covL g b (handleMsg g pieces i p m slow).2.1
      = p.outstanding b := by
  cases m with
  | bad => simp [handleMsg]
  | choke =>
    simp only [handleMsg]
    have hn : chunksOf ([] : List Req) = [] := rfl
    split
    · simp [covL_mapDrop hg, outstanding_def, cntR, cov, hn]; omega
    · simp [covL_mapDrop hg, outstanding_def, cntR, cov, hn]; omega
  | unchoke => simp [handleMsg, outstanding_def, cov]
  | haveMsg x =>
    simp only [handleMsg]
    split
    · simp
    · split <;> simp [outstanding_def, cov]
  | bitfield bs =>
    simp only [handleMsg]
    split
    · simp
    · simp [outstanding_def, cov, retract]
      split <;> simp [cov]
  | haveAll =>
    simp only [handleMsg]
    split
    · simp
    · split
      · simp [outstanding_def, cov, retract]
        split <;> simp [cov]
      · simp [outstanding_def, retract]
        split <;> simp [cov]
  | haveNone =>
    simp only [handleMsg]
    split
    · simp
    · simp [outstanding_def, retract]
      split <;> simp [cov]
  | dontHave x =>
    simp only [handleMsg]
    split
    · simp
    · split
      · simp [outstanding_def]
      · split <;> simp [outstanding_def, cov]
  | allowedFast x =>
    simp only [handleMsg]
    split
    · simp
    · split <;> simp [outstanding_def]
  | reject idx begin =>
    simp only [handleMsg]
    split
    · simp
    · split
      · rename_i p1 hp1
        have := delRequested_some p p1 _ hp1 b
        simp only []
        rw [maybeRequest_loc hg, covL_drop hg]; omega
      · simp only []
        rw [maybeRequest_loc hg]; simp
  | piece idx begin len =>
    simp only [handleMsg]
    split
    · simp
    · rename_i hidx
      split
      · simp only []
        rw [maybeRequest_loc hg]; simp
      · rename_i p1 r hp1
        have hdel := delReq_some p p1 _ r hp1
        split
        · rfl
        · rename_i pc hpc
          split
          · rename_i hcond
            rw [maybeRequest_loc hg]
            have hc : toChunk g idx begin < g.nchunks := by
              rcases Nat.lt_or_ge (toChunk g idx begin) g.nchunks with h | h
              · exact h
              · have h0 := hOK _ h
                have := hdel (toChunk g idx begin)
                simp at this; omega
            have hidx' : idx < g.npieces := by simp at hidx; omega
            have := cov_pieceData hg pc idx begin len hidx' hc hcond.1 hcond.2
            have hd := hdel b
            simp [cov, this]; omega
          · rw [maybeRequest_loc hg, covL_drop hg]
            have hd := hdel b
            omega

end Storrent.Sched

namespace Storrent.Sched

/-! ### routing of events, counters -/

theorem emitAll_cov (g : Geom) (b tcap : Nat) :
    ∀ (es te ov : List TorEv),
      covL g b (emitAll tcap te ov es).1 + covL g b (emitAll tcap te ov es).2
        = covL g b te + covL g b ov + covL g b es := by
  intro es
  induction es with
  | nil => intro te ov; simp [emitAll]
  | cons e es ih =>
    intro te ov
    simp only [emitAll]
    rw [ih]
    unfold emit1
    split <;> simp <;> omega

theorem flushLoop_cov (g : Geom) (b tcap : Nat) :
    ∀ (fuel : Nat) (te ov : List TorEv),
      covL g b (flushLoop tcap fuel te ov).1 + covL g b (flushLoop tcap fuel te ov).2
        = covL g b te + covL g b ov := by
  intro fuel
  induction fuel with
  | zero => intro te ov; rfl
  | succ fuel ih =>
    intro te ov
    simp only [flushLoop]
    split
    · rfl
    · split
      · rw [ih]; simp; omega
      · rfl

theorem peerOwed_def (g : Geom) (b : Nat) (p : Peer) :
    peerOwed g b p = reqOwed b p.evq + p.outstanding b + covL g b p.overflow := rfl

theorem owed_commitPeer (s : State) (i : Nat) (evq : List PeerEv) (al : Bool) (p' : Peer) (evs : List TorEv)
    (p0 : Peer) (h : s.peers[i]? = some p0) (b : Nat) :
    owed (commitPeer s i p0.overflow evq al p' evs) b + reqOwed b p0.evq + p0.outstanding b
      = owed s b + reqOwed b evq + p'.outstanding b + covL s.g b evs := by
  unfold owed commitPeer
  simp only []
  have h1 := sumL_setN (peerOwed s.g b) s.peers i p0
    { p' with overflow := (emitAll s.tcap s.tEvent p0.overflow evs).2, evq := evq, alive := al } h
  have h2 := emitAll_cov s.g b s.tcap evs s.tEvent p0.overflow
  simp only [peerOwed_def] at h1
  have h3 : ({ p' with overflow := (emitAll s.tcap s.tEvent p0.overflow evs).2, evq := evq, alive := al } : Peer).outstanding b
      = p'.outstanding b := rfl
  rw [h3] at h1
  omega

theorem incr_spec (s : State) (c : Nat) :
    ∃ inf sat pan, incr s c = { s with inFlight := inf, sat := sat, panicked := pan } ∧
      inf.length = s.inFlight.length ∧
      (pan = false → sat = false → s.panicked = false ∧ s.sat = false ∧
        ∀ b, getN inf b = getN s.inFlight b + (if c = b then 1 else 0)) := by
  unfold incr
  split
  · exact ⟨s.inFlight, s.sat, true, rfl, rfl, by simp⟩
  · split
    · exact ⟨s.inFlight, true, s.panicked, rfl, rfl, by simp⟩
    · rename_i h1 h2
      refine ⟨setN s.inFlight c (getN s.inFlight c + 1), s.sat, s.panicked, rfl, by simp, ?_⟩
      intro hp hs
      refine ⟨hp, hs, fun b => ?_⟩
      rw [getN_setN]
      split
      · rename_i h; rw [if_pos h.1, h.1]
      · rename_i h
        have : ¬ c = b := fun hc => h ⟨hc, by omega⟩
        rw [if_neg this]; rfl

theorem incrAll_spec : ∀ (cs : List Nat) (s : State),
    ∃ inf sat pan, incrAll s cs = { s with inFlight := inf, sat := sat, panicked := pan } ∧
      inf.length = s.inFlight.length ∧
      (pan = false → sat = false → s.panicked = false ∧ s.sat = false ∧
        ∀ b, getN inf b = getN s.inFlight b + cnt b cs) := by
  intro cs
  induction cs with
  | nil => intro s; exact ⟨s.inFlight, s.sat, s.panicked, rfl, rfl, fun hp hs => ⟨hp, hs, by simp⟩⟩
  | cons c cs ih =>
    intro s
    obtain ⟨inf1, sat1, pan1, e1, l1, h1⟩ := incr_spec s c
    obtain ⟨inf2, sat2, pan2, e2, l2, h2⟩ := ih (incr s c)
    refine ⟨inf2, sat2, pan2, ?_, ?_, ?_⟩
    · show incrAll (incr s c) cs = _
      rw [e2, e1]
    · rw [l2, e1]; exact l1
    · intro hp hs
      obtain ⟨hp1, hs1, hb1⟩ := h2 hp hs
      rw [e1] at hp1 hs1 hb1
      obtain ⟨hp0, hs0, hb0⟩ := h1 hp1 hs1
      refine ⟨hp0, hs0, fun b => ?_⟩
      rw [hb1 b]; simp only []; rw [hb0 b]; simp; omega

theorem decr_spec (s : State) (c : Nat) :
    ∃ inf und pan, decr s c = { s with inFlight := inf, under := und, panicked := pan } ∧
      inf.length = s.inFlight.length ∧
      (pan = false → s.panicked = false ∧
        ∀ b, getN inf b = getN s.inFlight b - (if c = b then 1 else 0)) := by
  unfold decr
  split
  · exact ⟨s.inFlight, s.under, true, rfl, rfl, by simp⟩
  · split
    · rename_i h1 h2
      refine ⟨s.inFlight, true, s.panicked, rfl, rfl, fun hp => ⟨hp, fun b => ?_⟩⟩
      split
      · rename_i h; subst h; omega
      · rfl
    · rename_i h1 h2
      refine ⟨setN s.inFlight c (getN s.inFlight c - 1), s.under, s.panicked, rfl, by simp, ?_⟩
      intro hp
      refine ⟨hp, fun b => ?_⟩
      rw [getN_setN]
      split
      · rename_i h; rw [if_pos h.1, h.1]
      · rename_i h
        have : ¬ c = b := fun hc => h ⟨hc, by omega⟩
        rw [if_neg this]; rfl

theorem decrAll_spec : ∀ (cs : List Nat) (s : State),
    ∃ inf und pan, decrAll s cs = { s with inFlight := inf, under := und, panicked := pan } ∧
      inf.length = s.inFlight.length ∧
      (pan = false → s.panicked = false ∧
        ∀ b, getN inf b = getN s.inFlight b - cnt b cs) := by
  intro cs
  induction cs with
  | nil => intro s; exact ⟨s.inFlight, s.under, s.panicked, rfl, rfl, fun hp => ⟨hp, by simp⟩⟩
  | cons c cs ih =>
    intro s
    obtain ⟨inf1, und1, pan1, e1, l1, h1⟩ := decr_spec s c
    obtain ⟨inf2, und2, pan2, e2, l2, h2⟩ := ih (decr s c)
    refine ⟨inf2, und2, pan2, ?_, ?_, ?_⟩
    · show decrAll (decr s c) cs = _
      rw [e2, e1]
    · rw [l2, e1]; exact l1
    · intro hp
      obtain ⟨hp1, hb1⟩ := h2 hp
      rw [e1] at hp1 hb1
      obtain ⟨hp0, hb0⟩ := h1 hp1
      refine ⟨hp0, fun b => ?_⟩
      rw [hb1 b]; simp only []; rw [hb0 b]; simp; omega

end Storrent.Sched

namespace Storrent.Sched

/-! ### the invariant -/

structure WF (s : State) : Prop where
  valid : s.g.Valid
  len : s.inFlight.length = s.g.nchunks
  plen : s.pieces.length = s.g.npieces
  chunksOK : ∀ p ∈ s.peers, ∀ c, s.g.nchunks ≤ c → reqOwed c p.evq + p.outstanding c = 0
  writersOK : ∀ w ∈ s.writers, w.isOpen = true → w.offset + w.count ≤ s.g.pieceLength w.idx
  deadOK : ∀ p ∈ s.peers, p.alive = false → p.queue = [] ∧ p.requested = []

/-- conservation of the in-flight counters (as long as no `uint8` saturated and Go did not fault) -/
def Conserved (s : State) : Prop :=
  s.panicked = false → s.sat = false → ∀ b, b < s.g.nchunks → getN s.inFlight b = owed s b

def Inv (s : State) : Prop := WF s ∧ Conserved s

theorem mem_of_get {α : Type} (l : List α) (i : Nat) (x : α) (h : l[i]? = some x) : x ∈ l :=
  List.mem_of_getElem? h

theorem inv_commitPeer (s : State) (hI : Inv s) (i : Nat) (p0 : Peer) (h : s.peers[i]? = some p0)
    (evq : List PeerEv) (al : Bool) (p' : Peer) (evs : List TorEv) (pcs : List PieceSt)
    (hloc : ∀ b, reqOwed b evq + p'.outstanding b + covL s.g b evs = reqOwed b p0.evq + p0.outstanding b)
    (hdead : al = false → p'.queue = [] ∧ p'.requested = [])
    (hpcs : pcs.length = s.g.npieces) :
    Inv (commitPeer { s with pieces := pcs } i p0.overflow evq al p' evs) := by
  obtain ⟨hW, hC⟩ := hI
  have hp0 := mem_of_get _ _ _ h
  refine ⟨⟨hW.valid, hW.len, hpcs, ?_, hW.writersOK, ?_⟩, ?_⟩
  · intro p hp c hc
    rcases mem_setN _ _ _ _ hp with rfl | hp
    · have h1 := hloc c
      have h2 := hW.chunksOK p0 hp0 c hc
      show reqOwed c evq + p'.outstanding c = 0
      omega
    · exact hW.chunksOK p hp c hc
  · intro p hp ha
    rcases mem_setN _ _ _ _ hp with rfl | hp
    · exact hdead ha
    · exact hW.deadOK p hp ha
  · intro hp hs b hb
    have h1 := owed_commitPeer { s with pieces := pcs } i evq al p' evs p0 h b
    have h2 := hloc b
    have h3 := hC hp hs b hb
    have h4 : owed { s with pieces := pcs } b = owed s b := rfl
    show getN s.inFlight b = _
    simp only [] at h1
    omega

theorem any_ge_false (cs : List Nat) (n : Nat) (h : cs.any (fun c => decide (c ≥ n)) = false) :
    ∀ c, n ≤ c → cnt c cs = 0 := by
  induction cs with
  | nil => intro c _; rfl
  | cons x xs ih =>
    simp at h
    intro c hc
    have := ih (by simpa using h.2) c hc
    simp [this]; omega

@[simp] theorem reqOwed_nil (b : Nat) : reqOwed b [] = 0 := rfl
@[simp] theorem reqOwed_cons (b : Nat) (e : PeerEv) (es : List PeerEv) :
    reqOwed b (e :: es) = cnt b (reqChunks e) + reqOwed b es := rfl
@[simp] theorem reqOwed_append (b : Nat) (l m : List PeerEv) : reqOwed b (l ++ m) = reqOwed b l + reqOwed b m := by
  simp [reqOwed]

theorem reqOwed_flatMap (b : Nat) (l : List PeerEv) : cnt b (l.flatMap reqChunks) = reqOwed b l := by
  induction l with
  | nil => rfl
  | cons e es ih => simp [ih]

/-- replacing peer `i` by a peer with the same owed blocks changes nothing -/
theorem inv_setPeer (s : State) (hI : Inv s) (i : Nat) (p0 p1 : Peer) (h : s.peers[i]? = some p0)
    (hq : ∀ b, reqOwed b p1.evq + p1.outstanding b + covL s.g b p1.overflow
        = reqOwed b p0.evq + p0.outstanding b + covL s.g b p0.overflow)
    (hq2 : ∀ b, reqOwed b p1.evq + p1.outstanding b = reqOwed b p0.evq + p0.outstanding b)
    (hdead : p1.alive = false → p1.queue = [] ∧ p1.requested = []) :
    Inv { s with peers := setN s.peers i p1 } := by
  obtain ⟨hW, hC⟩ := hI
  have hp0 := mem_of_get _ _ _ h
  refine ⟨⟨hW.valid, hW.len, hW.plen, ?_, hW.writersOK, ?_⟩, ?_⟩
  · intro p hp c hc
    rcases mem_setN _ _ _ _ hp with rfl | hp
    · have := hW.chunksOK p0 hp0 c hc
      have := hq2 c
      omega
    · exact hW.chunksOK p hp c hc
  · intro p hp ha
    rcases mem_setN _ _ _ _ hp with rfl | hp
    · exact hdead ha
    · exact hW.deadOK p hp ha
  · intro hp hs b hb
    have h1 := sumL_setN (peerOwed s.g b) s.peers i p0 p1 h
    have h3 := hC hp hs b hb
    have := hq b
    simp only [peerOwed_def] at h1
    show getN s.inFlight b = _
    unfold owed at h3 ⊢
    simp only []
    omega

end Storrent.Sched

namespace Storrent.Sched

/-! ### the torrent's handlers -/

/-- two peer tables that owe the same blocks peer by peer -/
def SamePeers (g : Geom) (l l' : List Peer) : Prop :=
  (∀ b, sumL (peerOwed g b) l' = sumL (peerOwed g b) l) ∧
  (∀ p' ∈ l', ∃ p ∈ l, p'.queue = p.queue ∧ p'.requested = p.requested ∧ p'.alive = p.alive ∧
      ∀ b, reqOwed b p'.evq = reqOwed b p.evq)

theorem SamePeers.refl (g : Geom) (l : List Peer) : SamePeers g l l :=
  ⟨fun _ => rfl, fun p hp => ⟨p, hp, rfl, rfl, rfl, fun _ => rfl⟩⟩

theorem SamePeers.trans {g : Geom} {l1 l2 l3 : List Peer} (h1 : SamePeers g l1 l2) (h2 : SamePeers g l2 l3) :
    SamePeers g l1 l3 := by
  refine ⟨fun b => by rw [h2.1 b, h1.1 b], fun p3 hp3 => ?_⟩
  obtain ⟨p2, hp2, a1, a2, a3, a4⟩ := h2.2 p3 hp3
  obtain ⟨p1, hp1, b1, b2, b3, b4⟩ := h1.2 p2 hp2
  exact ⟨p1, hp1, by rw [a1, b1], by rw [a2, b2], by rw [a3, b3], fun b => by rw [a4, b4]⟩

theorem castCancel_same (g : Geom) (except : Option Nat) (c : Nat) :
    ∀ (l : List Peer) (i : Nat), SamePeers g l (castCancel except c i l) := by
  intro l
  induction l with
  | nil => intro i; exact SamePeers.refl g []
  | cons p ps ih =>
    intro i
    obtain ⟨h1, h2⟩ := ih (i+1)
    simp only [castCancel]
    refine ⟨fun b => ?_, fun p' hp' => ?_⟩
    · simp only [sumL_cons, h1 b]
      split
      · simp [peerOwed_def, reqChunks, outstanding_def]
      · rfl
    · rcases List.mem_cons.mp hp' with rfl | hp'
      · refine ⟨p, by simp, ?_⟩
        split
        · exact ⟨rfl, rfl, rfl, fun b => by simp [reqChunks]⟩
        · exact ⟨rfl, rfl, rfl, fun _ => rfl⟩
      · obtain ⟨q, hq, r⟩ := h2 p' hp'
        exact ⟨q, by simp [hq], r⟩

theorem dataLoop_spec (except : Option Nat) : ∀ (cs : List Nat) (s : State),
    ∃ inf und pan prs, dataLoop except cs s = { s with inFlight := inf, under := und, panicked := pan, peers := prs } ∧
      inf.length = s.inFlight.length ∧ SamePeers s.g s.peers prs ∧
      (pan = false → s.panicked = false ∧ ∀ b, getN inf b = getN s.inFlight b - cnt b cs) := by
  intro cs
  induction cs with
  | nil =>
    intro s
    exact ⟨s.inFlight, s.under, s.panicked, s.peers, rfl, rfl, SamePeers.refl _ _, fun hp => ⟨hp, by simp⟩⟩
  | cons c cs ih =>
    intro s
    obtain ⟨inf1, und1, pan1, e1, l1, h1⟩ := decr_spec s c
    simp only [dataLoop]
    rw [e1]
    simp only []
    split
    · obtain ⟨inf2, und2, pan2, prs2, e2, l2, sp2, h2⟩ := ih
        { s with inFlight := inf1, under := und1, panicked := pan1, peers := castCancel except c 0 s.peers }
      refine ⟨inf2, und2, pan2, prs2, ?_, ?_, ?_, ?_⟩
      · rw [e2]
      · rw [l2]; exact l1
      · exact (castCancel_same s.g except c s.peers 0).trans sp2
      · intro hp
        obtain ⟨hp1, hb1⟩ := h2 hp
        obtain ⟨hp0, hb0⟩ := h1 hp1
        refine ⟨hp0, fun b => ?_⟩
        rw [hb1 b]; simp only []; rw [hb0 b]; simp; omega
    · obtain ⟨inf2, und2, pan2, prs2, e2, l2, sp2, h2⟩ := ih
        { s with inFlight := inf1, under := und1, panicked := pan1 }
      refine ⟨inf2, und2, pan2, prs2, ?_, ?_, ?_, ?_⟩
      · rw [e2]
      · rw [l2]; exact l1
      · exact sp2
      · intro hp
        obtain ⟨hp1, hb1⟩ := h2 hp
        obtain ⟨hp0, hb0⟩ := h1 hp1
        refine ⟨hp0, fun b => ?_⟩
        rw [hb1 b]; simp only []; rw [hb0 b]; simp; omega

theorem noteAvail_spec (s : State) (i : Nat) (hv : Bool) :
    ∃ av sat au, noteAvail s i hv = { s with avail := av, sat := sat, aunder := au } ∧
      (sat = false → s.sat = false) := by
  unfold noteAvail
  simp only []
  generalize (if s.avail.length ≤ i then s.avail ++ List.replicate (i + 1 - s.avail.length) 0 else s.avail) = av
  cases hv with
  | true =>
    simp only [if_true]
    split
    · exact ⟨_, true, s.aunder, rfl, by simp⟩
    · exact ⟨_, s.sat, s.aunder, rfl, id⟩
  | false =>
    simp only [Bool.false_eq_true, if_false]
    split
    · exact ⟨_, s.sat, true, rfl, id⟩
    · exact ⟨_, s.sat, s.aunder, rfl, id⟩

theorem noteAvailAll_spec (hv : Bool) : ∀ (bits : List Nat) (s : State),
    ∃ av sat au, bits.foldl (fun s i => noteAvail s i hv) s = { s with avail := av, sat := sat, aunder := au } ∧
      (sat = false → s.sat = false) := by
  intro bits
  induction bits with
  | nil => intro s; exact ⟨s.avail, s.sat, s.aunder, rfl, id⟩
  | cons i is ih =>
    intro s
    obtain ⟨av1, sat1, au1, e1, h1⟩ := noteAvail_spec s i hv
    obtain ⟨av2, sat2, au2, e2, h2⟩ := ih (noteAvail s i hv)
    refine ⟨av2, sat2, au2, ?_, ?_⟩
    · simp only [List.foldl_cons]; rw [e2, e1]
    · intro h; have := h2 h; rw [e1] at this; exact h1 this

end Storrent.Sched

namespace Storrent.Sched

/-! ### web-seed writer arithmetic -/

theorem covRange_split {g : Geom} (hg : g.Valid) (b idx offset count a : Nat)
    (h0 : offset % 16384 = 0) (ha : 0 < a) (hac : a ≤ count)
    (hpl : offset + count ≤ g.pieceLength idx)
    (hcase : a % 16384 = 0 ∨ offset + a = g.pieceLength idx) :
    cnt b (covRange g idx offset count)
      = cnt b (covRange g idx offset a) + cnt b (covRange g idx (u32 (offset + a)) (count - a)) := by
  have hps := pieceLength_le hg idx
  have hlt := hg.ps_lt
  have e1 : u32 (offset + a) = offset + a := u32_of_lt (by omega)
  have e2 : u32 (offset + count) = offset + count := u32_of_lt (by omega)
  have e3 : u32 (offset + a + (count - a)) = offset + count := by
    have : offset + a + (count - a) = offset + count := by omega
    rw [this]; exact e2
  rw [e1]
  unfold covRange
  rw [e1, e2, e3]
  unfold CS
  rw [if_neg (by omega), if_neg (by omega), if_neg (by omega), if_neg (by omega)]
  by_cases hmod : a % 16384 = 0
  · rw [if_neg (by omega), if_neg (by omega)]
    simp only [cnt_chunksFrom]
    generalize idx * g.cpp = base
    split <;> split <;> split <;> omega
  · have hcnt : count = a := by omega
    subst hcnt
    have : (count - count + 16384 - 1) / 16384 = 0 := by omega
    split
    · simp
    · split
      · simp
      · rw [this, chunksFrom_zero]; simp

theorem wsChunks_cov {g : Geom} (hg : g.Valid) (idx o l : Nat) (hi : idx < g.npieces)
    (h0 : o % 16384 = 0) (hpl : o + l ≤ g.pieceLength idx) :
    wsChunks g idx o l = covRange g idx o l := by
  have hps := pieceLength_le hg idx
  have hlt := hg.ps_lt
  have hcm := hg.cpp_mul
  have h2 : g.npieces * g.cpp < 4294967296 := hg.2.2.2.2
  have h3 : (idx + 1) * g.cpp ≤ g.npieces * g.cpp := Nat.mul_le_mul_right _ hi
  have h5 : (idx + 1) * g.cpp = idx * g.cpp + g.cpp := by rw [Nat.add_mul]; simp
  unfold covRange wsChunks
  have e2 : u32 (o + l) = o + l := u32_of_lt (by omega)
  rw [e2]
  unfold CS
  rw [if_neg (by omega), if_neg (by omega)]
  unfold chunksFrom
  apply List.map_congr_left
  intro k hk
  have hk' : k < (l + 16384 - 1) / 16384 := by simpa using hk
  have e4 : u32 (o + k * 16384) = o + k * 16384 := u32_of_lt (by omega)
  rw [e4]
  have e5 : (o + k * 16384) / 16384 = o / 16384 + k := by omega
  rw [e5]
  have : idx * g.cpp + (o / 16384 + k) < 4294967296 := by omega
  rw [u32_of_lt this]
  omega

end Storrent.Sched

namespace Storrent.Sched

/-! ### every step preserves the invariant -/

theorem owed_setPeer (s : State) (i : Nat) (p0 p1 : Peer) (h : s.peers[i]? = some p0) (b : Nat) :
    owed { s with peers := setN s.peers i p1 } b + peerOwed s.g b p0 = owed s b + peerOwed s.g b p1 := by
  have h1 := sumL_setN (peerOwed s.g b) s.peers i p0 p1 h
  unfold owed
  simp only []
  omega

theorem inv_connect (s : State) (hI : Inv s) (p : Peer)
    (hp : p.queue = [] ∧ p.requested = [] ∧ p.evq = [] ∧ p.overflow = []) :
    Inv { s with peers := s.peers ++ [p] } := by
  obtain ⟨hW, hC⟩ := hI
  obtain ⟨h1, h2, h3, h4⟩ := hp
  have hz : ∀ b, peerOwed s.g b p = 0 := by
    intro b; simp [peerOwed_def, outstanding_def, h1, h2, h3, h4]
  refine ⟨⟨hW.valid, hW.len, hW.plen, ?_, hW.writersOK, ?_⟩, ?_⟩
  · intro q hq c hc
    rcases List.mem_append.mp hq with hq | hq
    · exact hW.chunksOK q hq c hc
    · simp at hq; subst hq; simp [outstanding_def, h1, h2, h3]
  · intro q hq ha
    rcases List.mem_append.mp hq with hq | hq
    · exact hW.deadOK q hq ha
    · simp at hq; subst hq; exact ⟨h1, h2⟩
  · intro hp hs b hb
    have := hC hp hs b hb
    show getN s.inFlight b = _
    unfold owed at this ⊢
    simp only [sumL_append, sumL_cons, sumL_nil, hz b]
    omega

theorem inv_request (s : State) (hI : Inv s) (i : Nat) (p : Peer) (h : s.peers[i]? = some p)
    (cs : List Nat) (hcs : cs.any (fun c => decide (c ≥ s.g.nchunks)) = false) :
    Inv (incrAll { s with peers := setN s.peers i { p with evq := p.evq ++ [.request cs] } } cs) := by
  obtain ⟨hW, hC⟩ := hI
  have hp0 := mem_of_get _ _ _ h
  have hz := any_ge_false cs _ hcs
  obtain ⟨inf, sat, pan, e, l, hsp⟩ := incrAll_spec cs
    { s with peers := setN s.peers i { p with evq := p.evq ++ [.request cs] } }
  rw [e]
  refine ⟨⟨hW.valid, by rw [← hW.len]; exact l, hW.plen, ?_, hW.writersOK, ?_⟩, ?_⟩
  · intro q hq c hc
    rcases mem_setN _ _ _ _ hq with rfl | hq
    · have := hW.chunksOK p hp0 c hc
      have := hz c hc
      simp [reqChunks, outstanding_def] at *
      omega
    · exact hW.chunksOK q hq c hc
  · intro q hq ha
    rcases mem_setN _ _ _ _ hq with rfl | hq
    · exact hW.deadOK p hp0 ha
    · exact hW.deadOK q hq ha
  · intro hp hs b hb
    obtain ⟨hp0', hs0, hb0⟩ := hsp hp hs
    have h1 := hC hp0' hs0 b hb
    have h2 := owed_setPeer s i p { p with evq := p.evq ++ [.request cs] } h b
    have h3 := hb0 b
    simp only [peerOwed_def, reqOwed_append, reqOwed_cons, reqOwed_nil, reqChunks] at h2
    have h4 : ({ p with evq := p.evq ++ [PeerEv.request cs] } : Peer).outstanding b = p.outstanding b := rfl
    rw [h4] at h2
    show getN inf b = owed { s with peers := setN s.peers i { p with evq := p.evq ++ [.request cs] } } b
    simp only [] at h3 h2
    omega

theorem inv_flags (s : State) (hI : Inv s) (bl : Bool) (pcs : List PieceSt) (hpcs : pcs.length = s.g.npieces) :
    Inv { s with blocked := bl, pieces := pcs } := by
  obtain ⟨hW, hC⟩ := hI
  exact ⟨⟨hW.valid, hW.len, hpcs, hW.chunksOK, hW.writersOK, hW.deadOK⟩, hC⟩

theorem inv_panicked (s : State) (hI : Inv s) : Inv { s with panicked := true } := by
  obtain ⟨hW, _⟩ := hI
  exact ⟨⟨hW.valid, hW.len, hW.plen, hW.chunksOK, hW.writersOK, hW.deadOK⟩, fun h => by simp at h⟩

end Storrent.Sched

namespace Storrent.Sched

theorem owed_pop (s : State) (e : TorEv) (rest : List TorEv) (h : s.tEvent = e :: rest) (b : Nat) :
    owed s b = owed { s with tEvent := rest } b + cnt b (cov s.g e) := by
  unfold owed
  simp only [h, covL_cons]
  omega

theorem inv_pop_nocov (s : State) (hI : Inv s) (e : TorEv) (rest : List TorEv) (h : s.tEvent = e :: rest)
    (hc : cov s.g e = []) : Inv { s with tEvent := rest } := by
  obtain ⟨hW, hC⟩ := hI
  refine ⟨⟨hW.valid, hW.len, hW.plen, hW.chunksOK, hW.writersOK, hW.deadOK⟩, ?_⟩
  intro hp hs b hb
  have := hC hp hs b hb
  have h2 := owed_pop s e rest h b
  rw [hc] at h2
  show getN s.inFlight b = _
  simp at h2; omega

theorem inv_handleTorEv (s : State) (hI : Inv s) (e : TorEv) (rest : List TorEv) (h : s.tEvent = e :: rest)
    (hb : (handleTorEv { s with tEvent := rest } e).blocked = false) :
    Inv (handleTorEv { s with tEvent := rest } e) := by
  obtain ⟨hW, hC⟩ := hI
  cases e with
  | data src idx begin len c =>
    simp only [handleTorEv] at hb ⊢
    split
    · rename_i hn; rw [if_pos hn] at hb; simp at hb
    · obtain ⟨inf, und, pan, prs, e1, l1, sp, hsp⟩ :=
        dataLoop_spec src (covRange s.g idx begin len) { s with tEvent := rest }
      rw [e1]
      refine ⟨⟨hW.valid, by rw [← hW.len]; exact l1, hW.plen, ?_, hW.writersOK, ?_⟩, ?_⟩
      · intro p' hp' c hc
        obtain ⟨p, hp, a1, a2, _, a4⟩ := sp.2 p' hp'
        have := hW.chunksOK p hp c hc
        simp only [outstanding_def] at this ⊢
        rw [a1, a2, a4 c]; exact this
      · intro p' hp' ha
        obtain ⟨p, hp, a1, a2, a3, _⟩ := sp.2 p' hp'
        rw [a1, a2]; exact hW.deadOK p hp (by rw [← a3]; exact ha)
      · intro hp hs b hbb
        obtain ⟨hp0, hb0⟩ := hsp hp
        have h1 := hC hp0 hs b hbb
        have h2 : owed s b = (sumL (peerOwed s.g b) s.peers + covL s.g b rest
            + sumL (fun w => cnt b (w.reserved s.g)) s.writers) + cnt b (covRange s.g idx begin len) :=
          owed_pop s _ rest h b
        have h3 : getN inf b = getN s.inFlight b - cnt b (covRange s.g idx begin len) := hb0 b
        have h4 : sumL (peerOwed s.g b) prs = sumL (peerOwed s.g b) s.peers := sp.1 b
        show getN inf b = sumL (peerOwed s.g b) prs + covL s.g b rest
            + sumL (fun w => cnt b (w.reserved s.g)) s.writers
        omega
  | drop idx begin len =>
    simp only [handleTorEv]
    obtain ⟨inf, und, pan, e1, l1, hsp⟩ := decrAll_spec (covRange s.g idx begin len) { s with tEvent := rest }
    rw [e1]
    refine ⟨⟨hW.valid, by rw [← hW.len]; exact l1, hW.plen, hW.chunksOK, hW.writersOK, hW.deadOK⟩, ?_⟩
    intro hp hs b hbb
    obtain ⟨hp0, hb0⟩ := hsp hp
    have h1 := hC hp0 hs b hbb
    have h2 := owed_pop s _ rest h b
    have h3 := hb0 b
    simp only [cov] at h2
    show getN inf b = owed { s with tEvent := rest } b
    simp only [] at h3
    omega
  | bitmap p bits hv =>
    simp only [handleTorEv]
    obtain ⟨av, sat, au, e1, hs1⟩ := noteAvailAll_spec hv bits { s with tEvent := rest }
    rw [e1]
    have := inv_pop_nocov s ⟨hW, hC⟩ _ rest h rfl
    obtain ⟨hW', hC'⟩ := this
    exact ⟨⟨hW'.valid, hW'.len, hW'.plen, hW'.chunksOK, hW'.writersOK, hW'.deadOK⟩,
      fun hp hs => hC' hp (hs1 hs)⟩
  | phave p idx hv =>
    simp only [handleTorEv]
    obtain ⟨av, sat, au, e1, hs1⟩ := noteAvail_spec { s with tEvent := rest } idx hv
    rw [e1]
    have := inv_pop_nocov s ⟨hW, hC⟩ _ rest h rfl
    obtain ⟨hW', hC'⟩ := this
    exact ⟨⟨hW'.valid, hW'.len, hW'.plen, hW'.chunksOK, hW'.writersOK, hW'.deadOK⟩,
      fun hp hs => hC' hp (hs1 hs)⟩
  | unchoke p b => exact inv_pop_nocov s ⟨hW, hC⟩ _ rest h rfl
  | goaway p =>
    have hI0 := inv_pop_nocov s ⟨hW, hC⟩ _ rest h rfl
    simp only [handleTorEv]
    split
    · exact hI0
    · rename_i pr hpr
      split
      · exact hI0
      · obtain ⟨hW0, hC0⟩ := hI0
        have hpr' : s.peers[p]? = some pr := hpr
        have hp0 := mem_of_get _ _ _ hpr'
        obtain ⟨inf, und, pan, e1, l1, hsp⟩ := decrAll_spec (pr.evq.flatMap reqChunks)
          { s with tEvent := rest, peers := setN s.peers p { pr with present := false, evq := [] } }
        rw [e1]
        refine ⟨⟨hW.valid, by rw [← hW.len]; exact l1, hW.plen, ?_, hW.writersOK, ?_⟩, ?_⟩
        · intro q hq c hc
          rcases mem_setN _ _ _ _ hq with rfl | hq
          · have := hW.chunksOK pr hp0 c hc
            simp [outstanding_def] at this ⊢; omega
          · exact hW.chunksOK q hq c hc
        · intro q hq ha
          rcases mem_setN _ _ _ _ hq with rfl | hq
          · exact hW.deadOK pr hp0 ha
          · exact hW.deadOK q hq ha
        · intro hp hs b hbb
          obtain ⟨hp0', hb0⟩ := hsp hp
          have h1 := hC0 hp0' hs b hbb
          have h2 := owed_setPeer { s with tEvent := rest } p pr { pr with present := false, evq := [] } hpr b
          have h3 := hb0 b
          rw [reqOwed_flatMap] at h3
          simp only [peerOwed_def, reqOwed_nil] at h2
          have h4 : ({ pr with present := false, evq := [] } : Peer).outstanding b = pr.outstanding b := rfl
          rw [h4] at h2
          show getN inf b = owed { s with tEvent := rest, peers := setN s.peers p { pr with present := false, evq := [] } } b
          simp only [] at h1 h2 h3
          omega

end Storrent.Sched

namespace Storrent.Sched

theorem owed_setWriter (s : State) (j : Nat) (w0 w1 : Writer) (h : s.writers[j]? = some w0) (b : Nat) :
    owed { s with writers := setN s.writers j w1 } b + cnt b (w0.reserved s.g)
      = owed s b + cnt b (w1.reserved s.g) := by
  have h1 := sumL_setN (fun w => cnt b (w.reserved s.g)) s.writers j w0 w1 h
  unfold owed
  simp only [] at h1 ⊢
  omega

theorem covRange_zero (g : Geom) (b idx off : Nat) : cnt b (covRange g idx off 0) = 0 := by
  unfold covRange
  split
  · rfl
  · split
    · rfl
    · have : (0 + CS - 1) / CS = 0 := by unfold CS; omega
      rw [this, chunksFrom_zero]; rfl

/-- a writer entry is replaced, an event is appended to `t.Event`, pieces change -/
theorem inv_writer (s : State) (hI : Inv s) (j : Nat) (w0 w1 : Writer) (h : s.writers[j]? = some w0)
    (evs : List TorEv) (pcs : List PieceSt) (hpcs : pcs.length = s.g.npieces)
    (hw1 : w1.isOpen = true → w1.offset + w1.count ≤ s.g.pieceLength w1.idx)
    (hcov : ∀ b, cnt b (w1.reserved s.g) + covL s.g b evs = cnt b (w0.reserved s.g)) :
    Inv { s with pieces := pcs, tEvent := s.tEvent ++ evs, writers := setN s.writers j w1 } := by
  obtain ⟨hW, hC⟩ := hI
  refine ⟨⟨hW.valid, hW.len, hpcs, hW.chunksOK, ?_, hW.deadOK⟩, ?_⟩
  · intro w hw ho
    rcases mem_setN _ _ _ _ hw with rfl | hw
    · exact hw1 ho
    · exact hW.writersOK w hw ho
  · intro hp hs b hb
    have h1 := hC hp hs b hb
    have h2 := sumL_setN (fun w => cnt b (w.reserved s.g)) s.writers j w0 w1 h
    have h3 := hcov b
    show getN s.inFlight b = _
    unfold owed at h1 ⊢
    simp only [covL_append] at h1 h2 ⊢
    omega

theorem length_pieces_setN (s : State) (hW : WF s) (i : Nat) (pc : PieceSt) :
    (setN s.pieces i pc).length = s.g.npieces := by
  rw [length_setN]; exact hW.plen

theorem lt_of_get {α : Type} (l : List α) (i : Nat) (x : α) (h : l[i]? = some x) : i < l.length := by
  rcases Nat.lt_or_ge i l.length with h1 | h1
  · exact h1
  · rw [List.getElem?_eq_none h1] at h; cases h

/-! ### a PeerRequest is consumed only by a peer that knows the metadata -/

/-- no PeerRequest precedes the PeerMetadataComplete in the command channel of a peer without Info -/
def safeQ : Bool → List PeerEv → Prop
  | true, _ => True
  | false, [] => True
  | false, e :: rest =>
    match e with
    | .metadata => True
    | .request _ => False
    | _ => safeQ false rest

def metaReady (h : Bool) (q : List PeerEv) : Prop := h = true ∨ PeerEv.metadata ∈ q

structure MInv (s : State) : Prop where
  safe : ∀ p ∈ s.peers, p.alive = true → safeQ p.hasInfo p.evq
  ready : s.hasMeta = true → ∀ p ∈ s.peers, p.alive = true → p.present = true → metaReady p.hasInfo p.evq

theorem safeQ_request (h : Bool) (cs : List Nat) (rest : List PeerEv) (hs : safeQ h (.request cs :: rest)) :
    h = true := by
  cases h with
  | true => rfl
  | false => exact absurd hs (by simp [safeQ])

theorem castMeta_same (g : Geom) : ∀ (l : List Peer), SamePeers g l (castMeta l) := by
  intro l
  induction l with
  | nil => exact SamePeers.refl g []
  | cons p ps ih =>
    obtain ⟨h1, h2⟩ := ih
    have e : castMeta (p :: ps) = (if p.present && p.alive then { p with evq := p.evq ++ [.metadata] } else p)
        :: castMeta ps := rfl
    rw [e]
    refine ⟨fun b => ?_, fun p' hp' => ?_⟩
    · simp only [sumL_cons, h1 b]
      split
      · simp [peerOwed_def, reqChunks, outstanding_def]
      · rfl
    · rcases List.mem_cons.mp hp' with rfl | hp'
      · refine ⟨p, by simp, ?_⟩
        split
        · exact ⟨rfl, rfl, rfl, fun b => by simp [reqChunks]⟩
        · exact ⟨rfl, rfl, rfl, fun _ => rfl⟩
      · obtain ⟨q, hq, r⟩ := h2 p' hp'
        exact ⟨q, by simp [hq], r⟩

theorem inv_samePeers (s : State) (hI : Inv s) (prs : List Peer) (sp : SamePeers s.g s.peers prs) (m : Bool) :
    Inv { s with hasMeta := m, peers := prs } := by
  obtain ⟨hW, hC⟩ := hI
  refine ⟨⟨hW.valid, hW.len, hW.plen, ?_, hW.writersOK, ?_⟩, ?_⟩
  · intro p' hp' c hc
    obtain ⟨p, hp, a1, a2, _, a4⟩ := sp.2 p' hp'
    have := hW.chunksOK p hp c hc
    simp only [outstanding_def] at this ⊢
    rw [a1, a2, a4 c]; exact this
  · intro p' hp' ha
    obtain ⟨p, hp, a1, a2, a3, _⟩ := sp.2 p' hp'
    rw [a1, a2]; exact hW.deadOK p hp (by rw [← a3]; exact ha)
  · intro hp hs b hbb
    have h1 := hC hp hs b hbb
    have h4 : sumL (peerOwed s.g b) prs = sumL (peerOwed s.g b) s.peers := sp.1 b
    show getN s.inFlight b = sumL (peerOwed s.g b) prs + covL s.g b s.tEvent
        + sumL (fun w => cnt b (w.reserved s.g)) s.writers
    unfold owed at h1
    omega

theorem step_inv (s : State) (op : Op) (hI : Inv s) (hM : MInv s) : Inv (step s op).1 := by
  have hW := hI.1
  have hg := hW.valid
  unfold step
  split
  · exact hI
  · cases op with
    | connect fast evcap wcap => exact inv_connect s hI _ ⟨rfl, rfl, rfl, rfl⟩
    | request i cs ad =>
      simp only []
      split
      · exact hI
      · rename_i p hp
        split
        · exact hI
        · split
          · exact hI
          · rename_i hcs
            split
            · exact hI
            · split
              · exact hI
              · exact inv_request s hI i p hp cs (by simp at hcs ⊢; exact hcs.2)
    | push i e =>
      simp only []
      split
      · exact hI
      · rename_i p hp
        split
        · exact hI
        · split
          · exact hI
          · cases e with
            | request cs => exact hI
            | cancel c =>
              exact inv_setPeer s hI i p _ hp (fun b => by simp [reqChunks, outstanding_def])
                (fun b => by simp [reqChunks, outstanding_def]) (hW.deadOK p (mem_of_get _ _ _ hp))
            | cancelPiece c =>
              exact inv_setPeer s hI i p _ hp (fun b => by simp [reqChunks, outstanding_def])
                (fun b => by simp [reqChunks, outstanding_def]) (hW.deadOK p (mem_of_get _ _ _ hp))
            | done =>
              exact inv_setPeer s hI i p _ hp (fun b => by simp [reqChunks, outstanding_def])
                (fun b => by simp [reqChunks, outstanding_def]) (hW.deadOK p (mem_of_get _ _ _ hp))
            | metadata =>
              exact inv_setPeer s hI i p _ hp (fun b => by simp [reqChunks, outstanding_def])
                (fun b => by simp [reqChunks, outstanding_def]) (hW.deadOK p (mem_of_get _ _ _ hp))
    | peerEvent i slow =>
      simp only []
      split
      · exact hI
      · rename_i p hp
        split
        · exact hI
        · split
          · exact hI
          · rename_i ha _ e rest he
            have hreq : ∀ cs, e = .request cs → ({ p with evq := rest } : Peer).hasInfo = true := by
              intro cs hcs
              have := hM.safe p (mem_of_get _ _ _ hp) (by simpa using ha)
              rw [he, hcs] at this
              exact safeQ_request _ cs rest this
            refine inv_commitPeer s hI i p hp rest true _ _ s.pieces ?_ (by simp) hW.plen
            intro b
            have := handlePeerEv_loc hg b i { p with evq := rest } e slow hreq
            have h2 : ({ p with evq := rest } : Peer).outstanding b = p.outstanding b := rfl
            rw [h2] at this
            rw [he]; simp only [reqOwed_cons]; omega
    | peerMsg i m slow =>
      simp only []
      split
      · exact hI
      · rename_i p hp
        split
        · exact hI
        · have hOK : ∀ c, s.g.nchunks ≤ c → p.outstanding c = 0 := by
            intro c hc
            have := hW.chunksOK p (mem_of_get _ _ _ hp) c hc
            omega
          refine inv_commitPeer s hI i p hp p.evq true _ _ _ ?_ (by simp) ?_
          · intro b
            have := handleMsg_loc hg b s.pieces i p m slow hOK
            omega
          · -- the piece table keeps its length
            cases m <;> simp only [handleMsg] <;> (repeat' split) <;>
              first | exact hW.plen | (rw [length_setN]; exact hW.plen)
    | tick i rto slow =>
      simp only []
      split
      · exact hI
      · rename_i p hp
        split
        · exact hI
        · split
          · exact hI
          · generalize (min rto 5000 + (if p.canFast then 2000 else 0)) = to
            refine inv_commitPeer s hI i p hp p.evq true _ _ s.pieces ?_ (by simp) hW.plen
            intro b
            have h1 := expireLoop_loc hg b to (p.requested.length + 1) 0 p [] false
            split
            · have h2 := maybeRequest_loc hg slow b
                (expireLoop s.g to (p.requested.length + 1) 0 p [] false).1
                (expireLoop s.g to (p.requested.length + 1) 0 p [] false).2.1
              simp only [covL_nil] at h1
              omega
            · simp only [covL_nil] at h1
              dsimp only
              omega
    | age i d =>
      simp only []
      split
      · exact hI
      · rename_i p hp
        have hm : ∀ b, cntR b (p.requested.map (fun (r : Req) =>
            { r with rage := r.rage + d, cage := if r.canc then r.cage + d else r.cage })) = cntR b p.requested :=
          fun b => cntR_map_chunk b _ _ (fun _ => rfl)
        refine inv_setPeer s hI i p _ hp (fun b => ?_) (fun b => ?_) ?_
        · simp only [outstanding_def]; rw [hm b]
        · simp only [outstanding_def]; rw [hm b]
        · intro ha
          obtain ⟨h1, h2⟩ := hW.deadOK p (mem_of_get _ _ _ hp) ha
          exact ⟨h1, by simp [h2]⟩
    | exit i =>
      simp only []
      split
      · exact hI
      · rename_i p hp
        split
        · exact hI
        · refine inv_commitPeer s hI i p hp p.evq false _ _ s.pieces ?_ (fun _ => ⟨rfl, rfl⟩) hW.plen
          intro b
          rw [exitEvents_cov hg]
          simp [outstanding_def]
    | flush i =>
      simp only []
      split
      · exact hI
      · rename_i p hp
        obtain ⟨hW, hC⟩ := hI
        have hp0 := mem_of_get _ _ _ hp
        refine ⟨⟨hW.valid, hW.len, hW.plen, ?_, hW.writersOK, ?_⟩, ?_⟩
        · intro q hq c hc
          rcases mem_setN _ _ _ _ hq with rfl | hq
          · exact hW.chunksOK p hp0 c hc
          · exact hW.chunksOK q hq c hc
        · intro q hq ha
          rcases mem_setN _ _ _ _ hq with rfl | hq
          · exact hW.deadOK p hp0 ha
          · exact hW.deadOK q hq ha
        · intro hpn hs b hb
          have h1 := hC hpn hs b hb
          have h2 := flushLoop_cov s.g b s.tcap (p.overflow.length + 1) s.tEvent p.overflow
          have h3 := sumL_setN (peerOwed s.g b) s.peers i p
            { p with overflow := (flushLoop s.tcap (p.overflow.length + 1) s.tEvent p.overflow).2 } hp
          simp only [peerOwed_def] at h3
          have h4 : ({ p with overflow := (flushLoop s.tcap (p.overflow.length + 1) s.tEvent p.overflow).2 } : Peer).outstanding b
              = p.outstanding b := rfl
          rw [h4] at h3
          show getN s.inFlight b = _
          unfold owed at h1 ⊢
          simp only [] at h3 ⊢
          omega
    | torEvent =>
      simp only []
      split
      · exact hI
      · rename_i e rest he
        split
        · exact inv_flags s hI true s.pieces hW.plen
        · rename_i hb
          exact inv_handleTorEv s hI e rest he (by simpa using hb)
    | wdrain i =>
      simp only []
      split
      · exact hI
      · rename_i p hp
        exact inv_setPeer s hI i p _ hp (fun _ => rfl) (fun _ => rfl) (hW.deadOK p (mem_of_get _ _ _ hp))
    | wfill i k =>
      simp only []
      split
      · exact hI
      · rename_i p hp
        split
        · exact hI
        · exact inv_setPeer s hI i p _ hp (fun _ => rfl) (fun _ => rfl) (hW.deadOK p (mem_of_get _ _ _ hp))
    | wsReserve idx =>
      simp only []
      split
      · exact hI
      · rename_i pc hpc
        split
        · exact hI
        · rename_i o l0 hws
          generalize (if l0 > 1048576 then 1048576 else l0) = l
          split
          · exact inv_panicked s hI
          · rename_i hchk
            obtain ⟨hW, hC⟩ := hI
            have hpc' : s.pieces[idx]? = some pc := by
              split at hpc
              · exact hpc
              · cases hpc
            have hidx : idx < s.g.npieces := by rw [← hW.plen]; exact lt_of_get _ _ _ hpc'
            have h0 : o % 16384 = 0 := by
              unfold CS at hchk; omega
            have hpl : o + l ≤ s.g.pieceLength idx := by omega
            have hcv := wsChunks_cov hg idx o l hidx h0 hpl
            obtain ⟨inf, sat, pan, e, ll, hsp⟩ := incrAll_spec (wsChunks s.g idx o l) s
            rw [e]
            refine ⟨⟨hW.valid, by rw [← hW.len]; exact ll, hW.plen, hW.chunksOK, ?_, hW.deadOK⟩, ?_⟩
            · intro w hw ho
              rcases List.mem_append.mp hw with hw | hw
              · exact hW.writersOK w hw ho
              · simp at hw; subst hw; exact hpl
            · intro hp hs b hb
              obtain ⟨hp0, hs0, hb0⟩ := hsp hp hs
              have h1 := hC hp0 hs0 b hb
              have h2 := hb0 b
              rw [hcv] at h2
              show getN inf b = _
              unfold owed at h1 ⊢
              simp only [sumL_append, sumL_cons, sumL_nil, Writer.reserved] at h1 ⊢
              simp only [if_true]
              omega
    | wWrite w n =>
      simp only []
      split
      · exact hI
      · rename_i wr hwr
        split
        · exact hI
        · split
          · exact hI
          · rename_i hopen hbuf
            split
            · exact inv_panicked s hI
            · rename_i pc hpc
              have hopen' : wr.isOpen = true := by simpa using hopen
              have hwOK := hW.writersOK wr (mem_of_get _ _ _ hwr) hopen'
              have hsp := addData_spec s.g pc wr.idx wr.offset (wr.buflen + min n (wr.count - wr.buflen))
              simp only [] at hsp
              split
              · rename_i hpos
                obtain ⟨hle, hrest⟩ := hsp
                obtain ⟨hal, hfit, hcase⟩ := hrest hpos
                have hps := pieceLength_le hg wr.idx
                have hlt := hg.ps_lt
                have hcount : (addData s.g pc wr.idx wr.offset (wr.buflen + min n (wr.count - wr.buflen))).1 ≤ wr.count := by
                  omega
                split
                · exact inv_flags s hI true s.pieces hW.plen
                · refine inv_writer s hI w wr _ hwr [_] _ (length_pieces_setN s hW _ _) ?_ ?_
                  · intro _
                    have : u32 (wr.offset + (addData s.g pc wr.idx wr.offset (wr.buflen + min n (wr.count - wr.buflen))).1)
                        = wr.offset + (addData s.g pc wr.idx wr.offset (wr.buflen + min n (wr.count - wr.buflen))).1 :=
                      u32_of_lt (by omega)
                    dsimp only
                    rw [this]; omega
                  · intro b
                    have := covRange_split hg b wr.idx wr.offset wr.count _ hal hpos hcount hwOK hcase
                    simp only [Writer.reserved, hopen', if_true, covL_cons, covL_nil, cov]
                    omega
              · have := inv_writer s hI w wr
                  { wr with buflen := wr.buflen + min n (wr.count - wr.buflen) } hwr []
                  (setN s.pieces wr.idx (addData s.g pc wr.idx wr.offset (wr.buflen + min n (wr.count - wr.buflen))).2.2)
                  (length_pieces_setN s hW _ _) (fun _ => hwOK)
                  (by intro b; simp [Writer.reserved, hopen'])
                simpa using this
    | wClose w =>
      simp only []
      split
      · exact hI
      · rename_i wr hwr
        split
        · exact hI
        · rename_i hopen
          have hopen' : wr.isOpen = true := by simpa using hopen
          split
          · split
            · exact inv_flags s hI true s.pieces hW.plen
            · refine inv_writer s hI w wr _ hwr [_] s.pieces hW.plen ?_ ?_
              · intro h; simp at h
              · intro b; simp [Writer.reserved, hopen', cov]
          · rename_i hc0
            have hc : wr.count = 0 := by omega
            have := inv_writer s hI w wr { wr with isOpen := false } hwr [] s.pieces hW.plen
              (by intro h; simp at h)
              (by intro b; simp [Writer.reserved, hopen', hc, covRange_zero])
            simpa using this
    | finalise idx =>
      simp only []
      split
      · exact hI
      · split
        · exact inv_flags s hI s.blocked _ (length_pieces_setN s hW _ _)
        · exact hI
    | metaComplete =>
      simp only []
      split
      · exact hI
      · split
        · exact inv_flags s hI true s.pieces hW.plen
        · exact inv_samePeers s hI _ (castMeta_same s.g s.peers) true

end Storrent.Sched

namespace Storrent.Sched

theorem init_inv (g : Geom) (hg : g.Valid) (tcap : Nat) : Inv (init g tcap) := by
  refine ⟨⟨hg, by simp [init], by simp [init], ?_, ?_, ?_⟩, ?_⟩
  · intro p hp; simp [init] at hp
  · intro w hw; simp [init] at hw
  · intro p hp; simp [init] at hp
  · intro _ _ b hb
    have : ∀ (n b : Nat), getN (List.replicate n 0) b = 0 := by
      intro n
      induction n with
      | zero => intro b; cases b <;> rfl
      | succ n ih =>
        intro b
        cases b with
        | zero => rfl
        | succ b => simp [List.replicate_succ, getN, ih]
    simp [init, owed, this]

/- (`run_inv` is in Lemmas/SchedMeta.lean, together with the invariant `MInv` it needs) -/

end Storrent.Sched

namespace Storrent.Sched

theorem incrAll_g (s : State) (cs : List Nat) : (incrAll s cs).g = s.g := by
  obtain ⟨_, _, _, e, _, _⟩ := incrAll_spec cs s; rw [e]
theorem decrAll_g (s : State) (cs : List Nat) : (decrAll s cs).g = s.g := by
  obtain ⟨_, _, _, e, _, _⟩ := decrAll_spec cs s; rw [e]
theorem dataLoop_g (ex : Option Nat) (s : State) (cs : List Nat) : (dataLoop ex cs s).g = s.g := by
  obtain ⟨_, _, _, _, e, _, _⟩ := dataLoop_spec ex cs s; rw [e]

theorem handleTorEv_g (s : State) (e : TorEv) : (handleTorEv s e).g = s.g := by
  cases e with
  | data src idx begin len c =>
    simp only [handleTorEv]; split
    · rfl
    · exact dataLoop_g _ _ _
  | drop idx begin len => simp only [handleTorEv]; exact decrAll_g _ _
  | bitmap p bits hv =>
    simp only [handleTorEv]
    obtain ⟨_, _, _, e, _⟩ := noteAvailAll_spec hv bits s; rw [e]
  | phave p idx hv =>
    simp only [handleTorEv]
    obtain ⟨_, _, _, e, _⟩ := noteAvail_spec s idx hv; rw [e]
  | unchoke p b => rfl
  | goaway p =>
    simp only [handleTorEv]
    split
    · rfl
    · split
      · rfl
      · exact decrAll_g _ _

theorem step_g (s : State) (op : Op) : (step s op).1.g = s.g := by
  unfold step
  split
  · rfl
  · cases op with
    | connect fast evcap wcap => rfl
    | request i cs ad =>
      simp only []
      split
      · rfl
      · split
        · rfl
        · split
          · rfl
          · split
            · rfl
            · split
              · rfl
              · exact incrAll_g _ _
    | push i e =>
      simp only []
      split
      · rfl
      · split
        · rfl
        · split
          · rfl
          · cases e <;> rfl
    | peerEvent i slow =>
      simp only []
      split
      · rfl
      · split
        · rfl
        · split <;> rfl
    | peerMsg i m slow =>
      simp only []
      split
      · rfl
      · split <;> rfl
    | tick i rto slow =>
      simp only []
      split
      · rfl
      · split
        · rfl
        · split <;> rfl
    | age i d => simp only []; split <;> rfl
    | exit i =>
      simp only []
      split
      · rfl
      · split <;> rfl
    | flush i => simp only []; split <;> rfl
    | torEvent =>
      simp only []
      split
      · rfl
      · split
        · rfl
        · exact handleTorEv_g _ _
    | wdrain i => simp only []; split <;> rfl
    | wfill i k =>
      simp only []
      split
      · rfl
      · split <;> rfl
    | wsReserve idx =>
      simp only []
      split
      · rfl
      · split
        · rfl
        · rename_i o l0 _
          generalize (if l0 > 1048576 then 1048576 else l0) = l
          split
          · rfl
          · exact incrAll_g _ _
    | wWrite w n =>
      simp only []
      split
      · rfl
      · split
        · rfl
        · split
          · rfl
          · split
            · rfl
            · split
              · split <;> rfl
              · rfl
    | wClose w =>
      simp only []
      split
      · rfl
      · split
        · rfl
        · split
          · split <;> rfl
          · rfl
    | finalise idx =>
      simp only []
      split
      · rfl
      · split <;> rfl
    | metaComplete =>
      simp only []
      split
      · rfl
      · split <;> rfl

theorem run_g (ops : List Op) : ∀ (s : State), (run s ops).g = s.g := by
  induction ops with
  | nil => intro s; rfl
  | cons op ops ih => intro s; show (run (step s op).1 ops).g = s.g; rw [ih, step_g]

end Storrent.Sched
