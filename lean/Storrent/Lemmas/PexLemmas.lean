import Storrent.Model.Pex
/- Invariant of the (repaired) pexState machine with its ghost `remoteKnows`. -/
namespace Storrent.Pex
open Storrent Storrent.Wire

def addrs (l : List PexPeer) : List Addr := l.map addrOf

theorem find_none {p : PexPeer} {l : List PexPeer} :
    find p l = none ↔ addrOf p ∉ addrs l := by
  unfold find addrs
  rw [List.findIdx?_eq_none_iff]
  constructor
  · intro h hm
    rcases List.mem_map.1 hm with ⟨q, hq, e⟩
    have := h q hq
    simp [e] at this
  · intro h q hq
    have : addrOf q ≠ addrOf p := fun e => h (List.mem_map.2 ⟨q, hq, e⟩)
    simpa using this

theorem find_some_mem {p : PexPeer} {l : List PexPeer} {i : Nat} (h : find p l = some i) :
    addrOf p ∈ addrs l := by
  have : find p l ≠ none := by simp [h]
  rw [Ne, find_none] at this
  exact Classical.not_not.1 this

/-- under distinct addresses, deleting the found entry = filtering the address out -/
theorem eraseIdx_find {p : PexPeer} : ∀ {l : List PexPeer} {i : Nat},
    (addrs l).Nodup → find p l = some i →
    l.eraseIdx i = l.filter (fun q => addrOf q != addrOf p)
  | [], i, _, h => by simp [find] at h
  | x :: xs, i, hn, h => by
    unfold find at h
    rw [List.findIdx?_cons] at h
    simp only [addrs, List.map_cons, List.nodup_cons] at hn
    by_cases hx : (addrOf x == addrOf p) = true
    · simp only [hx, if_true] at h
      have hi : i = 0 := by cases h; rfl
      subst hi
      have hxe : addrOf x = addrOf p := by simpa using hx
      simp only [List.eraseIdx_cons_zero, List.filter_cons, hxe, bne_self_eq_false]
      simp only [Bool.false_eq_true, if_false]
      symm
      rw [List.filter_eq_self]
      intro q hq
      have : addrOf q ≠ addrOf x := fun e => hn.1 (List.mem_map.2 ⟨q, hq, e⟩)
      rw [hxe] at this
      simpa using this
    · have hx' : (addrOf x == addrOf p) = false := by simpa using hx
      simp only [hx', Bool.false_eq_true, if_false] at h
      cases hf : List.findIdx? (fun q => addrOf q == addrOf p) xs with
      | none => simp [hf] at h
      | some j =>
        simp only [hf, Option.map_some, Option.some.injEq] at h
        subst h
        have ih := eraseIdx_find (p := p) (l := xs) (i := j) hn.2 (by unfold find; exact hf)
        simp only [List.eraseIdx_cons_succ, List.filter_cons, ih]
        have : (addrOf x != addrOf p) = true := by simp [bne, hx']
        simp [this]

theorem mem_addrs_filter {l : List PexPeer} {b a : Addr} :
    a ∈ addrs (l.filter (fun q => addrOf q != b)) ↔ a ∈ addrs l ∧ a ≠ b := by
  unfold addrs
  simp only [List.mem_map, List.mem_filter]
  constructor
  · rintro ⟨q, ⟨hq, hne⟩, rfl⟩
    exact ⟨⟨q, hq, rfl⟩, by simpa using hne⟩
  · rintro ⟨⟨q, hq, rfl⟩, hne⟩
    exact ⟨q, ⟨hq, by simpa using hne⟩, rfl⟩

theorem nodup_addrs_filter {l : List PexPeer} (f : PexPeer → Bool) (h : (addrs l).Nodup) :
    (addrs (l.filter f)).Nodup :=
  List.Nodup.sublist (List.Sublist.map _ List.filter_sublist) h

/-- the invariant: each list has distinct addresses, the lists are pairwise disjoint, and the
    remote knows exactly `sent ∪ pendingDel` -/
structure PInv (g : G) : Prop where
  ndP : (addrs g.st.pending).Nodup
  ndD : (addrs g.st.pendingDel).Nodup
  ndS : (addrs g.st.sent).Nodup
  dPS : ∀ a, a ∈ addrs g.st.pending → a ∉ addrs g.st.sent
  dPD : ∀ a, a ∈ addrs g.st.pending → a ∉ addrs g.st.pendingDel
  dSD : ∀ a, a ∈ addrs g.st.sent → a ∉ addrs g.st.pendingDel
  rk : ∀ a, a ∈ g.rk ↔ a ∈ addrs g.st.sent ∨ a ∈ addrs g.st.pendingDel

theorem PInv_init : PInv {} := by
  constructor <;> simp [addrs]

theorem addrs_append (l₁ l₂ : List PexPeer) : addrs (l₁ ++ l₂) = addrs l₁ ++ addrs l₂ := by
  simp [addrs]

theorem addrs_single (p : PexPeer) : addrs [p] = [addrOf p] := rfl

theorem PInv_add {g : G} (h : PInv g) (p : PexPeer) : PInv { g with st := add g.st p } := by
  unfold add
  cases hD : find p g.st.pendingDel with
  | some i =>
    simp only
    rw [eraseIdx_find h.ndD hD]
    have hpD := find_some_mem hD
    constructor
    · exact h.ndP
    · exact nodup_addrs_filter _ h.ndD
    · simp only [addrs_append, addrs_single]
      rw [List.nodup_append]
      refine ⟨h.ndS, by simp, ?_⟩
      intro a ha b hb
      simp only [List.mem_singleton] at hb
      subst hb
      intro e; subst e
      exact h.dSD _ ha hpD
    · intro a ha
      simp only [addrs_append, addrs_single, List.mem_append, List.mem_singleton, not_or]
      exact ⟨h.dPS a ha, fun e => h.dPD a ha (e ▸ hpD)⟩
    · intro a ha hm
      exact h.dPD a ha (mem_addrs_filter.1 hm).1
    · intro a ha hm
      simp only [addrs_append, addrs_single, List.mem_append, List.mem_singleton] at ha
      rcases ha with ha | ha
      · exact h.dSD a ha (mem_addrs_filter.1 hm).1
      · exact (mem_addrs_filter.1 hm).2 ha
    · intro a
      simp only [addrs_append, addrs_single, List.mem_append, List.mem_singleton, mem_addrs_filter,
        h.rk a]
      by_cases e : a = addrOf p
      · subst e; simp [hpD]
      · simp [e]
  | none =>
    simp only
    cases hS : find p g.st.sent with
    | some _ => exact h
    | none =>
      simp only
      cases hP : find p g.st.pending with
      | some _ => exact h
      | none =>
        simp only
        rw [find_none] at hD hS hP
        constructor
        · simp only [addrs_append, addrs_single]
          rw [List.nodup_append]
          refine ⟨h.ndP, by simp, ?_⟩
          intro a ha b hb
          simp only [List.mem_singleton] at hb
          subst hb
          intro e; subst e
          exact hP ha
        · exact h.ndD
        · exact h.ndS
        · intro a ha
          simp only [addrs_append, addrs_single, List.mem_append, List.mem_singleton] at ha
          rcases ha with ha | ha
          · exact h.dPS a ha
          · subst ha; exact hS
        · intro a ha
          simp only [addrs_append, addrs_single, List.mem_append, List.mem_singleton] at ha
          rcases ha with ha | ha
          · exact h.dPD a ha
          · subst ha; exact hD
        · exact h.dSD
        · exact h.rk

theorem PInv_del {g : G} (h : PInv g) (p : PexPeer) : PInv { g with st := del g.st p } := by
  unfold del
  cases hP : find p g.st.pending with
  | some i =>
    simp only
    rw [eraseIdx_find h.ndP hP]
    constructor
    · exact nodup_addrs_filter _ h.ndP
    · exact h.ndD
    · exact h.ndS
    · intro a ha; exact h.dPS a (mem_addrs_filter.1 ha).1
    · intro a ha; exact h.dPD a (mem_addrs_filter.1 ha).1
    · exact h.dSD
    · exact h.rk
  | none =>
    simp only
    cases hS : find p g.st.sent with
    | none => exact h
    | some i =>
      simp only
      rw [eraseIdx_find h.ndS hS]
      have hpS := find_some_mem hS
      have hpD : addrOf p ∉ addrs g.st.pendingDel := h.dSD _ hpS
      have hfD : find p g.st.pendingDel = none := find_none.2 hpD
      simp only [hfD]
      rw [find_none] at hP
      constructor
      · exact h.ndP
      · simp only [addrs_append, addrs_single]
        rw [List.nodup_append]
        refine ⟨h.ndD, by simp, ?_⟩
        intro a ha b hb
        simp only [List.mem_singleton] at hb
        subst hb
        intro e; subst e
        exact hpD ha
      · exact nodup_addrs_filter _ h.ndS
      · intro a ha hm; exact h.dPS a ha (mem_addrs_filter.1 hm).1
      · intro a ha
        simp only [addrs_append, addrs_single, List.mem_append, List.mem_singleton, not_or]
        exact ⟨h.dPD a ha, fun e => hP (e ▸ ha)⟩
      · intro a ha
        simp only [addrs_append, addrs_single, List.mem_append, List.mem_singleton, not_or]
        have := mem_addrs_filter.1 ha
        exact ⟨h.dSD a this.1, this.2⟩
      · intro a
        simp only [addrs_append, addrs_single, List.mem_append, List.mem_singleton, mem_addrs_filter,
          h.rk a]
        by_cases e : a = addrOf p
        · subst e; simp [hpS]
        · simp [e]

theorem addrs_take (l : List PexPeer) (n : Nat) : addrs (l.take n) = (addrs l).take n := by
  simp [addrs, List.map_take]

theorem addrs_drop (l : List PexPeer) (n : Nat) : addrs (l.drop n) = (addrs l).drop n := by
  simp [addrs, List.map_drop]

theorem nodup_take_drop {l : List Addr} (n : Nat) (h : l.Nodup) :
    (l.take n).Nodup ∧ (l.drop n).Nodup ∧ ∀ a, a ∈ l.take n → a ∉ l.drop n := by
  have e := List.take_append_drop n l
  rw [← e, List.nodup_append] at h
  exact ⟨h.1, h.2.1, fun a ha hb => h.2.2 a ha a hb rfl⟩

theorem mem_take_or_drop {l : List Addr} (n : Nat) (a : Addr) :
    a ∈ l ↔ a ∈ l.take n ∨ a ∈ l.drop n := by
  have e := List.take_append_drop n l
  constructor
  · intro h; rw [← e] at h; exact List.mem_append.1 h
  · intro h; rw [← e]; exact List.mem_append.2 h

/-- a failed write leaves the (repaired) state exactly as it was -/
theorem send_fail (s : PexState) : send s false = (s, none) := by
  unfold send compute
  by_cases h : (s.pending.isEmpty && s.pendingDel.isEmpty) = true
  · simp only [h, if_true]
    have h' := h
    simp only [Bool.and_eq_true, List.isEmpty_iff] at h'
    simp [h'.1, h'.2]
  · simp only [h]
    have hne : ((s.pending.take 50).isEmpty && (s.pendingDel.take 50).isEmpty) = false := by
      cases hp : s.pending <;> cases hd : s.pendingDel <;> simp_all
    simp only [Bool.false_eq_true, if_false, hne, rollback, List.take_append_drop,
      List.length_append]
    have : s.sent.length + (List.take 50 s.pending).length - (List.take 50 s.pending).length
        = s.sent.length := by omega
    simp [this]

theorem send_ok_spec (s : PexState) :
    (send s true = (s, none) ∧ s.pending = [] ∧ s.pendingDel = []) ∨
    (send s true = ({ pending := s.pending.drop 50, pendingDel := s.pendingDel.drop 50,
                      sent := s.sent ++ s.pending.take 50 },
                    some (s.pending.take 50, s.pendingDel.take 50)) ∧
      ¬ (s.pending = [] ∧ s.pendingDel = [])) := by
  unfold send compute
  by_cases h : (s.pending.isEmpty && s.pendingDel.isEmpty) = true
  · left
    simp only [h, if_true]
    have h' := h
    simp only [Bool.and_eq_true, List.isEmpty_iff] at h'
    simp [h'.1, h'.2]
  · right
    simp only [h]
    have hne : ((s.pending.take 50).isEmpty && (s.pendingDel.take 50).isEmpty) = false := by
      cases hp : s.pending <;> cases hd : s.pendingDel <;> simp_all
    simp only [Bool.false_eq_true, if_false, hne, if_true]
    refine ⟨trivial, ?_⟩
    intro ⟨a, b⟩
    simp [a, b] at h

theorem mem_rkUpdate {rk : List Addr} {ad dr : List PexPeer} {a : Addr} :
    a ∈ rkUpdate rk ad dr ↔ (a ∈ rk ∧ a ∉ addrs dr) ∨ a ∈ addrs ad := by
  unfold rkUpdate addrs
  simp [List.mem_append, List.mem_filter]

theorem PInv_send_ok {g : G} (h : PInv g) :
    PInv { st := { pending := g.st.pending.drop 50, pendingDel := g.st.pendingDel.drop 50,
                   sent := g.st.sent ++ g.st.pending.take 50 },
           rk := rkUpdate g.rk (g.st.pending.take 50) (g.st.pendingDel.take 50) } := by
  have hP := nodup_take_drop 50 h.ndP
  have hD := nodup_take_drop 50 h.ndD
  constructor
  · simpa [addrs_drop] using hP.2.1
  · simpa [addrs_drop] using hD.2.1
  · simp only [addrs_append, addrs_take]
    rw [List.nodup_append]
    refine ⟨h.ndS, hP.1, ?_⟩
    intro a ha b hb e
    subst e
    exact h.dPS a (List.mem_of_mem_take hb) ha
  · intro a ha
    simp only [addrs_drop] at ha
    simp only [addrs_append, addrs_take, List.mem_append, not_or]
    exact ⟨h.dPS a (List.mem_of_mem_drop ha), fun hb => hP.2.2 a hb ha⟩
  · intro a ha hb
    simp only [addrs_drop] at ha hb
    exact h.dPD a (List.mem_of_mem_drop ha) (List.mem_of_mem_drop hb)
  · intro a ha hb
    simp only [addrs_drop] at hb
    simp only [addrs_append, addrs_take, List.mem_append] at ha
    rcases ha with ha | ha
    · exact h.dSD a ha (List.mem_of_mem_drop hb)
    · exact h.dPD a (List.mem_of_mem_take ha) (List.mem_of_mem_drop hb)
  · intro a
    simp only [mem_rkUpdate, h.rk a, addrs_append, addrs_take, addrs_drop, List.mem_append]
    have hsplit := mem_take_or_drop (l := addrs g.st.pendingDel) 50 a
    constructor
    · rintro (⟨hk, hnd⟩ | hp)
      · rcases hk with hs | hd
        · exact Or.inl (Or.inl hs)
        · rcases hsplit.1 hd with ht | hdr
          · exact absurd ht hnd
          · exact Or.inr hdr
      · exact Or.inl (Or.inr hp)
    · rintro ((hs | hp) | hdr)
      · exact Or.inl ⟨Or.inl hs, fun ht => h.dSD a hs (List.mem_of_mem_take ht)⟩
      · exact Or.inr hp
      · exact Or.inl ⟨Or.inr (List.mem_of_mem_drop hdr), fun ht => hD.2.2 a ht hdr⟩

theorem PInv_step {g : G} (h : PInv g) (op : Op) : PInv (step g op).1 := by
  cases op with
  | add p => exact PInv_add h p
  | del p => exact PInv_del h p
  | send ok =>
    cases ok with
    | false => simp only [step, send_fail]; exact h
    | true =>
      rcases send_ok_spec g.st with ⟨e, _, _⟩ | ⟨e, _⟩
      · simp only [step, e]; exact h
      · simp only [step, e]; exact PInv_send_ok h

theorem mem_addrs_take_mono {l : List PexPeer} {n m : Nat} {a : Addr} (h : n ≤ m)
    (ha : a ∈ addrs (l.take n)) : a ∈ addrs (l.take m) := by
  unfold addrs at *
  rcases List.mem_map.1 ha with ⟨q, hq, e⟩
  refine List.mem_map.2 ⟨q, ?_, e⟩
  rw [List.mem_take_iff_getElem] at hq ⊢
  obtain ⟨j, hj, e2⟩ := hq
  exact ⟨j, by omega, e2⟩

theorem mem_addrs_take_filter (b : Addr) : ∀ (l : List PexPeer) (n : Nat) (a : Addr),
    a ∈ addrs (l.take n) → a ≠ b →
    a ∈ addrs ((l.filter (fun q => addrOf q != b)).take n)
  | [], n, a, h, _ => by simp [addrs] at h
  | x :: xs, 0, a, h, _ => by simp [addrs] at h
  | x :: xs, n + 1, a, h, hne => by
    simp only [List.take_succ_cons, addrs, List.map_cons, List.mem_cons] at h
    by_cases hx : (addrOf x != b) = true
    · simp only [List.filter_cons, hx, if_true, List.take_succ_cons, addrs, List.map_cons,
        List.mem_cons]
      rcases h with h | h
      · exact Or.inl h
      · exact Or.inr (mem_addrs_take_filter b xs n a h hne)
    · simp only [List.filter_cons, hx, if_false]
      rcases h with h | h
      · exfalso
        have : addrOf x = b := by simpa using hx
        exact hne (h.trans this)
      · exact mem_addrs_take_mono (Nat.le_succ n) (mem_addrs_take_filter b xs n a h hne)

theorem mem_addrs_take_append {l : List PexPeer} {n : Nat} {a : Addr} (x : List PexPeer)
    (h : a ∈ addrs (l.take n)) : a ∈ addrs ((l ++ x).take n) := by
  rw [List.take_append]
  rw [addrs_append]
  exact List.mem_append.2 (Or.inl h)

/-! ### the pexState follows the set of peers it is told about -/

/-- the set of addresses a sequence of `add`/`del` describes (ticks do not matter) -/
def aview : List Addr → List Op → List Addr
  | v, [] => v
  | v, .add p :: ops => aview (if v.contains (addrOf p) then v else addrOf p :: v) ops
  | v, .del p :: ops => aview (v.filter (fun a => a != addrOf p)) ops
  | v, .send _ :: ops => aview v ops

/-- `sent ∪ pending` is the set of peers the state has been told are there -/
def Tracks (g : G) (v : List Addr) : Prop :=
  ∀ a, (a ∈ addrs g.st.sent ∨ a ∈ addrs g.st.pending) ↔ a ∈ v

theorem Tracks_step {g : G} {v : List Addr} (hI : PInv g) (h : Tracks g v) (op : Op) :
    Tracks (step g op).1 (aview v [op]) := by
  cases op with
  | add p =>
    have hv : ∀ a, a ∈ aview v [.add p] ↔ a ∈ v ∨ a = addrOf p := by
      intro a
      simp only [aview]
      split
      · rename_i hc
        have := List.contains_iff_mem.1 hc
        constructor
        · exact Or.inl
        · rintro (h | rfl)
          · exact h
          · exact this
      · simp only [List.mem_cons]
        constructor
        · rintro (h | h)
          · exact Or.inr h
          · exact Or.inl h
        · rintro (h | h)
          · exact Or.inr h
          · exact Or.inl h
    intro a
    rw [hv a, ← h a]
    simp only [step, add]
    cases hD : find p g.st.pendingDel with
    | some i =>
      simp only [addrs_append, addrs_single, List.mem_append, List.mem_singleton]
      constructor
      · rintro ((h1 | h1) | h1)
        · exact Or.inl (Or.inl h1)
        · exact Or.inr h1
        · exact Or.inl (Or.inr h1)
      · rintro ((h1 | h1) | h1)
        · exact Or.inl (Or.inl h1)
        · exact Or.inr h1
        · exact Or.inl (Or.inr h1)
    | none =>
      simp only
      cases hS : find p g.st.sent with
      | some _ =>
        simp only
        have := find_some_mem hS
        constructor
        · exact Or.inl
        · rintro (h1 | rfl)
          · exact h1
          · exact Or.inl this
      | none =>
        simp only
        cases hP : find p g.st.pending with
        | some _ =>
          simp only
          have := find_some_mem hP
          constructor
          · exact Or.inl
          · rintro (h1 | rfl)
            · exact h1
            · exact Or.inr this
        | none =>
          simp only [addrs_append, addrs_single, List.mem_append, List.mem_singleton]
          constructor
          · rintro (h1 | h1 | h1)
            · exact Or.inl (Or.inl h1)
            · exact Or.inl (Or.inr h1)
            · exact Or.inr h1
          · rintro ((h1 | h1) | h1)
            · exact Or.inl h1
            · exact Or.inr (Or.inl h1)
            · exact Or.inr (Or.inr h1)
  | del p =>
    have hv : ∀ a, a ∈ aview v [.del p] ↔ a ∈ v ∧ a ≠ addrOf p := by
      intro a; simp [aview, List.mem_filter]
    intro a
    rw [hv a, ← h a]
    simp only [step, del]
    cases hP : find p g.st.pending with
    | some i =>
      simp only
      rw [eraseIdx_find hI.ndP hP, mem_addrs_filter]
      have hpP := find_some_mem hP
      constructor
      · rintro (h1 | ⟨h1, h2⟩)
        · exact ⟨Or.inl h1, fun e => hI.dPS _ hpP (e ▸ h1)⟩
        · exact ⟨Or.inr h1, h2⟩
      · rintro ⟨h1 | h1, h2⟩
        · exact Or.inl h1
        · exact Or.inr ⟨h1, h2⟩
    | none =>
      simp only
      have hnP := find_none.1 hP
      cases hS : find p g.st.sent with
      | none =>
        simp only
        have hnS := find_none.1 hS
        constructor
        · rintro (h1 | h1)
          · exact ⟨Or.inl h1, fun e => hnS (e ▸ h1)⟩
          · exact ⟨Or.inr h1, fun e => hnP (e ▸ h1)⟩
        · exact fun h1 => h1.1
      | some i =>
        simp only
        rw [eraseIdx_find hI.ndS hS]
        have hnD : find p g.st.pendingDel = none := find_none.2 (hI.dSD _ (find_some_mem hS))
        simp only [hnD, mem_addrs_filter]
        constructor
        · rintro (⟨h1, h2⟩ | h1)
          · exact ⟨Or.inl h1, h2⟩
          · exact ⟨Or.inr h1, fun e => hnP (e ▸ h1)⟩
        · rintro ⟨h1 | h1, h2⟩
          · exact Or.inl ⟨h1, h2⟩
          · exact Or.inr h1
  | send ok =>
    have hv : aview v [.send ok] = v := rfl
    rw [hv]
    cases ok with
    | false => simp only [step, send_fail]; exact h
    | true =>
      rcases send_ok_spec g.st with ⟨e, _, _⟩ | ⟨e, _⟩
      · simp only [step, e]; exact h
      · simp only [step, e]
        intro a
        rw [← h a]
        simp only [addrs_append, addrs_take, addrs_drop, List.mem_append]
        have := mem_take_or_drop (l := addrs g.st.pending) 50 a
        constructor
        · rintro ((h1 | h1) | h1)
          · exact Or.inl h1
          · exact Or.inr (this.2 (Or.inl h1))
          · exact Or.inr (this.2 (Or.inr h1))
        · rintro (h1 | h1)
          · exact Or.inl (Or.inl h1)
          · rcases this.1 h1 with h2 | h2
            · exact Or.inl (Or.inr h2)
            · exact Or.inr h2

theorem aview_append (l1 : List Op) : ∀ (v : List Addr) (l2 : List Op),
    aview v (l1 ++ l2) = aview (aview v l1) l2 := by
  induction l1 with
  | nil => intro v l2; rfl
  | cons op ops ih => intro v l2; cases op <;> simp only [List.cons_append, aview, ih]

theorem Tracks_run : ∀ (ops : List Op) (g : G) (v : List Addr), PInv g → Tracks g v →
    Tracks (run g ops).1 (aview v ops)
  | [], g, v, _, h => h
  | op :: ops, g, v, hI, h => by
    have h1 := Tracks_step hI h op
    have := Tracks_run ops (step g op).1 (aview v [op]) (PInv_step hI op) h1
    have e : aview v (op :: ops) = aview (aview v [op]) ops := aview_append [op] v ops
    rw [e]
    simp only [run]
    cases hm : (step g op).2 <;> simpa [hm] using this

end Storrent.Pex
