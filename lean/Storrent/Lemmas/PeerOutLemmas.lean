import Storrent.Model.PeerOut
import Storrent.Lemmas.RequestsInv
/- What every emission of every step guarantees locally (from the checks made right before
   the write), and the state facts carried through every sub-function: the geometry never
   changes and the queue only holds chunk numbers the scheduler named. -/
namespace Storrent.Requests

theorem cancel_queue (rs : Requests) (c : Nat) : (cancel rs c).1.queue = rs.queue := by
  unfold cancel
  split
  · rfl
  · split
    · rfl
    · split
      · rfl
      · split <;> rfl

theorem cancel_spec {rs rs1 : Requests} {c : Nat} (h : cancel rs c = (rs1, true, true)) :
    ∃ r, r ∈ rs.requested ∧ r.index = c ∧ r.cancelled = false := by
  unfold cancel at h
  split at h
  · simp at h
  · split at h
    · simp at h
    · rename_i i hf
      obtain ⟨r, hr, hidx⟩ := findIdx_some hf
      rw [hr] at h
      simp only at h
      split at h
      · simp at h
      · rename_i hc
        exact ⟨r, List.mem_of_getElem? hr, hidx, by simpa using hc⟩

/-- `Cancel` finds every sent request that `del` would find -/
theorem cancel_found_of_requested {rs : Requests} {c i : Nat} (hm : rs.member c = true)
    (hf : findIdx rs.requested c = some i) : (cancel rs c).2.1 = true := by
  unfold cancel
  obtain ⟨r, hr, _⟩ := findIdx_some hf
  simp only [hm, Bool.not_true, Bool.false_eq_true, if_false, hf, hr]
  split <;> rfl

theorem del_spec {rs rs2 : Requests} {c : Nat} {ro q r : Bool} (h : del rs c ro = some (rs2, q, r)) :
    (∀ x, x ∈ rs2.queue → x ∈ rs.queue) ∧
    (r = true → rs.member c = true ∧ ∃ i, findIdx rs.requested c = some i) := by
  unfold del at h
  split at h
  · cases h; exact ⟨fun _ hx => hx, by simp⟩
  · rename_i hm
    have hm' : rs.member c = true := by simpa using hm
    split at h
    · rename_i i hf
      cases h
      exact ⟨fun _ hx => hx, fun _ => ⟨hm', i, hf⟩⟩
    · split at h
      · cases h; exact ⟨fun _ hx => hx, by simp⟩
      · split at h
        · cases h
          exact ⟨fun _ hx => mem_swapRemove hx, by simp⟩
        · cases h

theorem delRequested_queue (rs : Requests) (c : Nat) : (delRequested rs c).1.queue = rs.queue := by
  unfold delRequested del
  split <;> rename_i h
  · split at h
    · cases h; rfl
    · split at h
      · cases h; rfl
      · simp only [if_true] at h
        cases h; rfl
  · rfl

theorem enqueue_queue {rs : Requests} {c : Nat} {x : Req} (h : x ∈ (enqueue rs c).1.queue) :
    x ∈ rs.queue ∨ x.index = c := by
  unfold enqueue at h
  split at h
  · exact Or.inl h
  · simp only [List.mem_append, List.mem_singleton] at h
    rcases h with h | h
    · exact Or.inl h
    · subst h; exact Or.inr rfl

theorem dequeue_spec {rs rs1 : Requests} {q : Req} (h : dequeue rs = some (q, rs1)) :
    rs.queue = q :: rs1.queue ∧ rs1.requested = rs.requested := by
  unfold dequeue at h
  split at h
  · cases h
  · rename_i hq
    cases h
    exact ⟨hq, rfl⟩

theorem enqueueRequest_queue {rs rs2 : Requests} {r : Req} (h : enqueueRequest rs r = some rs2) :
    rs2.queue = rs.queue := by
  unfold enqueueRequest at h
  split at h
  · cases h
  · cases h; rfl

theorem clear_queue (rs : Requests) (both : Bool) : (clear rs both).1.queue = [] := by
  unfold clear; split <;> rfl

end Storrent.Requests

namespace Storrent.PeerOut
open Storrent Storrent.Wire Storrent.PBitmap Storrent.Requests Storrent.Pex

/-- the local guarantee of one emission; `H` says where a forwarded `Have` index comes from -/
def EmLocal (H : Nat → Prop) (e : Emission) : Prop :=
  match e.msg with
  | .request i b l =>
      (e.pre.unchoked = true ∨ i ∈ e.pre.fast) ∧ e.pre.rbGet i = true ∧
      e.pre.requests.requested.length < max 2 e.pre.reqQ ∧
      ∃ q rest, e.pre.requests.queue = q :: rest ∧
        ∃ iu bu, fromChunk e.pre.ps (UInt32.ofNat q.index) = some (iu, bu) ∧
          i = iu.toNat ∧ b = bu.toNat ∧
          l = (chunkSize e.pre.length (UInt32.ofNat q.index)).toNat
  | .cancel i b l =>
      ∃ r, r ∈ e.pre.requests.requested ∧ r.cancelled = false ∧
        ∃ iu bu, fromChunk e.pre.ps (UInt32.ofNat r.index) = some (iu, bu) ∧
          i = iu.toNat ∧ b = bu.toNat ∧
          l = (chunkSize e.pre.length (UInt32.ofNat r.index)).toNat
  | .have i => H i
  | .dontHave _ i => H i
  | .interested => True
  | .notInterested => True
  | .pex _ _ _ => True
  | _ => False

section
variable (ps0 : UInt32) (len0 N : Nat)

/-- carried state facts: constant geometry; queued and sent chunk numbers below `N` and the
    representation invariant of `Requests` (`RQ`) -/
def SI (p : Peer) : Prop :=
  p.ps = ps0 ∧ p.length = len0 ∧ RQ N p.requests

def CtxOK (H : Nat → Prop) (c : Ctx) : Prop :=
  SI ps0 len0 N c.p ∧ ∀ e, e ∈ c.emits → SI ps0 len0 N e.pre ∧ EmLocal H e

variable {ps0 len0 N}

theorem SI_of_eq {p p' : Peer} (h : SI ps0 len0 N p) (h1 : p'.ps = p.ps) (h2 : p'.length = p.length)
    (h3 : p'.requests = p.requests) : SI ps0 len0 N p' := by
  unfold SI at *
  rw [h1, h2, h3]; exact h

theorem CtxOK_init {H : Nat → Prop} {p : Peer} (h : SI ps0 len0 N p) :
    CtxOK ps0 len0 N H { p := p } := ⟨h, by intro e he; cases he⟩

theorem write_ok {H : Nat → Prop} {c : Ctx} {ghost : Peer} {m : Msg} (hc : CtxOK ps0 len0 N H c)
    (hg : SI ps0 len0 N ghost) (hm : EmLocal H ⟨ghost, m⟩) :
    CtxOK ps0 len0 N H (write c ghost m).1 := by
  unfold write
  split
  · refine ⟨SI_of_eq hc.1 rfl rfl rfl, ?_⟩
    intro e he
    simp only [List.mem_append, List.mem_singleton] at he
    rcases he with he | he
    · exact hc.2 e he
    · subst he; exact ⟨hg, hm⟩
  · exact hc

theorem write_p (c : Ctx) (ghost : Peer) (m : Msg) :
    (write c ghost m).1.p.ps = c.p.ps ∧ (write c ghost m).1.p.length = c.p.length ∧
    (write c ghost m).1.p.requests = c.p.requests ∧ (write c ghost m).1.p.canFast = c.p.canFast ∧
    (write c ghost m).1.panic = c.panic := by
  unfold write; split <;> simp

theorem drop_ok {H : Nat → Prop} {c : Ctx} (hc : CtxOK ps0 len0 N H c) (ch : Nat) :
    CtxOK ps0 len0 N H (drop c ch) := by
  unfold drop; split <;> exact hc

theorem drop_p (c : Ctx) (ch : Nat) : (drop c ch).p = c.p := by
  unfold drop; split <;> rfl

theorem dropAll_ok {H : Nat → Prop} (chunks : List Nat) : ∀ {c : Ctx}, CtxOK ps0 len0 N H c →
    CtxOK ps0 len0 N H (dropAll c chunks) := by
  unfold dropAll
  induction chunks with
  | nil => intro c hc; exact hc
  | cons x xs ih => intro c hc; exact ih (drop_ok hc x)

theorem maybeInterested_ok {H : Nat → Prop} {c : Ctx} (hc : CtxOK ps0 len0 N H c) :
    CtxOK ps0 len0 N H (maybeInterested c) := by
  unfold maybeInterested
  simp only
  generalize wantInterested c.p = intr
  cases intr
  · simp only [Bool.false_eq_true, if_false]
    split
    · exact hc
    · have hw := write_ok (m := Msg.notInterested) hc hc.1 (by simp [EmLocal])
      split
      · exact ⟨SI_of_eq hw.1 rfl rfl rfl, hw.2⟩
      · exact hw
  · simp only [if_true]
    split
    · exact hc
    · have hw := write_ok (m := Msg.interested) hc hc.1 (by simp [EmLocal])
      split
      · exact ⟨SI_of_eq hw.1 rfl rfl rfl, hw.2⟩
      · exact hw

theorem maybeRequestLoop_ok {H : Nat → Prop} (K : Option Nat) : ∀ (fuel : Nat) {c : Ctx},
    CtxOK ps0 len0 N H c → CtxOK ps0 len0 N H (maybeRequestLoop K fuel c)
  | 0, c, hc => by unfold maybeRequestLoop; exact hc
  | fuel + 1, c, hc => by
    unfold maybeRequestLoop
    simp only
    split
    · exact hc
    · split
      · exact hc
      · split
        · exact hc
        · rename_i hdepth
          split
          · exact ⟨hc.1, hc.2⟩
          · rename_i q rs1 hdq
            obtain ⟨hqueue, hreq⟩ := dequeue_spec hdq
            obtain ⟨hrq1, hqN, _, _⟩ := RQ_dequeue hc.1.2.2 hdq
            have hSI1 : SI ps0 len0 N { c.p with requests := rs1 } := ⟨hc.1.1, hc.1.2.1, hrq1⟩
            have hc1 : CtxOK ps0 len0 N H { c with p := { c.p with requests := rs1 } } :=
              ⟨hSI1, hc.2⟩
            split
            · exact ⟨hc1.1, hc1.2⟩
            · rename_i i b hfc
              split
              · exact maybeRequestLoop_ok K fuel (drop_ok hc1 _)
              · rename_i hallowed
                have hloc : EmLocal H ⟨c.p, .request i.toNat b.toNat
                    (chunkSize c.p.length (UInt32.ofNat q.index)).toNat⟩ := by
                  simp only [EmLocal]
                  simp only [Bool.or_eq_true, Bool.and_eq_true, Bool.not_eq_true', not_or, not_and,
                    Bool.not_eq_false] at hallowed
                  refine ⟨?_, hallowed.2, ?_, q, rs1.queue, hqueue, i, b, hfc, rfl, rfl, rfl⟩
                  · cases hu : c.p.unchoked with
                    | true => exact Or.inl rfl
                    | false =>
                      right
                      have := hallowed.1 hu
                      simpa using this
                  · simp only [Bool.and_eq_true, Bool.or_eq_true, decide_eq_true_eq, not_and,
                      not_or, Nat.not_le] at hdepth
                    by_cases h2 : c.p.requests.requested.length ≥ 2
                    · have := (hdepth h2).1
                      omega
                    · omega
                have hw := write_ok (m := .request i.toNat b.toNat
                    (chunkSize c.p.length (UInt32.ofNat q.index)).toNat) hc1 hc.1 hloc
                have hwp := write_p { c with p := { c.p with requests := rs1 } } c.p
                  (.request i.toNat b.toNat (chunkSize c.p.length (UInt32.ofNat q.index)).toNat)
                split
                · exact drop_ok hw _
                · split
                  · exact ⟨hw.1, hw.2⟩
                  · rename_i rs2 her
                    apply maybeRequestLoop_ok K fuel
                    refine ⟨?_, hw.2⟩
                    exact ⟨hw.1.1, hw.1.2.1, RQ_enqueueRequest hw.1.2.2 hqN her⟩

theorem maybeRequest_ok {H : Nat → Prop} (K : Option Nat) {c : Ctx} (hc : CtxOK ps0 len0 N H c) :
    CtxOK ps0 len0 N H (maybeRequest K c) := by
  unfold maybeRequest
  split
  · exact hc
  · exact maybeRequestLoop_ok K _ hc

theorem docancel_ok {H : Nat → Prop} {c : Ctx} {ghost : Peer} {chunk : Nat}
    (hc : CtxOK ps0 len0 N H c) (hg : SI ps0 len0 N ghost)
    (hr : ∃ r, r ∈ ghost.requests.requested ∧ r.index = chunk ∧ r.cancelled = false) :
    CtxOK ps0 len0 N H (docancel c ghost chunk) := by
  unfold docancel
  split
  · exact ⟨hc.1, hc.2⟩
  · rename_i i b hfc
    apply write_ok hc hg
    obtain ⟨r, hrm, hri, hrc⟩ := hr
    simp only [EmLocal]
    refine ⟨r, hrm, hrc, i, b, ?_, rfl, rfl, ?_⟩
    · rw [hri, hg.1, ← hc.1.1]; exact hfc
    · rw [hri, hg.2.1, ← hc.1.2.1]

theorem docancel_p (c : Ctx) (ghost : Peer) (chunk : Nat) :
    (docancel c ghost chunk).p.ps = c.p.ps ∧ (docancel c ghost chunk).p.length = c.p.length ∧
    (docancel c ghost chunk).p.requests = c.p.requests ∧
    (docancel c ghost chunk).p.canFast = c.p.canFast := by
  unfold docancel
  split
  · simp
  · have := write_p c ghost
    rename_i i b _
    have := this (.cancel i.toNat b.toNat (chunkSize c.p.length (UInt32.ofNat chunk)).toNat)
    exact ⟨this.1, this.2.1, this.2.2.1, this.2.2.2.1⟩

theorem cancelChunk_ok {H : Nat → Prop} {c : Ctx} (hc : CtxOK ps0 len0 N H c) (chunk : Nat) :
    CtxOK ps0 len0 N H (cancelChunk c chunk) := by
  unfold cancelChunk
  split
  · exact hc
  · simp only
    cases hcan : Requests.cancel c.p.requests chunk with
    | mk rs1 fs =>
      obtain ⟨found, send⟩ := fs
      simp only
      have hq1 : RQ N rs1 := by
        have := RQ_cancel hc.1.2.2 chunk
        rw [hcan] at this; exact this
      have hc1 : CtxOK ps0 len0 N H { c with p := { c.p with requests := rs1 } } :=
        ⟨⟨hc.1.1, hc.1.2.1, hq1⟩, hc.2⟩
      cases found with
      | true =>
        simp only [if_true]
        cases send with
        | true =>
          simp only [if_true]
          exact docancel_ok hc1 hc.1 (cancel_spec hcan)
        | false => simpa using hc1
      | false =>
        simp only [Bool.false_eq_true, if_false]
        cases hdel : delAny c.p.requests chunk with
        | none => exact ⟨hc.1, hc.2⟩
        | some t =>
          obtain ⟨rs2, q, r⟩ := t
          simp only
          obtain ⟨hsub, hrr⟩ := del_spec (ro := false) hdel
          have hc2 : CtxOK ps0 len0 N H { c with p := { c.p with requests := rs2 } } :=
            ⟨⟨hc.1.1, hc.1.2.1, RQ_del hc.1.2.2 hdel⟩, hc.2⟩
          cases r with
          | true =>
            -- unreachable: `Cancel` would have found the request
            exfalso
            obtain ⟨hm, i, hf⟩ := hrr rfl
            have := cancel_found_of_requested hm hf
            rw [hcan] at this
            simp at this
          | false =>
            cases q with
            | true => simpa using drop_ok hc2 chunk
            | false => simpa using hc2

/-- the loop of `Requests.Expire` with the peer's callbacks -/
theorem expireLoop_ok {H : Nat → Prop} (a0 a1 : Nat) : ∀ (fuel i : Nat) (rs : Requests) (st : Ctx)
    (d : Bool) (rs' : Requests) (st' : Ctx) (d' : Bool),
    CtxOK ps0 len0 N H st → RQ N rs →
    expireLoop (σ := Ctx) (fun ch st => drop st ch)
      (fun rsBefore r st => docancel st { st.p with requests := rsBefore } r.index)
      a0 a1 fuel i rs st d = some (rs', st', d') →
    CtxOK ps0 len0 N H st' ∧ RQ N rs'
  | 0, i, rs, st, d, rs', st', d', hc, hq, h => by
    unfold expireLoop at h
    cases h
    exact ⟨hc, hq⟩
  | fuel + 1, i, rs, st, d, rs', st', d', hc, hq, h => by
    unfold expireLoop at h
    split at h
    · cases h; exact ⟨hc, hq⟩
    · rename_i r hr
      split at h
      · cases hdr : delRequested rs r.index with
        | mk rs2 found =>
          rw [hdr] at h
          simp only at h
          split at h
          · cases h
          · have hq2 : RQ N rs2 := by
              have := RQ_delRequested hq r.index
              rw [hdr] at this
              exact this
            exact expireLoop_ok a0 a1 fuel i rs2 _ true rs' st' d' (drop_ok hc _) hq2 h
      · split at h
        · rename_i hnc
          simp only [Bool.and_eq_true, Bool.not_eq_true', decide_eq_true_eq] at hnc
          refine expireLoop_ok a0 a1 fuel (i + 1)
            { rs with requested := rs.requested.set i { r with cancelled := true, cage := 1 } }
            _ d rs' st' d' ?_ (RQ_mark hq hr rfl) h
          apply docancel_ok hc
          · exact ⟨hc.1.1, hc.1.2.1, hq⟩
          · exact ⟨r, List.mem_of_getElem? hr, rfl, hnc.1⟩
        · exact expireLoop_ok a0 a1 fuel (i + 1) rs st d rs' st' d' hc hq h

theorem expireRequests_ok {H : Nat → Prop} {c : Ctx} (hc : CtxOK ps0 len0 N H c) (rto : Nat) :
    CtxOK ps0 len0 N H (expireRequests c rto).1 := by
  unfold expireRequests
  simp only
  split
  · exact hc
  · split
    · exact ⟨hc.1, hc.2⟩
    · rename_i rs' c' dropped hex
      unfold Requests.expire at hex
      obtain ⟨h1, h2⟩ := expireLoop_ok _ _ _ _ _ _ _ _ _ _ hc hc.1.2.2 hex
      exact ⟨⟨h1.1.1, h1.1.2.1, h2⟩, h1.2⟩

theorem sendPex_ok {H : Nat → Prop} {c : Ctx} (hc : CtxOK ps0 len0 N H c) :
    CtxOK ps0 len0 N H (sendPex c) := by
  unfold sendPex
  simp only
  split
  · exact hc
  · split
    · exact hc
    · have hc1 : CtxOK ps0 len0 N H { c with p := { c.p with pex := (Pex.compute c.p.pex).1 } } :=
        ⟨SI_of_eq hc.1 rfl rfl rfl, hc.2⟩
      have hw := write_ok (m := .pex c.p.pexExt (Pex.compute c.p.pex).2.1 (Pex.compute c.p.pex).2.2)
        hc1 hc.1 (by simp [EmLocal])
      split
      · exact hw
      · exact ⟨SI_of_eq hw.1 rfl rfl rfl, hw.2⟩

theorem CtxOK_noemit {H : Nat → Prop} {c : Ctx} (h : SI ps0 len0 N c.p) (he : c.emits = []) :
    CtxOK ps0 len0 N H c := ⟨h, by intro e hm; rw [he] at hm; cases hm⟩

theorem foldl_ok {H : Nat → Prop} {α : Type} (f : Ctx → α → Ctx) (P : α → Prop)
    (hf : ∀ c x, P x → CtxOK ps0 len0 N H c → CtxOK ps0 len0 N H (f c x)) :
    ∀ (l : List α) (c : Ctx), (∀ x, x ∈ l → P x) → CtxOK ps0 len0 N H c →
      CtxOK ps0 len0 N H (l.foldl f c)
  | [], c, _, hc => hc
  | x :: xs, c, hl, hc =>
    foldl_ok f P hf xs (f c x) (fun y hy => hl y (List.mem_cons_of_mem _ hy))
      (hf c x (hl x List.mem_cons_self) hc)

/-- the chunk numbers an op brings in from the scheduler -/
def Op.chunks : Op → List Nat
  | .eRequest cs _ => cs
  | _ => []

theorem handle_ok (p : Peer) (op : Op) (hp : SI ps0 len0 N p)
    (hop : ∀ ch, ch ∈ op.chunks → ch < N) :
    CtxOK ps0 len0 N (fun i => ∃ h, op = .eHave i h) (handle p op).1 := by
  have init : ∀ {p' : Peer}, p'.ps = p.ps → p'.length = p.length →
      p'.requests = p.requests →
      CtxOK ps0 len0 N (fun i => ∃ h, op = .eHave i h) { p := p' } :=
    fun h1 h2 h3 => CtxOK_init (SI_of_eq hp h1 h2 h3)
  cases op with
  | mChoke =>
    simp only [handle]
    apply dropAll_ok
    apply CtxOK_init
    exact ⟨hp.1, hp.2.1, RQ_clear hp.2.2 _⟩
  | mUnchoke => exact init rfl rfl rfl
  | mHave i =>
    simp only [handle]
    split
    · exact init rfl rfl rfl
    · split
      · exact maybeInterested_ok (init rfl rfl rfl)
      · exact init rfl rfl rfl
  | mBitfield bs =>
    simp only [handle]
    split
    · exact init rfl rfl rfl
    · exact maybeInterested_ok (init rfl rfl rfl)
  | mHaveAll =>
    simp only [handle]
    split
    · exact init rfl rfl rfl
    · apply maybeInterested_ok
      split <;> exact init rfl rfl rfl
  | mHaveNone =>
    simp only [handle]
    split <;> exact init rfl rfl rfl
  | mAllowedFast i =>
    simp only [handle]
    split
    · exact init rfl rfl rfl
    · split
      · exact init rfl rfl rfl
      · split <;> exact init rfl rfl rfl
  | mReject i b K =>
    simp only [handle]
    split
    · exact init rfl rfl rfl
    · split
      · exact init rfl rfl rfl
      · split
        · exact CtxOK_noemit hp rfl
        · rename_i ch hch
          apply maybeRequest_ok
          have hc : CtxOK ps0 len0 N (fun j => ∃ h, Op.mReject i b K = .eHave j h)
              { p := { p with requests := (delRequested p.requests ch.toNat).1 } } :=
            CtxOK_init ⟨hp.1, hp.2.1, RQ_delRequested hp.2.2 _⟩
          split
          · exact drop_ok hc _
          · exact hc
  | mPiece i b len n K =>
    simp only [handle]
    split
    · exact init rfl rfl rfl
    · split
      · exact init rfl rfl rfl
      · split
        · exact CtxOK_noemit hp rfl
        · split
          · exact CtxOK_noemit hp rfl
          · rename_i rs q r hdel
            obtain ⟨hsub, _⟩ := del_spec (ro := false) hdel
            apply maybeRequest_ok
            have hc : CtxOK ps0 len0 N (fun j => ∃ h, Op.mPiece i b len n K = .eHave j h)
                { p := { p with requests := rs } } :=
              CtxOK_init ⟨hp.1, hp.2.1, RQ_del hp.2.2 hdel⟩
            split
            · exact drop_ok hc _
            · exact hc
  | mExt0 reqq m =>
    simp only [handle]
    split
    · exact init rfl rfl rfl
    · split <;> exact init rfl rfl rfl
  | mDontHave i =>
    simp only [handle]
    split
    · exact init rfl rfl rfl
    · split
      · exact init rfl rfl rfl
      · split <;> exact init rfl rfl rfl
  | eRequest chunks K =>
    simp only [handle]
    split
    · exact init rfl rfl rfl
    · apply maybeRequest_ok
      apply foldl_ok _ (fun ch => ch < N) _ chunks _ (fun x hx => hop x hx) (CtxOK_init hp)
      intro c ch hch hc
      split
      · exact hc
      · split
        · exact ⟨hc.1, hc.2⟩
        · split
          · have hc1 : CtxOK ps0 len0 N (fun i => ∃ h, Op.eRequest chunks K = .eHave i h)
                { c with p := { c.p with requests := (enqueue c.p.requests ch).1 } } := by
              exact ⟨⟨hc.1.1, hc.1.2.1, RQ_enqueue hc.1.2.2 hch⟩, hc.2⟩
            split
            · exact hc1
            · exact drop_ok hc1 _
          · exact drop_ok hc _
  | eCancel chunk =>
    simp only [handle]
    split
    · exact init rfl rfl rfl
    · exact cancelChunk_ok (CtxOK_init hp) _
  | eCancelPiece i =>
    simp only [handle]
    split
    · exact init rfl rfl rfl
    · exact foldl_ok _ (fun _ => True) (fun c x _ hc => cancelChunk_ok hc _) _ _
        (fun _ _ => trivial) (CtxOK_init hp)
  | eHave i have_ =>
    simp only [handle]
    split
    · have hw := write_ok (m := Msg.have i)
        (init (p' := { p with myBitmap := set p.myBitmap i }) rfl rfl rfl) hp
        (show EmLocal _ ⟨p, Msg.have i⟩ from ⟨_, rfl⟩)
      split
      · exact hw
      · exact maybeInterested_ok hw
    · split
      · have hw := write_ok (m := Msg.dontHave (p.dontHaveExt % 256) i)
          (init (p' := { p with myBitmap := reset p.myBitmap i }) rfl rfl rfl) hp
          (show EmLocal _ ⟨p, Msg.dontHave (p.dontHaveExt % 256) i⟩ from ⟨_, rfl⟩)
        split
        · exact hw
        · exact maybeInterested_ok hw
      · exact maybeInterested_ok (init rfl rfl rfl)
  | eInterested b => exact maybeInterested_ok (init rfl rfl rfl)
  | eMetadata =>
    simp only [handle]
    split
    · exact init rfl rfl rfl
    · split
      · split
        · exact init rfl rfl rfl
        · exact maybeInterested_ok (init rfl rfl rfl)
      · split
        · exact init rfl rfl rfl
        · exact maybeInterested_ok (init rfl rfl rfl)
  | ePex add peers =>
    simp only [handle]
    split
    · exact init rfl rfl rfl
    · split <;> exact init rfl rfl rfl
  | expire rto K =>
    simp only [handle]
    have h1 := expireRequests_ok (H := fun i => ∃ h, Op.expire rto K = .eHave i h)
      (CtxOK_init hp) rto
    split
    · exact maybeRequest_ok K h1
    · exact h1
  | sendPex => exact sendPex_ok (CtxOK_init hp)
  | age d => exact CtxOK_init ⟨hp.1, hp.2.1, RQ_age hp.2.2 d⟩
  | drain k => exact init rfl rfl rfl
  | wblock b => exact init rfl rfl rfl

theorem step_ok (p : Peer) (op : Op) (hp : SI ps0 len0 N p)
    (hop : ∀ ch, ch ∈ op.chunks → ch < N) :
    SI ps0 len0 N (step p op).1 ∧
    ∀ e, e ∈ (step p op).2.emits →
      SI ps0 len0 N e.pre ∧ EmLocal (fun i => ∃ h, op = .eHave i h) e := by
  unfold step
  split
  · exact ⟨hp, by intro e he; cases he⟩
  · have h := handle_ok p op hp hop
    rcases hh : handle p op with ⟨c, err, tag⟩
    rw [hh] at h
    simp only
    split
    · exact ⟨SI_of_eq h.1 rfl rfl rfl, h.2⟩
    · split
      · exact ⟨SI_of_eq h.1 rfl rfl rfl, h.2⟩
      · exact ⟨h.1, h.2⟩

theorem EmLocal_mono {H H' : Nat → Prop} (hh : ∀ i, H i → H' i) {e : Emission}
    (h : EmLocal H e) : EmLocal H' e := by
  unfold EmLocal at *
  split <;> simp_all

theorem trace_ok : ∀ (ops : List Op) (p : Peer), SI ps0 len0 N p →
    (∀ op, op ∈ ops → ∀ ch, ch ∈ op.chunks → ch < N) →
    ∀ e, e ∈ trace p ops →
      SI ps0 len0 N e.pre ∧ EmLocal (fun i => ∃ h, Op.eHave i h ∈ ops) e
  | [], _, _, _, e, he => by simp [trace] at he
  | op :: ops, p, hp, hops, e, he => by
    have hs := step_ok p op hp (hops op List.mem_cons_self)
    simp only [trace, List.mem_append] at he
    rcases he with he | he
    · have := hs.2 e he
      exact ⟨this.1, EmLocal_mono (fun i ⟨h, hh⟩ => ⟨h, hh ▸ List.mem_cons_self⟩) this.2⟩
    · have := trace_ok ops (step p op).1 hs.1
        (fun o ho => hops o (List.mem_cons_of_mem _ ho)) e he
      exact ⟨this.1, EmLocal_mono (fun i ⟨h, hh⟩ => ⟨h, List.mem_cons_of_mem _ hh⟩) this.2⟩

end
end Storrent.PeerOut
