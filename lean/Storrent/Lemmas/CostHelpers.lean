import Storrent.Lemmas.CostI
/- cost specifications of the helpers of Model/PeerMsg (see CostI.lean) -/
namespace Storrent.PeerMsg
open Storrent Storrent.RequestsI Storrent.Wire

attribute [local irreducible] get modify emit charge chargeStore tagAs throw fault failTag write
  isCongested writeEvent failW fromChunk toChunk chunkSize numPieces drop dropAll reject docancel
  active startStopUpload rejectAll unchoke maybeInterested maybeRequestLoop maybeRequest pexAdd pexDrop

macro "cost_side" : tactic => `(tactic| first
  | omega
  | (simp only [evCost, msgCost, torCost, outCost, potA, potB, potC, potD, uploadQ] <;> omega)
  | (simp [evCost, msgCost, torCost, outCost, potA, potB, potC, potD, uploadQ] <;> omega))

theorem cspec_modify_frame (f : PeerState → PeerState) (h : ∀ s, Pot (f s) = Pot s) : CSpec (modify f) 0 :=
  cspec_modify_le f 0 (fun s => by rw [h s]; omega)

theorem spec_emit (o : Out) : Spec (emit o) := by
  intro c hi; simp [Good, Geo]; exact inv_frame hi rfl rfl rfl

/-- primitive cost leaves, weakened to the budget at hand -/
macro "cspec_prim" : tactic => `(tactic| first
  | exact cspec_mono (by cost_side) (cspec_pure _)
  | exact cspec_mono (by cost_side) (cspec_charge _)
  | exact cspec_mono (by cost_side) (cspec_chargeStore _)
  | exact cspec_mono (by cost_side) (cspec_tagAs _)
  | exact cspec_mono (by cost_side) (cspec_emit _)
  | exact cspec_mono (by cost_side) (cspec_throw _)
  | exact cspec_mono (by cost_side) (cspec_failTag _ _)
  | exact cspec_mono (by cost_side) (cspec_failW _)
  | exact cspec_mono (by cost_side) (cspec_fault _)
  | exact cspec_mono (by cost_side) (cspec_writeEvent _)
  | (refine cspec_mono (K := 0) ?le ?h
     case h => (apply cspec_modify_frame; intro _; rfl)
     case le => omega))

/-- the cost of a statement, found by instance resolution (so that sequencing needs no
    guessing): `HasCost x K` holds a proof of `CSpec x K` -/
class HasCost {α : Type} (x : PM α) (K : outParam Nat) : Prop where
  spec : CSpec x K

instance {α} (a : α) : HasCost (pure a : PM α) 0 := ⟨cspec_pure a⟩
instance (n : Nat) : HasCost (charge n) n := ⟨cspec_charge n⟩
instance (n : Nat) : HasCost (chargeStore n) 0 := ⟨cspec_chargeStore n⟩
instance (t : String) : HasCost (tagAs t) 0 := ⟨cspec_tagAs t⟩
instance (o : Out) : HasCost (emit o) (outCost o) := ⟨cspec_emit o⟩
instance {α} (e : String) : HasCost (throw e : PM α) 0 := ⟨cspec_throw e⟩
instance {α} (t e : String) : HasCost (failTag t e : PM α) 0 := ⟨cspec_failTag t e⟩
instance {α} (r : WRes) : HasCost (failW r : PM α) 0 := ⟨cspec_failW r⟩
instance {α} (w : String) : HasCost (fault w : PM α) 0 := ⟨cspec_fault w⟩
instance (e : TEv) : HasCost (writeEvent e) (evCost + torCost e) := ⟨cspec_writeEvent e⟩

theorem cspec_bindI {α β} {x : PM α} {f : α → PM β} {K K1 : Nat} [h : HasCost x K1] (hs : Spec x)
    (hf : ∀ a, CSpec (f a) (K - K1)) (hk : K1 ≤ K) : CSpec (x >>= f) K :=
  cspec_bind hs h.spec hf hk

/-- a `modify` that leaves the potential (and geometry, requests) alone, followed by more -/
theorem cspec_bind_modify {β} {f : PeerState → PeerState} {g : Unit → PM β} {K : Nat}
    (hp : ∀ s, Pot (f s) = Pot s) (hs : Spec (modify f)) (hg : CSpec (g ()) K) : CSpec (modify f >>= g) K :=
  cspec_bind (K1 := 0) hs (cspec_modify_frame f hp) (fun _ => by simpa using hg) (by omega)

theorem cspec_leafI {α} {x : PM α} {K K1 : Nat} [h : HasCost x K1] (hk : K1 ≤ K) : CSpec x K :=
  cspec_mono hk h.spec

macro "spec_leaf2" : tactic => `(tactic| first | spec_leaf | exact spec_emit _)

theorem cspec_mono' {α} {x : PM α} {K K' : Nat} (h : CSpec x K) (hk : K ≤ K') : CSpec x K' := cspec_mono hk h

macro "cspec_auto" : tactic => `(tactic| repeat' (first
  | (refine cspec_leafI ?_; cost_side)
  | (refine cspec_mono (K := 0) ?_ ?_; omega; apply cspec_modify_frame; intro _; rfl)
  | assumption
  | (refine cspec_mono' (by assumption) ?_; cost_side)
  | (refine cspec_get_bind (fun _ => ?_))
  | (refine cspec_bind_modify ?_ ?_ ?_; (intro _; rfl); frame_modify)
  | (refine cspec_bindI ?_ (fun _ => ?_) ?_; spec_leaf2; rotate_left; cost_side)
  | split | (dsimp only)))

theorem cspec_write (m : Msg) : CSpec (write m) msgCost := by
  unfold write
  cspec_auto
instance (m : Msg) : HasCost (write m) msgCost := ⟨cspec_write m⟩

theorem cspec_isCongested : CSpec isCongested 0 := by
  unfold isCongested; cspec_auto
instance : HasCost isCongested 0 := ⟨cspec_isCongested⟩

theorem cspec_reject (i b l : Nat) : CSpec (reject i b l) msgCost := by
  have := cspec_write
  unfold reject
  refine cspec_get_bind (fun s => ?_)
  split
  · exact this _
  · cspec_auto

theorem cspec_chunkSize (ch : Nat) : CSpec (chunkSize ch) 0 := by
  unfold chunkSize; cspec_auto
instance (ch : Nat) : HasCost (chunkSize ch) 0 := ⟨cspec_chunkSize ch⟩
instance (i b l : Nat) : HasCost (reject i b l) msgCost := ⟨cspec_reject i b l⟩


/-! helpers that read the geometry -/
theorem cspecG_fromChunk {N : Nat} (ch : Nat) : CSpecG N (fromChunk ch) 0 := by
  unfold fromChunk
  refine cspecG_get_bind (fun s => ?_)
  split
  · exact cspecG_of_cspec (cspec_fault _)
  · exact cspecG_of_cspec (cspec_pure _)

theorem cspecG_toChunk {N : Nat} (i b : Nat) : CSpecG N (toChunk i b) 0 := by
  unfold toChunk
  refine cspecG_get_bind (fun s => ?_)
  dsimp only
  split
  · exact cspecG_of_cspec (cspec_fault _)
  · split <;> exact cspecG_of_cspec (cspec_pure _)

theorem cspecG_numPieces {N : Nat} : CSpecG N numPieces 0 := by
  unfold numPieces
  refine cspecG_get_bind (fun s => ?_)
  split
  · exact cspecG_of_cspec (cspec_fault _)
  · exact cspecG_of_cspec (cspec_pure _)

theorem cspecG_drop {N : Nat} (ch : Nat) : CSpecG N (drop ch) evCost := by
  unfold drop
  refine cspecG_bind (K1 := 0) (specG_fromChunk ch) (cspecG_fromChunk ch) (fun r => ?_) (by omega)
  exact cspecG_of_cspec (cspec_mono (by simp [torCost]) (cspec_writeEvent _))

theorem cspecG_dropAll {N : Nat} (l : List Nat) : CSpecG N (dropAll l) (evCost * l.length) := by
  induction l with
  | nil => unfold dropAll; exact cspecG_of_cspec (cspec_mono (by simp) (cspec_pure ()))
  | cons a l ih =>
    unfold dropAll
    rw [List.length_cons, Nat.mul_succ]
    refine cspecG_bind (K1 := evCost) (specG_drop a) (cspecG_drop a) (fun _ => ?_) (by omega)
    exact cspecG_mono (by omega) ih

theorem cspec_dropAll_nil : CSpec (dropAll []) 0 := by unfold dropAll; exact cspec_pure ()

theorem cspecG_docancel {N : Nat} (ch : Nat) : CSpecG N (docancel ch) msgCost := by
  unfold docancel
  refine cspecG_bind (K1 := 0) (specG_fromChunk ch) (cspecG_fromChunk ch) (fun r => ?_) (by omega)
  refine cspecG_bind (K1 := 0) (specG_of_spec (spec_chunkSize ch)) (cspecG_of_cspec (cspec_chunkSize ch)) (fun _ => ?_) (by omega)
  exact cspecG_of_cspec (cspec_mono (by omega) (cspec_write _))

theorem cspec_active : CSpec active (evCost + 512) := by
  unfold active
  cspec_auto

theorem cspec_startStopUpload : CSpec startStopUpload 0 := by
  unfold startStopUpload; cspec_auto

theorem cspec_rejectAll (l : List (Nat × Nat × Nat)) : CSpec (rejectAll l) (msgCost * l.length) := by
  induction l with
  | nil => unfold rejectAll; exact cspec_mono (by simp) (cspec_pure _)
  | cons a l ih =>
    obtain ⟨i, b, n⟩ := a
    unfold rejectAll
    rw [List.length_cons, Nat.mul_succ]
    refine cspec_bind (K1 := msgCost) (spec_reject i b n) (cspec_reject i b n) (fun r => ?_) (by omega)
    split
    · exact cspec_mono (by omega) (cspec_pure _)
    · exact cspec_mono (by omega) ih

theorem cspec_maybeInterested : CSpec maybeInterested msgCost := by
  have := cspec_write
  unfold maybeInterested
  refine cspec_get_bind (fun s => ?_)
  dsimp only
  split
  · cspec_auto
  · refine cspec_bind (K1 := msgCost) (spec_write _) (this _) (fun _ => ?_) (by omega)
    cspec_auto

theorem cspec_pexAdd (l : List PexPeer) : CSpec (pexAdd l) ((40 + evCost + 512) * l.length) := by
  induction l with
  | nil => unfold pexAdd; exact cspec_mono (by simp) (cspec_pure _)
  | cons p l ih =>
    unfold pexAdd
    rw [List.length_cons, Nat.mul_succ]
    refine cspec_get_bind (fun s => ?_)
    dsimp only
    split
    · refine cspec_bind (K1 := 0) (by frame_modify) (by apply cspec_modify_frame; intro _; rfl) (fun _ => ?_) (by omega)
      exact cspec_mono (by omega) ih
    · refine cspec_bind (K1 := 0) (by frame_modify) (by apply cspec_modify_frame; intro _; rfl) (fun _ => ?_) (by omega)
      refine cspec_bind (K1 := 40) (spec_charge _) (cspec_charge _) (fun _ => ?_) (by omega)
      refine cspec_bind (K1 := evCost + 512) (spec_writeEvent _)
        (cspec_mono (by simp [torCost]) (cspec_writeEvent _)) (fun _ => ?_) (by omega)
      exact cspec_mono (by omega) ih

theorem cspec_pexDrop (l : List PexPeer) : CSpec (pexDrop l) 0 := by
  induction l with
  | nil => unfold pexDrop; exact cspec_pure _
  | cons p l ih =>
    unfold pexDrop
    cspec_auto


instance : HasCost active (evCost + 512) := ⟨cspec_active⟩
instance : HasCost startStopUpload 0 := ⟨cspec_startStopUpload⟩
instance : HasCost maybeInterested msgCost := ⟨cspec_maybeInterested⟩
instance (l : List (Nat × Nat × Nat)) : HasCost (rejectAll l) (msgCost * l.length) := ⟨cspec_rejectAll l⟩
instance (l : List PexPeer) : HasCost (pexAdd l) ((40 + evCost + 512) * l.length) := ⟨cspec_pexAdd l⟩
instance (l : List PexPeer) : HasCost (pexDrop l) 0 := ⟨cspec_pexDrop l⟩
instance (t1 t2 : String) : HasCost (retractBitmap t1 t2) evCost := ⟨cspec_retractBitmap t1 t2⟩
instance (ch : Nat) (ro : Bool) : HasCost (delReq ch ro) 0 := ⟨cspec_delReq ch ro⟩

/-- spend a credit: the potential released on the way to `c1` pays for what follows -/
theorem CostOut.credit {α} {st : Step α} {c c1 : Ctx} {K D D' : Nat}
    (h : Psi c1 + Pot c1.s + D ≤ Psi c + Pot c.s + K) (h2 : CostOut st c1 D') (hd : D' ≤ D) : CostOut st c K := by
  cases st <;> simp_all [Le] <;> omega

/-- the tail of a successful Choke: the upload queue is forgotten and rejected one by one,
    paid for by the potential it held -/
theorem cspec_chokeTail : CSpec (do
      let s2 ← get
      modify (fun s => { s with amUnchoking := false, upload := [] })
      rejectAll s2.upload) 0 := by
  intro c hi
  simp only [bindE, get, modify]
  have hi2 : Inv ({ c.s with amUnchoking := false, upload := [] }) := inv_frame hi rfl rfl rfl
  have key := cspec_rejectAll c.s.upload { c with s := { c.s with amUnchoking := false, upload := [] } } hi2
  refine CostOut.credit (D := msgCost * c.s.upload.length) ?_ key (Nat.le_refl _)
  simp only [Psi, Pot, List.length_nil, potC, msgCost]; omega


theorem cspec_unchoke (u : Bool) : CSpec (unchoke u) msgCost := by
  have := cspec_chokeTail
  unfold unchoke
  cspec_auto
instance (u : Bool) : HasCost (unchoke u) msgCost := ⟨cspec_unchoke u⟩

end Storrent.PeerMsg
