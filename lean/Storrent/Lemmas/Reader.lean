import Storrent.Model.Reader
import Storrent.Lemmas.Requested
/-
Helper lemmas for C02 / C10 about the reader model: what `Torrent.Request`, the loops of
`Reader.request` and `request` itself leave unchanged (the store, the reader's window and
cursor), and what `request` does to `r.requested`.
-/
namespace Storrent.Reader
open Storrent Storrent.Requested

/-- the part of the world a reader cannot change -/
def SameStore (w w' : World) : Prop :=
  w'.ps = w.ps ∧ w'.total = w.total ∧ w'.numHashes = w.numHashes ∧ w'.data = w.data ∧
  w'.dead = w.dead ∧ w'.infoComplete = w.infoComplete

theorem SameStore.refl (w : World) : SameStore w w := ⟨rfl, rfl, rfl, rfl, rfl, rfl⟩

theorem SameStore.trans {a b c : World} (h1 : SameStore a b) (h2 : SameStore b c) : SameStore a c := by
  obtain ⟨a1, a2, a3, a4, a5, a6⟩ := h1
  obtain ⟨b1, b2, b3, b4, b5, b6⟩ := h2
  exact ⟨b1.trans a1, b2.trans a2, b3.trans a3, b4.trans a4, b5.trans a5, b6.trans a6⟩

theorem torRequest_same (w : World) (i : Nat) (p : Int) (rq want : Bool) :
    SameStore w (torRequest w i p rq want).1 := by
  unfold torRequest
  split; · exact SameStore.refl w
  split; · exact SameStore.refl w
  split; · exact SameStore.refl w
  split; · exact SameStore.refl w
  split; · exact SameStore.refl w
  split <;> exact ⟨rfl, rfl, rfl, rfl, rfl, rfl⟩

theorem addRest_same (w : World) (l acc : List (Nat × Int)) : SameStore w (addRest w l acc).1 := by
  induction l generalizing w acc with
  | nil => exact SameStore.refl w
  | cons c r ih =>
    unfold addRest
    have h := torRequest_same w c.1 c.2 true false
    split
    · rename_i w' heq; rw [heq] at h; exact h
    · rename_i w' res heq; rw [heq] at h; exact h.trans (ih w' _)

theorem delOld_same (w : World) (l : List (Nat × Int)) : SameStore w (delOld w l).1 := by
  induction l generalizing w with
  | nil => exact SameStore.refl w
  | cons c r ih =>
    unfold delOld
    have h := torRequest_same w c.1 c.2 false false
    split
    · rename_i w' heq; rw [heq] at h; exact h
    · rename_i w' res heq; rw [heq] at h; exact h.trans (ih w')

/-- what `request` may change in the reader: only `requested`, `requestedIndex`, `ch` -/
def SameCursor (r r' : Rd) : Prop :=
  r'.offset = r.offset ∧ r'.length = r.length ∧ r'.position = r.position ∧
  r'.closed = r.closed ∧ r'.cancelled = r.cancelled

theorem requestSlow_frame (f : Bool) (cfg : Cfg) (w : World) (r : Rd) (pos limit : Int) :
    SameStore w (requestSlow f cfg w r pos limit).w ∧
    SameCursor r (requestSlow f cfg w r pos limit).r := by
  unfold requestSlow
  split
  · exact ⟨SameStore.refl w, rfl, rfl, rfl, rfl, rfl⟩
  · have := delOld_same w r.requested
    exact ⟨this, rfl, rfl, rfl, rfl, rfl⟩
  · rename_i c rest _
    have h0 := torRequest_same w c.1 c.2 true true
    split
    · rename_i w0 heq; rw [heq] at h0; exact ⟨h0, rfl, rfl, rfl, rfl, rfl⟩
    · rename_i w0 res heq
      rw [heq] at h0
      simp only []
      refine ⟨?_, rfl, rfl, rfl, rfl, rfl⟩
      by_cases he : res.err.isSome
      · simp only [he, if_true]
        exact h0.trans (delOld_same w0 r.requested)
      · simp only [he]
        have h1 := addRest_same w0 rest (if res.d = true then [c] else [])
        by_cases hp : (addRest w0 rest (if res.d = true then [c] else [])).2.2 = true
        · simp [hp]; exact h0.trans h1
        · simp [hp]
          exact (h0.trans h1).trans (delOld_same _ r.requested)

theorem request_frame (cfg : Cfg) (w : World) (r : Rd) (pos limit : Int) :
    SameStore w (request cfg w r pos limit).w ∧ SameCursor r (request cfg w r pos limit).r := by
  unfold request
  split
  · split
    · exact ⟨SameStore.refl w, rfl, rfl, rfl, rfl, rfl⟩
    · split
      · exact ⟨SameStore.refl w, rfl, rfl, rfl, rfl, rfl⟩
      · exact requestSlow_frame false cfg w r pos limit
  · exact requestSlow_frame false cfg w r pos limit

/-- `request(-1, -1)` (Close, EOF, cancellation, dead torrent): the repaired reader always
    takes the slow path, its chunk list is empty, and it ends holding nothing -/
theorem request_withdraw (cfg : Cfg) (w : World) (r : Rd) :
    (request cfg w r (-1) (-1)).r.requested = [] ∧
    (request cfg w r (-1) (-1)).r.requestedIndex = -1 ∧
    (request cfg w r (-1) (-1)).r.ch = none ∧
    (request cfg w r (-1) (-1)).w = (delOld w r.requested).1 := by
  have hc : chunks cfg w.ps (-1) (-1) = some [] := by simp [chunks]
  unfold request
  have : ¬ (r.requestedIndex ≥ 0 ∧ (-1 : Int) ≥ 0) := by omega
  rw [if_neg this]
  unfold requestSlow
  rw [hc]
  simp


/-! ### withdrawals through the event loop remove exactly what the reader held -/

def Alive (w : World) : Prop := w.dead = false ∧ w.infoComplete = true

theorem torRequest_del (w : World) (ha : Alive w) (i : Nat) (p : Int) (hi : i < w.numHashes) :
    torRequest w i p false false =
      ({ w with rs := (del w.rs i p).1 }, some ⟨true, none, none⟩) := by
  obtain ⟨hd, hic⟩ := ha
  unfold torRequest requestPiece
  have h1 : ¬ i ≥ w.numHashes := by omega
  have h2 : ¬ i > w.numHashes := by omega
  simp [hic, hd, h1, h2]

theorem delOld_cnt (l : List (Nat × Int)) : ∀ (w : World), Alive w →
    (∀ c ∈ l, c.1 < w.numHashes) →
    (delOld w l).2 = false ∧ Alive (delOld w l).1 ∧
    ∀ j q, cnt (delOld w l).1.rs j q = cnt w.rs j q - l.count (j, q) := by
  induction l with
  | nil => intro w ha _; simp [delOld, ha]
  | cons c r ih =>
    intro w ha hl
    have hc : c.1 < w.numHashes := hl c (by simp)
    unfold delOld
    rw [torRequest_del w ha c.1 c.2 hc]
    simp only []
    have ha' : Alive { w with rs := (del w.rs c.1 c.2).1 } := ha
    obtain ⟨h1, h2, h3⟩ := ih { w with rs := (del w.rs c.1 c.2).1 } ha'
      (fun x hx => hl x (List.mem_cons_of_mem _ hx))
    refine ⟨h1, h2, ?_⟩
    intro j q
    rw [h3 j q]
    simp only []
    rw [cnt_del]
    by_cases hjq : (j, q) = c
    · subst hjq; simp [List.count_cons]; omega
    · have h1 : ¬ (j = c.1 ∧ q = c.2) := by
        intro ⟨a, b⟩; apply hjq; cases c; simp_all
      have h2 : ¬ (c = (j, q)) := fun h => hjq h.symm
      simp [h1, List.count_cons, h2]

end Storrent.Reader
