import Storrent.Model.Reader
import Storrent.Lemmas.Requested
/-
Helper lemmas for C02 / C10 about the reader model: what `Torrent.Request`, the loops of
`Reader.request` and `request` itself leave unchanged (the store, the reader's window and
cursor), and what `request` does to `r.requested`.
-/
namespace Storrent.Reader
open Storrent Storrent.Requested

/-- the part of the world a reader cannot change -/
def SameStore (w w' : World) : Prop :=
  w'.ps = w.ps ∧ w'.total = w.total ∧ w'.numHashes = w.numHashes ∧ w'.data = w.data ∧
  w'.dead = w.dead ∧ w'.infoComplete = w.infoComplete

theorem SameStore.refl (w : World) : SameStore w w := ⟨rfl, rfl, rfl, rfl, rfl, rfl⟩

theorem SameStore.trans {a b c : World} (h1 : SameStore a b) (h2 : SameStore b c) : SameStore a c := by
  obtain ⟨a1, a2, a3, a4, a5, a6⟩ := h1
  obtain ⟨b1, b2, b3, b4, b5, b6⟩ := h2
  exact ⟨b1.trans a1, b2.trans a2, b3.trans a3, b4.trans a4, b5.trans a5, b6.trans a6⟩

theorem torRequest_same (w : World) (i : Nat) (p : Int) (rq want : Bool) :
    SameStore w (torRequest w i p rq want).1 := by
  unfold torRequest
  split; · exact SameStore.refl w
  split; · exact SameStore.refl w
  split; · exact SameStore.refl w
  split; · exact SameStore.refl w
  split; · exact SameStore.refl w
  split <;> exact ⟨rfl, rfl, rfl, rfl, rfl, rfl⟩

theorem addRest_same (w : World) (l acc : List (Nat × Int)) : SameStore w (addRest w l acc).1 := by
  induction l generalizing w acc with
  | nil => exact SameStore.refl w
  | cons c r ih =>
    unfold addRest
    have h := torRequest_same w c.1 c.2 true false
    split
    · rename_i w' heq; rw [heq] at h; exact h
    · rename_i w' res heq; rw [heq] at h; exact h.trans (ih w' _)

theorem delOld_same (w : World) (l : List (Nat × Int)) : SameStore w (delOld w l).1 := by
  induction l generalizing w with
  | nil => exact SameStore.refl w
  | cons c r ih =>
    unfold delOld
    have h := torRequest_same w c.1 c.2 false false
    split
    · rename_i w' heq; rw [heq] at h; exact h
    · rename_i w' res heq; rw [heq] at h; exact h.trans (ih w')

/-- what `request` may change in the reader: only `requested`, `requestedIndex`, `ch` -/
def SameCursor (r r' : Rd) : Prop :=
  r'.offset = r.offset ∧ r'.length = r.length ∧ r'.position = r.position ∧
  r'.closed = r.closed ∧ r'.cancelled = r.cancelled

theorem requestSlow_frame (f : Bool) (cfg : Cfg) (w : World) (r : Rd) (pos limit : Int) :
    SameStore w (requestSlow f cfg w r pos limit).w ∧
    SameCursor r (requestSlow f cfg w r pos limit).r := by
  unfold requestSlow
  split
  · exact ⟨SameStore.refl w, rfl, rfl, rfl, rfl, rfl⟩
  · have := delOld_same w r.requested
    exact ⟨this, rfl, rfl, rfl, rfl, rfl⟩
  · rename_i c rest _
    have h0 := torRequest_same w c.1 c.2 true true
    split
    · rename_i w0 heq; rw [heq] at h0; exact ⟨h0, rfl, rfl, rfl, rfl, rfl⟩
    · rename_i w0 res heq
      rw [heq] at h0
      simp only []
      refine ⟨?_, rfl, rfl, rfl, rfl, rfl⟩
      by_cases he : res.err.isSome
      · simp only [he, if_true]
        exact h0.trans (delOld_same w0 r.requested)
      · simp only [he]
        have h1 := addRest_same w0 rest (if res.d = true then [c] else [])
        by_cases hp : (addRest w0 rest (if res.d = true then [c] else [])).2.2 = true
        · simp [hp]; exact h0.trans h1
        · simp [hp]
          exact (h0.trans h1).trans (delOld_same _ r.requested)

theorem request_frame (cfg : Cfg) (w : World) (r : Rd) (pos limit : Int) :
    SameStore w (request cfg w r pos limit).w ∧ SameCursor r (request cfg w r pos limit).r := by
  unfold request
  split
  · split
    · exact ⟨SameStore.refl w, rfl, rfl, rfl, rfl, rfl⟩
    · split
      · exact ⟨SameStore.refl w, rfl, rfl, rfl, rfl, rfl⟩
      · exact requestSlow_frame false cfg w r pos limit
  · exact requestSlow_frame false cfg w r pos limit

/-- `request(-1, -1)` (Close, EOF, cancellation, dead torrent): the repaired reader always
    takes the slow path, its chunk list is empty, and it ends holding nothing -/
theorem request_withdraw (cfg : Cfg) (w : World) (r : Rd) :
    (request cfg w r (-1) (-1)).r.requested = [] ∧
    (request cfg w r (-1) (-1)).r.requestedIndex = -1 ∧
    (request cfg w r (-1) (-1)).r.ch = none ∧
    (request cfg w r (-1) (-1)).w = (delOld w r.requested).1 := by
  have hc : chunks cfg w.ps (-1) (-1) = some [] := by simp [chunks]
  unfold request
  have : ¬ (r.requestedIndex ≥ 0 ∧ (-1 : Int) ≥ 0) := by omega
  rw [if_neg this]
  unfold requestSlow
  rw [hc]
  simp


/-! ### withdrawals through the event loop remove exactly what the reader held -/

def Alive (w : World) : Prop := w.dead = false ∧ w.infoComplete = true

theorem torRequest_del (w : World) (ha : Alive w) (i : Nat) (p : Int) (hi : i < w.numHashes) :
    torRequest w i p false false =
      ({ w with rs := (del w.rs i p).1 }, some ⟨true, none, none⟩) := by
  obtain ⟨hd, hic⟩ := ha
  unfold torRequest requestPiece
  have h1 : ¬ i ≥ w.numHashes := by omega
  have h2 : ¬ i > w.numHashes := by omega
  simp [hic, hd, h1, h2]

theorem delOld_cnt (l : List (Nat × Int)) : ∀ (w : World), Alive w →
    (∀ c ∈ l, c.1 < w.numHashes) →
    (delOld w l).2 = false ∧ Alive (delOld w l).1 ∧
    ∀ j q, cnt (delOld w l).1.rs j q = cnt w.rs j q - l.count (j, q) := by
  induction l with
  | nil => intro w ha _; simp [delOld, ha]
  | cons c r ih =>
    intro w ha hl
    have hc : c.1 < w.numHashes := hl c (by simp)
    unfold delOld
    rw [torRequest_del w ha c.1 c.2 hc]
    simp only []
    have ha' : Alive { w with rs := (del w.rs c.1 c.2).1 } := ha
    obtain ⟨h1, h2, h3⟩ := ih { w with rs := (del w.rs c.1 c.2).1 } ha'
      (fun x hx => hl x (List.mem_cons_of_mem _ hx))
    refine ⟨h1, h2, ?_⟩
    intro j q
    rw [h3 j q]
    simp only []
    rw [cnt_del]
    by_cases hjq : (j, q) = c
    · subst hjq; simp [List.count_cons]; omega
    · have h1 : ¬ (j = c.1 ∧ q = c.2) := by
        intro ⟨a, b⟩; apply hjq; cases c; simp_all
      have h2 : ¬ (c = (j, q)) := fun h => hjq h.symm
      simp [h1, List.count_cons, h2]

end Storrent.Reader

namespace Storrent.Reader
open Storrent Storrent.Requested

/-! ### `Torrent.Request` by cases; no Go fault inside a valid geometry -/

/-- the geometry `MetadataComplete` establishes: a positive piece size, a piece table that
    covers the torrent (`len(pieces) = ⌈total/ps⌉`) and at least as long as the hash table -/
def Geom (w : World) : Prop :=
  0 < w.ps ∧ w.numHashes ≤ w.data.length ∧ w.total ≤ w.data.length * w.ps

theorem Geom.same {w w' : World} (h : SameStore w w') (g : Geom w) : Geom w' := by
  obtain ⟨h1, h2, h3, h4, _, _⟩ := h
  unfold Geom; rw [h1, h2, h3, h4]; exact g

theorem complete?_some (w : World) (i : Nat) (hi : i < w.data.length) :
    ∃ b, w.complete? i = some b := by
  unfold World.complete?
  rw [List.getElem?_eq_getElem hi]
  exact ⟨_, rfl⟩

/-- the three things `Torrent.Request` can do -/
inductive TRCase (w : World) (i : Nat) (p : Int) (rq want : Bool) (w' : World) (res : TRes) : Prop
  /-- nothing reaches the loop: metadata incomplete, index beyond the hash table, piece
      already complete, torrent dead -/
  | nothing (hw : w' = w) (hd : res.d = false) (hc : res.ch = none)
  /-- the loop ran `Requested.Add` -/
  | added (hrq : rq = true) (hi : i < w.numHashes) (hinc : w.complete? i = some false)
      (hw : w' = { w with rs := (add w.rs i p want).1 }) (hd : res.d = true) (he : res.err = none)
      (hc : res.ch = if want then (add w.rs i p want).2.1 else none)
  /-- the loop ran `Requested.Del` -/
  | removed (hrq : rq = false) (hi : i < w.numHashes)
      (hw : w' = { w with rs := (del w.rs i p).1 }) (hd : res.d = true) (he : res.err = none)
      (hc : res.ch = none)

theorem torRequest_cases (w : World) (i : Nat) (p : Int) (rq want : Bool)
    (hg : w.numHashes ≤ w.data.length) :
    ∃ res, (torRequest w i p rq want).2 = some res ∧
      TRCase w i p rq want (torRequest w i p rq want).1 res := by
  unfold torRequest
  by_cases h1 : (!w.infoComplete) = true
  · rw [if_pos h1]; exact ⟨_, rfl, .nothing rfl rfl rfl⟩
  · rw [if_neg h1]
    by_cases h2 : i ≥ w.numHashes
    · rw [if_pos h2]; exact ⟨_, rfl, .nothing rfl rfl rfl⟩
    · rw [if_neg h2]
      have hi : i < w.numHashes := by omega
      obtain ⟨b, hb⟩ := complete?_some w i (by omega)
      have h3 : ¬ (rq = true ∧ w.complete? i = none) := by rw [hb]; simp
      rw [if_neg h3]
      by_cases h4 : rq = true ∧ w.complete? i = some true
      · rw [if_pos h4]; exact ⟨_, rfl, .nothing rfl rfl rfl⟩
      · rw [if_neg h4]
        by_cases h5 : w.dead = true
        · rw [if_pos h5]; exact ⟨_, rfl, .nothing rfl rfl rfl⟩
        · rw [if_neg h5]
          have hgt : ¬ i > w.numHashes := by omega
          unfold requestPiece
          rw [if_neg hgt]
          cases rq with
          | true =>
            have hbf : b = false := by
              cases b with
              | false => rfl
              | true => exact absurd ⟨rfl, hb⟩ h4
            subst hbf
            simp only [hb, if_true]
            refine ⟨_, rfl, .added rfl hi hb ?_ rfl rfl ?_⟩ <;> simp
          | false =>
            simp only [Bool.false_eq_true, if_false]
            exact ⟨_, rfl, .removed rfl hi rfl rfl rfl (by simp)⟩

theorem torRequest_ne_none (w : World) (i : Nat) (p : Int) (rq want : Bool)
    (hg : w.numHashes ≤ w.data.length) : (torRequest w i p rq want).2 ≠ none := by
  obtain ⟨res, h, _⟩ := torRequest_cases w i p rq want hg
  rw [h]; simp

end Storrent.Reader

namespace Storrent.Reader
open Storrent Storrent.Requested

theorem torRequest_eq (w : World) (i : Nat) (p : Int) (rq want : Bool)
    (hg : w.numHashes ≤ w.data.length) :
    ∃ w' res, torRequest w i p rq want = (w', some res) ∧ TRCase w i p rq want w' res ∧
      SameStore w w' := by
  obtain ⟨res, h, hc⟩ := torRequest_cases w i p rq want hg
  refine ⟨(torRequest w i p rq want).1, res, ?_, hc, torRequest_same w i p rq want⟩
  rw [← h]

theorem hg_same {w w' : World} (h : SameStore w w') (hg : w.numHashes ≤ w.data.length) :
    w'.numHashes ≤ w'.data.length := by
  obtain ⟨_, _, h3, h4, _, _⟩ := h; rw [h3, h4]; exact hg

theorem addRest_nopanic (l : List (Nat × Int)) : ∀ (w : World) (acc : List (Nat × Int)),
    w.numHashes ≤ w.data.length → (addRest w l acc).2.2 = false := by
  induction l with
  | nil => intro w acc _; rfl
  | cons c r ih =>
    intro w acc hg
    obtain ⟨w', res, he, _, hs⟩ := torRequest_eq w c.1 c.2 true false hg
    unfold addRest
    rw [he]
    exact ih w' _ (hg_same hs hg)

theorem delOld_nopanic (l : List (Nat × Int)) : ∀ (w : World),
    w.numHashes ≤ w.data.length → (delOld w l).2 = false := by
  induction l with
  | nil => intro w _; rfl
  | cons c r ih =>
    intro w hg
    obtain ⟨w', res, he, _, hs⟩ := torRequest_eq w c.1 c.2 false false hg
    unfold delOld
    rw [he]
    exact ih w' (hg_same hs hg)

theorem chunks_ne_none (cfg : Cfg) (ps : Nat) (pos limit : Int) (hps : 0 < ps) :
    chunks cfg ps pos limit ≠ none := by
  unfold chunks
  split
  · simp
  · have : ¬ ps = 0 := by omega
    rw [if_neg this]
    simp only []
    split <;> simp

theorem requestSlow_nopanic (f : Bool) (cfg : Cfg) (w : World) (r : Rd) (pos limit : Int)
    (g : Geom w) : (requestSlow f cfg w r pos limit).panic = false := by
  obtain ⟨hps, hg, _⟩ := g
  unfold requestSlow
  cases hc : chunks cfg w.ps pos limit with
  | none => exact absurd hc (chunks_ne_none cfg w.ps pos limit hps)
  | some l =>
    cases l with
    | nil => simp only []; exact delOld_nopanic _ w hg
    | cons c rest =>
      simp only []
      obtain ⟨w0, res, he, _, hs⟩ := torRequest_eq w c.1 c.2 true true hg
      rw [he]
      simp only []
      have hg0 := hg_same hs hg
      by_cases herr : res.err.isSome = true
      · simp only [herr, if_true]
        exact delOld_nopanic _ w0 hg0
      · simp only [herr]
        have hp := addRest_nopanic rest w0 (if res.d = true then [c] else []) hg0
        simp only [Bool.false_eq_true, if_false, hp]
        exact delOld_nopanic _ _ (hg_same (addRest_same w0 rest _) hg0)

theorem request_nopanic (cfg : Cfg) (w : World) (r : Rd) (pos limit : Int) (g : Geom w) :
    (request cfg w r pos limit).panic = false := by
  unfold request
  have hps : ¬ w.ps = 0 := by have := g.1; omega
  by_cases h1 : r.requestedIndex ≥ 0 ∧ pos ≥ 0
  · rw [if_pos h1, if_neg hps]
    by_cases h2 : r.requestedIndex = (cacheIndex w.ps pos : Int)
    · rw [if_pos h2]
    · rw [if_neg h2]; exact requestSlow_nopanic false cfg w r pos limit g
  · rw [if_neg h1]; exact requestSlow_nopanic false cfg w r pos limit g

theorem readAt_nopanic (w : World) (g : Geom w) (m a : Nat) : readAt w m (a : Int) ≠ .panic := by
  obtain ⟨hps, _, htot⟩ := g
  unfold readAt
  split
  · simp
  · rename_i hlt
    have hps' : ¬ w.ps = 0 := by omega
    rw [if_neg hps']
    have hdiv : Int.tdiv (a : Int) (w.ps : Int) = ((a / w.ps : Nat) : Int) := by simp [Int.tdiv]
    have hmod : Int.tmod (a : Int) (w.ps : Int) = ((a % w.ps : Nat) : Int) := by simp [Int.tmod]
    simp only [hdiv, hmod]
    have h0 : ¬ ((a / w.ps : Nat) : Int) < 0 := by
      have := Int.natCast_nonneg (a / w.ps); omega
    rw [if_neg h0]
    simp only [Int.toNat_natCast]
    have halt : a < w.total := by omega
    have hidx : a / w.ps < w.data.length := by
      apply (Nat.div_lt_iff_lt_mul hps).2
      omega
    rw [List.getElem?_eq_getElem hidx]
    cases w.data[a / w.ps] with
    | none => simp
    | some d =>
      simp only []
      split
      · simp
      · have : ¬ ((a % w.ps : Nat) : Int) < 0 := by
          have := Int.natCast_nonneg (a % w.ps); omega
        rw [if_neg this]; simp

end Storrent.Reader

namespace Storrent.Reader
open Storrent Storrent.Requested

/-! ### what the reader holds is registered (the registration half of reader balance) -/

/-- every registration listed in `r.requested` is present in `Torrent.requested` -/
def Holds (w : World) (r : Rd) : Prop :=
  ∀ j q, r.requested.count (j, q) ≤ cnt w.rs j q

/-- the cached request: when `requestedIndex ≥ 0` and a channel is cached, the reader holds
    priority 1 on that piece -/
def RInv (r : Rd) : Prop :=
  r.requestedIndex ≥ 0 → ∀ c, r.ch = some c → (r.requestedIndex.toNat, (1 : Int)) ∈ r.requested

/-- would `Torrent.Request(i, _, true, _)` reach `Requested.Add`? (depends on the store only) -/
def regB (w : World) (i : Nat) : Bool :=
  w.infoComplete && !w.dead && decide (i < w.numHashes) && (w.complete? i == some false)

theorem regB_same {w w' : World} (h : SameStore w w') (i : Nat) : regB w' i = regB w i := by
  obtain ⟨_, _, h3, h4, h5, h6⟩ := h
  unfold regB World.complete?; rw [h3, h4, h5, h6]

theorem trcase_add_d {w : World} {i : Nat} {p : Int} {want : Bool} {w' : World} {res : TRes}
    (h : TRCase w i p true want w' res) :
    (res.d = true → w' = { w with rs := (add w.rs i p want).1 } ∧ res.err = none ∧
        res.ch = (if want then (add w.rs i p want).2.1 else none)) ∧
    (res.d = false → w' = w ∧ res.ch = none) := by
  cases h with
  | nothing hw hd hc => exact ⟨by intro h; rw [hd] at h; simp at h, fun _ => ⟨hw, hc⟩⟩
  | added _ _ _ hw hd he hc => exact ⟨fun _ => ⟨hw, he, hc⟩, by intro h; rw [hd] at h; simp at h⟩
  | removed hrq => simp at hrq

theorem cnt_trcase_add {w : World} {i : Nat} {p : Int} {want : Bool} {w' : World} {res : TRes}
    (h : TRCase w i p true want w' res) (hp : p > idlePriority) (j : Nat) (q : Int) :
    cnt w'.rs j q = cnt w.rs j q + (if res.d then [(i, p)] else []).count (j, q) := by
  obtain ⟨h1, h2⟩ := trcase_add_d h
  cases hd : res.d with
  | true =>
    obtain ⟨hw, _, _⟩ := h1 hd
    rw [hw]; simp only []
    rw [cnt_add]
    by_cases hjq : j = i ∧ q = p
    · obtain ⟨a, b⟩ := hjq; subst a b; simp [hp]
    · have : ¬ ((i, p) = (j, q)) := by
        intro h; apply hjq; cases h; exact ⟨rfl, rfl⟩
      have h3 : ¬ (j = i ∧ q = p ∧ p > idlePriority) := fun ⟨a, b, _⟩ => hjq ⟨a, b⟩
      simp [h3, List.count_cons, this]
  | false =>
    obtain ⟨hw, _⟩ := h2 hd
    rw [hw]; simp

theorem addRest_cnt (l : List (Nat × Int)) : ∀ (w : World) (acc : List (Nat × Int)),
    w.numHashes ≤ w.data.length → (∀ c ∈ l, c.2 > idlePriority) →
    ∃ ext, (addRest w l acc).2.1 = acc ++ ext ∧
      (∀ j q, cnt (addRest w l acc).1.rs j q = cnt w.rs j q + ext.count (j, q)) ∧
      (∀ c ∈ ext, c ∈ l) := by
  induction l with
  | nil => intro w acc _ _; exact ⟨[], by simp [addRest], by simp [addRest], by simp⟩
  | cons c r ih =>
    intro w acc hg hp
    obtain ⟨w', res, he, hcase, hs⟩ := torRequest_eq w c.1 c.2 true false hg
    have hpc : c.2 > idlePriority := hp c (by simp)
    obtain ⟨ext, e1, e2, e3⟩ := ih w' (if res.d = true then acc ++ [c] else acc) (hg_same hs hg)
      (fun x hx => hp x (List.mem_cons_of_mem _ hx))
    unfold addRest
    rw [he]
    simp only []
    refine ⟨(if res.d then [c] else []) ++ ext, ?_, ?_, ?_⟩
    · rw [e1]; cases res.d <;> simp
    · intro j q
      rw [e2 j q, cnt_trcase_add hcase hpc j q, List.count_append]
      cases c; simp only []; omega
    · intro x hx
      simp only [List.mem_append] at hx
      rcases hx with hx | hx
      · cases hd : res.d <;> simp [hd] at hx
        subst hx; simp
      · exact List.mem_cons_of_mem _ (e3 x hx)

theorem cnt_trcase_del {w : World} {i : Nat} {p : Int} {w' : World} {res : TRes}
    (h : TRCase w i p false false w' res) (j : Nat) (q : Int) :
    cnt w'.rs j q ≤ cnt w.rs j q ∧ cnt w.rs j q ≤ cnt w'.rs j q + [(i, p)].count (j, q) := by
  cases h with
  | nothing hw _ _ => rw [hw]; omega
  | added hrq => simp at hrq
  | removed _ _ hw _ _ _ =>
    rw [hw]; simp only []
    rw [cnt_del]
    by_cases hjq : j = i ∧ q = p
    · obtain ⟨a, b⟩ := hjq; subst a b; simp; omega
    · have : ¬ ((i, p) = (j, q)) := by
        intro h; apply hjq; cases h; exact ⟨rfl, rfl⟩
      simp [hjq, List.count_cons, this]

theorem delOld_bounds (l : List (Nat × Int)) : ∀ (w : World), w.numHashes ≤ w.data.length →
    ∀ j q, cnt (delOld w l).1.rs j q ≤ cnt w.rs j q ∧
           cnt w.rs j q ≤ cnt (delOld w l).1.rs j q + l.count (j, q) := by
  induction l with
  | nil => intro w _ j q; simp [delOld]
  | cons c r ih =>
    intro w hg j q
    obtain ⟨w', res, he, hcase, hs⟩ := torRequest_eq w c.1 c.2 false false hg
    obtain ⟨a1, a2⟩ := ih w' (hg_same hs hg) j q
    obtain ⟨b1, b2⟩ := cnt_trcase_del hcase j q
    unfold delOld
    rw [he]
    simp only []
    have hcc : (c :: r).count (j, q) = r.count (j, q) + [(c.1, c.2)].count (j, q) := by
      cases c; simp [List.count_cons]
    rw [hcc]
    constructor <;> omega

end Storrent.Reader

namespace Storrent.Reader
open Storrent Storrent.Requested

theorem torRequest_d (w : World) (i : Nat) (p : Int) (want : Bool)
    (hg : w.numHashes ≤ w.data.length) (res : TRes)
    (h : (torRequest w i p true want).2 = some res) : res.d = regB w i := by
  unfold torRequest at h
  unfold regB
  by_cases h1 : (!w.infoComplete) = true
  · rw [if_pos h1] at h; simp at h; subst h; simp at h1; simp [h1]
  · rw [if_neg h1] at h
    simp at h1
    by_cases h2 : i ≥ w.numHashes
    · rw [if_pos h2] at h; simp at h; subst h
      have : ¬ i < w.numHashes := by omega
      simp [this]
    · rw [if_neg h2] at h
      have hi : i < w.numHashes := by omega
      obtain ⟨b, hb⟩ := complete?_some w i (by omega)
      have h3 : ¬ (true = true ∧ w.complete? i = none) := by rw [hb]; simp
      rw [if_neg h3] at h
      cases b with
      | true =>
        have h4 : (true = true ∧ w.complete? i = some true) := ⟨rfl, hb⟩
        rw [if_pos h4] at h; simp at h; subst h; simp [hb]
      | false =>
        have h4 : ¬ (true = true ∧ w.complete? i = some true) := by rw [hb]; simp
        rw [if_neg h4] at h
        by_cases h5 : w.dead = true
        · rw [if_pos h5] at h; simp at h; subst h; simp [h5]
        · rw [if_neg h5] at h
          have hgt : ¬ i > w.numHashes := by omega
          unfold requestPiece at h
          rw [if_neg hgt] at h
          simp only [hb, if_true] at h
          simp at h; subst h
          simp at h5
          simp [h1, h5, hi, hb]

theorem addRest_filter (l : List (Nat × Int)) : ∀ (w : World) (acc : List (Nat × Int)),
    w.numHashes ≤ w.data.length →
    (addRest w l acc).2.1 = acc ++ l.filter (fun c => regB w c.1) := by
  induction l with
  | nil => intro w acc _; simp [addRest]
  | cons c r ih =>
    intro w acc hg
    obtain ⟨w', res, he, _, hs⟩ := torRequest_eq w c.1 c.2 true false hg
    have hd : res.d = regB w c.1 := torRequest_d w c.1 c.2 false hg res (by rw [he])
    unfold addRest
    rw [he]
    simp only []
    rw [ih w' _ (hg_same hs hg)]
    have hf : (r.filter fun c => regB w' c.1) = (r.filter fun c => regB w c.1) := by
      congr 1; funext x; exact regB_same hs x.1
    rw [hf, List.filter_cons, hd]
    cases regB w c.1 <;> simp

theorem chunksLoop_spec (fuel : Nat) : ∀ (index i bound : UInt32) (acc : List (Nat × Int)),
    ∃ ext, chunksLoop fuel index i bound acc = acc ++ ext ∧ ∀ c ∈ ext, c.2 = -1 := by
  induction fuel with
  | zero => intro _ _ _ acc; exact ⟨[], by simp [chunksLoop], by simp⟩
  | succ fuel ih =>
    intro index i bound acc
    unfold chunksLoop
    split
    · obtain ⟨ext, e1, e2⟩ := ih index (i + 1) bound (acc ++ [((index + i).toNat, -1)])
      refine ⟨((index + i).toNat, -1) :: ext, by rw [e1]; simp, ?_⟩
      intro c hc
      simp at hc
      rcases hc with hc | hc
      · rw [hc]
      · exact e2 c hc
    · exact ⟨[], by simp, by simp⟩

/-- the list `Reader.chunks` computes: empty outside the window; otherwise it starts with the
    cursor's piece (as `uint32`) at priority 1, every other entry has priority 0 or -1 -/
theorem chunks_spec (cfg : Cfg) (ps : Nat) (pos limit : Int) (l : List (Nat × Int))
    (h : chunks cfg ps pos limit = some l) :
    (l = [] ∧ (pos < 0 ∨ pos > limit)) ∨
    (0 ≤ pos ∧ pos ≤ limit ∧
      ∃ rest, l = ((UInt32.ofNat (pos.toNat / ps)).toNat, 1) :: rest ∧ ∀ c ∈ rest, c.2 = 0 ∨ c.2 = -1) := by
  unfold chunks at h
  by_cases h1 : pos < 0 ∨ pos > limit
  · rw [if_pos h1] at h; simp at h; exact Or.inl ⟨h, h1⟩
  · rw [if_neg h1] at h
    right
    refine ⟨by omega, by omega, ?_⟩
    by_cases h2 : ps = 0
    · rw [if_pos h2] at h; simp at h
    · rw [if_neg h2] at h
      simp only [] at h
      split at h
      · obtain ⟨ext, e1, e2⟩ := chunksLoop_spec _ (UInt32.ofNat (pos.toNat / ps)) 2 _ 
          ([((UInt32.ofNat (pos.toNat / ps)).toNat, (1 : Int))] ++ [((UInt32.ofNat (pos.toNat / ps) + 1).toNat, (0 : Int))])
        rw [e1] at h
        simp at h
        refine ⟨_, h.symm, ?_⟩
        intro c hc
        simp at hc
        rcases hc with hc | hc
        · left; rw [hc]
        · right; exact e2 c hc
      · obtain ⟨ext, e1, e2⟩ := chunksLoop_spec _ (UInt32.ofNat (pos.toNat / ps)) 1 _ 
          [((UInt32.ofNat (pos.toNat / ps)).toNat, (1 : Int))]
        rw [e1] at h
        simp at h
        exact ⟨_, h.symm, fun c hc => Or.inr (e2 c hc)⟩

theorem chunks_prio (cfg : Cfg) (ps : Nat) (pos limit : Int) (l : List (Nat × Int))
    (h : chunks cfg ps pos limit = some l) : ∀ c ∈ l, c.2 > idlePriority := by
  intro c hc
  rcases chunks_spec cfg ps pos limit l h with ⟨hl, _⟩ | ⟨_, _, rest, hl, hr⟩
  · rw [hl] at hc; simp at hc
  · rw [hl] at hc
    simp at hc
    rcases hc with hc | hc
    · rw [hc]; show (1 : Int) > idlePriority; decide
    · rcases hr c hc with h0 | h0 <;> rw [h0] <;> decide

end Storrent.Reader

namespace Storrent.Reader
open Storrent Storrent.Requested

/-- what the slow path of `Reader.request` establishes -/
structure SlowSpec (cfg : Cfg) (w : World) (pos limit : Int) (out : ReqRes) : Prop where
  holds : Holds out.w out.r
  chEq : out.r.ch = out.ch
  cached : ∀ c, out.ch = some c →
    out.r.requestedIndex ≥ 0 ∧ (out.r.requestedIndex.toNat, (1 : Int)) ∈ out.r.requested ∧
    0 ≤ pos ∧ out.r.requestedIndex = ((UInt32.ofNat (pos.toNat / w.ps)).toNat : Int)
  window : ∀ l, chunks cfg w.ps pos limit = some l → out.err = none →
    out.r.requested = l.filter (fun c => regB w c.1)

theorem requestSlow_spec (f : Bool) (cfg : Cfg) (w : World) (r : Rd) (pos limit : Int)
    (g : Geom w) (hh : Holds w r) : SlowSpec cfg w pos limit (requestSlow f cfg w r pos limit) := by
  obtain ⟨hps, hg, _⟩ := g
  unfold requestSlow
  cases hc : chunks cfg w.ps pos limit with
  | none => exact absurd hc (chunks_ne_none cfg w.ps pos limit hps)
  | some l =>
    cases l with
    | nil =>
      simp only []
      exact ⟨by intro j q; simp, rfl, by intro c h; simp at h,
        by intro l hl _; rw [hc] at hl; simp at hl; subst hl; rfl⟩
    | cons c rest =>
      simp only []
      obtain ⟨w0, res, he, hcase, hs⟩ := torRequest_eq w c.1 c.2 true true hg
      have hdreg : res.d = regB w c.1 := torRequest_d w c.1 c.2 true hg res (by rw [he])
      rw [he]
      simp only []
      have hg0 := hg_same hs hg
      have hprio := chunks_prio cfg w.ps pos limit _ hc
      have hpc : c.2 > idlePriority := hprio c (by simp)
      obtain ⟨d1, d2⟩ := trcase_add_d hcase
      by_cases herr : res.err.isSome = true
      · -- the first request failed: nothing registered, nothing cached
        have hdf : res.d = false := by
          cases hd : res.d with
          | false => rfl
          | true => have := (d1 hd).2.1; rw [this] at herr; simp at herr
        have hch : res.ch = none := (d2 hdf).2
        simp only [herr, if_true, hdf, Bool.false_eq_true, if_false]
        refine ⟨by intro j q; simp, hch.symm ▸ rfl, by intro c' h; rw [hch] at h; simp at h, ?_⟩
        intro l _ hnone
        have hn : res.err = none := hnone
        rw [hn] at herr; simp at herr
      · have herr' : res.err = none := by
          cases hr : res.err with
          | none => rfl
          | some e => rw [hr] at herr; simp at herr
        simp only [herr]
        have hp := addRest_nopanic rest w0 (if res.d = true then [c] else []) hg0
        obtain ⟨ext, e1, e2, _⟩ := addRest_cnt rest w0 (if res.d = true then [c] else []) hg0
          (fun x hx => hprio x (List.mem_cons_of_mem _ hx))
        have hfil := addRest_filter rest w0 (if res.d = true then [c] else []) hg0
        have hs1 := addRest_same w0 rest (if res.d = true then [c] else [])
        have hg1 := hg_same hs1 hg0
        simp only [Bool.false_eq_true, if_false, hp]
        refine ⟨?_, rfl, ?_, ?_⟩
        · intro j q
          show ((addRest w0 rest (if res.d = true then [c] else [])).2.1).count (j, q) ≤
            cnt (delOld (addRest w0 rest (if res.d = true then [c] else [])).1 r.requested).1.rs j q
          obtain ⟨_, b2⟩ := delOld_bounds r.requested _ hg1 j q
          have c0 := cnt_trcase_add hcase hpc j q
          have c1 := e2 j q
          have h0 := hh j q
          rw [e1, List.count_append]
          have hc' : (if res.d = true then [(c.1, c.2)] else []) = (if res.d = true then [c] else []) := by
            cases c; rfl
          rw [hc'] at c0
          omega
        · intro ch hch
          simp only [] at hch
          have hdt : res.d = true := by
            cases hd : res.d with
            | true => rfl
            | false => rw [(d2 hd).2] at hch; simp at hch
          rcases chunks_spec cfg w.ps pos limit _ hc with ⟨hl, _⟩ | ⟨p1, _, rest', hl, _⟩
          · simp at hl
          · simp at hl
            obtain ⟨hce, _⟩ := hl
            simp only [Bool.and_false, Bool.false_eq_true, if_false]
            have hc1 : (c.1, (1 : Int)) = c := by rw [hce]
            have hmem : (c.1, (1 : Int)) ∈ (addRest w0 rest (if res.d = true then [c] else [])).2.1 := by
              rw [e1, hdt, hc1]; simp
            refine ⟨Int.natCast_nonneg _, ?_, p1, by rw [hce]; simp⟩
            rw [Int.toNat_natCast]
            exact hmem
        · intro l hl _
          rw [hc] at hl
          simp at hl
          subst hl
          show (addRest w0 rest (if res.d = true then [c] else [])).2.1 = _
          rw [hfil, List.filter_cons, hdreg]
          have hf : (rest.filter fun c => regB w0 c.1) = (rest.filter fun c => regB w c.1) := by
            congr 1; funext x; exact regB_same hs x.1
          rw [hf]
          cases regB w c.1 <;> simp

end Storrent.Reader

namespace Storrent.Reader
open Storrent Storrent.Requested

/-- for a non-negative position the index of the cache test is the `uint32` the chunk list
    starts with -/
theorem cacheIndex_nat (ps a : Nat) : cacheIndex ps (a : Int) = (UInt32.ofNat (a / ps)).toNat := by
  unfold cacheIndex
  have hdiv : Int.tdiv (a : Int) (ps : Int) = ((a / ps : Nat) : Int) := by simp [Int.tdiv]
  rw [hdiv]
  simp [UInt32.ofInt]
  have h : ((a : Int) / (ps : Int) % 4294967296) = (((a / ps % 4294967296 : Nat)) : Int) := by
    omega
  rw [h, Int.toNat_natCast]
  omega

/-- what `Reader.request` guarantees on return (cache hit or slow path) -/
structure ReqSpec (w : World) (pos : Int) (q : ReqRes) : Prop where
  holds : Holds q.w q.r
  rinv : RInv q.r
  chEq : q.r.ch = q.ch
  cached : ∀ c, q.ch = some c →
    q.r.requestedIndex ≥ 0 ∧ (q.r.requestedIndex.toNat, (1 : Int)) ∈ q.r.requested ∧
    0 ≤ pos ∧ q.r.requestedIndex = (cacheIndex w.ps pos : Int)

theorem request_spec (cfg : Cfg) (w : World) (r : Rd) (pos limit : Int) (g : Geom w)
    (hh : Holds w r) (hr : RInv r) : ReqSpec w pos (request cfg w r pos limit) := by
  have hps : ¬ w.ps = 0 := by have := g.1; omega
  have slow : ReqSpec w pos (requestSlow false cfg w r pos limit) := by
    have sp := requestSlow_spec false cfg w r pos limit g hh
    refine ⟨sp.holds, ?_, sp.chEq, ?_⟩
    · intro hge c hc
      rw [sp.chEq] at hc
      exact (sp.cached c hc).2.1
    · intro c hc
      obtain ⟨a1, a2, a3, a4⟩ := sp.cached c hc
      refine ⟨a1, a2, a3, ?_⟩
      obtain ⟨a, ha⟩ := Int.eq_ofNat_of_zero_le a3
      rw [a4, ha, cacheIndex_nat]; simp
  unfold request
  by_cases h1 : r.requestedIndex ≥ 0 ∧ pos ≥ 0
  · rw [if_pos h1, if_neg hps]
    by_cases h2 : r.requestedIndex = (cacheIndex w.ps pos : Int)
    · rw [if_pos h2]
      exact ⟨hh, hr, rfl, fun c hc => ⟨h1.1, hr h1.1 c hc, h1.2, h2⟩⟩
    · rw [if_neg h2]; exact slow
  · rw [if_neg h1]; exact slow

end Storrent.Reader
