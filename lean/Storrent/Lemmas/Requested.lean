import Storrent.Model.Requested
/-
Helper lemmas for C10: the association-list map, the channel invariant and its
preservation by every operation of tor/requests.go, priority counting.
-/
namespace Storrent.Requested

/-! ### the map -/
theorem find_erase_same (m : PMap) (i : Nat) : find (erase m i) i = none := by
  induction m with
  | nil => rfl
  | cons ke r ih =>
    obtain ⟨k, e⟩ := ke
    by_cases h : k = i <;> simp [erase, find, h, ih]

theorem find_erase_other (m : PMap) (i j : Nat) (h : j ≠ i) : find (erase m i) j = find m j := by
  induction m with
  | nil => rfl
  | cons ke r ih =>
    obtain ⟨k, e⟩ := ke
    by_cases hk : k = i
    · have : k ≠ j := by omega
      simp [erase, find, hk, ih]
      intro h'; omega
    · by_cases hj : k = j
      · subst hj; simp [erase, find, hk]
      · simp [erase, find, hk, hj, ih]

theorem find_put_same (m : PMap) (i : Nat) (e : Entry) : find (put m i e) i = some e := by
  simp [put, find]

theorem find_put_other (m : PMap) (i j : Nat) (e : Entry) (h : j ≠ i) :
    find (put m i e) j = find m j := by
  have : i ≠ j := fun h' => h h'.symm
  simp [put, find, this, find_erase_other m i j h]

theorem find_put (m : PMap) (i j : Nat) (e : Entry) :
    find (put m i e) j = if j = i then some e else find m j := by
  by_cases h : j = i
  · subst h; simp [find_put_same]
  · simp [h, find_put_other m i j e h]

theorem find_erase (m : PMap) (i j : Nat) :
    find (erase m i) j = if j = i then none else find m j := by
  by_cases h : j = i
  · subst h; simp [find_erase_same]
  · simp [h, find_erase_other m i j h]

theorem find_mem_keys {m : PMap} {i : Nat} {e : Entry} (h : find m i = some e) :
    i ∈ m.map (·.1) := by
  induction m with
  | nil => simp [find] at h
  | cons ke r ih =>
    obtain ⟨k, e'⟩ := ke
    by_cases hk : k = i
    · simp [hk]
    · simp [find, hk] at h
      simp [ih h]


/-! ### the channel invariant -/

/-- Every channel referenced by an entry is open, was created for that entry's piece; no
    channel has been closed twice; every open channel is still referenced by the entry of
    the piece it was created for (so `Done` of that piece will close it). -/
structure ChanInv (s : RS) : Prop where
  np : s.panicked = false
  ref : ∀ (i : Nat) (e : Entry) (c : Nat), find s.pieces i = some e → e.done = some c →
    ∃ ch, s.chans[c]? = some ch ∧ ch.owner = i ∧ ch.closeCount = 0
  once : ∀ (c : Nat) (ch : Chan), s.chans[c]? = some ch → ch.closeCount ≤ 1
  openRef : ∀ (c : Nat) (ch : Chan), s.chans[c]? = some ch → ch.closeCount = 0 →
    ∃ e, find s.pieces ch.owner = some e ∧ e.done = some c

theorem inv_init : ChanInv {} := by
  constructor <;> simp [find]

/-- (K) an update of entry `i` that keeps its channel -/
theorem inv_keep {s : RS} (h : ChanInv s) (i : Nat) (X : Option Entry) (P' : PMap)
    (hf : ∀ j, find P' j = if j = i then X else find s.pieces j)
    (hX : ∀ c, (∃ e, X = some e ∧ e.done = some c) ↔
               (∃ r, find s.pieces i = some r ∧ r.done = some c)) :
    ChanInv { s with pieces := P' } := by
  constructor
  · exact h.np
  · intro j e c hj hd
    rw [hf] at hj
    by_cases hji : j = i
    · subst hji
      simp at hj
      obtain ⟨r, hr, hrd⟩ := (hX c).1 ⟨e, hj, hd⟩
      exact h.ref j r c hr hrd
    · simp [hji] at hj
      exact h.ref j e c hj hd
  · exact h.once
  · intro c ch hc h0
    obtain ⟨e, he, hed⟩ := h.openRef c ch hc h0
    show ∃ e, find P' ch.owner = some e ∧ e.done = some c
    rw [hf]
    by_cases hoi : ch.owner = i
    · simp [hoi]
      rw [hoi] at he
      exact (hX c).2 ⟨e, he, hed⟩
    · simp [hoi]
      exact ⟨e, he, hed⟩

/-- (N) entry `i`, which had no channel, gets a fresh one -/
theorem inv_new {s : RS} (h : ChanInv s) (i : Nat) (e : Entry) (P' : PMap)
    (hf : ∀ j, find P' j = if j = i then some e else find s.pieces j)
    (hed : e.done = some s.chans.length)
    (hold : ∀ r, find s.pieces i = some r → r.done = none) :
    ChanInv { s with pieces := P', chans := s.chans ++ [{ owner := i, closeCount := 0 }] } := by
  constructor
  · exact h.np
  · intro j e' c hj hd
    show ∃ ch, (s.chans ++ [{ owner := i, closeCount := 0 }])[c]? = some ch ∧ _
    rw [hf] at hj
    by_cases hji : j = i
    · subst hji
      simp at hj
      subst hj
      rw [hed] at hd
      simp at hd
      subst hd
      exact ⟨{ owner := j, closeCount := 0 }, by simp, rfl, rfl⟩
    · simp [hji] at hj
      obtain ⟨ch, hc, ho, h0⟩ := h.ref j e' c hj hd
      have hlt : c < s.chans.length := by
        have := List.getElem?_eq_some_iff.1 hc
        exact this.1
      exact ⟨ch, by rw [List.getElem?_append_left hlt]; exact hc, ho, h0⟩
  · intro c ch hc
    have hc' : (s.chans ++ [{ owner := i, closeCount := 0 }])[c]? = some ch := hc
    by_cases hlt : c < s.chans.length
    · rw [List.getElem?_append_left hlt] at hc'
      exact h.once c ch hc'
    · rw [List.getElem?_append_right (by omega)] at hc'
      by_cases h0 : c - s.chans.length = 0
      · simp [h0] at hc'; subst hc'; simp
      · have : ([{ owner := i, closeCount := 0 }] : List Chan)[c - s.chans.length]? = none := by
          apply List.getElem?_eq_none; simp; omega
        rw [this] at hc'; simp at hc'
  · intro c ch hc h0
    have hc' : (s.chans ++ [{ owner := i, closeCount := 0 }])[c]? = some ch := hc
    show ∃ e, find P' ch.owner = some e ∧ e.done = some c
    by_cases hlt : c < s.chans.length
    · rw [List.getElem?_append_left hlt] at hc'
      obtain ⟨r, hr, hrd⟩ := h.openRef c ch hc' h0
      rw [hf]
      by_cases hoi : ch.owner = i
      · rw [hoi] at hr
        have := hold r hr
        rw [this] at hrd; simp at hrd
      · simp [hoi]; exact ⟨r, hr, hrd⟩
    · rw [List.getElem?_append_right (by omega)] at hc'
      by_cases hz : c - s.chans.length = 0
      · simp [hz] at hc'; subst hc'
        rw [hf]; simp
        rw [hed]; congr 1; omega
      · have : ([{ owner := i, closeCount := 0 }] : List Chan)[c - s.chans.length]? = none := by
          apply List.getElem?_eq_none; simp; omega
        rw [this] at hc'; simp at hc'

/-- (C) the channel `c` of entry `i` is closed and the entry no longer refers to it -/
theorem inv_close {s : RS} (h : ChanInv s) (i : Nat) (r : Entry) (c : Nat) (X : Option Entry)
    (P' : PMap) (hr : find s.pieces i = some r) (hrd : r.done = some c)
    (hf : ∀ j, find P' j = if j = i then X else find s.pieces j)
    (hX : ∀ e, X = some e → e.done = none) :
    ChanInv { closeChan s c with pieces := P' } := by
  obtain ⟨ch, hc, ho, h0⟩ := h.ref i r c hr hrd
  have hlt : c < s.chans.length := (List.getElem?_eq_some_iff.1 hc).1
  have hcc : closeChan s c = { pieces := s.pieces, chans := s.chans.set c { ch with closeCount := ch.closeCount + 1 }, panicked := s.panicked || decide (ch.closeCount ≥ 1) } := by
    simp [closeChan, hc]
  rw [hcc]
  constructor
  · simp [h.np, h0]
  · intro j e c' hj hd
    show ∃ ch', (s.chans.set c { ch with closeCount := ch.closeCount + 1 })[c']? = some ch' ∧ _
    rw [hf] at hj
    by_cases hji : j = i
    · subst hji
      simp at hj
      rw [hX e hj] at hd; simp at hd
    · simp [hji] at hj
      obtain ⟨ch', hc', ho', h0'⟩ := h.ref j e c' hj hd
      have hne : c ≠ c' := by
        intro heq; subst heq
        rw [hc] at hc'; simp at hc'; subst hc'
        exact hji (ho'.symm.trans ho)
      exact ⟨ch', by rw [List.getElem?_set_ne hne]; exact hc', ho', h0'⟩
  · intro c' ch' hc'
    have hc'' : (s.chans.set c { ch with closeCount := ch.closeCount + 1 })[c']? = some ch' := hc'
    by_cases hne : c = c'
    · subst hne
      rw [List.getElem?_set_self hlt] at hc''
      simp at hc''; subst hc''; simp [h0]
    · rw [List.getElem?_set_ne hne] at hc''
      exact h.once c' ch' hc''
  · intro c' ch' hc' h0'
    have hc'' : (s.chans.set c { ch with closeCount := ch.closeCount + 1 })[c']? = some ch' := hc'
    show ∃ e, find P' ch'.owner = some e ∧ e.done = some c'
    by_cases hne : c = c'
    · subst hne
      rw [List.getElem?_set_self hlt] at hc''
      simp at hc''; subst hc''; simp at h0'
    · rw [List.getElem?_set_ne hne] at hc''
      obtain ⟨e, he, hed⟩ := h.openRef c' ch' hc'' h0'
      rw [hf]
      by_cases hoi : ch'.owner = i
      · rw [hoi, hr] at he
        simp at he; subst he
        rw [hrd] at hed; simp at hed; exact absurd hed hne
      · simp [hoi]; exact ⟨e, he, hed⟩


/-! ### every operation of tor/requests.go preserves the invariant -/

theorem withPrio_done (r : Entry) (p : Int) : (withPrio r p).done = r.done := by
  unfold withPrio; split <;> rfl

theorem baseEntry_done (s : RS) (i c : Nat) :
    (baseEntry s i).1.done = some c ↔ ∃ r, find s.pieces i = some r ∧ r.done = some c := by
  unfold baseEntry
  cases hfi : find s.pieces i with
  | none => simp
  | some r => simp

theorem inv_add {s : RS} (h : ChanInv s) (i : Nat) (p : Int) (want : Bool) :
    ChanInv (add s i p want).1 := by
  unfold add
  simp only []
  split
  · rename_i hc
    apply inv_new h i _ _ (fun j => find_put s.pieces i j _) rfl
    intro r hr
    have h1 := hc.2
    rw [withPrio_done] at h1
    simp [baseEntry, hr] at h1
    exact h1
  · apply inv_keep h i (some (withPrio (baseEntry s i).1 p)) _ (fun j => find_put s.pieces i j _)
    intro c
    simp [withPrio_done, baseEntry_done]

theorem inv_delEntry {s : RS} (h : ChanInv s) (i : Nat) (r : Entry)
    (hr : find s.pieces i = some r) : ChanInv (delEntry s i) := by
  unfold delEntry
  rw [hr]
  simp only []
  cases hd : r.done with
  | none =>
    simp only []
    apply inv_keep h i none _ (fun j => find_erase s.pieces i j)
    intro c; simp [hr, hd]
  | some c =>
    simp only []
    exact inv_close h i r c none _ hr hd (fun j => find_erase s.pieces i j) (by simp)

theorem inv_del {s : RS} (h : ChanInv s) (i : Nat) (p : Int) : ChanInv (del s i p).1 := by
  unfold del
  cases hr : find s.pieces i with
  | none => exact h
  | some r =>
    simp only []
    split
    · split
      · exact inv_delEntry h i r hr
      · apply inv_keep h i (some { r with prio := r.prio.erase p }) _
          (fun j => find_put s.pieces i j _)
        intro c; simp [hr]
    · exact h

theorem inv_delIdlePiece {s : RS} (h : ChanInv s) (i : Nat) : ChanInv (delIdlePiece s i) := by
  unfold delIdlePiece
  cases hr : find s.pieces i with
  | none => exact h
  | some r =>
    simp only []
    split
    · exact inv_delEntry h i r hr
    · exact h

theorem inv_done {s : RS} (h : ChanInv s) (i : Nat) : ChanInv (done s i) := by
  unfold done
  cases hr : find s.pieces i with
  | none => exact h
  | some r =>
    simp only []
    cases hd : r.done with
    | none => exact inv_delIdlePiece h i
    | some c =>
      simp only []
      apply inv_delIdlePiece
      exact inv_close h i r c (some { r with done := none }) _ hr hd
        (fun j => find_put s.pieces i j _) (by intro e he; simp at he; subst he; rfl)

theorem inv_foldl_delIdlePiece (l : List Nat) {s : RS} (h : ChanInv s) :
    ChanInv (l.foldl delIdlePiece s) := by
  induction l generalizing s with
  | nil => exact h
  | cons a r ih => exact ih (inv_delIdlePiece h a)

theorem inv_delIdle {s : RS} (h : ChanInv s) : ChanInv (delIdle s) :=
  inv_foldl_delIdlePiece _ h

theorem inv_torHave {s : RS} (h : ChanInv s) (i : Nat) (b : Bool) : ChanInv (torHave s i b) := by
  unfold torHave; split
  · exact inv_done h i
  · exact h

theorem inv_requestPiece {s : RS} (h : ChanInv s) (nh : Nat) (c? : Option Bool) (i : Nat) (p : Int)
    (rq want : Bool) : ChanInv (requestPiece s nh c? i p rq want).1 := by
  unfold requestPiece
  split
  · exact h
  · split
    · cases c? with
      | none => exact h
      | some c => exact inv_add h i p _
    · exact inv_del h i p


/-! ### what each operation does to the map (channels aside) -/

theorem closeChan_pieces (s : RS) (c : Nat) : (closeChan s c).pieces = s.pieces := by
  unfold closeChan; split <;> rfl

theorem find_add (s : RS) (i : Nat) (p : Int) (want : Bool) (j : Nat) :
    ∃ d, find (add s i p want).1.pieces j =
      if j = i then some { prio := (withPrio (baseEntry s i).1 p).prio, done := d }
      else find s.pieces j := by
  unfold add
  simp only []
  split
  · exact ⟨some s.chans.length, by simp [find_put]⟩
  · exact ⟨(withPrio (baseEntry s i).1 p).done, by simp [find_put]⟩

theorem find_delEntry (s : RS) (i : Nat) (r : Entry) (hr : find s.pieces i = some r) (j : Nat) :
    find (delEntry s i).pieces j = if j = i then none else find s.pieces j := by
  unfold delEntry
  rw [hr]
  simp only []
  cases hd : r.done <;> simp only [] <;> exact find_erase s.pieces i j

theorem find_delIdlePiece (s : RS) (i j : Nat) :
    find (delIdlePiece s i).pieces j =
      if j = i ∧ (∃ r, find s.pieces i = some r ∧ r.prio = []) then none else find s.pieces j := by
  unfold delIdlePiece
  cases hr : find s.pieces i with
  | none => simp
  | some r =>
    simp only []
    by_cases hp : r.prio = []
    · simp [hp, find_delEntry s i r hr]
    · simp [hp]

/-- the priorities of piece `j` after `Done(i)`: unchanged, or the idle entry is gone -/
theorem find_done (s : RS) (i j : Nat) :
    (find (done s i).pieces j).map (·.prio) =
      if j = i ∧ (∃ r, find s.pieces i = some r ∧ r.prio = []) then none
      else (find s.pieces j).map (·.prio) := by
  unfold done
  cases hr : find s.pieces i with
  | none => simp
  | some r =>
    simp only []
    cases hd : r.done with
    | none => simp only []; rw [find_delIdlePiece]; simp [hr]; split <;> simp
    | some c =>
      simp only []
      rw [find_delIdlePiece]
      simp only [find_put, closeChan_pieces]
      by_cases hji : j = i
      · subst hji; simp [hr]; split <;> simp
      · simp [hji]

theorem find_foldl_delIdlePiece (l : List Nat) (s : RS) (j : Nat) :
    find (l.foldl delIdlePiece s).pieces j =
      if j ∈ l ∧ (∃ r, find s.pieces j = some r ∧ r.prio = []) then none else find s.pieces j := by
  induction l generalizing s with
  | nil => simp
  | cons a l ih =>
    simp only [List.foldl_cons]
    rw [ih, find_delIdlePiece]
    by_cases hja : j = a
    · subst hja
      by_cases he : ∃ r, find s.pieces j = some r ∧ r.prio = []
      · simp [he]
      · simp [he]
    · simp [hja]

theorem find_delIdle (s : RS) (j : Nat) :
    find (delIdle s).pieces j =
      if (∃ r, find s.pieces j = some r ∧ r.prio = []) then none else find s.pieces j := by
  unfold delIdle
  rw [find_foldl_delIdlePiece]
  by_cases he : ∃ r, find s.pieces j = some r ∧ r.prio = []
  · obtain ⟨r, hr, hp⟩ := he
    have := find_mem_keys hr
    simp [this, hr, hp]
  · simp [he]

/-! ### counting priorities -/

/-- how many times priority `p` is registered for piece `i` -/
def cnt (s : RS) (i : Nat) (p : Int) : Nat :=
  match find s.pieces i with
  | none => 0
  | some e => e.prio.count p

def present (s : RS) (i : Nat) : Bool := (find s.pieces i).isSome

theorem cnt_add (s : RS) (i : Nat) (p : Int) (want : Bool) (j : Nat) (q : Int) :
    cnt (add s i p want).1 j q =
      cnt s j q + (if j = i ∧ q = p ∧ p > idlePriority then 1 else 0) := by
  obtain ⟨d, hd⟩ := find_add s i p want j
  unfold cnt
  rw [hd]
  by_cases hji : j = i
  · subst hji
    simp only [if_true, true_and]
    unfold withPrio baseEntry
    cases hr : find s.pieces j with
    | none =>
      by_cases hp : p > idlePriority
      · by_cases hq : q = p
        · subst hq; simp [hp]
        · have : ¬ p = q := fun h => hq h.symm
          simp [hp, hq, List.count_cons, this]
      · simp [hp]
    | some r =>
      by_cases hp : p > idlePriority
      · by_cases hq : q = p
        · subst hq; simp [hp, List.count_append]
        · have : ¬ p = q := fun h => hq h.symm
          simp [hp, hq, List.count_append, List.count_cons, this]
      · simp [hp]
  · simp [hji]

theorem count_erase_int (l : List Int) (p q : Int) :
    (l.erase p).count q = l.count q - (if q = p then 1 else 0) := by
  by_cases h : q = p
  · subst h; simp [List.count_erase_self]
  · simp [h, List.count_erase_of_ne h]

theorem cnt_del (s : RS) (i : Nat) (p : Int) (j : Nat) (q : Int) :
    cnt (del s i p).1 j q = cnt s j q - (if j = i ∧ q = p then 1 else 0) := by
  unfold del
  cases hr : find s.pieces i with
  | none =>
    simp only []
    by_cases hji : j = i
    · subst hji; simp [cnt, hr]
    · simp [hji]
  | some r =>
    simp only []
    by_cases hm : p ∈ r.prio
    · simp only [hm, if_true]
      by_cases he : r.prio.erase p = []
      · simp only [he, if_true]
        unfold cnt
        rw [find_delEntry s i r hr]
        by_cases hji : j = i
        · subst hji
          simp only [if_true, hr, true_and]
          have := count_erase_int r.prio p q
          rw [he] at this
          simp at this
          omega
        · simp [hji]
      · simp only [he, if_false]
        unfold cnt
        simp only [find_put]
        by_cases hji : j = i
        · subst hji
          simp only [if_true, hr, true_and]
          exact count_erase_int r.prio p q
        · simp [hji]
    · simp only [hm, if_false]
      by_cases hji : j = i
      · subst hji
        by_cases hq : q = p
        · subst hq
          simp [cnt, hr, List.count_eq_zero_of_not_mem hm]
        · simp [hq]
      · simp [hji]

theorem cnt_of_prio_eq {s s' : RS} {j : Nat}
    (h : (find s'.pieces j).map (·.prio) = (find s.pieces j).map (·.prio)) (q : Int) :
    cnt s' j q = cnt s j q := by
  unfold cnt
  cases h1 : find s'.pieces j <;> cases h2 : find s.pieces j <;> simp [h1, h2] at h ⊢
  rw [h]

theorem cnt_done (s : RS) (i j : Nat) (q : Int) : cnt (done s i) j q = cnt s j q := by
  by_cases hc : j = i ∧ (∃ r, find s.pieces i = some r ∧ r.prio = [])
  · have := find_done s i j
    rw [if_pos hc] at this
    obtain ⟨hji, r, hr, hp⟩ := hc
    subst hji
    unfold cnt
    cases h1 : find (done s j).pieces j with
    | none => simp [hr, hp]
    | some e => simp [h1] at this
  · apply cnt_of_prio_eq
    have := find_done s i j
    rw [if_neg hc] at this
    exact this

theorem cnt_delIdle (s : RS) (j : Nat) (q : Int) : cnt (delIdle s) j q = cnt s j q := by
  unfold cnt
  rw [find_delIdle]
  by_cases he : ∃ r, find s.pieces j = some r ∧ r.prio = []
  · obtain ⟨r, hr, hp⟩ := he
    simp [hr, hp]
  · simp [he]

theorem cnt_torHave (s : RS) (i : Nat) (b : Bool) (j : Nat) (q : Int) :
    cnt (torHave s i b) j q = cnt s j q := by
  unfold torHave; split
  · exact cnt_done s i j q
  · rfl

end Storrent.Requested
