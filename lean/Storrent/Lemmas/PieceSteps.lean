import Storrent.Lemmas.Piece
/-
Every atomic step of the piece store preserves `Inv` (hence every interleaving does).
-/
namespace Storrent.Piece
open Storrent Storrent.Bitmap

variable (g : Geom) (H : Bytes → Bytes) (Good : Nat → Bytes → Prop)

/-- the loop specification instantiated as `addData` calls it -/
theorem addData_loop (hv : g.Valid) (i begin : Nat) (inp : Bytes) (d : Bytes) (bm : Bitmap)
    (hd : d.length = g.pieceLength i) (hb : begin < g.pieceLength i) (hal : begin % g.cs = 0)
    (hbits : ∀ c, get bm c = true → c < g.pieceChunks i) :
    LoopSpec g.cs (g.pieceLength i) (g.pieceChunks i) inp begin 0 d bm
      (addLoop g.cs (g.pieceLength i) inp (inp.length + 1) begin 0 d bm false) :=
  addLoop_spec g.cs (g.pieceLength i) (g.pieceChunks i) inp hv.cs
    (fun off h => div_lt_chunks g hv i off h) _ _ _ _ _ _ hd (Nat.le_of_lt hb) hal hbits

theorem inv_addData (hv : g.Valid) (s : State) (i begin : Nat) (inp : Bytes) (peer : Nat)
    (hinv : Inv g H Good s) : Inv g H Good (addData g s i begin inp peer).1 := by
  unfold addData
  cases hp : s.pieces[i]? with
  | none => exact hinv
  | some p =>
    simp only
    have hpi := hinv.pieces i p hp
    by_cases hst : p.state ≠ .incomplete
    · rw [if_pos hst]; exact hinv
    rw [if_neg hst]
    have hst' : p.state = .incomplete := by
      cases h : p.state <;> simp_all
    by_cases hdel : s.deleted = true
    · rw [if_pos hdel]; exact hinv
    rw [if_neg hdel]
    by_cases hodd : begin % g.cs ≠ 0
    · rw [if_pos hodd]; exact hinv
    rw [if_neg hodd]
    have hal : begin % g.cs = 0 := by omega
    by_cases hbe : begin ≥ g.pieceLength i
    · rw [if_pos hbe]; exact hinv
    rw [if_neg hbe]
    have hb : begin < g.pieceLength i := by omega
    cases hdat : p.data with
    | some b =>
      simp only
      have hlen := hpi.dlen b.1 b.2 (by rw [hdat])
      have spec := addData_loop g hv i begin inp b.2 p.bitmap hlen hb hal hpi.bits
      generalize addLoop g.cs (g.pieceLength i) inp (inp.length + 1) begin 0 b.2 p.bitmap false = r
        at spec ⊢
      apply inv_setP_same_buf g H Good s i p _ hinv hp
      · simp [hdat]
      · exact { complete := by intro h; simp [hst'] at h
                busy := by intro h; simp [hst'] at h
                idle := fun _ => hpi.idle (by simp [hst'])
                nodata := by intro h; simp at h
                dlen := by
                  intro id d h
                  simp only [Option.some.injEq, Prod.mk.injEq] at h
                  rw [← h.2, spec.len, hlen]
                bits := spec.bits }
    | none =>
      simp only
      have hlen : (List.replicate (g.pieceLength i) (0 : UInt8)).length = g.pieceLength i := by simp
      have hbm : p.bitmap = [] := (hpi.nodata hdat).1
      have spec := addData_loop g hv i begin inp _ p.bitmap hlen hb hal hpi.bits
      generalize addLoop g.cs (g.pieceLength i) inp (inp.length + 1) begin 0
        (List.replicate (g.pieceLength i) 0) p.bitmap false = r at spec ⊢
      refine inv_alloc g H Good s _ i p _ r.2.1 hinv hp hdat rfl ?_ rfl rfl rfl rfl rfl
      exact { complete := by intro h; simp [hst'] at h
              busy := by intro h; simp [hst'] at h
              idle := fun _ => hpi.idle (by simp [hst'])
              nodata := by intro h; simp at h
              dlen := by
                intro id d h
                simp only [Option.some.injEq, Prod.mk.injEq] at h
                rw [← h.2, spec.len, hlen]
              bits := spec.bits }

theorem pieceChunks_pos (hv : g.Valid) (i : Nat) (h : i < g.numPieces) : 0 < g.pieceChunks i := by
  unfold Geom.pieceChunks
  have := pieceLength_pos g hv i h
  exact Nat.div_pos (by have := hv.cs; omega) hv.cs

theorem inv_finBegin (hv : g.Valid) (s : State) (i : Nat) (hinv : Inv g H Good s) :
    Inv g H Good (finBegin g s i).1 := by
  unfold finBegin
  cases hp : s.pieces[i]? with
  | none => exact hinv
  | some p =>
    simp only
    have hpi := hinv.pieces i p hp
    have hlt : i < g.numPieces := by
      rw [← hinv.len]; exact (List.getElem?_eq_some_iff.mp hp).1
    by_cases hst : p.state ≠ .incomplete
    · rw [if_pos hst]; exact hinv
    rw [if_neg hst]
    have hst' : p.state = .incomplete := by
      cases h : p.state <;> simp_all
    by_cases hdel : s.deleted = true
    · rw [if_pos hdel]; exact hinv
    rw [if_neg hdel]
    by_cases hcnt : count p.bitmap ≠ g.pieceChunks i
    · rw [if_pos hcnt]; exact hinv
    rw [if_neg hcnt]
    have hsome : p.data ≠ none := by
      intro hnone
      have hbm := (hpi.nodata hnone).1
      have hpos := pieceChunks_pos g hv i hlt
      rw [hbm] at hcnt
      simp at hcnt
      omega
    show Inv g H Good (setP s i _)
    refine inv_setP_same_buf g H Good s i p _ hinv hp (by rfl) ?_
    exact { complete := by intro h; cases h
            busy := fun _ => ⟨hsome, rfl⟩
            idle := by intro h; exact absurd rfl h
            nodata := fun h => absurd h hsome
            dlen := hpi.dlen
            bits := hpi.bits }

/-- the per-piece invariant of a piece just emptied by `del` -/
theorem pinv_cleared (i : Nat) (p : Piece) (hidle : p.hashing = none) :
    PInv g H Good i { p with data := none, peers := [], bitmap := [], state := .incomplete } :=
  { complete := by intro h; cases h
    busy := by intro h; cases h
    idle := fun _ => hidle
    nodata := fun _ => ⟨rfl, rfl, rfl⟩
    dlen := by intro id d h; cases h
    bits := by intro c h; simp at h }

theorem inv_del (s : State) (i : Nat) (force : Bool) (hinv : Inv g H Good s) :
    Inv g H Good (del s i force).1 := by
  unfold del
  cases hp : s.pieces[i]? with
  | none => exact hinv
  | some p =>
    simp only
    have hpi := hinv.pieces i p hp
    cases hdat : p.data with
    | none => exact hinv
    | some b =>
      obtain ⟨id, d⟩ := b
      simp only
      by_cases hbusy : p.state = .busy
      · rw [if_pos hbusy]; exact hinv
      rw [if_neg hbusy]
      by_cases hfr : id ∈ s.freed
      · rw [if_pos hfr]; exact hinv
      rw [if_neg hfr]
      have key : Inv g H Good { s with
          pieces := s.pieces.set i { p with data := none, peers := [], bitmap := [], state := .incomplete },
          count := s.count - 1, allocated := s.allocated - d.length, freed := id :: s.freed } :=
        inv_free g H Good s _ i p _ id d hinv hp hdat rfl (pinv_cleared g H Good i p (hpi.idle hbusy))
          rfl rfl rfl rfl rfl
      split <;> exact key

theorem inv_finEnd (s : State) (i : Nat) (h : Bytes) (hgood : Good i h) (hinv : Inv g H Good s) :
    Inv g H Good (finEnd H s i h).1 := by
  unfold finEnd
  cases hp : s.pieces[i]? with
  | none => exact hinv
  | some p =>
    simp only
    have hpi := hinv.pieces i p hp
    by_cases hst : p.state ≠ .busy
    · rw [if_pos hst]; exact hinv
    rw [if_neg hst]
    have hbusy : p.state = .busy := by
      cases h : p.state <;> simp_all
    obtain ⟨hsome, hhash⟩ := hpi.busy hbusy
    cases hdat : p.data with
    | none => exact absurd hdat hsome
    | some b =>
    obtain ⟨id, d⟩ := b
    have hh : p.hashing = some (id, d) := by rw [hhash, hdat]
    simp only [hh]
    by_cases hne : H d ≠ h
    · rw [if_pos hne]
      have h1 : Inv g H Good (setP s i
          { p with data := some (id, d), peers := [], state := .incomplete, hashing := none }) := by
        refine inv_setP_same_buf g H Good s i p _ hinv hp (by simp [hdat]) ?_
        exact { complete := by intro h; cases h
                busy := by intro h; cases h
                idle := fun _ => rfl
                nodata := by intro h; cases h
                dlen := by intro id' d' h; exact hpi.dlen id' d' (by rw [hdat]; exact h)
                bits := hpi.bits }
      have h2 := inv_del g H Good _ i true h1
      split
      · rename_i heq; rw [heq] at h2; exact h2
      · rename_i heq; rw [heq] at h2; exact h2
    · rw [if_neg hne]
      have heq : H d = h := by
        false_or_by_contra; exact hne ‹_›
      show Inv g H Good (setP s i _)
      refine inv_setP_same_buf g H Good s i p _ hinv hp (by simp [hdat]) ?_
      exact { complete := fun _ => ⟨id, d, rfl, heq, hgood⟩
              busy := by intro h; cases h
              idle := fun _ => rfl
              nodata := by intro h; cases h
              dlen := by intro id' d' h; exact hpi.dlen id' d' (by rw [hdat]; exact h)
              bits := hpi.bits }

theorem inv_time (s : State) (i : Nat) (p : Piece) (t : Nat) (hinv : Inv g H Good s)
    (hp : s.pieces[i]? = some p) : Inv g H Good (setP s i { p with time := t }) := by
  have hpi := hinv.pieces i p hp
  refine inv_setP_same_buf g H Good s i p _ hinv hp (by rfl) ?_
  exact { complete := hpi.complete, busy := hpi.busy, idle := hpi.idle, nodata := hpi.nodata,
          dlen := hpi.dlen, bits := hpi.bits }

/-- the callers' discipline: which digests piece `i` may be finalised against -/
def StepGood (Good : Nat → Bytes → Prop) : Step → Prop
  | .finEnd i h => Good i h
  | _ => True

/-- every atomic step preserves the invariant -/
theorem inv_step (hv : g.Valid) (s : State) (st : Step) (hgood : StepGood Good st)
    (hinv : Inv g H Good s) :
    Inv g H Good (step H g s st).1 := by
  cases st with
  | addData i b blk peer allocOk =>
    show Inv g H Good (addDataA g s i b blk peer allocOk).1
    unfold addDataA
    split
    · exact hinv
    · exact inv_addData g H Good hv s i b blk peer hinv
  | finBegin i => exact inv_finBegin g H Good hv s i hinv
  | hashRead i =>
    show Inv g H Good (hashRead s i).1
    unfold hashRead
    repeat' split
    all_goals exact hinv
  | finEnd i h => exact inv_finEnd g H Good s i h hgood hinv
  | del i force => exact inv_del g H Good s i force hinv
  | latch =>
    exact { len := hinv.len, pieces := hinv.pieces, live := hinv.live, distinct := hinv.distinct,
            freedLt := hinv.freedLt, freedNodup := hinv.freedNodup, count := hinv.count,
            alloc := hinv.alloc }
  | readAt off n =>
    show Inv g H Good (readAt g s off n).1
    unfold readAt
    dsimp only
    repeat' split
    all_goals exact hinv
  | hole i off =>
    show Inv g H Good (hole g s i off).1
    unfold hole
    dsimp only
    repeat' split
    all_goals exact hinv
  | updateTime i now =>
    show Inv g H Good (updateTime s i now).1
    unfold updateTime
    cases hp : s.pieces[i]? with
    | none => exact hinv
    | some p =>
      simp only
      split
      · exact inv_time g H Good s i p now hinv hp
      · have := inv_time g H Good s i p p.time hinv hp
        exact this
  | setTime i t =>
    show Inv g H Good (setTime s i t).1
    unfold setTime
    cases hp : s.pieces[i]? with
    | none => exact hinv
    | some p => exact inv_time g H Good s i p t hinv hp

/-- …hence every interleaving does -/
theorem inv_run (hv : g.Valid) (s : State) (steps : List Step)
    (hgood : ∀ st, st ∈ steps → StepGood Good st) (hinv : Inv g H Good s) :
    Inv g H Good (run H g s steps) := by
  induction steps generalizing s with
  | nil => exact hinv
  | cons st rest ih =>
    exact ih _ (fun st' h => hgood st' (List.mem_cons_of_mem _ h))
      (inv_step g H Good hv s st (hgood st List.mem_cons_self) hinv)

end Storrent.Piece
