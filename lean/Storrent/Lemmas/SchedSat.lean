import Storrent.Model.Sched
import Storrent.Lemmas.Sched
import Storrent.Lemmas.SchedAvail
import Storrent.Lemmas.SchedUnder
import Storrent.Lemmas.SchedFifo
/- No counter saturates under the scheduler's guards (C09_no_saturation). -/
namespace Storrent.Sched

/-- the steps that neither increment a counter nor add a peer -/
def Op.other : Op → Bool
  | .connect _ _ _ => false
  | .request _ _ _ => false
  | .torEvent => false
  | .wsReserve _ => false
  | _ => true

macro "leaf" : tactic =>
  `(tactic| first | exact ⟨rfl, rfl, rfl, rfl⟩ | exact ⟨rfl, rfl, rfl, by simp [commitPeer]⟩)

theorem step_other (s : State) (op : Op) (hop : op.other = true) :
    (step s op).1.sat = s.sat ∧ (step s op).1.inFlight = s.inFlight ∧
    (step s op).1.writers.map (·.rsv) = s.writers.map (·.rsv) ∧ (step s op).1.peers.length = s.peers.length := by
  unfold step
  split
  · leaf
  · cases op with
    | connect fast evcap wcap => cases hop
    | request i cs ad => cases hop
    | push i e =>
      simp only []
      split
      · leaf
      · split
        · leaf
        · split
          · leaf
          · cases e <;> leaf
    | peerEvent i slow =>
      simp only []
      split
      · leaf
      · split
        · leaf
        · split <;> leaf
    | peerMsg i m slow =>
      simp only []
      split
      · leaf
      · split <;> leaf
    | tick i rto slow =>
      simp only []
      split
      · leaf
      · split
        · leaf
        · split <;> leaf
    | age i d => simp only []; split <;> leaf
    | exit i =>
      simp only []
      split
      · leaf
      · split <;> leaf
    | flush i => simp only []; split <;> leaf
    | torEvent => cases hop
    | wdrain i => simp only []; split <;> leaf
    | wfill i k =>
      simp only []
      split
      · leaf
      · split <;> leaf
    | wsReserve idx => cases hop
    | wWrite w n =>
      simp only []
      split
      · leaf
      · rename_i wr hwr
        split
        · leaf
        · split
          · leaf
          · split
            · leaf
            · split
              · split
                · leaf
                · (refine ⟨rfl, rfl, ?_, rfl⟩; show List.map _ (setN s.writers w _) = _; apply map_setN_same _ _ _ wr _ hwr; rfl)
              · (refine ⟨rfl, rfl, ?_, rfl⟩; show List.map _ (setN s.writers w _) = _; apply map_setN_same _ _ _ wr _ hwr; rfl)
    | wClose w =>
      simp only []
      split
      · leaf
      · rename_i wr hwr
        split
        · leaf
        · split
          · split
            · leaf
            · (refine ⟨rfl, rfl, ?_, rfl⟩; show List.map _ (setN s.writers w _) = _; apply map_setN_same _ _ _ wr _ hwr; rfl)
          · (refine ⟨rfl, rfl, ?_, rfl⟩; show List.map _ (setN s.writers w _) = _; apply map_setN_same _ _ _ wr _ hwr; rfl)
    | finalise idx =>
      simp only []
      split
      · leaf
      · split <;> leaf
    | metaComplete =>
      simp only []
      split
      · leaf
      · split
        · leaf
        · exact ⟨rfl, rfl, rfl, by simp [castMeta]⟩


/-! ### counters -/

theorem decr_le (s : State) (c : Nat) :
    (decr s c).sat = s.sat ∧ (decr s c).writers = s.writers ∧ (decr s c).peers = s.peers ∧
    ∀ b, getN (decr s c).inFlight b ≤ getN s.inFlight b := by
  unfold decr
  split
  · exact ⟨rfl, rfl, rfl, fun _ => Nat.le_refl _⟩
  · split
    · exact ⟨rfl, rfl, rfl, fun _ => Nat.le_refl _⟩
    · refine ⟨rfl, rfl, rfl, fun b => ?_⟩
      show getN (setN s.inFlight c (getN s.inFlight c - 1)) b ≤ _
      rw [getN_setN]
      split
      · rename_i h; rw [← h.1]; omega
      · exact Nat.le_refl _

theorem decrAll_le : ∀ (cs : List Nat) (s : State),
    (decrAll s cs).sat = s.sat ∧ (decrAll s cs).writers = s.writers ∧ (decrAll s cs).peers = s.peers ∧
    ∀ b, getN (decrAll s cs).inFlight b ≤ getN s.inFlight b := by
  intro cs
  induction cs with
  | nil => intro s; exact ⟨rfl, rfl, rfl, fun _ => Nat.le_refl _⟩
  | cons c cs ih =>
    intro s
    obtain ⟨a1, a2, a3, a4⟩ := decr_le s c
    obtain ⟨b1, b2, b3, b4⟩ := ih (decr s c)
    exact ⟨b1.trans a1, b2.trans a2, b3.trans a3, fun b => Nat.le_trans (b4 b) (a4 b)⟩

theorem castCancel_length (ex : Option Nat) (c : Nat) : ∀ (l : List Peer) (i : Nat), (castCancel ex c i l).length = l.length := by
  intro l
  induction l with
  | nil => intro _; rfl
  | cons p ps ih => intro i; simp [castCancel, ih]

theorem dataLoop_le (ex : Option Nat) : ∀ (cs : List Nat) (s : State),
    (dataLoop ex cs s).sat = s.sat ∧ (dataLoop ex cs s).writers = s.writers ∧
    (dataLoop ex cs s).peers.length = s.peers.length ∧
    ∀ b, getN (dataLoop ex cs s).inFlight b ≤ getN s.inFlight b := by
  intro cs
  induction cs with
  | nil => intro s; exact ⟨rfl, rfl, rfl, fun _ => Nat.le_refl _⟩
  | cons c cs ih =>
    intro s
    obtain ⟨a1, a2, a3, a4⟩ := decr_le s c
    simp only [dataLoop]
    split
    · obtain ⟨b1, b2, b3, b4⟩ := ih { decr s c with peers := castCancel ex c 0 (decr s c).peers }
      refine ⟨b1.trans a1, b2.trans a2, ?_, fun b => Nat.le_trans (b4 b) (a4 b)⟩
      rw [b3]; show (castCancel ex c 0 (decr s c).peers).length = _
      rw [castCancel_length, a3]
    · obtain ⟨b1, b2, b3, b4⟩ := ih (decr s c)
      exact ⟨b1.trans a1, b2.trans a2, by rw [b3, a3], fun b => Nat.le_trans (b4 b) (a4 b)⟩

theorem incr_bounded (s : State) (c : Nat) (h : getN s.inFlight c < 255) :
    (incr s c).sat = s.sat ∧ (incr s c).writers = s.writers ∧ (incr s c).peers = s.peers ∧
    ∀ b, getN (incr s c).inFlight b ≤ getN s.inFlight b + (if c = b then 1 else 0) := by
  unfold incr
  split
  · exact ⟨rfl, rfl, rfl, fun b => by show getN s.inFlight b ≤ _; omega⟩
  · rw [if_neg (by omega)]
    refine ⟨rfl, rfl, rfl, fun b => ?_⟩
    show getN (setN s.inFlight c (getN s.inFlight c + 1)) b ≤ _
    rw [getN_setN]
    split
    · rename_i h1; rw [if_pos h1.1, ← h1.1]; exact Nat.le_refl _
    · omega

theorem incrAll_bounded : ∀ (cs : List Nat) (s : State),
    (∀ c, 0 < cnt c cs → getN s.inFlight c + cnt c cs ≤ 255) →
    (incrAll s cs).sat = s.sat ∧ (incrAll s cs).writers = s.writers ∧ (incrAll s cs).peers = s.peers ∧
    ∀ b, getN (incrAll s cs).inFlight b ≤ getN s.inFlight b + cnt b cs := by
  intro cs
  induction cs with
  | nil => intro s _; exact ⟨rfl, rfl, rfl, fun _ => by simp [incrAll]⟩
  | cons c cs ih =>
    intro s h
    have hc : getN s.inFlight c < 255 := by have := h c (by simp; omega); simp at this; omega
    obtain ⟨a1, a2, a3, a4⟩ := incr_bounded s c hc
    obtain ⟨b1, b2, b3, b4⟩ := ih (incr s c) (by
      intro c' hc'
      have := h c' (by simp; omega)
      have := a4 c'
      simp at *
      omega)
    refine ⟨b1.trans a1, b2.trans a2, b3.trans a3, fun b => ?_⟩
    have := b4 b
    have := a4 b
    show getN (incrAll (incr s c) cs).inFlight b ≤ _
    simp
    omega

/-! ### availability counters -/

theorem noteAvail_false_sat (s : State) (i : Nat) : (noteAvail s i false).sat = s.sat := by
  unfold noteAvail
  simp only [Bool.false_eq_true, if_false]
  split <;> split <;> rfl

theorem noteAvailAll_false_sat : ∀ (bits : List Nat) (s : State),
    (bits.foldl (fun s i => noteAvail s i false) s).sat = s.sat := by
  intro bits
  induction bits with
  | nil => intro s; rfl
  | cons i is ih => intro s; simp only [List.foldl_cons]; rw [ih, noteAvail_false_sat]

theorem noteAvail_inc (s : State) (i : Nat) (h : getN s.avail i < 65535) :
    (noteAvail s i true).sat = s.sat ∧ ∀ j, getN (noteAvail s i true).avail j = getN s.avail j + (if i = j then 1 else 0) := by
  unfold noteAvail
  simp only [if_true]
  have hext : ∃ av, (if s.avail.length ≤ i then s.avail ++ List.replicate (i + 1 - s.avail.length) 0 else s.avail) = av ∧
      i < av.length ∧ ∀ j, getN av j = getN s.avail j := by
    split
    · exact ⟨_, rfl, by simp; omega, fun j => getN_append_zeros _ _ j⟩
    · exact ⟨_, rfl, by omega, fun _ => rfl⟩
  obtain ⟨av, e, hl, hget⟩ := hext
  rw [e, if_neg (by rw [hget]; omega)]
  refine ⟨rfl, fun j => ?_⟩
  show getN (setN av i (getN av i + 1)) j = _
  rw [getN_setN]
  split
  · rename_i h1; rw [if_pos h1.1, ← hget j, h1.1]
  · rename_i h1
    have : ¬ i = j := fun e => h1 ⟨e, hl⟩
    rw [if_neg this, hget j]; rfl

theorem noteAvailAll_true_sat : ∀ (bits : List Nat) (s : State),
    (∀ j, 0 < cnt j bits → getN s.avail j + cnt j bits ≤ 65535) →
    (bits.foldl (fun s i => noteAvail s i true) s).sat = s.sat := by
  intro bits
  induction bits with
  | nil => intro s _; rfl
  | cons i is ih =>
    intro s h
    have hi : getN s.avail i < 65535 := by have := h i (by simp; omega); simp at this; omega
    obtain ⟨a1, a2⟩ := noteAvail_inc s i hi
    simp only [List.foldl_cons]
    rw [ih, a1]
    intro j hj
    have := h j (by simp; omega)
    rw [a2 j]
    simp at this
    omega

theorem sumI_le_length {α : Type} (f : Nat → α → Nat) (hf : ∀ j t, f j t ≤ 1) : ∀ (l : List α) (k0 : Nat),
    sumI f k0 l ≤ l.length := by
  intro l
  induction l with
  | nil => intro _; simp [sumI]
  | cons x xs ih =>
    intro k0
    have := ih (k0+1)
    have := hf k0 x
    simp only [sumI, List.length_cons]; omega

theorem wB_le_one (te : List TorEv) (i k : Nat) (t : Strip) : wB te i k t ≤ 1 := by
  unfold wB; split <;> omega

/-- applying an availability event cannot saturate the `uint16` while fewer than 65535 peers are in the table -/
theorem finv_pop_sat (s : State) (hF : FInv s) (e : TorEv) (rest : List TorEv) (h : s.tEvent = e :: rest)
    (p : Nat) (bits : List Nat) (hv : Bool) (htag : tagOf e = some p)
    (hsgn : ∀ i k, sgn i k e = if p = k then List.replicate (cnt i bits) hv else [])
    (hs : s.sat = false) (hlen : s.peers.length ≤ 65534) :
    (bits.foldl (fun s i => noteAvail s i hv) { s with tEvent := rest }).sat = false := by
  cases hv with
  | false => rw [noteAvailAll_false_sat]; exact hs
  | true =>
    have hp : p < s.peers.length := hF.tagT e (by rw [h]; simp) p htag
    obtain ⟨pr, hpr⟩ : ∃ pr, s.peers[p]? = some pr := ⟨s.peers[p], by simp [hp]⟩
    rw [noteAvailAll_true_sat]
    · exact hs
    · intro j hj
      have hc : cnt j bits ≤ 1 := by
        have := hF.alt j p pr hpr
        rw [h, sigs_cons, hsgn, if_pos rfl, List.append_assoc] at this
        exact (altOK_pop_replicate _ true (cnt j bits) _ this).1
      obtain ⟨_, a2⟩ := hF.val hs
      show getN s.avail j + cnt j bits ≤ 65535
      rw [a2 j]
      have := sumI_le_length (wB s.tEvent j) (wB_le_one s.tEvent j) (s.peers.map strip) 0
      simp at this
      omega


/-! ### the bound -/

structure KInv (s : State) : Prop where
  nosat : s.sat = false
  bound : ∀ b, getN s.inFlight b ≤ 3 + resv s b
  npeers : s.peers.length ≤ 50

theorem resv_of_map (s s' : State) (h : s'.writers.map (·.rsv) = s.writers.map (·.rsv)) (b : Nat) :
    resv s' b = resv s b := by
  unfold resv
  have e : ∀ (l : List Writer), sumL (fun w => cnt b w.rsv) l = sumL (fun r => cnt b r) (l.map (·.rsv)) :=
    fun l => sumL_map (fun (r : List Nat) => cnt b r) (·.rsv) l
  rw [e, e, h]

theorem kinv_of (s s' : State) (hK : KInv s) (h1 : s'.sat = false) (h2 : ∀ b, getN s'.inFlight b ≤ getN s.inFlight b)
    (h3 : s'.writers.map (·.rsv) = s.writers.map (·.rsv)) (h4 : s'.peers.length = s.peers.length) : KInv s' :=
  ⟨h1, fun b => by rw [resv_of_map s s' h3 b]; exact Nat.le_trans (h2 b) (hK.bound b), by rw [h4]; exact hK.npeers⟩

theorem wsReserve_shape (s : State) (idx : Nat) (hp : ¬ s.panicked = true) :
    (step s (.wsReserve idx)).1 = s ∨ (step s (.wsReserve idx)).1 = { s with panicked := true } ∨
    ∃ o l, (step s (.wsReserve idx)).1 =
      { incrAll s (wsChunks s.g idx o l) with
        writers := (incrAll s (wsChunks s.g idx o l)).writers ++
          [{ idx := idx, offset := o, count := l, rsv := wsChunks s.g idx o l }] } := by
  unfold step
  rw [if_neg hp]
  simp only []
  split
  · exact Or.inl rfl
  · split
    · exact Or.inl rfl
    · rename_i o l0 _
      generalize (if l0 > 1048576 then 1048576 else l0) = l
      split
      · exact Or.inr (Or.inl rfl)
      · exact Or.inr (Or.inr ⟨o, l, rfl⟩)

theorem handleTorEv_kinv (s : State) (hK : KInv s) (hF : FInv s) (e : TorEv) (rest : List TorEv)
    (h : s.tEvent = e :: rest) : KInv (handleTorEv { s with tEvent := rest } e) := by
  cases e with
  | data src idx begin len c =>
    simp only [handleTorEv]
    split
    · exact kinv_of s _ hK hK.nosat (fun _ => Nat.le_refl _) rfl rfl
    · obtain ⟨a1, a2, a3, a4⟩ := dataLoop_le src (covRange s.g idx begin len) { s with tEvent := rest }
      exact kinv_of s _ hK (by rw [a1]; exact hK.nosat) a4 (by rw [a2]) a3
  | drop idx begin len =>
    simp only [handleTorEv]
    obtain ⟨a1, a2, a3, a4⟩ := decrAll_le (covRange s.g idx begin len) { s with tEvent := rest }
    exact kinv_of s _ hK (by rw [a1]; exact hK.nosat) a4 (by rw [a2]) (by rw [a3])
  | unchoke p b => exact kinv_of s _ hK hK.nosat (fun _ => Nat.le_refl _) rfl rfl
  | goaway p =>
    simp only [handleTorEv]
    split
    · exact kinv_of s _ hK hK.nosat (fun _ => Nat.le_refl _) rfl rfl
    · rename_i pr hpr
      split
      · exact kinv_of s _ hK hK.nosat (fun _ => Nat.le_refl _) rfl rfl
      · obtain ⟨a1, a2, a3, a4⟩ := decrAll_le (pr.evq.flatMap reqChunks)
          { s with tEvent := rest, peers := setN s.peers p { pr with present := false, evq := [] } }
        exact kinv_of s _ hK (by rw [a1]; exact hK.nosat) a4 (by rw [a2]) (by rw [a3]; simp)
  | bitmap p bits hv =>
    simp only [handleTorEv]
    have hs := finv_pop_sat s hF _ rest h p bits hv rfl (fun i k => rfl) hK.nosat (by have := hK.npeers; omega)
    obtain ⟨av, sat, au, e1, _⟩ := noteAvailAll_spec hv bits { s with tEvent := rest }
    rw [e1] at hs ⊢
    exact kinv_of s _ hK hs (fun _ => Nat.le_refl _) rfl rfl
  | phave p idx hv =>
    have e0 : handleTorEv { s with tEvent := rest } (.phave p idx hv)
        = [idx].foldl (fun s i => noteAvail s i hv) { s with tEvent := rest } := rfl
    rw [e0]
    have hs := finv_pop_sat s hF _ rest h p [idx] hv rfl (fun i k => by
      simp only [sgn, cnt_cons, cnt_nil]
      by_cases h1 : p = k <;> by_cases h2 : idx = i <;> simp [h1, h2]) hK.nosat (by have := hK.npeers; omega)
    obtain ⟨av, sat, au, e1, _⟩ := noteAvailAll_spec hv [idx] { s with tEvent := rest }
    rw [e1] at hs ⊢
    exact kinv_of s _ hK hs (fun _ => Nat.le_refl _) rfl rfl

theorem step_kinv (s : State) (op : Op) (hK : KInv s) (hF : FInv s) (hG : stepGuard s op) : KInv (step s op).1 := by
  by_cases hp : s.panicked = true
  · have : (step s op).1 = s := by unfold step; rw [if_pos hp]
    rw [this]; exact hK
  · by_cases ho : op.other = true
    · obtain ⟨a1, a2, a3, a4⟩ := step_other s op ho
      exact kinv_of s _ hK (by rw [a1]; exact hK.nosat) (fun b => by rw [a2]; exact Nat.le_refl _) a3 a4
    · cases op with
      | connect fast evcap wcap =>
        have hg : s.peers.length < 50 := hG
        unfold step
        rw [if_neg hp]
        exact ⟨hK.nosat, hK.bound, by simp; omega⟩
      | request i cs ad =>
        have hg : ∀ c, 0 < cnt c cs → getN s.inFlight c + cnt c cs ≤ 3 := hG
        unfold step
        rw [if_neg hp]
        simp only []
        split
        · exact hK
        · rename_i p hpp
          split
          · exact hK
          · split
            · exact hK
            · split
              · exact hK
              · split
                · exact hK
                · obtain ⟨b1, b2, b3, b4⟩ := incrAll_bounded cs
                    { s with peers := setN s.peers i { p with evq := p.evq ++ [.request cs] } }
                    (fun c hc => by have := hg c hc; show getN s.inFlight c + cnt c cs ≤ 255; omega)
                  refine ⟨by rw [b1]; exact hK.nosat, fun b => ?_, by rw [b3]; simp; exact hK.npeers⟩
                  have e : resv (incrAll { s with peers := setN s.peers i { p with evq := p.evq ++ [.request cs] } } cs) b
                      = resv s b := resv_of_map s _ (by rw [b2]) b
                  rw [e]
                  have h4 : getN (incrAll { s with peers := setN s.peers i { p with evq := p.evq ++ [.request cs] } } cs).inFlight b
                      ≤ getN s.inFlight b + cnt b cs := b4 b
                  have := hK.bound b
                  show getN (incrAll { s with peers := setN s.peers i { p with evq := p.evq ++ [.request cs] } } cs).inFlight b
                      ≤ 3 + resv s b
                  rcases Nat.eq_zero_or_pos (cnt b cs) with hz | hz
                  · omega
                  · have := hg b hz; omega
      | wsReserve idx =>
        have hg : ∀ b, resv (step s (.wsReserve idx)).1 b ≤ 252 := hG
        rcases wsReserve_shape s idx hp with h | h | ⟨o, l, h⟩
        · rw [h]; exact hK
        · rw [h]; exact kinv_of s _ hK hK.nosat (fun _ => Nat.le_refl _) rfl rfl
        · rw [h] at hg ⊢
          obtain ⟨_, _, _, _, _, f6⟩ := incrAll_frame s (wsChunks s.g idx o l)
          have hres : ∀ b, resv { incrAll s (wsChunks s.g idx o l) with
              writers := (incrAll s (wsChunks s.g idx o l)).writers ++
                [{ idx := idx, offset := o, count := l, rsv := wsChunks s.g idx o l }] } b
              = resv s b + cnt b (wsChunks s.g idx o l) := by
            intro b
            unfold resv
            simp only [f6, sumL_append, sumL_cons, sumL_nil]
            omega
          obtain ⟨b1, b2, b3, b4⟩ := incrAll_bounded (wsChunks s.g idx o l) s (fun c hc => by
            have := hg c
            rw [hres c] at this
            have := hK.bound c
            omega)
          refine ⟨by show (incrAll s (wsChunks s.g idx o l)).sat = false; rw [b1]; exact hK.nosat, fun b => ?_,
            by show (incrAll s (wsChunks s.g idx o l)).peers.length ≤ 50; rw [b3]; exact hK.npeers⟩
          rw [hres b]
          have := b4 b
          have := hK.bound b
          show getN (incrAll s (wsChunks s.g idx o l)).inFlight b ≤ _
          omega
      | torEvent =>
        unfold step
        rw [if_neg hp]
        simp only []
        split
        · exact hK
        · rename_i e rest he
          split
          · exact kinv_of s _ hK hK.nosat (fun _ => Nat.le_refl _) rfl rfl
          · exact handleTorEv_kinv s hK hF e rest he
      | push i e => exact absurd rfl ho
      | peerEvent i slow => exact absurd rfl ho
      | peerMsg i m slow => exact absurd rfl ho
      | tick i rto slow => exact absurd rfl ho
      | age i d => exact absurd rfl ho
      | exit i => exact absurd rfl ho
      | flush i => exact absurd rfl ho
      | wdrain i => exact absurd rfl ho
      | wfill i k => exact absurd rfl ho
      | wWrite w n => exact absurd rfl ho
      | wClose w => exact absurd rfl ho
      | finalise idx => exact absurd rfl ho
      | metaComplete => exact absurd rfl ho

theorem init_kinv (g : Geom) (tcap : Nat) : KInv (init g tcap) := by
  refine ⟨rfl, fun b => ?_, by simp [init]⟩
  have : ∀ (n b : Nat), getN (List.replicate n 0) b = 0 := by
    intro n
    induction n with
    | zero => intro b; cases b <;> rfl
    | succ n ih => intro b; cases b <;> simp [List.replicate_succ, getN, ih]
  simp [init, this]

theorem run_kinv (ops : List Op) : ∀ (s : State), KInv s → FInv s → AInv s → Guarded s ops → KInv (run s ops) := by
  induction ops with
  | nil => intro s h _ _ _; exact h
  | cons op ops ih =>
    intro s hK hF hA hG
    exact ih _ (step_kinv s op hK hF hG.1) (step_finv s op hF hA) (step_ainv s op hA) hG.2

end Storrent.Sched
