import Storrent.Model.Sched
import Storrent.Lemmas.Sched
import Storrent.Lemmas.SchedMeta
/- The "Eek!  InFlight underflow." branch of noteInFlight is unreachable below saturation. -/
namespace Storrent.Sched

theorem incr_us (s : State) (c : Nat) : (incr s c).under = s.under ∧ (s.sat = true → (incr s c).sat = true) := by
  unfold incr
  split
  · exact ⟨rfl, id⟩
  · split
    · exact ⟨rfl, fun _ => rfl⟩
    · exact ⟨rfl, id⟩

theorem incrAll_us : ∀ (cs : List Nat) (s : State),
    (incrAll s cs).under = s.under ∧ (s.sat = true → (incrAll s cs).sat = true) := by
  intro cs
  induction cs with
  | nil => intro s; exact ⟨rfl, id⟩
  | cons c cs ih =>
    intro s
    obtain ⟨h1, h2⟩ := incr_us s c
    obtain ⟨h3, h4⟩ := ih (incr s c)
    exact ⟨h3.trans h1, fun h => h4 (h2 h)⟩

theorem step_under_other (s : State) (op : Op) (hop : ∀ (x : Unit), op ≠ Op.torEvent) :
    (step s op).1.under = s.under ∧ (s.sat = true → (step s op).1.sat = true) := by
  unfold step
  split
  · exact ⟨rfl, id⟩
  · cases op with
    | connect fast evcap wcap => exact ⟨rfl, id⟩
    | request i cs ad =>
      simp only []
      split
      · exact ⟨rfl, id⟩
      · split
        · exact ⟨rfl, id⟩
        · split
          · exact ⟨rfl, id⟩
          · split
            · exact ⟨rfl, id⟩
            · split
              · exact ⟨rfl, id⟩
              · exact incrAll_us _ _
    | push i e =>
      simp only []
      split
      · exact ⟨rfl, id⟩
      · split
        · exact ⟨rfl, id⟩
        · split
          · exact ⟨rfl, id⟩
          · cases e <;> exact ⟨rfl, id⟩
    | peerEvent i slow =>
      simp only []
      split
      · exact ⟨rfl, id⟩
      · split
        · exact ⟨rfl, id⟩
        · split <;> exact ⟨rfl, id⟩
    | peerMsg i m slow =>
      simp only []
      split
      · exact ⟨rfl, id⟩
      · split <;> exact ⟨rfl, id⟩
    | tick i rto slow =>
      simp only []
      split
      · exact ⟨rfl, id⟩
      · split
        · exact ⟨rfl, id⟩
        · split <;> exact ⟨rfl, id⟩
    | age i d => simp only []; split <;> exact ⟨rfl, id⟩
    | exit i =>
      simp only []
      split
      · exact ⟨rfl, id⟩
      · split <;> exact ⟨rfl, id⟩
    | flush i => simp only []; split <;> exact ⟨rfl, id⟩
    | torEvent => exact absurd rfl (hop ())
    | wdrain i => simp only []; split <;> exact ⟨rfl, id⟩
    | wfill i k =>
      simp only []
      split
      · exact ⟨rfl, id⟩
      · split <;> exact ⟨rfl, id⟩
    | wsReserve idx =>
      simp only []
      split
      · exact ⟨rfl, id⟩
      · split
        · exact ⟨rfl, id⟩
        · rename_i o l0 _
          generalize (if l0 > 1048576 then 1048576 else l0) = l
          split
          · exact ⟨rfl, id⟩
          · exact incrAll_us _ _
    | wWrite w n =>
      simp only []
      split
      · exact ⟨rfl, id⟩
      · split
        · exact ⟨rfl, id⟩
        · split
          · exact ⟨rfl, id⟩
          · split
            · exact ⟨rfl, id⟩
            · split
              · split <;> exact ⟨rfl, id⟩
              · exact ⟨rfl, id⟩
    | wClose w =>
      simp only []
      split
      · exact ⟨rfl, id⟩
      · split
        · exact ⟨rfl, id⟩
        · split
          · split <;> exact ⟨rfl, id⟩
          · exact ⟨rfl, id⟩
    | finalise idx =>
      simp only []
      split
      · exact ⟨rfl, id⟩
      · split <;> exact ⟨rfl, id⟩
    | metaComplete =>
      simp only []
      split
      · exact ⟨rfl, id⟩
      · split <;> exact ⟨rfl, id⟩


theorem decr_under (s : State) (c : Nat) :
    (s.sat = true → (decr s c).sat = true) ∧ (decr s c).inFlight.length = s.inFlight.length ∧
    ((c < s.inFlight.length → 0 < getN s.inFlight c) →
      (decr s c).under = s.under ∧ ∀ b, getN (decr s c).inFlight b = getN s.inFlight b - (if c = b then 1 else 0)) := by
  unfold decr
  split
  · rename_i h
    exact ⟨id, rfl, fun _ => ⟨rfl, fun b => by
      split
      · rename_i hb; subst hb; rw [getN_ge _ _ h]
      · rfl⟩⟩
  · split
    · rename_i h1 h2
      exact ⟨id, rfl, fun h => by have := h (by omega); omega⟩
    · rename_i h1 h2
      refine ⟨id, by simp, fun _ => ⟨rfl, fun b => ?_⟩⟩
      show getN (setN s.inFlight c (getN s.inFlight c - 1)) b = _
      rw [getN_setN]
      split
      · rename_i h; rw [if_pos h.1, h.1]
      · rename_i h
        have : ¬ c = b := fun hc => h ⟨hc, by omega⟩
        rw [if_neg this]; rfl

theorem decrAll_under : ∀ (cs : List Nat) (s : State),
    (s.sat = true → (decrAll s cs).sat = true) ∧
    ((∀ b, b < s.inFlight.length → cnt b cs ≤ getN s.inFlight b) → (decrAll s cs).under = s.under) := by
  intro cs
  induction cs with
  | nil => intro s; exact ⟨id, fun _ => rfl⟩
  | cons c cs ih =>
    intro s
    obtain ⟨h1, hl, h2⟩ := decr_under s c
    obtain ⟨h3, h4⟩ := ih (decr s c)
    refine ⟨fun h => h3 (h1 h), fun hyp => ?_⟩
    have hc : c < s.inFlight.length → 0 < getN s.inFlight c := by
      intro hlt; have := hyp c hlt; simp at this; omega
    obtain ⟨hu, hg⟩ := h2 hc
    show (decrAll (decr s c) cs).under = s.under
    rw [h4 ?_, hu]
    intro b hb
    rw [hl] at hb
    have := hyp b hb
    rw [hg b]
    by_cases hcb : c = b <;> simp [hcb] at this ⊢ <;> omega

theorem dataLoop_under (ex : Option Nat) : ∀ (cs : List Nat) (s : State),
    (s.sat = true → (dataLoop ex cs s).sat = true) ∧
    ((∀ b, b < s.inFlight.length → cnt b cs ≤ getN s.inFlight b) → (dataLoop ex cs s).under = s.under) := by
  intro cs
  induction cs with
  | nil => intro s; exact ⟨id, fun _ => rfl⟩
  | cons c cs ih =>
    intro s
    obtain ⟨h1, hl, h2⟩ := decr_under s c
    simp only [dataLoop]
    split
    · obtain ⟨h3, h4⟩ := ih { decr s c with peers := castCancel ex c 0 (decr s c).peers }
      refine ⟨fun h => h3 (h1 h), fun hyp => ?_⟩
      have hc : c < s.inFlight.length → 0 < getN s.inFlight c := by
        intro hlt; have := hyp c hlt; simp at this; omega
      obtain ⟨hu, hg⟩ := h2 hc
      rw [h4 ?_]; exact hu
      intro b hb
      have hb' : b < s.inFlight.length := by rw [← hl]; exact hb
      have := hyp b hb'
      show cnt b cs ≤ getN (decr s c).inFlight b
      rw [hg b]
      by_cases hcb : c = b <;> simp [hcb] at this ⊢ <;> omega
    · obtain ⟨h3, h4⟩ := ih (decr s c)
      refine ⟨fun h => h3 (h1 h), fun hyp => ?_⟩
      have hc : c < s.inFlight.length → 0 < getN s.inFlight c := by
        intro hlt; have := hyp c hlt; simp at this; omega
      obtain ⟨hu, hg⟩ := h2 hc
      rw [h4 ?_]; exact hu
      intro b hb
      rw [hl] at hb
      have := hyp b hb
      rw [hg b]
      by_cases hcb : c = b <;> simp [hcb] at this ⊢ <;> omega

theorem noteAvail_us (s : State) (i : Nat) (hv : Bool) :
    (s.sat = true → (noteAvail s i hv).sat = true) ∧ (noteAvail s i hv).under = s.under := by
  obtain ⟨av, sat, au, e, h⟩ := noteAvail_spec s i hv
  rw [e]
  refine ⟨fun hs => ?_, rfl⟩
  cases hsat : sat with
  | true => rfl
  | false => rw [h hsat] at hs; cases hs

theorem le_sumL_of_get {α : Type} (f : α → Nat) (l : List α) (i : Nat) (x : α) (h : l[i]? = some x) :
    f x ≤ sumL f l := by
  induction l generalizing i with
  | nil => simp at h
  | cons y ys ih =>
    cases i with
    | zero => simp at h; subst h; simp
    | succ i => simp at h; have := ih i h; simp; omega

/-- the underflow flag can only be raised after a saturation or a fault -/
def UInv (s : State) : Prop := s.under = true → s.panicked = true ∨ s.sat = true

theorem handleTorEv_under (s : State) (hI : Inv s) (e : TorEv) (rest : List TorEv) (h : s.tEvent = e :: rest)
    (hp : s.panicked = false) :
    (s.sat = true → (handleTorEv { s with tEvent := rest } e).sat = true) ∧
    (s.sat = false → (handleTorEv { s with tEvent := rest } e).under = s.under) := by
  obtain ⟨hW, hC⟩ := hI
  have hcnt : s.sat = false → ∀ b, b < s.inFlight.length → cnt b (cov s.g e) ≤ getN s.inFlight b := by
    intro hs b hb
    have h1 := hC hp hs b (by rw [← hW.len]; exact hb)
    have h2 := owed_pop s e rest h b
    omega
  cases e with
  | data src idx begin len c =>
    simp only [handleTorEv]
    split
    · exact ⟨id, fun _ => rfl⟩
    · obtain ⟨a1, a2⟩ := dataLoop_under src (covRange s.g idx begin len) { s with tEvent := rest }
      exact ⟨a1, fun hs => a2 (hcnt hs)⟩
  | drop idx begin len =>
    simp only [handleTorEv]
    obtain ⟨a1, a2⟩ := decrAll_under (covRange s.g idx begin len) { s with tEvent := rest }
    exact ⟨a1, fun hs => a2 (hcnt hs)⟩
  | bitmap p bits hv =>
    simp only [handleTorEv]
    have : ∀ (bits : List Nat) (s : State),
        (s.sat = true → (bits.foldl (fun s i => noteAvail s i hv) s).sat = true) ∧
        (bits.foldl (fun s i => noteAvail s i hv) s).under = s.under := by
      intro bits
      induction bits with
      | nil => intro s; exact ⟨id, rfl⟩
      | cons i is ih =>
        intro s
        obtain ⟨b1, b2⟩ := ih (noteAvail s i hv)
        have hn := noteAvail_us s i hv
        exact ⟨fun h => b1 (hn.1 h), b2.trans hn.2⟩
    obtain ⟨b1, b2⟩ := this bits { s with tEvent := rest }
    exact ⟨b1, fun _ => b2⟩
  | phave p idx hv =>
    simp only [handleTorEv]
    have hn := noteAvail_us { s with tEvent := rest } idx hv
    exact ⟨hn.1, fun _ => hn.2⟩
  | unchoke p b => exact ⟨id, fun _ => rfl⟩
  | goaway p =>
    simp only [handleTorEv]
    split
    · exact ⟨id, fun _ => rfl⟩
    · rename_i pr hpr
      split
      · exact ⟨id, fun _ => rfl⟩
      · obtain ⟨a1, a2⟩ := decrAll_under (pr.evq.flatMap reqChunks)
          { s with tEvent := rest, peers := setN s.peers p { pr with present := false, evq := [] } }
        refine ⟨a1, fun hs => a2 ?_⟩
        intro b hb
        have hb' : b < s.inFlight.length := hb
        have hpr' : s.peers[p]? = some pr := hpr
        have h1 := hC hp hs b (by rw [← hW.len]; exact hb')
        have h3 : peerOwed s.g b pr ≤ sumL (peerOwed s.g b) s.peers := le_sumL_of_get _ _ p pr hpr'
        rw [reqOwed_flatMap]
        show reqOwed b pr.evq ≤ getN s.inFlight b
        unfold owed at h1
        rw [peerOwed_def] at h3
        omega

theorem step_uinv (s : State) (op : Op) (hI : Inv s) (hU : UInv s) : UInv (step s op).1 := by
  by_cases hp : s.panicked = true
  · have : (step s op).1 = s := by unfold step; rw [if_pos hp]
    rw [this]; exact hU
  · have hp' : s.panicked = false := by simpa using hp
    by_cases hop : op = Op.torEvent
    · subst hop
      intro hu
      unfold step at hu ⊢
      rw [if_neg hp] at hu ⊢
      simp only [] at hu ⊢
      split at hu
      · exact hU hu
      · rename_i e rest he
        obtain ⟨m1, m2⟩ := handleTorEv_under s hI e rest he hp'
        split at hu
        · rename_i hb
          rw [if_pos hb]
          exact hU hu
        · rename_i hb
          rw [if_neg hb]
          by_cases hs : s.sat = true
          · exact Or.inr (m1 hs)
          · have hs' : s.sat = false := by simpa using hs
            have hu' : (handleTorEv { s with tEvent := rest } e).under = true := hu
            rw [m2 hs'] at hu'
            rcases hU hu' with h | h
            · rw [hp'] at h; cases h
            · rw [hs'] at h; cases h
    · obtain ⟨h1, h2⟩ := step_under_other s op (fun _ => hop)
      intro hu
      rw [h1] at hu
      rcases hU hu with h | h
      · rw [hp'] at h; cases h
      · exact Or.inr (h2 h)

theorem run_inv_uinv (ops : List Op) : ∀ (s : State), Inv s → MInv s → UInv s → UInv (run s ops) := by
  induction ops with
  | nil => intro s _ _ h; exact h
  | cons op ops ih =>
    intro s hI hM hU
    exact ih _ (step_inv s op hI hM) (step_minv s op hM) (step_uinv s op hI hU)

end Storrent.Sched
