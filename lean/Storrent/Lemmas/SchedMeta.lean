import Storrent.Model.Sched
import Storrent.Lemmas.Sched
/-
The metadata transition (magnet torrents): a PeerRequest is consumed only by a peer that
already handled its PeerMetadataComplete (`MInv`), because the torrent sends requests only
after `writePeers(PeerMetadataComplete)` and the command channel is FIFO.
-/
namespace Storrent.Sched

def isMetaEv : PeerEv → Bool
  | .metadata => true
  | _ => false

/-- what the metadata invariant looks at, besides the command channel -/
@[reducible] def infoOf (p : Peer) : Bool × Bool := (p.hasInfo, p.present)

theorem safeQ_true (q : List PeerEv) : safeQ true q := by simp [safeQ]

theorem write_info (p : Peer) : infoOf p.write.1 = infoOf p := by
  unfold Peer.write; split <;> rfl

theorem maybeRequestLoop_info (g : Geom) (slow : Bool) : ∀ (fuel : Nat) (p : Peer) (evs : List TorEv),
    infoOf (maybeRequestLoop g slow fuel p evs).1 = infoOf p := by
  intro fuel
  induction fuel with
  | zero => intro p evs; rfl
  | succ fuel ih =>
    intro p evs
    simp only [maybeRequestLoop]
    split
    · rfl
    · split
      · rfl
      · rename_i q rest hq
        split
        · rfl
        · split
          · rw [ih]
          · have hw := write_info { p with queue := rest }
            cases hwr : ({ p with queue := rest } : Peer).write with
            | mk p2 ok =>
              rw [hwr] at hw
              cases ok with
              | true => simp only [if_true]; rw [ih]; exact hw
              | false => exact hw

theorem maybeRequest_info (g : Geom) (slow : Bool) (p : Peer) (evs : List TorEv) :
    infoOf (maybeRequest g slow p evs).1 = infoOf p := by
  unfold maybeRequest
  split
  · rfl
  · exact maybeRequestLoop_info g slow _ p evs

theorem enqueueAll_info (g : Geom) : ∀ (cs : List Nat) (p : Peer) (evs : List TorEv),
    infoOf (enqueueAll g cs p evs).1 = infoOf p := by
  intro cs
  induction cs with
  | nil => intro p evs; rfl
  | cons c cs ih =>
    intro p evs
    simp only [enqueueAll]
    split <;> rw [ih]

theorem cancelChunk_info (g : Geom) (p : Peer) (c : Nat) (evs : List TorEv) :
    infoOf (cancelChunk g p c evs).1 = infoOf p := by
  unfold cancelChunk
  split
  · rfl
  · split
    · split
      · split
        · rfl
        · exact write_info _
      · rfl
    · split <;> rfl

theorem cancelPieceLoop_info (g : Geom) (idx : Nat) : ∀ (fuel i : Nat) (p : Peer) (evs : List TorEv),
    infoOf (cancelPieceLoop g idx fuel i p evs).1 = infoOf p := by
  intro fuel
  induction fuel with
  | zero => intro i p evs; rfl
  | succ fuel ih =>
    intro i p evs
    simp only [cancelPieceLoop]
    rw [ih, cancelChunk_info]

theorem expireLoop_info (g : Geom) (to : Nat) : ∀ (fuel i : Nat) (p : Peer) (evs : List TorEv) (d : Bool),
    infoOf (expireLoop g to fuel i p evs d).1 = infoOf p := by
  intro fuel
  induction fuel with
  | zero => intro i p evs d; rfl
  | succ fuel ih =>
    intro i p evs d
    simp only [expireLoop]
    split
    · rfl
    · split
      · split
        · rw [ih]
        · rfl
      · split
        · rw [ih, write_info]
        · rw [ih]

theorem delReq_info (p p1 : Peer) (c : Nat) (r : Bool) (h : delReq p c = some (p1, r)) : infoOf p1 = infoOf p := by
  unfold delReq at h
  split at h
  · cases h
  · split at h
    · simp at h; obtain ⟨h1, _⟩ := h; subst h1; rfl
    · split at h
      · simp at h; obtain ⟨h1, _⟩ := h; subst h1; rfl
      · cases h

theorem delRequested_info (p p1 : Peer) (c : Nat) (h : delRequested p c = some p1) : infoOf p1 = infoOf p := by
  unfold delRequested at h
  split at h
  · cases h
  · split at h
    · simp at h; subst h; rfl
    · cases h

theorem handleMsg_info (g : Geom) (pieces : List PieceSt) (k : Nat) (p : Peer) (m : Msg) (slow : Bool) :
    infoOf (handleMsg g pieces k p m slow).1 = infoOf p := by
  cases m with
  | bad => rfl
  | choke => simp only [handleMsg]; split <;> rfl
  | unchoke => rfl
  | haveMsg x => simp only [handleMsg]; split; rfl; split <;> rfl
  | bitfield bs => simp only [handleMsg]; split <;> rfl
  | haveAll => simp only [handleMsg]; split; rfl; split <;> rfl
  | haveNone => simp only [handleMsg]; split <;> rfl
  | dontHave x => simp only [handleMsg]; split; rfl; split; rfl; split <;> rfl
  | allowedFast x => simp only [handleMsg]; split; rfl; split <;> rfl
  | reject idx begin =>
    simp only [handleMsg]
    split
    · rfl
    · split
      · rename_i p1 hp1
        simp only []
        rw [maybeRequest_info, delRequested_info p p1 _ hp1]
      · simp only []
        rw [maybeRequest_info]
  | piece idx begin len =>
    simp only [handleMsg]
    split
    · rfl
    · split
      · simp only []
        rw [maybeRequest_info]
      · rename_i p1 r hp1
        split
        · rfl
        · split
          · simp only []
            rw [maybeRequest_info, delReq_info p p1 _ r hp1]
          · simp only []
            rw [maybeRequest_info, delReq_info p p1 _ r hp1]

theorem handlePeerEv_info (g : Geom) (k : Nat) (p : Peer) (e : PeerEv) (slow : Bool) :
    infoOf (handlePeerEv g k p e slow).1 = (p.hasInfo || isMetaEv e, p.present) := by
  unfold handlePeerEv
  cases e with
  | request cs =>
    simp only [isMetaEv, Bool.or_false]
    split
    · rfl
    · simp only []
      rw [maybeRequest_info, enqueueAll_info]
  | cancel c =>
    simp only [isMetaEv, Bool.or_false]
    split
    · rfl
    · simp only []
      rw [cancelChunk_info]
  | cancelPiece idx =>
    simp only [isMetaEv, Bool.or_false]
    split
    · rfl
    · simp only []
      rw [cancelPieceLoop_info]
  | done => simp [isMetaEv, infoOf]
  | metadata =>
    simp only [isMetaEv, Bool.or_true]
    split
    · rename_i h; simp [infoOf, h]
    · split
      · split <;> rfl
      · split <;> rfl

/-! ### `safeQ` / `metaReady` under the operations on the command channel -/

theorem safeQ_append (h : Bool) (q : List PeerEv) (e : PeerEv) (hs : safeQ h q)
    (he : (∀ cs, e ≠ .request cs) ∨ metaReady h q) : safeQ h (q ++ [e]) := by
  cases h with
  | true => exact safeQ_true _
  | false =>
    induction q with
    | nil =>
      rcases he with he | he
      · cases e with
        | request cs => exact absurd rfl (he cs)
        | cancel c => simp [safeQ]
        | cancelPiece c => simp [safeQ]
        | done => simp [safeQ]
        | metadata => simp [safeQ]
      · rcases he with he | he
        · cases he
        · cases he
    | cons x xs ih =>
      cases x with
      | metadata => simp [safeQ]
      | request cs => simp [safeQ] at hs
      | cancel c =>
        simp only [List.cons_append, safeQ] at hs ⊢
        exact ih hs (by
          rcases he with he | he
          · exact Or.inl he
          · rcases he with he | he
            · cases he
            · simp at he; exact Or.inr (Or.inr he))
      | cancelPiece c =>
        simp only [List.cons_append, safeQ] at hs ⊢
        exact ih hs (by
          rcases he with he | he
          · exact Or.inl he
          · rcases he with he | he
            · cases he
            · simp at he; exact Or.inr (Or.inr he))
      | done =>
        simp only [List.cons_append, safeQ] at hs ⊢
        exact ih hs (by
          rcases he with he | he
          · exact Or.inl he
          · rcases he with he | he
            · cases he
            · simp at he; exact Or.inr (Or.inr he))

theorem metaReady_append (h : Bool) (q : List PeerEv) (e : PeerEv) (hr : metaReady h q) : metaReady h (q ++ [e]) := by
  rcases hr with hr | hr
  · exact Or.inl hr
  · exact Or.inr (by simp [hr])

/-- consuming the head of the channel -/
theorem safeQ_pop (h : Bool) (e : PeerEv) (rest : List PeerEv) (hs : safeQ h (e :: rest)) :
    safeQ (h || isMetaEv e) rest := by
  cases h with
  | true => exact safeQ_true _
  | false =>
    cases e with
    | metadata => exact safeQ_true _
    | request cs => simp [safeQ] at hs
    | cancel c => simpa [safeQ, isMetaEv] using hs
    | cancelPiece c => simpa [safeQ, isMetaEv] using hs
    | done => simpa [safeQ, isMetaEv] using hs

theorem metaReady_pop (h : Bool) (e : PeerEv) (rest : List PeerEv) (hr : metaReady h (e :: rest)) :
    metaReady (h || isMetaEv e) rest := by
  rcases hr with hr | hr
  · exact Or.inl (by simp [hr])
  · cases e with
    | metadata => exact Or.inl (by simp [isMetaEv])
    | request cs => simp at hr; exact Or.inr hr
    | cancel c => simp at hr; exact Or.inr hr
    | cancelPiece c => simp at hr; exact Or.inr hr
    | done => simp at hr; exact Or.inr hr

end Storrent.Sched

namespace Storrent.Sched

theorem safeQ_nil (h : Bool) : safeQ h [] := by cases h <;> simp [safeQ]

/-- peer `i` is replaced; everything else the invariant looks at stays -/
theorem minv_set (s s' : State) (hM : MInv s) (hmeta : s'.hasMeta = s.hasMeta) (i : Nat) (p1 : Peer)
    (hpeers : s'.peers = setN s.peers i p1)
    (h1 : p1.alive = true → safeQ p1.hasInfo p1.evq)
    (h2 : s.hasMeta = true → p1.alive = true → p1.present = true → metaReady p1.hasInfo p1.evq) : MInv s' := by
  refine ⟨?_, ?_⟩
  · intro p hp ha
    rw [hpeers] at hp
    rcases mem_setN _ _ _ _ hp with rfl | hp
    · exact h1 ha
    · exact hM.safe p hp ha
  · intro hm p hp ha hpr
    rw [hmeta] at hm
    rw [hpeers] at hp
    rcases mem_setN _ _ _ _ hp with rfl | hp
    · exact h2 hm ha hpr
    · exact hM.ready hm p hp ha hpr

theorem minv_frame (s s' : State) (hM : MInv s) (hmeta : s'.hasMeta = s.hasMeta) (hpeers : s'.peers = s.peers) :
    MInv s' :=
  ⟨fun p hp ha => hM.safe p (by rw [← hpeers]; exact hp) ha,
   fun hm p hp ha hpr => hM.ready (by rw [← hmeta]; exact hm) p (by rw [← hpeers]; exact hp) ha hpr⟩

/-- a peer of the same kind with a same-kind channel: keep for `minv_set` -/
theorem minv_keep (s s' : State) (hM : MInv s) (hmeta : s'.hasMeta = s.hasMeta) (i : Nat) (p0 p1 : Peer)
    (hp : s.peers[i]? = some p0) (hpeers : s'.peers = setN s.peers i p1)
    (ha : p1.alive = true → p0.alive = true) (hi : infoOf p1 = infoOf p0) (hq : p1.evq = p0.evq) : MInv s' := by
  have hm := mem_of_get _ _ _ hp
  simp only [infoOf, Prod.mk.injEq] at hi
  refine minv_set s s' hM hmeta i p1 hpeers ?_ ?_
  · intro h; rw [hi.1, hq]; exact hM.safe p0 hm (ha h)
  · intro h1 h2 h3; rw [hi.1, hq]; exact hM.ready h1 p0 hm (ha h2) (by rw [← hi.2]; exact h3)

/-- every peer may get some non-request events appended (`writePeers` of a PeerCancel) -/
def PeersExt (l l' : List Peer) : Prop :=
  ∀ p' ∈ l', ∃ p ∈ l, p'.alive = p.alive ∧ p'.present = p.present ∧ p'.hasInfo = p.hasInfo ∧
    ∃ es, (∀ e ∈ es, ∀ cs, e ≠ .request cs) ∧ p'.evq = p.evq ++ es

theorem PeersExt.refl (l : List Peer) : PeersExt l l :=
  fun p hp => ⟨p, hp, rfl, rfl, rfl, [], (fun e (h : e ∈ []) => absurd h (List.not_mem_nil)), (List.append_nil _).symm⟩

theorem PeersExt.trans {l1 l2 l3 : List Peer} (h1 : PeersExt l1 l2) (h2 : PeersExt l2 l3) : PeersExt l1 l3 := by
  intro p3 hp3
  obtain ⟨p2, hp2, a1, a2, a3, es2, a4, a5⟩ := h2 p3 hp3
  obtain ⟨p1, hp1, b1, b2, b3, es1, b4, b5⟩ := h1 p2 hp2
  refine ⟨p1, hp1, a1.trans b1, a2.trans b2, a3.trans b3, es1 ++ es2, ?_, by rw [a5, b5, List.append_assoc]⟩
  intro e he
  rcases List.mem_append.mp he with h | h
  · exact b4 e h
  · exact a4 e h

theorem safeQ_appendL (h : Bool) (q : List PeerEv) : ∀ (es : List PeerEv), safeQ h q →
    (∀ e ∈ es, ∀ cs, e ≠ .request cs) → safeQ h (q ++ es) := by
  intro es
  induction es generalizing q with
  | nil => intro hs _; simpa using hs
  | cons e es ih =>
    intro hs hn
    have := ih (q ++ [e]) (safeQ_append h q e hs (Or.inl (hn e (by simp)))) (fun x hx => hn x (by simp [hx]))
    simpa using this

theorem minv_ext (s s' : State) (hM : MInv s) (hmeta : s'.hasMeta = s.hasMeta) (hext : PeersExt s.peers s'.peers) :
    MInv s' := by
  refine ⟨?_, ?_⟩
  · intro p' hp' ha
    obtain ⟨p, hp, a1, _, a3, es, a4, a5⟩ := hext p' hp'
    rw [a3, a5]
    exact safeQ_appendL _ _ es (hM.safe p hp (by rw [← a1]; exact ha)) a4
  · intro hm p' hp' ha hpr
    obtain ⟨p, hp, a1, a2, a3, es, a4, a5⟩ := hext p' hp'
    rw [a3, a5]
    rcases hM.ready (by rw [← hmeta]; exact hm) p hp (by rw [← a1]; exact ha) (by rw [← a2]; exact hpr) with h | h
    · exact Or.inl h
    · exact Or.inr (by simp [h])

theorem castCancel_ext (ex : Option Nat) (c : Nat) : ∀ (l : List Peer) (i : Nat), PeersExt l (castCancel ex c i l) := by
  intro l
  induction l with
  | nil => intro i; exact PeersExt.refl []
  | cons p ps ih =>
    intro i
    simp only [castCancel]
    intro p' hp'
    rcases List.mem_cons.mp hp' with rfl | hp'
    · refine ⟨p, by simp, ?_⟩
      split
      · exact ⟨rfl, rfl, rfl, [.cancel c], by simp, rfl⟩
      · exact ⟨rfl, rfl, rfl, [], by simp, by simp⟩
    · obtain ⟨q, hq, r⟩ := ih (i+1) p' hp'
      exact ⟨q, by simp [hq], r⟩

theorem dataLoop_ext (ex : Option Nat) : ∀ (cs : List Nat) (s : State),
    PeersExt s.peers (dataLoop ex cs s).peers ∧ (dataLoop ex cs s).hasMeta = s.hasMeta := by
  intro cs
  induction cs with
  | nil => intro s; exact ⟨PeersExt.refl _, rfl⟩
  | cons c cs ih =>
    intro s
    obtain ⟨inf1, und1, pan1, e1, _, _⟩ := decr_spec s c
    simp only [dataLoop]
    rw [e1]
    simp only []
    split
    · obtain ⟨a1, a2⟩ := ih
        { s with inFlight := inf1, under := und1, panicked := pan1, peers := castCancel ex c 0 s.peers }
      exact ⟨(castCancel_ext ex c s.peers 0).trans a1, a2⟩
    · exact ih { s with inFlight := inf1, under := und1, panicked := pan1 }

theorem decrAll_peers (s : State) (cs : List Nat) : (decrAll s cs).peers = s.peers ∧ (decrAll s cs).hasMeta = s.hasMeta := by
  obtain ⟨_, _, _, e, _, _⟩ := decrAll_spec cs s; rw [e]; exact ⟨rfl, rfl⟩

theorem incrAll_peers (s : State) (cs : List Nat) : (incrAll s cs).peers = s.peers ∧ (incrAll s cs).hasMeta = s.hasMeta := by
  obtain ⟨_, _, _, e, _, _⟩ := incrAll_spec cs s; rw [e]; exact ⟨rfl, rfl⟩

theorem handleTorEv_minv (s : State) (hM : MInv s) (e : TorEv) : MInv (handleTorEv s e) := by
  cases e with
  | data src idx begin len c =>
    simp only [handleTorEv]
    split
    · exact minv_frame s _ hM rfl rfl
    · obtain ⟨a1, a2⟩ := dataLoop_ext src (covRange s.g idx begin len) s
      exact minv_ext s _ hM a2 a1
  | drop idx begin len =>
    simp only [handleTorEv]
    obtain ⟨a1, a2⟩ := decrAll_peers s (covRange s.g idx begin len)
    exact minv_frame s _ hM a2 a1
  | bitmap p bits hv =>
    simp only [handleTorEv]
    obtain ⟨_, _, _, e1, _⟩ := noteAvailAll_spec hv bits s
    rw [e1]; exact minv_frame s _ hM rfl rfl
  | phave p idx hv =>
    simp only [handleTorEv]
    obtain ⟨_, _, _, e1, _⟩ := noteAvail_spec s idx hv
    rw [e1]; exact minv_frame s _ hM rfl rfl
  | unchoke p b => exact hM
  | goaway p =>
    simp only [handleTorEv]
    split
    · exact hM
    · rename_i pr hpr
      split
      · exact hM
      · obtain ⟨a1, a2⟩ := decrAll_peers
          { s with peers := setN s.peers p { pr with present := false, evq := [] } } (pr.evq.flatMap reqChunks)
        refine minv_set s _ hM a2 p { pr with present := false, evq := [] } a1 (fun _ => safeQ_nil _) ?_
        intro _ _ h; cases h

theorem castMeta_minv (s : State) (hM : MInv s) : MInv { s with hasMeta := true, peers := castMeta s.peers } := by
  refine ⟨?_, ?_⟩
  · intro p' hp' ha
    obtain ⟨p, hp, rfl⟩ := List.mem_map.mp hp'
    by_cases hc : (p.present && p.alive) = true
    · rw [if_pos hc] at ha ⊢
      exact safeQ_append _ _ _ (hM.safe p hp ha) (Or.inl (fun cs h => by cases h))
    · rw [if_neg hc] at ha ⊢
      exact hM.safe p hp ha
  · intro _ p' hp' ha hpr
    obtain ⟨p, hp, rfl⟩ := List.mem_map.mp hp'
    by_cases hc : (p.present && p.alive) = true
    · rw [if_pos hc]
      exact Or.inr (by simp)
    · rw [if_neg hc] at ha hpr
      exact absurd (by simp [ha, hpr]) hc

end Storrent.Sched

namespace Storrent.Sched

theorem step_minv (s : State) (op : Op) (hM : MInv s) : MInv (step s op).1 := by
  unfold step
  split
  · exact hM
  · cases op with
    | connect fast evcap wcap =>
      refine ⟨?_, ?_⟩
      · intro p hp ha
        rcases List.mem_append.mp hp with hp | hp
        · exact hM.safe p hp ha
        · simp at hp; subst hp; exact safeQ_nil _
      · intro hm p hp ha hpr
        rcases List.mem_append.mp hp with hp | hp
        · exact hM.ready hm p hp ha hpr
        · simp at hp; subst hp; exact Or.inl hm
    | request i cs ad =>
      simp only []
      split
      · exact hM
      · rename_i p hp
        split
        · exact hM
        · rename_i hpres
          split
          · exact hM
          · rename_i hcs
            split
            · exact hM
            · split
              · exact hM
              · have hmeta : s.hasMeta = true := by simp at hcs; exact hcs.1
                have hpr : p.present = true := by simpa using hpres
                obtain ⟨a1, a2⟩ := incrAll_peers
                  { s with peers := setN s.peers i { p with evq := p.evq ++ [.request cs] } } cs
                refine minv_set s _ hM a2 i { p with evq := p.evq ++ [.request cs] } a1 ?_ ?_
                · intro ha
                  exact safeQ_append _ _ _ (hM.safe p (mem_of_get _ _ _ hp) ha)
                    (Or.inr (hM.ready hmeta p (mem_of_get _ _ _ hp) ha hpr))
                · intro hm ha _
                  exact metaReady_append _ _ _ (hM.ready hm p (mem_of_get _ _ _ hp) ha hpr)
    | push i e =>
      simp only []
      split
      · exact hM
      · rename_i p hp
        split
        · exact hM
        · split
          · exact hM
          · have hm := mem_of_get _ _ _ hp
            cases e with
            | request cs => exact hM
            | cancel c =>
              exact minv_set s _ hM rfl i _ rfl
                (fun ha => safeQ_append _ _ _ (hM.safe p hm ha) (Or.inl (fun cs h => by cases h)))
                (fun h1 h2 h3 => metaReady_append _ _ _ (hM.ready h1 p hm h2 h3))
            | cancelPiece c =>
              exact minv_set s _ hM rfl i _ rfl
                (fun ha => safeQ_append _ _ _ (hM.safe p hm ha) (Or.inl (fun cs h => by cases h)))
                (fun h1 h2 h3 => metaReady_append _ _ _ (hM.ready h1 p hm h2 h3))
            | done =>
              exact minv_set s _ hM rfl i _ rfl
                (fun ha => safeQ_append _ _ _ (hM.safe p hm ha) (Or.inl (fun cs h => by cases h)))
                (fun h1 h2 h3 => metaReady_append _ _ _ (hM.ready h1 p hm h2 h3))
            | metadata =>
              exact minv_set s _ hM rfl i _ rfl
                (fun ha => safeQ_append _ _ _ (hM.safe p hm ha) (Or.inl (fun cs h => by cases h)))
                (fun h1 h2 h3 => metaReady_append _ _ _ (hM.ready h1 p hm h2 h3))
    | peerEvent i slow =>
      simp only []
      split
      · exact hM
      · rename_i p hp
        split
        · exact hM
        · rename_i hal
          split
          · exact hM
          · rename_i e rest he
            have hm := mem_of_get _ _ _ hp
            have hal' : p.alive = true := by simpa using hal
            have hinfo := handlePeerEv_info s.g i { p with evq := rest } e slow
            simp only [infoOf, Prod.mk.injEq] at hinfo
            refine minv_set s _ hM rfl i _ rfl ?_ ?_
            · intro _
              show safeQ (handlePeerEv s.g i { p with evq := rest } e slow).1.hasInfo rest
              rw [hinfo.1]
              have := hM.safe p hm hal'
              rw [he] at this
              exact safeQ_pop _ e rest this
            · intro h1 _ h3
              show metaReady (handlePeerEv s.g i { p with evq := rest } e slow).1.hasInfo rest
              rw [hinfo.1]
              have hpr : p.present = true := by
                have : (handlePeerEv s.g i { p with evq := rest } e slow).1.present = true := h3
                rw [hinfo.2] at this; exact this
              have := hM.ready h1 p hm hal' hpr
              rw [he] at this
              exact metaReady_pop _ e rest this
    | peerMsg i m slow =>
      simp only []
      split
      · exact hM
      · rename_i p hp
        split
        · exact hM
        · rename_i hal
          have hal' : p.alive = true := by simpa using hal
          exact minv_keep s _ hM rfl i p _ hp rfl (fun _ => hal') (handleMsg_info s.g s.pieces i p m slow) rfl
    | tick i rto slow =>
      simp only []
      split
      · exact hM
      · rename_i p hp
        split
        · exact hM
        · rename_i hal
          have hal' : p.alive = true := by simpa using hal
          split
          · exact hM
          · generalize (min rto 5000 + (if p.canFast then 2000 else 0)) = to
            have h1 := expireLoop_info s.g to (p.requested.length + 1) 0 p [] false
            refine minv_keep s _ hM rfl i p _ hp rfl (fun _ => hal') ?_ rfl
            split
            · show infoOf (maybeRequest s.g slow _ _).1 = _
              rw [maybeRequest_info, h1]
            · exact h1
    | age i d =>
      simp only []
      split
      · exact hM
      · rename_i p hp
        exact minv_keep s _ hM rfl i p _ hp rfl id rfl rfl
    | exit i =>
      simp only []
      split
      · exact hM
      · rename_i p hp
        split
        · exact hM
        · refine minv_set s _ hM rfl i _ rfl ?_ ?_
          · intro h; cases h
          · intro _ h; cases h
    | flush i =>
      simp only []
      split
      · exact hM
      · rename_i p hp
        exact minv_keep s _ hM rfl i p _ hp rfl id rfl rfl
    | torEvent =>
      simp only []
      split
      · exact hM
      · rename_i e rest he
        split
        · exact minv_frame s _ hM rfl rfl
        · exact handleTorEv_minv _ (minv_frame s { s with tEvent := rest } hM rfl rfl) e
    | wdrain i =>
      simp only []
      split
      · exact hM
      · rename_i p hp
        exact minv_keep s _ hM rfl i p _ hp rfl id rfl rfl
    | wfill i k =>
      simp only []
      split
      · exact hM
      · rename_i p hp
        split
        · exact hM
        · exact minv_keep s _ hM rfl i p _ hp rfl id rfl rfl
    | wsReserve idx =>
      simp only []
      split
      · exact hM
      · split
        · exact hM
        · rename_i o l0 _
          generalize (if l0 > 1048576 then 1048576 else l0) = l
          split
          · exact minv_frame s _ hM rfl rfl
          · obtain ⟨a1, a2⟩ := incrAll_peers s (wsChunks s.g idx o l)
            exact minv_frame s _ hM a2 a1
    | wWrite w n =>
      simp only []
      split
      · exact hM
      · split
        · exact hM
        · split
          · exact hM
          · split
            · exact minv_frame s _ hM rfl rfl
            · split
              · split
                · exact minv_frame s _ hM rfl rfl
                · exact minv_frame s _ hM rfl rfl
              · exact minv_frame s _ hM rfl rfl
    | wClose w =>
      simp only []
      split
      · exact hM
      · split
        · exact hM
        · split
          · split
            · exact minv_frame s _ hM rfl rfl
            · exact minv_frame s _ hM rfl rfl
          · exact minv_frame s _ hM rfl rfl
    | finalise idx =>
      simp only []
      split
      · exact hM
      · split
        · exact minv_frame s _ hM rfl rfl
        · exact hM
    | metaComplete =>
      simp only []
      split
      · exact hM
      · split
        · exact minv_frame s _ hM rfl rfl
        · exact castMeta_minv s hM

theorem init_minv (g : Geom) (tcap : Nat) : MInv (init g tcap) :=
  ⟨fun p hp => by simp [init] at hp, fun _ p hp => by simp [init] at hp⟩

theorem initMagnet_minv (g : Geom) (tcap : Nat) : MInv (initMagnet g tcap) :=
  ⟨fun p hp => by simp [initMagnet, init] at hp, fun _ p hp => by simp [initMagnet, init] at hp⟩

theorem initMagnet_inv (g : Geom) (hg : g.Valid) (tcap : Nat) : Inv (initMagnet g tcap) := by
  obtain ⟨hW, hC⟩ := init_inv g hg tcap
  exact ⟨⟨hW.valid, hW.len, hW.plen, hW.chunksOK, hW.writersOK, hW.deadOK⟩, hC⟩

theorem run_inv' (ops : List Op) : ∀ (s : State), Inv s → MInv s → Inv (run s ops) ∧ MInv (run s ops) := by
  induction ops with
  | nil => intro s h hM; exact ⟨h, hM⟩
  | cons op ops ih => intro s h hM; exact ih _ (step_inv s op h hM) (step_minv s op hM)

/-- a start state: a torrent whose metadata is known (`init`) or a magnet (`initMagnet`) -/
def IsStart (g : Geom) (tcap : Nat) (s : State) : Prop := s = init g tcap ∨ s = initMagnet g tcap

theorem start_inv {g : Geom} (hg : g.Valid) {tcap : Nat} {s : State} (h : IsStart g tcap s) : Inv s ∧ MInv s := by
  rcases h with rfl | rfl
  · exact ⟨init_inv g hg tcap, init_minv g tcap⟩
  · exact ⟨initMagnet_inv g hg tcap, initMagnet_minv g tcap⟩

theorem run_inv (ops : List Op) (s : State) (hI : Inv s) (hM : MInv s) : Inv (run s ops) := (run_inv' ops s hI hM).1

end Storrent.Sched
