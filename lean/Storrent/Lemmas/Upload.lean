import Storrent.Model.Upload
/- Helper lemmas for Props/C16: multiset inclusion by counts, the write environment,
   `reject` / `rejectAll`, `readAt`. -/
namespace Storrent.Upload
open Storrent Storrent.Wire

/-! ### multiset inclusion `q ⊆ l` by counts -/

def Sub (q l : List Req) : Prop := ∀ r, q.count r ≤ l.count r

theorem Sub.nil (l : List Req) : Sub [] l := by intro r; simp

theorem Sub.refl (l : List Req) : Sub l l := fun _ => Nat.le_refl _

theorem Sub.cons_right {q l : List Req} (m : Req) (h : Sub q l) : Sub q (m :: l) := by
  intro x; have := h x; simp only [List.count_cons]; omega

theorem Sub.append_cons {q l : List Req} (m : Req) (h : Sub q l) : Sub (q ++ [m]) (m :: l) := by
  intro x; have := h x
  simp only [List.count_cons, List.count_append, List.count_nil]; omega

theorem Sub.head_mem {r : Req} {rest l : List Req} (h : Sub (r :: rest) l) : r ∈ l := by
  have := h r
  simp only [List.count_cons, beq_self_eq_true, if_true] at this
  exact List.count_pos_iff.mp (by omega)

theorem Sub.tail {r : Req} {rest l : List Req} (h : Sub (r :: rest) l) : Sub rest l := by
  intro x; have := h x; simp only [List.count_cons] at this; omega

theorem Sub.tail_erase {r : Req} {rest l : List Req} (h : Sub (r :: rest) l) :
    Sub rest (l.erase r) := by
  intro x; have := h x
  simp only [List.count_cons] at this
  rw [List.count_erase]
  by_cases hx : (r == x) = true <;> simp only [hx, if_true] at * <;> omega

theorem Sub.erase_erase {q l : List Req} (m : Req) (h : Sub q l) : Sub (q.erase m) (l.erase m) := by
  intro x; have := h x
  rw [List.count_erase, List.count_erase]
  by_cases hx : (m == x) = true <;> simp only [hx, if_true] <;> omega

theorem Sub.erase_left {q l : List Req} (m : Req) (h : Sub q l) : Sub (q.erase m) l := by
  intro x; have := h x
  rw [List.count_erase]; omega

theorem Sub.erase_right_of_not_mem {q l : List Req} {m : Req} (hm : m ∉ q) (h : Sub q l) :
    Sub q (l.erase m) := by
  intro x; have := h x
  rw [List.count_erase]
  by_cases hx : (m == x) = true
  · have : m = x := by simpa using hx
    subst this
    have : q.count m = 0 := List.count_eq_zero.mpr hm
    omega
  · simp only [hx]; simp; omega

theorem Sub.mem {q l : List Req} {m : Req} (h : Sub q l) (hm : m ∈ q) : m ∈ l := by
  have h1 : 0 < q.count m := List.count_pos_iff.mpr hm
  have := h m
  exact List.count_pos_iff.mp (by omega)

/-- head-drop: `r :: rest` loses `r`, gains `m`; pending gained `m` and loses `r` -/
theorem Sub.headdrop {r m : Req} {rest l : List Req} (h : Sub (r :: rest) l) :
    Sub (rest ++ [m]) ((m :: l).erase r) := by
  intro x; have := h x
  simp only [List.count_cons] at this
  rw [List.count_erase]
  simp only [List.count_cons, List.count_append, List.count_nil]
  by_cases hx : (r == x) = true <;> by_cases hm : (m == x) = true <;>
    simp only [hx, hm, if_true] at * <;> omega

/-! ### reject / rejectAll -/

theorem reject_cases (fast : Bool) (r : Req) (w : WEnv) :
    (reject fast r w).2.1 = [] ∨
    (fast = true ∧ (reject fast r w).1 = .ok ∧ (reject fast r w).2.1 = [Msg.reject r.i r.b r.l]) := by
  unfold reject
  cases fast
  · simp
  · simp only [if_true]
    rcases h : w.next with ⟨e, w'⟩
    cases e <;> simp

theorem reject_err_nil (fast : Bool) (r : Req) (w : WEnv) (h : (reject fast r w).1 ≠ .ok) :
    (reject fast r w).2.1 = [] := by
  rcases reject_cases fast r w with h1 | ⟨_, h2, _⟩
  · exact h1
  · exact absurd h2 h

def IsReject : Msg → Prop
  | .reject _ _ _ => True
  | _ => False

theorem rejectAll_rejects (fast : Bool) (rs : List Req) (w : WEnv) :
    ∀ m ∈ (rejectAll fast rs w).2.1, IsReject m := by
  induction rs generalizing w with
  | nil => simp [rejectAll]
  | cons r rs ih =>
    unfold rejectAll
    rcases h : reject fast r w with ⟨e, ms, w'⟩
    have hc := reject_cases fast r w
    rw [h] at hc
    cases e
    · simp only
      rcases h2 : rejectAll fast rs w' with ⟨e2, ms2, w2⟩
      simp only
      intro m hm
      rcases List.mem_append.mp hm with h3 | h3
      · rcases hc with hc | ⟨_, _, hc⟩
        · simp only at hc; rw [hc] at h3; cases h3
        · simp only at hc; rw [hc] at h3
          have : m = Msg.reject r.i r.b r.l := by simpa using h3
          rw [this]; trivial
      · have := ih w' m
        rw [h2] at this
        exact this h3
    all_goals
      simp only
      intro m hm
      rcases hc with hc | ⟨_, hc, _⟩
      · simp only at hc; rw [hc] at hm; cases hm
      · simp at hc

/-! ### the stream oracle -/

theorem scan_append (o : OSt) (a b : List Ev) :
    scan o (a ++ b) = (scan o a).bind (fun o' => scan o' b) := by
  induction a generalizing o with
  | nil => simp [scan]
  | cons e es ih =>
    simp only [List.cons_append, scan]
    cases h : scan1 o e with
    | none => simp
    | some o1 => simp [ih]

/-- after a Choke, any number of Rejects leaves the ghost state empty -/
theorem scan_rejects_empty (ms : List Msg) (h : ∀ m ∈ ms, IsReject m) :
    scan ⟨false, [], []⟩ (ms.map Ev.sent) = some ⟨false, [], []⟩ := by
  induction ms with
  | nil => simp [scan]
  | cons m ms ih =>
    have hm := h m (by simp)
    cases m <;> simp only [IsReject] at hm
    simp only [List.map_cons, scan, scan1]
    simp only [List.not_mem_nil, if_false, List.erase_nil, Option.bind_some]
    exact ih (fun x hx => h x (by simp [hx]))

/-! ### ReadAt -/

theorem offInt64_eq (i ps b : Nat) (h : i * ps + b < 9223372036854775808) :
    offInt64 i ps b = ((i * ps + b : Nat) : Int) := by
  unfold offInt64
  have h1 : (i * ps + b) % 18446744073709551616 = i * ps + b := Nat.mod_eq_of_lt (by omega)
  simp only [h1, h, if_true]

theorem length_slice (c : Nat → UInt8) (off n : Nat) : (slice c off n).length = n := by
  simp [slice]

/-- what a non-empty read returns: bytes of the true content at `off`, all inside one held
    (complete = verified) piece, at most `buflen` of them -/
theorem readAt_data (s : Store) (buflen : Nat) (off : Int) (d : Bytes)
    (h : readAt s buflen off = .data d) (hd : d ≠ []) :
    0 ≤ off ∧ off < s.length ∧ 0 < s.ps ∧
    (off.toNat / s.ps) ∈ s.held ∧
    d = slice s.content off.toNat d.length ∧ d.length ≤ buflen ∧
    off.toNat % s.ps + d.length ≤ s.pieceLen (off.toNat / s.ps) := by
  unfold readAt at h
  split at h
  · simp at h; exact absurd h hd
  · split at h
    · cases h
    · split at h
      · split at h
        · cases h
        · split at h
          · cases h
          · simp at h; exact absurd h hd
      · rename_i h1 h2 h3
        simp only at h
        split at h
        · simp at h; exact absurd h hd
        · rename_i h4
          simp only [Bool.or_eq_true, Bool.not_eq_true', decide_eq_true_eq, not_or,
            Bool.not_eq_false, Nat.not_le] at h4
          have hd' : d = slice s.content off.toNat
              (min buflen (s.pieceLen (off.toNat / s.ps) - off.toNat % s.ps)) := by
            simpa using h.symm
          have hl : d.length = min buflen (s.pieceLen (off.toNat / s.ps) - off.toNat % s.ps) := by
            rw [hd', length_slice]
          refine ⟨by omega, by omega, by omega, ?_, ?_, ?_, ?_⟩
          · simpa using h4.1
          · rw [hl]; exact hd'
          · omega
          · omega

end Storrent.Upload
