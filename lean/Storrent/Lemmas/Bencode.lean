import Storrent.Model.Bencode
/- round-trip lemmas for the bencode codec (used by Props/C06) -/
namespace Storrent.Bencode
open Storrent

theorem dig_isDigit (n : Nat) : isDigit (dig n) = true := by
  unfold isDigit dig
  have : (UInt8.ofNat (48 + n % 10)).toNat = 48 + n % 10 := by
    simp only [UInt8.toNat_ofNat']; omega
  simp [UInt8.le_iff_toNat_le, this]
  omega

theorem dig_val (n : Nat) : (dig n).toNat - 48 = n % 10 := by
  unfold dig
  simp only [UInt8.toNat_ofNat']; omega

theorem spanDigits_digits (ds rest : Bytes) (acc k : Nat) (h : ∀ d ∈ ds, isDigit d = true) :
    spanDigits (ds ++ rest) acc k =
      spanDigits rest (ds.foldl (fun a b => a * 10 + (b.toNat - 48)) acc) (k + ds.length) := by
  induction ds generalizing acc k with
  | nil => simp
  | cons d ds ih =>
    simp only [List.cons_append, spanDigits, h d (by simp), if_true, List.foldl_cons, List.length_cons]
    rw [ih _ _ (fun x hx => h x (by simp [hx]))]
    congr 1; omega

theorem natDigits_all (n : Nat) : ∀ d ∈ natDigits n, isDigit d = true := by
  induction n using Nat.strongRecOn with
  | _ n ih =>
    unfold natDigits
    split
    · intro d hd; simp at hd; subst hd; exact dig_isDigit n
    · intro d hd
      simp at hd
      rcases hd with hd | hd
      · exact ih (n / 10) (by omega) d hd
      · subst hd; exact dig_isDigit n

theorem natDigits_val (n : Nat) :
    (natDigits n).foldl (fun a b => a * 10 + (b.toNat - 48)) 0 = n := by
  induction n using Nat.strongRecOn with
  | _ n ih =>
    unfold natDigits
    split
    · simp [dig_val]; omega
    · simp [List.foldl_append, ih (n / 10) (by omega), dig_val]; omega

theorem natDigits_len (n : Nat) : 0 < (natDigits n).length := by
  unfold natDigits; split <;> simp

theorem parseNat_digits (n : Nat) (rest : Bytes) (h : ∀ b, rest.head? = some b → isDigit b = false) :
    parseNat (natDigits n ++ rest) = some (n, rest) := by
  unfold parseNat
  rw [spanDigits_digits _ _ _ _ (natDigits_all n), natDigits_val]
  obtain ⟨m, hm⟩ : ∃ m, (natDigits n).length = m + 1 :=
    ⟨(natDigits n).length - 1, by have := natDigits_len n; omega⟩
  rw [hm]
  cases rest with
  | nil => simp [spanDigits]
  | cons b rest =>
    have hb := h b rfl
    simp [spanDigits, hb]
theorem natDigits_cons (n : Nat) : ∃ d ds, natDigits n = d :: ds ∧ isDigit d = true := by
  have hl := natDigits_len n
  cases h : natDigits n with
  | nil => simp [h] at hl
  | cons d ds => exact ⟨d, ds, rfl, natDigits_all n d (by simp [h])⟩

theorem isDigit_bounds (d : UInt8) (h : isDigit d = true) : 48 ≤ d.toNat ∧ d.toNat ≤ 57 := by
  unfold isDigit at h
  simp [UInt8.le_iff_toNat_le] at h
  exact h

theorem not_digit_101 : isDigit 101 = false := by decide
theorem not_digit_58 : isDigit 58 = false := by decide

/-- a non-negative integer value: `i<digits>e` -/
theorem parseIntBody_nat (n : Nat) (rest : Bytes) :
    parseIntBody (natDigits n ++ 101 :: rest) = some ((n : Int), rest) := by
  obtain ⟨d, ds, hd, hdig⟩ := natDigits_cons n
  have hb := isDigit_bounds d hdig
  have hp := parseNat_digits n (101 :: rest) (by intro b hb; simp at hb; subst hb; exact not_digit_101)
  unfold parseIntBody
  rw [hd] at hp ⊢
  simp only [List.cons_append] at hp ⊢
  have hne : d ≠ 45 := by
    intro h; subst h; simp at hb
  split
  · rename_i r heq
    simp at heq
    exact absurd heq.1 hne
  · rw [hp]; simp

theorem encInt_nat (n : Nat) : encInt (n : Int) = 105 :: (natDigits n ++ [101]) := by
  unfold encInt
  simp

theorem parseStr_enc (s rest : Bytes) (h : s.length < 2147483648) :
    parseStr (encStr s ++ rest) = some (s, rest) := by
  unfold parseStr encStr
  have hp := parseNat_digits s.length (58 :: (s ++ rest))
    (by intro b hb; simp at hb; subst hb; exact not_digit_58)
  simp only [List.append_assoc, List.cons_append, List.nil_append]
  rw [hp]
  simp [h]


def GoodKey (k : Bytes) : Prop := k.length < 2147483648

def GoodBV : BV → Prop
  | .int i => 0 ≤ i
  | .str s => s.length < 2147483648
  | .dictI d => ∀ kv ∈ d, GoodKey kv.1 ∧ 0 ≤ kv.2
  | .other => False

theorem encStr_cons (s : Bytes) : ∃ d ds, encStr s = d :: ds ∧ isDigit d = true := by
  obtain ⟨d, ds, hd, hdig⟩ := natDigits_cons s.length
  exact ⟨d, ds ++ [58] ++ s, by simp [encStr, hd], hdig⟩

theorem parseDictI_enc (d : List (Bytes × Int)) (h : ∀ kv ∈ d, GoodKey kv.1 ∧ 0 ≤ kv.2)
    (rest : Bytes) (fuel : Nat) (hf : d.length < fuel) (acc : List (Bytes × Int)) :
    parseDictI fuel ((d.map (fun kv => encStr kv.1 ++ encInt kv.2)).flatten ++ 101 :: rest) acc
      = some (acc.reverse ++ d, rest) := by
  induction d generalizing fuel acc with
  | nil =>
    cases fuel with
    | zero => simp at hf
    | succ fuel => simp [parseDictI]
  | cons kv d ih =>
    cases fuel with
    | zero => simp at hf
    | succ fuel =>
      obtain ⟨hk, hv⟩ := h kv (by simp)
      obtain ⟨n, hn⟩ : ∃ n : Nat, kv.2 = (n : Int) := ⟨kv.2.toNat, by omega⟩
      obtain ⟨c, cs, hc, hcd⟩ := encStr_cons kv.1
      have hcb := isDigit_bounds c hcd
      have hps := parseStr_enc kv.1
        (encInt kv.2 ++ ((d.map (fun kv => encStr kv.1 ++ encInt kv.2)).flatten ++ 101 :: rest)) hk
      simp only [List.map_cons, List.flatten_cons, List.append_assoc]
      unfold parseDictI
      rw [hc] at hps ⊢
      simp only [List.cons_append] at hps ⊢
      split
      · rename_i r heq
        simp at heq
        have := heq.1; subst this; simp at hcb
      · rw [hps, hn, encInt_nat]
        simp only [List.cons_append, List.append_assoc, List.nil_append]
        rw [parseIntBody_nat]
        simp only []
        rw [ih (fun x hx => h x (by simp [hx])) fuel (by simp at hf; omega)]
        simp
        rw [← hn]


theorem encDictI_len (d : List (Bytes × Int)) :
    d.length < ((d.map (fun (kv : Bytes × Int) => encStr kv.1 ++ encInt kv.2)).flatten ++ [101]).length + 1 := by
  induction d with
  | nil => simp
  | cons kv d ih =>
    have : 0 < (encStr kv.1 ++ encInt kv.2).length := by
      obtain ⟨c, cs, hc, _⟩ := encStr_cons kv.1
      simp [hc]
    simp only [List.map_cons, List.flatten_cons, List.length_append, List.length_cons] at *
    omega

theorem parseVal_enc (v : BV) (h : GoodBV v) (rest : Bytes) :
    parseVal (encBV v ++ rest) = some (v, rest) := by
  cases v with
  | int i =>
    obtain ⟨n, hn⟩ : ∃ n : Nat, i = (n : Int) := ⟨i.toNat, by simp [GoodBV] at h; omega⟩
    subst hn
    simp only [encBV, encInt_nat, List.cons_append, List.append_assoc, List.nil_append, parseVal]
    rw [parseIntBody_nat]; rfl
  | str s =>
    obtain ⟨c, cs, hc, hcd⟩ := encStr_cons s
    have hcb := isDigit_bounds c hcd
    have hps := parseStr_enc s rest (by simpa [GoodBV] using h)
    simp only [encBV]
    rw [hc] at hps ⊢
    simp only [List.cons_append] at hps ⊢
    unfold parseVal
    split
    · rename_i heq; simp at heq; have := heq.1; subst this; simp at hcb
    · rename_i heq; simp at heq; have := heq.1; subst this; simp at hcb
    · rename_i heq; simp at heq; have := heq.1; subst this; simp at hcb
    · rename_i b _ heq
      simp at heq
      have := heq.1; subst this
      simp [hcd, hps]
    · rename_i heq; simp at heq
  | dictI d =>
    simp only [GoodBV] at h
    simp only [encBV, encDictI, List.cons_append, List.append_assoc, List.nil_append, parseVal]
    have hl := encDictI_len d
    rw [parseDictI_enc d h rest _ (by
      simp only [List.length_cons, List.length_append, List.length_nil] at hl ⊢; omega) []]
    simp
  | other => simp [GoodBV] at h

theorem parseDictBody_enc (d : List (Bytes × BV)) (h : ∀ kv ∈ d, GoodKey kv.1 ∧ GoodBV kv.2)
    (rest : Bytes) (fuel : Nat) (hf : d.length < fuel) (acc : List (Bytes × BV)) :
    parseDictBody fuel ((d.map (fun kv => encStr kv.1 ++ encBV kv.2)).flatten ++ 101 :: rest) acc
      = some (acc.reverse ++ d, rest) := by
  induction d generalizing fuel acc with
  | nil =>
    cases fuel with
    | zero => simp at hf
    | succ fuel => simp [parseDictBody]
  | cons kv d ih =>
    cases fuel with
    | zero => simp at hf
    | succ fuel =>
      obtain ⟨hk, hv⟩ := h kv (by simp)
      obtain ⟨c, cs, hc, hcd⟩ := encStr_cons kv.1
      have hcb := isDigit_bounds c hcd
      have hps := parseStr_enc kv.1
        (encBV kv.2 ++ ((d.map (fun kv => encStr kv.1 ++ encBV kv.2)).flatten ++ 101 :: rest)) hk
      simp only [List.map_cons, List.flatten_cons, List.append_assoc]
      unfold parseDictBody
      rw [hc] at hps ⊢
      simp only [List.cons_append] at hps ⊢
      split
      · rename_i r heq
        simp at heq
        have := heq.1; subst this; simp at hcb
      · rw [hps]
        simp only []
        rw [parseVal_enc kv.2 hv]
        simp only []
        rw [ih (fun x hx => h x (by simp [hx])) fuel (by simp at hf; omega)]
        simp

theorem encDict_len (d : List (Bytes × BV)) :
    d.length < ((d.map (fun (kv : Bytes × BV) => encStr kv.1 ++ encBV kv.2)).flatten ++ [101]).length + 1 := by
  induction d with
  | nil => simp
  | cons kv d ih =>
    have : 0 < (encStr kv.1 ++ encBV kv.2).length := by
      obtain ⟨c, cs, hc, _⟩ := encStr_cons kv.1
      simp [hc]
    simp only [List.map_cons, List.flatten_cons, List.length_append, List.length_cons] at *
    omega

/-- **bencode round trip**: a dictionary of good values, followed by anything -/
theorem parseDict_enc (d : List (Bytes × BV)) (h : ∀ kv ∈ d, GoodKey kv.1 ∧ GoodBV kv.2)
    (rest : Bytes) : parseDict (encDict d ++ rest) = some (d, rest) := by
  simp only [encDict, List.cons_append, List.append_assoc, List.nil_append, parseDict]
  have hl := encDict_len d
  rw [parseDictBody_enc d h rest _ (by
    simp only [List.length_cons, List.length_append, List.length_nil] at hl ⊢; omega) []]
  simp

end Storrent.Bencode
