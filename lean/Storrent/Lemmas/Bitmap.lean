import Storrent.Lemmas.BitmapByte
/-
Refinement lemmas for Model/Bitmap: every operation of bitmap.go expressed through the
abstraction `get b i` ("bit i is set").  The byte-level facts are in Lemmas/BitmapByte.lean;
the list level here is by `simp`/induction.
-/
namespace Storrent.Bitmap

/-! ### Get / Extend / Set / Reset -/

@[simp] theorem get_nil (i : Nat) : get [] i = false := by simp [get]

theorem get_of_ge (b : Bitmap) (i : Nat) (h : b.length ≤ i / 8) : get b i = false := by
  unfold get
  rw [List.getElem?_eq_none_iff.mpr h]

theorem get_lt_length (b : Bitmap) (i : Nat) (h : get b i = true) : i / 8 < b.length := by
  false_or_by_contra
  rename_i hn
  rw [get_of_ge b i (by omega)] at h
  cases h

/-- a set bit lies below `8 * (byte length)` -/
theorem get_lt (b : Bitmap) (i : Nat) (h : get b i = true) : i < 8 * b.length := by
  have := get_lt_length b i h
  omega

theorem length_extend (b : Bitmap) (i : Nat) :
    (extend b i).length = max b.length (i / 8 + 1) := by
  unfold extend
  split
  · simp only [List.length_append, List.length_replicate]; omega
  · omega

theorem lt_length_extend (b : Bitmap) (i : Nat) : i / 8 < (extend b i).length := by
  rw [length_extend]; omega

theorem getElem?_extend (b : Bitmap) (i k : Nat) :
    (extend b i)[k]? = if k < b.length then b[k]? else if k ≤ i / 8 then some 0 else none := by
  unfold extend
  split
  · rename_i h
    by_cases hk : k < b.length
    · simp [hk, List.getElem?_append_left hk]
    · simp only [hk, if_false]
      rw [List.getElem?_append_right (by omega)]
      by_cases hk2 : k ≤ i / 8
      · simp only [hk2, if_true]
        rw [List.getElem?_replicate]
        simp <;> omega
      · simp only [hk2, if_false]
        rw [List.getElem?_replicate]
        simp <;> omega
  · rename_i h
    by_cases hk : k < b.length
    · simp [hk]
    · have : ¬ k ≤ i / 8 := by omega
      simp [hk, this] <;> omega

@[simp] theorem get_extend (b : Bitmap) (i j : Nat) : get (extend b i) j = get b j := by
  unfold get
  rw [getElem?_extend]
  by_cases h : j / 8 < b.length
  · simp [h]
  · simp only [h, if_false]
    rw [List.getElem?_eq_none_iff.mpr (by omega : b.length ≤ j / 8)]
    by_cases h2 : j / 8 ≤ i / 8 <;> simp [h2]

theorem length_set (b : Bitmap) (i : Nat) : (set b i).length = max b.length (i / 8 + 1) := by
  simp [set, length_extend]

/-- `Get (Set b i) j = (i = j ∨ Get b j)` -/
theorem get_set (b : Bitmap) (i j : Nat) : get (set b i) j = (decide (i = j) || get b j) := by
  have hext := get_extend b i j
  unfold get at hext ⊢
  unfold set
  rw [List.getElem?_modify]
  by_cases hb : i / 8 = j / 8
  · have hlt := lt_length_extend b i
    rw [hb] at hlt
    obtain ⟨x, hx⟩ : ∃ x, (extend b i)[j / 8]? = some x :=
      ⟨_, List.getElem?_eq_getElem hlt⟩
    simp only [hx] at hext
    simp only [hx, hb, Option.map_eq_map, Option.map_some, if_true]
    rw [getByte_or_mask, hext]
    congr 1
    apply decide_eq_decide.mpr
    constructor
    · intro h; omega
    · intro h; omega
  · have hne : i ≠ j := by intro h; apply hb; rw [h]
    simp only [hb, hne, if_false, decide_false, Bool.false_or]
    rw [← hext]
    cases (extend b i)[j / 8]? <;> simp

@[simp] theorem get_set_self (b : Bitmap) (i : Nat) : get (set b i) i = true := by
  simp [get_set]

theorem get_set_ne (b : Bitmap) (i j : Nat) (h : i ≠ j) : get (set b i) j = get b j := by
  simp [get_set, h]

theorem length_reset (b : Bitmap) (i : Nat) : (reset b i).length = b.length := by
  unfold reset; split <;> simp

/-- `Get (Reset b i) j = (i ≠ j ∧ Get b j)` -/
theorem get_reset (b : Bitmap) (i j : Nat) : get (reset b i) j = (!decide (i = j) && get b j) := by
  unfold reset
  split
  · rename_i h
    by_cases hij : i = j
    · subst hij
      simp [get_of_ge b i h]
    · simp [hij]
  · unfold get
    rw [List.getElem?_modify]
    by_cases hb : i / 8 = j / 8
    · cases hx : b[j / 8]? with
      | none => simp
      | some x =>
        simp only [hb, Option.map_eq_map, Option.map_some, if_true]
        rw [getByte_and_not_mask]
        congr 2
        apply decide_eq_decide.mpr
        constructor
        · intro h; omega
        · intro h; omega
    · have hne : i ≠ j := by intro h; apply hb; rw [h]
      simp only [hb, hne, if_false, decide_false, Bool.not_false, Bool.true_and]
      cases b[j / 8]? <;> simp

@[simp] theorem get_new (n i : Nat) : get (new n) i = false := by
  unfold get new
  rw [List.getElem?_replicate]
  by_cases h : i / 8 < (n + 7) / 8 <;> simp [h]

@[simp] theorem get_copy (b : Bitmap) (i : Nat) : get (copy b) i = get b i := rfl

/-! ### SetMultiple -/

theorem get_foldl_set (l : List Nat) (b : Bitmap) (i : Nat) :
    get (l.foldl set b) i = (decide (i ∈ l) || get b i) := by
  induction l generalizing b with
  | nil => simp
  | cons a l ih =>
    rw [List.foldl_cons, ih, get_set]
    by_cases h1 : i = a
    · subst h1; simp
    · have : ¬ a = i := fun h => h1 h.symm
      simp [h1, this]

/-- `Get (SetMultiple b n) i = (i < n ∨ Get b i)` -/
theorem get_setMultiple (b : Bitmap) (n i : Nat) :
    get (setMultiple b n) i = (decide (i < n) || get b i) := by
  unfold setMultiple
  simp only
  rw [get_foldl_set]
  have hb2 : get (List.replicate (n / 8) (0xFF : UInt8) ++ (extend b n).drop (n / 8)) i =
      (decide (i < n / 8 * 8) || get b i) := by
    by_cases h : i / 8 < n / 8
    · have h' : i < n / 8 * 8 := by omega
      unfold get
      rw [List.getElem?_append_left (by simpa using h), List.getElem?_replicate]
      simp [h, h']
    · have h' : ¬ i < n / 8 * 8 := by omega
      have hg := get_extend b n i
      unfold get at hg ⊢
      rw [List.getElem?_append_right (by simpa using Nat.le_of_not_lt h), List.getElem?_drop]
      simp only [List.length_replicate]
      rw [show n / 8 + (i / 8 - n / 8) = i / 8 by omega, hg]
      simp [h']
  rw [hb2]
  have hmem : i ∈ List.range' (n / 8 * 8) (n % 8) ↔ (n / 8 * 8 ≤ i ∧ i < n) := by
    rw [List.mem_range']
    constructor
    · rintro ⟨k, hk, rfl⟩; omega
    · intro h; exact ⟨i - n / 8 * 8, by omega, by omega⟩
  by_cases h1 : i < n / 8 * 8
  · have : i < n := by omega
    simp [h1, this]
  · by_cases h2 : i < n
    · have : i ∈ List.range' (n / 8 * 8) (n % 8) := hmem.mpr ⟨by omega, h2⟩
      simp [h2, this]
    · have : ¬ i ∈ List.range' (n / 8 * 8) (n % 8) := fun h => h2 (hmem.mp h).2
      simp [h1, h2, this]

/-! ### Empty / Count -/

theorem get_cons (x : UInt8) (b : Bitmap) (i : Nat) :
    get (x :: b) i = if i < 8 then getByte x i else get b (i - 8) := by
  unfold get
  by_cases h : i < 8
  · have : i / 8 = 0 := by omega
    simp [h, this]
  · have : i / 8 = (i - 8) / 8 + 1 := by omega
    simp only [h, if_false, this, List.getElem?_cons_succ]
    cases b[(i - 8) / 8]? with
    | none => rfl
    | some y =>
      simp only
      rw [← getByte_mod y i, ← getByte_mod y (i - 8)]
      congr 1
      omega

theorem empty_iff (b : Bitmap) : empty b = true ↔ ∀ i, get b i = false := by
  induction b with
  | nil => simp [empty]
  | cons x b ih =>
    have hc : empty (x :: b) = (x == 0 && empty b) := by simp [empty]
    rw [hc, Bool.and_eq_true, ih, beq_iff_eq, eq_zero_iff]
    constructor
    · rintro ⟨h1, h2⟩ i
      rw [get_cons]
      split
      · exact h1 i ‹_›
      · exact h2 _
    · intro h
      constructor
      · intro j hj
        have := h j
        rw [get_cons] at this
        simpa [hj] using this
      · intro i
        have := h (i + 8)
        rw [get_cons] at this
        simpa [show ¬ i + 8 < 8 by omega] using this

@[simp] theorem count_nil : count [] = 0 := rfl
theorem count_cons (x : UInt8) (b : Bitmap) : count (x :: b) = popcount8 x + count b := by
  simp [count]

theorem count_append (a b : Bitmap) : count (a ++ b) = count a + count b := by
  simp [count]

theorem count_replicate_zero (n : Nat) : count (List.replicate n 0) = 0 := by
  induction n with
  | zero => rfl
  | succ n ih => rw [List.replicate_succ, count_cons, ih]; simp

@[simp] theorem count_extend (b : Bitmap) (i : Nat) : count (extend b i) = count b := by
  unfold extend
  split
  · rw [count_append, count_replicate_zero]; rfl
  · rfl

theorem count_le (b : Bitmap) : count b ≤ 8 * b.length := by
  induction b with
  | nil => simp
  | cons x b ih =>
    rw [count_cons]
    have := popcount8_le x
    simp only [List.length_cons]
    omega

theorem count_eq_zero (b : Bitmap) : count b = 0 ↔ empty b = true := by
  induction b with
  | nil => simp [empty]
  | cons x b ih =>
    have hc : empty (x :: b) = (x == 0 && empty b) := by simp [empty]
    rw [count_cons, hc, Bool.and_eq_true, ← ih, beq_iff_eq, ← popcount8_eq_zero]
    omega

theorem count_modify_or (b : Bitmap) (k i : Nat) (hk : k < b.length) (hi : i / 8 = k) :
    count (b.modify k (· ||| mask i)) = count b + (if get b i then 0 else 1) := by
  induction b generalizing k i with
  | nil => simp at hk
  | cons x b ih =>
    cases k with
    | zero =>
      have h8 : i < 8 := by omega
      rw [List.modify_zero_cons, count_cons, count_cons, popcount8_or_mask, get_cons]
      simp only [h8, if_true]
      omega
    | succ k =>
      have h8 : ¬ i < 8 := by omega
      rw [List.modify_succ_cons, count_cons, count_cons, get_cons]
      simp only [h8, if_false]
      have hm : mask i = mask (i - 8) := by
        rw [← mask_mod i, ← mask_mod (i - 8)]; congr 1; omega
      rw [hm, ih k (i - 8) (by simpa using hk) (by omega)]
      omega

/-- `Count (Set b i) = Count b + (if Get b i then 0 else 1)` -/
theorem count_set (b : Bitmap) (i : Nat) :
    count (set b i) = count b + (if get b i then 0 else 1) := by
  unfold set
  rw [count_modify_or (extend b i) (i / 8) i (lt_length_extend b i) rfl]
  simp

/-! ### All -/

theorem take_all_ff_iff (b : Bitmap) (k : Nat) (hk : k ≤ b.length) :
    (b.take k).all (· == 0xFF) = true ↔ ∀ i, i < 8 * k → get b i = true := by
  induction b generalizing k with
  | nil =>
    have : k = 0 := by simpa using hk
    subst this; simp
  | cons x b ih =>
    cases k with
    | zero => simp
    | succ k =>
      have hk' : k ≤ b.length := by simpa using hk
      rw [List.take_succ_cons, List.all_cons, Bool.and_eq_true, ih k hk', beq_iff_eq, eq_ff_iff]
      constructor
      · rintro ⟨h1, h2⟩ i hi
        rw [get_cons]
        split
        · exact h1 i ‹_›
        · exact h2 _ (by omega)
      · intro h
        constructor
        · intro j hj
          have := h j (by omega)
          rw [get_cons] at this
          simpa [hj] using this
        · intro i hi
          have := h (i + 8) (by omega)
          rw [get_cons] at this
          simpa [show ¬ i + 8 < 8 by omega] using this

/-- exact characterisation of `All(n)`: bits below `n` set, and (because the partial byte is
    compared with `0xFF << (8 - n%8)`) the remaining bits of that byte clear. -/
theorem all_iff (b : Bitmap) (n : Nat) :
    all b n = true ↔
      (∀ i, i < n → get b i = true) ∧ (∀ i, n ≤ i → i < (n + 7) / 8 * 8 → get b i = false) := by
  unfold all
  by_cases h0 : n = 0
  · subst h0; simp
  simp only [beq_iff_eq, h0, if_false]
  by_cases hlen : b.length < n / 8
  · simp only [hlen, if_true]
    constructor
    · intro h; cases h
    · rintro ⟨h1, _⟩
      have hb := get_lt_length b (8 * b.length) (h1 _ (by omega))
      omega
  simp only [hlen, if_false]
  have hk : n / 8 ≤ b.length := by omega
  have htake := take_all_ff_iff b (n / 8) hk
  by_cases ht : (b.take (n / 8)).all (· == 0xFF) = true
  · simp only [ht, Bool.not_true]
    have hfull := htake.mp ht
    by_cases hm : n % 8 = 0
    · simp only [hm, if_true]
      constructor
      · intro _
        exact ⟨fun i hi => hfull i (by omega), fun i h1 h2 => by omega⟩
      · intro _; trivial
    · simp only [hm, if_false]
      have hmm : 0 < n % 8 := by omega
      cases hx : b[n / 8]? with
      | none =>
        constructor
        · intro h; cases h
        · rintro ⟨h1, _⟩
          have hb := get_lt_length b (n / 8 * 8) (h1 _ (by omega))
          rw [List.getElem?_eq_none_iff] at hx
          omega
      | some x =>
        simp only [Bool.false_eq_true, if_false, beq_iff_eq]
        rw [eq_partial_iff x (n % 8) hmm (Nat.mod_lt _ (by omega))]
        have hget : ∀ j, j < 8 → get b (n / 8 * 8 + j) = getByte x j := by
          intro j hj
          unfold get
          have : (n / 8 * 8 + j) / 8 = n / 8 := by omega
          rw [this, hx]
          simp only
          rw [← getByte_mod x (n / 8 * 8 + j), ← getByte_mod x j]
          congr 1
          omega
        constructor
        · intro h
          constructor
          · intro i hi
            by_cases hi2 : i < 8 * (n / 8)
            · exact hfull i hi2
            · have := hget (i - n / 8 * 8) (by omega)
              rw [show n / 8 * 8 + (i - n / 8 * 8) = i by omega] at this
              rw [this, h _ (by omega)]
              simp
              omega
          · intro i h1 h2
            have := hget (i - n / 8 * 8) (by omega)
            rw [show n / 8 * 8 + (i - n / 8 * 8) = i by omega] at this
            rw [this, h _ (by omega)]
            simp
            omega
        · rintro ⟨h1, h2⟩ j hj
          rw [← hget j hj]
          by_cases hjm : j < n % 8
          · rw [h1 _ (by omega)]; simp [hjm]
          · rw [h2 _ (by omega) (by omega)]; simp [hjm]
  · simp only [ht]
    constructor
    · intro h; simp at h
    · rintro ⟨h1, _⟩
      exact absurd (htake.mpr (fun i hi => h1 i (by omega))) ht

/-- with no bit set at or beyond `n` (the piece-store invariant), `All(n)` is "all n bits" -/
theorem all_iff_of_bounded (b : Bitmap) (n : Nat) (hb : ∀ i, get b i = true → i < n) :
    all b n = true ↔ ∀ i, i < n → get b i = true := by
  rw [all_iff]
  constructor
  · exact fun h => h.1
  · intro h
    refine ⟨h, fun i h1 _ => ?_⟩
    cases hg : get b i with
    | false => rfl
    | true => have := hb i hg; omega

end Storrent.Bitmap
