import Storrent.Model.PeerOut
import Storrent.Lemmas.PexLemmas
/- The peer's handlers use `pexState` exactly as the PEX machine of Model/Pex.lean does: every
   peer history is simulated by a `Pex.Op` history with the same final `pexState` and the same
   sequence of queued PEX messages.  (Everything but `PeerPex` and the PEX tick leaves the
   `pexState` alone and queues no PEX message.) -/
namespace Storrent.PeerOut
open Storrent Storrent.Wire Storrent.PBitmap Storrent.Requests Storrent.Pex

def pexOf : Msg → Option (List PexPeer × List PexPeer)
  | .pex _ a d => some (a, d)
  | _ => none

/-- the PEX messages among some emissions, in order -/
def pexMsgs (es : List Emission) : List (List PexPeer × List PexPeer) :=
  es.filterMap (fun e => pexOf e.msg)

/-- the PEX-relevant part of a context -/
def fr (c : Ctx) : PexState × List (List PexPeer × List PexPeer) := (c.p.pex, pexMsgs c.emits)

theorem fr_write {c : Ctx} {ghost : Peer} {m : Msg} (hm : pexOf m = none) :
    fr (write c ghost m).1 = fr c := by
  unfold write fr
  split
  · simp [pexMsgs, List.filterMap_append, hm]
  · rfl

theorem fr_drop (c : Ctx) (ch : Nat) : fr (drop c ch) = fr c := by
  unfold drop; split <;> rfl

theorem fr_dropAll (chunks : List Nat) : ∀ c : Ctx, fr (dropAll c chunks) = fr c := by
  unfold dropAll
  induction chunks with
  | nil => intro c; rfl
  | cons x xs ih => intro c; simp only [List.foldl_cons]; rw [ih, fr_drop]

theorem fr_maybeInterested (c : Ctx) : fr (maybeInterested c) = fr c := by
  unfold maybeInterested
  simp only
  generalize wantInterested c.p = intr
  cases intr
  · simp only [Bool.false_eq_true, if_false]
    split
    · rfl
    · have hw := fr_write (c := c) (ghost := c.p) (m := Msg.notInterested) rfl
      split
      · rw [← hw]; rfl
      · exact hw
  · simp only [if_true]
    split
    · rfl
    · have hw := fr_write (c := c) (ghost := c.p) (m := Msg.interested) rfl
      split
      · rw [← hw]; rfl
      · exact hw

theorem fr_maybeRequestLoop (K : Option Nat) : ∀ (fuel : Nat) (c : Ctx),
    fr (maybeRequestLoop K fuel c) = fr c
  | 0, c => by unfold maybeRequestLoop; rfl
  | fuel + 1, c => by
    unfold maybeRequestLoop
    simp only
    split
    · rfl
    · split
      · rfl
      · split
        · rfl
        · split
          · rfl
          · rename_i q rs1 hdq
            split
            · rfl
            · rename_i i b hfc
              split
              · rw [fr_maybeRequestLoop K fuel, fr_drop]; rfl
              · have hw := fr_write (c := { c with p := { c.p with requests := rs1 } }) (ghost := c.p)
                  (m := .request i.toNat b.toNat (chunkSize c.p.length (UInt32.ofNat q.index)).toNat) rfl
                split
                · rw [fr_drop, hw]; rfl
                · split
                  · exact Eq.trans rfl (hw.trans rfl)
                  · exact (fr_maybeRequestLoop K fuel _).trans (Eq.trans rfl (hw.trans rfl))

theorem fr_maybeRequest (K : Option Nat) (c : Ctx) : fr (maybeRequest K c) = fr c := by
  unfold maybeRequest
  split
  · rfl
  · exact fr_maybeRequestLoop K _ c

theorem fr_docancel (c : Ctx) (ghost : Peer) (chunk : Nat) : fr (docancel c ghost chunk) = fr c := by
  unfold docancel
  split
  · rfl
  · exact fr_write rfl

theorem fr_cancelChunk (c : Ctx) (chunk : Nat) : fr (cancelChunk c chunk) = fr c := by
  unfold cancelChunk
  split
  · rfl
  · simp only
    cases Requests.cancel c.p.requests chunk with
    | mk rs1 fs =>
      obtain ⟨found, send⟩ := fs
      simp only
      cases found with
      | true =>
        simp only [if_true]
        cases send with
        | true => simp only [if_true]; rw [fr_docancel]; rfl
        | false => rfl
      | false =>
        simp only [Bool.false_eq_true, if_false]
        cases delAny c.p.requests chunk with
        | none => rfl
        | some t =>
          obtain ⟨rs2, q, r⟩ := t
          simp only
          cases r with
          | true => simp only [Bool.or_true, if_true]; rw [fr_drop, fr_docancel]; rfl
          | false =>
            cases q with
            | true => simp only [Bool.or_false, if_true, Bool.false_eq_true, if_false]; rw [fr_drop]; rfl
            | false => rfl

theorem fr_expireLoop (a0 a1 : Nat) : ∀ (fuel i : Nat) (rs : Requests) (st : Ctx) (d : Bool)
    (rs' : Requests) (st' : Ctx) (d' : Bool),
    expireLoop (σ := Ctx) (fun ch st => drop st ch)
      (fun rsBefore r st => docancel st { st.p with requests := rsBefore } r.index)
      a0 a1 fuel i rs st d = some (rs', st', d') → fr st' = fr st
  | 0, i, rs, st, d, rs', st', d', h => by
    unfold expireLoop at h; cases h; rfl
  | fuel + 1, i, rs, st, d, rs', st', d', h => by
    unfold expireLoop at h
    split at h
    · cases h; rfl
    · split at h
      · cases hdr : delRequested rs _ with
        | mk rs2 found =>
          rw [hdr] at h
          simp only at h
          split at h
          · cases h
          · rw [fr_expireLoop a0 a1 fuel i rs2 _ true rs' st' d' h, fr_drop]
      · split at h
        · rw [fr_expireLoop a0 a1 fuel (i + 1) _ _ d rs' st' d' h, fr_docancel]
        · exact fr_expireLoop a0 a1 fuel (i + 1) rs st d rs' st' d' h

theorem fr_expireRequests (c : Ctx) (rto : Nat) : fr (expireRequests c rto).1 = fr c := by
  unfold expireRequests
  simp only
  split
  · rfl
  · split
    · rfl
    · rename_i rs' c' dropped hex
      unfold Requests.expire at hex
      rw [← fr_expireLoop _ _ _ _ _ _ _ _ _ _ hex]
      rfl

theorem fr_foldl {α : Type} (f : Ctx → α → Ctx) (hf : ∀ c x, fr (f c x) = fr c) :
    ∀ (l : List α) (c : Ctx), fr (l.foldl f c) = fr c
  | [], c => rfl
  | x :: xs, c => by simp only [List.foldl_cons]; rw [fr_foldl f hf xs, hf]

/-- every op but `PeerPex` and the PEX tick: `pexState` untouched, no PEX message queued -/
theorem fr_handle (p : Peer) (op : Op) (h1 : ∀ a ps, op ≠ .ePex a ps) (h2 : op ≠ .sendPex) :
    fr (handle p op).1 = (p.pex, []) := by
  cases op with
  | mChoke => simp only [handle]; rw [fr_dropAll]; rfl
  | mUnchoke => rfl
  | mHave i =>
    simp only [handle]
    split
    · rfl
    · split
      · rw [fr_maybeInterested]; rfl
      · rfl
  | mBitfield bs =>
    simp only [handle]
    split
    · rfl
    · rw [fr_maybeInterested]; rfl
  | mHaveAll =>
    simp only [handle]
    split
    · rfl
    · rw [fr_maybeInterested]; split <;> rfl
  | mHaveNone => simp only [handle]; split <;> rfl
  | mAllowedFast i =>
    simp only [handle]
    split
    · rfl
    · split
      · rfl
      · split <;> rfl
  | mReject i b K =>
    simp only [handle]
    split
    · rfl
    · split
      · rfl
      · split
        · rfl
        · rw [fr_maybeRequest]; split
          · rw [fr_drop]; rfl
          · rfl
  | mPiece i b len n K =>
    simp only [handle]
    split
    · rfl
    · split
      · rfl
      · split
        · rfl
        · split
          · rfl
          · rw [fr_maybeRequest]; split
            · rw [fr_drop]; rfl
            · rfl
  | mExt0 reqq m =>
    simp only [handle]
    split
    · rfl
    · split <;> rfl
  | mDontHave i =>
    simp only [handle]
    split
    · rfl
    · split
      · rfl
      · split <;> rfl
  | eRequest chunks K =>
    simp only [handle]
    split
    · rfl
    · rw [fr_maybeRequest, fr_foldl]
      · rfl
      · intro c ch
        split
        · rfl
        · split
          · rfl
          · split
            · split
              · rfl
              · rw [fr_drop]; rfl
            · rw [fr_drop]
  | eCancel chunk =>
    simp only [handle]
    split
    · rfl
    · rw [fr_cancelChunk]; rfl
  | eCancelPiece i =>
    simp only [handle]
    split
    · rfl
    · rw [fr_foldl _ (fun c x => fr_cancelChunk c _)]; rfl
  | eHave i have_ =>
    simp only [handle]
    split
    · have hw := fr_write (c := { p := { p with myBitmap := set p.myBitmap i } }) (ghost := p)
        (m := Msg.have i) rfl
      split
      · rw [hw]; rfl
      · rw [fr_maybeInterested, hw]; rfl
    · split
      · have hw := fr_write (c := { p := { p with myBitmap := reset p.myBitmap i } }) (ghost := p)
          (m := Msg.dontHave (p.dontHaveExt % 256) i) rfl
        split
        · rw [hw]; rfl
        · rw [fr_maybeInterested, hw]; rfl
      · rw [fr_maybeInterested]; rfl
  | eInterested b => simp only [handle]; rw [fr_maybeInterested]; rfl
  | eMetadata =>
    simp only [handle]
    split
    · rfl
    · split
      · split
        · rfl
        · rw [fr_maybeInterested]; rfl
      · split
        · rfl
        · rw [fr_maybeInterested]; rfl
  | ePex add peers => exact absurd rfl (h1 add peers)
  | expire rto K =>
    simp only [handle]
    split
    · rw [fr_maybeRequest, fr_expireRequests]; rfl
    · rw [fr_expireRequests]; rfl
  | sendPex => exact absurd rfl h2
  | age d => rfl
  | drain k => rfl
  | wblock b => rfl

/-! ### simulation by the PEX machine -/

theorem prun_append (l1 : List Pex.Op) : ∀ (g : G) (l2 : List Pex.Op),
    Pex.run g (l1 ++ l2) =
      ((Pex.run (Pex.run g l1).1 l2).1, (Pex.run g l1).2 ++ (Pex.run (Pex.run g l1).1 l2).2) := by
  induction l1 with
  | nil => intro g l2; simp [Pex.run]
  | cons op ops ih =>
    intro g l2
    simp only [List.cons_append, Pex.run, ih]
    cases (Pex.step g op).2 <;> simp

theorem prun_adds (peers : List PexPeer) : ∀ g : G,
    Pex.run g (peers.map Pex.Op.add) = (⟨peers.foldl Pex.add g.st, g.rk⟩, []) := by
  induction peers with
  | nil => intro g; rfl
  | cons x xs ih => intro g; simp only [List.map_cons, Pex.run, Pex.step, ih, List.foldl_cons]

theorem prun_dels (peers : List PexPeer) : ∀ g : G,
    Pex.run g (peers.map Pex.Op.del) = (⟨peers.foldl Pex.del g.st, g.rk⟩, []) := by
  induction peers with
  | nil => intro g; rfl
  | cons x xs ih => intro g; simp only [List.map_cons, Pex.run, Pex.step, ih, List.foldl_cons]

/-- what a simulation has to deliver for a piece of peer behaviour -/
def Sim (g : G) (st : PexState) (msgs : List (List PexPeer × List PexPeer)) : Prop :=
  ∃ pops, (Pex.run g pops).1.st = st ∧ (Pex.run g pops).2.map (·.2) = msgs

theorem Sim_nil (g : G) : Sim g g.st [] := ⟨[], rfl, rfl⟩

theorem compute_empty {s s1 : PexState} {a d : List PexPeer} (h : Pex.compute s = (s1, a, d))
    (he : (a.isEmpty && d.isEmpty) = true) : s1 = s := by
  unfold Pex.compute at h
  split at h
  · cases h; rfl
  · rename_i hne
    cases h
    exfalso
    apply hne
    simp only [Bool.and_eq_true, List.isEmpty_iff] at he ⊢
    obtain ⟨h1, h2⟩ := he
    constructor
    · cases hp : s.pending with
      | nil => rfl
      | cons x xs => rw [hp] at h1; simp at h1
    · cases hp : s.pendingDel with
      | nil => rfl
      | cons x xs => rw [hp] at h2; simp at h2

theorem sendPex_sim (p : Peer) (g : G) (hg : g.st = p.pex) :
    Sim g (sendPex { p := p }).p.pex (pexMsgs (sendPex { p := p }).emits) := by
  unfold sendPex
  simp only
  split
  · rw [← hg]; exact Sim_nil g
  · rcases hcomp : Pex.compute p.pex with ⟨s1, tosend, todel⟩
    simp only
    split
    · rw [← hg]; exact Sim_nil g
    · rename_i hne
      have hne' : (tosend.isEmpty && todel.isEmpty) = false := by simpa using hne
      unfold write
      simp only
      split
      · refine ⟨[.send true], ?_, ?_⟩
        · simp only [Pex.run, Pex.step, Pex.send, hg, hcomp, hne', Bool.false_eq_true, if_false, if_true]
        · simp only [Pex.run, Pex.step, Pex.send, hg, hcomp, hne', Bool.false_eq_true, if_false, if_true]
          simp [pexMsgs, pexOf]
      · refine ⟨[.send false], ?_, ?_⟩
        · simp only [Pex.run, Pex.step, Pex.send, hg, hcomp, hne', Bool.false_eq_true, if_false]
        · simp only [Pex.run, Pex.step, Pex.send, hg, hcomp, hne', Bool.false_eq_true, if_false]
          simp [pexMsgs]

theorem step_handle (p : Peer) (op : Op) (h : ¬ (p.dead && !op.isEnv) = true) :
    (step p op).1.pex = (handle p op).1.p.pex ∧ (step p op).2.emits = (handle p op).1.emits := by
  unfold step
  rw [if_neg h]
  rcases handle p op with ⟨c, err, tag⟩
  simp only
  split
  · exact ⟨rfl, rfl⟩
  · split <;> exact ⟨rfl, rfl⟩

theorem step_sim (p : Peer) (op : Op) (g : G) (hg : g.st = p.pex) :
    Sim g (step p op).1.pex (pexMsgs (step p op).2.emits) := by
  by_cases hd : (p.dead && !op.isEnv) = true
  · have : step p op = (p, ⟨.dead, [], [], "dead", []⟩) := by unfold step; simp only [hd, if_true]
    rw [this, ← hg]
    exact Sim_nil g
  · obtain ⟨e1, e2⟩ := step_handle p op hd
    rw [e1, e2]
    by_cases hpex : ∃ a ps, op = .ePex a ps
    · obtain ⟨a, ps, rfl⟩ := hpex
      simp only [handle]
      split
      · rw [← hg]; exact Sim_nil g
      · split
        · exact ⟨ps.map .add, by rw [prun_adds, hg], by rw [prun_adds]; rfl⟩
        · exact ⟨ps.map .del, by rw [prun_dels, hg], by rw [prun_dels]; rfl⟩
    · by_cases hs : op = .sendPex
      · subst hs
        exact sendPex_sim p g hg
      · have := fr_handle p op (fun a ps e => hpex ⟨a, ps, e⟩) hs
        unfold fr at this
        have h1 := congrArg Prod.fst this
        have h2 := congrArg Prod.snd this
        simp only at h1 h2
        rw [h1, h2, ← hg]
        exact Sim_nil g

/-- every peer history is simulated by a history of the PEX machine -/
theorem run_sim : ∀ (ops : List Op) (p : Peer) (g : G), g.st = p.pex →
    Sim g (run p ops).pex (pexMsgs (trace p ops))
  | [], p, g, hg => by simp only [run, trace]; rw [← hg]; exact Sim_nil g
  | op :: ops, p, g, hg => by
    obtain ⟨pops1, hs1, hm1⟩ := step_sim p op g hg
    obtain ⟨pops2, hs2, hm2⟩ := run_sim ops (step p op).1 (Pex.run g pops1).1 hs1
    refine ⟨pops1 ++ pops2, ?_, ?_⟩
    · rw [prun_append]; exact hs2
    · rw [prun_append]
      simp only [List.map_append, hm1, hm2, run, trace, pexMsgs, List.filterMap_append]

end Storrent.PeerOut
