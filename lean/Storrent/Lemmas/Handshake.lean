import Storrent.Model.Handshake
import Storrent.Lemmas.Chunked
/-
`run` (chunked, buffer management as in the Go code, repaired `readMore`) refines `runF`
(flat stream) for EVERY program of the instruction set, hence for the four handshakes:
one induction instead of one per function.
-/
namespace Storrent.Handshake
open Storrent Storrent.Chunked

theorem rmTrunc_true (rm : RM) : rmTrunc true rm = true := by cases rm <;> rfl

theorem xorLater_map_flatten (ks : Nat → UInt8) (p : Nat) (l : List Src) :
    (xorLater ks p l).map List.flatten = xorEpochs ks p (l.map List.flatten) := by
  induction l generalizing p with
  | nil => rfl
  | cons e es ih => simp [xorLater, xorEpochs, xorSrc_flatten, ih]

theorem later_isEmpty (l : List Src) : (l.map List.flatten).isEmpty = l.isEmpty := by
  cases l <;> rfl

/-- **Refinement.**  Whenever the flat specification is determinate on the stream, the
    chunked run — for every chunking of every epoch — computes exactly it, and the bytes
    it leaves (`buf ++ unread chunks`) are exactly the unconsumed suffix. -/
theorem run_refines {α : Type} (p : Prog α) (st : St) (h : (runF p st.abs).isAmb = false) :
    (run true p st).abs = runF p st.abs := by
  induction p generalizing st with
  | ret a => rfl
  | fail e => rfl
  | peek rm n m k ih =>
    unfold run
    unfold runF at h ⊢
    rw [rmTrunc_true]
    have hflat := readMore_flat st.buf n m st.cur
    have hiff := readMore_ok_iff st.buf n m st.cur
    have htrue := readMore_true st.buf n m st.cur
    rcases hr : readMore true st.buf n m st.cur with ⟨b, ok, c⟩
    rw [hr] at hflat hiff htrue
    cases ok with
    | true =>
      have hn : n ≤ (st.buf ++ st.cur.flatten).length := hiff.mp rfl
      have hb : n ≤ b.length := htrue rfl
      have habs : ({ st with buf := b, cur := c } : St).abs = st.abs := by
        simp only [St.abs, hflat]
      have htake : b.take n = st.abs.rest.take n := by
        simp only [St.abs, ← hflat]
        rw [List.take_append_of_le_length hb]
      simp only [St.abs, hn, if_true] at h ⊢
      simp only [St.abs] at htake habs
      rw [htake]
      rw [← habs] at h ⊢
      exact ih _ _ h
    | false =>
      have hn : ¬ n ≤ (st.buf ++ st.cur.flatten).length := by
        intro hc; have := hiff.mpr hc; simp at this
      simp only [St.abs, hn, if_false, Res.abs, later_isEmpty]
  | take rm n m k ih =>
    unfold run
    unfold runF at h ⊢
    rw [rmTrunc_true]
    have hflat := readMore_flat st.buf n m st.cur
    have hiff := readMore_ok_iff st.buf n m st.cur
    have htrue := readMore_true st.buf n m st.cur
    rcases hr : readMore true st.buf n m st.cur with ⟨b, ok, c⟩
    rw [hr] at hflat hiff htrue
    cases ok with
    | true =>
      have hn : n ≤ (st.buf ++ st.cur.flatten).length := hiff.mp rfl
      have hb : n ≤ b.length := htrue rfl
      have habs : ({ st with buf := b.drop n, cur := c } : St).abs
          = { st.abs with rest := st.abs.rest.drop n } := by
        simp only [St.abs, ← hflat]
        rw [List.drop_append_of_le_length hb]
      have htake : b.take n = st.abs.rest.take n := by
        simp only [St.abs, ← hflat]
        rw [List.take_append_of_le_length hb]
      simp only [St.abs, hn, if_true] at h ⊢
      simp only [St.abs] at htake habs
      rw [htake]
      rw [← habs] at h ⊢
      exact ih _ _ h
    | false =>
      have hn : ¬ n ≤ (st.buf ++ st.cur.flatten).length := by
        intro hc; have := hiff.mpr hc; simp at this
      simp only [St.abs, hn, if_false, Res.abs, later_isEmpty]
  | sync v n m k ih =>
    unfold run
    unfold runF at h ⊢
    unfold synchronise
    have hspec := syncLoop_spec v n (if m < n then n else m) (by split <;> omega) st.cur st.buf
    rcases hr : syncLoop v n (if m < n then n else m) st.cur st.buf with ⟨b, r, c⟩
    rw [hr] at hspec
    obtain ⟨hfound, hfail, heof⟩ := hspec
    simp only at hfound hfail heof
    cases r with
    | found =>
      obtain ⟨i, hi, hrest⟩ := hfound rfl
      simp only [St.abs, hi] at h ⊢
      by_cases hle : i + v.length ≤ n
      · simp only [hle, if_true] at h ⊢
        have habs : ({ st with buf := b, cur := c } : St).abs
            = ⟨(st.buf ++ st.cur.flatten).drop (i + v.length), st.later.map List.flatten, st.out⟩ := by
          simp only [St.abs, hrest]
        rw [← habs] at h ⊢
        exact ih _ h
      · simp [hle, ResF.isAmb] at h
    | fail =>
      obtain ⟨hlen, hall⟩ := hfail rfl
      simp only [St.abs] at h ⊢
      cases hf : findSub v (st.buf ++ st.cur.flatten) with
      | some i =>
        have := hall i hf
        have hle : ¬ i + v.length ≤ n := by omega
        simp [hf, hle, ResF.isAmb] at h
      | none => simp only [hlen, if_true, Res.abs]
    | eof =>
      obtain ⟨hlen, hnone, _⟩ := heof rfl
      have hn : ¬ n ≤ (st.buf ++ st.cur.flatten).length := by omega
      simp only [St.abs, hnone, hn, if_false, Res.abs, later_isEmpty]
  | ifEmpty y n ihy ihn =>
    unfold run
    unfold runF at h ⊢
    by_cases he : st.abs.rest.isEmpty = true
    · simp only [he, if_true] at h ⊢
      have hb : st.buf.isEmpty = true := by
        simp only [St.abs, List.isEmpty_iff, List.append_eq_nil_iff] at he
        simp [he.1]
      simp only [hb, if_true]
      exact ihy _ h
    · simp [he, ResF.isAmb] at h
  | xorAll ks k ih =>
    unfold run
    unfold runF at h ⊢
    have habs : (St.mk (xorAt ks 0 st.buf) (xorSrc ks st.buf.length st.cur)
        (xorLater ks (st.buf.length + st.cur.flatten.length) st.later) st.out).abs
        = StF.mk (xorAt ks 0 st.abs.rest) (xorEpochs ks st.abs.rest.length st.abs.later) st.abs.out := by
      simp only [St.abs, xorSrc_flatten, xorLater_map_flatten, xorAt_append, Nat.zero_add,
        List.length_append]
    rw [← habs] at h ⊢
    exact ih _ h
  | unread b k ih =>
    unfold run
    unfold runF at h ⊢
    have habs : ({ st with buf := b ++ st.buf } : St).abs = { st.abs with rest := b ++ st.abs.rest } := by
      simp only [St.abs, List.append_assoc]
    rw [← habs] at h ⊢
    exact ih _ h
  | write b k ih =>
    unfold run
    unfold runF at h ⊢
    have habs : (St.mk st.buf (release st.cur st.later).1 (release st.cur st.later).2
        (st.out ++ [b])).abs
        = StF.mk (releaseF st.abs.rest st.abs.later).1 (releaseF st.abs.rest st.abs.later).2
            (st.abs.out ++ [b]) := by
      cases hl : st.later with
      | nil => simp [St.abs, release, releaseF, hl]
      | cons e es => simp [St.abs, release, releaseF, hl, List.append_assoc]
    simp only at h ⊢
    rw [← habs] at h ⊢
    exact ih _ h


/-! ### one-step equations of the flat specification (for symbolic runs) -/

theorem releaseF_eq (r : Bytes) (l : List Bytes) : releaseF r l = (r ++ l.headD [], l.tail) := by
  cases l <;> simp [releaseF]

theorem runF_ret {α : Type} (a : α) (st : StF) : runF (.ret a) st = .ok a st := by
  unfold runF; rfl

theorem runF_fail {α : Type} (e : HsErr) (st : StF) : runF (.fail e : Prog α) st = .err e st.out := by
  unfold runF; rfl

theorem runF_write {α : Type} (b : Bytes) (k : Prog α) (st : StF) :
    runF (.write b k) st = runF k ⟨st.rest ++ st.later.headD [], st.later.tail, st.out ++ [b]⟩ := by
  conv => lhs; unfold runF
  simp only [releaseF_eq]

theorem runF_take {α : Type} (rm : RM) (n m : Nat) (k : Bytes → Prog α) (st : StF)
    (h : n ≤ st.rest.length) :
    runF (.take rm n m k) st = runF (k (st.rest.take n)) ⟨st.rest.drop n, st.later, st.out⟩ := by
  conv => lhs; unfold runF
  simp only [h, if_true]

theorem runF_peek {α : Type} (rm : RM) (n m : Nat) (k : Bytes → Prog α) (st : StF)
    (h : n ≤ st.rest.length) :
    runF (.peek rm n m k) st = runF (k (st.rest.take n)) st := by
  conv => lhs; unfold runF
  simp only [h, if_true]

theorem runF_unread {α : Type} (b : Bytes) (k : Prog α) (st : StF) :
    runF (.unread b k) st = runF k ⟨b ++ st.rest, st.later, st.out⟩ := by
  conv => lhs; unfold runF

theorem runF_xorAll {α : Type} (ks : Nat → UInt8) (k : Prog α) (st : StF) :
    runF (.xorAll ks k) st
      = runF k ⟨xorAt ks 0 st.rest, xorEpochs ks st.rest.length st.later, st.out⟩ := by
  conv => lhs; unfold runF

theorem runF_ifEmpty_nil {α : Type} (y n : Prog α) (st : StF) (h : st.rest = []) :
    runF (.ifEmpty y n) st = runF y st := by
  conv => lhs; unfold runF
  simp [h]

theorem runF_sync {α : Type} (v : Bytes) (n m : Nat) (k : Prog α) (st : StF) (i : Nat)
    (hf : findSub v st.rest = some i) (hi : i + v.length ≤ n) :
    runF (.sync v n m k) st = runF k ⟨st.rest.drop (i + v.length), st.later, st.out⟩ := by
  conv => lhs; unfold runF
  simp only [hf, hi, if_true]

end Storrent.Handshake
