import Storrent.Model.PeerMsg
import Storrent.Lemmas.RequestsI
/- A small Hoare logic for the `PM` monad of Model/PeerMsg and the specifications of its
   helpers: from a state satisfying `Inv` they never fault, keep the geometry and `Inv`. -/
namespace Storrent.PeerMsg
open Storrent Storrent.RequestsI

/-- the peer-state invariant: once the metadata is known the geometry is usable (piece size
    at least one block), the request structure is consistent with its bitmap, and nothing
    is queued before the metadata is known -/
structure Inv (s : PeerState) : Prop where
  geom : s.info = true → CS ≤ s.pieceSize
  cons : Consistent s.requests
  noinfo : s.info = false → s.requests.queue = [] ∧ s.requests.requested = []

/-- outcome predicate: a fault is excluded, an error must leave `Inv`, a normal return `Q` -/
def Ok {α} (x : PM α) (c : Ctx) (Q : α → Ctx → Prop) : Prop :=
  match x c with
  | .ret a c' => Q a c'
  | .err _ c' => Inv c'.s
  | .panic _ _ => False

def Geo (c c' : Ctx) : Prop :=
  c'.s.info = c.s.info ∧ c'.s.pieceSize = c.s.pieceSize ∧ c'.s.length = c.s.length

def Good (c c' : Ctx) : Prop := Geo c c' ∧ Inv c'.s

theorem Geo.refl (c : Ctx) : Geo c c := ⟨rfl, rfl, rfl⟩
theorem Geo.trans {a b c : Ctx} (h1 : Geo a b) (h2 : Geo b c) : Geo a c :=
  ⟨h2.1.trans h1.1, h2.2.1.trans h1.2.1, h2.2.2.trans h1.2.2⟩
theorem Good.trans {a b c : Ctx} (h1 : Good a b) (h2 : Good b c) : Good a c := ⟨h1.1.trans h2.1, h2.2⟩

theorem ok_mono {α} {x : PM α} {c : Ctx} {Q Q' : α → Ctx → Prop} (h : Ok x c Q)
    (hq : ∀ a c', Q a c' → Q' a c') : Ok x c Q' := by
  unfold Ok at *
  split <;> simp_all

@[simp] theorem ok_pure {α} (a : α) (c : Ctx) (Q : α → Ctx → Prop) : Ok (pure a : PM α) c Q ↔ Q a c := Iff.rfl

@[simp] theorem ok_bind {α β} (x : PM α) (f : α → PM β) (c : Ctx) (Q : β → Ctx → Prop) :
    Ok (x >>= f) c Q ↔ Ok x c (fun a c' => Ok (f a) c' Q) := by
  show Ok (PM.bind x f) c Q ↔ _
  unfold Ok PM.bind
  cases x c <;> simp

@[simp] theorem ok_get (c : Ctx) (Q) : Ok get c Q ↔ Q c.s c := Iff.rfl
@[simp] theorem ok_modify (f) (c : Ctx) (Q) : Ok (modify f) c Q ↔ Q () { c with s := f c.s } := Iff.rfl
@[simp] theorem ok_emit (o) (c : Ctx) (Q) : Ok (emit o) c Q ↔ Q () { c with outs := c.outs ++ [o] } := Iff.rfl
@[simp] theorem ok_charge (n) (c : Ctx) (Q) : Ok (charge n) c Q ↔ Q () { c with alloc := c.alloc + n } := Iff.rfl
@[simp] theorem ok_chargeStore (n) (c : Ctx) (Q) : Ok (chargeStore n) c Q ↔ Q () { c with store := c.store + n } := Iff.rfl
@[simp] theorem ok_tagAs (t) (c : Ctx) (Q) : Ok (tagAs t) c Q ↔
    Q () { c with tag := if c.tag.isEmpty then t else c.tag ++ "+" ++ t } := Iff.rfl
@[simp] theorem ok_throw {α} (e) (c : Ctx) (Q : α → Ctx → Prop) : Ok (throw e : PM α) c Q ↔ Inv c.s := Iff.rfl
@[simp] theorem ok_failTag {α} (t e) (c : Ctx) (Q : α → Ctx → Prop) : Ok (failTag t e : PM α) c Q ↔ Inv c.s := Iff.rfl
@[simp] theorem ok_fault {α} (w) (c : Ctx) (Q : α → Ctx → Prop) : Ok (fault w : PM α) c Q ↔ False := Iff.rfl

theorem ok_ite {α} (b : Prop) [Decidable b] (x y : PM α) (c : Ctx) (Q) :
    Ok (if b then x else y) c Q ↔ (if b then Ok x c Q else Ok y c Q) := by
  split <;> rfl

/-- specification shared by the helpers -/
def Spec {α} (x : PM α) : Prop := ∀ c, Inv c.s → Ok x c (fun _ c' => Good c c')

theorem spec_bind {α β} {x : PM α} {f : α → PM β} (hx : Spec x) (hf : ∀ a, Spec (f a)) : Spec (x >>= f) := by
  intro c hi
  rw [ok_bind]
  refine ok_mono (hx c hi) ?_
  intro a c' hg
  exact ok_mono (hf a c' hg.2) (fun _ _ h => hg.trans h)

theorem spec_pure {α} (a : α) : Spec (pure a : PM α) := fun c hi => ⟨Geo.refl c, hi⟩

/-- use a `Spec` in the middle of a weakest-precondition computation -/
theorem ok_of_spec {α} {x : PM α} (hx : Spec x) {c : Ctx} (hi : Inv c.s) {Q : α → Ctx → Prop}
    (h : ∀ a c', Good c c' → Q a c') : Ok x c Q := ok_mono (hx c hi) h

theorem spec_write (m) : Spec (write m) := by
  intro c hi
  unfold write
  simp only [ok_bind, ok_get]
  split
  · simp only [ok_bind, ok_modify]
    split <;> simp [Good, Geo] <;> exact ⟨hi.geom, hi.cons, hi.noinfo⟩
  · split
    · simp [Good, Geo]; exact ⟨hi.geom, hi.cons, hi.noinfo⟩
    · split <;> simp [Good, Geo] <;> exact ⟨hi.geom, hi.cons, hi.noinfo⟩


theorem inv_frame {s s' : PeerState} (hi : Inv s) (h1 : s'.info = s.info) (h2 : s'.pieceSize = s.pieceSize)
    (h3 : s'.requests = s.requests) : Inv s' :=
  ⟨by rw [h1, h2]; exact hi.geom, by rw [h3]; exact hi.cons, by rw [h1, h3]; exact hi.noinfo⟩

theorem spec_writeEvent (e) : Spec (writeEvent e) := by
  intro c hi
  simp [writeEvent, Good, Geo]
  exact inv_frame hi rfl rfl rfl

theorem spec_isCongested : Spec isCongested := by
  intro c hi
  simp [isCongested, Good, Geo, hi]

@[simp] theorem ok_failW {α} (r) (c : Ctx) (Q : α → Ctx → Prop) : Ok (failW r : PM α) c Q ↔ Inv c.s := by
  cases r <;> rfl

/-- helpers that divide by the geometry: specified when the metadata is known -/
def SpecG {α} (x : PM α) : Prop := ∀ c, Inv c.s → c.s.info = true → Ok x c (fun _ c' => Good c c')

theorem specG_of_spec {α} {x : PM α} (h : Spec x) : SpecG x := fun c hi _ => h c hi

theorem specG_bind {α β} {x : PM α} {f : α → PM β} (hx : SpecG x) (hf : ∀ a, SpecG (f a)) : SpecG (x >>= f) := by
  intro c hi hinfo
  rw [ok_bind]
  refine ok_mono (hx c hi hinfo) ?_
  intro a c' hg
  exact ok_mono (hf a c' hg.2 (by rw [hg.1.1]; exact hinfo)) (fun _ _ h => hg.trans h)

theorem ok_of_specG {α} {x : PM α} (hx : SpecG x) {c : Ctx} (hi : Inv c.s) (hinfo : c.s.info = true)
    {Q : α → Ctx → Prop} (h : ∀ a c', Good c c' → Q a c') : Ok x c Q := ok_mono (hx c hi hinfo) h

theorem specG_fromChunk (ch) : SpecG (fromChunk ch) := by
  intro c hi hinfo
  have := hi.geom hinfo
  unfold fromChunk
  simp only [ok_bind, ok_get]
  have h0 : ¬ c.s.pieceSize / CS = 0 := by unfold CS at *; omega
  simp [h0, Good, Geo.refl, hi]

theorem specG_toChunk (i b) : SpecG (toChunk i b) := by
  intro c hi hinfo
  have := hi.geom hinfo
  unfold toChunk
  simp only [ok_bind, ok_get]
  have h0 : ¬ c.s.pieceSize / CS = 0 := by unfold CS at *; omega
  simp only [h0, ↓reduceIte]
  split <;> simp [Good, Geo.refl, hi]

theorem specG_numPieces : SpecG numPieces := by
  intro c hi hinfo
  have := hi.geom hinfo
  unfold numPieces
  simp only [ok_bind, ok_get]
  have h0 : ¬ c.s.pieceSize = 0 := by unfold CS at *; omega
  simp [h0, Good, Geo.refl, hi]

theorem spec_chunkSize (ch) : Spec (chunkSize ch) := by
  intro c hi
  unfold chunkSize
  simp only [ok_bind, ok_get]
  split <;> simp [Good, Geo.refl, hi]

theorem specG_drop (ch) : SpecG (drop ch) := by
  unfold drop
  exact specG_bind (specG_fromChunk ch) (fun r => specG_of_spec (spec_writeEvent _))

theorem specG_dropAll (l) : SpecG (dropAll l) := by
  induction l with
  | nil => exact specG_of_spec (spec_pure ())
  | cons a l ih => unfold dropAll; exact specG_bind (specG_drop a) (fun _ => ih)

theorem spec_dropAll_nil : Spec (dropAll []) := spec_pure ()

theorem spec_reject (i b l) : Spec (reject i b l) := by
  intro c hi
  unfold reject
  simp only [ok_bind, ok_get]
  split
  · exact spec_write _ c hi
  · exact spec_pure _ c hi

theorem specG_docancel (ch) : SpecG (docancel ch) := by
  unfold docancel
  exact specG_bind (specG_fromChunk ch) (fun r =>
    specG_bind (specG_of_spec (spec_chunkSize ch)) (fun _ => specG_of_spec (spec_write _)))

theorem spec_modify_frame (f : PeerState → PeerState)
    (h : ∀ s, (f s).info = s.info ∧ (f s).pieceSize = s.pieceSize ∧ (f s).length = s.length ∧ (f s).requests = s.requests) :
    Spec (modify f) := by
  intro c hi
  simp only [ok_modify, Good, Geo]
  obtain ⟨h1, h2, h3, h4⟩ := h c.s
  exact ⟨⟨h1, h2, h3⟩, inv_frame hi h1 h2 h4⟩

theorem spec_get_bind {β} {f : PeerState → PM β} (hf : ∀ s, Spec (f s)) : Spec (get >>= f) := by
  intro c hi
  rw [ok_bind, ok_get]
  exact hf c.s c hi

theorem specG_get_bind {β} {f : PeerState → PM β} (hf : ∀ s, SpecG (f s)) : SpecG (get >>= f) := by
  intro c hi hinfo
  rw [ok_bind, ok_get]
  exact hf c.s c hi hinfo

/-- closes `Spec (modify f)` for an `f` that leaves geometry and requests alone -/
macro "frame_modify" : tactic =>
  `(tactic| (apply spec_modify_frame; intro s; exact ⟨rfl, rfl, rfl, rfl⟩))

theorem spec_failW {α} (r) : Spec (failW r : PM α) := by
  intro c hi; simp [hi]
theorem spec_throw {α} (e) : Spec (throw e : PM α) := by
  intro c hi; simp [hi]
theorem spec_failTag {α} (t e) : Spec (failTag t e : PM α) := by
  intro c hi; simp [hi]
theorem spec_tagAs (t) : Spec (tagAs t) := by
  intro c hi; simp [Good, Geo]; exact inv_frame hi rfl rfl rfl
theorem spec_charge (n) : Spec (charge n) := by
  intro c hi; simp [Good, Geo]; exact inv_frame hi rfl rfl rfl
theorem spec_chargeStore (n) : Spec (chargeStore n) := by
  intro c hi; simp [Good, Geo]; exact inv_frame hi rfl rfl rfl

/-- structural decomposition of a `Spec` goal over the do-block's shape -/
macro "spec_auto" : tactic => `(tactic| repeat' (first
  | exact spec_pure _ | exact spec_writeEvent _ | exact spec_write _ | exact spec_isCongested
  | exact spec_reject _ _ _ | exact spec_chunkSize _ | exact spec_failW _ | exact spec_throw _
  | exact spec_failTag _ _ | exact spec_tagAs _ | exact spec_charge _ | exact spec_chargeStore _
  | assumption
  | frame_modify
  | (refine spec_get_bind (fun _ => ?_)) | (refine spec_bind ?_ (fun _ => ?_)) | split | (dsimp only)))

theorem spec_active : Spec active := by
  unfold active; spec_auto

theorem spec_startStopUpload : Spec startStopUpload := by
  unfold startStopUpload; frame_modify

theorem spec_rejectAll (l) : Spec (rejectAll l) := by
  induction l with
  | nil => exact spec_pure _
  | cons a l ih =>
    obtain ⟨i, b, n⟩ := a
    unfold rejectAll
    spec_auto

theorem spec_unchoke (u) : Spec (unchoke u) := by
  have := spec_rejectAll
  unfold unchoke; spec_auto
  all_goals exact this _

theorem spec_maybeInterested : Spec maybeInterested := by
  unfold maybeInterested; spec_auto

theorem inv_setReq {s : PeerState} (hi : Inv s) (hinfo : s.info = true) {rs : Requests} (hc : Consistent rs) :
    Inv { s with requests := rs } :=
  ⟨hi.geom, hc, fun h => by simp [hinfo] at h⟩

theorem specG_loop (fuel : Nat) : SpecG (maybeRequestLoop fuel) := by
  induction fuel with
  | zero => exact specG_of_spec (spec_pure ())
  | succ n ih =>
    intro c hi hinfo
    unfold maybeRequestLoop
    simp only [ok_bind, ok_get, isCongested, ok_pure]
    split
    · exact ⟨Geo.refl c, hi⟩
    · rename_i hq
      split
      · exact ⟨Geo.refl c, hi⟩
      · split
        · rename_i hd
          have : c.s.requests.queue.isEmpty = false := by simp at hq; simp [hq.2]
          obtain ⟨r, hr⟩ := dequeue_some this
          rw [hr] at hd; cases hd
        · rename_i rs index hdq
          obtain ⟨hc, hbit, -⟩ := dequeue_consistent hi.cons hdq
          simp only [ok_bind, ok_modify]
          have hi1 : Inv ({ c.s with requests := rs }) := inv_setReq hi hinfo hc
          refine ok_of_specG (specG_fromChunk index) ?_ ?_ ?_
          · exact hi1
          · exact hinfo
          intro a c2 hg2
          have hinfo2 : c2.s.info = true := by rw [hg2.1.1]; exact hinfo
          have hgc : Geo c c2 := ⟨hg2.1.1, hg2.1.2.1, hg2.1.2.2⟩
          split
          · rw [ok_bind]
            refine ok_of_specG (specG_drop index) hg2.2 hinfo2 ?_
            intro _ c3 hg3
            refine ok_mono (ih c3 hg3.2 (by rw [hg3.1.1]; exact hinfo2)) ?_
            intro _ c4 hg4; exact ⟨hgc.trans (hg3.1.trans hg4.1), hg4.2⟩
          · simp only [ok_bind]
            refine ok_of_spec (spec_chunkSize index) hg2.2 ?_
            intro cs c3 hg3
            refine ok_of_spec (spec_write _) hg3.2 ?_
            intro r c4 hg4
            have hinfo4 : c4.s.info = true := by rw [hg4.1.1, hg3.1.1]; exact hinfo2
            have hgc4 : Geo c c4 := hgc.trans (hg3.1.trans hg4.1)
            split
            · refine ok_of_specG (specG_drop index) hg4.2 hinfo4 ?_
              intro _ c5 hg5; exact ⟨hgc4.trans hg5.1, hg5.2⟩
            · obtain ⟨rs', a', he', hc2, -⟩ := enqueueRequest_consistent hc index hbit
              split
              · rename_i he; rw [he'] at he; cases he
              · rename_i rs2 a2 he
                rw [he'] at he; cases he
                simp only [ok_bind, ok_modify, ok_charge]
                have hi5 : Inv ({ c4.s with requests := rs' }) := inv_setReq hg4.2 hinfo4 hc2
                refine ok_mono (ih _ ?_ ?_) ?_
                · exact hi5
                · exact hinfo4
                intro _ c6 hg6
                exact ⟨hgc4.trans ⟨hg6.1.1, hg6.1.2.1, hg6.1.2.2⟩, hg6.2⟩

theorem specG_maybeRequest : SpecG maybeRequest := by
  unfold maybeRequest
  refine specG_get_bind (fun s => ?_)
  split
  · exact specG_of_spec (spec_pure _)
  · exact specG_loop _

theorem spec_pexAdd (l) : Spec (pexAdd l) := by
  induction l with
  | nil => exact spec_pure _
  | cons a l ih => unfold pexAdd; spec_auto

theorem spec_pexDrop (l) : Spec (pexDrop l) := by
  induction l with
  | nil => exact spec_pure _
  | cons a l ih => unfold pexDrop; spec_auto

/-- pointwise steps: run one specified helper, continue from the context it returns -/
theorem ok_step_spec {α β} {x : PM α} {f : α → PM β} {c : Ctx} (hx : Spec x) (hi : Inv c.s)
    (h : ∀ a c', Good c c' → Ok (f a) c' (fun _ c'' => Good c' c'')) :
    Ok (x >>= f) c (fun _ c'' => Good c c'') := by
  rw [ok_bind]
  refine ok_mono (hx c hi) ?_
  intro a c' hg
  exact ok_mono (h a c' hg) (fun _ _ h' => hg.trans h')

theorem ok_step_specG {α β} {x : PM α} {f : α → PM β} {c : Ctx} (hx : SpecG x) (hi : Inv c.s)
    (hinfo : c.s.info = true)
    (h : ∀ a c', Good c c' → c'.s.info = true → Ok (f a) c' (fun _ c'' => Good c' c'')) :
    Ok (x >>= f) c (fun _ c'' => Good c c'') := by
  rw [ok_bind]
  refine ok_mono (hx c hi hinfo) ?_
  intro a c' hg
  exact ok_mono (h a c' hg (by rw [hg.1.1]; exact hinfo)) (fun _ _ h' => hg.trans h')

theorem ok_last_spec {α} {x : PM α} {c : Ctx} (hx : Spec x) (hi : Inv c.s) :
    Ok x c (fun _ c'' => Good c c'') := hx c hi

theorem ok_last_specG {α} {x : PM α} {c : Ctx} (hx : SpecG x) (hi : Inv c.s) (hinfo : c.s.info = true) :
    Ok x c (fun _ c'' => Good c c'') := hx c hi hinfo

end Storrent.PeerMsg


