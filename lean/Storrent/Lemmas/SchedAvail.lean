import Storrent.Model.Sched
import Storrent.Lemmas.Sched
/-
Lemmas for the availability half of C09: every bitmap-changing handler reports exactly the
difference between the old and the new bitmap; the request-handling code never touches the
bitmap and emits only availability-neutral events.
-/
namespace Storrent.Sched

/-- an event weight that ignores TorData / TorDrop / TorPeerUnchoke -/
def Neutral (f : TorEv → Nat) : Prop :=
  (∀ a b c, f (.drop a b c) = 0) ∧ (∀ a b c d e, f (.data a b c d e) = 0) ∧ (∀ a b, f (.unchoke a b) = 0)

theorem neutral_plus (i : Nat) : Neutral (evPlus i) := ⟨fun _ _ _ => rfl, fun _ _ _ _ _ => rfl, fun _ _ => rfl⟩
theorem neutral_minus (i : Nat) : Neutral (evMinus i) := ⟨fun _ _ _ => rfl, fun _ _ _ _ _ => rfl, fun _ _ => rfl⟩

theorem neutral_dropEv {f : TorEv → Nat} (hf : Neutral f) (g : Geom) (c : Nat) : f (dropEv g c) = 0 := hf.1 _ _ _

/-- the part of a peer the availability bookkeeping looks at -/
def sameBits (p q : Peer) : Prop := q.bits = p.bits ∧ q.bmNil = p.bmNil

theorem sameBits.rfl' (p : Peer) : sameBits p p := ⟨rfl, rfl⟩
theorem sameBits.trans' {p q r : Peer} (h1 : sameBits p q) (h2 : sameBits q r) : sameBits p r :=
  ⟨h2.1.trans h1.1, h2.2.trans h1.2⟩

theorem write_sameBits (p : Peer) : sameBits p p.write.1 := by
  unfold Peer.write; split <;> exact ⟨rfl, rfl⟩

theorem maybeRequestLoop_av {f : TorEv → Nat} (hf : Neutral f) (g : Geom) (slow : Bool) :
    ∀ (fuel : Nat) (p : Peer) (evs : List TorEv),
      sameBits p (maybeRequestLoop g slow fuel p evs).1 ∧
      sumL f (maybeRequestLoop g slow fuel p evs).2 = sumL f evs := by
  intro fuel
  induction fuel with
  | zero => intro p evs; exact ⟨sameBits.rfl' p, rfl⟩
  | succ fuel ih =>
    intro p evs
    simp only [maybeRequestLoop]
    split
    · exact ⟨sameBits.rfl' p, rfl⟩
    · split
      · exact ⟨sameBits.rfl' p, rfl⟩
      · rename_i q rest hq
        split
        · exact ⟨sameBits.rfl' p, rfl⟩
        · split
          · obtain ⟨h1, h2⟩ := ih { p with queue := rest } (evs ++ [dropEv g q.chunk])
            refine ⟨⟨h1.1, h1.2⟩, ?_⟩
            rw [h2]; simp [neutral_dropEv hf]
          · have hw := write_sameBits { p with queue := rest }
            cases hwr : ({ p with queue := rest } : Peer).write with
            | mk p2 ok =>
              rw [hwr] at hw
              cases ok with
              | true =>
                simp only [if_true]
                obtain ⟨h1, h2⟩ := ih { p2 with requested := p2.requested ++ [{ chunk := q.chunk }] } evs
                exact ⟨⟨h1.1.trans hw.1, h1.2.trans hw.2⟩, h2⟩
              | false =>
                refine ⟨⟨hw.1, hw.2⟩, ?_⟩
                simp [neutral_dropEv hf]

theorem maybeRequest_av {f : TorEv → Nat} (hf : Neutral f) (g : Geom) (slow : Bool) (p : Peer) (evs : List TorEv) :
    sameBits p (maybeRequest g slow p evs).1 ∧ sumL f (maybeRequest g slow p evs).2 = sumL f evs := by
  unfold maybeRequest
  split
  · exact ⟨sameBits.rfl' p, rfl⟩
  · exact maybeRequestLoop_av hf g slow _ p evs

theorem enqueueAll_av {f : TorEv → Nat} (hf : Neutral f) (g : Geom) :
    ∀ (cs : List Nat) (p : Peer) (evs : List TorEv),
      sameBits p (enqueueAll g cs p evs).1 ∧ sumL f (enqueueAll g cs p evs).2 = sumL f evs := by
  intro cs
  induction cs with
  | nil => intro p evs; exact ⟨sameBits.rfl' p, rfl⟩
  | cons c cs ih =>
    intro p evs
    simp only [enqueueAll]
    split
    · obtain ⟨h1, h2⟩ := ih { p with queue := p.queue ++ [{ chunk := c }] } evs
      exact ⟨⟨h1.1, h1.2⟩, h2⟩
    · obtain ⟨h1, h2⟩ := ih p (evs ++ [dropEv g c])
      refine ⟨h1, ?_⟩
      rw [h2]; simp [neutral_dropEv hf]

theorem cancelChunk_av {f : TorEv → Nat} (hf : Neutral f) (g : Geom) (p : Peer) (c : Nat) (evs : List TorEv) :
    sameBits p (cancelChunk g p c evs).1 ∧ sumL f (cancelChunk g p c evs).2 = sumL f evs := by
  unfold cancelChunk
  split
  · exact ⟨sameBits.rfl' p, rfl⟩
  · split
    · split
      · split
        · exact ⟨sameBits.rfl' p, rfl⟩
        · exact ⟨⟨(write_sameBits _).1, (write_sameBits _).2⟩, rfl⟩
      · exact ⟨sameBits.rfl' p, rfl⟩
    · split
      · refine ⟨⟨rfl, rfl⟩, ?_⟩
        simp [neutral_dropEv hf]
      · exact ⟨sameBits.rfl' p, rfl⟩

theorem cancelPieceLoop_av {f : TorEv → Nat} (hf : Neutral f) (g : Geom) (idx : Nat) :
    ∀ (fuel i : Nat) (p : Peer) (evs : List TorEv),
      sameBits p (cancelPieceLoop g idx fuel i p evs).1 ∧
      sumL f (cancelPieceLoop g idx fuel i p evs).2 = sumL f evs := by
  intro fuel
  induction fuel with
  | zero => intro i p evs; exact ⟨sameBits.rfl' p, rfl⟩
  | succ fuel ih =>
    intro i p evs
    simp only [cancelPieceLoop]
    obtain ⟨h1, h2⟩ := cancelChunk_av hf g p (u32 (idx * g.cpp + i)) evs
    obtain ⟨h3, h4⟩ := ih (i+1) (cancelChunk g p (u32 (idx * g.cpp + i)) evs).1 (cancelChunk g p (u32 (idx * g.cpp + i)) evs).2
    exact ⟨h1.trans' h3, by rw [h4, h2]⟩

theorem expireLoop_av {f : TorEv → Nat} (hf : Neutral f) (g : Geom) (to : Nat) :
    ∀ (fuel i : Nat) (p : Peer) (evs : List TorEv) (d : Bool),
      sameBits p (expireLoop g to fuel i p evs d).1 ∧
      sumL f (expireLoop g to fuel i p evs d).2.1 = sumL f evs := by
  intro fuel
  induction fuel with
  | zero => intro i p evs d; exact ⟨sameBits.rfl' p, rfl⟩
  | succ fuel ih =>
    intro i p evs d
    simp only [expireLoop]
    split
    · exact ⟨sameBits.rfl' p, rfl⟩
    · rename_i r hr
      split
      · split
        · rename_i j _
          obtain ⟨h1, h2⟩ := ih i { p with requested := swapRemove p.requested j } (evs ++ [dropEv g r.chunk]) true
          refine ⟨⟨h1.1, h1.2⟩, ?_⟩
          rw [h2]; simp [neutral_dropEv hf]
        · exact ⟨sameBits.rfl' p, rfl⟩
      · split
        · have hw := write_sameBits { p with requested := setN p.requested i { r with canc := true, cage := 0 } }
          obtain ⟨h1, h2⟩ := ih (i+1)
            ({ p with requested := setN p.requested i { r with canc := true, cage := 0 } } : Peer).write.1 evs d
          exact ⟨⟨h1.1.trans hw.1, h1.2.trans hw.2⟩, h2⟩
        · exact ih (i+1) p evs d

/-- every command except PeerMetadataComplete leaves the bitmap alone and emits nothing about availability -/
theorem handlePeerEv_quiet {f : TorEv → Nat} (hf : Neutral f) (g : Geom) (k : Nat) (p : Peer) (e : PeerEv)
    (slow : Bool) (hne : e ≠ .metadata) :
    sameBits p (handlePeerEv g k p e slow).1 ∧ sumL f (handlePeerEv g k p e slow).2.1 = 0 := by
  unfold handlePeerEv
  cases e with
  | request cs =>
    simp only []
    split
    · exact ⟨sameBits.rfl' p, rfl⟩
    · obtain ⟨h1, h2⟩ := enqueueAll_av hf g cs p []
      obtain ⟨h3, h4⟩ := maybeRequest_av hf g slow (enqueueAll g cs p []).1 (enqueueAll g cs p []).2
      exact ⟨h1.trans' h3, by simp only []; rw [h4, h2]; rfl⟩
  | cancel c =>
    simp only []
    split
    · exact ⟨sameBits.rfl' p, rfl⟩
    · obtain ⟨h1, h2⟩ := cancelChunk_av hf g p c []
      exact ⟨h1, by simp only []; rw [h2]; rfl⟩
  | cancelPiece idx =>
    simp only []
    split
    · exact ⟨sameBits.rfl' p, rfl⟩
    · obtain ⟨h1, h2⟩ := cancelPieceLoop_av hf g idx g.cpp 0 p []
      exact ⟨h1, by simp only []; rw [h2]; rfl⟩
  | done => exact ⟨sameBits.rfl' p, rfl⟩
  | metadata => exact absurd rfl hne

end Storrent.Sched

namespace Storrent.Sched

/-! ### bitmaps -/

theorem getB_setN (l : List Bool) (i j : Nat) (v : Bool) :
    getB (setN l i v) j = if i = j ∧ i < l.length then v else getB l j := by
  induction l generalizing i j with
  | nil => simp [setN, getB]
  | cons x xs ih =>
    cases i with
    | zero => cases j <;> simp [setN, getB]
    | succ i =>
      cases j with
      | zero => simp [setN, getB]
      | succ j => simp [setN, getB, ih]

theorem getB_ge (l : List Bool) (i : Nat) (h : l.length ≤ i) : getB l i = false := by
  induction l generalizing i with
  | nil => cases i <;> rfl
  | cons x xs ih =>
    cases i with
    | zero => simp at h
    | succ i => simp [getB]; exact ih i (by simpa using h)

theorem getB_append_one (l : List Bool) (v : Bool) (i : Nat) :
    getB (l ++ [v]) i = if i < l.length then getB l i else if i = l.length then v else false := by
  induction l generalizing i with
  | nil => cases i <;> simp [getB]
  | cons x xs ih =>
    cases i with
    | zero => simp [getB]
    | succ i => simp [getB, ih]

theorem getB_map_range (f : Nat → Bool) (n i : Nat) :
    getB ((List.range n).map f) i = if i < n then f i else false := by
  induction n with
  | zero => simp [getB]
  | succ n ih =>
    rw [List.range_succ, List.map_append, List.map_cons, List.map_nil, getB_append_one, ih]
    simp only [List.length_map, List.length_range]
    by_cases h1 : i < n
    · have : i < n + 1 := by omega
      simp [h1, this]
    · by_cases h2 : i = n
      · subst h2; simp
      · have : ¬ i < n + 1 := by omega
        simp [h1, h2, this]

theorem getB_setBits (n : Nat) (bs : List Nat) (i : Nat) :
    getB (setBits n bs) i = if i < n then bs.contains i else false := by
  unfold setBits; exact getB_map_range _ n i

theorem getB_replicate (n : Nat) (v : Bool) (i : Nat) :
    getB (List.replicate n v) i = if i < n then v else false := by
  induction n generalizing i with
  | zero => simp [getB]
  | succ n ih =>
    cases i with
    | zero => simp [List.replicate_succ, getB]
    | succ i => simp [List.replicate_succ, getB, ih]

theorem cnt_filter_range (p : Nat → Bool) (n i : Nat) :
    cnt i ((List.range n).filter p) = if i < n ∧ p i = true then 1 else 0 := by
  induction n with
  | zero => simp
  | succ n ih =>
    rw [List.range_succ, List.filter_append, cnt_append, ih]
    by_cases hin : i = n
    · subst hin
      by_cases hp : p i = true
      · simp [hp]
      · simp [hp]
    · have hne : ¬ n = i := fun h => hin h.symm
      have e : cnt i (List.filter p [n]) = 0 := by
        by_cases hp : p n = true <;> simp [hp, hne]
      rw [e]
      by_cases h1 : i < n
      · have : i < n + 1 := by omega
        simp [h1, this]
      · have : ¬ i < n + 1 := by omega
        simp [h1, this]

theorem cnt_bitList (bits : List Bool) (i : Nat) : cnt i (bitList bits) = if getB bits i then 1 else 0 := by
  unfold bitList
  rw [cnt_filter_range]
  by_cases h : getB bits i = true
  · have : i < bits.length := by
      rcases Nat.lt_or_ge i bits.length with h1 | h1
      · exact h1
      · rw [getB_ge _ _ h1] at h; cases h
    simp [h, this]
  · simp [h]

end Storrent.Sched

namespace Storrent.Sched

def bitW (p : Peer) (i : Nat) : Nat := if getB p.bits i then 1 else 0

/-- well-formed bitmap: nil means empty (the first component is a placeholder: bitmaps grow on demand) -/
def BitsOK (_g : Geom) (p : Peer) : Prop :=
  True ∧ (p.bmNil = true → ∀ j, getB p.bits j = false)

theorem getB_append_false (l : List Bool) (n j : Nat) : getB (l ++ List.replicate n false) j = getB l j := by
  induction l generalizing j with
  | nil =>
    simp only [List.nil_append]
    rw [getB_replicate]; split <;> cases j <;> rfl
  | cons x xs ih =>
    cases j with
    | zero => rfl
    | succ j => simp [getB, ih]

theorem getB_setBit_true (bits : List Bool) (x j : Nat) :
    getB (setBit bits x true) j = (decide (x = j) || getB bits j) := by
  unfold setBit
  simp only [if_true]
  rw [getB_setN, getB_append_false]
  by_cases h : x = j
  · subst h
    simp
    exact Or.inl (by omega)
  · simp [h]

theorem getB_setBit_false (bits : List Bool) (x j : Nat) :
    getB (setBit bits x false) j = (!decide (x = j) && getB bits j) := by
  unfold setBit
  simp only [Bool.false_eq_true, if_false]
  rw [getB_setN]
  by_cases h : x = j
  · subst h
    by_cases hl : x < bits.length
    · simp [hl]
    · simp [hl, getB_ge bits x (by omega)]
  · simp [h]

theorem sameBits_bitW {p q : Peer} (h : sameBits p q) (i : Nat) : bitW q i = bitW p i := by
  unfold bitW; rw [h.1]
theorem sameBits_ok {g : Geom} {p q : Peer} (h : sameBits p q) (hp : BitsOK g p) : BitsOK g q := by
  unfold BitsOK; rw [h.1, h.2]; exact hp

theorem retract_minus (k : Nat) (p : Peer) (hp : p.bmNil = true → ∀ j, getB p.bits j = false) (i : Nat) :
    sumL (evMinus i) (retract k p) = bitW p i ∧ sumL (evPlus i) (retract k p) = 0 := by
  unfold retract bitW
  cases h : p.bmNil with
  | true => simp [hp h i]
  | false => simp [evMinus, evPlus, cnt_bitList]

/-- every bitmap-changing handler reports exactly old-bitmap-retracted / new-bitmap-announced -/
theorem handleMsg_av (g : Geom) (pieces : List PieceSt) (k : Nat) (p : Peer) (m : Msg) (slow : Bool) (i : Nat)
    (hp : BitsOK g p) :
    bitW (handleMsg g pieces k p m slow).1 i + sumL (evMinus i) (handleMsg g pieces k p m slow).2.1
      = bitW p i + sumL (evPlus i) (handleMsg g pieces k p m slow).2.1 ∧
    BitsOK g (handleMsg g pieces k p m slow).1 := by
  obtain ⟨hlen, hnil⟩ := hp
  have hr := retract_minus k p hnil i
  cases m with
  | bad => exact ⟨rfl, hlen, hnil⟩
  | choke =>
    simp only [handleMsg]
    have hd : ∀ (l : List Nat), sumL (evMinus i) (l.map (dropEv g)) = 0 ∧ sumL (evPlus i) (l.map (dropEv g)) = 0 := by
      intro l; induction l with
      | nil => exact ⟨rfl, rfl⟩
      | cons c cs ih => simp [ih, dropEv, evMinus, evPlus]
    split
    · exact ⟨by simp [hd, evMinus, evPlus, bitW], hlen, hnil⟩
    · exact ⟨by simp [hd, evMinus, evPlus, bitW], hlen, hnil⟩
  | unchoke =>
    refine ⟨?_, hlen, hnil⟩
    simp only [handleMsg, sumL_cons, sumL_nil, evMinus, evPlus]
    rfl
  | haveMsg x =>
    simp only [handleMsg]
    split
    · exact ⟨by simp, hlen, hnil⟩
    · split
      · rename_i hb
        have hb' : getB p.bits x = false := by simpa using hb
        refine ⟨?_, trivial, by simp⟩
        simp only [bitW, getB_setBit_true, sumL_cons, sumL_nil, evMinus, evPlus]
        by_cases hxi : x = i
        · subst hxi; simp [hb']
        · simp [hxi]
      · exact ⟨by simp, hlen, hnil⟩
  | bitfield bs =>
    simp only [handleMsg]
    split
    · exact ⟨by simp, hlen, hnil⟩
    · refine ⟨?_, trivial, by simp⟩
      simp only [sumL_append, sumL_cons, sumL_nil, hr.1, hr.2, evMinus, evPlus, cnt_bitList, bitW]
      omega
  | haveAll =>
    simp only [handleMsg]
    split
    · exact ⟨by simp, hlen, hnil⟩
    · split
      · refine ⟨?_, trivial, by simp⟩
        simp only [sumL_append, sumL_cons, sumL_nil, hr.1, hr.2, evMinus, evPlus, cnt_bitList, bitW]
        omega
      · refine ⟨?_, trivial, fun _ j => by cases j <;> rfl⟩
        have : ∀ j, getB ([] : List Bool) j = false := fun j => by cases j <;> rfl
        simp only [hr.1, hr.2, bitW, this]
        simp
  | haveNone =>
    simp only [handleMsg]
    split
    · exact ⟨by simp, hlen, hnil⟩
    · refine ⟨?_, trivial, fun _ j => by cases j <;> rfl⟩
      have : ∀ j, getB ([] : List Bool) j = false := fun j => by cases j <;> rfl
      simp only [hr.1, hr.2, bitW, this]
      simp
  | dontHave x =>
    simp only [handleMsg]
    split
    · exact ⟨by simp, hlen, hnil⟩
    · split
      · exact ⟨by simp [bitW], hlen, hnil⟩
      · split
        · rename_i hb
          refine ⟨?_, trivial, ?_⟩
          · simp only [bitW, getB_setBit_false, sumL_cons, sumL_nil, evMinus, evPlus]
            by_cases hxi : x = i
            · subst hxi; simp [hb]
            · simp [hxi]
          · intro hn; rw [hnil hn x] at hb; cases hb
        · exact ⟨by simp [bitW], hlen, hnil⟩
  | allowedFast x =>
    simp only [handleMsg]
    split
    · exact ⟨by simp, hlen, hnil⟩
    · split
      · exact ⟨by simp, hlen, hnil⟩
      · exact ⟨by simp [bitW], hlen, hnil⟩
  | reject idx begin =>
    simp only [handleMsg]
    split
    · exact ⟨by simp, hlen, hnil⟩
    · split
      · rename_i p1 hp1
        have hsb : sameBits p p1 := by
          unfold delRequested at hp1
          split at hp1
          · cases hp1
          · split at hp1
            · simp at hp1; subst hp1; exact ⟨rfl, rfl⟩
            · cases hp1
        obtain ⟨h1, h2⟩ := maybeRequest_av (neutral_minus i) g slow p1 [dropEv g (toChunk g idx begin)]
        obtain ⟨_, h3⟩ := maybeRequest_av (neutral_plus i) g slow p1 [dropEv g (toChunk g idx begin)]
        have hs := hsb.trans' h1
        refine ⟨?_, sameBits_ok hs ⟨hlen, hnil⟩⟩
        simp only []
        rw [h2, h3, sameBits_bitW hs]
        simp [dropEv, evMinus, evPlus]
      · obtain ⟨h1, h2⟩ := maybeRequest_av (neutral_minus i) g slow p []
        obtain ⟨_, h3⟩ := maybeRequest_av (neutral_plus i) g slow p []
        refine ⟨?_, sameBits_ok h1 ⟨hlen, hnil⟩⟩
        simp only []
        rw [h2, h3, sameBits_bitW h1]
        simp
  | piece idx begin len =>
    simp only [handleMsg]
    split
    · exact ⟨by simp, hlen, hnil⟩
    · split
      · obtain ⟨h1, h2⟩ := maybeRequest_av (neutral_minus i) g slow p []
        obtain ⟨_, h3⟩ := maybeRequest_av (neutral_plus i) g slow p []
        refine ⟨?_, sameBits_ok h1 ⟨hlen, hnil⟩⟩
        simp only []
        rw [h2, h3, sameBits_bitW h1]
        simp
      · rename_i p1 r hp1
        have hsb : sameBits p p1 := by
          unfold delReq at hp1
          split at hp1
          · cases hp1
          · split at hp1
            · simp at hp1; obtain ⟨h, _⟩ := hp1; subst h; exact ⟨rfl, rfl⟩
            · split at hp1
              · simp at hp1; obtain ⟨h, _⟩ := hp1; subst h; exact ⟨rfl, rfl⟩
              · cases hp1
        split
        · exact ⟨by simp, hlen, hnil⟩
        · split
          · rename_i pc _ _
            obtain ⟨h1, h2⟩ := maybeRequest_av (neutral_minus i) g slow p1
              [.data (some k) idx begin len (addData g pc idx begin len).2.1]
            obtain ⟨_, h3⟩ := maybeRequest_av (neutral_plus i) g slow p1
              [.data (some k) idx begin len (addData g pc idx begin len).2.1]
            have hs := hsb.trans' h1
            refine ⟨?_, sameBits_ok hs ⟨hlen, hnil⟩⟩
            simp only []
            rw [h2, h3, sameBits_bitW hs]
            simp [evMinus, evPlus]
          · obtain ⟨h1, h2⟩ := maybeRequest_av (neutral_minus i) g slow p1 [dropEv g (toChunk g idx begin)]
            obtain ⟨_, h3⟩ := maybeRequest_av (neutral_plus i) g slow p1 [dropEv g (toChunk g idx begin)]
            have hs := hsb.trans' h1
            refine ⟨?_, sameBits_ok hs ⟨hlen, hnil⟩⟩
            simp only []
            rw [h2, h3, sameBits_bitW hs]
            simp [dropEv, evMinus, evPlus]

/-- the exit path retracts exactly the final bitmap -/
theorem exitEvents_av (g : Geom) (k : Nat) (p : Peer) (i : Nat) :
    sumL (evMinus i) (exitEvents g k p) = bitW p i ∧ sumL (evPlus i) (exitEvents g k p) = 0 := by
  have hd : ∀ (l : List Nat), sumL (evMinus i) (l.map (dropEv g)) = 0 ∧ sumL (evPlus i) (l.map (dropEv g)) = 0 := by
    intro l; induction l with
    | nil => exact ⟨rfl, rfl⟩
    | cons c cs ih => simp [ih, dropEv, evMinus, evPlus]
  unfold exitEvents
  simp [hd, evMinus, evPlus, cnt_bitList, bitW]

end Storrent.Sched

namespace Storrent.Sched

/-- PeerMetadataComplete for a peer that said HaveAll before the metadata was known: its (necessarily
    nil, hence empty) bitmap is filled and announced — once. -/
theorem handlePeerEv_av (g : Geom) (k : Nat) (p : Peer) (e : PeerEv) (slow : Bool) (i : Nat) (hp : BitsOK g p) :
    bitW (handlePeerEv g k p e slow).1 i + sumL (evMinus i) (handlePeerEv g k p e slow).2.1
      = bitW p i + sumL (evPlus i) (handlePeerEv g k p e slow).2.1 ∧
    BitsOK g (handlePeerEv g k p e slow).1 := by
  by_cases hne : e = .metadata
  · subst hne
    obtain ⟨_, hnil⟩ := hp
    unfold handlePeerEv
    simp only []
    split
    · exact ⟨rfl, trivial, hnil⟩
    · split
      · split
        · exact ⟨rfl, trivial, hnil⟩
        · rename_i hb
          have hb' : p.bmNil = true := by simpa using hb
          refine ⟨?_, trivial, by simp⟩
          simp only [bitW, hnil hb' i, sumL_cons, sumL_nil, evMinus, evPlus, cnt_bitList]
          simp
      · split
        · exact ⟨rfl, trivial, hnil⟩
        · exact ⟨rfl, trivial, hnil⟩
  · obtain ⟨h1, h2⟩ := handlePeerEv_quiet (neutral_plus i) g k p e slow hne
    obtain ⟨_, h3⟩ := handlePeerEv_quiet (neutral_minus i) g k p e slow hne
    exact ⟨by rw [h2, h3, sameBits_bitW h1], sameBits_ok h1 hp⟩

/-! ### the global availability invariant -/

theorem emitAll_sum (f : TorEv → Nat) (tcap : Nat) :
    ∀ (es te ov : List TorEv),
      sumL f (emitAll tcap te ov es).1 + sumL f (emitAll tcap te ov es).2 = sumL f te + sumL f ov + sumL f es := by
  intro es
  induction es with
  | nil => intro te ov; simp [emitAll]
  | cons e es ih =>
    intro te ov
    simp only [emitAll]
    rw [ih]
    unfold emit1
    split <;> simp <;> omega

theorem flushLoop_sum (f : TorEv → Nat) (tcap : Nat) :
    ∀ (fuel : Nat) (te ov : List TorEv),
      sumL f (flushLoop tcap fuel te ov).1 + sumL f (flushLoop tcap fuel te ov).2 = sumL f te + sumL f ov := by
  intro fuel
  induction fuel with
  | zero => intro te ov; rfl
  | succ fuel ih =>
    intro te ov
    simp only [flushLoop]
    split
    · rfl
    · split
      · rw [ih]; simp; omega
      · rfl

/-- total weight of the events in transit (t.Event and every overflow list) -/
def transit (f : TorEv → Nat) (s : State) : Nat :=
  sumL f s.tEvent + sumL (fun p => sumL f p.overflow) s.peers

theorem plusT_eq (s : State) (i : Nat) : plusT s i = transit (evPlus i) s := rfl
theorem minusT_eq (s : State) (i : Nat) : minusT s i = transit (evMinus i) s := rfl

def bitSum (s : State) (i : Nat) : Nat := sumL (fun p => bitW p i) s.peers

structure AWF (s : State) : Prop where
  bits : ∀ p ∈ s.peers, BitsOK s.g p
  dead : ∀ p ∈ s.peers, p.alive = false → ∀ j, getB p.bits j = false

def AConserved (s : State) : Prop :=
  s.aunder = false → s.sat = false →
    ∀ i, getN s.avail i + transit (evPlus i) s = bitSum s i + transit (evMinus i) s

def AInv (s : State) : Prop := AWF s ∧ AConserved s

theorem transit_commit (f : TorEv → Nat) (s : State) (k : Nat) (evq : List PeerEv) (al : Bool) (p' : Peer)
    (evs : List TorEv) (p0 : Peer) (h : s.peers[k]? = some p0) :
    transit f (commitPeer s k p0.overflow evq al p' evs) = transit f s + sumL f evs := by
  unfold transit commitPeer
  simp only []
  have h1 := sumL_setN (fun p => sumL f p.overflow) s.peers k p0
    { p' with overflow := (emitAll s.tcap s.tEvent p0.overflow evs).2, evq := evq, alive := al } h
  have h2 := emitAll_sum f s.tcap evs s.tEvent p0.overflow
  simp only [] at h1
  omega

theorem ainv_commitPeer (s : State) (hI : AInv s) (k : Nat) (p0 : Peer) (h : s.peers[k]? = some p0)
    (evq : List PeerEv) (al : Bool) (p' : Peer) (evs : List TorEv)
    (hloc : ∀ i, bitW p' i + sumL (evMinus i) evs = bitW p0 i + sumL (evPlus i) evs)
    (hok : BitsOK s.g p') (hdead : al = false → ∀ j, getB p'.bits j = false) :
    AInv (commitPeer s k p0.overflow evq al p' evs) := by
  obtain ⟨hW, hC⟩ := hI
  refine ⟨⟨?_, ?_⟩, ?_⟩
  · intro p hp
    rcases mem_setN _ _ _ _ hp with rfl | hp
    · exact hok
    · exact hW.bits p hp
  · intro p hp ha
    rcases mem_setN _ _ _ _ hp with rfl | hp
    · exact hdead ha
    · exact hW.dead p hp ha
  · intro ha hs i
    have h1 := transit_commit (evPlus i) s k evq al p' evs p0 h
    have h2 := transit_commit (evMinus i) s k evq al p' evs p0 h
    have h3 := hC ha hs i
    have h4 : sumL (fun p => bitW p i) (setN s.peers k
        { p' with overflow := (emitAll s.tcap s.tEvent p0.overflow evs).2, evq := evq, alive := al }) + bitW p0 i
        = sumL (fun p => bitW p i) s.peers + bitW p' i :=
      sumL_setN (fun p => bitW p i) s.peers k p0
        { p' with overflow := (emitAll s.tcap s.tEvent p0.overflow evs).2, evq := evq, alive := al } h
    have h5 := hloc i
    rw [h1, h2]
    show getN s.avail i + _ = sumL (fun p => bitW p i) (setN s.peers k _) + _
    unfold bitSum at h3
    omega

/-- replacing a peer by one with the same bitmap, liveness and overflow list -/
theorem ainv_setPeer (s : State) (hI : AInv s) (k : Nat) (p0 p1 : Peer) (h : s.peers[k]? = some p0)
    (hb : p1.bits = p0.bits) (hn : p1.bmNil = p0.bmNil) (ha : p1.alive = p0.alive) (ho : p1.overflow = p0.overflow) :
    AInv { s with peers := setN s.peers k p1 } := by
  obtain ⟨hW, hC⟩ := hI
  have hp0 := mem_of_get _ _ _ h
  refine ⟨⟨?_, ?_⟩, ?_⟩
  · intro p hp
    rcases mem_setN _ _ _ _ hp with rfl | hp
    · unfold BitsOK; rw [hb, hn]; exact hW.bits p0 hp0
    · exact hW.bits p hp
  · intro p hp hal
    rcases mem_setN _ _ _ _ hp with rfl | hp
    · rw [hb]; exact hW.dead p0 hp0 (by rw [← ha]; exact hal)
    · exact hW.dead p hp hal
  · intro hau hs i
    have h3 := hC hau hs i
    have h4 := sumL_setN (fun p => bitW p i) s.peers k p0 p1 h
    have h5 := sumL_setN (fun p => sumL (evPlus i) p.overflow) s.peers k p0 p1 h
    have h6 := sumL_setN (fun p => sumL (evMinus i) p.overflow) s.peers k p0 p1 h
    have e : bitW p1 i = bitW p0 i := by unfold bitW; rw [hb]
    simp only [ho] at h5 h6
    unfold transit bitSum at h3 ⊢
    simp only [] at h3 ⊢
    omega

/-- what the availability bookkeeping sees of a peer -/
def strip (p : Peer) : List Bool × Bool × Bool × List TorEv := (p.bits, p.bmNil, p.alive, p.overflow)

theorem sumL_map {α β : Type} (f : β → Nat) (h : α → β) (l : List α) :
    sumL (fun x => f (h x)) l = sumL f (l.map h) := by
  induction l with
  | nil => rfl
  | cons x xs ih => simp [ih]

theorem exists_of_strip {l l' : List Peer} (h : l'.map strip = l.map strip) (p' : Peer) (hp' : p' ∈ l') :
    ∃ p ∈ l, strip p = strip p' := by
  have : strip p' ∈ l'.map strip := List.mem_map_of_mem hp'
  rw [h] at this
  obtain ⟨p, hp, e⟩ := List.mem_map.mp this
  exact ⟨p, hp, e⟩

/-- only fields the availability bookkeeping does not look at change -/
theorem ainv_frame (s s' : State) (hI : AInv s) (hg : s'.g = s.g) (hp : s'.peers.map strip = s.peers.map strip)
    (ht : ∀ i, sumL (evPlus i) s'.tEvent = sumL (evPlus i) s.tEvent ∧ sumL (evMinus i) s'.tEvent = sumL (evMinus i) s.tEvent)
    (hav : s'.avail = s.avail) (hau : s'.aunder = s.aunder) (hs : s'.sat = false → s.sat = false) : AInv s' := by
  obtain ⟨hW, hC⟩ := hI
  refine ⟨⟨?_, ?_⟩, ?_⟩
  · intro p' hp'
    obtain ⟨p, hpm, e⟩ := exists_of_strip hp p' hp'
    simp only [strip, Prod.mk.injEq] at e
    unfold BitsOK
    rw [← e.1, ← e.2.1]; exact hW.bits p hpm
  · intro p' hp' hal
    obtain ⟨p, hpm, e⟩ := exists_of_strip hp p' hp'
    simp only [strip, Prod.mk.injEq] at e
    rw [← e.1]; exact hW.dead p hpm (by rw [e.2.2.1]; exact hal)
  · intro h1 h2 i
    have := hC (by rw [← hau]; exact h1) (hs h2) i
    have e1 : ∀ (l : List Peer), sumL (fun p => bitW p i) l = sumL (fun t => if getB t.1 i then 1 else 0) (l.map strip) :=
      fun l => sumL_map (fun (t : List Bool × Bool × Bool × List TorEv) => if getB t.1 i then 1 else 0) strip l
    have e2 : ∀ (f : TorEv → Nat) (l : List Peer), sumL (fun p => sumL f p.overflow) l
        = sumL (fun t => sumL f t.2.2.2) (l.map strip) :=
      fun f l => sumL_map (fun (t : List Bool × Bool × Bool × List TorEv) => sumL f t.2.2.2) strip l
    unfold transit bitSum at this ⊢
    rw [e1, e2, e2, hp, ← e1, ← e2, ← e2, hav, (ht i).1, (ht i).2]; exact this

theorem castCancel_strip (ex : Option Nat) (c : Nat) : ∀ (l : List Peer) (i : Nat),
    (castCancel ex c i l).map strip = l.map strip := by
  intro l
  induction l with
  | nil => intro i; rfl
  | cons p ps ih =>
    intro i
    simp only [castCancel, List.map_cons, ih]
    split <;> rfl

theorem castMeta_strip (l : List Peer) : (castMeta l).map strip = l.map strip := by
  unfold castMeta
  rw [List.map_map]
  apply List.map_congr_left
  intro p _
  simp only [Function.comp]
  split <;> rfl

theorem dataLoop_strip (ex : Option Nat) : ∀ (cs : List Nat) (s : State),
    ∃ inf und pan prs, dataLoop ex cs s = { s with inFlight := inf, under := und, panicked := pan, peers := prs } ∧
      prs.map strip = s.peers.map strip := by
  intro cs
  induction cs with
  | nil => intro s; exact ⟨s.inFlight, s.under, s.panicked, s.peers, rfl, rfl⟩
  | cons c cs ih =>
    intro s
    obtain ⟨inf1, und1, pan1, e1, _, _⟩ := decr_spec s c
    simp only [dataLoop]
    rw [e1]
    simp only []
    split
    · obtain ⟨inf2, und2, pan2, prs2, e2, h2⟩ := ih
        { s with inFlight := inf1, under := und1, panicked := pan1, peers := castCancel ex c 0 s.peers }
      exact ⟨inf2, und2, pan2, prs2, by rw [e2], by rw [h2]; exact castCancel_strip ex c s.peers 0⟩
    · obtain ⟨inf2, und2, pan2, prs2, e2, h2⟩ := ih { s with inFlight := inf1, under := und1, panicked := pan1 }
      exact ⟨inf2, und2, pan2, prs2, by rw [e2], h2⟩

end Storrent.Sched

namespace Storrent.Sched

theorem getN_append_zeros (l : List Nat) (n j : Nat) : getN (l ++ List.replicate n 0) j = getN l j := by
  induction l generalizing j with
  | nil =>
    simp only [List.nil_append]
    have : ∀ (n j : Nat), getN (List.replicate n 0) j = 0 := by
      intro n
      induction n with
      | zero => intro j; cases j <;> rfl
      | succ n ih => intro j; cases j <;> simp [List.replicate_succ, getN, ih]
    rw [this]; cases j <;> rfl
  | cons x xs ih =>
    cases j with
    | zero => rfl
    | succ j => simp [getN, ih]

theorem noteAvail_av (s : State) (i : Nat) (hv : Bool) :
    ∃ av sat au, noteAvail s i hv = { s with avail := av, sat := sat, aunder := au } ∧
      (au = false → sat = false → s.aunder = false ∧ s.sat = false ∧
        ∀ j, getN av j + (if hv then 0 else (if i = j then 1 else 0))
          = getN s.avail j + (if hv then (if i = j then 1 else 0) else 0)) := by
  unfold noteAvail
  simp only []
  have hext : ∃ av, (if s.avail.length ≤ i then s.avail ++ List.replicate (i + 1 - s.avail.length) 0 else s.avail) = av ∧
      i < av.length ∧ ∀ j, getN av j = getN s.avail j := by
    split
    · exact ⟨_, rfl, by simp; omega, fun j => getN_append_zeros _ _ j⟩
    · exact ⟨_, rfl, by omega, fun _ => rfl⟩
  obtain ⟨av, e, hl, hget⟩ := hext
  rw [e]
  cases hv with
  | true =>
    simp only [if_true]
    split
    · exact ⟨_, true, s.aunder, rfl, by simp⟩
    · refine ⟨_, s.sat, s.aunder, rfl, fun h1 h2 => ⟨h1, h2, fun j => ?_⟩⟩
      rw [getN_setN]
      split
      · rename_i h; rw [if_pos h.1, ← hget j, h.1]
      · rename_i h
        have : ¬ i = j := fun hc => h ⟨hc, hl⟩
        rw [if_neg this, hget j]
  | false =>
    simp only [Bool.false_eq_true, if_false]
    split
    · exact ⟨_, s.sat, true, rfl, by simp⟩
    · rename_i hz
      refine ⟨_, s.sat, s.aunder, rfl, fun h1 h2 => ⟨h1, h2, fun j => ?_⟩⟩
      rw [getN_setN]
      split
      · rename_i h; rw [if_pos h.1, ← hget j, ← h.1]; omega
      · rename_i h
        have : ¬ i = j := fun hc => h ⟨hc, hl⟩
        rw [if_neg this, hget j]

theorem noteAvailAll_av (hv : Bool) : ∀ (bits : List Nat) (s : State),
    ∃ av sat au, bits.foldl (fun s i => noteAvail s i hv) s = { s with avail := av, sat := sat, aunder := au } ∧
      (au = false → sat = false → s.aunder = false ∧ s.sat = false ∧
        ∀ j, getN av j + (if hv then 0 else cnt j bits) = getN s.avail j + (if hv then cnt j bits else 0)) := by
  intro bits
  induction bits with
  | nil => intro s; exact ⟨s.avail, s.sat, s.aunder, rfl, fun h1 h2 => ⟨h1, h2, fun j => by cases hv <;> simp⟩⟩
  | cons i is ih =>
    intro s
    obtain ⟨av1, sat1, au1, e1, h1⟩ := noteAvail_av s i hv
    obtain ⟨av2, sat2, au2, e2, h2⟩ := ih (noteAvail s i hv)
    refine ⟨av2, sat2, au2, ?_, ?_⟩
    · simp only [List.foldl_cons]; rw [e2, e1]
    · intro ha hs
      obtain ⟨a1, a2, a3⟩ := h2 ha hs
      rw [e1] at a1 a2 a3
      obtain ⟨b1, b2, b3⟩ := h1 a1 a2
      refine ⟨b1, b2, fun j => ?_⟩
      have := a3 j
      have := b3 j
      simp only [] at *
      cases hv <;> simp at * <;> omega

end Storrent.Sched

namespace Storrent.Sched

theorem map_setN_same {α β : Type} (h : α → β) (l : List α) (i : Nat) (x y : α) (hx : l[i]? = some x)
    (hy : h y = h x) : (setN l i y).map h = l.map h := by
  induction l generalizing i with
  | nil => rfl
  | cons a as ih =>
    cases i with
    | zero => simp at hx; subst hx; simp [setN, hy]
    | succ i => simp at hx; simp [setN, ih i hx]

theorem ainv_handleTorEv (s : State) (hI : AInv s) (e : TorEv) (rest : List TorEv) (h : s.tEvent = e :: rest) :
    AInv (handleTorEv { s with tEvent := rest } e) := by
  have hpop : ∀ (f : TorEv → Nat), sumL f s.tEvent = f e + sumL f rest := by intro f; rw [h]; rfl
  cases e with
  | data src idx begin len c =>
    have ht : ∀ i, sumL (evPlus i) rest = sumL (evPlus i) s.tEvent ∧ sumL (evMinus i) rest = sumL (evMinus i) s.tEvent := by
      intro i; rw [hpop, hpop]; simp [evPlus, evMinus]
    simp only [handleTorEv]
    split
    · exact ainv_frame s _ hI rfl rfl ht rfl rfl id
    · obtain ⟨inf, und, pan, prs, e1, hs⟩ := dataLoop_strip src (covRange s.g idx begin len) { s with tEvent := rest }
      rw [e1]
      exact ainv_frame s _ hI rfl hs ht rfl rfl id
  | drop idx begin len =>
    have ht : ∀ i, sumL (evPlus i) rest = sumL (evPlus i) s.tEvent ∧ sumL (evMinus i) rest = sumL (evMinus i) s.tEvent := by
      intro i; rw [hpop, hpop]; simp [evPlus, evMinus]
    simp only [handleTorEv]
    obtain ⟨inf, und, pan, e1, _, _⟩ := decrAll_spec (covRange s.g idx begin len) { s with tEvent := rest }
    rw [e1]
    exact ainv_frame s _ hI rfl rfl ht rfl rfl id
  | unchoke p b =>
    have ht : ∀ i, sumL (evPlus i) rest = sumL (evPlus i) s.tEvent ∧ sumL (evMinus i) rest = sumL (evMinus i) s.tEvent := by
      intro i; rw [hpop, hpop]; simp [evPlus, evMinus]
    exact ainv_frame s _ hI rfl rfl ht rfl rfl id
  | goaway p =>
    have ht : ∀ i, sumL (evPlus i) rest = sumL (evPlus i) s.tEvent ∧ sumL (evMinus i) rest = sumL (evMinus i) s.tEvent := by
      intro i; rw [hpop, hpop]; simp [evPlus, evMinus]
    simp only [handleTorEv]
    split
    · exact ainv_frame s _ hI rfl rfl ht rfl rfl id
    · rename_i pr hpr
      split
      · exact ainv_frame s _ hI rfl rfl ht rfl rfl id
      · obtain ⟨inf, und, pan, e1, _, _⟩ := decrAll_spec (pr.evq.flatMap reqChunks)
          { s with tEvent := rest, peers := setN s.peers p { pr with present := false, evq := [] } }
        rw [e1]
        exact ainv_frame s _ hI rfl (map_setN_same strip s.peers p pr _ hpr rfl) ht rfl rfl id
  | bitmap p bits hv =>
    simp only [handleTorEv]
    obtain ⟨av, sat, au, e1, hsp⟩ := noteAvailAll_av hv bits { s with tEvent := rest }
    rw [e1]
    obtain ⟨hW, hC⟩ := hI
    refine ⟨⟨hW.bits, hW.dead⟩, ?_⟩
    intro ha hs i
    obtain ⟨a1, a2, a3⟩ := hsp ha hs
    have h3 := hC a1 a2 i
    have h4 := a3 i
    have p1 := hpop (evPlus i)
    have p2 := hpop (evMinus i)
    unfold transit bitSum at h3 ⊢
    simp only [] at h3 h4 ⊢
    rw [p1, p2] at h3
    cases hv <;> simp [evPlus, evMinus] at h3 h4 ⊢ <;> omega
  | phave p idx hv =>
    simp only [handleTorEv]
    obtain ⟨av, sat, au, e1, hsp⟩ := noteAvail_av { s with tEvent := rest } idx hv
    rw [e1]
    obtain ⟨hW, hC⟩ := hI
    refine ⟨⟨hW.bits, hW.dead⟩, ?_⟩
    intro ha hs i
    obtain ⟨a1, a2, a3⟩ := hsp ha hs
    have h3 := hC a1 a2 i
    have h4 := a3 i
    have p1 := hpop (evPlus i)
    have p2 := hpop (evMinus i)
    unfold transit bitSum at h3 ⊢
    simp only [] at h3 h4 ⊢
    rw [p1, p2] at h3
    cases hv <;> simp [evPlus, evMinus] at h3 h4 ⊢ <;> omega

end Storrent.Sched

namespace Storrent.Sched

theorem incr_sat (s : State) (c : Nat) (h : (incr s c).sat = false) : s.sat = false := by
  unfold incr at h
  split at h
  · exact h
  · split at h
    · simp at h
    · exact h

theorem incrAll_sat : ∀ (cs : List Nat) (s : State), (incrAll s cs).sat = false → s.sat = false := by
  intro cs
  induction cs with
  | nil => intro s h; exact h
  | cons c cs ih => intro s h; exact incr_sat s c (ih (incr s c) h)

theorem incrAll_frame (s : State) (cs : List Nat) :
    (incrAll s cs).g = s.g ∧ (incrAll s cs).peers = s.peers ∧ (incrAll s cs).tEvent = s.tEvent ∧
    (incrAll s cs).avail = s.avail ∧ (incrAll s cs).aunder = s.aunder ∧ (incrAll s cs).writers = s.writers := by
  obtain ⟨_, _, _, e, _, _⟩ := incrAll_spec cs s
  rw [e]; exact ⟨rfl, rfl, rfl, rfl, rfl, rfl⟩

theorem ainv_connect (s : State) (hI : AInv s) (p : Peer)
    (hp : p.bits = List.replicate s.g.npieces false ∧ p.overflow = []) :
    AInv { s with peers := s.peers ++ [p] } := by
  obtain ⟨hW, hC⟩ := hI
  obtain ⟨h1, h2⟩ := hp
  have hz : ∀ j, getB p.bits j = false := by intro j; rw [h1, getB_replicate]; split <;> rfl
  refine ⟨⟨?_, ?_⟩, ?_⟩
  · intro q hq
    rcases List.mem_append.mp hq with hq | hq
    · exact hW.bits q hq
    · simp at hq; subst hq; exact ⟨trivial, fun _ => hz⟩
  · intro q hq ha
    rcases List.mem_append.mp hq with hq | hq
    · exact hW.dead q hq ha
    · simp at hq; subst hq; exact hz
  · intro ha hs i
    have := hC ha hs i
    have hb : bitW p i = 0 := by simp [bitW, hz i]
    unfold transit bitSum at this ⊢
    simp only [sumL_append, sumL_cons, sumL_nil, h2, hb]
    omega

theorem ainv_flush (s : State) (hI : AInv s) (k : Nat) (p : Peer) (h : s.peers[k]? = some p) (fuel : Nat) :
    AInv { s with tEvent := (flushLoop s.tcap fuel s.tEvent p.overflow).1,
                  peers := setN s.peers k { p with overflow := (flushLoop s.tcap fuel s.tEvent p.overflow).2 } } := by
  obtain ⟨hW, hC⟩ := hI
  have hp0 := mem_of_get _ _ _ h
  refine ⟨⟨?_, ?_⟩, ?_⟩
  · intro q hq
    rcases mem_setN _ _ _ _ hq with rfl | hq
    · exact hW.bits p hp0
    · exact hW.bits q hq
  · intro q hq ha
    rcases mem_setN _ _ _ _ hq with rfl | hq
    · exact hW.dead p hp0 ha
    · exact hW.dead q hq ha
  · intro ha hs i
    have h3 := hC ha hs i
    have f1 := flushLoop_sum (evPlus i) s.tcap fuel s.tEvent p.overflow
    have f2 := flushLoop_sum (evMinus i) s.tcap fuel s.tEvent p.overflow
    have h4 : sumL (fun q => bitW q i) (setN s.peers k { p with overflow := (flushLoop s.tcap fuel s.tEvent p.overflow).2 })
        + bitW p i = sumL (fun q => bitW q i) s.peers + bitW p i :=
      sumL_setN (fun q => bitW q i) s.peers k p _ h
    have h5 : sumL (fun q => sumL (evPlus i) q.overflow) (setN s.peers k { p with overflow := (flushLoop s.tcap fuel s.tEvent p.overflow).2 })
        + sumL (evPlus i) p.overflow = sumL (fun q => sumL (evPlus i) q.overflow) s.peers
          + sumL (evPlus i) (flushLoop s.tcap fuel s.tEvent p.overflow).2 :=
      sumL_setN (fun q => sumL (evPlus i) q.overflow) s.peers k p _ h
    have h6 : sumL (fun q => sumL (evMinus i) q.overflow) (setN s.peers k { p with overflow := (flushLoop s.tcap fuel s.tEvent p.overflow).2 })
        + sumL (evMinus i) p.overflow = sumL (fun q => sumL (evMinus i) q.overflow) s.peers
          + sumL (evMinus i) (flushLoop s.tcap fuel s.tEvent p.overflow).2 :=
      sumL_setN (fun q => sumL (evMinus i) q.overflow) s.peers k p _ h
    unfold transit bitSum at h3 ⊢
    simp only [] at h3 ⊢
    omega

theorem neutral_append (s : State) (evs : List TorEv)
    (hn : ∀ i, sumL (evPlus i) evs = 0 ∧ sumL (evMinus i) evs = 0) :
    ∀ i, sumL (evPlus i) (s.tEvent ++ evs) = sumL (evPlus i) s.tEvent ∧
      sumL (evMinus i) (s.tEvent ++ evs) = sumL (evMinus i) s.tEvent := by
  intro i; simp [(hn i).1, (hn i).2]

theorem step_ainv (s : State) (op : Op) (hI : AInv s) : AInv (step s op).1 := by
  have hW := hI.1
  have hsame : ∀ i, sumL (evPlus i) s.tEvent = sumL (evPlus i) s.tEvent ∧ sumL (evMinus i) s.tEvent = sumL (evMinus i) s.tEvent :=
    fun _ => ⟨rfl, rfl⟩
  unfold step
  split
  · exact hI
  · cases op with
    | connect fast evcap wcap => exact ainv_connect s hI _ ⟨rfl, rfl⟩
    | request i cs ad =>
      simp only []
      split
      · exact hI
      · rename_i p hp
        split
        · exact hI
        · split
          · exact hI
          · split
            · exact hI
            · split
              · exact hI
              · obtain ⟨f1, f2, f3, f4, f5, _⟩ := incrAll_frame
                  { s with peers := setN s.peers i { p with evq := p.evq ++ [.request cs] } } cs
                refine ainv_frame s _ hI f1 ?_ (fun j => by rw [f3]; exact hsame j) f4 f5 (incrAll_sat cs _)
                rw [f2]; exact map_setN_same strip s.peers i p _ hp rfl
    | push i e =>
      simp only []
      split
      · exact hI
      · rename_i p hp
        split
        · exact hI
        · split
          · exact hI
          · cases e with
            | request cs => exact hI
            | cancel c => exact ainv_setPeer s hI i p _ hp rfl rfl rfl rfl
            | cancelPiece c => exact ainv_setPeer s hI i p _ hp rfl rfl rfl rfl
            | done => exact ainv_setPeer s hI i p _ hp rfl rfl rfl rfl
            | metadata => exact ainv_setPeer s hI i p _ hp rfl rfl rfl rfl
    | peerEvent i slow =>
      simp only []
      split
      · exact hI
      · rename_i p hp
        split
        · exact hI
        · split
          · exact hI
          · rename_i e rest he
            have hbo : BitsOK s.g { p with evq := rest } := hW.bits p (mem_of_get _ _ _ hp)
            refine ainv_commitPeer s hI i p hp rest true _ _ ?_
              (handlePeerEv_av s.g i { p with evq := rest } e slow 0 hbo).2 (by simp)
            intro j
            exact (handlePeerEv_av s.g i { p with evq := rest } e slow j hbo).1
    | peerMsg i m slow =>
      simp only []
      split
      · exact hI
      · rename_i p hp
        split
        · exact hI
        · have hbo := hW.bits p (mem_of_get _ _ _ hp)
          have hI' : AInv { s with pieces := (handleMsg s.g s.pieces i p m slow).2.2.2.1 } :=
            ainv_frame s _ hI rfl rfl hsame rfl rfl id
          refine ainv_commitPeer _ hI' i p hp p.evq true _ _ ?_ (handleMsg_av s.g s.pieces i p m slow 0 hbo).2 (by simp)
          intro j
          exact (handleMsg_av s.g s.pieces i p m slow j hbo).1
    | tick i rto slow =>
      simp only []
      split
      · exact hI
      · rename_i p hp
        split
        · exact hI
        · split
          · exact hI
          · generalize (min rto 5000 + (if p.canFast then 2000 else 0)) = to
            have hbo := hW.bits p (mem_of_get _ _ _ hp)
            have hex := fun (f : TorEv → Nat) (hf : Neutral f) =>
              expireLoop_av hf s.g to (p.requested.length + 1) 0 p [] false
            split
            · have hmr := fun (f : TorEv → Nat) (hf : Neutral f) =>
                maybeRequest_av hf s.g slow (expireLoop s.g to (p.requested.length + 1) 0 p [] false).1
                  (expireLoop s.g to (p.requested.length + 1) 0 p [] false).2.1
              have hsb := (hex _ (neutral_plus 0)).1.trans' (hmr _ (neutral_plus 0)).1
              refine ainv_commitPeer s hI i p hp p.evq true _ _ ?_ (sameBits_ok hsb hbo) (by simp)
              intro j
              rw [(hmr _ (neutral_plus j)).2, (hmr _ (neutral_minus j)).2, (hex _ (neutral_plus j)).2,
                (hex _ (neutral_minus j)).2, sameBits_bitW hsb]
              rfl
            · have hsb := (hex _ (neutral_plus 0)).1
              refine ainv_commitPeer s hI i p hp p.evq true _ _ ?_ (sameBits_ok hsb hbo) (by simp)
              intro j
              dsimp only
              rw [(hex _ (neutral_plus j)).2, (hex _ (neutral_minus j)).2, sameBits_bitW hsb]
              rfl
    | age i d =>
      simp only []
      split
      · exact hI
      · rename_i p hp
        exact ainv_setPeer s hI i p _ hp rfl rfl rfl rfl
    | exit i =>
      simp only []
      split
      · exact hI
      · rename_i p hp
        split
        · exact hI
        · have hz : ∀ j, getB (List.replicate s.g.npieces false) j = false := by
            intro j; rw [getB_replicate]; split <;> rfl
          refine ainv_commitPeer s hI i p hp p.evq false _ _ ?_ ⟨by simp, fun _ => hz⟩ (fun _ => hz)
          intro j
          obtain ⟨a1, a2⟩ := exitEvents_av s.g i p j
          rw [a1, a2]
          simp [bitW, hz j]
    | flush i =>
      simp only []
      split
      · exact hI
      · rename_i p hp
        exact ainv_flush s hI i p hp _
    | torEvent =>
      simp only []
      split
      · exact hI
      · rename_i e rest he
        split
        · exact ainv_frame s _ hI rfl rfl hsame rfl rfl id
        · exact ainv_handleTorEv s hI e rest he
    | wdrain i =>
      simp only []
      split
      · exact hI
      · rename_i p hp
        exact ainv_setPeer s hI i p _ hp rfl rfl rfl rfl
    | wfill i k =>
      simp only []
      split
      · exact hI
      · rename_i p hp
        split
        · exact hI
        · exact ainv_setPeer s hI i p _ hp rfl rfl rfl rfl
    | wsReserve idx =>
      simp only []
      split
      · exact hI
      · split
        · exact hI
        · rename_i o l0 _
          generalize (if l0 > 1048576 then 1048576 else l0) = l
          split
          · exact ainv_frame s _ hI rfl rfl hsame rfl rfl id
          · obtain ⟨f1, f2, f3, f4, f5, _⟩ := incrAll_frame s (wsChunks s.g idx o l)
            exact ainv_frame s _ hI f1 (by rw [f2]) (fun j => by rw [f3]; exact hsame j) f4 f5
              (incrAll_sat _ _)
    | wWrite w n =>
      simp only []
      split
      · exact hI
      · rename_i wr hwr
        split
        · exact hI
        · split
          · exact hI
          · split
            · exact ainv_frame s _ hI rfl rfl hsame rfl rfl id
            · split
              · split
                · exact ainv_frame s _ hI rfl rfl hsame rfl rfl id
                · exact ainv_frame s _ hI rfl rfl
                    (neutral_append s _ (fun j => ⟨by simp [evPlus], by simp [evMinus]⟩)) rfl rfl id
              · exact ainv_frame s _ hI rfl rfl hsame rfl rfl id
    | wClose w =>
      simp only []
      split
      · exact hI
      · rename_i wr hwr
        split
        · exact hI
        · split
          · split
            · exact ainv_frame s _ hI rfl rfl hsame rfl rfl id
            · exact ainv_frame s _ hI rfl rfl
                (neutral_append s _ (fun j => ⟨by simp [evPlus], by simp [evMinus]⟩)) rfl rfl id
          · exact ainv_frame s _ hI rfl rfl hsame rfl rfl id
    | finalise idx =>
      simp only []
      split
      · exact hI
      · split
        · exact ainv_frame s _ hI rfl rfl hsame rfl rfl id
        · exact hI
    | metaComplete =>
      simp only []
      split
      · exact hI
      · split
        · exact ainv_frame s _ hI rfl rfl hsame rfl rfl id
        · exact ainv_frame s _ hI rfl (castMeta_strip s.peers) hsame rfl rfl id

theorem init_ainv (g : Geom) (tcap : Nat) : AInv (init g tcap) := by
  refine ⟨⟨?_, ?_⟩, ?_⟩
  · intro p hp; simp [init] at hp
  · intro p hp; simp [init] at hp
  · intro _ _ i
    simp [init, transit, bitSum, getN]

theorem run_ainv (ops : List Op) : ∀ (s : State), AInv s → AInv (run s ops) := by
  induction ops with
  | nil => intro s h; exact h
  | cons op ops ih => intro s h; exact ih _ (step_ainv s op h)

end Storrent.Sched
