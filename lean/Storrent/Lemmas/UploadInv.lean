import Storrent.Lemmas.Upload
/- The per-peer invariant tying the model's state to the ghost state of the stream oracle,
   and its preservation by every handler (for every write environment, limiter, store). -/
namespace Storrent.Upload
open Storrent Storrent.Wire

/-- contribution of a peer to the number of peers actually unchoked -/
def ind (p : Peer) : Int := if p.live && p.amUnchoking then 1 else 0

structure PInv (p : Peer) (o : OSt) : Prop where
  told : o.told = p.amUnchoking
  sub : Sub p.requested o.pending
  choked : p.amUnchoking = false → p.requested = [] ∧ o.pending = []
  noinfo : p.hasInfo = false → p.requested = []
  len : ∀ r ∈ p.requested, r.l ≤ maxReqLen
  tick : p.live = true → p.requested ≠ [] → p.ticking = true

/-- what a handler must establish -/
structure HOK (p : Peer) (num : Int) (o : OSt) (recv : List Ev) (r : Res) : Prop where
  num : r.num = num - ind p + ind r.p
  inv : ∃ o', scan o (recv ++ r.msgs.map Ev.sent) = some o' ∧ PInv r.p o'
  fast : r.p.canFast = p.canFast

theorem req_eta (r : Req) : (⟨r.i, r.b, r.l⟩ : Req) = r := by cases r; rfl

theorem scan_nil (o : OSt) : scan o [] = some o := rfl

theorem scan_one (o : OSt) (e : Ev) : scan o [e] = scan1 o e := by
  simp only [scan]
  cases scan1 o e <;> rfl

/-- scanning what `reject` queued -/
theorem scan_reject_msgs (fast : Bool) (r : Req) (w : WEnv) (o : OSt) :
    ∃ o', scan o ((reject fast r w).2.1.map Ev.sent) = some o' ∧ o'.told = o.told ∧
      (o'.pending = o.pending ∨ o'.pending = o.pending.erase r) ∧
      (r ∈ o.cancelled → o'.pending = o.pending) := by
  rcases reject_cases fast r w with h | ⟨_, _, h⟩
  · rw [h]; exact ⟨o, rfl, rfl, Or.inl rfl, fun _ => rfl⟩
  · rw [h]
    simp only [List.map_cons, List.map_nil, scan_one, scan1, req_eta]
    by_cases hc : r ∈ o.cancelled
    · refine ⟨{ o with cancelled := o.cancelled.erase r }, ?_, rfl, Or.inl rfl, fun _ => rfl⟩
      simp [hc]
    · refine ⟨{ o with pending := o.pending.erase r }, ?_, rfl, Or.inr rfl, fun h => absurd h hc⟩
      simp [hc]

theorem mkRes_p (p : Peer) (num : Int) (ms : List Msg) (e : Err) (t : String) :
    (mkRes p num ms e t).p = p := rfl
theorem mkRes_num (p : Peer) (num : Int) (ms : List Msg) (e : Err) (t : String) :
    (mkRes p num ms e t).num = num := rfl
theorem mkRes_msgs (p : Peer) (num : Int) (ms : List Msg) (e : Err) (t : String) :
    (mkRes p num ms e t).msgs = ms := rfl

theorem ind_eq_of (p q : Peer) (h1 : q.live = p.live) (h2 : q.amUnchoking = p.amUnchoking) :
    ind q = ind p := by simp [ind, h1, h2]

/-- `startStopUpload` re-establishes the ticker clause whatever it was -/
theorem PInv.startStop {p : Peer} {o : OSt}
    (told : o.told = p.amUnchoking) (sub : Sub p.requested o.pending)
    (choked : p.amUnchoking = false → p.requested = [] ∧ o.pending = [])
    (noinfo : p.hasInfo = false → p.requested = [])
    (len : ∀ r ∈ p.requested, r.l ≤ maxReqLen) : PInv (startStop p) o where
  told := told
  sub := sub
  choked := choked
  noinfo := noinfo
  len := len
  tick := by
    intro _ hne
    simp only [Upload.startStop] at hne ⊢
    cases h : p.requested with
    | nil => exact absurd h hne
    | cons a b => simp

/-! ### Interested, metadata, exit -/

theorem onInterested_ok (p : Peer) (num : Int) (o : OSt) (h : PInv p o) :
    HOK p num o [Ev.recv .interested] (onInterested p num) where
  num := by simp [onInterested, mkRes_num, mkRes_p, ind]
  inv := ⟨o, by simp [onInterested, mkRes_msgs, scan, scan1], ⟨h.told, h.sub, h.choked, h.noinfo, h.len, h.tick⟩⟩
  fast := rfl

theorem onMeta_ok (p : Peer) (num : Int) (o : OSt) (h : PInv p o) :
    HOK p num o [] (onMeta p num) := by
  unfold onMeta
  split
  · exact ⟨by simp [mkRes_num, mkRes_p], ⟨o, rfl, h⟩, rfl⟩
  · exact ⟨by simp [mkRes_num, mkRes_p, ind], ⟨o, rfl,
      ⟨h.told, h.sub, h.choked, (fun hh => by cases hh), h.len, h.tick⟩⟩, rfl⟩

theorem onExit_ok (p : Peer) (num : Int) (o : OSt) (hl : p.live = true) (h : PInv p o) :
    HOK p num o [] (onExit p num) := by
  unfold onExit
  split
  · rename_i hu
    refine ⟨?_, ⟨o, rfl, ⟨h.told, h.sub, h.choked, h.noinfo, h.len, (fun hh => by cases hh)⟩⟩, rfl⟩
    simp [ind, hl, hu]
  · rename_i hu
    refine ⟨?_, ⟨o, rfl, ⟨h.told, h.sub, h.choked, h.noinfo, h.len, (fun hh => by cases hh)⟩⟩, rfl⟩
    simp [mkRes_num, mkRes_p, ind, hu]

/-! ### unchoke -/

structure UOK (p : Peer) (num : Int) (o : OSt) (u : URes) : Prop where
  num : u.num = num - ind p + ind u.p
  inv : ∃ o', scan o (u.msgs.map Ev.sent) = some o' ∧ PInv u.p o'
  fast : u.p.canFast = p.canFast
  live : u.p.live = p.live

theorem unchokeCore_ok (p : Peer) (num : Int) (u : Bool) (w : WEnv) (pre : String) (o : OSt)
    (hl : p.live = true) (h : PInv p o) : UOK p num o (unchokeCore p num u w pre) := by
  unfold unchokeCore
  by_cases hsame : u = p.amUnchoking
  · simp only [hsame, if_true]
    exact ⟨by simp, ⟨o, rfl, h⟩, rfl, rfl⟩
  · simp only [hsame, if_false]
    cases hu : u
    · -- choke
      have hc : p.amUnchoking = true := by
        cases hp : p.amUnchoking
        · rw [hu, hp] at hsame; exact absurd rfl hsame
        · rfl
      simp only [Bool.false_eq_true, if_false]
      rcases hn : w.next with ⟨e, w'⟩
      cases e
      · simp only
        rcases hr : rejectAll p.canFast p.requested w' with ⟨e2, ms, w2⟩
        simp only
        have hrej := rejectAll_rejects p.canFast p.requested w'
        rw [hr] at hrej
        refine ⟨by simp [ind, hl, hc], ⟨⟨false, [], []⟩, ?_, ?_⟩, rfl, rfl⟩
        · simp only [List.map_cons, scan, scan1, Option.bind_some]
          exact scan_rejects_empty ms hrej
        · exact ⟨rfl, Sub.nil _, fun _ => ⟨rfl, rfl⟩, fun _ => rfl,
            (fun r hr => by cases hr), fun _ hh => absurd rfl hh⟩
      · exact ⟨by simp, ⟨o, rfl, h⟩, rfl, rfl⟩
      · exact ⟨by simp, ⟨o, rfl, h⟩, rfl, rfl⟩
    · -- unchoke
      have hc : p.amUnchoking = false := by
        cases hp : p.amUnchoking
        · rfl
        · rw [hu, hp] at hsame; exact absurd rfl hsame
      simp only [if_true]
      rcases hn : w.next with ⟨e, w'⟩
      cases e
      · simp only
        refine ⟨by simp [ind, hl, hc], ⟨{ o with told := true }, ?_, ?_⟩, rfl, rfl⟩
        · simp [scan_one, scan1]
        · exact ⟨rfl, h.sub, (fun hh => by cases hh), h.noinfo, h.len, h.tick⟩
      · exact ⟨by simp, ⟨o, rfl, h⟩, rfl, rfl⟩
      · exact ⟨by simp, ⟨o, rfl, h⟩, rfl, rfl⟩

theorem unchoke_ok (p : Peer) (num : Int) (b : Bool) (w : WEnv) (o : OSt)
    (hl : p.live = true) (h : PInv p o) : UOK p num o (unchoke p num b w) :=
  unchokeCore_ok p num _ w _ o hl h

theorem PInv.set_interested {p : Peer} {o : OSt} (b : Bool) (h : PInv p o) :
    PInv { p with interested := b } o :=
  ⟨h.told, h.sub, h.choked, h.noinfo, h.len, h.tick⟩

theorem onNotInterested_ok (p : Peer) (num : Int) (w : WEnv) (o : OSt)
    (hl : p.live = true) (h : PInv p o) :
    HOK p num o [Ev.recv .notInterested] (onNotInterested p num w) := by
  have hu := unchoke_ok { p with interested := false } num false w o hl (h.set_interested false)
  unfold onNotInterested
  simp only
  refine ⟨?_, ?_, ?_⟩
  · rw [mkRes_num, mkRes_p, hu.num]; simp [ind]
  · rcases hu.inv with ⟨o', h1, h2⟩
    refine ⟨o', ?_, by rw [mkRes_p]; exact h2⟩
    rw [mkRes_msgs]
    simp only [List.cons_append, List.nil_append, scan, scan1, Option.bind_some]
    exact h1
  · rw [mkRes_p, hu.fast]

theorem onPeerUnchoke_ok (p : Peer) (num : Int) (b : Bool) (w : WEnv) (o : OSt)
    (hl : p.live = true) (h : PInv p o) :
    HOK p num o [] (onPeerUnchoke p num b w) := by
  have hu := unchoke_ok p num b w o hl h
  rcases hu.inv with ⟨o', h1, h2⟩
  unfold onPeerUnchoke
  simp only
  split
  · exact ⟨by rw [mkRes_num, mkRes_p, hu.num], ⟨o', by rw [mkRes_msgs]; simpa using h1,
      by rw [mkRes_p]; exact h2⟩, by rw [mkRes_p, hu.fast]⟩
  · split
    · refine ⟨?_, ⟨o', by rw [mkRes_msgs]; simpa using h1, ?_⟩, ?_⟩
      · rw [mkRes_num, mkRes_p, hu.num]; simp [ind, Upload.startStop]
      · rw [mkRes_p]; exact PInv.startStop h2.told h2.sub h2.choked h2.noinfo h2.len
      · rw [mkRes_p]; simp [Upload.startStop, hu.fast]
    · rename_i hnu
      have hc : (unchoke p num b w).p.amUnchoking = false := by
        cases hp : (unchoke p num b w).p.amUnchoking
        · rfl
        · exact absurd hp hnu
      refine ⟨?_, ⟨o', by rw [mkRes_msgs]; simpa using h1, ?_⟩, ?_⟩
      · rw [mkRes_num, mkRes_p, hu.num]; simp [ind]
      · rw [mkRes_p]
        exact ⟨h2.told, h2.sub, h2.choked, h2.noinfo, h2.len,
          fun _ hne => absurd (h2.choked hc).1 hne⟩
      · rw [mkRes_p]; simp [hu.fast]

/-! ### Request -/

theorem scan_cons (o : OSt) (e : Ev) (es : List Ev) :
    scan o (e :: es) = (scan1 o e).bind (fun o' => scan o' es) := rfl

theorem scan1_recv_request (o : OSt) (m : Req) :
    scan1 o (Ev.recv (.request m.i m.b m.l)) =
      some (if o.told then { o with pending := m :: o.pending } else o) := by
  simp [scan1, req_eta]

/-- a request that is answered at once by `reject` (or dropped) and never queued -/
theorem reject_now_ok (p : Peer) (num : Int) (m : Req) (w : WEnv) (o : OSt) (e : Err) (t : String)
    (h : PInv p o) :
    HOK p num o [Ev.recv (.request m.i m.b m.l)] (mkRes p num (reject p.canFast m w).2.1 e t) := by
  refine ⟨by simp [mkRes_num, mkRes_p], ?_, rfl⟩
  rw [mkRes_msgs, mkRes_p]
  simp only [List.cons_append, List.nil_append, scan_cons, scan1_recv_request, Option.bind_some]
  by_cases ht : o.told = true
  · simp only [ht, if_true]
    rcases scan_reject_msgs p.canFast m w { o with pending := m :: o.pending } with
      ⟨o2, h1, h2, h3, _⟩
    simp only [ht] at h1
    refine ⟨o2, h1, ⟨by rw [h2]; exact h.told, ?_, ?_, h.noinfo, h.len, h.tick⟩⟩
    · rcases h3 with h3 | h3
      · rw [h3]; exact h.sub.cons_right m
      · rw [h3]; simp only [List.erase_cons_head]; exact h.sub
    · intro hc
      have := h.told; rw [ht, hc] at this; cases this
  · have htf : o.told = false := by cases hh : o.told <;> simp_all
    simp only [htf, Bool.false_eq_true, if_false]
    rcases scan_reject_msgs p.canFast m w o with ⟨o2, h1, h2, h3, _⟩
    have hc : p.amUnchoking = false := by rw [← h.told]; exact htf
    have hq := h.choked hc
    refine ⟨o2, h1, ⟨by rw [h2]; exact h.told, ?_, ?_, h.noinfo, h.len, h.tick⟩⟩
    · rw [hq.1]; exact Sub.nil _
    · intro _
      refine ⟨hq.1, ?_⟩
      rcases h3 with h3 | h3
      · rw [h3]; exact hq.2
      · rw [h3, hq.2]; rfl

theorem onRequest_ok (st : Store) (p : Peer) (num : Int) (m : Req) (w : WEnv) (o : OSt)
    (h : PInv p o) :
    HOK p num o [Ev.recv (.request m.i m.b m.l)] (onRequest st p num m w) := by
  unfold onRequest
  by_cases hA : (!p.hasInfo || !p.amUnchoking) = true
  · simp only [hA, if_true]
    have := reject_now_ok p num m w o (reject p.canFast m w).1.toErr
      (if (!p.hasInfo) = true then "req-noinfo" else "req-choked") h
    rcases hr : reject p.canFast m w with ⟨e, ms, w'⟩
    rw [hr] at this
    exact this
  · simp only [hA, if_false]
    have hi : p.hasInfo = true := by
      cases hh : p.hasInfo <;> simp_all
    have hu : p.amUnchoking = true := by
      cases hh : p.amUnchoking <;> simp_all
    have ht : o.told = true := by rw [h.told]; exact hu
    by_cases hB : m.l > maxReqLen
    · simp only [hB, if_true]
      have := reject_now_ok p num m w o (reject p.canFast m w).1.toErr "req-toolong" h
      rcases hr : reject p.canFast m w with ⟨e, ms, w'⟩
      rw [hr] at this
      exact this
    · simp only [hB, if_false]
      have hml : m.l ≤ maxReqLen := by omega
      by_cases hR : m.i ≥ st.numPieces
      · -- ErrRange: nothing is queued, nothing is sent; the request stays in the ghost
        simp only [hR, if_true, Bool.false_eq_true, if_false]
        refine ⟨by simp [mkRes_num, mkRes_p], ?_, rfl⟩
        rw [mkRes_msgs, mkRes_p]
        simp only [List.map_nil, List.append_nil, scan_one, scan1_recv_request, ht, if_true]
        exact ⟨_, rfl, ⟨hu.symm, h.sub.cons_right m, (fun hc => by rw [hu] at hc; cases hc),
          h.noinfo, h.len, h.tick⟩⟩
      simp only [hR, if_false]
      -- the part of the invariant that does not depend on how the queue is edited
      have key : ∀ (q : List Req) (o2 : OSt) (ms : List Msg),
          scan { o with pending := m :: o.pending } (ms.map Ev.sent) = some o2 →
          o2.told = o.told → Sub q o2.pending → (∀ x ∈ q, x.l ≤ maxReqLen) →
          HOK p num o [Ev.recv (.request m.i m.b m.l)]
            (mkRes (startStop { p with requested := q }) num ms .none "x") := by
        intro q o2 ms h1 h2 h3 h4
        refine ⟨by simp [mkRes_num, mkRes_p, ind, Upload.startStop], ?_, rfl⟩
        rw [mkRes_msgs, mkRes_p]
        simp only [List.cons_append, List.nil_append, scan_cons, scan1_recv_request,
          Option.bind_some, ht, if_true]
        simp only [ht] at h1
        refine ⟨o2, h1, PInv.startStop (by rw [h2]; exact h.told) h3 ?_ ?_ h4⟩
        · intro hc; rw [hu] at hc; cases hc
        · intro hc; rw [hi] at hc; cases hc
      have retag : ∀ (pp : Peer) (ms : List Msg) (t1 t2 : String) (rv : List Ev),
          HOK p num o rv (mkRes pp num ms .none t1) → HOK p num o rv (mkRes pp num ms .none t2) :=
        fun _ _ _ _ _ hh => ⟨hh.num, hh.inv, hh.fast⟩
      by_cases hC : p.requested.length ≥ reqQ
      · simp only [hC, if_true]
        rcases hq : p.requested with _ | ⟨r, rest⟩
        · simp only
          refine retag _ _ "x" _ _ ?_
          have := key [] { o with pending := m :: o.pending } [] rfl rfl (Sub.nil _)
            (fun x hx => by cases hx)
          rw [hq] at hC; simp [reqQ] at hC
        · simp only
          have hsub : Sub (r :: rest) o.pending := by rw [← hq]; exact h.sub
          have hlen : ∀ x ∈ r :: rest, x.l ≤ maxReqLen := by rw [← hq]; exact h.len
          rcases scan_reject_msgs p.canFast r w { o with pending := m :: o.pending } with
            ⟨o2, h1, h2, h3, _⟩
          have hnil := reject_err_nil p.canFast r w
          rcases hr : reject p.canFast r w with ⟨e, ms, w'⟩
          rw [hr] at h1 hnil
          simp only at h1 hnil
          cases e
          · simp only
            refine retag _ _ "x" _ _ (key (rest ++ [m]) o2 ms h1 h2 ?_ ?_)
            · rcases h3 with h3 | h3
              · rw [h3]; exact hsub.tail.append_cons m
              · rw [h3]; exact hsub.headdrop
            · intro x hx
              rcases List.mem_append.mp hx with hx | hx
              · exact hlen x (by simp [hx])
              · have : x = m := by simpa using hx
                rw [this]; exact hml
          · simp only
            have hms : ms = [] := hnil (by simp)
            subst hms
            refine retag _ _ "x" _ _ (key ((r :: rest) ++ [m]) _ [] rfl rfl (hsub.append_cons m) ?_)
            intro x hx
            rcases List.mem_append.mp hx with hx | hx
            · exact hlen x hx
            · have : x = m := by simpa using hx
              rw [this]; exact hml
          · simp only
            have hms : ms = [] := hnil (by simp)
            subst hms
            refine retag _ _ "x" _ _ (key ((r :: rest) ++ [m]) _ [] rfl rfl (hsub.append_cons m) ?_)
            intro x hx
            rcases List.mem_append.mp hx with hx | hx
            · exact hlen x hx
            · have : x = m := by simpa using hx
              rw [this]; exact hml
      · simp only [hC, if_false]
        refine retag _ _ "x" _ _ (key (p.requested ++ [m]) _ [] rfl rfl (h.sub.append_cons m) ?_)
        intro x hx
        rcases List.mem_append.mp hx with hx | hx
        · exact h.len x hx
        · have : x = m := by simpa using hx
          rw [this]; exact hml

/-! ### Cancel -/

theorem scan1_recv_cancel (o : OSt) (m : Req) :
    scan1 o (Ev.recv (.cancel m.i m.b m.l)) =
      some (if m ∈ o.pending then
        { o with pending := o.pending.erase m, cancelled := m :: o.cancelled } else o) := by
  simp [scan1, req_eta]

theorem onCancel_ok (p : Peer) (num : Int) (m : Req) (w : WEnv) (o : OSt) (h : PInv p o) :
    HOK p num o [Ev.recv (.cancel m.i m.b m.l)] (onCancel p num m w) := by
  unfold onCancel
  by_cases hI : (!p.hasInfo) = true
  · simp only [hI, if_true]
    have hi : p.hasInfo = false := by simpa using hI
    have hq := h.noinfo hi
    refine ⟨by simp [mkRes_num, mkRes_p], ?_, rfl⟩
    rw [mkRes_msgs, mkRes_p]
    simp only [List.map_nil, List.append_nil, scan_one, scan1_recv_cancel]
    refine ⟨_, rfl, ?_⟩
    by_cases hm : m ∈ o.pending
    · simp only [hm, if_true]
      refine ⟨h.told, by rw [hq]; exact Sub.nil _, ?_, h.noinfo, h.len, h.tick⟩
      intro hc
      have := (h.choked hc).2
      rw [this] at hm; cases hm
    · simp only [hm, if_false]; exact h
  · simp only [hI, Bool.false_eq_true, if_false]
    have hi : p.hasInfo = true := by cases hh : p.hasInfo <;> simp_all
    by_cases hm : m ∈ p.requested
    · simp only [hm, if_true]
      have hmp : m ∈ o.pending := h.sub.mem hm
      have hu : p.amUnchoking = true := by
        cases hh : p.amUnchoking
        · have := (h.choked hh).1; rw [this] at hm; cases hm
        · rfl
      rcases scan_reject_msgs p.canFast m w
          { o with pending := o.pending.erase m, cancelled := m :: o.cancelled } with
        ⟨o2, h1, h2, _, h4⟩
      have h4' : o2.pending = o.pending.erase m := h4 (by simp)
      have hnil := reject_err_nil p.canFast m w
      have hsub : Sub (p.requested.erase m) o2.pending := by rw [h4']; exact h.sub.erase_erase m
      have hlen : ∀ x ∈ p.requested.erase m, x.l ≤ maxReqLen :=
        fun x hx => h.len x (List.mem_of_mem_erase hx)
      rcases hr : reject p.canFast m w with ⟨e, ms, w'⟩
      rw [hr] at h1 hnil
      simp only at h1 hnil
      have hscan : scan o ([Ev.recv (.cancel m.i m.b m.l)] ++ ms.map Ev.sent) = some o2 := by
        simp only [List.cons_append, List.nil_append, scan_cons, scan1_recv_cancel, hmp, if_true,
          Option.bind_some]
        exact h1
      have fail : ∀ (e : Err) (t : String), ms = [] →
          HOK p num o [Ev.recv (.cancel m.i m.b m.l)]
            (mkRes { p with requested := p.requested.erase m } num ms e t) := by
        intro e t hms
        refine ⟨by simp [mkRes_num, mkRes_p, ind], ⟨o2, by rw [mkRes_msgs]; exact hscan, ?_⟩, rfl⟩
        rw [mkRes_p]
        refine ⟨by rw [h2]; exact h.told, hsub, ?_, ?_, hlen, ?_⟩
        · intro hc; rw [hu] at hc; cases hc
        · intro hc; rw [hi] at hc; cases hc
        · intro hl hne
          apply h.tick hl
          intro hq; rw [hq] at hne; exact hne rfl
      cases e
      · simp only
        refine ⟨by simp [mkRes_num, mkRes_p, ind, Upload.startStop],
          ⟨o2, by rw [mkRes_msgs]; exact hscan, ?_⟩, rfl⟩
        rw [mkRes_p]
        refine PInv.startStop (by rw [h2]; exact h.told) hsub ?_ ?_ hlen
        · intro hc; rw [hu] at hc; cases hc
        · intro hc; rw [hi] at hc; cases hc
      · simp only; exact fail _ _ (hnil (by simp))
      · simp only; exact fail _ _ (hnil (by simp))
    · simp only [hm, if_false]
      refine ⟨by simp [mkRes_num, mkRes_p, ind, Upload.startStop], ?_, rfl⟩
      rw [mkRes_msgs, mkRes_p]
      simp only [List.map_nil, List.append_nil, scan_one, scan1_recv_cancel]
      refine ⟨_, rfl, ?_⟩
      by_cases hmp : m ∈ o.pending
      · simp only [hmp, if_true]
        refine PInv.startStop h.told (h.sub.erase_right_of_not_mem hm) ?_ h.noinfo h.len
        intro hc
        have := (h.choked hc).2
        rw [this] at hmp; cases hmp
      · simp only [hmp, if_false]
        exact PInv.startStop h.told h.sub h.choked h.noinfo h.len

/-! ### the upload tick -/

theorem HOK.withAlloc {p : Peer} {num : Int} {o : OSt} {rv : List Ev} {x : Res} (a : Nat)
    (h : HOK p num o rv x) : HOK p num o rv { x with alloc := a } := ⟨h.num, h.inv, h.fast⟩

theorem onTick_ok (st : Store) (p : Peer) (num : Int) (cong : Bool) (lim : Nat → Bool) (w : WEnv)
    (o : OSt) (h : PInv p o) : HOK p num o [] (onTick st p num cong lim w) := by
  have idle : ∀ t, HOK p num o [] (mkRes (startStop p) num [] .none t) := by
    intro t
    refine ⟨by simp [mkRes_num, mkRes_p, ind, Upload.startStop], ⟨o, by simp [mkRes_msgs, scan], ?_⟩, rfl⟩
    rw [mkRes_p]; exact PInv.startStop h.told h.sub h.choked h.noinfo h.len
  unfold onTick
  by_cases hU : (!p.amUnchoking) = true
  · simp only [hU, if_true]; exact idle _
  · simp only [hU]
    have hu : p.amUnchoking = true := by cases hh : p.amUnchoking <;> simp_all
    rcases hq : p.requested with _ | ⟨r, rest⟩
    · simp only [Bool.false_eq_true, if_false]; exact idle _
    · simp only [Bool.false_eq_true, if_false]
      by_cases hc : cong = true
      · simp only [hc, if_true]; exact idle _
      · simp only [hc, Bool.false_eq_true, if_false]
        by_cases hL : (!lim r.l) = true
        · simp only [hL, if_true]; exact idle _
        · simp only [hL, Bool.false_eq_true, if_false]
          have hsub : Sub (r :: rest) o.pending := by rw [← hq]; exact h.sub
          have hlen : ∀ x ∈ rest, x.l ≤ maxReqLen :=
            fun x hx => h.len x (by rw [hq]; simp [hx])
          have hi : p.hasInfo = true := by
            cases hh : p.hasInfo
            · have := h.noinfo hh; rw [hq] at this; cases this
            · rfl
          have htold : o.told = true := by rw [h.told]; exact hu
          -- the queue without its head, ticker untouched (error returns)
          have popped : ∀ (o2 : OSt), o2.told = o.told → Sub rest o2.pending →
              PInv { p with requested := rest } o2 := by
            intro o2 h2 h3
            refine ⟨by rw [h2]; exact h.told, h3, ?_, ?_, hlen, ?_⟩
            · intro hcc; rw [hu] at hcc; cases hcc
            · intro hcc; rw [hi] at hcc; cases hcc
            · intro hl _
              apply h.tick hl
              rw [hq]; simp
          have popped' : ∀ (o2 : OSt), o2.told = o.told → Sub rest o2.pending →
              PInv (startStop { p with requested := rest }) o2 := by
            intro o2 h2 h3
            refine PInv.startStop (by rw [h2]; exact h.told) h3 ?_ ?_ hlen
            · intro hcc; rw [hu] at hcc; cases hcc
            · intro hcc; rw [hi] at hcc; cases hcc
          cases hrd : readAt st r.l (offInt64 r.i st.ps r.b) with
          | panic =>
            simp only
            exact ⟨by simp [ind], ⟨o, by simp [scan], popped o rfl hsub.tail⟩, rfl⟩
          | data d =>
            simp only
            by_cases hd : d.length ≠ r.l
            · rw [if_pos hd]
              rcases scan_reject_msgs p.canFast r w o with ⟨o2, h1, h2, h3, _⟩
              have hnil := reject_err_nil p.canFast r w
              have hs2 : Sub rest o2.pending := by
                rcases h3 with h3 | h3
                · rw [h3]; exact hsub.tail
                · rw [h3]; exact hsub.tail_erase
              rcases hr : reject p.canFast r w with ⟨e, ms, w'⟩
              rw [hr] at h1 hnil
              simp only at h1 hnil
              cases e
              · simp only
                refine HOK.withAlloc _ ⟨by simp [mkRes_num, mkRes_p, ind, Upload.startStop],
                  ⟨o2, by rw [mkRes_msgs]; simpa using h1, ?_⟩, rfl⟩
                rw [mkRes_p]; exact popped' o2 h2 hs2
              · simp only
                refine HOK.withAlloc _ ⟨by simp [mkRes_num, mkRes_p, ind],
                  ⟨o2, by rw [mkRes_msgs]; simpa using h1, ?_⟩, rfl⟩
                rw [mkRes_p]; exact popped o2 h2 hs2
              · simp only
                refine HOK.withAlloc _ ⟨by simp [mkRes_num, mkRes_p, ind],
                  ⟨o2, by rw [mkRes_msgs]; simpa using h1, ?_⟩, rfl⟩
                rw [mkRes_p]; exact popped o2 h2 hs2
            · rw [if_neg hd]
              have hdl : d.length = r.l := by
                cases Nat.decEq d.length r.l with
                | isTrue hh => exact hh
                | isFalse hh => exact absurd hh hd
              rcases hn : w.next with ⟨e, w'⟩
              cases e
              · simp only
                refine HOK.withAlloc _ ⟨by simp [mkRes_num, mkRes_p, ind, Upload.startStop],
                  ⟨{ o with pending := o.pending.erase r }, ?_, ?_⟩, rfl⟩
                · rw [mkRes_msgs]
                  simp only [List.nil_append, List.map_cons, List.map_nil, scan_one, scan1, hdl,
                    req_eta, htold, hsub.head_mem, and_self, if_true]
                · rw [mkRes_p]; exact popped' _ rfl hsub.tail_erase
              · simp only
                refine HOK.withAlloc _ ⟨by simp [mkRes_num, mkRes_p, ind, Upload.startStop],
                  ⟨o, by simp [mkRes_msgs, scan], ?_⟩, rfl⟩
                rw [mkRes_p]
                refine PInv.startStop h.told hsub ?_ ?_ (by rw [← hq]; exact h.len)
                · intro hcc; rw [hu] at hcc; cases hcc
                · intro hcc; rw [hi] at hcc; cases hcc
              · simp only
                refine HOK.withAlloc _ ⟨by simp [mkRes_num, mkRes_p, ind],
                  ⟨o, by simp [mkRes_msgs, scan], ?_⟩, rfl⟩
                rw [mkRes_p]; exact popped o rfl hsub.tail

end Storrent.Upload
