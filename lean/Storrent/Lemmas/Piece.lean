import Storrent.Model.Piece
import Storrent.Lemmas.Bitmap
/-
Invariant of the piece store (Model/Piece) and its preservation by every atomic step.
The property theorems of Props/C01.lean and Props/C03.lean are corollaries.
-/
namespace Storrent.Piece
open Storrent Storrent.Bitmap

/-! ### geometry -/

structure Geom.Valid (g : Geom) : Prop where
  ps : 0 < g.ps
  cs : 0 < g.cs

theorem ceil_mul_ge (pl cs : Nat) (h : 0 < cs) : pl ≤ (pl + cs - 1) / cs * cs := by
  have h1 := Nat.div_add_mod (pl + cs - 1) cs
  have h2 := Nat.mod_lt (pl + cs - 1) h
  rw [Nat.mul_comm] at h1
  omega

theorem div_lt_chunks (g : Geom) (hv : g.Valid) (i off : Nat) (h : off < g.pieceLength i) :
    off / g.cs < g.pieceChunks i := by
  unfold Geom.pieceChunks
  rw [Nat.div_lt_iff_lt_mul hv.cs]
  have := ceil_mul_ge (g.pieceLength i) g.cs hv.cs
  omega

theorem pieceLength_pos (g : Geom) (hv : g.Valid) (i : Nat) (h : i < g.numPieces) :
    0 < g.pieceLength i := by
  unfold Geom.numPieces at h
  unfold Geom.pieceLength
  simp only
  have hps := hv.ps
  have h1 : (i + 1) * g.ps ≤ g.length + (g.ps - 1) := (Nat.le_div_iff_mul_le hps).mp h
  rw [Nat.succ_mul] at h1
  have h2 := Nat.div_add_mod g.length g.ps
  have h3 := Nat.mod_lt g.length hps
  by_cases hlt : i < g.length / g.ps
  · simp [hlt, hps]
  · by_cases heq : i = g.length / g.ps
    · have hlt' : ¬ g.length / g.ps < g.length / g.ps := Nat.lt_irrefl _
      simp only [heq, hlt', if_false, if_true]
      rw [← heq, Nat.mul_comm] at h2
      generalize i * g.ps = m at h1 h2
      omega
    · exfalso
      have hgt : g.length / g.ps + 1 ≤ i := by omega
      have h4 : (g.length / g.ps + 1) * g.ps ≤ i * g.ps := Nat.mul_le_mul_right _ hgt
      rw [Nat.succ_mul, Nat.mul_comm] at h4
      omega

theorem pieceLength_le (g : Geom) (i : Nat) (hps : 0 < g.ps) : g.pieceLength i ≤ g.ps := by
  unfold Geom.pieceLength
  simp only
  have := Nat.mod_lt g.length hps
  split
  · omega
  · split <;> omega

/-! ### the invariant -/

/-- what holds of every piece in every reachable state (DESIGN §5 C01 `Inv`) -/
structure PInv (g : Geom) (H : Bytes → Bytes) (Good : Nat → Bytes → Prop) (i : Nat) (p : Piece) :
    Prop where
  /-- complete ⇒ buffer present whose digest is the one it was finalised against, and that
      digest is one the callers may finalise piece `i` against (`Good`) -/
  complete : p.state = .complete → ∃ id d, p.data = some (id, d) ∧ H d = p.vhash ∧ Good i p.vhash
  /-- busy ⇒ the buffer is exactly what the hasher was handed (not modified, not freed) -/
  busy : p.state = .busy → p.data ≠ none ∧ p.hashing = p.data
  idle : p.state ≠ .busy → p.hashing = none
  /-- no buffer ⇒ empty bitmap, incomplete, no contributing peers -/
  nodata : p.data = none → p.bitmap = [] ∧ p.state = .incomplete ∧ p.peers = []
  /-- a buffer always has the full piece length -/
  dlen : ∀ id d, p.data = some (id, d) → d.length = g.pieceLength i
  /-- bits set in the block bitmap are below the block count -/
  bits : ∀ c, get p.bitmap c = true → c < g.pieceChunks i

structure Inv (g : Geom) (H : Bytes → Bytes) (Good : Nat → Bytes → Prop) (s : State) : Prop where
  len : s.pieces.length = g.numPieces
  pieces : ∀ i p, s.pieces[i]? = some p → PInv g H Good i p
  /-- live buffers are fresh-numbered and not freed -/
  live : ∀ (i : Nat) (p : Piece) (id : Nat) (d : Bytes),
    s.pieces[i]? = some p → p.data = some (id, d) → id < s.nextBuf ∧ id ∉ s.freed
  /-- two pieces never share a buffer -/
  distinct : ∀ (i j : Nat) (p q : Piece) (id : Nat) (d e : Bytes),
    s.pieces[i]? = some p → s.pieces[j]? = some q →
    p.data = some (id, d) → q.data = some (id, e) → i = j
  freedLt : ∀ id, id ∈ s.freed → id < s.nextBuf
  /-- no buffer is freed twice -/
  freedNodup : s.freed.Nodup
  /-- `count` = number of pieces holding a buffer -/
  count : s.count = (holding s.pieces : Int)
  /-- net allocation = Σ piece lengths of the pieces holding a buffer -/
  alloc : s.allocated = (held g s : Int)

theorem pinv_empty (g : Geom) (H : Bytes → Bytes) (Good : Nat → Bytes → Prop) (i : Nat) : PInv g H Good i ({} : Piece) :=
  { complete := by intro h; cases h
    busy := by intro h; cases h
    idle := by intro _; rfl
    nodata := by intro _; exact ⟨rfl, rfl, rfl⟩
    dlen := by intro id d h; cases h
    bits := by intro c h; simp at h }

theorem holding_replicate (n : Nat) : holding (List.replicate n ({} : Piece)) = 0 := by
  induction n with
  | zero => rfl
  | succ n ih => simp [holding, List.replicate_succ] at ih ⊢

theorem heldFrom_replicate (g : Geom) (k n : Nat) :
    heldFrom g k (List.replicate n ({} : Piece)) = 0 := by
  induction n generalizing k with
  | zero => rfl
  | succ n ih => simp [heldFrom, List.replicate_succ, ih]

theorem inv_init (g : Geom) (H : Bytes → Bytes) (Good : Nat → Bytes → Prop) : Inv g H Good (init g) := by
  have hget : ∀ (i : Nat) (p : Piece), (init g).pieces[i]? = some p → p = ({} : Piece) := by
    intro i p h
    simp only [init, List.getElem?_replicate] at h
    split at h
    · cases h; rfl
    · cases h
  refine { len := by simp [init], pieces := ?_, live := ?_, distinct := ?_, freedLt := ?_,
           freedNodup := by simp [init], count := ?_, alloc := ?_ }
  · intro i p h; rw [hget i p h]; exact pinv_empty g H Good i
  · intro i p id d h hd; rw [hget i p h] at hd; cases hd
  · intro i j p q id d e h _ hd _; rw [hget i p h] at hd; cases hd
  · intro id h; simp [init] at h
  · simp [init, holding_replicate]
  · simp [init, held, heldFrom_replicate]

/-! ### list bookkeeping under `List.set` -/

theorem getElem?_setP (s : State) (i j : Nat) (p : Piece) :
    (setP s i p).pieces[j]? = if i = j then (if j < s.pieces.length then some p else none)
      else s.pieces[j]? := by
  unfold setP
  simp only [List.getElem?_set]
  by_cases h : i = j
  · subst h; simp
  · simp [h]

theorem holding_set (ps : List Piece) (i : Nat) (p p' : Piece) (h : ps[i]? = some p) :
    holding (ps.set i p') + (if p.data.isSome then 1 else 0) =
      holding ps + (if p'.data.isSome then 1 else 0) := by
  induction ps generalizing i with
  | nil => simp at h
  | cons x xs ih =>
    cases i with
    | zero =>
      simp only [List.getElem?_cons_zero, Option.some.injEq] at h
      subst h
      simp only [List.set_cons_zero, holding, List.countP_cons]
      omega
    | succ i =>
      simp only [List.getElem?_cons_succ] at h
      have := ih i h
      simp only [List.set_cons_succ, holding, List.countP_cons] at this ⊢
      omega

theorem heldFrom_set (g : Geom) (k : Nat) (ps : List Piece) (i : Nat) (p p' : Piece)
    (h : ps[i]? = some p) :
    heldFrom g k (ps.set i p') + (if p.data.isSome then g.pieceLength (k + i) else 0) =
      heldFrom g k ps + (if p'.data.isSome then g.pieceLength (k + i) else 0) := by
  induction ps generalizing i k with
  | nil => simp at h
  | cons x xs ih =>
    cases i with
    | zero =>
      simp only [List.getElem?_cons_zero, Option.some.injEq] at h
      subst h
      simp only [List.set_cons_zero, heldFrom, Nat.add_zero]
      omega
    | succ i =>
      simp only [List.getElem?_cons_succ] at h
      have := ih (k + 1) i h
      simp only [List.set_cons_succ, heldFrom] at this ⊢
      rw [show k + (i + 1) = k + 1 + i by omega]
      omega

/-- the pieces of `setP s i p'` are `p'` at `i` and the old ones elsewhere -/
theorem getElem?_set_cases (ps : List Piece) (i : Nat) (p' : Piece) (hlt : i < ps.length)
    (j : Nat) (q : Piece) (h : (ps.set i p')[j]? = some q) :
    (i = j ∧ p' = q) ∨ (j ≠ i ∧ ps[j]? = some q) := by
  rw [List.getElem?_set] at h
  by_cases hij : i = j
  · subst hij; simp [hlt] at h; exact Or.inl ⟨rfl, h⟩
  · simp [hij] at h; exact Or.inr ⟨fun e => hij e.symm, h⟩

/-- General form: piece `i` is replaced by `p'`, the scalars change as described by the
    hypotheses.  Three instances follow (same buffer / alloc / free). -/
theorem inv_setP_same_buf (g : Geom) (H : Bytes → Bytes) (Good : Nat → Bytes → Prop) (s : State) (i : Nat) (p p' : Piece)
    (hinv : Inv g H Good s) (hp : s.pieces[i]? = some p)
    (hd : p'.data.map Prod.fst = p.data.map Prod.fst)
    (hp' : PInv g H Good i p') : Inv g H Good (setP s i p') := by
  have hlt : i < s.pieces.length := (List.getElem?_eq_some_iff.mp hp).1
  have hsome : p'.data.isSome = p.data.isSome := by
    have := congrArg Option.isSome hd; simpa using this
  have hid : ∀ id d, p'.data = some (id, d) → ∃ e, p.data = some (id, e) := by
    intro id d h
    rw [h] at hd
    cases hpd : p.data with
    | none => rw [hpd] at hd; cases hd
    | some b =>
      rw [hpd] at hd
      simp only [Option.map_some, Option.some.injEq] at hd
      exact ⟨b.2, by rw [hd]⟩
  have hcases := getElem?_set_cases s.pieces i p' hlt
  refine { len := by simp [setP, hinv.len], pieces := ?_, live := ?_, distinct := ?_,
           freedLt := hinv.freedLt, freedNodup := hinv.freedNodup, count := ?_, alloc := ?_ }
  · intro j q h
    rcases hcases j q h with ⟨rfl, rfl⟩ | ⟨_, h'⟩
    · exact hp'
    · exact hinv.pieces j q h'
  · intro j q id d h hq
    rcases hcases j q h with ⟨rfl, rfl⟩ | ⟨_, h'⟩
    · obtain ⟨e, he⟩ := hid id d hq
      exact hinv.live i p id e hp he
    · exact hinv.live j q id d h' hq
  · intro j k q r id d e hq hr hqd hrd
    rcases hcases j q hq with ⟨rfl, rfl⟩ | ⟨_, hq'⟩ <;>
      rcases hcases k r hr with ⟨rfl, rfl⟩ | ⟨_, hr'⟩
    · rfl
    · obtain ⟨d', hd'⟩ := hid id d hqd
      exact hinv.distinct _ _ p r id d' e hp hr' hd' hrd
    · obtain ⟨e', he'⟩ := hid id e hrd
      exact hinv.distinct _ _ q p id d e' hq' hp hqd he'
    · exact hinv.distinct _ _ q r id d e hq' hr' hqd hrd
  · have := holding_set s.pieces i p p' hp
    have hc := hinv.count
    simp only [setP]
    rw [hsome] at this
    omega
  · have := heldFrom_set g 0 s.pieces i p p' hp
    have hc := hinv.alloc
    simp only [setP, held] at hc ⊢
    rw [hsome] at this
    omega

/-- first block of a piece: `alloc.Alloc`, fresh buffer id, `count++` -/
theorem inv_alloc (g : Geom) (H : Bytes → Bytes) (Good : Nat → Bytes → Prop) (s s' : State) (i : Nat) (p p' : Piece)
    (d' : Bytes) (hinv : Inv g H Good s) (hp : s.pieces[i]? = some p) (hnone : p.data = none)
    (hd : p'.data = some (s.nextBuf, d')) (hp' : PInv g H Good i p')
    (hps : s'.pieces = s.pieces.set i p') (hcnt : s'.count = s.count + 1)
    (hal : s'.allocated = s.allocated + g.pieceLength i) (hnb : s'.nextBuf = s.nextBuf + 1)
    (hfr : s'.freed = s.freed) : Inv g H Good s' := by
  have hlt : i < s.pieces.length := (List.getElem?_eq_some_iff.mp hp).1
  have hcases := getElem?_set_cases s.pieces i p' hlt
  rw [← hps] at hcases
  refine { len := by simp [hps, hinv.len], pieces := ?_, live := ?_, distinct := ?_,
           freedLt := ?_, freedNodup := ?_, count := ?_, alloc := ?_ }
  · intro j q h
    rcases hcases j q h with ⟨rfl, rfl⟩ | ⟨_, h'⟩
    · exact hp'
    · exact hinv.pieces j q h'
  · intro j q id d h hq
    rw [hnb, hfr]
    rcases hcases j q h with ⟨rfl, rfl⟩ | ⟨_, h'⟩
    · rw [hd] at hq
      simp only [Option.some.injEq, Prod.mk.injEq] at hq
      rw [← hq.1]
      exact ⟨by omega, fun hm => by have := hinv.freedLt _ hm; omega⟩
    · have := hinv.live j q id d h' hq
      exact ⟨by omega, this.2⟩
  · intro j k q r id d e hq hr hqd hrd
    rcases hcases j q hq with ⟨rfl, rfl⟩ | ⟨_, hq'⟩ <;>
      rcases hcases k r hr with ⟨rfl, rfl⟩ | ⟨_, hr'⟩
    · rfl
    · rw [hd] at hqd
      simp only [Option.some.injEq, Prod.mk.injEq] at hqd
      have := (hinv.live k r id e hr' hrd).1
      omega
    · rw [hd] at hrd
      simp only [Option.some.injEq, Prod.mk.injEq] at hrd
      have := (hinv.live j q id d hq' hqd).1
      omega
    · exact hinv.distinct _ _ q r id d e hq' hr' hqd hrd
  · intro id hm
    rw [hnb]; rw [hfr] at hm
    have := hinv.freedLt id hm; omega
  · rw [hfr]; exact hinv.freedNodup
  · have := holding_set s.pieces i p p' hp
    have hc := hinv.count
    rw [hcnt, hps]
    simp [hnone, hd] at this
    omega
  · have := heldFrom_set g 0 s.pieces i p p' hp
    have hc := hinv.alloc
    simp only [held] at hc ⊢
    rw [hal, hps]
    simp [hnone, hd] at this
    omega

/-- `del`: `alloc.Free`, the id joins `freed`, `count--` -/
theorem inv_free (g : Geom) (H : Bytes → Bytes) (Good : Nat → Bytes → Prop) (s s' : State) (i : Nat) (p p' : Piece)
    (id : Nat) (d : Bytes) (hinv : Inv g H Good s) (hp : s.pieces[i]? = some p)
    (hsome : p.data = some (id, d)) (hd : p'.data = none) (hp' : PInv g H Good i p')
    (hps : s'.pieces = s.pieces.set i p') (hcnt : s'.count = s.count - 1)
    (hal : s'.allocated = s.allocated - d.length) (hnb : s'.nextBuf = s.nextBuf)
    (hfr : s'.freed = id :: s.freed) : Inv g H Good s' := by
  have hlt : i < s.pieces.length := (List.getElem?_eq_some_iff.mp hp).1
  have hcases := getElem?_set_cases s.pieces i p' hlt
  rw [← hps] at hcases
  have hlive := hinv.live i p id d hp hsome
  refine { len := by simp [hps, hinv.len], pieces := ?_, live := ?_, distinct := ?_,
           freedLt := ?_, freedNodup := ?_, count := ?_, alloc := ?_ }
  · intro j q h
    rcases hcases j q h with ⟨rfl, rfl⟩ | ⟨_, h'⟩
    · exact hp'
    · exact hinv.pieces j q h'
  · intro j q id' d' h hq
    rw [hnb, hfr]
    rcases hcases j q h with ⟨rfl, rfl⟩ | ⟨hne, h'⟩
    · rw [hd] at hq; cases hq
    · have := hinv.live j q id' d' h' hq
      refine ⟨this.1, ?_⟩
      intro hm
      rcases List.mem_cons.mp hm with e | e
      · subst e
        exact hne (hinv.distinct _ _ q p id' d' d h' hp hq hsome)
      · exact this.2 e
  · intro j k q r id' d' e hq hr hqd hrd
    rcases hcases j q hq with ⟨rfl, rfl⟩ | ⟨_, hq'⟩ <;>
      rcases hcases k r hr with ⟨rfl, rfl⟩ | ⟨_, hr'⟩
    · rfl
    · rw [hd] at hqd; cases hqd
    · rw [hd] at hrd; cases hrd
    · exact hinv.distinct _ _ q r id' d' e hq' hr' hqd hrd
  · intro id' hm
    rw [hnb]; rw [hfr] at hm
    rcases List.mem_cons.mp hm with e | e
    · subst e; exact hlive.1
    · exact hinv.freedLt id' e
  · rw [hfr]; exact List.nodup_cons.mpr ⟨hlive.2, hinv.freedNodup⟩
  · have := holding_set s.pieces i p p' hp
    have hc := hinv.count
    rw [hcnt, hps]
    simp [hsome, hd] at this
    omega
  · have := heldFrom_set g 0 s.pieces i p p' hp
    have hc := hinv.alloc
    have hl := (hinv.pieces i p hp).dlen id d hsome
    simp only [held] at hc ⊢
    rw [hal, hps]
    simp [hsome, hd] at this
    omega

/-! ### AddData's block loop -/

theorem length_writeAt (d : Bytes) (off : Nat) (blk : Bytes) (h : off ≤ d.length) :
    (writeAt d off blk).length = d.length := by
  unfold writeAt
  simp only [List.length_append, List.length_take, List.length_drop]
  omega

/-- bytes outside `[off, off + blk.length)` are untouched by `copy(dst[off:], src)` -/
theorem getElem?_writeAt_outside (d : Bytes) (off : Nat) (blk : Bytes) (pos : Nat)
    (h : pos < off ∨ off + blk.length ≤ pos) : (writeAt d off blk)[pos]? = d[pos]? := by
  unfold writeAt
  simp only
  by_cases hoff : off ≤ d.length
  · rcases h with h | h
    · rw [List.append_assoc, List.getElem?_append_left (by simp; omega)]
      simp [List.getElem?_take, h]
    · by_cases hpos : pos < d.length
      · have hk : min (d.length - off) blk.length = blk.length := by omega
        rw [hk, List.getElem?_append_right (by simp; omega)]
        simp only [List.length_append, List.length_take, List.getElem?_drop]
        congr 1
        omega
      · have h1 : d[pos]? = none := List.getElem?_eq_none_iff.mpr (by omega)
        rw [h1, List.getElem?_eq_none_iff]
        simp only [List.length_append, List.length_take, List.length_drop]
        omega
  · have h0 : d.length - off = 0 := by omega
    simp only [h0, Nat.zero_min, List.take_zero, List.append_nil, Nat.add_zero]
    rw [List.take_of_length_le (by omega), List.drop_of_length_le (by omega)]
    simp

/-- bytes inside the written range are the block's -/
theorem getElem?_writeAt_inside (d : Bytes) (off : Nat) (blk : Bytes) (k : Nat)
    (hfit : off + blk.length ≤ d.length) (hk : k < blk.length) :
    (writeAt d off blk)[off + k]? = blk[k]? := by
  unfold writeAt
  simp only
  have hm : min (d.length - off) blk.length = blk.length := by omega
  rw [hm, List.take_length, List.append_assoc, List.getElem?_append_right (by simp; omega)]
  simp only [List.length_take]
  rw [show off + k - min off d.length = k by omega, List.getElem?_append_left hk]

/-- What the loop guarantees, stated once for everything downstream.
    `chunks` bounds the bitmap; set bits stay set; bytes of blocks that were already
    present never change; the buffer keeps its length; `count` and `offset` advance in
    lock step and stay within the input and the piece. -/
structure LoopSpec (cs pl chunks : Nat) (inp : Bytes) (offset count : Nat) (d : Bytes) (bm : Bitmap)
    (r : Nat × Bytes × Bitmap × Bool) : Prop where
  len : r.2.1.length = d.length
  bits : ∀ c, get r.2.2.1 c = true → c < chunks
  mono : ∀ c, get bm c = true → get r.2.2.1 c = true
  keep : ∀ pos, get bm (pos / cs) = true → r.2.1[pos]? = d[pos]?
  below : ∀ pos, pos < offset → r.2.1[pos]? = d[pos]?
  cnt_ge : count ≤ r.1
  cnt_le : r.1 ≤ max count inp.length
  adv : offset + (r.1 - count) ≤ pl
  whole : r.1 = count ∨ (offset + (r.1 - count)) % cs = 0 ∨ offset + (r.1 - count) = pl
  /-- bits set by the loop lie in the consumed range -/
  newbits : ∀ c, get r.2.2.1 c = true → get bm c = false →
    offset ≤ c * cs ∧ c * cs < offset + (r.1 - count)

theorem addLoop_spec (cs pl chunks : Nat) (inp : Bytes) (hcs : 0 < cs)
    (hch : ∀ off, off < pl → off / cs < chunks) :
    ∀ fuel offset count d bm added, d.length = pl → offset ≤ pl → offset % cs = 0 →
      (∀ c, get bm c = true → c < chunks) →
      LoopSpec cs pl chunks inp offset count d bm (addLoop cs pl inp fuel offset count d bm added) := by
  intro fuel
  induction fuel with
  | zero =>
    intro offset count d bm added _ hoff _ hb
    unfold addLoop
    exact { len := rfl, bits := hb, mono := fun _ h => h, keep := fun _ _ => rfl,
            below := fun _ _ => rfl, cnt_ge := Nat.le_refl _, cnt_le := by omega,
            adv := by omega, whole := Or.inl rfl,
            newbits := by intro c h1 h2; rw [h1] at h2; cases h2 }
  | succ fuel ih =>
    intro offset count d bm added hd hoff hal hb
    have triv : LoopSpec cs pl chunks inp offset count d bm (count, d, bm, added) :=
      { len := rfl, bits := hb, mono := fun _ h => h, keep := fun _ _ => rfl,
        below := fun _ _ => rfl, cnt_ge := Nat.le_refl _, cnt_le := by omega,
        adv := by omega, whole := Or.inl rfl,
        newbits := by intro c h1 h2; rw [h1] at h2; cases h2 }
    unfold addLoop
    by_cases hc : count < inp.length
    · simp only [hc, if_true]
      by_cases hstop : min (pl - offset) cs = 0 ∨ inp.length < count + min (pl - offset) cs
      · simp only [hstop, if_true]; exact triv
      · simp only [hstop, if_false]
        have hl0 : min (pl - offset) cs ≠ 0 := fun h => hstop (Or.inl h)
        have hfit : count + min (pl - offset) cs ≤ inp.length := by
          have := fun h => hstop (Or.inr h); omega
        have hofflt : offset < pl := by omega
        -- abbreviations
        generalize hl : min (pl - offset) cs = l at hl0 hfit ⊢
        have hlpos : 0 < l := by omega
        have hlle : l ≤ pl - offset := by omega
        have hlcs : l ≤ cs := by omega
        have hblk : ((inp.drop count).take l).length = l := by
          simp only [List.length_take, List.length_drop]; omega
        -- the state after this iteration
        generalize hw : (!(get bm (offset / cs))) = w
        generalize hd' : (if w = true then writeAt d offset ((inp.drop count).take l) else d) = d'
        generalize hbm' : (if w = true then set bm (offset / cs) else bm) = bm'
        have hd'len : d'.length = d.length := by
          subst hd'; split
          · exact length_writeAt _ _ _ (by omega)
          · rfl
        have hbits' : ∀ c, get bm' c = true → c < chunks := by
          intro c h
          subst hbm'
          split at h
          · rw [get_set] at h
            by_cases hcc : offset / cs = c
            · subst hcc; exact hch offset hofflt
            · simp [hcc] at h; exact hb c h
          · exact hb c h
        have hmono' : ∀ c, get bm c = true → get bm' c = true := by
          intro c h
          subst hbm'
          split
          · rw [get_set, h]; simp
          · exact h
        -- position arithmetic: offset is block aligned, so block c = offset/cs covers
        -- [offset, offset + cs)
        have hq : offset / cs * cs = offset := by
          have := Nat.div_add_mod offset cs
          rw [Nat.mul_comm] at this
          omega
        have hkeep' : ∀ pos, get bm (pos / cs) = true → d'[pos]? = d[pos]? := by
          intro pos h
          subst hd'
          split
          · rename_i hwt
            apply getElem?_writeAt_outside
            rw [hblk]
            -- bit offset/cs is clear (w = true), bit pos/cs is set: different blocks
            have hne : pos / cs ≠ offset / cs := by
              intro e
              rw [e] at h
              rw [← hw, h] at hwt
              cases hwt
            by_cases hlt : pos < offset
            · exact Or.inl hlt
            · right
              have h1 : offset / cs ≤ pos / cs := Nat.div_le_div_right (by omega)
              have h2 : offset / cs + 1 ≤ pos / cs := by omega
              have h3 : (offset / cs + 1) * cs ≤ pos / cs * cs := Nat.mul_le_mul_right _ h2
              have h4 := Nat.div_add_mod pos cs
              rw [Nat.mul_comm] at h4
              rw [Nat.succ_mul] at h3
              omega
          · rfl
        have hbelow' : ∀ pos, pos < offset → d'[pos]? = d[pos]? := by
          intro pos h
          subst hd'
          split
          · exact getElem?_writeAt_outside _ _ _ _ (Or.inl h)
          · rfl
        have hnew' : ∀ c, get bm' c = true → get bm c = false → c = offset / cs := by
          intro c h1 h2
          subst hbm'
          split at h1
          · rw [get_set] at h1
            by_cases hcc : offset / cs = c
            · exact hcc.symm
            · simp [hcc] at h1; rw [h1] at h2; cases h2
          · rw [h1] at h2; cases h2
        by_cases hshort : l % cs ≠ 0
        · rw [if_pos hshort]
          -- short (final) block: stop after it; then offset + l = pl
          have hlt : l < cs := by
            rcases Nat.lt_or_ge l cs with h | h
            · exact h
            · have : l = cs := by omega
              rw [this, Nat.mod_self] at hshort; exact absurd rfl hshort
          exact { len := hd'len, bits := hbits', mono := hmono', keep := hkeep',
                  below := hbelow', cnt_ge := by show count ≤ count + l; omega,
                  cnt_le := by show count + l ≤ max count inp.length; omega,
                  adv := by show offset + (count + l - count) ≤ pl; omega,
                  whole := by
                    right; right
                    show offset + (count + l - count) = pl
                    omega,
                  newbits := by
                    intro c h1 h2
                    have := hnew' c h1 h2
                    subst this
                    show offset ≤ offset / cs * cs ∧ offset / cs * cs < offset + (count + l - count)
                    rw [hq]; omega }
        · rw [if_neg hshort]
          have hleq : l = cs := by
            have : l % cs = 0 := by omega
            rcases Nat.lt_or_ge l cs with h | h
            · rw [Nat.mod_eq_of_lt h] at this; omega
            · omega
          have hal' : (offset + l) % cs = 0 := by
            rw [hleq, Nat.add_mod, hal]; simp
          have hrec := ih (offset + l) (count + l) d' bm' (w || added) (by omega) (by omega) hal' hbits'
          generalize addLoop cs pl inp fuel (offset + l) (count + l) d' bm' (w || added) = r at hrec ⊢
          have hcg := hrec.cnt_ge
          have hadv := hrec.adv
          exact { len := by rw [hrec.len, hd'len]
                  bits := hrec.bits
                  mono := fun c h => hrec.mono c (hmono' c h)
                  keep := by
                    intro pos h
                    rw [hrec.keep pos (hmono' _ h), hkeep' pos h]
                  below := by
                    intro pos h
                    rw [hrec.below pos (by omega), hbelow' pos h]
                  cnt_ge := by omega
                  cnt_le := by have := hrec.cnt_le; omega
                  adv := by omega
                  whole := by
                    rcases hrec.whole with h | h | h
                    · right; left
                      rw [h, show offset + (count + l - count) = offset + l by omega]
                      exact hal'
                    · right; left
                      rw [show offset + (r.1 - count) = offset + l + (r.1 - (count + l)) by omega]
                      exact h
                    · right; right; omega
                  newbits := by
                    intro c h1 h2
                    by_cases hb' : get bm' c = true
                    · have := hnew' c hb' h2
                      subst this
                      rw [hq]; omega
                    · have hb'' : get bm' c = false := by
                        cases hg : get bm' c with
                        | false => rfl
                        | true => exact absurd hg hb'
                      have := hrec.newbits c h1 hb''
                      omega }
    · simp only [hc, if_false]; exact triv

end Storrent.Piece
