import Storrent.Model.PeerBitmap
/- Facts about the byte-level bitmap model: `get` after `extend` / `set` / `reset` /
   `setMultiple`, `all`, `range`, `len`.  Byte-level facts are closed by kernel evaluation
   over all 256 byte values. -/
namespace Storrent.PBitmap
open Storrent

theorem bit_zero (k : Nat) : bit 0 k = false := by simp [bit]

set_option maxRecDepth 100000 in
theorem bit_ff_aux : ∀ k : Fin 8, bit 0xFF k.val = true := by decide +kernel

theorem bit_ff {k : Nat} (h : k < 8) : bit 0xFF k = true := bit_ff_aux ⟨k, h⟩

set_option maxRecDepth 100000 in
theorem bit_shl_aux : ∀ (r k : Fin 8), k.val < r.val →
    bit ((0xFF : UInt8) <<< (8 - UInt8.ofNat r.val)) k.val = true := by decide +kernel

theorem bit_shl {r k : Nat} (hr : r < 8) (hk : k < r) :
    bit ((0xFF : UInt8) <<< (8 - UInt8.ofNat r)) k = true :=
  bit_shl_aux ⟨r, hr⟩ ⟨k, by omega⟩ hk

set_option maxRecDepth 100000 in
theorem bit_or_aux : ∀ (n : Fin 256) (k j : Fin 8),
    bit (UInt8.ofNat n.val ||| mask k.val) j.val = (k.val == j.val || bit (UInt8.ofNat n.val) j.val) := by
  decide +kernel

theorem bit_or (v : UInt8) {k j : Nat} (hk : k < 8) (hj : j < 8) :
    bit (v ||| mask k) j = (k == j || bit v j) := by
  have := bit_or_aux ⟨v.toNat, v.toNat_lt⟩ ⟨k, hk⟩ ⟨j, hj⟩
  simpa using this

set_option maxRecDepth 100000 in
theorem bit_andnot_aux : ∀ (n : Fin 256) (k j : Fin 8),
    bit (UInt8.ofNat n.val &&& ~~~ (mask k.val)) j.val = (k.val != j.val && bit (UInt8.ofNat n.val) j.val) := by
  decide +kernel

theorem bit_andnot (v : UInt8) {k j : Nat} (hk : k < 8) (hj : j < 8) :
    bit (v &&& ~~~ (mask k)) j = (k != j && bit v j) := by
  have := bit_andnot_aux ⟨v.toNat, v.toNat_lt⟩ ⟨k, hk⟩ ⟨j, hj⟩
  simpa using this

theorem length_extend (b : Bitmap) (i : Nat) :
    (extend b i).length = max b.length (i / 8 + 1) := by
  unfold extend
  split
  · simp only [List.length_append, List.length_replicate]; omega
  · omega

theorem getElem?_extend (b : Bitmap) (i j : Nat) :
    (extend b i)[j]? = if j < b.length then b[j]? else if j < i / 8 + 1 then some 0 else none := by
  unfold extend
  split
  · rename_i h
    rw [List.getElem?_append]
    split
    · rfl
    · rw [List.getElem?_replicate]
      have : (j - b.length < i / 8 + 1 - b.length) ↔ j < i / 8 + 1 := by omega
      simp only [this]
  · rename_i h
    split
    · rfl
    · rename_i h2
      have : ¬ j < i / 8 + 1 := by omega
      simp only [this, if_false]
      exact List.getElem?_eq_none (by omega)

theorem get_extend (b : Bitmap) (i j : Nat) : get (extend b i) j = get b j := by
  unfold get
  rw [getElem?_extend]
  by_cases h : j / 8 < b.length
  · simp only [h, if_true]
  · have : b[j / 8]? = none := List.getElem?_eq_none (by omega)
    simp only [h, if_false, this]
    by_cases h2 : j / 8 < i / 8 + 1 <;> simp [h2, bit_zero]

theorem get_extendInt (b : Bitmap) (i : Int) (j : Nat) : get (extendInt b i) j = get b j := by
  unfold extendInt; split
  · rfl
  · exact get_extend _ _ _

theorem get_modify (b : Bitmap) (q : Nat) (f : UInt8 → UInt8) (j : Nat) :
    get (b.modify q f) j =
      match b[j / 8]? with
      | none => false
      | some v => bit (if q = j / 8 then f v else v) (j % 8) := by
  unfold get
  rw [List.getElem?_modify]
  cases b[j / 8]? <;> simp

theorem get_eq_of_getElem? {b : Bitmap} {j : Nat} {v : UInt8} (h : b[j / 8]? = some v) :
    get b j = bit v (j % 8) := by
  unfold get; rw [h]

theorem get_eq_false_of_none {b : Bitmap} {j : Nat} (h : b[j / 8]? = none) :
    get b j = false := by
  unfold get; rw [h]

theorem get_set (b : Bitmap) (i j : Nat) : get (set b i) j = (i == j || get b j) := by
  unfold set
  rw [get_modify, ← get_extend b i j]
  have hlen : i / 8 < (extend b i).length := by rw [length_extend]; omega
  cases hb : (extend b i)[j / 8]? with
  | none =>
    simp only
    rw [get_eq_false_of_none hb]
    have : i / 8 ≠ j / 8 := by
      intro e
      rw [← e, List.getElem?_eq_getElem hlen] at hb
      simp at hb
    have : i ≠ j := fun e => this (by rw [e])
    simp [this]
  | some v =>
    simp only
    rw [get_eq_of_getElem? hb]
    by_cases hq : i / 8 = j / 8
    · simp only [hq, if_true]
      rw [bit_or _ (Nat.mod_lt _ (by omega)) (Nat.mod_lt _ (by omega))]
      by_cases e : i = j
      · subst e; simp
      · have : i % 8 ≠ j % 8 := by omega
        rw [beq_false_of_ne this, beq_false_of_ne e]
    · rw [if_neg hq]
      have : i ≠ j := fun e => hq (by rw [e])
      rw [beq_false_of_ne this, Bool.false_or]

theorem get_reset (b : Bitmap) (i j : Nat) : get (reset b i) j = (i != j && get b j) := by
  unfold reset
  split
  · rename_i h
    by_cases e : i = j
    · subst e
      have : b[i / 8]? = none := List.getElem?_eq_none (by omega)
      simp [get, this]
    · simp [e]
  · rename_i h
    rw [get_modify]
    cases hb : b[j / 8]? with
    | none => simp [get_eq_false_of_none hb]
    | some v =>
      simp only
      rw [get_eq_of_getElem? hb]
      by_cases hq : i / 8 = j / 8
      · simp only [hq, if_true]
        rw [bit_andnot _ (Nat.mod_lt _ (by omega)) (Nat.mod_lt _ (by omega))]
        by_cases e : i = j
        · subst e; simp
        · have : i % 8 ≠ j % 8 := by omega
          have h1 : (i % 8 != j % 8) = true := by rw [bne, beq_false_of_ne this]; rfl
          have h2 : (i != j) = true := by rw [bne, beq_false_of_ne e]; rfl
          rw [h1, h2]
      · rw [if_neg hq]
        have : i ≠ j := fun e => hq (by rw [e])
        have h2 : (i != j) = true := by rw [bne, beq_false_of_ne this]; rfl
        rw [h2, Bool.true_and]

theorem mem_range {b : Bitmap} {i : Nat} : i ∈ range b ↔ get b i = true := by
  unfold range
  simp only [List.mem_filter, List.mem_range]
  constructor
  · exact fun h => h.2
  · intro h
    refine ⟨?_, h⟩
    unfold get at h
    cases hb : b[i / 8]? with
    | none => simp [hb] at h
    | some v =>
      have := (List.getElem?_eq_some_iff.1 hb).1
      omega

/-- `All(n)` implies every bit below `n` is set -/
theorem all_get {b : Bitmap} {n : Nat} (h : all b n = true) : ∀ i, i < n → get b i = true := by
  intro i hi
  unfold all at h
  have hn : n ≠ 0 := by omega
  simp only [hn, if_false] at h
  split at h
  · simp at h
  · rename_i hlen
    split at h
    · simp at h
    · rename_i htake
      have htake' : (b.take (n / 8)).all (· == 0xFF) = true := by simpa using htake
      rw [List.all_eq_true] at htake'
      by_cases hq : i / 8 < n / 8
      · have hl : i / 8 < b.length := by omega
        have hm : b[i / 8] ∈ b.take (n / 8) := by
          rw [List.mem_take_iff_getElem]
          exact ⟨i / 8, by omega, rfl⟩
        have := htake' _ hm
        have hv : b[i / 8] = 0xFF := by simpa using this
        unfold get
        rw [List.getElem?_eq_getElem hl, hv]
        exact bit_ff (Nat.mod_lt _ (by omega))
      · have hq' : i / 8 = n / 8 := by omega
        have hr : i % 8 < n % 8 := by omega
        split at h
        · omega
        · unfold get
          rw [hq']
          cases hb : b[n / 8]? with
          | none => simp [hb] at h
          | some v =>
            simp only [hb] at h
            have hv : v = (0xFF : UInt8) <<< (8 - UInt8.ofNat (n % 8)) := by simpa using h
            simp only [hv]
            exact bit_shl (Nat.mod_lt _ (by omega)) hr

end Storrent.PBitmap
