import Storrent.Model.Namespace
/- helper lemmas for Props/C20 (core only) -/
namespace Storrent.NS
open Storrent Storrent.Http

/-! ### Parse ∘ String -/

theorem splitSlash_ne_nil (s : Str) : splitSlash s ≠ [] := by
  induction s with
  | nil => simp [splitSlash]
  | cons c cs ih =>
    unfold splitSlash
    by_cases h : c = 47
    · simp [h]
    · simp only [h, if_false]
      cases hs : splitSlash cs with
      | nil => simp
      | cons a b => simp

theorem splitSlash_single (s : Str) (h : 47 ∉ s) : splitSlash s = [s] := by
  induction s with
  | nil => rfl
  | cons c cs ih =>
    have hc : c ≠ 47 := fun e => h (e ▸ List.mem_cons_self)
    have hcs : 47 ∉ cs := fun m => h (List.mem_cons_of_mem _ m)
    unfold splitSlash
    simp [hc, ih hcs]

theorem splitSlash_append (s rest : Str) (h : 47 ∉ s) :
    splitSlash (s ++ 47 :: rest) = s :: splitSlash rest := by
  induction s with
  | nil =>
    show splitSlash (47 :: rest) = [] :: splitSlash rest
    rw [splitSlash]; simp
  | cons c cs ih =>
    have hc : c ≠ 47 := fun e => h (e ▸ List.mem_cons_self)
    have hcs : 47 ∉ cs := fun m => h (List.mem_cons_of_mem _ m)
    show splitSlash (c :: (cs ++ 47 :: rest)) = (c :: cs) :: splitSlash rest
    rw [splitSlash]
    simp [hc, ih hcs]

theorem compOK_iff (c : Str) : compOK c = true ↔ c ≠ [] ∧ 47 ∉ c := by
  unfold compOK
  cases c with
  | nil => simp
  | cons x xs =>
    simp only [List.isEmpty_cons, Bool.not_false, Bool.true_and, Bool.not_eq_true', ne_eq,
      reduceCtorEq, not_false_eq_true, true_and]
    constructor
    · intro h m
      have := List.contains_iff_mem.mpr m
      rw [h] at this; cases this
    · intro h
      cases hc : (x :: xs).contains 47
      · rfl
      · exact absurd (List.contains_iff_mem.mp hc) h

theorem splitSlash_pstring : ∀ (p : Path), p ≠ [] → (∀ c ∈ p, 47 ∉ c) → splitSlash (pstring p) = p := by
  intro p
  induction p with
  | nil => intro h; exact absurd rfl h
  | cons s t ih =>
    intro _ hc
    cases t with
    | nil => simpa [pstring] using splitSlash_single s (hc s List.mem_cons_self)
    | cons u v =>
      have : pstring (s :: u :: v) = s ++ 47 :: pstring (u :: v) := rfl
      rw [this, splitSlash_append s _ (hc s List.mem_cons_self),
        ih (by simp) (fun c hm => hc c (List.mem_cons_of_mem _ hm))]

theorem dropTrailingEmpty_id : ∀ (p : List Str), (∀ c ∈ p, c ≠ []) → dropTrailingEmpty p = p := by
  intro p
  induction p with
  | nil => intro _; rfl
  | cons s rest ih =>
    intro h
    have hs : s ≠ [] := h s List.mem_cons_self
    have hr := ih (fun c hm => h c (List.mem_cons_of_mem _ hm))
    unfold dropTrailingEmpty
    rw [hr]
    cases rest with
    | nil =>
      have : s.isEmpty = false := by cases s <;> simp_all
      simp [this]
    | cons a b => rfl

theorem parse_pstring (p : Path) (h : ∀ c ∈ p, compOK c = true) : parse (pstring p) = p := by
  cases p with
  | nil => rfl
  | cons s t =>
    have hne : ∀ c ∈ s :: t, c ≠ [] := fun c hm => ((compOK_iff c).mp (h c hm)).1
    have hsl : ∀ c ∈ s :: t, 47 ∉ c := fun c hm => ((compOK_iff c).mp (h c hm)).2
    unfold parse
    rw [splitSlash_pstring (s :: t) (by simp) hsl]
    have hs : s.isEmpty = false := by
      have := hne s List.mem_cons_self
      cases s <;> simp_all
    have : (s :: t).dropWhile (·.isEmpty) = s :: t := by simp [List.dropWhile, hs]
    rw [this]
    exact dropTrailingEmpty_id _ hne

theorem dropTrailingEmpty_last : ∀ (p : List Str), (dropTrailingEmpty p).getLast? ≠ some [] := by
  intro p
  induction p with
  | nil => simp [dropTrailingEmpty]
  | cons s rest ih =>
    unfold dropTrailingEmpty
    cases hr : dropTrailingEmpty rest with
    | nil =>
      simp only
      by_cases hs : s.isEmpty = true
      · simp [hs]
      · simp only [hs]
        intro h
        simp at h
        subst h; simp at hs
    | cons a b =>
      simp only
      rw [hr] at ih
      rw [List.getLast?_cons_cons]
      exact ih

theorem dropTrailingEmpty_head (p : List Str) (h : p.head? ≠ some []) :
    (dropTrailingEmpty p).head? ≠ some [] := by
  cases p with
  | nil => simp [dropTrailingEmpty]
  | cons s rest =>
    unfold dropTrailingEmpty
    have hs : s ≠ [] := by simpa using h
    cases hr : dropTrailingEmpty rest with
    | nil =>
      have : s.isEmpty = false := by cases s <;> simp_all
      simp [this, hs]
    | cons a b => simpa using hs

theorem dropWhile_head (p : List Str) : (p.dropWhile (·.isEmpty)).head? ≠ some [] := by
  induction p with
  | nil => simp
  | cons s rest ih =>
    by_cases hs : s.isEmpty = true
    · simpa [List.dropWhile, hs] using ih
    · simp only [List.dropWhile, hs]
      intro h
      simp at h
      subst h; simp at hs

/-! ### the order on strings and paths -/

theorem ltStr_irrefl : ∀ (a : Str), ltStr a a = false := by
  intro a
  induction a with
  | nil => rfl
  | cons x xs ih => simp [ltStr, ih]

theorem u8_lt_trans {x y z : UInt8} (h1 : x < y) (h2 : y < z) : x < z := by
  rw [UInt8.lt_iff_toNat_lt] at *; omega

theorem u8_eq_of_not_lt {x y : UInt8} (h1 : ¬ x < y) (h2 : ¬ y < x) : x = y := by
  rw [UInt8.lt_iff_toNat_lt] at *
  exact UInt8.toNat_inj.mp (by omega)

theorem u8_lt_asymm {x y : UInt8} (h1 : x < y) : ¬ y < x := by
  rw [UInt8.lt_iff_toNat_lt] at *; omega

theorem ltStr_trans : ∀ (a b c : Str), ltStr a b = true → ltStr b c = true → ltStr a c = true := by
  intro a
  induction a with
  | nil =>
    intro b c h1 h2
    cases b with
    | nil => simp [ltStr] at h1
    | cons y ys => cases c with
      | nil => simp [ltStr] at h2
      | cons z zs => simp [ltStr]
  | cons x xs ih =>
    intro b c h1 h2
    cases b with
    | nil => simp [ltStr] at h1
    | cons y ys =>
      cases c with
      | nil => simp [ltStr] at h2
      | cons z zs =>
        unfold ltStr at h1 h2 ⊢
        by_cases hxy : x < y
        · by_cases hyz : y < z
          · simp [u8_lt_trans hxy hyz]
          · simp only [hyz, if_false] at h2
            by_cases hzy : z < y
            · simp [hzy] at h2
            · have := u8_eq_of_not_lt hyz hzy; subst this; simp [hxy]
        · simp only [hxy, if_false] at h1
          by_cases hyx : y < x
          · simp [hyx] at h1
          · simp only [hyx, if_false] at h1
            have := u8_eq_of_not_lt hxy hyx; subst this
            by_cases hyz : x < z
            · simp [hyz]
            · simp only [hyz, if_false] at h2 ⊢
              by_cases hzy : z < x
              · simp [hzy] at h2
              · simp only [hzy, if_false] at h2 ⊢
                exact ih ys zs h1 h2

theorem ltStr_asymm : ∀ (a b : Str), ltStr a b = true → ltStr b a = false := by
  intro a
  induction a with
  | nil => intro b h; cases b <;> simp [ltStr] at h ⊢
  | cons x xs ih =>
    intro b h
    cases b with
    | nil => simp [ltStr] at h
    | cons y ys =>
      unfold ltStr at h ⊢
      by_cases hxy : x < y
      · simp [u8_lt_asymm hxy, hxy]
      · simp only [hxy, if_false] at h
        by_cases hyx : y < x
        · simp [hyx] at h
        · simp only [hyx, if_false] at h
          simp [hxy, hyx, ih ys h]

theorem ltStr_tri : ∀ (a b : Str), ltStr a b = false → ltStr b a = false → a = b := by
  intro a
  induction a with
  | nil => intro b h1 h2; cases b <;> simp [ltStr] at h1 h2 ⊢
  | cons x xs ih =>
    intro b h1 h2
    cases b with
    | nil => simp [ltStr] at h2
    | cons y ys =>
      unfold ltStr at h1 h2
      by_cases hxy : x < y
      · simp [hxy] at h1
      · simp only [hxy, if_false] at h1 h2
        by_cases hyx : y < x
        · simp [hyx] at h2
        · simp only [hyx, if_false] at h1 h2
          have := u8_eq_of_not_lt hxy hyx; subst this
          rw [ih ys h1 h2]

/-- `a ≤ b` in the sense of `Path.Compare` -/
def le (a b : Path) : Prop := compare a b ≤ 0

theorem le_nil (b : Path) : le [] b := by
  cases b <;> simp [le, compare]

theorem not_le_cons_nil (x : Str) (xs : Path) : ¬ le (x :: xs) [] := by
  simp [le, compare]

theorem le_cons_iff (x y : Str) (xs ys : Path) :
    le (x :: xs) (y :: ys) ↔ ltStr x y = true ∨ (x = y ∧ le xs ys) := by
  unfold le
  rw [compare]
  by_cases h1 : ltStr x y = true
  · simp [h1]
  · have h1' : ltStr x y = false := by simpa using h1
    by_cases h2 : ltStr y x = true
    · have hne : x ≠ y := fun e => by subst e; rw [ltStr_irrefl] at h2; cases h2
      simp [h1', h2, hne]
    · have h2' : ltStr y x = false := by simpa using h2
      have := ltStr_tri x y h1' h2'
      subst this
      simp [h1']

theorem le_refl : ∀ (a : Path), le a a := by
  intro a
  induction a with
  | nil => exact le_nil _
  | cons x xs ih => exact (le_cons_iff _ _ _ _).mpr (Or.inr ⟨rfl, ih⟩)

theorem le_trans : ∀ (a b c : Path), le a b → le b c → le a c := by
  intro a
  induction a with
  | nil => intro b c _ _; exact le_nil _
  | cons x xs ih =>
    intro b c h1 h2
    cases b with
    | nil => exact absurd h1 (not_le_cons_nil _ _)
    | cons y ys =>
      cases c with
      | nil => exact absurd h2 (not_le_cons_nil _ _)
      | cons z zs =>
        rw [le_cons_iff] at h1 h2 ⊢
        rcases h1 with h1 | ⟨rfl, h1⟩
        · rcases h2 with h2 | ⟨rfl, _⟩
          · exact Or.inl (ltStr_trans _ _ _ h1 h2)
          · exact Or.inl h1
        · rcases h2 with h2 | ⟨rfl, h2⟩
          · exact Or.inl h2
          · exact Or.inr ⟨rfl, ih _ _ h1 h2⟩

theorem le_total : ∀ (a b : Path), le a b ∨ le b a := by
  intro a
  induction a with
  | nil => intro b; exact Or.inl (le_nil _)
  | cons x xs ih =>
    intro b
    cases b with
    | nil => exact Or.inr (le_nil _)
    | cons y ys =>
      rw [le_cons_iff, le_cons_iff]
      by_cases h1 : ltStr x y = true
      · exact Or.inl (Or.inl h1)
      · by_cases h2 : ltStr y x = true
        · exact Or.inr (Or.inl h2)
        · have := ltStr_tri x y (by simpa using h1) (by simpa using h2)
          subst this
          rcases ih ys with h | h
          · exact Or.inl (Or.inr ⟨rfl, h⟩)
          · exact Or.inr (Or.inr ⟨rfl, h⟩)

theorem le_antisymm : ∀ (a b : Path), le a b → le b a → a = b := by
  intro a
  induction a with
  | nil =>
    intro b _ h2
    cases b with
    | nil => rfl
    | cons y ys => exact absurd h2 (not_le_cons_nil _ _)
  | cons x xs ih =>
    intro b h1 h2
    cases b with
    | nil => exact absurd h1 (not_le_cons_nil _ _)
    | cons y ys =>
      rw [le_cons_iff] at h1 h2
      rcases h1 with h1 | ⟨rfl, h1⟩
      · rcases h2 with h2 | ⟨rfl, _⟩
        · rw [ltStr_asymm _ _ h1] at h2; cases h2
        · rw [ltStr_irrefl] at h1; cases h1
      · rcases h2 with h2 | ⟨_, h2⟩
        · rw [ltStr_irrefl] at h2; cases h2
        · rw [ih ys h1 h2]

theorem compare_range : ∀ (a b : Path), compare a b = -1 ∨ compare a b = 0 ∨ compare a b = 1 := by
  intro a
  induction a with
  | nil => intro b; cases b <;> simp [compare]
  | cons x xs ih =>
    intro b
    cases b with
    | nil => simp [compare]
    | cons y ys =>
      rw [compare]
      by_cases h1 : ltStr x y = true
      · simp [h1]
      · by_cases h2 : ltStr y x = true
        · simp [h1, h2]
        · simp only [h1, h2, Bool.false_eq_true, if_false]; exact ih ys

theorem compare_antisymm : ∀ (a b : Path), compare a b = - compare b a := by
  intro a
  induction a with
  | nil => intro b; cases b <;> simp [compare]
  | cons x xs ih =>
    intro b
    cases b with
    | nil => simp [compare]
    | cons y ys =>
      rw [compare, compare]
      by_cases h1 : ltStr x y = true
      · simp [h1, ltStr_asymm _ _ h1]
      · by_cases h2 : ltStr y x = true
        · simp [h1, h2]
        · simp only [h1, h2, Bool.false_eq_true, if_false]; exact ih ys

/-! ### sorting -/

theorem mem_insertBy (f x : File) : ∀ (l : List File), x ∈ insertBy f l ↔ x = f ∨ x ∈ l := by
  intro l
  induction l with
  | nil => simp [insertBy]
  | cons g gs ih =>
    unfold insertBy
    by_cases h : compare f.path g.path ≤ 0
    · simp [h]
    · simp only [h, if_false, List.mem_cons, ih]
      constructor
      · rintro (h | h | h) <;> simp [h]
      · rintro (h | h | h) <;> simp [h]

theorem insertBy_perm (f : File) : ∀ (l : List File), (insertBy f l).Perm (f :: l) := by
  intro l
  induction l with
  | nil => simp [insertBy]
  | cons g gs ih =>
    unfold insertBy
    by_cases h : compare f.path g.path ≤ 0
    · simp [h]
    · simp only [h, if_false]
      exact (List.Perm.cons g ih).trans (List.Perm.swap f g gs)

theorem sortFiles_perm : ∀ (l : List File), (sortFiles l).Perm l := by
  intro l
  induction l with
  | nil => exact List.Perm.refl _
  | cons f fs ih =>
    unfold sortFiles
    exact (insertBy_perm f _).trans (List.Perm.cons f ih)

theorem insertBy_sorted (f : File) : ∀ (l : List File),
    l.Pairwise (fun a b => le a.path b.path) → (insertBy f l).Pairwise (fun a b => le a.path b.path) := by
  intro l
  induction l with
  | nil => intro _; simp [insertBy]
  | cons g gs ih =>
    intro hs
    have hg := List.pairwise_cons.mp hs
    unfold insertBy
    by_cases h : compare f.path g.path ≤ 0
    · simp only [h, if_true]
      refine List.pairwise_cons.mpr ⟨?_, hs⟩
      intro x hx
      rcases List.mem_cons.mp hx with rfl | hx
      · exact h
      · exact le_trans _ _ _ h (hg.1 x hx)
    · simp only [h, if_false]
      refine List.pairwise_cons.mpr ⟨?_, ih hg.2⟩
      intro x hx
      rcases (mem_insertBy f x gs).mp hx with rfl | hx
      · rcases le_total x.path g.path with h' | h'
        · exact absurd h' h
        · exact h'
      · exact hg.1 x hx

theorem sortFiles_sorted : ∀ (l : List File), (sortFiles l).Pairwise (fun a b => le a.path b.path) := by
  intro l
  induction l with
  | nil => simp [sortFiles]
  | cons f fs ih => unfold sortFiles; exact insertBy_sorted f _ ih

/-! ### within -/

theorem within_iff (p d : Path) : within p d = true ↔ d.length < p.length ∧ d <+: p := by
  unfold within
  simp [List.isPrefixOf_iff_prefix]

theorem within_ne_nil (p d : Path) (h : within p d = true) : p ≠ [] := by
  have := ((within_iff p d).mp h).1
  intro e; subst e; simp at this

end Storrent.NS

namespace Storrent.NS
open Storrent Storrent.Http

/-! ### more on Within, and directory links -/

theorem within_decomp (p d : Path) (h : within p d = true) :
    ∃ r, p = d ++ p.getD d.length [] :: r := by
  obtain ⟨hl, t, ht⟩ := (within_iff p d).mp h
  subst ht
  cases t with
  | nil => simp at hl
  | cons x r =>
    refine ⟨r, ?_⟩
    simp [List.getD_eq_getElem?_getD]

theorem within_exact (p d : Path) (h : within p d = true) (hl : ¬ p.length > d.length + 1) :
    p = d ++ [p.getD d.length []] := by
  obtain ⟨r, hr⟩ := within_decomp p d h
  have : r = [] := by
    have := congrArg List.length hr
    simp at this
    cases r with
    | nil => rfl
    | cons a b => simp at this; omega
  rw [this] at hr; exact hr

theorem within_prefix (p d : Path) (h : within p d = true) : (d ++ [p.getD d.length []]) <+: p := by
  obtain ⟨r, hr⟩ := within_decomp p d h
  exact ⟨r, by rw [List.append_assoc]; exact hr.symm⟩

theorem WFfiles_tail {f : File} {fs : List File} (wf : WFfiles (f :: fs)) : WFfiles fs :=
  ⟨fun g hg => wf.nonempty g (List.mem_cons_of_mem _ hg),
   fun g hg => wf.comps g (List.mem_cons_of_mem _ hg),
   (List.pairwise_cons.mp wf.distinct).2,
   fun g hg k hk => wf.noPrefix g (List.mem_cons_of_mem _ hg) k (List.mem_cons_of_mem _ hk)⟩

theorem splitSlash_pstring_slash : ∀ (p : Path), p ≠ [] → (∀ c ∈ p, 47 ∉ c) →
    splitSlash (pstring p ++ [47]) = p ++ [[]] := by
  intro p
  induction p with
  | nil => intro h; exact absurd rfl h
  | cons s t ih =>
    intro _ hc
    cases t with
    | nil =>
      show splitSlash (s ++ [47]) = [s, []]
      rw [splitSlash_append s [] (hc s List.mem_cons_self)]; rfl
    | cons u v =>
      have e : pstring (s :: u :: v) ++ [47] = s ++ 47 :: (pstring (u :: v) ++ [47]) := by
        show (s ++ 47 :: pstring (u :: v)) ++ [47] = _
        simp
      rw [e, splitSlash_append s _ (hc s List.mem_cons_self),
        ih (by simp) (fun c hm => hc c (List.mem_cons_of_mem _ hm))]
      rfl

theorem dropTrailingEmpty_snoc : ∀ (p : List Str), (∀ c ∈ p, c ≠ []) →
    dropTrailingEmpty (p ++ [[]]) = p := by
  intro p
  induction p with
  | nil => intro _; rfl
  | cons s rest ih =>
    intro h
    have hs : s ≠ [] := h s List.mem_cons_self
    have hr := ih (fun c hm => h c (List.mem_cons_of_mem _ hm))
    show dropTrailingEmpty (s :: (rest ++ [[]])) = s :: rest
    unfold dropTrailingEmpty
    rw [hr]
    cases rest with
    | nil =>
      have : s.isEmpty = false := by cases s <;> simp_all
      simp [this]
    | cons a b => rfl

/-- a directory link: `Parse("/" + String d + "/") = d` -/
theorem parse_dir_link (d : Path) (hne : d ≠ []) (h : ∀ c ∈ d, compOK c = true) :
    parse (47 :: (pstring d ++ [47])) = d := by
  have hne' : ∀ c ∈ d, c ≠ [] := fun c hm => ((compOK_iff c).mp (h c hm)).1
  have hsl : ∀ c ∈ d, 47 ∉ c := fun c hm => ((compOK_iff c).mp (h c hm)).2
  unfold parse
  have hsplit : splitSlash (47 :: (pstring d ++ [47])) = [] :: splitSlash (pstring d ++ [47]) := by
    rw [splitSlash]; simp
  rw [hsplit, splitSlash_pstring_slash d hne hsl]
  cases d with
  | nil => exact absurd rfl hne
  | cons s t =>
    have hs : s.isEmpty = false := by
      have := hne' s List.mem_cons_self
      cases s <;> simp_all
    have : ([] :: ((s :: t) ++ [[]])).dropWhile (·.isEmpty) = (s :: t) ++ [[]] := by
      simp [List.dropWhile, hs]
    rw [this]
    exact dropTrailingEmpty_snoc _ hne'

/-! ### ReadDirAll lists each name once -/

theorem readDirLoop_dir_notin (pth : Path) : ∀ (fs : List File) (dirs : List Str) (n : Str),
    (n, DType.dir) ∈ readDirLoop pth fs dirs → n ∉ dirs := by
  intro fs
  induction fs with
  | nil => intro _ _ h; cases h
  | cons f fs ih =>
    intro dirs n h
    unfold readDirLoop at h
    by_cases hp : f.padding = true
    · simp only [hp, if_true] at h; exact ih _ _ h
    · simp only [hp, Bool.false_eq_true, if_false] at h
      by_cases hw : within f.path pth = true
      · simp only [hw, Bool.not_true, Bool.false_eq_true, if_false] at h
        by_cases hl : f.path.length > pth.length + 1
        · simp only [hl, if_true] at h
          by_cases hd : dirs.contains (f.path.getD pth.length []) = true
          · simp only [hd, if_true] at h; exact ih _ _ h
          · simp only [hd, Bool.false_eq_true, if_false] at h
            rcases List.mem_cons.mp h with h | h
            · injection h with h1 _
              rw [h1]; intro hm
              exact hd (List.contains_iff_mem.mpr hm)
            · intro hm
              exact ih _ _ h (List.mem_cons_of_mem _ hm)
        · simp only [hl, if_false] at h
          rcases List.mem_cons.mp h with h | h
          · injection h with _ h2; cases h2
          · exact ih _ _ h
      · have hw' : within f.path pth = false := by simpa using hw
        simp only [hw', Bool.not_false, if_true] at h
        exact ih _ _ h

end Storrent.NS
