import Storrent.Lemmas.PieceSteps
import Storrent.Model.PieceThreads
import Storrent.Props.C01
/-
C03 — Piece memory is accounted, evictable to the low mark, and fully released.

Same state machine as C01 (Model/Piece.lean); `allocated` is the ghost net effect of a store
on `alloc.allocated`, buffer ids / `freed` are the ghost record of `alloc.Alloc`/`alloc.Free`.
The model is that of the REPAIRED code (fix 01: `Pieces.Del` latches `deleted` before the
loop; fix 02: `del` re-tests `data == nil` after waiting; fix 03: `tor.Expire` tests `count`
and `bigcount`).  The `…_orig_…` theorems state, on the model of the code as found, the three
defects the harness reproduced on the unrepaired tree.
-/
namespace Storrent.Props.C03
open Storrent Storrent.Piece Storrent.Bitmap

variable (g : Geom) (H : Bytes → Bytes)

abbrev NoDisc : Nat → Bytes → Prop := fun _ _ => True

theorem reach_inv (hv : g.Valid) (steps : List Step) : Inv g H NoDisc (run H g (init g) steps) :=
  inv_run g H _ hv _ steps (fun st _ => by cases st <;> trivial) (inv_init g H _)

/-! ### accounting -/

/-- one store, every interleaving AND every outcome of every `alloc.Alloc` (each `addData`
    step carries `allocOk`, chosen by the environment: mmap may be refused at any call): net
    allocation = Σ piece lengths of the pieces holding a buffer; `count` = their number (so it
    is never negative and `Bytes() = count·pieceSize` over-estimates the allocation). -/
theorem C03_accounting (hv : g.Valid) (steps : List Step) :
    let s := run H g (init g) steps
    s.allocated = (held g s : Int) ∧ s.count = (holding s.pieces : Int) ∧ 0 ≤ s.count ∧
    (held g s : Int) ≤ bytesOf g s := by
  have hinv := reach_inv g H hv steps
  refine ⟨hinv.alloc, hinv.count, by rw [hinv.count]; omega, ?_⟩
  unfold bytesOf
  rw [hinv.count]
  have hle : ∀ (k : Nat) (ps : List Piece), heldFrom g k ps ≤ holding ps * g.ps := by
    intro k ps
    induction ps generalizing k with
    | nil => simp [heldFrom, holding]
    | cons x xs ih =>
      have := ih (k + 1)
      have hpl := pieceLength_le g k hv.ps
      simp only [heldFrom, holding, List.countP_cons] at this ⊢
      split <;> simp_all [Nat.add_mul] <;> omega
  have := hle 0 (run H g (init g) steps).pieces
  unfold held
  exact_mod_cast this

/-- an `AddData` whose allocation fails changes nothing at all — no buffer, no `count++`, no
    bitmap bit, no byte accounted — and reports the error; it can be retried any number of
    times. -/
theorem C03_alloc_failure_noop (s : State) (i begin : Nat) (inp : Bytes) (peer : Nat)
    (h : allocNeeded g s i begin = true) :
    addDataA g s i begin inp peer false = (s, .add 0 false .nomem) := by
  unfold addDataA
  simp [h]

/-- … and an allocation is only ever attempted for an incomplete piece without a buffer of a
    torrent that is not deleted (so a failure can only hit such a piece) -/
theorem C03_alloc_only_when_needed (s : State) (i begin : Nat) (inp : Bytes) (peer : Nat)
    (ok : Bool) (h : allocNeeded g s i begin = false) :
    addDataA g s i begin inp peer ok = addData g s i begin inp peer ∧
    (addData g s i begin inp peer).1.nextBuf = s.nextBuf := by
  constructor
  · unfold addDataA; simp [h]
  · unfold allocNeeded at h
    unfold addData
    cases hp : s.pieces[i]? with
    | none => rfl
    | some p =>
      rw [hp] at h
      simp only
      by_cases h1 : p.state ≠ .incomplete
      · rw [if_pos h1]
      rw [if_neg h1]
      by_cases h2 : s.deleted = true
      · rw [if_pos h2]
      rw [if_neg h2]
      by_cases h3 : begin % g.cs ≠ 0
      · rw [if_pos h3]
      rw [if_neg h3]
      by_cases h4 : begin ≥ g.pieceLength i
      · rw [if_pos h4]
      rw [if_neg h4]
      cases hd : p.data with
      | some b => rfl
      | none =>
        exfalso
        have e1 : p.state = .incomplete := by cases hs : p.state <;> simp_all
        simp [e1, h2, hd] at h
        omega

/-- several stores sharing `alloc.allocated` -/
structure World where
  stores : List (Geom × State)
  global : Int

def World.init (gs : List Geom) : World :=
  { stores := gs.map (fun g => (g, Piece.init g)), global := 0 }

/-- store `k` takes a step; `atomic.AddInt64(&allocated, ±n)` moves the shared counter -/
def World.step (w : World) (k : Nat) (st : Step) : World :=
  match w.stores[k]? with
  | none => w
  | some (g, s) =>
    let s' := (Piece.step H g s st).1
    { stores := w.stores.set k (g, s'), global := w.global + (s'.allocated - s.allocated) }

def World.run (w : World) : List (Nat × Step) → World
  | [] => w
  | (k, st) :: rest => World.run (World.step H w k st) rest

def sumAlloc (l : List (Geom × State)) : Int := (l.map (fun e => e.2.allocated)).foldr (· + ·) 0
def sumHeld (l : List (Geom × State)) : Int := (l.map (fun e => (held e.1 e.2 : Int))).foldr (· + ·) 0

theorem sumAlloc_set (l : List (Geom × State)) (k : Nat) (e e' : Geom × State)
    (h : l[k]? = some e) : sumAlloc (l.set k e') = sumAlloc l + (e'.2.allocated - e.2.allocated) := by
  induction l generalizing k with
  | nil => simp at h
  | cons x xs ih =>
    cases k with
    | zero =>
      simp only [List.getElem?_cons_zero, Option.some.injEq] at h
      subst h
      simp only [sumAlloc, List.set_cons_zero, List.map_cons, List.foldr_cons]
      omega
    | succ k =>
      simp only [List.getElem?_cons_succ] at h
      have := ih k h
      simp only [sumAlloc, List.set_cons_succ, List.map_cons, List.foldr_cons] at this ⊢
      omega

structure WInv (w : World) : Prop where
  stores : ∀ e, e ∈ w.stores → e.1.Valid ∧ Inv e.1 H NoDisc e.2
  global : w.global = sumAlloc w.stores

theorem winv_step (w : World) (k : Nat) (st : Step) (h : WInv H w) : WInv H (World.step H w k st) := by
  unfold World.step
  cases hk : w.stores[k]? with
  | none => exact h
  | some e =>
    obtain ⟨g, s⟩ := e
    simp only
    have hmem : (g, s) ∈ w.stores := List.mem_of_getElem? hk
    have hgs := h.stores _ hmem
    constructor
    · intro e' he'
      rcases List.mem_or_eq_of_mem_set he' with h1 | h1
      · exact h.stores _ h1
      · subst h1
        exact ⟨hgs.1, inv_step g H _ hgs.1 s st (by cases st <;> trivial) hgs.2⟩
    · rw [sumAlloc_set _ k (g, s) _ hk, h.global]

/-- **accounting over any number of stores**: whatever the stores do, in whatever order,
    the shared counter equals Σ over stores Σ over pieces holding a buffer of the piece length. -/
theorem C03_accounting_shared (gs : List Geom) (hv : ∀ g, g ∈ gs → g.Valid)
    (trace : List (Nat × Step)) :
    (World.run H (World.init gs) trace).global = sumHeld (World.run H (World.init gs) trace).stores := by
  have h0 : WInv H (World.init gs) := by
    constructor
    · intro e he
      simp only [World.init, List.mem_map] at he
      obtain ⟨g, hg, rfl⟩ := he
      exact ⟨hv g hg, inv_init g H _⟩
    · simp only [World.init, sumAlloc, List.map_map]
      induction gs with
      | nil => rfl
      | cons x xs ih =>
        simp only [List.map_cons, List.foldr_cons, Function.comp]
        rw [← ih (fun g hg => hv g (List.mem_cons_of_mem _ hg))]
        simp [Piece.init]
  have hrun : ∀ (tr : List (Nat × Step)) (w : World), WInv H w → WInv H (World.run H w tr) := by
    intro tr
    induction tr with
    | nil => intro w h; exact h
    | cons x xs ih => intro w h; exact ih _ (winv_step H w x.1 x.2 h)
  have hw := hrun trace _ h0
  rw [hw.global]
  have : ∀ l : List (Geom × State), (∀ e, e ∈ l → e.1.Valid ∧ Inv e.1 H NoDisc e.2) →
      sumAlloc l = sumHeld l := by
    intro l
    induction l with
    | nil => intro _; rfl
    | cons x xs ih =>
      intro hl
      simp only [sumAlloc, sumHeld, List.map_cons, List.foldr_cons] at ih ⊢
      rw [ih (fun e he => hl e (List.mem_cons_of_mem _ he)), (hl x List.mem_cons_self).2.alloc]
  exact this _ hw.stores

/-! ### the memory manager never crashes; no double free -/

theorem holding_pos (ps : List Piece) (i : Nat) (p : Piece) (h : ps[i]? = some p)
    (hd : p.data.isSome = true) : 0 < holding ps := by
  unfold holding
  exact List.countP_pos_iff.mpr ⟨p, List.mem_of_getElem? h, hd⟩

/-- `del()` (eviction, deletion, failed hash) never panics: neither `alloc.Free` of a buffer
    already freed nor "Negative pieces count" — in any state satisfying the invariant. -/
theorem C03_del_no_panic (Good : Nat → Bytes → Prop) (s : State) (hinv : Inv g H Good s)
    (i : Nat) (hi : i < s.pieces.length) (force : Bool) (w : String) :
    (del s i force).2 ≠ .panic w := by
  unfold del
  obtain ⟨p, hp⟩ : ∃ p, s.pieces[i]? = some p := ⟨_, List.getElem?_eq_getElem hi⟩
  simp only [hp]
  cases hd : p.data with
  | none => simp
  | some b =>
    obtain ⟨id, d⟩ := b
    simp only
    by_cases hb : p.state = .busy
    · rw [if_pos hb]; simp
    rw [if_neg hb]
    have hlive := (hinv.live i p id d hp hd).2
    rw [if_neg hlive]
    have hpos := holding_pos s.pieces i p hp (by rw [hd]; rfl)
    have hc := hinv.count
    have : ¬ (s.count - 1 < 0) := by omega
    simp only [this, if_false]
    simp

/-- no buffer is ever freed twice, in any interleaving -/
theorem C03_no_double_free (hv : g.Valid) (steps : List Step) :
    (run H g (init g) steps).freed.Nodup :=
  (reach_inv g H hv steps).freedNodup

/-- in-contract calls (piece index in range) never panic in a reachable state -/
theorem C03_no_panic (hv : g.Valid) (steps : List Step) (i : Nat) (hi : i < g.numPieces)
    (w : String) :
    let s := run H g (init g) steps
    (∀ b inp peer, (addData g s i b inp peer).2 ≠ .panic w) ∧ (finBegin g s i).2 ≠ .panic w ∧
    (∀ f, (del s i f).2 ≠ .panic w) ∧ (∀ h, (finEnd H s i h).2 ≠ .panic w) := by
  have hinv := reach_inv g H hv steps
  intro s
  have hlen : i < s.pieces.length := by rw [hinv.len]; exact hi
  obtain ⟨p, hp⟩ : ∃ p, s.pieces[i]? = some p := ⟨_, List.getElem?_eq_getElem hlen⟩
  refine ⟨?_, ?_, fun f => C03_del_no_panic g H _ s hinv i hlen f w, ?_⟩
  · intro b inp peer
    unfold addData
    simp only [hp]
    repeat' split
    all_goals simp
  · unfold finBegin
    simp only [hp]
    repeat' split
    all_goals simp
  · intro h
    unfold finEnd
    simp only [hp]
    by_cases hst : p.state ≠ .busy
    · rw [if_pos hst]; simp
    rw [if_neg hst]
    have hbusy : p.state = .busy := by cases hs : p.state <;> simp_all
    obtain ⟨hsome, hhash⟩ := (hinv.pieces i p hp).busy hbusy
    cases hdat : p.data with
    | none => exact absurd hdat hsome
    | some bd =>
    obtain ⟨id, d⟩ := bd
    have hh : p.hashing = some (id, d) := by rw [hhash, hdat]
    simp only [hh]
    by_cases hne : H d ≠ h
    · rw [if_pos hne]
      -- mismatch: del on the intermediate state, which satisfies the invariant
      have h1 : Inv g H NoDisc (setP s i
          { p with data := some (id, d), peers := [], state := .incomplete, hashing := none }) := by
        have hpi := hinv.pieces i p hp
        refine inv_setP_same_buf g H _ s i p _ hinv hp (by simp [hdat]) ?_
        exact { complete := by intro h; cases h
                busy := by intro h; cases h
                idle := fun _ => rfl
                nodata := by intro h; cases h
                dlen := by intro id' d' h; exact hpi.dlen id' d' (by rw [hdat]; exact h)
                bits := hpi.bits }
      have hnp := C03_del_no_panic g H _ _ h1 i (by simp [setP, hlen]) true
      split
      · rename_i heq
        exact absurd (congrArg Prod.snd heq) (hnp _)
      · simp
    · rw [if_neg hne]; simp

/-! ### eviction -/

/-- one eviction/deletion step never allocates: the store's net allocation does not grow,
    no buffer id is handed out; if it reports `done`, the piece is empty, incomplete (so it is
    no longer in `Bitmap()`), and `complete` tells whether it was complete (⇒ callback). -/
theorem C03_evict_step (s : State) (i : Nat) (force : Bool) :
    (del s i force).1.allocated ≤ s.allocated ∧ (del s i force).1.nextBuf = s.nextBuf ∧
    (del s i force).1.deleted = s.deleted ∧
    ∀ cpl blk, (del s i force).2 = .del true cpl blk →
      ∃ p p', s.pieces[i]? = some p ∧ (del s i force).1.pieces[i]? = some p' ∧
        p.data ≠ none ∧ p.state ≠ .busy ∧ cpl = decide (p.state = .complete) ∧
        p'.data = none ∧ p'.state = .incomplete ∧ p'.bitmap = [] := by
  unfold del
  cases hp : s.pieces[i]? with
  | none => simp
  | some p =>
    simp only
    cases hd : p.data with
    | none => simp
    | some b =>
      obtain ⟨id, d⟩ := b
      simp only
      by_cases hb : p.state = .busy
      · rw [if_pos hb]; simp
      rw [if_neg hb]
      by_cases hf : id ∈ s.freed
      · rw [if_pos hf]; simp
      rw [if_neg hf]
      have hlt : i < s.pieces.length := (List.getElem?_eq_some_iff.mp hp).1
      split
      · refine ⟨by simp; omega, rfl, rfl, ?_⟩
        intro cpl blk h; cases h
      · refine ⟨by simp; omega, rfl, rfl, ?_⟩
        intro cpl blk h
        simp only [Obs.del.injEq] at h
        exact ⟨p, { p with data := none, peers := [], bitmap := [], state := .incomplete }, rfl,
          by simp [hlt], by rw [hd]; simp, hb, h.2.1.symm, rfl, rfl, rfl⟩

/-- a pass of `Pieces.Expire` with nothing else running: visits `order` while `todo > 0` -/
def expRun (g : Geom) : State → Int → List Nat → State × Int
  | s, todo, [] => (s, todo)
  | s, todo, i :: rest =>
    if todo ≤ 0 then (s, todo)
    else match del s i false with
      | (s', .del true _ _) => expRun g s' (todo - g.ps) rest
      | (s', _) => expRun g s' todo rest

theorem del_other (s : State) (i j : Nat) (force : Bool) (h : i ≠ j) :
    (del s i force).1.pieces[j]? = s.pieces[j]? := by
  unfold del
  cases hp : s.pieces[i]? with
  | none => rfl
  | some p =>
    simp only
    cases hd : p.data with
    | none => rfl
    | some b =>
      simp only
      by_cases hb : p.state = .busy
      · rw [if_pos hb]
      rw [if_neg hb]
      by_cases hf : b.1 ∈ s.freed
      · rw [if_pos hf]
      rw [if_neg hf]
      split <;> simp [List.getElem?_set, h]

/-- what `del i false` leaves at `i` itself (in a state satisfying the invariant) -/
theorem del_self (Good : Nat → Bytes → Prop) (s : State) (hinv : Inv g H Good s) (i : Nat)
    (p : Piece) (hp : s.pieces[i]? = some p) :
    (∃ c b, (del s i false).2 = .del true c b ∧ (del s i false).1.count = s.count - 1 ∧
      ∃ p', (del s i false).1.pieces[i]? = some p' ∧ p'.data = none) ∨
    ((∀ c b, (del s i false).2 ≠ .del true c b) ∧ (del s i false).1 = s ∧
      (p.data = none ∨ p.state = .busy)) := by
  unfold del
  simp only [hp]
  have hlt : i < s.pieces.length := (List.getElem?_eq_some_iff.mp hp).1
  cases hd : p.data with
  | none => right; simp
  | some b =>
    obtain ⟨id, d⟩ := b
    simp only
    by_cases hb : p.state = .busy
    · rw [if_pos hb]; right; simp [hb]
    rw [if_neg hb]
    rw [if_neg (hinv.live i p id d hp hd).2]
    have hpos := holding_pos s.pieces i p hp (by rw [hd]; rfl)
    have hc := hinv.count
    have hnn : ¬ (s.count - 1 < 0) := by omega
    rw [if_neg hnn]
    left
    refine ⟨_, _, rfl, rfl,
      { p with data := none, peers := [], bitmap := [], state := .incomplete }, ?_, rfl⟩
    simp [hlt]

/-- `del j false` leaves an empty piece empty and a busy piece untouched -/
theorem del_keeps (Good : Nat → Bytes → Prop) (s : State) (hinv : Inv g H Good s) (j i : Nat)
    (p : Piece) (hp : s.pieces[i]? = some p) :
    (p.data = none → ∃ q, (del s j false).1.pieces[i]? = some q ∧ q.data = none) ∧
    (p.state = .busy → (del s j false).1.pieces[i]? = some p) := by
  by_cases hji : j = i
  · subst hji
    rcases del_self g H Good s hinv j p hp with ⟨_, _, _, _, p', hp', hd'⟩ | ⟨_, hsame, _⟩
    · refine ⟨fun _ => ⟨p', hp', hd'⟩, ?_⟩
      intro hb
      -- a busy piece is never evicted: `del` returns before touching it
      have : (del s j false).1 = s := by
        unfold del
        simp only [hp]
        cases hd : p.data with
        | none => rfl
        | some b => simp [hb]
      rw [this]; exact hp
    · rw [hsame]; exact ⟨fun h => ⟨p, hp, h⟩, fun _ => hp⟩
  · rw [del_other s j i false hji]
    exact ⟨fun h => ⟨p, hp, h⟩, fun _ => hp⟩

theorem expRun_keeps_none (Good : Nat → Bytes → Prop) :
    ∀ (order : List Nat) (s : State) (todo : Int), Inv g H Good s → ∀ (i : Nat) (p : Piece),
      s.pieces[i]? = some p → p.data = none →
      ∀ q, (expRun g s todo order).1.pieces[i]? = some q → q.data = none := by
  intro order
  induction order with
  | nil => intro s todo _ i p hp hd q hq; simp only [expRun] at hq; rw [hp] at hq; cases hq; exact hd
  | cons j rest ih =>
    intro s todo hinv i p hp hd q hq
    unfold expRun at hq
    by_cases hle : todo ≤ 0
    · rw [if_pos hle] at hq; rw [hp] at hq; cases hq; exact hd
    rw [if_neg hle] at hq
    obtain ⟨p1, hp1, hd1⟩ := (del_keeps g H Good s hinv j i p hp).1 hd
    have hinv' := inv_del g H Good s j false hinv
    split at hq
    · rename_i heq
      have e : (del s j false).1 = _ := congrArg Prod.fst heq
      simp only at e
      rw [← e] at hq
      exact ih _ _ hinv' i p1 hp1 hd1 q hq
    · rename_i heq
      have e : (del s j false).1 = _ := congrArg Prod.fst heq
      simp only at e
      rw [← e] at hq
      exact ih _ _ hinv' i p1 hp1 hd1 q hq

theorem expRun_keeps_busy (Good : Nat → Bytes → Prop) :
    ∀ (order : List Nat) (s : State) (todo : Int), Inv g H Good s → ∀ (i : Nat) (p : Piece),
      s.pieces[i]? = some p → p.state = .busy →
      ∀ q, (expRun g s todo order).1.pieces[i]? = some q → q.state = .busy := by
  intro order
  induction order with
  | nil => intro s todo _ i p hp hd q hq; simp only [expRun] at hq; rw [hp] at hq; cases hq; exact hd
  | cons j rest ih =>
    intro s todo hinv i p hp hd q hq
    unfold expRun at hq
    by_cases hle : todo ≤ 0
    · rw [if_pos hle] at hq; rw [hp] at hq; cases hq; exact hd
    rw [if_neg hle] at hq
    have hp1 := (del_keeps g H Good s hinv j i p hp).2 hd
    have hinv' := inv_del g H Good s j false hinv
    split at hq
    · rename_i heq
      have e : (del s j false).1 = _ := congrArg Prod.fst heq
      simp only at e
      rw [← e] at hq
      exact ih _ _ hinv' i p hp1 hd q hq
    · rename_i heq
      have e : (del s j false).1 = _ := congrArg Prod.fst heq
      simp only at e
      rw [← e] at hq
      exact ih _ _ hinv' i p hp1 hd q hq

/-- **a complete pass with nothing else running reaches the target** unless what is left
    was busy when visited: after visiting every piece (`order` contains every index),
    `Bytes() ≤ target`, or every piece still holding a buffer is busy (being hashed). -/
theorem C03_expire_target (Good : Nat → Bytes → Prop) (target : Int) :
    ∀ (order : List Nat) (s : State) (todo : Int), Inv g H Good s → todo = bytesOf g s - target →
      let r := expRun g s todo order
      Inv g H Good r.1 ∧ r.2 = bytesOf g r.1 - target ∧
      (bytesOf g r.1 ≤ target ∨
        ∀ i p, i ∈ order → r.1.pieces[i]? = some p → p.data ≠ none → p.state = .busy) := by
  intro order
  induction order with
  | nil =>
    intro s todo hinv htodo
    exact ⟨hinv, htodo, Or.inr (fun i p hi => by cases hi)⟩
  | cons i rest ih =>
    intro s todo hinv htodo
    unfold expRun
    by_cases hle : todo ≤ 0
    · rw [if_pos hle]
      exact ⟨hinv, htodo, Or.inl (by show bytesOf g s ≤ target; omega)⟩
    rw [if_neg hle]
    have hinv' := inv_del g H Good s i false hinv
    cases hp : s.pieces[i]? with
    | none =>
      -- index out of range: `del` reports a panic and leaves the state alone
      have hs : del s i false = (s, .panic "index out of range") := by unfold del; simp [hp]
      rw [hs]
      simp only
      obtain ⟨h1, h2, h3⟩ := ih s todo hinv htodo
      refine ⟨h1, h2, ?_⟩
      rcases h3 with h3 | h3
      · exact Or.inl h3
      · right
        intro j p hj hpj
        rcases List.mem_cons.mp hj with e | e
        · subst e
          -- no step of the pass creates pieces: the list length is invariant
          have hl1 := h1.len
          have hl0 := hinv.len
          have : (expRun g s todo rest).1.pieces[j]? = none := by
            rw [List.getElem?_eq_none_iff, hl1, ← hl0]
            exact List.getElem?_eq_none_iff.mp hp
          rw [this] at hpj; cases hpj
        · exact h3 j p e hpj
    | some p =>
      rcases del_self g H Good s hinv i p hp with ⟨c, b, hobs, hcnt, p', hp', hd'⟩ | ⟨hnot, hsame, hwhy⟩
      · -- evicted
        have hsplit : del s i false = ((del s i false).1, .del true c b) := by
          rw [← hobs]
        rw [hsplit]
        simp only
        have htodo' : todo - g.ps = bytesOf g (del s i false).1 - target := by
          unfold bytesOf at htodo ⊢
          rw [hcnt, htodo, Int.sub_mul]
          omega
        obtain ⟨h1, h2, h3⟩ := ih _ _ hinv' htodo'
        refine ⟨h1, h2, ?_⟩
        rcases h3 with h3 | h3
        · exact Or.inl h3
        · right
          intro j q hj hq
          rcases List.mem_cons.mp hj with e | e
          · subst e
            -- piece j was emptied; the rest of the pass never allocates
            intro hne
            exact absurd (expRun_keeps_none g H Good rest _ _ hinv' j p' hp' hd' q hq) hne
          · exact h3 j q e hq
      · -- left alone: no buffer, or busy
        have hne : ∀ s' c b, del s i false ≠ (s', .del true c b) := by
          intro s' c b h
          exact hnot c b (by rw [h])
        have hstep : (match del s i false with
            | (s', .del true _ _) => expRun g s' (todo - g.ps) rest
            | (s', _) => expRun g s' todo rest) = expRun g s todo rest := by
          split
          · rename_i heq; exact absurd heq (hne _ _ _)
          · rename_i heq
            have := congrArg Prod.fst heq
            simp only [hsame] at this
            rw [← this]
        rw [hstep]
        obtain ⟨h1, h2, h3⟩ := ih s todo hinv htodo
        refine ⟨h1, h2, ?_⟩
        rcases h3 with h3 | h3
        · exact Or.inl h3
        · right
          intro j q hj hq
          rcases List.mem_cons.mp hj with e | e
          · subst e
            rcases hwhy with hw | hw
            · intro hne'
              exact absurd (expRun_keeps_none g H Good rest _ _ hinv j p hp hw q hq) hne'
            · intro _
              exact expRun_keeps_busy g H Good rest _ _ hinv j p hp hw q hq
          · exact h3 j q e hq

/-! ### visiting order of a pass -/

/-- a visiting sequence every element of which was a legal next choice (what the driver
    checks on every `expire.visit` of the real code) -/
def LegalSeq (t av : List Nat) : List Nat → List Nat → Prop
  | _, [] => True
  | rest, x :: xs => expLegal t av rest x = true ∧ LegalSeq t av (rest.erase x) xs

theorem legalSeq_mem (t av : List Nat) : ∀ (vs rest : List Nat), LegalSeq t av rest vs →
    ∀ y, y ∈ vs → y ∈ rest := by
  intro vs
  induction vs with
  | nil => intro _ _ y hy; cases hy
  | cons x xs ih =>
    intro rest h y hy
    rcases List.mem_cons.mp hy with e | e
    · subst e
      have := h.1
      simp only [expLegal, Bool.and_eq_true, List.contains_iff_mem] at this
      exact this.1
    · exact List.mem_of_mem_erase (ih _ h.2 y e)

/-- **eviction order**: if a pass visits `x` before `y`, then `x` does not sort after `y`
    under the comparator of `Pieces.Expire` … -/
theorem C03_expire_order (t av : List Nat) : ∀ (vs rest : List Nat), LegalSeq t av rest vs →
    ∀ (pre : List Nat) (x : Nat) (post : List Nat) (y : Nat), vs = pre ++ x :: post → y ∈ post →
      expCmp t av x y ≤ 0 := by
  intro vs
  induction vs with
  | nil => intro _ _ pre x post y h; simp at h
  | cons v vs ih =>
    intro rest h pre x post y hv hy
    cases pre with
    | nil =>
      simp only [List.nil_append, List.cons.injEq] at hv
      obtain ⟨rfl, rfl⟩ := hv
      have hl := h.1
      simp only [expLegal, Bool.and_eq_true, List.all_eq_true, decide_eq_true_eq] at hl
      exact hl.2 y (List.mem_of_mem_erase (legalSeq_mem t av _ _ h.2 y hy))
    | cons p pre =>
      simp only [List.cons_append, List.cons.injEq] at hv
      exact ih _ h.2 pre x post y hv.2 hy

/-- … and that comparator is "least recently accessed first; beyond two hours, commonest
    first": `x` not after `y` means: both older than 7200 s with different availability ⇒ `x`
    is the commoner; otherwise `x` is at least as old as `y`. -/
theorem C03_expire_key (t av : List Nat) (x y : Nat) (h : expCmp t av x y ≤ 0) :
    (t.getD x 0 ≥ 7200 ∧ t.getD y 0 ≥ 7200 ∧ av.getD x 0 ≠ av.getD y 0 ∧ av.getD y 0 < av.getD x 0) ∨
    (¬ (t.getD x 0 ≥ 7200 ∧ t.getD y 0 ≥ 7200 ∧ av.getD x 0 ≠ av.getD y 0) ∧
      t.getD y 0 ≤ t.getD x 0) := by
  unfold expCmp at h
  simp only at h
  split at h
  · rename_i hc
    left
    refine ⟨hc.1, hc.2.1, hc.2.2, ?_⟩
    split at h
    · assumption
    · omega
  · rename_i hc
    right
    refine ⟨hc, ?_⟩
    split at h
    · omega
    · split at h <;> omega

/-! ### deletion -/

theorem finEnd_other (s : State) (i j : Nat) (h : Bytes) (hne : i ≠ j) :
    (finEnd H s i h).1.pieces[j]? = s.pieces[j]? ∧ (finEnd H s i h).1.deleted = s.deleted := by
  unfold finEnd
  cases hp : s.pieces[i]? with
  | none => exact ⟨rfl, rfl⟩
  | some p =>
    simp only
    by_cases hst : p.state ≠ .busy
    · rw [if_pos hst]; exact ⟨rfl, rfl⟩
    rw [if_neg hst]
    have aux : ∀ snap : Bytes,
        ((if H snap ≠ h then
            match del (setP s i { p with peers := [], state := .incomplete, hashing := none }) i true with
            | (s', .panic w) => (s', Obs.panic w)
            | (s', _) => (s', Obs.finRet false p.peers .mismatch)
          else
            (setP s i { p with peers := [], state := .complete, hashing := none, vhash := h },
             Obs.finRet true p.peers .ok)).1.pieces[j]? = s.pieces[j]?) ∧
        ((if H snap ≠ h then
            match del (setP s i { p with peers := [], state := .incomplete, hashing := none }) i true with
            | (s', .panic w) => (s', Obs.panic w)
            | (s', _) => (s', Obs.finRet false p.peers .mismatch)
          else
            (setP s i { p with peers := [], state := .complete, hashing := none, vhash := h },
             Obs.finRet true p.peers .ok)).1.deleted = s.deleted) := by
      intro snap
      by_cases hne' : H snap ≠ h
      · rw [if_pos hne']
        have h1 := del_other (setP s i { p with peers := [], state := .incomplete, hashing := none }) i j true hne
        have h2 := (C03_evict_step (setP s i { p with peers := [], state := .incomplete, hashing := none }) i true).2.2.1
        have h3 : (setP s i { p with peers := [], state := .incomplete, hashing := none }).pieces[j]? = s.pieces[j]? := by
          simp [setP, List.getElem?_set, hne]
        split
        · rename_i heq
          have e := congrArg Prod.fst heq
          simp only at e
          rw [← e]
          exact ⟨by rw [h1, h3], by rw [h2]; rfl⟩
        · rename_i heq
          have e := congrArg Prod.fst heq
          simp only at e
          rw [← e]
          exact ⟨by rw [h1, h3], by rw [h2]; rfl⟩
      · rw [if_neg hne']
        exact ⟨by simp [setP, List.getElem?_set, hne], rfl⟩
    cases hh : p.hashing with
    | none => exact aux []
    | some b => exact aux b.2

/-- `deleted` is a latch -/
theorem step_deleted (s : State) (hdel : s.deleted = true) (st : Step) :
    (Piece.step H g s st).1.deleted = true := by
  cases st with
  | addData j b blk peer ok =>
    show (addDataA g s j b blk peer ok).1.deleted = true
    rw [C01.addDataA_deleted g s hdel j b blk peer ok]; exact hdel
  | finBegin j =>
    show (finBegin g s j).1.deleted = true
    rw [(C01.C01_deleted_refuses g s hdel j).2]; exact hdel
  | hashRead j =>
    show (hashRead s j).1.deleted = true
    unfold hashRead
    repeat' split
    all_goals exact hdel
  | readAt off n =>
    show (readAt g s off n).1.deleted = true
    unfold readAt
    dsimp only
    repeat' split
    all_goals exact hdel
  | hole j off =>
    show (hole g s j off).1.deleted = true
    unfold hole
    dsimp only
    repeat' split
    all_goals exact hdel
  | latch => rfl
  | finEnd j h =>
    show (finEnd H s j h).1.deleted = true
    rw [(finEnd_other H s j (j + 1) h (by omega)).2]; exact hdel
  | del j f =>
    show (del s j f).1.deleted = true
    rw [(C03_evict_step s j f).2.2.1]; exact hdel
  | updateTime j now =>
    show (updateTime s j now).1.deleted = true
    unfold updateTime
    repeat' split
    all_goals exact hdel
  | setTime j t =>
    show (setTime s j t).1.deleted = true
    unfold setTime
    repeat' split
    all_goals exact hdel

/-- once `deleted` is latched, no step gives a buffer to an empty piece (and `deleted`
    stays latched): nothing is ever allocated for a deleted torrent. -/
theorem C03_deleted_never_allocates (Good : Nat → Bytes → Prop) (s : State) (hinv : Inv g H Good s)
    (hdel : s.deleted = true) (st : Step) (i : Nat) (p : Piece) (hp : s.pieces[i]? = some p)
    (hd : p.data = none) :
    (Piece.step H g s st).1.deleted = true ∧
    ∃ p', (Piece.step H g s st).1.pieces[i]? = some p' ∧ p'.data = none := by
  have same : ∀ s', s' = s → s'.deleted = true ∧ ∃ p', s'.pieces[i]? = some p' ∧ p'.data = none := by
    intro s' e; subst e; exact ⟨hdel, p, hp, hd⟩
  have hlt : i < s.pieces.length := (List.getElem?_eq_some_iff.mp hp).1
  have hidle : p.state = .incomplete := ((hinv.pieces i p hp).nodata hd).2.1
  cases st with
  | addData j b blk peer ok => exact same _ (C01.addDataA_deleted g s hdel j b blk peer ok)
  | finBegin j => exact same _ (C01.C01_deleted_refuses g s hdel j).2
  | hashRead j =>
    apply same
    show (hashRead s j).1 = s
    unfold hashRead
    repeat' split
    all_goals rfl
  | readAt off n =>
    apply same
    show (readAt g s off n).1 = s
    unfold readAt
    dsimp only
    repeat' split
    all_goals rfl
  | hole j off =>
    apply same
    show (hole g s j off).1 = s
    unfold hole
    dsimp only
    repeat' split
    all_goals rfl
  | latch => exact ⟨rfl, p, hp, hd⟩
  | finEnd j h =>
    show (finEnd H s j h).1.deleted = true ∧ ∃ p', (finEnd H s j h).1.pieces[i]? = some p' ∧ _
    by_cases hji : j = i
    · subst hji
      apply same
      unfold finEnd
      simp only [hp]
      rw [if_pos (by simp [hidle])]
    · obtain ⟨h1, h2⟩ := finEnd_other H s j i h hji
      exact ⟨by rw [h2]; exact hdel, p, by rw [h1]; exact hp, hd⟩
  | del j f =>
    show (del s j f).1.deleted = true ∧ ∃ p', (del s j f).1.pieces[i]? = some p' ∧ _
    refine ⟨by rw [(C03_evict_step s j f).2.2.1]; exact hdel, ?_⟩
    by_cases hji : j = i
    · subst hji
      have : (del s j f).1 = s := by unfold del; simp [hp, hd]
      rw [this]; exact ⟨p, hp, hd⟩
    · rw [del_other s j i f hji]; exact ⟨p, hp, hd⟩
  | updateTime j now =>
    show (updateTime s j now).1.deleted = true ∧ ∃ p', (updateTime s j now).1.pieces[i]? = some p' ∧ _
    unfold updateTime
    cases hq : s.pieces[j]? with
    | none => exact ⟨hdel, p, hp, hd⟩
    | some q =>
      simp only
      refine ⟨hdel, ?_⟩
      by_cases hji : j = i
      · subst hji
        rw [hp] at hq; cases hq
        split
        · exact ⟨{ p with time := now }, by simp [setP, hlt], hd⟩
        · exact ⟨p, by simp [setP, hlt], hd⟩
      · exact ⟨p, by simp [setP, List.getElem?_set, hji, hp], hd⟩
  | setTime j t =>
    show (setTime s j t).1.deleted = true ∧ ∃ p', (setTime s j t).1.pieces[i]? = some p' ∧ _
    unfold setTime
    cases hq : s.pieces[j]? with
    | none => exact ⟨hdel, p, hp, hd⟩
    | some q =>
      simp only
      refine ⟨hdel, ?_⟩
      by_cases hji : j = i
      · subst hji
        rw [hp] at hq; cases hq
        exact ⟨{ p with time := t }, by simp [setP, hlt], hd⟩
      · exact ⟨p, by simp [setP, List.getElem?_set, hji, hp], hd⟩

/-- a trace in which the steps of ONE thread are flagged: `runT` is `none` when a flagged
    `del _ true` is attempted while its piece is busy (the thread is then waiting, it has not
    taken that step). -/
def runT (s : State) : List (Bool × Step) → Option State
  | [] => some s
  | (mine, st) :: rest =>
    match mine, (Piece.step H g s st).2 with
    | true, .del _ _ true => none
    | _, _ => runT (Piece.step H g s st).1 rest

def threadOf (tr : List (Bool × Step)) : List Step := (tr.filter (·.1)).map (·.2)

/-- `Pieces.Del` (repaired): latch, then `del(i, true)` for every piece in turn -/
def delProgram (n : Nat) : List Step := .latch :: (List.range' 0 n).map (fun i => .del i true)

theorem runT_other (s : State) (st : Step) (rest : List (Bool × Step)) :
    runT g H s ((false, st) :: rest) = runT g H (Piece.step H g s st).1 rest := by
  simp [runT]

theorem runT_mine (s : State) (st : Step) (rest : List (Bool × Step)) (s' : State)
    (h : runT g H s ((true, st) :: rest) = some s') :
    (∀ d c, (Piece.step H g s st).2 ≠ .del d c true) ∧
    runT g H (Piece.step H g s st).1 rest = some s' := by
  simp only [runT] at h
  split at h
  · cases h
  · rename_i hno
    refine ⟨?_, h⟩
    intro d c e
    exact hno d c rfl e

theorem noDisc_good (st : Step) : StepGood NoDisc st := by cases st <;> trivial

/-- `del k true` that did not have to wait leaves piece `k` without a buffer -/
theorem del_unblocked_none (s : State) (hinv : Inv g H NoDisc s) (k : Nat)
    (hno : ∀ d c, (del s k true).2 ≠ .del d c true) (p' : Piece)
    (hp' : (del s k true).1.pieces[k]? = some p') : p'.data = none := by
  unfold del at hno hp'
  cases hp : s.pieces[k]? with
  | none => rw [hp] at hp'; simp only at hp'; rw [hp] at hp'; cases hp'
  | some p =>
    rw [hp] at hno hp'
    simp only at hno hp'
    have hlt : k < s.pieces.length := (List.getElem?_eq_some_iff.mp hp).1
    cases hd : p.data with
    | none =>
      rw [hd] at hp'; simp only at hp'; rw [hp] at hp'; cases hp'; exact hd
    | some b =>
      obtain ⟨id, d⟩ := b
      rw [hd] at hno hp'
      simp only at hno hp'
      by_cases hb : p.state = .busy
      · rw [if_pos hb] at hno
        exact absurd rfl (hno false false)
      · rw [if_neg hb, if_neg (hinv.live k p id d hp hd).2] at hp'
        split at hp'
        · simp [hlt] at hp'; rw [← hp']
        · simp [hlt] at hp'; rw [← hp']

theorem del_tail :
    ∀ (tr : List (Bool × Step)) (s : State) (k : Nat), Inv g H NoDisc s → g.Valid →
      s.deleted = true → (∀ (i : Nat) (p : Piece), i < k → s.pieces[i]? = some p → p.data = none) →
      threadOf tr = (List.range' k (g.numPieces - k)).map (fun i => Step.del i true) →
      ∀ s', runT g H s tr = some s' →
        Inv g H NoDisc s' ∧ s'.deleted = true ∧
          ∀ (i : Nat) (p : Piece), s'.pieces[i]? = some p → p.data = none := by
  intro tr
  induction tr with
  | nil =>
    intro s k hinv hv hdel hk hthr s' hrun
    simp only [runT, Option.some.injEq] at hrun
    subst hrun
    have hz : g.numPieces - k = 0 := by
      cases hnk : g.numPieces - k with
      | zero => rfl
      | succ m => rw [hnk] at hthr; simp [threadOf, List.range'] at hthr
    refine ⟨hinv, hdel, fun i p hp => hk i p ?_ hp⟩
    have := (List.getElem?_eq_some_iff.mp hp).1
    rw [hinv.len] at this
    omega
  | cons e tr ih =>
    intro s k hinv hv hdel hk hthr s' hrun
    obtain ⟨mine, st⟩ := e
    have hinv1 : Inv g H NoDisc (Piece.step H g s st).1 := inv_step g H _ hv s st (noDisc_good st) hinv
    -- emptied pieces stay empty, `deleted` stays latched, whatever the step
    have hkeep : (Piece.step H g s st).1.deleted = true ∧
        ∀ (i : Nat) (p : Piece), i < k → (Piece.step H g s st).1.pieces[i]? = some p → p.data = none := by
      refine ⟨step_deleted g H s hdel st, ?_⟩
      intro i p hi hp
      have hlt : i < s.pieces.length := by
        have := (List.getElem?_eq_some_iff.mp hp).1
        rw [hinv1.len] at this
        rw [hinv.len]; exact this
      obtain ⟨q, hq⟩ : ∃ q, s.pieces[i]? = some q := ⟨_, List.getElem?_eq_getElem hlt⟩
      obtain ⟨_, p', hp', hd'⟩ := C03_deleted_never_allocates g H NoDisc s hinv hdel st i q hq (hk i q hi hq)
      rw [hp] at hp'; cases hp'; exact hd'
    cases mine with
    | false =>
      rw [runT_other] at hrun
      have hthr' : threadOf tr = (List.range' k (g.numPieces - k)).map (fun i => Step.del i true) := by
        simpa [threadOf] using hthr
      exact ih _ k hinv1 hv hkeep.1 hkeep.2 hthr' s' hrun
    | true =>
      obtain ⟨hno, hrun'⟩ := runT_mine g H s st tr s' hrun
      have hthr1 : st :: threadOf tr = (List.range' k (g.numPieces - k)).map (fun i => Step.del i true) := by
        simpa [threadOf] using hthr
      cases hnk : g.numPieces - k with
      | zero => rw [hnk] at hthr1; simp [List.range'] at hthr1
      | succ m =>
        rw [hnk] at hthr1
        simp only [List.range', List.map_cons, List.cons.injEq] at hthr1
        obtain ⟨hst, hthr2⟩ := hthr1
        subst hst
        have hm : m = g.numPieces - (k + 1) := by omega
        rw [hm] at hthr2
        refine ih _ (k + 1) hinv1 hv hkeep.1 ?_ hthr2 s' hrun'
        intro i p hi hp
        by_cases hik : i < k
        · exact hkeep.2 i p hik hp
        · have : i = k := by omega
          subst this
          exact del_unblocked_none g H s hinv i hno p hp

/-- **`Pieces.Del` releases everything, whatever runs concurrently.**  From any reachable
    state, for any trace in which one thread performs `Pieces.Del` (latch, then `del(i,true)`
    for i = 0 … n-1, each taken when it no longer has to wait) interleaved with ARBITRARY
    steps of other goroutines (AddData refilling, Finalise ending, evictions …): when `Del`
    returns every piece is without a buffer, `deleted` is latched, the store's net allocation
    is 0 and `count = 0`. -/
theorem C03_del_releases_all (hv : g.Valid) (steps0 : List Step) :
    ∀ (tr : List (Bool × Step)) (s : State), Inv g H NoDisc s →
      threadOf tr = delProgram g.numPieces → ∀ s', runT g H s tr = some s' →
      s'.deleted = true ∧ (∀ (i : Nat) (p : Piece), s'.pieces[i]? = some p → p.data = none) ∧
      s'.allocated = 0 ∧ s'.count = 0 := by
  have _ := steps0
  have fin : ∀ s' : State, Inv g H NoDisc s' →
      (∀ (i : Nat) (p : Piece), s'.pieces[i]? = some p → p.data = none) →
      s'.allocated = 0 ∧ s'.count = 0 := by
    intro s' hinv hnone
    have h1 : ∀ (k : Nat) (ps : List Piece), (∀ p, p ∈ ps → p.data = none) →
        heldFrom g k ps = 0 ∧ holding ps = 0 := by
      intro k ps
      induction ps generalizing k with
      | nil => intro _; exact ⟨rfl, rfl⟩
      | cons x xs ih =>
        intro h
        have hx := h x List.mem_cons_self
        have ih' := ih (k + 1) (fun p hp => h p (List.mem_cons_of_mem _ hp))
        constructor
        · show (if x.data.isSome then g.pieceLength k else 0) + heldFrom g (k + 1) xs = 0
          rw [hx, ih'.1]; simp
        · show List.countP (fun p => p.data.isSome) (x :: xs) = 0
          rw [List.countP_cons, hx]
          have := ih'.2
          unfold holding at this
          rw [this]; simp
    have hall : ∀ p, p ∈ s'.pieces → p.data = none := by
      intro p hp
      obtain ⟨i, hi⟩ := List.getElem?_of_mem hp
      exact hnone i p hi
    have := h1 0 s'.pieces hall
    exact ⟨by rw [hinv.alloc]; unfold held; rw [this.1]; rfl, by rw [hinv.count, this.2]; rfl⟩
  intro tr
  induction tr with
  | nil => intro s _ hthr; simp [threadOf, delProgram] at hthr
  | cons e tr ih =>
    intro s hinv hthr s' hrun
    obtain ⟨mine, st⟩ := e
    have hinv1 : Inv g H NoDisc (Piece.step H g s st).1 := inv_step g H _ hv s st (noDisc_good st) hinv
    cases mine with
    | false =>
      rw [runT_other] at hrun
      exact ih _ hinv1 (by simpa [threadOf] using hthr) s' hrun
    | true =>
      obtain ⟨_, hrun'⟩ := runT_mine g H s st tr s' hrun
      have hthr1 : st :: threadOf tr = delProgram g.numPieces := by simpa [threadOf] using hthr
      simp only [delProgram, List.cons.injEq] at hthr1
      obtain ⟨hst, hthr2⟩ := hthr1
      subst hst
      obtain ⟨h1, h2, h3⟩ := del_tail g H tr _ 0 hinv1 hv rfl (fun i p hi => by omega)
        (by simpa using hthr2) s' hrun'
      exact ⟨h2, h3, fin s' h1 h3⟩

/-- … and it stays released: after that, no sequence of steps allocates for the store -/
theorem C03_deleted_stays_empty (hv : g.Valid) :
    ∀ (more : List Step) (s : State), Inv g H NoDisc s → s.deleted = true →
      (∀ (i : Nat) (p : Piece), s.pieces[i]? = some p → p.data = none) →
      (run H g s more).deleted = true ∧
      ∀ (i : Nat) (p : Piece), (run H g s more).pieces[i]? = some p → p.data = none := by
  intro more
  induction more with
  | nil => intro s _ hd hn; exact ⟨hd, hn⟩
  | cons st rest ih =>
    intro s hinv hdel hnone
    have hinv1 : Inv g H NoDisc (Piece.step H g s st).1 := inv_step g H _ hv s st (noDisc_good st) hinv
    refine ih _ hinv1 (step_deleted g H s hdel st) ?_
    intro i p hp
    have hlt : i < s.pieces.length := by
      have := (List.getElem?_eq_some_iff.mp hp).1
      rw [hinv1.len] at this
      rw [hinv.len]; exact this
    obtain ⟨q, hq⟩ : ∃ q, s.pieces[i]? = some q := ⟨_, List.getElem?_eq_getElem hlt⟩
    obtain ⟨_, p', hp', hd'⟩ := C03_deleted_never_allocates g H NoDisc s hinv hdel st i q hq (hnone i q hq)
    rw [hp] at hp'; cases hp'; exact hd'

/-! ### notifications: every complete piece a pass discards is reported exactly once -/

/-- the history of one `Pieces.Expire` pass: its own visits, interleaved with arbitrary steps
    of other goroutines (AddData, Finalise, other passes' evictions, Del, reads …) -/
inductive PassEv
  | other (st : Step)
  | visit (i : Nat)

structure PassLog where
  s : State
  l : ExpLocal
  cbs : List Nat    -- the callbacks `f(index)` the pass made, in order (what the code does)
  lost : List Nat   -- ghost: the visits that turned a complete piece holding a buffer into an
                    -- empty one (what actually happened to the store)

/-- a visit is taken only while the loop is still running (`todo > 0`, pieces left) and on
    a piece not yet visited; otherwise the event is not a step of this pass -/
def passRun (H : Bytes → Bytes) (g : Geom) : State → ExpLocal → List PassEv → PassLog
  | s, l, [] => ⟨s, l, [], []⟩
  | s, l, .other st :: r => passRun H g (Piece.step H g s st).1 l r
  | s, l, .visit i :: r =>
    if expMore l && l.rest.contains i then
      let v := expVisit g s l i
      let was : Bool := match s.pieces[i]? with
        | some p => decide (p.state = .complete) && p.data.isSome
        | none => false
      let gone : Bool := match v.1.pieces[i]? with
        | some p' => p'.data.isNone
        | none => false
      let rec' := passRun H g v.1 v.2.1 r
      ⟨rec'.s, rec'.l, (if v.2.2.1 then [i] else []) ++ rec'.cbs,
        (if was && gone then [i] else []) ++ rec'.lost⟩
    else passRun H g s l r

/-- one visit: the callback fires iff the visit discarded a complete piece -/
theorem visit_cb_iff (s : State) (hinv : Inv g H NoDisc s) (l : ExpLocal) (i : Nat) :
    (expVisit g s l i).2.2.1 =
      ((match s.pieces[i]? with
        | some p => decide (p.state = .complete) && p.data.isSome
        | none => false) &&
       (match (expVisit g s l i).1.pieces[i]? with
        | some p' => p'.data.isNone
        | none => false)) ∧
    (expVisit g s l i).1 = (del s i false).1 ∧ (expVisit g s l i).2.1.rest = l.rest.erase i := by
  have h23 : (expVisit g s l i).1 = (del s i false).1 ∧
      (expVisit g s l i).2.1.rest = l.rest.erase i := by
    unfold expVisit
    dsimp only
    split <;> exact ⟨rfl, rfl⟩
  refine ⟨?_, h23.1, h23.2⟩
  rw [h23.1]
  cases hp : s.pieces[i]? with
  | none =>
    have hs : del s i false = (s, .panic "index out of range") := by unfold del; simp [hp]
    unfold expVisit
    simp [hs]
  | some p =>
    simp only
    rcases del_self g H NoDisc s hinv i p hp with ⟨c, b, hobs, _, p', hp', hd'⟩ | ⟨hnot, hsame, hwhy⟩
    · -- evicted: `complete` is what `del` sampled
      obtain ⟨q, q', hq, _, hqd, _, hc, _, _, _⟩ := (C03_evict_step s i false).2.2.2 c b hobs
      rw [hp] at hq; cases hq
      have hsplit : del s i false = ((del s i false).1, .del true c b) := by rw [← hobs]
      have hcb : (expVisit g s l i).2.2.1 = c := by
        unfold expVisit; rw [hsplit]
      rw [hcb, hp', hc]
      simp only [hd']
      cases hdat : p.data with
      | none => exact absurd hdat hqd
      | some bd => simp
    · -- left alone: no callback, and nothing was lost
      have hcb : (expVisit g s l i).2.2.1 = false := by
        unfold expVisit
        dsimp only
        split
        · rename_i c b heq; exact absurd heq (hnot c b)
        · rfl
      rw [hcb, hsame, hp]
      rcases hwhy with hw | hw
      · simp [hw]
      · simp [hw]

/-- **`C03_discard_notified_once`**: in EVERY interleaving of a pass with arbitrary other
    steps, the callbacks the pass makes are exactly (same pieces, same order) the visits that
    discarded a complete piece — so there is one for every complete piece it discards and none
    for an incomplete, busy or empty one — and no piece is reported twice. -/
theorem C03_discard_notified_once (hv : g.Valid) :
    ∀ (tr : List PassEv) (s : State) (l : ExpLocal), Inv g H NoDisc s → l.rest.Nodup →
      (passRun H g s l tr).cbs = (passRun H g s l tr).lost ∧
      (passRun H g s l tr).cbs.Nodup ∧ ∀ i, i ∈ (passRun H g s l tr).cbs → i ∈ l.rest := by
  intro tr
  induction tr with
  | nil => intro s l _ _; exact ⟨rfl, List.nodup_nil, fun i h => by cases h⟩
  | cons e tr ih =>
    intro s l hinv hnd
    cases e with
    | other st =>
      exact ih _ l (inv_step g H _ hv s st (noDisc_good st) hinv) hnd
    | visit i =>
      unfold passRun
      by_cases hen : (expMore l && l.rest.contains i) = true
      · rw [if_pos hen]
        obtain ⟨hcb, hst, hrest⟩ := visit_cb_iff g H s hinv l i
        have hinv' : Inv g H NoDisc (expVisit g s l i).1 := by
          rw [hst]; exact inv_del g H _ s i false hinv
        have hnd' : (expVisit g s l i).2.1.rest.Nodup := by
          rw [hrest]; exact hnd.erase i
        obtain ⟨h1, h2, h3⟩ := ih _ _ hinv' hnd'
        have hmem : i ∈ l.rest := by
          simp only [Bool.and_eq_true, List.contains_iff_mem] at hen
          exact hen.2
        simp only
        refine ⟨?_, ?_, ?_⟩
        · rw [← hcb, h1]
        · cases hv' : (expVisit g s l i).2.2.1 with
          | false => simpa using h2
          | true =>
            simp only [if_true, List.singleton_append, List.nodup_cons]
            refine ⟨?_, h2⟩
            intro hin
            have := h3 i hin
            rw [hrest] at this
            exact (List.Nodup.mem_erase_iff hnd).mp this |>.1 rfl
        · intro j hj
          rcases List.mem_append.mp hj with hj | hj
          · split at hj
            · simp at hj; rw [hj]; exact hmem
            · cases hj
          · have := h3 j hj
            rw [hrest] at this
            exact List.mem_of_mem_erase this
      · rw [if_neg hen]
        exact ih s l hinv hnd

/-! ### the code as found: the two `Pieces.Del` defects, on concrete witnesses -/

def gW : Geom := { ps := 2, length := 4, cs := 2 }
def gW3 : Geom := { ps := 2, length := 6, cs := 2 }
def HW : Bytes → Bytes := fun _ => []

/-- as found, `Pieces.Del` latched `deleted` AFTER the loop -/
def delProgramOrig (n : Nat) : List Step := (List.range' 0 n).map (fun i => .del i true) ++ [.latch]

/-- the statement of `C03_del_releases_all` for the original latch order -/
def C03_orig_del_full : Prop :=
  ∀ (tr : List (Bool × Step)) (s' : State), threadOf tr = delProgramOrig gW.numPieces →
    runT gW HW (init gW) tr = some s' →
    ∀ (i : Nat) (p : Piece), s'.pieces[i]? = some p → p.data = none

/-- piece 1 is being hashed; `Del` frees piece 0 and waits (lock released) for piece 1;
    AddData refills piece 0 (`deleted` not yet set); `Del` finishes: piece 0 survives. -/
def latchWitness : List (Bool × Step) :=
  [(false, .addData 0 0 [1, 2] 1 true), (false, .addData 1 0 [3, 4] 1 true), (false, .finBegin 1),
   (true, .del 0 true),
   (false, .addData 0 0 [5, 6] 1 true), (false, .finEnd 1 []),
   (true, .del 1 true), (true, .latch)]

theorem C03_orig_del_latch_refuted : ¬ C03_orig_del_full := by
  intro h
  have hthr : threadOf latchWitness = delProgramOrig gW.numPieces := by decide
  have hrun : (runT gW HW (init gW) latchWitness).isSome = true := by decide
  obtain ⟨s', hs'⟩ := Option.isSome_iff_exists.mp hrun
  have h0 := h latchWitness s' hthr hs'
  have hd : ((runT gW HW (init gW) latchWitness).bind (fun s => s.pieces[0]?)).map
      (fun p => p.data.isSome) = some true := by decide
  rw [hs'] at hd
  simp only [Option.bind_some] at hd
  cases hp : s'.pieces[0]? with
  | none => rw [hp] at hd; cases hd
  | some p =>
    rw [hp] at hd
    have := h0 0 p hp
    simp [this] at hd

/-- the same interleaving against the repaired order: the late AddData is refused -/
example : ((runT gW HW (init gW)
    [(false, .addData 0 0 [1, 2] 1 true), (false, .addData 1 0 [3, 4] 1 true), (false, .finBegin 1),
     (true, .latch), (true, .del 0 true),
     (false, .addData 0 0 [5, 6] 1 true), (false, .finEnd 1 []),
     (true, .del 1 true)]).map (fun s => (s.deleted, s.allocated, s.count))) = some (true, 0, 0) := by
  decide

/-- as found, `del(p, true)` did not re-test `data == nil` after waiting: when the Finalise
    it waited for fails (and frees the piece itself), `count` is decremented twice and the
    next line panics "Negative pieces count" — inside `Pieces.Del`, i.e. in `Torrent.run`'s
    exit path.  `delResumeOrig` is that continuation. -/
theorem C03_orig_del_double_count :
    let s0 := run HW gW (init gW) [.addData 0 0 [1, 2] 1 true, .finBegin 0]
    (del s0 0 true).2 = .del false false true ∧          -- Del has to wait for the hasher
    (let s1 := (finEnd HW s0 0 [9]).1                     -- the hash fails: piece freed
     s1.count = 0 ∧ (delResumeOrig s1 0).2 = .panic "Negative pieces count" ∧
     -- the repaired `del` starts over and finds nothing to do
     (del s1 0 true) = (s1, .del false false false)) := by
  decide

/-! ### `tor.Expire`: the arithmetic -/

/-- **the repaired policy is total**: no division by zero for any memory mark, any sample,
    any table (empty, shrunk, grown between the walks). -/
theorem C03_policy_total (mark space : Int) (cnt : Nat) (b1 b2 : List Int) :
    policy true mark space cnt b1 b2 ≠ .panic := by
  unfold policy
  simp only
  repeat' split
  all_goals simp_all

/-- **when the code as found divides by zero**: exactly when the pass is not cut short by the
    marks and either the table is empty or no torrent is above its fair share in the walk. -/
theorem C03_policy_orig_div_zero (mark space : Int) (cnt : Nat) (b1 b2 : List Int) :
    policy false mark space cnt b1 b2 = .panic ↔
      (¬ space < Int.tdiv (Int.tdiv (mark * 7) 8 + mark) 2 ∧ ¬ space < mark ∧
        (cnt = 0 ∨ b1.length - (b1.filter (· ≤ Int.tdiv (Int.tdiv (mark * 7) 8) cnt)).length = 0)) := by
  unfold policy
  simp only
  by_cases h1 : space < Int.tdiv (Int.tdiv (mark * 7) 8 + mark) 2
  · simp [h1]
  by_cases h2 : space < mark
  · simp [h1, h2]
  by_cases h3 : cnt = 0
  · simp [h1, h2, h3]
  by_cases h4 : b1.length - (b1.filter (· ≤ Int.tdiv (Int.tdiv (mark * 7) 8) cnt)).length = 0
  · simp [h1, h2, h3, h4]
  · simp [h1, h2, h3, h4]

/-- the full statement "tor.Expire never crashes" is false on the code as found … -/
def C03_orig_policy_full : Prop :=
  ∀ (mark space : Int) (cnt : Nat) (b1 b2 : List Int), 0 ≤ mark → 0 ≤ space →
    policy false mark space cnt b1 b2 ≠ .panic

/-- … with `-mem 0` and an empty table; and with a positive mark when the only torrent was
    emptied between the `alloc.Bytes()` sample and the walk (its `Bytes()` is then 0). -/
theorem C03_orig_policy_refuted : ¬ C03_orig_policy_full := by
  intro h
  exact h 0 0 0 [] [] (by decide) (by decide) (by decide)

theorem C03_orig_policy_race : policy false 1000 2000 1 [0] [0] = .panic := by decide

/-- on the repaired code the same inputs do nothing -/
example : policy true 0 0 0 [] [] = .idle ∧ policy true 1000 2000 1 [0] [0] = .idle := by decide

/-- the selection is exactly the torrents above the second fair share -/
theorem C03_policy_selection (mark space : Int) (cnt : Nat) (b1 b2 : List Int) (f : Int)
    (sel : List Nat) (h : policy true mark space cnt b1 b2 = .evict f sel) :
    ∀ i, i ∈ sel ↔ (i < b2.length ∧ b2.getD i 0 > f) := by
  unfold policy at h
  simp only at h
  by_cases h1 : space < Int.tdiv (Int.tdiv (mark * 7) 8 + mark) 2
  · simp [h1] at h
  by_cases h2 : space < mark
  · simp [h1, h2] at h
  by_cases h3 : cnt = 0
  · simp [h1, h2, h3] at h
  by_cases h4 : b1.length - (b1.filter (· ≤ Int.tdiv (Int.tdiv (mark * 7) 8) cnt)).length = 0
  · simp [h1, h2, h3, h4] at h
  · simp only [h1, h2, h3, h4, if_false, Policy.evict.injEq] at h
    obtain ⟨rfl, rfl⟩ := h
    intro i
    simp [List.mem_filter, List.mem_range]

/-! ### `tor.Expire` end to end: fairness and "evictable to the low mark" -/

theorem foldl_add_init (l : List Int) (a : Int) :
    l.foldl (fun x y => x + y) a = a + l.foldl (fun x y => x + y) 0 := by
  induction l generalizing a with
  | nil => simp
  | cons x xs ih => rw [List.foldl_cons, List.foldl_cons, ih (a + x), ih (0 + x)]; omega

theorem isum_cons (x : Int) (l : List Int) :
    (x :: l).foldl (fun a b => a + b) 0 = x + l.foldl (fun a b => a + b) 0 := by
  rw [List.foldl_cons, foldl_add_init]; omega

/-- what `policy … = .evict f sel` says about `f` -/
theorem policy_evict_spec (mark space : Int) (cnt : Nat) (b1 b2 : List Int) (f : Int)
    (sel : List Nat) (h : policy true mark space cnt b1 b2 = .evict f sel) :
    cnt ≠ 0 ∧ b1.length - (b1.filter (· ≤ Int.tdiv (Int.tdiv (mark * 7) 8) cnt)).length ≠ 0 ∧
    f = Int.tdiv (Int.tdiv (mark * 7) 8 -
          (b1.filter (· ≤ Int.tdiv (Int.tdiv (mark * 7) 8) cnt)).foldl (fun a b => a + b) 0)
        ((b1.length - (b1.filter (· ≤ Int.tdiv (Int.tdiv (mark * 7) 8) cnt)).length : Nat) : Int) := by
  unfold policy at h
  simp only at h
  by_cases h1 : space < Int.tdiv (Int.tdiv (mark * 7) 8 + mark) 2
  · simp [h1] at h
  by_cases h2 : space < mark
  · simp [h1, h2] at h
  by_cases h3 : cnt = 0
  · simp [h1, h2, h3] at h
  by_cases h4 : b1.length - (b1.filter (· ≤ Int.tdiv (Int.tdiv (mark * 7) 8) cnt)).length = 0
  · simp [h1, h2, h3, h4] at h
  · simp only [h1, h2, h3, h4, if_false, Policy.evict.injEq] at h
    exact ⟨h3, h4, h.1.symm⟩

/-- the arithmetic core, over plain integers: `L` = low mark ≥ 0, `n` = number of torrents,
    `fair = L / n`; the small torrents (≤ fair) total `S ≤ k·fair`; `B = n - k > 0` big ones.
    Then `fair ≤ (L - S) / B` and `B · ((L - S) / B) ≤ L - S`. -/
theorem fair_arith (L S fair : Int) (n k : Nat) (hL : 0 ≤ L) (hn : 0 < n) (hk : k < n)
    (hfair : fair = L / (n : Int)) (hS : S ≤ (k : Int) * fair) :
    0 ≤ L - S ∧ fair ≤ (L - S) / ((n - k : Nat) : Int) ∧
    ((n - k : Nat) : Int) * ((L - S) / ((n - k : Nat) : Int)) ≤ L - S := by
  have hnpos : (0 : Int) < (n : Int) := by omega
  have hf0 : 0 ≤ fair := by rw [hfair]; exact Int.ediv_nonneg hL (by omega)
  have hfn : fair * (n : Int) ≤ L := by rw [hfair]; exact Int.ediv_mul_le L (by omega)
  have hB : ((n - k : Nat) : Int) = (n : Int) - (k : Int) := by omega
  have hBpos : (0 : Int) < ((n - k : Nat) : Int) := by omega
  have hkf : (k : Int) * fair ≤ (n : Int) * fair :=
    Int.mul_le_mul_of_nonneg_right (by omega) hf0
  have hmul : fair * ((n - k : Nat) : Int) ≤ L - S := by
    rw [hB, Int.mul_sub, Int.mul_comm fair (k : Int)]
    omega
  have hnn : 0 ≤ L - S := by
    rw [Int.mul_comm] at hfn
    omega
  refine ⟨hnn, (Int.le_ediv_iff_mul_le hBpos).mpr hmul, ?_⟩
  rw [Int.mul_comm]
  exact Int.ediv_mul_le _ (by omega)

theorem filter_sum_le (l : List Int) (fair : Int) :
    (l.filter (· ≤ fair)).foldl (fun a b => a + b) 0 ≤ ((l.filter (· ≤ fair)).length : Int) * fair := by
  induction l with
  | nil => simp
  | cons x xs ih =>
    by_cases hx : x ≤ fair
    · have : (x :: xs).filter (· ≤ fair) = x :: xs.filter (· ≤ fair) := by simp [hx]
      rw [this, isum_cons, List.length_cons, Int.natCast_succ, Int.add_mul]
      omega
    · have : (x :: xs).filter (· ≤ fair) = xs.filter (· ≤ fair) := by simp [hx]
      rw [this]; exact ih

/-- **fairness** (`fair2 ≥ fair`): with a memory mark ≥ 0 and a consistent walk (the table
    has as many torrents as were counted), the second fair share is at least the first, so a
    torrent at or below its fair share is never selected for eviction. -/
theorem C03_policy_fair (mark space : Int) (b1 b2 : List Int) (f : Int) (sel : List Nat)
    (hmark : 0 ≤ mark) (h : policy true mark space b1.length b1 b2 = .evict f sel) :
    Int.tdiv (Int.tdiv (mark * 7) 8) b1.length ≤ f := by
  obtain ⟨hc, hB, hf⟩ := policy_evict_spec mark space b1.length b1 b2 f sel h
  have hL : 0 ≤ Int.tdiv (mark * 7) 8 := by
    rw [Int.tdiv_eq_ediv_of_nonneg (by omega)]; exact Int.ediv_nonneg (by omega) (by omega)
  generalize hLd : Int.tdiv (mark * 7) 8 = L at *
  have hfair : Int.tdiv L b1.length = L / (b1.length : Int) := Int.tdiv_eq_ediv_of_nonneg hL
  generalize hfd : Int.tdiv L b1.length = fair at *
  have hlen : (b1.filter (· ≤ fair)).length ≤ b1.length := List.length_filter_le _ _
  have hS := filter_sum_le b1 fair
  obtain ⟨hnn, hle, _⟩ := fair_arith L _ fair b1.length (b1.filter (· ≤ fair)).length hL
    (by omega) (by omega) hfair hS
  rw [hf, Int.tdiv_eq_ediv_of_nonneg hnn]
  exact hle

theorem held_le_bytesOf (Good : Nat → Bytes → Prop) (hv : g.Valid) (s : State)
    (hinv : Inv g H Good s) : (held g s : Int) ≤ bytesOf g s := by
  unfold bytesOf
  rw [hinv.count]
  have hle : ∀ (k : Nat) (ps : List Piece), heldFrom g k ps ≤ holding ps * g.ps := by
    intro k ps
    induction ps generalizing k with
    | nil => simp [heldFrom, holding]
    | cons x xs ih =>
      have := ih (k + 1)
      have hpl := pieceLength_le g k hv.ps
      simp only [heldFrom, holding, List.countP_cons] at this ⊢
      split <;> simp_all [Nat.add_mul] <;> omega
  have := hle 0 s.pieces
  unfold held
  exact_mod_cast this

theorem expRun_todo_le : ∀ (order : List Nat) (s : State) (todo : Int),
    (expRun g s todo order).2 ≤ todo := by
  intro order
  induction order with
  | nil => intro s todo; exact Int.le_refl _
  | cons i rest ih =>
    intro s todo
    unfold expRun
    by_cases hle : todo ≤ 0
    · rw [if_pos hle]; exact Int.le_refl _
    rw [if_neg hle]
    split
    · have := ih ‹State› (todo - g.ps); omega
    · exact ih _ _

abbrev bytesE (e : Geom × State) : Int := bytesOf e.1 e.2

/-- what `tor.Expire` does to one torrent once `fair2` is known: a complete pass of
    `Pieces.Expire(fair2, available, …)` if `Bytes() > fair2` (the visiting order `ord e`
    stands for whatever the availability answers and the random tie-break produce) -/
def passOne (f : Int) (ord : Geom × State → List Nat) (e : Geom × State) : Geom × State :=
  if bytesE e > f then (e.1, (expRun e.1 e.2 (bytesE e - f) (ord e)).1) else e

theorem passOne_spec (Good : Nat → Bytes → Prop) (f : Int) (ord : Geom × State → List Nat)
    (e : Geom × State) (hv : e.1.Valid) (hinv : Inv e.1 H Good e.2)
    (hord : ∀ i, i < e.2.pieces.length → i ∈ ord e) :
    (passOne f ord e).1 = e.1 ∧ Inv e.1 H Good (passOne f ord e).2 ∧
    bytesE (passOne f ord e) ≤ bytesE e ∧
    (bytesE e > f → bytesE (passOne f ord e) ≤ f ∨
      ∀ (i : Nat) (p : Piece), (passOne f ord e).2.pieces[i]? = some p → p.data ≠ none →
        p.state = .busy) := by
  unfold passOne
  by_cases hb : bytesE e > f
  · rw [if_pos hb]
    obtain ⟨h1, h2, h3⟩ := C03_expire_target e.1 H Good f (ord e) e.2 (bytesE e - f) hinv rfl
    have h4 := expRun_todo_le e.1 (ord e) e.2 (bytesE e - f)
    refine ⟨rfl, h1, ?_, fun _ => ?_⟩
    · show bytesOf e.1 (expRun e.1 e.2 (bytesE e - f) (ord e)).1 ≤ bytesE e
      omega
    · rcases h3 with h3 | h3
      · exact Or.inl h3
      · right
        intro i p hp
        apply h3 i p (hord i ?_) hp
        have := (List.getElem?_eq_some_iff.mp hp).1
        rw [h1.len] at this
        rw [hinv.len]; exact this
  · rw [if_neg hb]
    exact ⟨rfl, hinv, Int.le_refl _, fun h => absurd h hb⟩

/-- Σ of the final `Bytes()` against the policy's own quantities -/
theorem sum_capped (fair f : Int) (b c : Geom × State → Int) :
    ∀ (ts : List (Geom × State)),
      (∀ e, e ∈ ts → (b e ≤ fair → c e ≤ b e) ∧ (¬ b e ≤ fair → c e ≤ f)) →
      (ts.map c).foldl (fun x y => x + y) 0 ≤
        ((ts.map b).filter (· ≤ fair)).foldl (fun x y => x + y) 0 +
          (((ts.map b).length - ((ts.map b).filter (· ≤ fair)).length : Nat) : Int) * f := by
  intro ts
  induction ts with
  | nil => intro _; simp
  | cons e ts ih =>
    intro h
    have he := h e List.mem_cons_self
    have ih' := ih (fun x hx => h x (List.mem_cons_of_mem _ hx))
    have hlen : ((ts.map b).filter (· ≤ fair)).length ≤ (ts.map b).length := List.length_filter_le _ _
    rw [List.map_cons, List.map_cons, isum_cons]
    by_cases hs : b e ≤ fair
    · have : (b e :: ts.map b).filter (· ≤ fair) = b e :: (ts.map b).filter (· ≤ fair) := by simp [hs]
      rw [this, isum_cons, List.length_cons, List.length_cons]
      have := he.1 hs
      rw [show (ts.map b).length + 1 - (((ts.map b).filter (· ≤ fair)).length + 1) =
        (ts.map b).length - ((ts.map b).filter (· ≤ fair)).length by omega]
      omega
    · have : (b e :: ts.map b).filter (· ≤ fair) = (ts.map b).filter (· ≤ fair) := by simp [hs]
      rw [this, List.length_cons]
      have := he.2 hs
      rw [show (ts.map b).length + 1 - ((ts.map b).filter (· ≤ fair)).length =
        ((ts.map b).length - ((ts.map b).filter (· ≤ fair)).length) + 1 by omega,
        Int.natCast_succ, Int.add_mul]
      omega

theorem sumHeld_le (Good : Nat → Bytes → Prop) : ∀ (l : List (Geom × State)),
    (∀ e, e ∈ l → e.1.Valid ∧ Inv e.1 H Good e.2) →
    sumHeld l ≤ (l.map bytesE).foldl (fun x y => x + y) 0 := by
  intro l
  induction l with
  | nil => intro _; simp [sumHeld]
  | cons e l ih =>
    intro h
    have he := h e List.mem_cons_self
    have := ih (fun x hx => h x (List.mem_cons_of_mem _ hx))
    have hb : (held e.1 e.2 : Int) ≤ bytesE e := held_le_bytesOf e.1 H Good he.1 e.2 he.2
    rw [List.map_cons, isum_cons]
    simp only [sumHeld, List.map_cons, List.foldr_cons] at this ⊢
    omega

/-- **`C03_expire_reaches_low_mark`** — "evictable to the low mark", end to end.  Any set of
    torrents (each store in any state satisfying the invariant), any memory mark ≥ 0, any
    availability answers / tie-breaks (`ord`, any visiting orders that cover every piece):
    if `tor.Expire` decides to evict (`policy … = .evict fair2 sel`, computed from the
    torrents' `Bytes()`), then after every selected torrent's pass has completed, the memory
    actually allocated, Σ over torrents Σ over pieces holding a buffer of the piece length, is
    at most the low mark `MemoryMark·7/8` — OR some selected torrent is still above `fair2`
    and every piece it still holds is non-evictable: busy, i.e. being hashed (the only thing
    that makes `del(·, false)` skip a piece; the policy has no other exemption). -/
theorem C03_expire_reaches_low_mark (Good : Nat → Bytes → Prop) (ts : List (Geom × State))
    (hts : ∀ e, e ∈ ts → e.1.Valid ∧ Inv e.1 H Good e.2)
    (mark space : Int) (hmark : 0 ≤ mark) (ord : Geom × State → List Nat)
    (hord : ∀ e, e ∈ ts → ∀ i, i < e.2.pieces.length → i ∈ ord e)
    (f : Int) (sel : List Nat)
    (hpol : policy true mark space ts.length (ts.map bytesE) (ts.map bytesE) = .evict f sel) :
    sumHeld (ts.map (passOne f ord)) ≤ Int.tdiv (mark * 7) 8 ∨
    ∃ e, e ∈ ts ∧ bytesE e > f ∧ bytesE (passOne f ord e) > f ∧
      ∀ (i : Nat) (p : Piece), (passOne f ord e).2.pieces[i]? = some p → p.data ≠ none →
        p.state = .busy := by
  have hspec := fun e he => passOne_spec H Good f ord e (hts e he).1 (hts e he).2 (hord e he)
  by_cases hall : ∀ e, e ∈ ts → bytesE e > f → bytesE (passOne f ord e) ≤ f
  · left
    -- the policy's quantities
    have hlenmap : (ts.map bytesE).length = ts.length := by simp
    rw [← hlenmap] at hpol
    have hfairle := C03_policy_fair mark space _ _ f sel hmark hpol
    obtain ⟨_, hB, hf⟩ := policy_evict_spec mark space _ _ _ f sel hpol
    have hL : 0 ≤ Int.tdiv (mark * 7) 8 := by
      rw [Int.tdiv_eq_ediv_of_nonneg (by omega)]; exact Int.ediv_nonneg (by omega) (by omega)
    generalize hLd : Int.tdiv (mark * 7) 8 = L at *
    have hfair : Int.tdiv L (ts.map bytesE).length = L / ((ts.map bytesE).length : Int) :=
      Int.tdiv_eq_ediv_of_nonneg hL
    generalize hfd : Int.tdiv L (ts.map bytesE).length = fair at *
    have hflen : ((ts.map bytesE).filter (· ≤ fair)).length ≤ (ts.map bytesE).length :=
      List.length_filter_le _ _
    have hS := filter_sum_le (ts.map bytesE) fair
    obtain ⟨hnn, _, hmul⟩ := fair_arith L _ fair (ts.map bytesE).length
      ((ts.map bytesE).filter (· ≤ fair)).length hL (by omega) (by omega) hfair hS
    rw [Int.tdiv_eq_ediv_of_nonneg hnn] at hf
    -- the stores after the passes
    have hts' : ∀ e', e' ∈ ts.map (passOne f ord) → e'.1.Valid ∧ Inv e'.1 H Good e'.2 := by
      intro e' he'
      obtain ⟨e, he, rfl⟩ := List.mem_map.mp he'
      obtain ⟨h1, h2, _, _⟩ := hspec e he
      rw [h1]; exact ⟨(hts e he).1, h2⟩
    have h1 := sumHeld_le H Good _ hts'
    rw [List.map_map] at h1
    have h2 := sum_capped fair f bytesE (bytesE ∘ passOne f ord) ts (by
      intro e he
      obtain ⟨_, _, hle, _⟩ := hspec e he
      refine ⟨fun _ => hle, fun hbig => ?_⟩
      by_cases hsel : bytesE e > f
      · exact hall e he hsel
      · have : bytesE e ≤ f := by omega
        exact Int.le_trans hle this)
    rw [← hf] at hmul
    omega
  · right
    have : ∃ e, ¬ (e ∈ ts → bytesE e > f → bytesE (passOne f ord e) ≤ f) := Classical.not_forall.mp hall
    obtain ⟨e, he⟩ := this
    have hmem : e ∈ ts := Classical.byContradiction (fun h => he (fun h' => absurd h' h))
    have hbig : bytesE e > f := Classical.byContradiction (fun h => he (fun _ h' => absurd h' h))
    have hnot : ¬ bytesE (passOne f ord e) ≤ f := fun h => he (fun _ _ => h)
    obtain ⟨_, _, _, h4⟩ := hspec e hmem
    rcases h4 hbig with h | h
    · exact absurd h hnot
    · exact ⟨e, hmem, hbig, by omega, h⟩

/-! ### non-vacuity -/

/-- two torrents of two full pieces each (Bytes() = 4 each), mark 4 (low 3), 8 bytes allocated:
    fair = 1, fair2 = 1 ≥ fair, both selected; after the passes nothing is allocated -/
def sFull : State := run HW gW (init gW) [.addData 0 0 [1, 2] 1 true, .addData 1 0 [3, 4] 1 true]
example : policy true 4 8 2 [bytesE (gW, sFull), bytesE (gW, sFull)]
    [bytesE (gW, sFull), bytesE (gW, sFull)] = .evict 1 [0, 1] := by decide
example : sumHeld ([(gW, sFull), (gW, sFull)].map (passOne 1 (fun _ => [1, 0]))) = 0 := by decide
/-- … and the other disjunct: a torrent whose pieces are being hashed stays above fair2 -/
def sBusy : State := run HW gW (init gW)
  [.addData 0 0 [1, 2] 1 true, .addData 1 0 [3, 4] 1 true, .finBegin 0, .finBegin 1]
example : bytesE (passOne 1 (fun _ => [0, 1]) (gW, sBusy)) = 4 ∧
    ((passOne 1 (fun _ => [0, 1]) (gW, sBusy)).2.pieces.all (fun p => p.state == .busy)) = true := by
  decide


/-- a pass over two complete pieces and one incomplete one, with a refill in between:
    callbacks for the two complete pieces only -/
example :
    let s0 := run HW gW3 (init gW3)
      [.addData 0 0 [1, 2] 1 true, .finBegin 0, .finEnd 0 [], .addData 1 0 [3, 4] 1 true,
       .addData 2 0 [5, 6] 1 true, .finBegin 2, .finEnd 2 []]
    (passRun HW gW3 s0 (expStart gW3 s0 0 10 [])
      [.visit 0, .other (.addData 0 0 [7, 8] 1 true), .visit 1, .visit 2, .visit 0]).cbs = [0, 2] := by
  decide


example : gW.Valid := ⟨by decide, by decide⟩
example : expLegal [9000, 100, 8000] [1, 5, 3] [0, 1, 2] 2 = true := by decide   -- commonest of the old
example : expLegal [9000, 100, 8000] [1, 5, 3] [0, 1, 2] 1 = false := by decide
example : (expRun gW (run HW gW (init gW) [.addData 0 0 [1, 2] 1 true, .addData 1 0 [3, 4] 1 true]) 4 [1, 0]).1.count = 0 := by
  decide

end Storrent.Props.C03
