import Storrent.Lemmas.PieceSteps
import Storrent.Gen.LockTable
/-
C01 — Only hash-verified data is ever readable.

Model: Model/Piece.lean (one `Step` = one critical section of tor/piece/piece.go, SHA-1 = the
parameter `H`).  "All interleavings of block arrivals, finalisations, evictions, deletion and
reads" = all `List Step`; every theorem below is either about an arbitrary state satisfying
the invariant `Inv` or about `run H g (init g) steps` for arbitrary `steps`, `g`, `H`.
`Good i h` is the callers' discipline ("piece i is only ever finalised against h"); with
`Good := fun _ _ => True` nothing is assumed about the callers.
-/
namespace Storrent.Props.C01
open Storrent Storrent.Piece Storrent.Bitmap

variable (g : Geom) (H : Bytes → Bytes)

/-- callers finalise piece `i` against the metainfo hash `hs i` only
    (tor.finalisePiece: `t.PieceHashes[index]`) -/
def Metainfo (hs : Nat → Bytes) : Nat → Bytes → Prop := fun i h => h = hs i

/-! ### the invariant holds in every reachable state, for every interleaving -/

theorem C01_inv (hv : g.Valid) (steps : List Step) :
    Inv g H (fun _ _ => True) (run H g (init g) steps) :=
  inv_run g H _ hv _ steps (fun st _ => by cases st <;> trivial) (inv_init g H _)

theorem C01_inv_metainfo (hv : g.Valid) (hs : Nat → Bytes) (steps : List Step)
    (hdisc : ∀ st, st ∈ steps → StepGood (Metainfo hs) st) :
    Inv g H (Metainfo hs) (run H g (init g) steps) :=
  inv_run g H _ hv _ steps hdisc (inv_init g H _)

/-- complete ⇒ the buffer is present, has the full piece length and hashes to the metainfo
    digest — whatever was interleaved (corrupt blocks, failed finalisations, evictions …). -/
theorem C01_complete_is_verified (hv : g.Valid) (hs : Nat → Bytes) (steps : List Step)
    (hdisc : ∀ st, st ∈ steps → StepGood (Metainfo hs) st) (i : Nat) (p : Piece)
    (hp : (run H g (init g) steps).pieces[i]? = some p) (hc : p.state = .complete) :
    ∃ id d, p.data = some (id, d) ∧ d.length = g.pieceLength i ∧ H d = hs i := by
  have hinv := C01_inv_metainfo g H hv hs steps hdisc
  obtain ⟨id, d, hd, hh, hgood⟩ := (hinv.pieces i p hp).complete hc
  exact ⟨id, d, hd, (hinv.pieces i p hp).dlen id d hd, by rw [hh]; exact hgood⟩

/-- busy ⇒ the buffer is exactly the one handed to the hasher: not modified, not freed. -/
theorem C01_busy_untouched (hv : g.Valid) (steps : List Step) (i : Nat) (p : Piece)
    (hp : (run H g (init g) steps).pieces[i]? = some p) (hb : p.state = .busy) :
    ∃ id d, p.data = some (id, d) ∧ p.hashing = some (id, d) ∧
      id ∉ (run H g (init g) steps).freed := by
  have hinv := C01_inv g H hv steps
  obtain ⟨hne, hh⟩ := (hinv.pieces i p hp).busy hb
  cases hd : p.data with
  | none => exact absurd hd hne
  | some b =>
    exact ⟨b.1, b.2, rfl, by rw [hh, hd], (hinv.live i p b.1 b.2 hp hd).2⟩

/-- no buffer ⇒ empty bitmap and incomplete (failed hash, eviction, deletion leave nothing) -/
theorem C01_nodata (hv : g.Valid) (steps : List Step) (i : Nat) (p : Piece)
    (hp : (run H g (init g) steps).pieces[i]? = some p) (hd : p.data = none) :
    p.bitmap = [] ∧ p.state = .incomplete :=
  let h := ((C01_inv g H hv steps).pieces i p hp).nodata hd
  ⟨h.1, h.2.1⟩

/-- block bits are below the block count, buffers have the piece's length -/
theorem C01_shape (hv : g.Valid) (steps : List Step) (i : Nat) (p : Piece)
    (hp : (run H g (init g) steps).pieces[i]? = some p) :
    (∀ c, get p.bitmap c = true → c < g.pieceChunks i) ∧
    (∀ id d, p.data = some (id, d) → d.length = g.pieceLength i) :=
  let h := (C01_inv g H hv steps).pieces i p hp
  ⟨h.bits, h.dlen⟩

/-! ### reads -/

theorem take_length_take {α : Type} (l : List α) (m : Nat) : l.take (l.take m).length = l.take m := by
  rw [List.take_eq_take_iff]
  simp only [List.length_take]
  omega


theorem index_lt (hv : g.Valid) (off : Nat) (h : off < g.length) : off / g.ps < g.numPieces := by
  unfold Geom.numPieces
  rw [Nat.div_lt_iff_lt_mul hv.ps]
  have := ceil_mul_ge g.length g.ps hv.ps
  have hps := hv.ps
  rw [show g.length + (g.ps - 1) = g.length + g.ps - 1 by omega]
  omega

/-- `ReadAt(p, off)` with `off ≥ 0`, `len(p) = n`, in ANY state satisfying the invariant:
    either EOF exactly when `off ≥ length`; or zero bytes; or bytes of the single piece
    `off / ps`, which is complete and verified (`H d = vhash`, `Good`), taken at offset
    `off % ps` of its buffer — never beyond the piece, never more than asked. -/
theorem C01_read_sound (Good : Nat → Bytes → Prop) (hv : g.Valid) (s : State)
    (hinv : Inv g H Good s) (off n : Nat) :
    (g.length ≤ off ∧ readAt g s off n = (s, .read [] true)) ∨
    (off < g.length ∧ readAt g s off n = (s, .read [] false)) ∨
    (off < g.length ∧ ∃ p id d, s.pieces[off / g.ps]? = some p ∧ p.state = .complete ∧
        p.data = some (id, d) ∧ id ∉ s.freed ∧ H d = p.vhash ∧ Good (off / g.ps) p.vhash ∧
        d.length = g.pieceLength (off / g.ps) ∧
        readAt g s off n = (s, .read ((d.drop (off % g.ps)).take n) false) ∧
        ((d.drop (off % g.ps)).take n).length ≤ n ∧
        off % g.ps + ((d.drop (off % g.ps)).take n).length ≤ g.pieceLength (off / g.ps)) := by
  unfold readAt
  by_cases hoff : (off : Int) ≥ (g.length : Int)
  · left
    exact ⟨by omega, by rw [if_pos hoff]⟩
  · right
    rw [if_neg hoff]
    have hlt : off < g.length := by omega
    have hps : g.ps ≠ 0 := by have := hv.ps; omega
    rw [if_neg hps]
    have hdiv : Int.tdiv (off : Int) (g.ps : Int) = ((off / g.ps : Nat) : Int) := rfl
    have hmod : Int.tmod (off : Int) (g.ps : Int) = ((off % g.ps : Nat) : Int) := rfl
    simp only [hdiv, hmod, Int.toNat_natCast]
    have hneg : ¬ ((off / g.ps : Nat) : Int) < 0 := Int.not_lt.mpr (Int.natCast_nonneg _)
    rw [if_neg hneg]
    have hidx : off / g.ps < s.pieces.length := by rw [hinv.len]; exact index_lt g hv off hlt
    obtain ⟨p, hp⟩ : ∃ p, s.pieces[off / g.ps]? = some p := ⟨_, List.getElem?_eq_getElem hidx⟩
    simp only [hp]
    have hpi := hinv.pieces _ p hp
    by_cases hc : p.state = .complete
    · obtain ⟨id, d, hd, hh, hgood⟩ := hpi.complete hc
      have hlen := hpi.dlen id d hd
      simp only [hd]
      by_cases hshort : d.length ≤ off % g.ps
      · left
        refine ⟨hlt, ?_⟩
        rw [if_pos (Or.inr (Int.ofNat_le.mpr hshort))]
      · right
        have hcond : ¬ (p.state ≠ .complete ∨ (d.length : Int) ≤ ((off % g.ps : Nat) : Int)) := by
          intro h; rcases h with h | h
          · exact h hc
          · exact hshort (Int.ofNat_le.mp h)
        rw [if_neg hcond]
        have hneg2 : ¬ ((off % g.ps : Nat) : Int) < 0 := Int.not_lt.mpr (Int.natCast_nonneg _)
        rw [if_neg hneg2]
        refine ⟨hlt, p, id, d, rfl, hc, hd, (hinv.live _ p id d hp hd).2, hh, hgood, hlen, rfl, ?_, ?_⟩
        · simp only [List.length_take]; omega
        · simp only [List.length_take, List.length_drop]; omega
    · left
      refine ⟨hlt, ?_⟩
      rw [if_pos (Or.inl hc)]

/-- a piece that is not complete (incomplete, being hashed, failed, evicted) yields no byte -/
theorem C01_read_incomplete (Good : Nat → Bytes → Prop) (hv : g.Valid) (s : State)
    (hinv : Inv g H Good s) (off n : Nat) (hlt : off < g.length) (p : Piece)
    (hp : s.pieces[off / g.ps]? = some p) (hc : p.state ≠ .complete) :
    readAt g s off n = (s, .read [] false) := by
  rcases C01_read_sound g H Good hv s hinv off n with h | h | h
  · omega
  · exact h.2
  · obtain ⟨_, q, _, _, hq, hqc, _⟩ := h
    rw [hp] at hq
    cases hq
    exact absurd hqc hc

/-- `C01_content`: under SHA-1 collision resistance for piece-sized inputs (stated as the
    hypothesis `hcr`) and the callers' discipline, the bytes returned at torrent offset `off`
    are the torrent's true content at `off`. -/
theorem C01_content (hv : g.Valid) (hs : Nat → Bytes) (content : Bytes)
    (hcr : ∀ i d, d.length = g.pieceLength i → H d = hs i →
      d = (content.drop (i * g.ps)).take (g.pieceLength i))
    (steps : List Step) (hdisc : ∀ st, st ∈ steps → StepGood (Metainfo hs) st)
    (off n : Nat) (bs : Bytes) (eof : Bool)
    (hr : (readAt g (run H g (init g) steps) off n).2 = .read bs eof) :
    bs = (content.drop off).take bs.length := by
  have hinv := C01_inv_metainfo g H hv hs steps hdisc
  rcases C01_read_sound g H _ hv _ hinv off n with h | h | h
  · rw [h.2] at hr; cases hr; rfl
  · rw [h.2] at hr; cases hr; rfl
  · obtain ⟨_, p, id, d, _, _, _, _, hh, hgood, hlen, hread, _, _⟩ := h
    rw [hread] at hr
    cases hr
    have hd := hcr _ d hlen (by rw [hh]; exact hgood)
    have hoffeq : off / g.ps * g.ps + off % g.ps = off := by
      have := Nat.div_add_mod off g.ps
      rw [Nat.mul_comm] at this
      exact this
    have e1 : (d.drop (off % g.ps)).take n =
        (content.drop off).take (min n (g.pieceLength (off / g.ps) - off % g.ps)) := by
      conv => lhs; rw [hd]
      rw [List.drop_take, List.drop_drop, hoffeq, List.take_take]
    rw [e1]
    exact (take_length_take _ _).symm

/-! ### AddData -/

theorem getElem?_setP_self (s : State) (i : Nat) (p' : Piece) (hlt : i < s.pieces.length) :
    (setP s i p').pieces[i]? = some p' := by
  simp [setP, hlt]


/-- `AddData` never writes when the piece is busy or complete, the torrent deleted, or
    `begin` misaligned / beyond the end: the state is unchanged. -/
theorem C01_add_refuses (s : State) (i begin : Nat) (inp : Bytes) (peer : Nat) (p : Piece)
    (hp : s.pieces[i]? = some p)
    (h : p.state ≠ .incomplete ∨ s.deleted = true ∨ begin % g.cs ≠ 0 ∨ begin ≥ g.pieceLength i) :
    (addData g s i begin inp peer).1 = s ∧
    ∃ e, (addData g s i begin inp peer).2 = .add 0 false e := by
  unfold addData
  simp only [hp]
  by_cases h1 : p.state ≠ .incomplete
  · rw [if_pos h1]; exact ⟨rfl, _, rfl⟩
  rw [if_neg h1]
  by_cases h2 : s.deleted = true
  · rw [if_pos h2]; exact ⟨rfl, _, rfl⟩
  rw [if_neg h2]
  by_cases h3 : begin % g.cs ≠ 0
  · rw [if_pos h3]; exact ⟨rfl, _, rfl⟩
  rw [if_neg h3]
  by_cases h4 : begin ≥ g.pieceLength i
  · rw [if_pos h4]; exact ⟨rfl, _, rfl⟩
  · rcases h with h | h | h | h <;> contradiction

/-- What an accepted `AddData` does, in any state satisfying the invariant: the buffer keeps
    its identity and length; **no byte of a block whose bit was already set changes and no
    set bit is cleared**; bits newly set lie inside the consumed range; the returned count is
    at most the input, stays inside the piece, and is a whole number of blocks (the short
    final block of the piece included). -/
theorem C01_no_overwrite (Good : Nat → Bytes → Prop) (hv : g.Valid) (s : State)
    (hinv : Inv g H Good s) (i begin : Nat) (inp : Bytes) (peer : Nat) (p : Piece)
    (hp : s.pieces[i]? = some p) (hst : p.state = .incomplete) (hdel : s.deleted = false)
    (hal : begin % g.cs = 0) (hb : begin < g.pieceLength i) :
    ∃ p' cnt cpl id d', (addData g s i begin inp peer).1.pieces[i]? = some p' ∧
      (addData g s i begin inp peer).2 = .add cnt cpl .ok ∧
      p'.data = some (id, d') ∧ d'.length = g.pieceLength i ∧ p'.state = .incomplete ∧
      (∀ d, p.data = some d → d.1 = id) ∧
      (∀ c, get p.bitmap c = true → get p'.bitmap c = true) ∧
      (∀ d pos, p.data = some d → get p.bitmap (pos / g.cs) = true → d'[pos]? = d.2[pos]?) ∧
      (∀ c, get p'.bitmap c = true → get p.bitmap c = false →
        begin ≤ c * g.cs ∧ c * g.cs < begin + cnt) ∧
      cnt ≤ inp.length ∧ begin + cnt ≤ g.pieceLength i ∧
      (cnt = 0 ∨ (begin + cnt) % g.cs = 0 ∨ begin + cnt = g.pieceLength i) := by
  have hpi := hinv.pieces i p hp
  have hlt : i < s.pieces.length := (List.getElem?_eq_some_iff.mp hp).1
  unfold addData
  simp only [hp]
  rw [if_neg (by simp [hst]), if_neg (by simp [hdel]), if_neg (by omega), if_neg (by omega)]
  cases hdat : p.data with
  | some b =>
    simp only
    have hlen := hpi.dlen b.1 b.2 (by rw [hdat])
    have spec := addData_loop g hv i begin inp b.2 p.bitmap hlen hb hal hpi.bits
    generalize addLoop g.cs (g.pieceLength i) inp (inp.length + 1) begin 0 b.2 p.bitmap false = r
      at spec ⊢
    refine ⟨_, r.1, _, b.1, r.2.1, getElem?_setP_self _ _ _ hlt, rfl, rfl, by rw [spec.len, hlen],
      hst, ?_, spec.mono, ?_, ?_, ?_, ?_, ?_⟩
    · intro d h; cases h; rfl
    · intro d pos h hg; cases h; exact spec.keep pos hg
    · intro c h1 h2; have := spec.newbits c h1 h2; omega
    · have := spec.cnt_le; omega
    · have := spec.adv; omega
    · rcases spec.whole with h | h | h
      · left; omega
      · right; left; simpa using h
      · right; right; omega
  | none =>
    simp only
    have hlen : (List.replicate (g.pieceLength i) (0 : UInt8)).length = g.pieceLength i := by simp
    have spec := addData_loop g hv i begin inp _ p.bitmap hlen hb hal hpi.bits
    generalize addLoop g.cs (g.pieceLength i) inp (inp.length + 1) begin 0
      (List.replicate (g.pieceLength i) 0) p.bitmap false = r at spec ⊢
    refine ⟨_, r.1, _, s.nextBuf, r.2.1, getElem?_setP_self _ _ _ hlt, rfl, rfl,
      by rw [spec.len, hlen], hst, ?_, spec.mono, ?_, ?_, ?_, ?_, ?_⟩
    · intro d h; cases h
    · intro d pos h; cases h
    · intro c h1 h2; have := spec.newbits c h1 h2; omega
    · have := spec.cnt_le; omega
    · have := spec.adv; omega
    · rcases spec.whole with h | h | h
      · left; omega
      · right; left; simpa using h
      · right; right; omega

/-! ### no use-after-free, no double free -/

/-- the hasher (`sha1.Sum(data)` with the lock released) always reads a live buffer whose
    contents are what it was handed at `finBegin` — in every reachable state. -/
theorem C01_no_uaf_hasher (Good : Nat → Bytes → Prop) (s : State) (hinv : Inv g H Good s)
    (i : Nat) (b : Bool) (h : (hashRead s i).2 = .hashed b) : b = true := by
  unfold hashRead at h
  cases hp : s.pieces[i]? with
  | none => rw [hp] at h; cases h
  | some p =>
    rw [hp] at h
    simp only at h
    by_cases hst : p.state ≠ .busy
    · rw [if_pos hst] at h; cases h
    · rw [if_neg hst] at h
      have hbusy : p.state = .busy := by cases hs : p.state <;> simp_all
      obtain ⟨hne, hh⟩ := (hinv.pieces i p hp).busy hbusy
      cases hd : p.data with
      | none => exact absurd hd hne
      | some bd =>
        rw [hh, hd] at h
        simp only at h
        have hlive := (hinv.live i p bd.1 bd.2 hp hd).2
        simp [hlive] at h
        exact h

/-- a buffer passed to `alloc.Free` was never freed before; buffers in use are not in `freed` -/
theorem C01_no_uaf (hv : g.Valid) (steps : List Step) :
    (run H g (init g) steps).freed.Nodup ∧
    ∀ (i : Nat) (p : Piece) (id : Nat) (d : Bytes), (run H g (init g) steps).pieces[i]? = some p →
      (p.data = some (id, d) ∨ p.hashing = some (id, d)) →
      id ∉ (run H g (init g) steps).freed := by
  have hinv := C01_inv g H hv steps
  refine ⟨hinv.freedNodup, ?_⟩
  intro i p id d hp h
  rcases h with h | h
  · exact (hinv.live i p id d hp h).2
  · have hpi := hinv.pieces i p hp
    by_cases hb : p.state = .busy
    · have := (hpi.busy hb).2
      rw [this] at h
      exact (hinv.live i p id d hp h).2
    · rw [hpi.idle hb] at h; cases h

/-! ### deletion: nothing is accepted afterwards -/

/-- once `deleted` is latched, `AddData` stores nothing and `Finalise` starts nothing -/
theorem C01_deleted_refuses (s : State) (hdel : s.deleted = true) (i : Nat) :
    (∀ b inp peer, (addData g s i b inp peer).1 = s) ∧ (finBegin g s i).1 = s := by
  constructor
  · intro b inp peer
    cases hp : s.pieces[i]? with
    | none => unfold addData; simp [hp]
    | some p => exact (C01_add_refuses g s i b inp peer p hp
        (by by_cases h : p.state ≠ .incomplete
            · exact Or.inl h
            · exact Or.inr (Or.inl hdel))).1
  · unfold finBegin
    cases hp : s.pieces[i]? with
    | none => rfl
    | some p =>
      simp only
      by_cases h : p.state ≠ .incomplete
      · rw [if_pos h]
      · rw [if_neg h, if_pos hdel]

/-! ### uploads: what is served to a remote peer

`peer.scheduleUpload` answers a request `(index, begin, length)` with
`n, _ := Pieces.ReadAt(buf[:length], int64(index)*int64(pieceSize) + int64(begin))` and sends
`Piece{index, begin, buf}` only if `n == length` (peer/peer.go); otherwise it rejects. -/

/-- the payload `scheduleUpload` puts on the wire for a request, if any -/
def uploadPayload (g : Geom) (s : State) (index begin len : Nat) : Option Bytes :=
  match (readAt g s ((index * g.ps + begin : Nat) : Int) len).2 with
  | .read bs false => if bs.length = len then some bs else none
  | _ => none

/-- **`C01_upload_sound`**: in every reachable state (any interleaving of block arrivals,
    finalisations, evictions, deletion), a non-empty payload served for `(index, begin, len)`
    is exactly the `len` bytes of the torrent's true content at offset `index·ps + begin`,
    they lie inside ONE piece, and that piece is complete and verified against the metainfo
    hash at that moment (collision resistance as the explicit hypothesis `hcr`); for an
    in-piece `begin` that piece is `index` itself. -/
theorem C01_upload_sound (hv : g.Valid) (hs : Nat → Bytes) (content : Bytes)
    (hcr : ∀ i d, d.length = g.pieceLength i → H d = hs i →
      d = (content.drop (i * g.ps)).take (g.pieceLength i))
    (steps : List Step) (hdisc : ∀ st, st ∈ steps → StepGood (Metainfo hs) st)
    (index begin len : Nat) (bs : Bytes) (hlen : 0 < len)
    (hup : uploadPayload g (run H g (init g) steps) index begin len = some bs) :
    bs.length = len ∧ bs = (content.drop (index * g.ps + begin)).take len ∧
    ∃ p id d, (run H g (init g) steps).pieces[(index * g.ps + begin) / g.ps]? = some p ∧
      p.state = .complete ∧ p.data = some (id, d) ∧ id ∉ (run H g (init g) steps).freed ∧
      H d = hs ((index * g.ps + begin) / g.ps) ∧
      (index * g.ps + begin) % g.ps + len ≤ g.pieceLength ((index * g.ps + begin) / g.ps) ∧
      (begin < g.ps → (index * g.ps + begin) / g.ps = index ∧ (index * g.ps + begin) % g.ps = begin) := by
  have hinv := C01_inv_metainfo g H hv hs steps hdisc
  unfold uploadPayload at hup
  have hcontent := C01_content g H hv hs content hcr steps hdisc (index * g.ps + begin) len
  rcases C01_read_sound g H _ hv _ hinv (index * g.ps + begin) len with h | h | h
  · rw [h.2] at hup; cases hup
  · rw [h.2] at hup
    simp only at hup
    split at hup
    · rename_i h0; simp at h0; omega
    · cases hup
  · obtain ⟨_, p, id, d, hp, hc, hd, hlive, hh, hgood, hl, hread, _, hfit⟩ := h
    have hc2 := hcontent _ false (by rw [hread])
    rw [hread] at hup
    simp only at hup
    split at hup
    · rename_i hbl
      cases hup
      refine ⟨hbl, hc2.trans (by rw [hbl]), p, id, d, hp, hc, hd, hlive, (by rw [hh]; exact hgood),
        (by rw [hbl] at hfit; exact hfit), ?_⟩
      intro hb
      have hps := hv.ps
      constructor
      · rw [Nat.mul_comm, Nat.mul_add_div hps, Nat.div_eq_of_lt hb]; rfl
      · rw [Nat.mul_comm, Nat.mul_add_mod, Nat.mod_eq_of_lt hb]
    · cases hup

/-! ### the top-level statement

`ReadAt` is ONE atomic step: its completeness test and its copy happen in the same hold of
the read lock (`C01_lock_discipline` below, about the current source), so "Del/Expire between
the test and the copy" is not an interleaving of the code, and every interleaving of any
number of readers, hashers, AddData, Expire and Del calls is a `List Step`. -/

/-- **`C01_main`**.  Take ANY history `steps = pre ++ st :: post` of the store (all
    interleavings of k readers, hashers, block arrivals — valid, corrupt, duplicate,
    misaligned, over-long —, finalisations against the metainfo hashes, evictions, deletion),
    and look at the step `st` taken in the state `s` reached by `pre`:
    * if `st` is a `ReadAt(off, n)` with `off ≥ 0`: it does not panic; it reports EOF exactly
      when `off ≥ length`; the bytes it returns are the torrent's true content at `off`
      (`hcr`: SHA-1 collision resistance), at most `n` of them; and if it returns any byte,
      they all come from the buffer of the single piece `off / ps`, which at that moment is
      complete, hashes to the metainfo digest, is NOT in the set of freed buffers, and the
      range read ends inside it;
    * if `st` is the hasher reading its buffer: the buffer is live and unmodified;
    * no buffer has been freed twice. -/
theorem C01_main (hv : g.Valid) (hs : Nat → Bytes) (content : Bytes)
    (hcr : ∀ i d, d.length = g.pieceLength i → H d = hs i →
      d = (content.drop (i * g.ps)).take (g.pieceLength i))
    (steps pre post : List Step) (st : Step)
    (hdisc : ∀ st, st ∈ steps → StepGood (Metainfo hs) st) (hsplit : steps = pre ++ st :: post) :
    let s := run H g (init g) pre
    (∀ (off n : Nat), st = .readAt off n →
      ∃ bs eof, (step H g s st).2 = .read bs eof ∧ (eof = true ↔ g.length ≤ off) ∧
        (eof = true → bs = []) ∧
        bs = (content.drop off).take bs.length ∧ bs.length ≤ n ∧
        (bs ≠ [] → ∃ p id d, s.pieces[off / g.ps]? = some p ∧ p.state = .complete ∧
          p.data = some (id, d) ∧ id ∉ s.freed ∧ H d = hs (off / g.ps) ∧
          bs = (d.drop (off % g.ps)).take n ∧
          off % g.ps + bs.length ≤ g.pieceLength (off / g.ps))) ∧
    (∀ i b, st = .hashRead i → (step H g s st).2 = .hashed b → b = true) ∧
    s.freed.Nodup := by
  intro s
  have hpre : ∀ x, x ∈ pre → StepGood (Metainfo hs) x := by
    intro x hx; apply hdisc; rw [hsplit]; exact List.mem_append_left _ hx
  have hinv : Inv g H (Metainfo hs) s := C01_inv_metainfo g H hv hs pre hpre
  refine ⟨?_, ?_, hinv.freedNodup⟩
  · intro off n hst
    subst hst
    show ∃ bs eof, (readAt g s off n).2 = .read bs eof ∧ _
    have hcontent := C01_content g H hv hs content hcr pre hpre off n
    rcases C01_read_sound g H _ hv s hinv off n with h | h | h
    · refine ⟨[], true, ?_, ?_, ?_, rfl, Nat.zero_le _, ?_⟩
      · rw [h.2]
      · simp; exact h.1
      · intro _; rfl
      · intro hne; exact absurd rfl hne
    · refine ⟨[], false, ?_, ?_, ?_, rfl, Nat.zero_le _, ?_⟩
      · rw [h.2]
      · simp; exact h.1
      · intro h'; cases h'
      · intro hne; exact absurd rfl hne
    · obtain ⟨hlt, p, id, d, hp, hc, hd, hlive, hh, hgood, hl, hread, hle, hfit⟩ := h
      refine ⟨_, false, ?_, ?_, ?_, ?_, hle, ?_⟩
      · rw [hread]
      · simp; exact hlt
      · intro h'; cases h'
      · exact hcontent _ false (by rw [hread])
      · intro _
        exact ⟨p, id, d, hp, hc, hd, hlive, (by rw [hh]; exact hgood), rfl, hfit⟩
  · intro i b hst hobs
    subst hst
    exact C01_no_uaf_hasher g H _ s hinv i b hobs

/-! ### tie to the source: the lock discipline the atomic steps rely on

One `Step` of the model = one hold of `ps.mu`.  That is only a faithful granularity if every
access to the shared fields happens inside the hold the model assigns it to, and if the test
that guards an access (ReadAt's `complete()`, AddData's/Finalise's re-test) is made in the
SAME hold as the access.  `Gen.lockTable` is regenerated from tor/piece/piece.go on every run
(harness/cmd/extract/locktable.go); a change such as "test completeness with the atomic
accessor before taking the lock" changes the table and fails both theorems. -/

open Storrent.LockTable in
theorem C01_gen_locktable :
    Gen.lockTable = expectedLockTable ∧ Gen.lockAssumed = expectedLockAssumed ∧
    Gen.lockFunctions = expectedLockFunctions := by decide

open Storrent.LockTable in
theorem C01_lock_discipline : disciplineOk Gen.lockTable Gen.lockAssumed = true := by decide

open Storrent.LockTable in
/-- what `C01_lock_discipline` says about the buffers, spelled out: in the current source,
    every access to `data` in ReadAt / AddData / Finalise sits in a lock hold in which the
    piece's state was read under that same lock. -/
theorem C01_lock_discipline_data (r : Row) (hr : r ∈ Gen.lockTable)
    (hfn : r.fn = "Pieces.ReadAt" ∨ r.fn = "Pieces.AddData" ∨ r.fn = "Pieces.Finalise")
    (hf : r.field = "data") (hv : r.via = .plain) :
    ∃ c, c ∈ Gen.lockTable ∧ c.fn = r.fn ∧ c.via = .plain ∧ c.field = "state" ∧ c.rw = .r ∧
      c.hold = r.hold ∧ (c.lock = .wlock ∨ c.lock = .rlock) := by
  have h := C01_lock_discipline
  unfold disciplineOk at h
  simp only [Bool.and_eq_true] at h
  have h6 := h.2
  rw [List.all_eq_true] at h6
  have hrow := h6 r hr
  have hg : gatedFns.contains r.fn = true := by
    rcases hfn with e | e | e <;> rw [e] <;> decide
  simp only [hg, hv, hf, beq_self_eq_true, Bool.true_and, Bool.true_or, Bool.not_true,
    Bool.false_or, List.any_eq_true, Bool.and_eq_true, locked, Bool.or_eq_true, beq_iff_eq] at hrow
  obtain ⟨c, hc, ⟨⟨⟨⟨⟨h1, h2⟩, h3⟩, h4⟩, h5⟩, h7⟩⟩ := hrow
  exact ⟨c, hc, h1, h2, h3, h4, h5, h7⟩

/-- with the allocation outcome as an input: a deleted store still accepts nothing -/
theorem addDataA_deleted (s : State) (hdel : s.deleted = true) (i b : Nat) (inp : Bytes)
    (peer : Nat) (ok : Bool) : (addDataA g s i b inp peer ok).1 = s := by
  unfold addDataA
  split
  · rfl
  · exact (C01_deleted_refuses g s hdel i).1 b inp peer

/-! ### non-vacuity: a concrete run that completes a piece and reads it back -/

def gEx : Geom := { ps := 4, length := 6, cs := 2 }
def HEx : Bytes → Bytes := fun d => [UInt8.ofNat d.length]
def stepsEx : List Step :=
  [.addData 0 0 [1, 2] 7 true, .addData 0 2 [3, 4] 8 true, .finBegin 0, .hashRead 0, .finEnd 0 [4]]

example : gEx.Valid := ⟨by decide, by decide⟩
example : ((run HEx gEx (init gEx) stepsEx).pieces[0]?).map (·.state) = some .complete := by
  decide
example : (readAt gEx (run HEx gEx (init gEx) stepsEx) 1 10).2 = .read [2, 3, 4] false := by
  decide
example : uploadPayload gEx (run HEx gEx (init gEx) stepsEx) 0 1 3 = some [2, 3, 4] := by decide
/-- a request reaching past the end of the piece is not served (short read ⇒ reject) -/
example : uploadPayload gEx (run HEx gEx (init gEx) stepsEx) 0 1 4 = none := by decide
/-- after eviction the same request is not served either -/
example : uploadPayload gEx (run HEx gEx (init gEx) (stepsEx ++ [.del 0 false])) 0 1 3 = none := by decide
example : ∀ st, st ∈ stepsEx → StepGood (Metainfo (fun _ => [4])) st := by
  intro st h
  simp only [stepsEx, List.mem_cons, List.mem_nil_iff, or_false] at h
  rcases h with rfl | rfl | rfl | rfl | rfl <;> simp [StepGood, Metainfo]

end Storrent.Props.C01
