import Storrent.Props.C04
import Storrent.Model.WireParse
/-
C04 (continued) — frame locality and the reader loop.

`Props/C04.lean` states the per-call clauses (never nil/nil, no panic, exact framing, cap,
allocation).  Here: the outcome of one call depends on the frame alone (`C04_frame_local`),
and the consequences for the loop of `protocol.Reader` (`decodeAll`): it stops at the first
error, never yields a crash, and steps exactly frame by frame.
-/
namespace Storrent.Props.C04
open Storrent Storrent.Wire

theorem bodyExt_local (bd : BDec) (L : Nat) (rest : Bytes) (hL : 2 ≤ L) (hr : L - 1 ≤ rest.length) :
    bodyExt expectedGuards bd L rest = bodyExt expectedGuards bd L (rest.take (L - 1)) := by
  cases rest with
  | nil => simp at hr; omega
  | cons sb rest2 =>
    have hL' : L - 1 = (L - 2) + 1 := by omega
    rw [hL', List.take_succ_cons]
    simp only [List.length_cons] at hr
    have hr2 : L - 2 ≤ rest2.length := by omega
    unfold bodyExt
    simp only []
    have hlt : (rest2.take (L - 2)).length = L - 2 := by simp [List.length_take]; omega
    split
    · -- unknown sub-id
      simp [hlt]; omega
    · rename_i srow hs
      obtain ⟨sf, s3, s4, s012, ssub⟩ := sub_rows sb.toNat srow hs
      rcases ssub with h0|h0|h0|h0|h0
      all_goals simp only [h0]
      · simp [s012 (Or.inl h0), guardViolated, hlt, List.take_take]
        omega
      · simp [s012 (Or.inr (Or.inl h0)), guardViolated, hlt, List.take_take]
        omega
      · simp [s012 (Or.inr (Or.inr h0)), guardViolated, hlt, List.take_take]
        omega
      · simp [s3 h0, sf (Or.inl h0), guardViolated, failRes]
        by_cases h4 : L - 2 = 4
        · have hm : min 4 rest2.length = 4 := by omega
          simp [h4, List.take_take]
          rw [h4] at hr2
          simp [Nat.min_eq_left hr2]
          omega
        · simp [h4]
      · simp [s4 h0, sf (Or.inr h0), guardViolated, failRes]
        by_cases h1 : L - 2 = 1
        · simp only [h1, if_true]
          cases rest2 with
          | nil => simp at hr2; omega
          | cons v tl => simp
        · simp [h1]

theorem take_take_le {α} (l : List α) (n m : Nat) (h : n ≤ m) : (l.take m).take n = l.take n := by
  rw [List.take_take, Nat.min_eq_left h]

theorem drop_take_take {α} (l : List α) (k n m : Nat) (h : k + n ≤ m) :
    ((l.take m).drop k).take n = (l.drop k).take n := by
  rw [List.drop_take, List.take_take, Nat.min_eq_left (by omega)]

theorem body_local (bd : BDec) (L t : Nat) (rest : Bytes) (hL : 1 ≤ L) (hr : L - 1 ≤ rest.length) :
    body expectedGuards bd L t rest = body expectedGuards bd L t (rest.take (L - 1)) := by
  have hlt : (rest.take (L - 1)).length = L - 1 := by simp [List.length_take]; omega
  cases h : findGuard expectedGuards t none with
  | none =>
    unfold body
    simp only [h, hlt]
    simp; omega
  | some row =>
    have g := guard_rows t row h
    obtain ⟨gf, g1, g5, g13, gbf, gpc, gport, gext, gt⟩ := g
    unfold body
    simp only [h]
    rcases gt with rfl|rfl|rfl|rfl|rfl|rfl|rfl|rfl|rfl|rfl|rfl|rfl|rfl|rfl|rfl|rfl
    all_goals simp only [gf, failRes, guardViolated]
    · simp [g1]
    · simp [g1]
    · simp [g1]
    · simp [g1]
    -- 4
    · simp [g5]
      by_cases hL5 : L = 5
      · subst hL5
        have hm : min 4 rest.length = 4 := by simp at hr; omega
        simp [List.take_take, hm]; omega
      · simp [hL5]
    -- 5
    · have hm : min (L - 1) rest.length = L - 1 := by omega
      simp [gbf, List.take_take, hm]
      rw [if_neg (show ¬ rest.length < L - 1 by omega)]
    -- 6
    · simp [g13]
      by_cases hL13 : L = 13
      · subst hL13
        have hm : min 12 rest.length = 12 := by simp at hr; omega
        simp [List.take_take, hm]; omega
      · simp [hL13]
    -- 7
    · have hm : min (L - 1) rest.length = L - 1 := by omega
      simp [gpc, hm]
      by_cases h9 : L < 9
      · simp [h9]
      · simp only [h9, if_false]
        rw [take_take_le _ _ _ (by omega)]
        rw [drop_take_take _ _ _ _ (by omega), drop_take_take _ _ _ _ (by omega)]
        rw [if_neg (show ¬ rest.length < 8 by omega), if_neg (show ¬ rest.length < L - 1 by omega),
          if_neg (show ¬ L - 1 < 8 by omega)]
    -- 8
    · simp [g13]
      by_cases hL13 : L = 13
      · subst hL13
        have hm : min 12 rest.length = 12 := by simp at hr; omega
        simp [List.take_take, hm]; omega
      · simp [hL13]
    -- 9
    · simp [gport]
      by_cases hL3 : L = 3
      · subst hL3
        have hm : min 2 rest.length = 2 := by simp at hr; omega
        simp [List.take_take, hm]; omega
      · simp [hL3]
    -- 13
    · simp [g5]
      by_cases hL5 : L = 5
      · subst hL5
        have hm : min 4 rest.length = 4 := by simp at hr; omega
        simp [List.take_take, hm]; omega
      · simp [hL5]
    -- 14, 15
    · simp [g1]
    · simp [g1]
    -- 16
    · simp [g13]
      by_cases hL13 : L = 13
      · subst hL13
        have hm : min 12 rest.length = 12 := by simp at hr; omega
        simp [List.take_take, hm]; omega
      · simp [hL13]
    -- 17
    · simp [g5]
      by_cases hL5 : L = 5
      · subst hL5
        have hm : min 4 rest.length = 4 := by simp at hr; omega
        simp [List.take_take, hm]; omega
      · simp [hL5]
    -- 20
    · simp [gext]
      by_cases h2 : L < 2
      · simp [h2]
      · simp only [h2, if_false]
        exact bodyExt_local bd L rest (by omega) hr

theorem decodeWith_local (bd : BDec) (bs : Bytes) (L : Nat) (hL : rdBE (bs.take 4) = L)
    (h4 : 4 ≤ bs.length) (hfr : 4 + L ≤ bs.length) :
    decodeWith expectedGuards expectedFrameCap bd bs =
      decodeWith expectedGuards expectedFrameCap bd (bs.take (4 + L)) := by
  have ht4 : (bs.take (4 + L)).take 4 = bs.take 4 := take_take_le _ _ _ (by omega)
  have hlen : (bs.take (4 + L)).length = 4 + L := by simp [List.length_take]; omega
  unfold decodeWith
  have n1 : ¬ bs.length < 4 := by omega
  have n2 : ¬ (bs.take (4 + L)).length < 4 := by rw [hlen]; omega
  simp only [n1, n2, if_false, ht4, hL]
  by_cases h0 : L = 0
  · simp [h0]
  · simp only [h0, if_false]
    by_cases hc : L > expectedFrameCap
    · simp [hc]
    · simp only [hc, if_false]
      rw [List.drop_take]
      have e : 4 + L - 4 = L := by omega
      rw [e]
      cases hd : List.drop 4 bs with
      | nil =>
        have := congrArg List.length hd
        simp at this; omega
      | cons t rest =>
        have hl : bs.length = 5 + rest.length := by
          have := congrArg List.length hd
          simp [List.length_drop] at this
          omega
        obtain ⟨k, rfl⟩ : ∃ k, L = k + 1 := ⟨L - 1, by omega⟩
        rw [List.take_succ_cons]
        simp only []
        have := body_local bd (k + 1) t.toNat rest (by omega) (by simp; omega)
        simpa using this

/-- **Frame locality**: once a whole frame is present, the outcome of `protocol.Read` (message
    or error, bytes consumed, allocation) is a function of that frame alone — no byte behind the
    frame can influence how it is decoded, for every bencode decoder. -/
theorem C04_frame_local (bd : BDec) (bs : Bytes) (h4 : 4 ≤ bs.length)
    (hfr : 4 + announced bs ≤ bs.length) :
    decode bd bs = decode bd (bs.take (4 + announced bs)) := by
  rw [decode_eq, decode_eq]
  exact decodeWith_local bd bs _ rfl h4 hfr

/-- consequence: two streams that agree on their first frame decode it identically -/
theorem C04_frame_local_append (bd : BDec) (f r1 r2 : Bytes) (h4 : 4 ≤ f.length)
    (hf : f.length = 4 + announced f) :
    decode bd (f ++ r1) = decode bd (f ++ r2) := by
  have ha : ∀ r, announced (f ++ r) = announced f := by
    intro r; unfold announced
    rw [List.take_append_of_le_length h4]
  have h : ∀ r, decode bd (f ++ r) = decode bd f := by
    intro r
    rw [C04_frame_local bd (f ++ r) (by simp; omega) (by rw [ha]; simp; omega), ha, ← hf]
    simp
  rw [h r1, h r2]


def Res.isMsg : Res → Bool
  | .msg _ => true
  | _ => false

/-- **The reader stops at the first error**: in the sequence of results the reader loop produces
    from any byte stream, every result except possibly the last is a message — after an error
    (or a refused frame) nothing further is decoded or delivered. -/
theorem C04_stream_stops_at_first_error (bd : BDec) (fuel : Nat) (bs : Bytes) :
    ((decodeAll Gen.wireGuards Gen.frameCap bd fuel bs).dropLast).all Res.isMsg = true := by
  induction fuel generalizing bs with
  | zero => simp [decodeAll]
  | succ fuel ih =>
    unfold decodeAll
    split
    · simp
    · simp only []
      split
      · rename_i m hm
        have := ih (bs.drop (decodeWith Gen.wireGuards Gen.frameCap bd bs).consumed)
        cases hrest : decodeAll Gen.wireGuards Gen.frameCap bd fuel
            (bs.drop (decodeWith Gen.wireGuards Gen.frameCap bd bs).consumed) with
        | nil => simp
        | cons r rs =>
          rw [hrest] at this
          simp only [List.dropLast_cons_cons, List.all_cons, Res.isMsg, Bool.true_and]
          exact this
      · simp

/-- **No result of the reader loop is a crash or a silent nothing**: every element of the
    sequence is a message or an error (never `nilnil`, never `panic`), for every stream. -/
theorem C04_stream_no_panic (bd : BDec) (fuel : Nat) (bs : Bytes) :
    ∀ r ∈ decodeAll Gen.wireGuards Gen.frameCap bd fuel bs, r ≠ .nilnil ∧ r ≠ .panic := by
  induction fuel generalizing bs with
  | zero => simp [decodeAll]
  | succ fuel ih =>
    unfold decodeAll
    split
    · simp
    · simp only []
      have hn := C04_never_nilnil bd bs
      have hp := C04_no_panic bd bs
      have hd : decodeWith Gen.wireGuards Gen.frameCap bd bs = decode bd bs := rfl
      split
      · rename_i m hm
        intro r hr
        simp only [List.mem_cons] at hr
        rcases hr with rfl | hr
        · simp
        · exact ih _ r hr
      · rename_i r hr
        intro r' hr'
        simp only [List.mem_singleton] at hr'
        subst hr'
        rw [hd]
        exact ⟨hn, hp⟩

/-- **Stream locality**: if the stream starts with a complete frame that decodes to a message,
    the reader delivers that message and continues exactly behind the frame, whatever follows. -/
theorem C04_stream_step (bd : BDec) (fuel : Nat) (f rest : Bytes) (m : Msg) (h4 : 4 ≤ f.length)
    (hf : f.length = 4 + announced f) (hm : (decode bd f).res = .msg m) :
    decodeAll Gen.wireGuards Gen.frameCap bd (fuel + 1) (f ++ rest) =
      .msg m :: decodeAll Gen.wireGuards Gen.frameCap bd fuel rest := by
  have hloc : decode bd (f ++ rest) = decode bd f := by
    have := C04_frame_local_append bd f rest [] h4 hf
    simpa using this
  have hd : decodeWith Gen.wireGuards Gen.frameCap bd (f ++ rest) = decode bd (f ++ rest) := rfl
  have hc : (decode bd f).consumed = f.length := by
    rw [C04_exact_frame bd f m hm, hf]
  have hne : (f ++ rest).isEmpty = false := by
    cases f with
    | nil => simp at h4
    | cons x xs => rfl
  rw [decodeAll]
  simp only [hne, hd, hloc, hm, hc, List.drop_left']
  simp

end Storrent.Props.C04
