import Storrent.Model.CryptoPolicy
import Storrent.Model.CryptoConn
import Storrent.Model.Handshake
import Storrent.Lemmas.CryptoConn
import Storrent.Gen.PolicyTable
import Storrent.Lemmas.MseFlat
/-
C08 — Encryption policy is honoured and the encrypted stream is transparent.

Model: Model/CryptoPolicy.lean (crypto.Options and every decision taken from it),
Model/CryptoConn.lean (crypto.Conn over an abstract keystream).  The theorems describe the
REPAIRED code (`fixed = true`: plaintext handshakes are refused under ForceEncryption);
`C08_policy_asfound_refuted` shows that the code as found violated the table.
-/
namespace Storrent.Props.C08
open Storrent Storrent.Policy Storrent.CryptoConn Storrent.Chunked

/-- what C08 demands of one cell of the table -/
def CellOK (k : Kind) (oc os : Options) (r : Mode × Mode) : Prop :=
  r.1 = r.2 ∧                                                   -- both ends agree
  (r.1 = .rc4 → oc.allowE = true ∧ os.allowE = true) ∧          -- an end that forbids: never RC4
  (r.1 = .plain → oc.forceE = false ∧ os.forceE = false) ∧      -- an end that forces: never plaintext
  (k = .plain → os.forceCH = true → r.2 = .fail)                -- forced crypto handshake: no plain one accepted

instance (k : Kind) (oc os : Options) (r : Mode × Mode) : Decidable (CellOK k oc os r) := by
  unfold CellOK; infer_instance

/-- **The whole policy table**: all 2^6 x 2^6 option pairs and both handshake kinds (a
    complete enumeration by the kernel, not a sample). -/
theorem C08_policy_table (k : Kind) (oc os : Options) : CellOK k oc os (negotiate true k oc os) := by
  obtain ⟨a1, a2, a3, a4, a5, a6⟩ := oc
  obtain ⟨b1, b2, b3, b4, b5, b6⟩ := os
  cases k <;> revert a1 a2 a3 a4 a5 a6 b1 b2 b3 b4 b5 b6 <;> decide

/-- the full statement about the code as found -/
def C08_policy_asfound_full : Prop :=
  ∀ (k : Kind) (oc os : Options), CellOK k oc os (negotiate false k oc os)

/-- … is false: a plain handshake between a client without any option and a server with
    only ForceEncryption set is accepted on both ends and runs unencrypted. -/
theorem C08_policy_asfound_refuted : ¬ C08_policy_asfound_full := by
  intro h
  have := h .plain ⟨false, false, false, false, false, false⟩ ⟨false, false, false, false, false, true⟩
  revert this
  decide

/-- the cells in which the code as found was wrong are exactly the plain handshakes with
    ForceEncryption on an end (and ForceCryptoHandshake not set on the server) -/
theorem C08_policy_asfound_partial (k : Kind) (oc os : Options)
    (h : k = .plain → oc.forceE = false ∧ os.forceE = false) :
    CellOK k oc os (negotiate false k oc os) := by
  obtain ⟨a1, a2, a3, a4, a5, a6⟩ := oc
  obtain ⟨b1, b2, b3, b4, b5, b6⟩ := os
  cases k <;> revert a1 a2 a3 a4 a5 a6 b1 b2 b3 b4 b5 b6 <;> decide

/-- the repair changes no cell that storrent itself can reach: options produced by
    `crypto.DefaultOptions` (the only producer of Options in storrent) on the dialling
    side, any handshake kind DialClient may try with them, DefaultOptions on the server -/
theorem C08_repair_preserves_defaults (k : Kind) (p f p' f' : Bool)
    (hk : k ∈ dialKinds (defaultOptions p f)) :
    negotiate true k (defaultOptions p f) (defaultOptions p' f')
      = negotiate false k (defaultOptions p f) (defaultOptions p' f') := by
  revert hk
  cases k <;> revert p f p' f' <;> decide

/-- with DefaultOptions: forcing on either end gives RC4 or nothing, never plaintext -/
theorem C08_defaults_force (k : Kind) (p p' f' : Bool) :
    (negotiate true k (defaultOptions p true) (defaultOptions p' f')).1 ≠ .plain ∧
    (negotiate true k (defaultOptions p' f') (defaultOptions p true)).1 ≠ .plain := by
  cases k <;> revert p p' f' <;> decide

/-- **Selection is sound**, for every `crypto_provide` a peer may send (all 2^32 values and
    beyond: only the two low bits are inspected) and every option set: the server selects
    plaintext or RC4 or refuses, only something offered, only something its policy allows. -/
theorem C08_select_sound (os : Options) (provide : Nat) :
    let s := serverSelect os provide
    (s = 0 ∨ s = 1 ∨ s = 2) ∧
    (s = 1 → provide % 2 = 1 ∧ os.forceE = false) ∧
    (s = 2 → provide / 2 % 2 = 1 ∧ os.allowE = true) := by
  obtain ⟨b1, b2, b3, b4, b5, b6⟩ := os
  simp only [serverSelect]
  have h1 : provide % 2 = 0 ∨ provide % 2 = 1 := by omega
  have h2 : provide / 2 % 2 = 0 ∨ provide / 2 % 2 = 1 := by omega
  rcases h1 with h1 | h1 <;> rcases h2 with h2 | h2 <;> simp only [h1, h2] <;>
    revert b4 b5 b6 <;> decide

/-- the server refuses exactly when nothing offered is allowed -/
theorem C08_select_complete (os : Options) (provide : Nat) :
    serverSelect os provide = 0 ↔
      ¬ ((provide % 2 = 1 ∧ os.forceE = false) ∨ (provide / 2 % 2 = 1 ∧ os.allowE = true)) := by
  obtain ⟨b1, b2, b3, b4, b5, b6⟩ := os
  simp only [serverSelect]
  have h1 : provide % 2 = 0 ∨ provide % 2 = 1 := by omega
  have h2 : provide / 2 % 2 = 0 ∨ provide / 2 % 2 = 1 := by omega
  rcases h1 with h1 | h1 <;> rcases h2 with h2 | h2 <;> simp only [h1, h2] <;>
    revert b4 b5 b6 <;> decide

/-- the client accepts only a selection it offered, for every `crypto_select` value -/
theorem C08_client_check_sound (oc : Options) (select : Nat) :
    (clientCheck oc select = .rc4 → select = 2 ∧ cryptoProvide oc / 2 % 2 = 1) ∧
    (clientCheck oc select = .plain → select = 1 ∧ cryptoProvide oc % 2 = 1) := by
  obtain ⟨a1, a2, a3, a4, a5, a6⟩ := oc
  simp only [clientCheck, cryptoProvide]
  by_cases h1 : select = 1
  · subst h1; revert a1 a2 a3 a4 a5 a6; decide
  · by_cases h2 : select = 2
    · subst h2; revert a1 a2 a3 a4 a5 a6; decide
    · simp [h1, h2]

/-- DialClient: a retry changes the kind, happens at most once, falls back to a plain
    handshake only if the crypto handshake is not forced and to a crypto handshake only if
    it is allowed; the first choice is a crypto handshake only if allowed. -/
theorem C08_dial_retry (o : Options) (k k' : Kind) (h : dialRetry o k = some k') :
    k' ≠ k ∧ dialRetry o k' = none ∧
    (k' = .plain → o.forceCH = false) ∧ (k' = .mse → o.allowCH = true) := by
  obtain ⟨a1, a2, a3, a4, a5, a6⟩ := o
  revert h
  cases k <;> cases k' <;> revert a1 a2 a3 a4 a5 a6 <;> decide

theorem C08_dial_first (o : Options) : dialFirst o = .mse → o.allowCH = true := by
  obtain ⟨a1, a2, a3, a4, a5, a6⟩ := o
  revert a1 a2 a3 a4 a5 a6
  decide

/-- the sequential meaning of the retry block: the first `cryptoHandshake = V; goto again`
    all of whose dominating conjuncts hold fires (every row ends in `goto`, nothing else is
    executed in the block: the extractor rejects any other statement) -/
def interpRows : List (List Bool × Bool) → Option Bool
  | [] => none
  | (conj, v) :: rest => if conj.all id then some v else interpRows rest

def kindOfBool (b : Bool) : Kind := if b then .mse else .plain

/-- the table the unchanged tree gives, in the extractor's canonical form (ordered conjunct
    lists; whether the source nests `if`s or writes `&&` is invisible) -/
def expectedDialRows (o : Options) (ch : Bool) : List (List Bool × Bool) :=
  [([o.preferCH, !o.forceCH, ch], false), ([!o.preferCH, o.allowCH, !ch], true)]

/-- **Tie to the source of tor.DialClient** (regenerated on every run by
    harness/cmd/extract/policy.go): the MEANING of the conditions found in the Go source is the
    model's `dialFirst` and `dialRetry`, and the retry happens only on ErrBadHandshake.  The
    comparison is semantic (all 2^7 valuations), so behaviour-preserving rewrites of the
    conditions (nesting vs `&&`, reordered conjuncts, named sub-expressions) keep it true
    while any change of the truth table breaks it. -/
theorem C08_gen_dial :
    Gen.dialShapeOk = true ∧
    Gen.dialRetryGuard = "errors.Is(err, protocol.ErrBadHandshake)" ∧
    ∀ (o : Options) (ch : Bool),
      kindOfBool ((Gen.dialFirstConj o).all id) = dialFirst o ∧
      (interpRows (Gen.dialRetryRows o ch)).map kindOfBool = dialRetry o (kindOfBool ch) := by
  refine ⟨by decide, by decide, ?_⟩
  intro ⟨a1, a2, a3, a4, a5, a6⟩ ch
  revert a1 a2 a3 a4 a5 a6 ch
  decide

/-- the expected canonical table has that meaning too (so a regenerated table equal to it is
    accepted by `C08_gen_dial`; the unchanged tree produces exactly these rows) -/
example : ∀ (o : Options) (ch : Bool),
    (interpRows (expectedDialRows o ch)).map kindOfBool = dialRetry o (kindOfBool ch) := by
  intro ⟨a1, a2, a3, a4, a5, a6⟩ ch
  revert a1 a2 a3 a4 a5 a6 ch
  decide

/-- whatever kind DialClient ends up trying, against any server, the cell is sound -/
theorem C08_dial_outcome (oc os : Options) (k : Kind) (_ : k ∈ dialKinds oc) :
    CellOK k oc os (negotiate true k oc os) := C08_policy_table k oc os

/-! ### the encrypted stream -/

theorem write_ok_spec (ks : Nat → UInt8) (c : Conn) (b : Bytes) (env : List WResp) (hc : c.err = none) :
    let o := write ks c b env
    o.n ≤ b.length ∧ o.wire = (xorAt ks c.encPos b).take o.n ∧
    c.encPos + o.n ≤ o.conn.encPos ∧ o.conn.decPos = c.decPos ∧
    (o.err = none → o.n = b.length ∧ o.conn.err = none ∧ o.conn.encPos = c.encPos + b.length) ∧
    (∀ e, o.err = some e → o.conn.err = some e) := by
  have := writeLoop_spec ks (b.length + 1) c b 0 env [] (by omega)
  simp only [write, hc]
  simp only [Nat.sub_zero, List.nil_append, hc] at this
  obtain ⟨_, h2, h3, h4, h5, h6, h7⟩ := this
  exact ⟨h2, h3, h4, h5, h6, h7⟩

/-- **Latched**: once a Write has failed (underlying error or short write), every later
    Write returns the same error, sends nothing and does not even touch the connection. -/
theorem C08_write_error_latched (ks : Nat → UInt8) (c : Conn) (e : WErr) (hc : c.err = some e)
    (bs : List Bytes) (env : List WResp) :
    writeAll ks c bs env = (bs.map (fun _ => (0, some e)), c, []) := by
  induction bs with
  | nil => rfl
  | cons b bs ih =>
    simp only [writeAll, write, hc, List.map_cons, List.nil_append]
    rw [ih]

/-- a failing Write latches its error in the connection -/
theorem C08_write_error_sets_latch (ks : Nat → UInt8) (c : Conn) (b : Bytes) (env : List WResp)
    (hc : c.err = none) (e : WErr) (h : (write ks c b env).err = some e) :
    (write ks c b env).conn.err = some e :=
  (write_ok_spec ks c b env hc).2.2.2.2.2 e h

theorem sum_latched (e : WErr) (bs : List Bytes) :
    ((bs.map (fun _ => ((0 : Nat), some e))).map (·.1)).sum = 0 := by
  induction bs with
  | nil => rfl
  | cons x xs ih => simpa using ih

/-- **The keystream never runs ahead of the wire**: for every sequence of Writes and every
    behaviour of the underlying connection (errors and short writes at any point), the
    bytes that reached the wire are exactly the RC4 encryption of a prefix of the
    concatenated plaintexts, and the counts returned add up to that prefix. -/
theorem C08_wire_is_encrypted_prefix (ks : Nat → UInt8) (c : Conn) (hc : c.err = none)
    (bs : List Bytes) (env : List WResp) :
    (writeAll ks c bs env).2.2
      = (xorAt ks c.encPos bs.flatten).take (writeAll ks c bs env).2.2.length ∧
    (writeAll ks c bs env).2.2.length = ((writeAll ks c bs env).1.map (·.1)).sum ∧
    (writeAll ks c bs env).2.2.length ≤ bs.flatten.length := by
  induction bs generalizing c env with
  | nil => simp [writeAll, xorAt]
  | cons b bs ih =>
    simp only [writeAll]
    obtain ⟨h1, h2, h3, h4, h5, h6⟩ := write_ok_spec ks c b env hc
    generalize write ks c b env = o at h1 h2 h3 h4 h5 h6 ⊢
    have hwl : o.wire.length = o.n := by
      rw [h2, List.length_take, xorAt_length]; omega
    cases herr : o.err with
    | some e =>
      have hl := h6 e herr
      rw [C08_write_error_latched ks _ e hl]
      simp only [List.append_nil, List.map_cons, List.sum_cons, List.flatten_cons, sum_latched]
      refine ⟨?_, by omega, by rw [hwl, List.length_append]; omega⟩
      rw [hwl, xorAt_append, List.take_append_of_le_length (by rw [xorAt_length]; exact h1)]
      exact h2
    | none =>
      obtain ⟨hn, hce, hpos⟩ := h5 herr
      have := ih o.conn hce o.env
      generalize writeAll ks o.conn bs o.env = r at this ⊢
      obtain ⟨rs, c', w⟩ := r
      simp only at this ⊢
      obtain ⟨i1, i2, i3⟩ := this
      have hfull : o.wire = xorAt ks c.encPos b := by
        rw [h2, hn, List.take_of_length_le (by rw [xorAt_length]; exact Nat.le_refl _)]
      simp only [List.map_cons, List.sum_cons, List.flatten_cons, List.length_append]
      refine ⟨?_, by omega, by omega⟩
      rw [hfull, xorAt_append, xorAt_length]
      have : b.length = (xorAt ks c.encPos b).length := by rw [xorAt_length]
      rw [this, take_length_add, xorAt_length, ← hpos]
      congr 1

/-- all Writes succeed when the underlying connection accepts everything, for every
    partition of the plaintext into Writes (including pieces above the 32 KiB buffer) -/
theorem writeAll_accepting (ks : Nat → UInt8) (c : Conn) (hc : c.err = none) (bs : List Bytes) :
    writeAll ks c bs [] = (bs.map (fun b => (b.length, none)),
        { c with encPos := c.encPos + bs.flatten.length }, xorAt ks c.encPos bs.flatten) := by
  induction bs generalizing c with
  | nil => simp [writeAll, xorAt]
  | cons b bs ih =>
    have hspec := writeLoop_spec ks (b.length + 1) c b 0 [] [] (by omega)
    simp only [Nat.sub_zero, List.nil_append] at hspec
    obtain ⟨_, h2, h3, _, h5, h6, h7⟩ := hspec
    -- with an empty environment no write can fail
    have hnone : (writeLoop ks (b.length + 1) c b 0 [] []).err = none := by
      have key : ∀ (fuel : Nat) (c : Conn) (rem : Bytes) (n : Nat) (wire : Bytes),
          (writeLoop ks fuel c rem n [] wire).err = none ∧ (writeLoop ks fuel c rem n [] wire).env = [] := by
        intro fuel
        induction fuel with
        | zero => intros; exact ⟨rfl, rfl⟩
        | succ fuel ihf =>
          intro c rem n wire
          unfold writeLoop
          by_cases hre : rem.isEmpty = true
          · simp [hre]
          · simp only [hre, Bool.false_eq_true, ↓reduceIte, List.headD_nil, Nat.min_self,
              Nat.lt_irrefl, List.tail_nil]
            exact ihf _ _ _ _
      exact (key _ _ _ _ _).1
    have henv : (writeLoop ks (b.length + 1) c b 0 [] []).env = [] := by
      have key : ∀ (fuel : Nat) (c : Conn) (rem : Bytes) (n : Nat) (wire : Bytes),
          (writeLoop ks fuel c rem n [] wire).env = [] := by
        intro fuel
        induction fuel with
        | zero => intros; rfl
        | succ fuel ihf =>
          intro c rem n wire
          unfold writeLoop
          by_cases hre : rem.isEmpty = true
          · simp [hre]
          · simp only [hre, Bool.false_eq_true, ↓reduceIte, List.headD_nil, Nat.min_self,
              Nat.lt_irrefl, List.tail_nil]
            exact ihf _ _ _ _
      exact key _ _ _ _ _
    obtain ⟨hn, hce, hpos⟩ := h6 hnone
    simp only [writeAll, write, hc]
    rw [henv, ih _ (by rw [hce]; exact hc)]
    simp only [List.map_cons, List.flatten_cons, List.length_append, hnone, hn, hpos, h5]
    refine Prod.ext rfl (Prod.ext ?_ ?_)
    · simp only [Nat.add_assoc, hce, hc]
    · simp only
      rw [h3, hn, List.take_of_length_le (by rw [xorAt_length]; exact Nat.le_refl _), xorAt_append]

/-- **Transparency.**  For every plaintext, every partition of it into Writes (incl.
    > 32 KiB), every partition of the wire bytes into chunks by the network and every
    sequence of Read buffer sizes, with both ends at the same keystream position (what
    the handshake establishes): the bytes read are a prefix of the bytes written and what
    is still in flight decrypts to the rest — concat(reads) ++ rest = concat(writes); the
    writer's keystream position is the number of bytes on the wire, the reader's the
    number of bytes it has read. -/
theorem C08_stream_transparent (ks : Nat → UInt8) (pos : Nat) (dw er : Nat) (bs : List Bytes)
    (src : Src) (rd : List Nat) :
    let w := writeAll ks ⟨pos, dw, none⟩ bs []
    src.flatten = w.2.2 →
    let r := readAll ks ⟨er, pos, none⟩ rd src
    w.1 = bs.map (fun b => (b.length, none)) ∧
    w.2.1.encPos = pos + w.2.2.length ∧
    r.1.flatten ++ xorAt ks r.2.1.decPos r.2.2.flatten = bs.flatten ∧
    r.2.1.decPos = pos + r.1.flatten.length := by
  intro w hsrc r
  have hw := writeAll_accepting ks ⟨pos, dw, none⟩ rfl bs
  have hr := readAll_spec ks ⟨er, pos, none⟩ rd src
  obtain ⟨h1, h2⟩ := hr
  have hwire : w.2.2 = xorAt ks pos bs.flatten := by simp only [w, hw]
  refine ⟨by simp only [w, hw], by simp only [w, hw, xorAt_length], ?_, h2⟩
  show (readAll ks ⟨er, pos, none⟩ rd src).1.flatten ++ _ = _
  rw [h1, hsrc, hwire, xorAt_xorAt]

/-- **Transparency with errors on the read side.**  As `C08_stream_transparent`, but the
    underlying connection may deliver bytes TOGETHER WITH an error at any point (the last
    bytes with io.EOF, bytes with an expired deadline after which reading continues, any
    other error; `esrc` attaches an optional error to every chunk) and the caller keeps
    reading: the concatenation of ALL bytes returned, whatever error accompanied them,
    followed by the decryption of what is still in flight, is exactly what was written, and
    the receive keystream has advanced by exactly the bytes returned (it stays in sync for
    every subsequent read). -/
theorem C08_stream_transparent_err (ks : Nat → UInt8) (pos : Nat) (dw er : Nat) (bs : List Bytes)
    (esrc : ESrc) (rd : List Nat)
    (hsrc : esrc.bytes = (writeAll ks ⟨pos, dw, none⟩ bs []).2.2) :
    ((readAllErr ks ⟨er, pos, none⟩ rd esrc).1.map (·.1)).flatten
        ++ xorAt ks (readAllErr ks ⟨er, pos, none⟩ rd esrc).2.1.decPos
            (readAllErr ks ⟨er, pos, none⟩ rd esrc).2.2.bytes
      = bs.flatten ∧
    (readAllErr ks ⟨er, pos, none⟩ rd esrc).2.1.decPos
      = pos + ((readAllErr ks ⟨er, pos, none⟩ rd esrc).1.map (·.1)).flatten.length := by
  have hw := writeAll_accepting ks ⟨pos, dw, none⟩ rfl bs
  obtain ⟨h1, h2⟩ := readAllErr_spec ks ⟨er, pos, none⟩ rd esrc
  refine ⟨?_, h2⟩
  rw [h1, hsrc, hw, xorAt_xorAt]

/-- in particular every prefix the caller has received so far is a prefix of the plaintext -/
theorem C08_read_prefix_err (ks : Nat → UInt8) (pos : Nat) (bs : List Bytes) (esrc : ESrc) (rd : List Nat)
    (hsrc : esrc.bytes = (writeAll ks ⟨pos, 0, none⟩ bs []).2.2) :
    ((readAllErr ks ⟨0, pos, none⟩ rd esrc).1.map (·.1)).flatten
      = bs.flatten.take ((readAllErr ks ⟨0, pos, none⟩ rd esrc).1.map (·.1)).flatten.length := by
  have h := (C08_stream_transparent_err ks pos 0 0 bs esrc rd hsrc).1
  rw [← h, List.take_left]

/-- reading everything: the receiver obtains exactly the bytes the sender wrote -/
theorem C08_stream_transparent_total (ks : Nat → UInt8) (pos : Nat) (bs : List Bytes) (src : Src)
    (rd : List Nat) (hsrc : src.flatten = (writeAll ks ⟨pos, 0, none⟩ bs []).2.2)
    (hall : (readAll ks ⟨0, pos, none⟩ rd src).2.2.flatten = []) :
    (readAll ks ⟨0, pos, none⟩ rd src).1.flatten = bs.flatten := by
  have := (C08_stream_transparent ks pos 0 0 bs src rd hsrc).2.2.1
  rw [hall] at this
  simpa [xorAt] using this

/-! ### keys and framing as the MSE specification prescribes -/

/- The MSE specification, written down independently of Model/Handshake:
     1  A->B: Diffie Hellman Ya, PadA
     2  B->A: Diffie Hellman Yb, PadB
     3  A->B: HASH('req1', S), HASH('req2', SKEY) xor HASH('req3', S),
              ENCRYPT(VC, crypto_provide, len(PadC), PadC, len(IA)), ENCRYPT(IA)
     4  B->A: ENCRYPT(VC, crypto_select, len(padD), padD), ENCRYPT2(Payload Stream)
   ENCRYPT() is RC4 with key HASH('keyA', S, SKEY) for A->B and HASH('keyB', S, SKEY) for
   B->A, the first 1024 bytes of the RC4 output discarded; VC is 8 zero bytes; lengths are
   2-byte big-endian, crypto_provide/select 4-byte big-endian. -/

/-- RC4-drop-1024 keystream of HASH(label, S, SKEY); `rc4 key` = the raw RC4 output -/
def Spec.keystream (H : Bytes → Bytes) (rc4 : Bytes → Array UInt8) (label : String) (S skey : Bytes) :
    Nat → UInt8 :=
  fun i => (rc4 (H (label.toUTF8.toList ++ S ++ skey))).getD (1024 + i) 0

def Spec.u32 (n : Nat) : Bytes := [0, 0, 0, UInt8.ofNat n]   -- the values 1, 2, 3 used by storrent
def Spec.zeroVC : Bytes := List.replicate 8 0

def Spec.msg1 (Y pad : Bytes) : Bytes := Y ++ pad

/-- message 3 with an empty PadC -/
def Spec.msg3 (H : Bytes → Bytes) (rc4 : Bytes → Array UInt8) (S skey : Bytes) (provide : Nat) (ia : Bytes) : Bytes :=
  H ("req1".toUTF8.toList ++ S) ++
  Handshake.xorBytes (H ("req2".toUTF8.toList ++ skey)) (H ("req3".toUTF8.toList ++ S)) ++
  xorAt (Spec.keystream H rc4 "keyA" S skey) 0 (Spec.zeroVC ++ Spec.u32 provide ++ be16 0 ++ be16 ia.length ++ ia)

/-- message 4 with an empty padD -/
def Spec.msg4 (H : Bytes → Bytes) (rc4 : Bytes → Array UInt8) (S skey : Bytes) (select : Nat) : Bytes :=
  xorAt (Spec.keystream H rc4 "keyB" S skey) 0 (Spec.zeroVC ++ Spec.u32 select ++ be16 0)

/-- **Keys and framing (client)**: what the model of crypto.ClientHandshake writes is
    message 1 and, for every Yb, message 3 of the specification with keyA = HASH('keyA', S,
    SKEY), S = Yb^x, the 1024-byte discard, VC, crypto_provide and the `len(IA)` framing.
    (That the Go code writes the same bytes is the `w=` column of the C07 correspondence
    and the `mse-spec:*` oracles, which use an independent Go implementation.) -/
theorem C08_keys_spec_client {α : Type} (cr : Handshake.MseCrypto) (o : Options) (x pad skey ia : Bytes)
    (k : Bool → Handshake.Prog α) (ha : o.allowCH = true) :
    ∃ K, Handshake.mseClient cr o x pad skey ia k
        = .write (Spec.msg1 (cr.pub x) pad) (.take .inline 96 608 K) ∧
      ∀ yb, cr.trivial yb = false → cryptoProvide o ≠ 0 →
        ∃ K', K yb = .write (Spec.msg3 cr.hash cr.ks (cr.dh x yb) skey (cryptoProvide o) ia) K' := by
  unfold Handshake.mseClient
  simp only [ha, Bool.not_true, Bool.false_eq_true, if_false]
  refine ⟨_, rfl, ?_⟩
  intro yb ht hp
  simp only [ht, Bool.false_eq_true, if_false, hp]
  exact ⟨_, rfl⟩

/-- **Keys and framing (server)**: the server-side counterpart.  On the stream an initiator
    following the specification sends — Ya ++ PadA (PadA ≤ 512, the marker HASH('req1', S) not
    occurring earlier), then the specification's message 3 `Spec.msg3` (S = Ya^x, any IA, any
    crypto_provide the server's policy can serve) — the model of crypto.ServerHandshake
    (a) finds the torrent from HASH('req2', SKEY) xor HASH('req3', S), (b) accepts VC,
    crypto_provide and the `len(PadC)`, `len(IA)` framing decrypted with keyA =
    HASH('keyA', S, SKEY) after the 1024-byte discard, (c) writes exactly message 2
    `Yb ++ PadB` and the specification's message 4 `Spec.msg4` under keyB, and (d) hands on IA
    and a connection that decrypts from keystream position 14 + 2 + len(IA) of keyA
    (|VC| + 4 + 2, no PadC, 2, IA) and encrypts from position 14 of keyB (|VC| + 4 + 2, no
    padD) when RC4 was selected, and the raw connection otherwise.  DH, SHA-1, RC4 arbitrary. -/
theorem C08_keys_spec_server {α : Type} (cr : Handshake.MseCrypto) (o : Options) (x pad : Bytes)
    (skeys : List Bytes) (k : Bool → Bytes → (Bytes → Bytes) → Handshake.Prog α)
    (ya padA skey ia : Bytes) (provide : Nat) (more out : List Bytes)
    (ha : o.allowCH = true) (hya : ya.length = 96) (htriv : cr.trivial ya = false)
    (hH : ∀ b, (cr.hash b).length = 20)
    (hfirst : findSub (cr.hash ("req1".toUTF8.toList ++ cr.dh x ya))
        (padA ++ Spec.msg3 cr.hash cr.ks (cr.dh x ya) skey provide ia) = some padA.length)
    (hpad : padA.length ≤ 512)
    (hskey : Handshake.findSkey cr (cr.hash ("req2".toUTF8.toList ++ skey)) skeys = some skey)
    (hprov : provide < 256) (hprov4 : provide % 4 ≠ 0) (hia : ia.length < 65536)
    (hsel : serverSelect o provide ≠ 0) :
    Handshake.runF (Handshake.mseServer cr o x pad skeys k)
        ⟨ya ++ padA, Spec.msg3 cr.hash cr.ks (cr.dh x ya) skey provide ia :: more, out⟩
      = Handshake.runF
          (if serverSelect o provide = 1 then .unread ia (k false skey id)
           else .xorAll (fun i => Spec.keystream cr.hash cr.ks "keyA" (cr.dh x ya) skey (14 + 2 + ia.length + i))
                  (.unread ia (k true skey (xorAt (Spec.keystream cr.hash cr.ks "keyB" (cr.dh x ya) skey) 14))))
          ⟨more.headD [], more.tail,
            out ++ [Spec.msg1 (cr.pub x) pad] ++
              [Spec.msg4 cr.hash cr.ks (cr.dh x ya) skey (serverSelect o provide)]⟩ :=
  Handshake.mseServer_flat cr o x pad skeys k ya padA skey ia provide more out ha hya htriv hH hfirst hpad
    hskey hprov hprov4 hia hsel

/-! ### non-vacuity -/

-- the table is not trivially "always fail": the nine DefaultOptions pairs all connect
example : ∀ p f p' f', (negotiate true .mse (defaultOptions p f) (defaultOptions p' f')).1 ≠ .fail := by
  decide

-- a write of 70 000 bytes (three pieces of the staging buffer) is accepted whole
example : (writeAll (fun _ => 0) ⟨0, 0, none⟩ [List.replicate 70000 1] []).1 = [(70000, none)] := by
  rw [writeAll_accepting _ _ rfl]
  simp only [List.map_cons, List.map_nil, List.length_replicate]

-- two bytes delivered together with an error (code 3) are decrypted and consume the keystream
example : (readAllErr (fun i => UInt8.ofNat (i + 1)) ⟨0, 0, none⟩ [10, 10] [([1, 2], some 3), ([7], none)]).1
    = [([1 ^^^ 1, 2 ^^^ 2], some 3), ([7 ^^^ 3], none)] := by decide

-- a short underlying write (3 of 5 bytes, no error) is reported as ErrShortWrite and latched
example : (write (fun _ => 0) ⟨0, 0, none⟩ [1, 2, 3, 4, 5] [⟨3, none⟩]).err = some .shortWrite ∧
    (write (fun _ => 0) ⟨0, 0, none⟩ [1, 2, 3, 4, 5] [⟨3, none⟩]).n = 3 := by decide

end Storrent.Props.C08
