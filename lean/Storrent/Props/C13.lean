import Storrent.Model.MetaDecode
import Storrent.Lemmas.Bencode
/-
C13 — Torrent files: total parsing, consistent geometry, identity preserved.
Theorems about `Meta.metadataComplete` (Torrent.MetadataComplete as repaired), over every
`BInfo` (every value of the Go types, nil and empty slices distinguished), about
`hashParse`/`readMagnet` over every string and every behaviour of net/url, and about
the field selection of WriteTorrent/ReadTorrent.
-/
namespace Storrent.Meta
open Storrent

/-! ### integer helpers -/

theorem wrap64_id {x : Int} (h1 : -9223372036854775808 ≤ x) (h2 : x < 9223372036854775808) :
    wrap64 x = x := by
  unfold wrap64; omega

theorem wrap64_over {x : Int} (h1 : 9223372036854775808 ≤ x) (h2 : x < 18446744073709551616) :
    wrap64 x = x - 18446744073709551616 := by
  unfold wrap64; omega

theorem tdiv_nonneg_num {a b : Int} (h : 0 ≤ a) : Int.tdiv a b = a / b :=
  Int.tdiv_eq_ediv_of_nonneg h

theorem tdiv_neg_num (a b : Int) (h : a < 0) : Int.tdiv a b = -((-a) / b) := by
  have : a = -(-a) := by omega
  rw [this, Int.neg_tdiv, Int.tdiv_eq_ediv_of_nonneg (by omega)]
  simp

/-! ### the file loop -/

theorem layout_no_panic : ∀ (fs : List BFile) (acc : Int) (out : List GFile) (w : String),
    layout fs acc out ≠ .panic w := by
  intro fs
  induction fs with
  | nil => intro acc out w; simp [layout]
  | cons f rest ih =>
    intro acc out w
    unfold layout
    split
    · simp
    · split
      · simp
      · split
        · simp
        · split
          · simp
          · exact ih _ _ w

/-- a path MetadataComplete lets through: non-empty, every component usable as a name -/
def GoodPath (p : List Bytes) : Prop := p ≠ [] ∧ ∀ c ∈ p, validComponent c = true

theorem layout_spec : ∀ (fs : List BFile) (acc : Int) (out gf : List GFile) (l : Int),
    0 ≤ acc → acc ≤ maxInt64 → layout fs acc out = .ok (gf, l) →
    ∃ tail, gf = out.reverse ++ tail ∧ Contig tail acc ∧ l = acc + sumLen tail ∧
      acc ≤ l ∧ l ≤ maxInt64 ∧
      tail.map (·.length) = fs.map (·.length.toInt) ∧
      tail.map (fun g => some g.path) = fs.map pickPath ∧
      ∀ g ∈ tail, GoodPath g.path := by
  intro fs
  induction fs with
  | nil =>
    intro acc out gf l h0 h1 h
    simp [layout] at h
    refine ⟨[], ?_⟩
    simp [Contig, sumLen, h.1.symm, h.2.symm, h1]
  | cons f rest ih =>
    intro acc out gf l h0 h1 h
    unfold layout at h
    split at h
    · simp at h
    · rename_i p hp
      split at h
      · simp at h
      · rename_i hpne
        split at h
        · simp at h
        · rename_i hlen
          split at h
          · simp at h
          · rename_i hvalid
            have hl0 : 0 ≤ f.length.toInt := by omega
            have hl1 : f.length.toInt ≤ maxInt64 - acc := by omega
            have hw : wrap64 (acc + f.length.toInt) = acc + f.length.toInt := by
              apply wrap64_id <;> (unfold maxInt64 at *; omega)
            rw [hw] at h
            obtain ⟨tail, h1', h2', h3', h4', h5', h6', h7', h8'⟩ :=
              ih (acc + f.length.toInt) _ gf l (by omega) (by unfold maxInt64 at *; omega) h
            refine ⟨{ path := p, offset := acc, length := f.length.toInt,
                      padding := f.attr.contains 112 } :: tail, ?_⟩
            refine ⟨by simp [h1'], ?_, ?_, ?_, h5', ?_, ?_, ?_⟩
            · simp [Contig, hl0, h2']
            · simp [sumLen]; omega
            · omega
            · simp [h6']
            · simp [h7', hp]
            · intro g hg
              simp only [List.mem_cons] at hg
              rcases hg with hg | hg
              · subst hg
                refine ⟨hpne, fun c hc => ?_⟩
                have hall : p.all validComponent = true := by simpa using hvalid
                exact List.all_eq_true.mp hall c hc
              · exact h8' g hg

/-! ### the duplicate / file-is-a-directory checks -/

theorem dupCheck_no_panic : ∀ (fs : List GFile) (seen : List Bytes) (w : String),
    dupCheck fs seen ≠ .panic w
  | [], _, _ => by simp [dupCheck]
  | f :: rest, seen, w => by
    unfold dupCheck
    split
    · simp
    · exact dupCheck_no_panic rest _ w

theorem dirCheck_no_panic (keys : List Bytes) : ∀ (fs : List GFile) (w : String),
    dirCheck keys fs ≠ .panic w
  | [], _ => by simp [dirCheck]
  | f :: rest, w => by
    unfold dirCheck
    split
    · simp
    · exact dirCheck_no_panic keys rest w

theorem pathChecks_no_panic (fs : List GFile) (w : String) : pathChecks fs ≠ .panic w := by
  unfold pathChecks
  split
  · exact dirCheck_no_panic _ _ _
  · simp
  · rename_i w' h; exact absurd h (dupCheck_no_panic _ _ _)

theorem dupCheck_spec : ∀ (fs : List GFile) (seen keys : List Bytes),
    dupCheck fs seen = .ok keys →
    (∀ k, k ∈ keys ↔ k ∈ seen ∨ ∃ f ∈ fs, k = joinPath f.path) ∧
    fs.Pairwise (fun a b => joinPath a.path ≠ joinPath b.path) ∧
    ∀ f ∈ fs, joinPath f.path ∉ seen
  | [], seen, keys, h => by
    simp [dupCheck] at h
    subst h
    simp
  | f :: rest, seen, keys, h => by
    unfold dupCheck at h
    split at h
    · simp at h
    · rename_i hns
      have hns' : joinPath f.path ∉ seen := by simpa using hns
      obtain ⟨h1, h2, h3⟩ := dupCheck_spec rest _ keys h
      refine ⟨fun k => ?_, ?_, ?_⟩
      · rw [h1 k]
        simp only [List.mem_cons]
        constructor
        · rintro ((hk | hk) | ⟨g, hg, hk⟩)
          · exact Or.inr ⟨f, Or.inl rfl, hk⟩
          · exact Or.inl hk
          · exact Or.inr ⟨g, Or.inr hg, hk⟩
        · rintro (hk | ⟨g, hg | hg, hk⟩)
          · exact Or.inl (Or.inr hk)
          · subst hg; exact Or.inl (Or.inl hk)
          · exact Or.inr ⟨g, hg, hk⟩
      · rw [List.pairwise_cons]
        refine ⟨fun g hg heq => ?_, h2⟩
        have := h3 g hg
        rw [← heq] at this
        simp at this
      · intro g hg
        simp only [List.mem_cons] at hg
        rcases hg with hg | hg
        · subst hg; exact hns'
        · have := h3 g hg
          simp only [List.mem_cons, not_or] at this
          exact this.2

theorem dirCheck_spec (keys : List Bytes) : ∀ (fs : List GFile), dirCheck keys fs = .ok () →
    ∀ f ∈ fs, ∀ q ∈ properPrefixes f.path, joinPath q ∉ keys
  | [], _ => by simp
  | f :: rest, h => by
    unfold dirCheck at h
    split at h
    · simp at h
    · rename_i hany
      intro g hg q hq
      simp only [List.mem_cons] at hg
      rcases hg with hg | hg
      · subst hg
        intro hk
        apply hany
        rw [List.any_eq_true]
        exact ⟨q, hq, by simpa using hk⟩
      · exact dirCheck_spec keys rest h g hg q hq

theorem mem_properPrefixes {p q : List Bytes} :
    q ∈ properPrefixes p ↔ ∃ i, 1 ≤ i ∧ i < p.length ∧ q = p.take i := by
  unfold properPrefixes
  simp only [List.mem_map, List.mem_range'_1]
  constructor
  · rintro ⟨i, ⟨h1, h2⟩, rfl⟩
    exact ⟨i, h1, by omega, rfl⟩
  · rintro ⟨i, h1, h2, rfl⟩
    exact ⟨i, ⟨h1, by omega⟩, rfl⟩

/-- what passing both loops means for the file table -/
theorem pathChecks_ok {fs : List GFile} (h : pathChecks fs = .ok ())
    (hne : ∀ f ∈ fs, f.path ≠ []) :
    fs.Pairwise (fun a b => a.path ≠ b.path) ∧
    ∀ f ∈ fs, ∀ g ∈ fs, f.path <+: g.path → f.path = g.path := by
  unfold pathChecks at h
  split at h
  · rename_i keys hd
    obtain ⟨hk, hpw, _⟩ := dupCheck_spec fs [] keys hd
    have hdir := dirCheck_spec keys fs h
    refine ⟨hpw.imp (fun hab heq => hab (by rw [heq])), ?_⟩
    intro f hf g hg hpre
    apply Classical.byContradiction
    intro hneq
    have htake : f.path = g.path.take f.path.length := List.prefix_iff_eq_take.mp hpre
    have hlen : f.path.length ≤ g.path.length := hpre.length_le
    have hlt : f.path.length < g.path.length := by
      apply Nat.lt_of_le_of_ne hlen
      intro heq
      apply hneq
      rw [htake, heq, List.take_length]
    have hpos : 1 ≤ f.path.length := by
      have := hne f hf
      cases hp : f.path with
      | nil => exact absurd hp this
      | cons _ _ => simp
    have hq : f.path ∈ properPrefixes g.path :=
      mem_properPrefixes.mpr ⟨f.path.length, hpos, hlt, htake⟩
    exact hdir g hg _ hq ((hk _).mpr (Or.inr ⟨f, hf, rfl⟩))
  · simp at h
  · simp at h

/-! ### what acceptance implies -/

theorem bind_ok {α β : Type} {x : Res α} {f : α → Res β} {b : β} (h : x.bind f = .ok b) :
    ∃ a, x = .ok a ∧ f a = .ok b := by
  cases x with
  | ok a => exact ⟨a, rfl, h⟩
  | err e => simp [Res.bind] at h
  | panic w => simp [Res.bind] at h

theorem bind_panic {α β : Type} {x : Res α} {f : α → Res β} {w : String}
    (h : x.bind f = .panic w) : x = .panic w ∨ ∃ a, x = .ok a ∧ f a = .panic w := by
  cases x with
  | ok a => exact Or.inr ⟨a, rfl, h⟩
  | err e => simp [Res.bind] at h
  | panic w' => simp [Res.bind] at h; exact Or.inl (by rw [h])

theorem lengthAndFiles_no_panic (bi : BInfo) (w : String) : lengthAndFiles bi ≠ .panic w := by
  intro h
  unfold lengthAndFiles at h
  split at h
  · split at h <;> simp at h
  · split at h
    · simp at h
    · split at h
      · simp at h
      · simp at h
      · rename_i hl
        exact layout_no_panic _ _ _ _ hl

/-- the length/files alternative yields a non-negative int64 length and a contiguous table -/
theorem lengthAndFiles_ok {bi : BInfo} {multi : Bool} {files : List GFile} {length : Int}
    (h : lengthAndFiles bi = .ok (multi, files, length)) :
    0 ≤ length ∧ length ≤ maxInt64 ∧ Contig files 0 ∧ (multi = true → sumLen files = length) ∧
    (multi = false → files = [] ∧ length = bi.length.toInt ∧ 0 < length ∧ bi.files = none) ∧
    (multi = true → ∃ fs, bi.files = some fs ∧ bi.length.toInt ≤ 0 ∧
        files.map (·.length) = fs.map (·.length.toInt) ∧
        files.map (fun g => some g.path) = fs.map pickPath) ∧
    (∀ g ∈ files, GoodPath g.path) := by
  unfold lengthAndFiles at h
  split at h
  · rename_i hpos
    split at h
    · simp at h
    · rename_i hnone
      simp only [Res.ok.injEq, Prod.mk.injEq] at h
      obtain ⟨h1, h2, h3⟩ := h
      subst h1 h2 h3
      have := Int64.toInt_lt bi.length
      refine ⟨by omega, by unfold maxInt64; omega, by simp [Contig], by simp, ?_, by simp, by simp⟩
      intro _
      refine ⟨rfl, rfl, by omega, ?_⟩
      cases hf : bi.files with
      | none => rfl
      | some fs => simp [hf] at hnone
  · rename_i hpos
    split at h
    · simp at h
    · rename_i fs hfs
      split at h
      · rename_i gf l hl
        simp only [Res.ok.injEq, Prod.mk.injEq] at h
        obtain ⟨h1, h2, h3⟩ := h
        subst h1 h2 h3
        obtain ⟨tail, t1, t2, t3, t4, t5, t6, t7, t8⟩ :=
          layout_spec fs 0 [] gf l (by omega) (by unfold maxInt64; omega) hl
        simp at t1
        subst t1
        refine ⟨by omega, t5, t2, ?_, by simp, ?_, t8⟩
        · intro _; omega
        · intro _; exact ⟨fs, hfs, by omega, t6, t7⟩
      · simp at h
      · simp at h

/-- an accepted length is below 2^46 and the block count is the exact ceiling -/
theorem chunks_ok {length : Int} (h0 : 0 ≤ length) (h1 : length ≤ maxInt64)
    (h : Int.tdiv (wrap64 (length + 16384 - 1)) 16384 =
         Int.tdiv (wrap64 (length + 16384 - 1)) 16384 % 4294967296) :
    length ≤ 4294967295 * 16384 ∧
    (Int.tdiv (wrap64 (length + 16384 - 1)) 16384).toNat = ceilDiv length.toNat 16384 := by
  unfold maxInt64 at h1
  by_cases hw : length + 16384 - 1 < 9223372036854775808
  · rw [wrap64_id (by omega) hw, tdiv_nonneg_num (by omega)] at h ⊢
    refine ⟨by omega, ?_⟩
    unfold ceilDiv
    omega
  · exfalso
    rw [wrap64_over (by omega) (by omega), tdiv_neg_num _ _ (by omega)] at h
    omega

theorem sizeChecks_no_panic {bi : BInfo} {length : Int} (h0 : 0 ≤ length) (h1 : length ≤ maxInt64)
    (w : String) : sizeChecks bi length ≠ .panic w := by
  intro h
  unfold sizeChecks at h
  simp only at h
  split at h
  · simp at h
  · rename_i hch
    split at h
    · simp at h
    · split at h
      · rename_i hneg
        have hc : Int.tdiv (wrap64 (length + 16384 - 1)) 16384 =
            Int.tdiv (wrap64 (length + 16384 - 1)) 16384 % 4294967296 := by simpa using hch
        omega
      · simp at h

theorem sizeChecks_ok {bi : BInfo} {length : Int} {chunks : Nat}
    (h0 : 0 ≤ length) (h1 : length ≤ maxInt64) (h : sizeChecks bi length = .ok chunks) :
    length ≤ 4294967295 * 16384 ∧ chunks = ceilDiv length.toNat 16384 ∧
    ((bi.pieces.length / 20 : Nat) : Int) =
      Int.tdiv (wrap64 (length + (bi.pieceLength.toNat : Int) - 1)) (bi.pieceLength.toNat : Int) := by
  unfold sizeChecks at h
  simp only at h
  split at h
  · simp at h
  · rename_i hch
    have hc := chunks_ok h0 h1 (by simpa using hch)
    split at h
    · simp at h
    · rename_i hnp
      split at h
      · simp at h
      · simp only [Res.ok.injEq] at h
        exact ⟨hc.1, by rw [← h]; exact hc.2, by simpa using hnp⟩

theorem psize_sub_one {psize : UInt32} (hp : psize.toNat ≠ 0) :
    (psize - 1).toNat = psize.toNat - 1 := by
  have : (1 : UInt32) ≤ psize := by
    rw [UInt32.le_iff_toNat_le]; simp; omega
  rw [UInt32.toNat_sub_of_le _ _ this]; simp

theorem pieces_ok {psLen : Int} {psize : UInt32} {length : Int} {n : Nat}
    (hp : psize.toNat ≠ 0) (h0 : 0 ≤ length) (h1 : length ≤ 4294967295 * 16384)
    (h : piecesMetadataComplete psLen psize length = .ok n) :
    n = ceilDiv length.toNat psize.toNat ∧
    (n : Int) = Int.tdiv (wrap64 (length + (psize.toNat : Int) - 1)) (psize.toNat : Int) := by
  unfold piecesMetadataComplete at h
  have hlt := UInt32.toNat_lt psize
  simp only [psize_sub_one hp] at h
  have e1 : length + ((psize.toNat - 1 : Nat) : Int) = length + (psize.toNat : Int) - 1 := by omega
  have hw : wrap64 (length + (psize.toNat : Int) - 1) = length + (psize.toNat : Int) - 1 := by
    apply wrap64_id <;> omega
  have hcast : length + (psize.toNat : Int) - 1 = ((length.toNat + psize.toNat - 1 : Nat) : Int) := by
    omega
  rw [e1, hw, tdiv_nonneg_num (by omega), hcast, ← Int.natCast_ediv] at h
  rw [hw, tdiv_nonneg_num (by omega), hcast, ← Int.natCast_ediv]
  simp only [Int.toNat_natCast] at h
  split at h
  · simp at h
  · split at h
    · simp at h
    · simp only [Res.ok.injEq] at h
      subst h
      exact ⟨rfl, rfl⟩

theorem pieces_no_panic {psLen : Int} {psize : UInt32} {length : Int} (hps : psLen ≤ 0)
    (hp : psize.toNat ≠ 0) (h0 : 0 ≤ length) (h1 : length ≤ 4294967295 * 16384) (w : String) :
    piecesMetadataComplete psLen psize length ≠ .panic w := by
  intro h
  unfold piecesMetadataComplete at h
  have hlt := UInt32.toNat_lt psize
  simp only [psize_sub_one hp] at h
  have hw : wrap64 (length + ((psize.toNat - 1 : Nat) : Int)) = length + ((psize.toNat - 1 : Nat) : Int) := by
    apply wrap64_id <;> omega
  rw [hw, tdiv_nonneg_num (by omega)] at h
  have := Int.ediv_nonneg (a := length + ((psize.toNat - 1 : Nat) : Int))
    (b := (psize.toNat : Int)) (by omega) (by omega)
  split at h
  · omega
  · split at h
    · omega
    · simp at h

/-- what passing every check means -/
theorem checks_ok {bi : BInfo} {c : Checked} (h : checks bi = .ok c) :
    bi.pieces.length % 20 = 0 ∧ bi.pieceLength.toNat ≠ 0 ∧ bi.pieceLength.toNat % 16384 = 0 ∧
    lengthAndFiles bi = .ok (c.multi, c.files, c.length) ∧ pathChecks c.files = .ok () ∧
    sizeChecks bi c.length = .ok c.chunks ∧ pickName bi = .ok c.name := by
  unfold checks at h
  split at h
  · simp at h
  · rename_i h20
    split at h
    · simp at h
    · rename_i hpl
      obtain ⟨⟨multi, files, length⟩, hlf, h⟩ := bind_ok h
      obtain ⟨⟨⟩, hpc, h⟩ := bind_ok h
      obtain ⟨chunks, hsz, h⟩ := bind_ok h
      obtain ⟨name, hnm, h⟩ := bind_ok h
      simp only [Res.ok.injEq] at h
      subst h
      exact ⟨by omega, by omega, by omega, hlf, hpc, hsz, hnm⟩

/-- everything `metadataComplete … = ok g` says about `g` and `bi` -/
theorem mc_ok_inv {psLen : Int} {bi : BInfo} {g : Geom} (h : metadataComplete psLen bi = .ok g) :
    ∃ multi files length chunks name n,
      bi.pieces.length % 20 = 0 ∧ bi.pieceLength.toNat ≠ 0 ∧ bi.pieceLength.toNat % 16384 = 0 ∧
      lengthAndFiles bi = .ok (multi, files, length) ∧ pathChecks files = .ok () ∧
      sizeChecks bi length = .ok chunks ∧ pickName bi = .ok name ∧
      piecesMetadataComplete psLen bi.pieceLength length = .ok n ∧
      g = { name := name, pieceLength := bi.pieceLength.toNat, length := length, multi := multi,
            files := files, nInFlight := chunks, nPieces := n, nHashes := bi.pieces.length / 20 } := by
  unfold metadataComplete at h
  obtain ⟨c, hc, h⟩ := bind_ok h
  obtain ⟨n, hp, h⟩ := bind_ok h
  simp only [Res.ok.injEq] at h
  obtain ⟨h1, h2, h3, h4, h5, h6, h7⟩ := checks_ok hc
  exact ⟨c.multi, c.files, c.length, c.chunks, c.name, n, h1, h2, h3, h4, h5, h6, h7, hp, h.symm⟩

theorem pickName_ok {bi : BInfo} {name : Bytes} (h : pickName bi = .ok name) :
    name = (if bi.name8 ≠ [] then bi.name8 else bi.name) ∧ name ≠ [] ∧ validComponent name = true := by
  unfold pickName at h
  generalize (if bi.name8 ≠ [] then bi.name8 else bi.name) = nm at h ⊢
  by_cases h1 : nm = []
  · simp [h1] at h
  · by_cases h2 : validComponent nm = true
    · simp [h1, h2] at h; subst h; exact ⟨rfl, h1, h2⟩
    · simp [h1, h2] at h

theorem pickName_no_panic (bi : BInfo) (w : String) : pickName bi ≠ .panic w := by
  unfold pickName
  generalize (if bi.name8 ≠ [] then bi.name8 else bi.name) = nm
  by_cases h1 : nm = []
  · simp [h1]
  · by_cases h2 : validComponent nm = true <;> simp [h1, h2]

/-! ### the property theorems -/

theorem checks_no_panic (bi : BInfo) (w : String) : checks bi ≠ .panic w := by
  intro h
  unfold checks at h
  split at h
  · simp at h
  · split at h
    · simp at h
    · rcases bind_panic h with h | ⟨⟨multi, files, length⟩, hlf, h⟩
      · exact lengthAndFiles_no_panic _ _ h
      · obtain ⟨l0, l1, -, -, -, -, -⟩ := lengthAndFiles_ok hlf
        rcases bind_panic h with h | ⟨_, _, h⟩
        · exact pathChecks_no_panic _ _ h
        rcases bind_panic h with h | ⟨chunks, hsz, h⟩
        · exact sizeChecks_no_panic l0 l1 _ h
        · rcases bind_panic h with h | ⟨name, hnm, h⟩
          · exact pickName_no_panic _ _ h
          · simp at h

/-- MetadataComplete never panics, for EVERY BInfo (on a Pieces that has no metadata yet) -/
theorem C13_no_panic (psLen : Int) (hps : psLen ≤ 0) (bi : BInfo) (w : String) :
    metadataComplete psLen bi ≠ .panic w := by
  intro h
  unfold metadataComplete at h
  rcases bind_panic h with h | ⟨c, hc, h⟩
  · exact checks_no_panic _ _ h
  · obtain ⟨-, hpl, -, hlf, -, hsz, -⟩ := checks_ok hc
    obtain ⟨l0, l1, -, -, -, -, -⟩ := lengthAndFiles_ok hlf
    obtain ⟨hlen, -, -⟩ := sizeChecks_ok l0 l1 hsz
    rcases bind_panic h with h | ⟨n, hp, h⟩
    · exact pieces_no_panic hps hpl l0 hlen _ h
    · simp at h

/-- REJECTION IS ATOMIC.  Torrent.MetadataComplete with its assignments in the order
    written: whenever it returns an error, not one field of the Torrent or of the piece
    store has changed (every check precedes every assignment).  A rejected dictionary
    leaves no trace, so it can be delivered again (and again) with the same outcome. -/
theorem C13_reject_atomic (st : TState) (bi : BInfo) (e : MErr)
    (h : (metadataCompleteSt st bi).2 = .err e) : (metadataCompleteSt st bi).1 = st := by
  unfold metadataCompleteSt at h ⊢
  split
  · rfl
  · rfl
  · rename_i c hc
    rw [hc] at h
    simp only at h
    split at h
    · rename_i e' hp
      -- Pieces.MetadataComplete has no error return
      unfold piecesMetadataComplete at hp
      split at hp
      · simp at hp
      · split at hp
        · simp at hp
        · simp only at hp
          split at hp <;> simp at hp
    · simp at h
    · simp at h

/-- the stateful function computes what the pure one does, and on success the state is the
    accepted geometry -/
theorem C13_stateful_agrees (st : TState) (bi : BInfo) :
    (match metadataComplete st.psLen bi with
     | .ok g => (metadataCompleteSt st bi).2 = .ok () ∧
         (metadataCompleteSt st bi).1.complete = true ∧
         (metadataCompleteSt st bi).1.name = g.name ∧
         (metadataCompleteSt st bi).1.inFlight = some g.nInFlight ∧
         (metadataCompleteSt st bi).1.nHashes = some g.nHashes ∧
         (metadataCompleteSt st bi).1.nPieces = g.nPieces ∧
         (metadataCompleteSt st bi).1.pieceSize = g.pieceLength ∧
         (metadataCompleteSt st bi).1.psLen = g.length
     | .err e => (metadataCompleteSt st bi).2 = .err e
     | .panic w => (metadataCompleteSt st bi).2 = .panic w) := by
  unfold metadataComplete metadataCompleteSt
  cases hc : checks bi with
  | err e => simp [Res.bind]
  | panic w => simp [Res.bind]
  | ok c =>
    simp only [Res.bind]
    cases hp : piecesMetadataComplete st.psLen bi.pieceLength c.length with
    | err e => simp
    | panic w => simp
    | ok n => simp

/-- after a rejection a second delivery of the same dictionary gives the same error -/
theorem C13_reject_repeatable (st : TState) (bi : BInfo) (e : MErr)
    (h : (metadataCompleteSt st bi).2 = .err e) :
    (metadataCompleteSt (metadataCompleteSt st bi).1 bi).2 = .err e := by
  rw [C13_reject_atomic st bi e h]; exact h

/-- acceptance implies a self-consistent geometry (`Geom.Valid`) -/
theorem C13_geometry {psLen : Int} {bi : BInfo} {g : Geom}
    (h : metadataComplete psLen bi = .ok g) : g.Valid := by
  obtain ⟨multi, files, length, chunks, name, n, h20, hpl0, hpl16, hlf, -, hsz, hnm, hp, hg⟩ := mc_ok_inv h
  obtain ⟨l0, l1, hcontig, hsum, hsingle, -, -⟩ := lengthAndFiles_ok hlf
  obtain ⟨hlen, hchunks, hnp⟩ := sizeChecks_ok l0 l1 hsz
  obtain ⟨hn, hn'⟩ := pieces_ok hpl0 l0 hlen hp
  obtain ⟨-, hname, -⟩ := pickName_ok hnm
  subst hg
  refine ⟨?_, ?_, l0, hcontig, hsum, ?_, hchunks, hn, ?_, hname⟩
  · simp only; omega
  · exact Nat.dvd_of_mod_eq_zero hpl16
  · intro hm; exact (hsingle hm).1
  · simp only
    have : ((bi.pieces.length / 20 : Nat) : Int) = (n : Int) := by rw [hnp, hn']
    omega

/-- every file path is non-empty — now tested by the code itself (`len(path) == 0`), for
    every BInfo, whatever the decoder does with empty lists -/
theorem C13_paths_nonempty {psLen : Int} {bi : BInfo} {g : Geom}
    (h : metadataComplete psLen bi = .ok g) : g.PathsNonEmpty := by
  obtain ⟨multi, files, length, chunks, name, n, -, -, -, hlf, -, -, -, -, hg⟩ := mc_ok_inv h
  obtain ⟨-, -, -, -, -, -, hgood⟩ := lengthAndFiles_ok hlf
  subst hg
  intro f hf
  exact (hgood f hf).1

/-- the file table and the name are usable as a namespace (C20's `WFfiles` + `nameOK`):
    the name and every path component are non-empty, not "." or "..", without '/'; every
    path is non-empty; paths are pairwise distinct; no path is a proper prefix of another -/
theorem C13_paths_wellformed {psLen : Int} {bi : BInfo} {g : Geom}
    (h : metadataComplete psLen bi = .ok g) :
    validComponent g.name = true ∧
    (∀ f ∈ g.files, f.path ≠ []) ∧
    (∀ f ∈ g.files, ∀ c ∈ f.path, validComponent c = true) ∧
    g.files.Pairwise (fun a b => a.path ≠ b.path) ∧
    (∀ f ∈ g.files, ∀ f' ∈ g.files, f.path <+: f'.path → f.path = f'.path) := by
  obtain ⟨multi, files, length, chunks, name, n, -, -, -, hlf, hpc, -, hnm, -, hg⟩ := mc_ok_inv h
  obtain ⟨-, -, -, -, -, -, hgood⟩ := lengthAndFiles_ok hlf
  obtain ⟨-, -, hvn⟩ := pickName_ok hnm
  obtain ⟨hpw, hpre⟩ := pathChecks_ok hpc (fun f hf => (hgood f hf).1)
  subst hg
  exact ⟨hvn, fun f hf => (hgood f hf).1, fun f hf => (hgood f hf).2, hpw, hpre⟩

/-- a usable component: non-empty and free of '/' (what C20's `compOK` asks) -/
theorem validComponent_spec {c : Bytes} (h : validComponent c = true) :
    c ≠ [] ∧ c.contains 47 = false ∧ c ≠ [46] ∧ c ≠ [46, 46] := by
  unfold validComponent at h
  simp only [Bool.and_eq_true, bne_iff_ne, ne_eq, Bool.not_eq_true'] at h
  exact ⟨h.1.1.1, h.2, h.1.1.2, h.1.2⟩

/-! ### the geometry as seen THROUGH the piece store -/

theorem sum_range_const (f : Nat → Nat) (c : Nat) : ∀ n, (∀ i, i < n → f i = c) →
    ((List.range n).map f).sum = n * c
  | 0, _ => by simp
  | n+1, h => by
    rw [List.range_succ, List.map_append, List.sum_append,
        sum_range_const f c n (fun i hi => h i (by omega))]
    simp only [List.map_cons, List.map_nil, List.sum_cons, List.sum_nil, h n (by omega)]
    rw [Nat.add_mul]; omega

theorem ceilDiv_split (L P : Nat) (hP : 0 < P) :
    ceilDiv L P = L / P + (if L % P = 0 then 0 else 1) := by
  unfold ceilDiv
  have hdm := Nat.div_add_mod L P
  have hr := Nat.mod_lt L hP
  by_cases h0 : L % P = 0
  · simp only [h0, if_true, Nat.add_zero]
    have : L + P - 1 = P * (L / P) + (P - 1) := by omega
    rw [this, Nat.mul_add_div hP, Nat.div_eq_of_lt (show P - 1 < P by omega)]; omega
  · simp only [h0, if_false]
    have : L + P - 1 = P * (L / P + 1) + (L % P - 1) := by
      rw [Nat.mul_add]; omega
    rw [this, Nat.mul_add_div hP, Nat.div_eq_of_lt (show L % P - 1 < P by omega)]

/-- Pieces.PieceLength / pieceChunks of an accepted torrent: full pieces before the last
    one, the last piece holds the remainder (a full piece when the length is a multiple),
    the piece lengths add up to the length and the per-piece block counts to the number of
    inFlight slots — for EVERY piece length 16384·k (powers of two or not) -/
theorem C13_piece_store {psLen : Int} {bi : BInfo} {g : Geom}
    (h : metadataComplete psLen bi = .ok g) :
    (∀ i, i < g.length.toNat / g.pieceLength → pieceLengthAt g i = g.pieceLength) ∧
    pieceLengthAt g (g.length.toNat / g.pieceLength) = g.length.toNat % g.pieceLength ∧
    (∀ i, g.length.toNat / g.pieceLength < i → pieceLengthAt g i = 0) ∧
    ((List.range g.nPieces).map (pieceLengthAt g)).sum = g.length.toNat ∧
    ((List.range g.nPieces).map (pieceBlocks g)).sum = g.nInFlight := by
  have hv := C13_geometry h
  obtain ⟨multi, files, length, chunks, name, n, -, hpl0, -, hlf, -, hsz, -, -, hg⟩ := mc_ok_inv h
  obtain ⟨l0, l1, -, -, -, -, -⟩ := lengthAndFiles_ok hlf
  obtain ⟨hlen, -, -⟩ := sizeChecks_ok l0 l1 hsz
  have hP : 0 < g.pieceLength := hv.pl_pos
  have hP16 : 16384 ≤ g.pieceLength := Nat.le_of_dvd hP hv.pl_chunks
  have hL : g.length = (g.length.toNat : Int) := (Int.toNat_of_nonneg hv.len_nonneg).symm
  have hglen : g.length = length := by rw [hg]
  -- `last` and the remainder, on naturals
  have hq : (Int.tdiv g.length (g.pieceLength : Int)).toNat % 4294967296 =
      g.length.toNat / g.pieceLength := by
    have e : g.length / (g.pieceLength : Int) = ((g.length.toNat / g.pieceLength : Nat) : Int) := by
      rw [Int.natCast_ediv, ← hL]
    rw [Int.tdiv_eq_ediv_of_nonneg hv.len_nonneg, e, Int.toNat_natCast]
    have hd1 : g.length.toNat / g.pieceLength ≤ g.length.toNat / 16384 :=
      Nat.div_le_div_left hP16 (by omega)
    have hd2 : g.length.toNat ≤ 4294967295 * 16384 := by omega
    generalize g.length.toNat / g.pieceLength = q at hd1 ⊢
    omega
  have hr : (Int.tmod g.length (g.pieceLength : Int)).toNat % 4294967296 =
      g.length.toNat % g.pieceLength := by
    have e : g.length % (g.pieceLength : Int) = ((g.length.toNat % g.pieceLength : Nat) : Int) := by
      rw [Int.natCast_emod, ← hL]
    rw [Int.tmod_eq_emod_of_nonneg hv.len_nonneg, e, Int.toNat_natCast]
    have := Nat.mod_lt g.length.toNat hP
    have := UInt32.toNat_lt bi.pieceLength
    have : g.pieceLength = bi.pieceLength.toNat := by rw [hg]
    omega
  have ha : ∀ i, i < g.length.toNat / g.pieceLength → pieceLengthAt g i = g.pieceLength := by
    intro i hi; unfold pieceLengthAt; simp only [hq, hi, if_true]
  have hb : pieceLengthAt g (g.length.toNat / g.pieceLength) = g.length.toNat % g.pieceLength := by
    unfold pieceLengthAt; simp only [hq, hr, Nat.lt_irrefl, if_false, if_true]
  have hc : ∀ i, g.length.toNat / g.pieceLength < i → pieceLengthAt g i = 0 := by
    intro i hi; unfold pieceLengthAt
    have h1 : ¬ i < g.length.toNat / g.pieceLength := by omega
    have h2 : ¬ i = g.length.toNat / g.pieceLength := by omega
    simp only [hq, h1, h2, if_false]
  have hnp : g.nPieces = g.length.toNat / g.pieceLength +
      (if g.length.toNat % g.pieceLength = 0 then 0 else 1) := by
    rw [hv.pieces]; exact ceilDiv_split _ _ hP
  have hdm := Nat.div_add_mod g.length.toNat g.pieceLength
  obtain ⟨m, hm⟩ := hv.pl_chunks
  have hblk : ∀ i, i < g.length.toNat / g.pieceLength → pieceBlocks g i = m := by
    intro i hi; unfold pieceBlocks; rw [ha i hi, hm]; omega
  have hqm : g.pieceLength * (g.length.toNat / g.pieceLength) =
      16384 * (m * (g.length.toNat / g.pieceLength)) := by rw [hm, Nat.mul_assoc]
  refine ⟨ha, hb, hc, ?_, ?_⟩
  · by_cases h0 : g.length.toNat % g.pieceLength = 0
    · simp only [h0, if_true, Nat.add_zero] at hnp
      rw [hnp, sum_range_const _ g.pieceLength _ ha, Nat.mul_comm]; omega
    · simp only [h0, if_false] at hnp
      rw [hnp, List.range_succ, List.map_append, List.sum_append,
          sum_range_const _ g.pieceLength _ ha]
      simp only [List.map_cons, List.map_nil, List.sum_cons, List.sum_nil, hb]
      rw [Nat.mul_comm]; omega
  · rw [hv.inflight]
    unfold ceilDiv
    by_cases h0 : g.length.toNat % g.pieceLength = 0
    · simp only [h0, if_true, Nat.add_zero] at hnp
      rw [hnp, sum_range_const _ m _ hblk, Nat.mul_comm]
      generalize m * (g.length.toNat / g.pieceLength) = qm at hqm ⊢
      omega
    · simp only [h0, if_false] at hnp
      rw [hnp, List.range_succ, List.map_append, List.sum_append, sum_range_const _ m _ hblk]
      simp only [List.map_cons, List.map_nil, List.sum_cons, List.sum_nil]
      unfold pieceBlocks
      rw [hb, Nat.mul_comm]
      generalize m * (g.length.toNat / g.pieceLength) = qm at hqm ⊢
      omega

/-- error or valid, nothing in between -/
theorem C13_reject_or_valid (psLen : Int) (hps : psLen ≤ 0) (bi : BInfo) :
    (∃ e, metadataComplete psLen bi = .err e) ∨
    (∃ g, metadataComplete psLen bi = .ok g ∧ g.Valid) := by
  cases h : metadataComplete psLen bi with
  | ok g => exact Or.inr ⟨g, rfl, C13_geometry h⟩
  | err e => exact Or.inl ⟨e, rfl⟩
  | panic w => exact absurd h (C13_no_panic psLen hps bi w)

/-- the accepted geometry is the one the dictionary describes (not just any valid one) -/
theorem C13_geometry_faithful {psLen : Int} {bi : BInfo} {g : Geom}
    (h : metadataComplete psLen bi = .ok g) :
    g.pieceLength = bi.pieceLength.toNat ∧ g.nHashes * 20 = bi.pieces.length ∧
    g.name = (if bi.name8 ≠ [] then bi.name8 else bi.name) ∧
    (g.multi = false → g.length = bi.length.toInt ∧ bi.files = none) ∧
    (g.multi = true → ∃ fs, bi.files = some fs ∧ bi.length.toInt ≤ 0 ∧
        g.files.map (·.length) = fs.map (·.length.toInt) ∧
        g.files.map (fun f => some f.path) = fs.map pickPath) := by
  obtain ⟨multi, files, length, chunks, name, n, h20, -, -, hlf, -, -, hnm, -, hg⟩ := mc_ok_inv h
  obtain ⟨-, -, -, -, hsingle, hmulti, -⟩ := lengthAndFiles_ok hlf
  obtain ⟨hname, -, -⟩ := pickName_ok hnm
  subst hg
  refine ⟨rfl, by simp only; omega, hname, ?_, ?_⟩
  · intro hm
    exact ⟨(hsingle hm).2.1, (hsingle hm).2.2.2⟩
  · intro hm
    exact hmulti hm

/-- without the guard added by the repair, Pieces.MetadataComplete divides by zero -/
theorem C13_piece_length_zero_faults_unguarded :
    piecesMetadataComplete 0 0 5 = .panic "integer divide by zero" := by decide +kernel

def exZeroPl : BInfo :=
  { name := [120], name8 := [], pieceLength := 0, pieces := List.replicate 20 0,
    length := 5, files := none }
example : metadataComplete 0 exZeroPl = .err .oddPiece := by decide +kernel

-- non-vacuity: an accepted single-file and an accepted multi-file dictionary
def exSingle : BInfo :=
  { name := [120], name8 := [], pieceLength := 16384, pieces := List.replicate 40 0,
    length := 16385, files := none }
example : metadataComplete 0 exSingle =
    .ok { name := [120], pieceLength := 16384, length := 16385, multi := false, files := [],
          nInFlight := 2, nPieces := 2, nHashes := 2 } := by decide +kernel

def exMulti : BInfo :=
  { name := [120], name8 := [], pieceLength := 16384, pieces := List.replicate 20 0, length := 0,
    files := some [{ path := some [[97]], path8 := none, length := 5, attr := [] },
                   { path := some [[98]], path8 := none, length := 0, attr := [112] }] }
example : metadataComplete 0 exMulti =
    .ok { name := [120], pieceLength := 16384, length := 5, multi := true,
          files := [{ path := [[97]], offset := 0, length := 5, padding := false },
                    { path := [[98]], offset := 5, length := 0, padding := true }],
          nInFlight := 1, nPieces := 1, nHashes := 1 } := by decide +kernel

def exDup : BInfo :=
  { name := [120], name8 := [], pieceLength := 16384, pieces := List.replicate 20 0, length := 0,
    files := some [{ path := some [[97]], path8 := none, length := 5, attr := [] },
                   { path := some [[97]], path8 := none, length := 1, attr := [] }] }
example : metadataComplete 0 exDup = .err .dupPath := by decide +kernel

def exDir : BInfo :=
  { name := [120], name8 := [], pieceLength := 16384, pieces := List.replicate 20 0, length := 0,
    files := some [{ path := some [[97], [98]], path8 := none, length := 5, attr := [] },
                   { path := some [[97]], path8 := none, length := 1, attr := [] }] }
example : metadataComplete 0 exDir = .err .fileIsDir := by decide +kernel

def exBadName : BInfo :=
  { name := [46, 46], name8 := [], pieceLength := 16384, pieces := List.replicate 20 0,
    length := 5, files := none }
example : metadataComplete 0 exBadName = .err .badName := by decide +kernel

/-! ### magnets -/

theorem hexDecode_length : ∀ (s h : Bytes), hexDecode s = some h → s.length = 2 * h.length
  | [], h, hh => by simp [hexDecode] at hh; subst hh; rfl
  | [_], h, hh => by simp [hexDecode] at hh
  | a :: b :: rest, h, hh => by
    unfold hexDecode at hh
    split at hh
    · rename_i x y r _ _ hr
      simp only [Option.some.injEq] at hh
      subst hh
      have := hexDecode_length rest r hr
      simp only [List.length_cons]
      omega
    · simp at hh

theorem b32Vals_length : ∀ (s : Bytes) (l : List Nat), b32Vals s = some l → l.length = s.length
  | [], l, h => by simp [b32Vals] at h; subst h; rfl
  | b :: rest, l, h => by
    unfold b32Vals at h
    split at h
    · rename_i v r _ hr
      simp only [Option.some.injEq] at h
      subst h
      simp [b32Vals_length rest r hr]
    · simp at h

theorem b32Groups_length : ∀ (l : List Nat), (b32Groups l).length = 5 * (l.length / 8)
  | a :: b :: c :: d :: e :: f :: g :: h :: rest => by
    simp only [b32Groups, List.length_append, List.length_cons, List.length_nil,
      b32Groups_length rest]
    omega
  | [] => by simp [b32Groups]
  | [_] => by simp [b32Groups]
  | [_, _] => by simp [b32Groups]
  | [_, _, _] => by simp [b32Groups]
  | [_, _, _, _] => by simp [b32Groups]
  | [_, _, _, _, _] => by simp [b32Groups]
  | [_, _, _, _, _, _] => by simp [b32Groups]
  | [_, _, _, _, _, _, _] => by simp [b32Groups]

/-- hash.Parse returns nil or exactly 20 bytes -/
theorem hashParse_length {s h : Bytes} (hp : hashParse s = some h) : h.length = 20 := by
  unfold hashParse at hp
  split at hp
  · rename_i h' hx
    simp only [Option.some.injEq] at hp
    subst hp
    split at hx
    · rename_i h40
      have := hexDecode_length _ _ hx
      omega
    · simp at hx
  · unfold b32Decode20 at hp
    simp only at hp
    split at hp
    · rename_i h32
      rw [Option.map_eq_some_iff] at hp
      obtain ⟨a, ha, hg⟩ := hp
      subst hg
      have := b32Vals_length _ _ ha
      rw [b32Groups_length]
      omega
    · simp at hp

theorem firstBtih_spec : ∀ (xts : List Bytes) (h : Bytes), firstBtih xts = some h →
    ∃ v ∈ xts, btihPrefix.isPrefixOf v = true ∧ hashParse (v.drop 9) = some h
  | [], h, hh => by simp [firstBtih] at hh
  | v :: rest, h, hh => by
    unfold firstBtih at hh
    split at hh
    · rename_i hpre
      split at hh
      · rename_i h' hp
        simp only [Option.some.injEq] at hh
        subst hh
        exact ⟨v, by simp, hpre, hp⟩
      · obtain ⟨v', hm, h1, h2⟩ := firstBtih_spec rest h hh
        exact ⟨v', by simp [hm], h1, h2⟩
    · obtain ⟨v', hm, h1, h2⟩ := firstBtih_spec rest h hh
      exact ⟨v', by simp [hm], h1, h2⟩

theorem readMagnet_torrent {m : Bytes} {url : Option (Bytes × List Bytes)} {h : Bytes}
    (hr : readMagnet m url = .torrent h) :
    h.length = 20 ∧
      (hashParse m = some h ∨
       ∃ xts v, url = some (magnetScheme, xts) ∧ v ∈ xts ∧ btihPrefix.isPrefixOf v = true ∧
         hashParse (v.drop 9) = some h) := by
  unfold readMagnet at hr
  split at hr
  · rename_i h' hp
    simp only [MagnetRes.torrent.injEq] at hr
    subst hr
    exact ⟨hashParse_length hp, Or.inl hp⟩
  · split at hr
    · simp at hr
    · rename_i sch xts
      split at hr
      · simp at hr
      · rename_i hs
        have hs' : sch = magnetScheme := by simpa using hs
        subst hs'
        split at hr
        · rename_i h' hb
          simp only [MagnetRes.torrent.injEq] at hr
          subst hr
          obtain ⟨v, hm, h1, h2⟩ := firstBtih_spec xts _ hb
          exact ⟨hashParse_length h2, Or.inr ⟨xts, v, rfl, hm, h1, h2⟩⟩
        · simp at hr

theorem readMagnet_notMagnet {m : Bytes} {url : Option (Bytes × List Bytes)}
    (hr : readMagnet m url = .notMagnet) :
    hashParse m = none ∧ (url = none ∨ ∃ sch xts, url = some (sch, xts) ∧ sch ≠ magnetScheme) := by
  unfold readMagnet at hr
  split at hr
  · simp at hr
  · rename_i hp
    split at hr
    · exact ⟨hp, Or.inl rfl⟩
    · rename_i sch xts
      split at hr
      · rename_i hs
        exact ⟨hp, Or.inr ⟨sch, xts, rfl, hs⟩⟩
      · split at hr <;> simp at hr

theorem readMagnet_err {m : Bytes} {url : Option (Bytes × List Bytes)}
    (hr : readMagnet m url = .err) :
    hashParse m = none ∧ ∃ xts, url = some (magnetScheme, xts) ∧ firstBtih xts = none := by
  unfold readMagnet at hr
  split at hr
  · simp at hr
  · rename_i hp
    split at hr
    · simp at hr
    · rename_i sch xts
      split at hr
      · simp at hr
      · rename_i hs
        have hs' : sch = magnetScheme := by simpa using hs
        subst hs'
        split at hr
        · simp at hr
        · rename_i hb
          exact ⟨hp, xts, rfl, hb⟩

/-- ReadMagnet, for every string and every behaviour of net/url: not a magnet, an error,
    or a torrent whose hash is the 20-byte decoding (hex or base 32) of the string itself
    or of the `urn:btih:` value of one of its `xt` parameters -/
theorem C13_magnet_total (m : Bytes) (url : Option (Bytes × List Bytes)) :
    (∀ h, readMagnet m url = .torrent h → h.length = 20 ∧
        (hashParse m = some h ∨
         ∃ xts v, url = some (magnetScheme, xts) ∧ v ∈ xts ∧ btihPrefix.isPrefixOf v = true ∧
           hashParse (v.drop 9) = some h)) ∧
    (readMagnet m url = .notMagnet → hashParse m = none ∧
        (url = none ∨ ∃ sch xts, url = some (sch, xts) ∧ sch ≠ magnetScheme)) ∧
    (readMagnet m url = .err → hashParse m = none ∧
        ∃ xts, url = some (magnetScheme, xts) ∧ firstBtih xts = none) :=
  ⟨fun _ hr => readMagnet_torrent hr, readMagnet_notMagnet, readMagnet_err⟩

-- non-vacuity: a hex and a base-32 hash, a magnet with two xt values
example : hashParse (List.replicate 40 48) = some (List.replicate 20 0) := by decide +kernel
example : hashParse (List.replicate 32 65) = some (List.replicate 20 0) := by decide +kernel
example : readMagnet [120] (some (magnetScheme, [[120], btihPrefix ++ List.replicate 40 48])) =
    .torrent (List.replicate 20 0) := by decide +kernel

/-! ### WriteTorrent -> ReadTorrent, field level -/

theorem filter_all_true {α : Type} (p : α → Bool) : ∀ (l : List α), (∀ x ∈ l, p x = true) → l.filter p = l
  | [], _ => rfl
  | x :: rest, h => by
    have hx : p x = true := h x (by simp)
    simp only [List.filter, hx]
    rw [filter_all_true p rest (fun y hy => h y (by simp [hy]))]

theorem map_filter_tiers (okT : Bytes → Bool) : ∀ (ts : List (List Bytes)),
    (∀ tier ∈ ts, ∀ u ∈ tier, okT u = true) → ts.map (fun tier => tier.filter okT) = ts
  | [], _ => rfl
  | t :: rest, h => by
    simp only [List.map]
    rw [filter_all_true okT t (h t (by simp)),
        map_filter_tiers okT rest (fun tier ht => h tier (by simp [ht]))]

theorem ws_back (okW : Bytes → Bool) (k : WsKind) : ∀ (ws : List (WsKind × Bytes)),
    (∀ w ∈ ws, okW w.2 = true) →
    (((ws.filter (fun w => w.1 = k)).map (·.2)).filter okW).map (fun u => (k, u)) =
      ws.filter (fun w => w.1 = k)
  | [], _ => rfl
  | w :: rest, h => by
    have ih := ws_back okW k rest (fun x hx => h x (by simp [hx]))
    have hw : okW w.2 = true := h w (by simp)
    by_cases hk : w.1 = k
    · rw [List.filter_cons_of_pos (by simpa using hk), List.map_cons,
          List.filter_cons_of_pos hw, List.map_cons, ih]
      congr 1
      rw [← hk]
    · rw [List.filter_cons_of_neg (by simpa using hk)]
      exact ih

/-- what ReadTorrent reads back from the fields WriteTorrent emits: the same tracker tiers
    (URLs and order) and the same web seeds (GetRight and Hoffman lists kept apart, each
    in order), for every tracker/web-seed table whose URLs the constructors accept — with
    one exception: a torrent whose only tracker has the empty URL (see `…_full_refuted`) -/
theorem C13_write_roundtrip (okT okW : Bytes → Bool) (ts : List (List Bytes))
    (ws : List (WsKind × Bytes))
    (hT : ∀ tier ∈ ts, ∀ u ∈ tier, okT u = true) (hW : ∀ w ∈ ws, okW w.2 = true)
    (hne : ts ≠ [[[]]]) :
    readFields okT okW (writeFields ts ws) =
      (ts, ws.filter (fun w => w.1 = .getright) ++ ws.filter (fun w => w.1 = .hoffman)) := by
  unfold readFields writeFields
  simp only [ws_back okW _ ws hW]
  congr 1
  match ts, hT, hne with
  | [], _, _ => simp
  | [[u]], hT, hne =>
    have hu : u ≠ [] := by intro h; subst h; exact hne rfl
    have : okT u = true := hT [u] (by simp) u (by simp)
    simp [hu, this]
  | [] :: rest, hT, _ =>
    simp only [List.isEmpty_cons, Bool.or_false]
    simp [map_filter_tiers okT _ hT]
  | [u, v] :: rest, hT, _ => simp [map_filter_tiers okT _ hT]
  | (u :: v :: w :: t) :: rest, hT, _ => simp [map_filter_tiers okT _ hT]
  | [u] :: t2 :: rest, hT, _ => simp [map_filter_tiers okT _ hT]

/-- the same without the exception -/
def C13_write_roundtrip_full : Prop :=
  ∀ (okT okW : Bytes → Bool) (ts : List (List Bytes)) (ws : List (WsKind × Bytes)),
    (∀ tier ∈ ts, ∀ u ∈ tier, okT u = true) → (∀ w ∈ ws, okW w.2 = true) →
    readFields okT okW (writeFields ts ws) =
      (ts, ws.filter (fun w => w.1 = .getright) ++ ws.filter (fun w => w.1 = .hoffman))

/-- witness: `announce-list: [[""]]` gives one tracker with the empty URL (tracker.New("")
    is an Unknown tracker); WriteTorrent writes it as `announce: ""`, which is omitted, and
    the tracker is gone when the file is read back -/
theorem C13_write_roundtrip_full_refuted : ¬ C13_write_roundtrip_full := by
  intro h
  have := h (fun _ => true) (fun _ => true) [[[]]] [] (by simp) (by simp)
  revert this
  decide

/-! ### the info-hash is the SHA-1 of the raw info value, wherever it is in the file -/

/-- a dictionary entry as it appears in the file: key token `ke` (encoding the key `k`)
    followed by the raw value `v` -/
structure Entry where
  k : Bytes
  ke : Bytes
  v : Bytes

/-- well-formed for zeebo's scanner, whatever follows -/
def Entry.WF (e : Entry) : Prop :=
  (∀ rest, rawStr (e.ke ++ rest) = some (e.k, rest)) ∧
  (∀ rest, rawVal (e.v ++ rest) = some rest) ∧
  (∃ b t, e.ke = b :: t ∧ b ≠ 101)

def flat : List Entry → Bytes
  | [] => []
  | e :: rest => e.ke ++ (e.v ++ flat rest)

/-- where the value of the last `info` entry lies, entries starting at offset `off` -/
def locate : List Entry → Nat → Option (Nat × Nat) → Option (Nat × Nat)
  | [], _, found => found
  | e :: rest, off, found =>
    locate rest (off + e.ke.length + e.v.length)
      (if e.k = infoKey then some (off + e.ke.length, e.v.length) else found)

theorem topLoop_entries (all trailing : Bytes) : ∀ (es : List Entry) (pre : Bytes)
    (found : Option (Nat × Nat)) (fuel : Nat),
    (∀ e ∈ es, e.WF) → es.length < fuel → all = pre ++ (flat es ++ 101 :: trailing) →
    topLoop all fuel (flat es ++ 101 :: trailing) found = some (locate es pre.length found)
  | [], pre, found, fuel, _, hf, _ => by
    cases fuel with
    | zero => omega
    | succ f => simp [flat, topLoop, locate]
  | e :: rest, pre, found, fuel, hw, hf, hall => by
    cases fuel with
    | zero => simp at hf
    | succ f =>
      obtain ⟨hk, hv, b, t, hb, hne⟩ := hw e (by simp)
      have hbs : flat (e :: rest) ++ 101 :: trailing =
          e.ke ++ (e.v ++ (flat rest ++ 101 :: trailing)) := by
        simp [flat, List.append_assoc]
      rw [hbs]
      have ih := topLoop_entries all trailing rest (pre ++ e.ke ++ e.v)
        (if e.k = infoKey then some (pre.length + e.ke.length, e.v.length) else found) f
        (fun x hx => hw x (by simp [hx])) (by simp at hf; omega)
        (by rw [hall, hbs]; simp [List.append_assoc])
      unfold topLoop
      have hsplit : e.ke ++ (e.v ++ (flat rest ++ 101 :: trailing)) =
          b :: (t ++ (e.v ++ (flat rest ++ 101 :: trailing))) := by rw [hb]; rfl
      split
      · rename_i h0; rw [hsplit] at h0; simp at h0
      · rename_i h1; rw [hsplit] at h1; simp at h1; exact absurd h1.1 hne
      · rw [hk]
        dsimp only
        rw [hv]
        dsimp only
        have e1 : all.length - (e.v ++ (flat rest ++ 101 :: trailing)).length = pre.length + e.ke.length := by
          rw [hall, hbs]; simp [List.length_append]; omega
        have e2 : (e.v ++ (flat rest ++ 101 :: trailing)).length - (flat rest ++ 101 :: trailing).length
            = e.v.length := by simp [List.length_append]
        rw [e1, e2, ih]
        simp [locate, List.length_append, Nat.add_assoc]


theorem flat_length_ge : ∀ (es : List Entry), (∀ e ∈ es, e.WF) → es.length ≤ (flat es).length
  | [], _ => by simp [flat]
  | e :: rest, hw => by
    obtain ⟨_, _, b, t, hb, _⟩ := hw e (by simp)
    have := flat_length_ge rest (fun x hx => hw x (by simp [hx]))
    simp only [flat, List.length_append, List.length_cons, hb]
    omega

/-- the value of the last `info` entry -/
def lastInfo : List Entry → Option Bytes → Option Bytes
  | [], acc => acc
  | e :: rest, acc => lastInfo rest (if e.k = infoKey then some e.v else acc)

theorem locate_slice (all post : Bytes) : ∀ (es : List Entry) (pre : Bytes)
    (found : Option (Nat × Nat)) (fv : Option Bytes),
    all = pre ++ (flat es ++ post) → found.map (sliceBytes all) = fv →
    (locate es pre.length found).map (sliceBytes all) = lastInfo es fv
  | [], _, found, fv, _, hf => by simp [locate, lastInfo, hf]
  | e :: rest, pre, found, fv, hall, hf => by
    simp only [locate, lastInfo]
    have h := locate_slice all post rest (pre ++ e.ke ++ e.v)
      (if e.k = infoKey then some (pre.length + e.ke.length, e.v.length) else found)
      (if e.k = infoKey then some e.v else fv)
      (by rw [hall]; simp [flat, List.append_assoc])
      (by
        split
        · simp only [Option.map_some, sliceBytes]
          congr 1
          have : all = (pre ++ e.ke) ++ (e.v ++ (flat rest ++ post)) := by
            rw [hall]; simp [flat, List.append_assoc]
          rw [this]
          have hl : (pre ++ e.ke).length = pre.length + e.ke.length := by simp
          rw [← hl, List.drop_left, List.take_left]
        · exact hf)
    simp only [List.length_append, Nat.add_assoc] at h
    simp only [Nat.add_assoc]
    exact h

/-- the info-hash is the SHA-1 of the raw value of the LAST top-level `info` entry exactly
    as it appears in the file — for every list of well-formed entries in any order, with
    any extra keys, any (also non-canonical) encodings of the other keys and values, and
    any trailing bytes: `sha1 ((infoSlice file).map (sliceBytes file))` depends on nothing
    else in the file -/
theorem C13_infohash_raw (es : List Entry) (trailing : Bytes) (hw : ∀ e ∈ es, e.WF) :
    (infoSlice (100 :: (flat es ++ 101 :: trailing))).map
      (sliceBytes (100 :: (flat es ++ 101 :: trailing))) = lastInfo es none := by
  have h1 := topLoop_entries (100 :: (flat es ++ 101 :: trailing)) trailing es [100] none
    ((100 :: (flat es ++ 101 :: trailing)).length + 1) hw
    (by have := flat_length_ge es hw; simp [List.length_append]; omega) rfl
  unfold infoSlice
  simp only [h1, Option.bind_some, id]
  exact locate_slice _ (101 :: trailing) es [100] none none rfl rfl

-- non-vacuity: `4:info` + `de` and `1:a` + `i7e` are well-formed entries
def exInfo : Entry := { k := infoKey, ke := [52, 58, 105, 110, 102, 111], v := [100, 101] }
def exOther : Entry := { k := [97], ke := [49, 58, 97], v := [105, 55, 101] }

example : infoSlice (100 :: (flat [exOther, exInfo, exOther] ++ 101 :: [120, 121])) = some (13, 2) := by
  decide +kernel


example : exOther.WF := by
  refine ⟨fun rest => ?_, fun rest => ?_, 49, [58, 97], rfl, by decide⟩
  · simp [exOther, rawStr, findByte, parseLen, allDigits, digitsVal]
  · simp only [exOther, rawVal, List.cons_append, List.nil_append, List.length_cons]
    have : 2 * (rest.length + 1 + 1 + 1) + 2 = (2 * rest.length + 7) + 1 := by omega
    rw [this]
    simp [rawScan, findByte]

example : exInfo.WF := by
  refine ⟨fun rest => ?_, fun rest => ?_, 52, [58, 105, 110, 102, 111], rfl, by decide⟩
  · simp [exInfo, infoKey, rawStr, findByte, parseLen, allDigits, digitsVal]
  · simp only [exInfo, rawVal, List.cons_append, List.nil_append, List.length_cons]
    have : 2 * (rest.length + 1 + 1) + 2 = (2 * rest.length + 4) + 1 + 1 := by omega
    rw [this]
    simp [rawScan]

/-! ### raw bytes: canonical key tokens, ReadTorrent over any byte string -/

theorem findByte_skip (b : UInt8) : ∀ (ds t : Bytes) (k : Nat), (∀ d ∈ ds, d ≠ b) →
    findByte b (ds ++ b :: t) k = some (k + ds.length)
  | [], t, k, _ => by simp [findByte]
  | d :: ds, t, k, h => by
    have hd : d ≠ b := h d (by simp)
    simp only [List.cons_append, findByte, hd, if_false]
    rw [findByte_skip b ds t (k + 1) (fun x hx => h x (by simp [hx]))]
    simp only [List.length_cons]; congr 1; omega

theorem allDigits_of : ∀ (ds : Bytes), (∀ d ∈ ds, Bencode.isDigit d = true) → allDigits ds = true
  | [], _ => rfl
  | d :: ds, h => by
    have hd := h d (by simp)
    unfold Bencode.isDigit at hd
    simp only [allDigits, hd, Bool.true_and]
    exact allDigits_of ds (fun x hx => h x (by simp [hx]))

theorem parseLen_natDigits (n : Nat) (hn : n ≤ 2147483647) : parseLen (Bencode.natDigits n) = some n := by
  obtain ⟨d, ds, hds, hd⟩ := Bencode.natDigits_cons n
  have hall := allDigits_of _ (Bencode.natDigits_all n)
  have hval : digitsVal (Bencode.natDigits n) = n := Bencode.natDigits_val n
  have hb := Bencode.isDigit_bounds d hd
  have h43 : d ≠ 43 := by intro h; subst h; simp at hb
  have h45 : d ≠ 45 := by intro h; subst h; simp at hb
  rw [hds] at hall hval ⊢
  unfold parseLen
  split
  · simp at *
  · rename_i ds' heq; simp only [List.cons.injEq] at heq; exact absurd heq.1 h43
  · rename_i ds' heq; simp only [List.cons.injEq] at heq; exact absurd heq.1 h45
  · simp [hall, hval, hn]

/-- the canonical token of a key scans as that key, whatever follows -/
theorem rawStr_encStr (k rest : Bytes) (hk : k.length ≤ 2147483647) :
    rawStr (Bencode.encStr k ++ rest) = some (k, rest) := by
  unfold rawStr Bencode.encStr
  have hne : ∀ d ∈ Bencode.natDigits k.length, d ≠ 58 := by
    intro d hd h
    have := Bencode.natDigits_all k.length d hd
    rw [h, Bencode.not_digit_58] at this
    simp at this
  have hf : findByte 58 (Bencode.natDigits k.length ++ [58] ++ k ++ rest) 0 =
      some (Bencode.natDigits k.length).length := by
    have := findByte_skip 58 (Bencode.natDigits k.length) (k ++ rest) 0 hne
    simpa [List.append_assoc] using this
  rw [hf]
  simp only [List.append_assoc, List.singleton_append, List.cons_append, List.nil_append,
    List.take_left']
  rw [parseLen_natDigits _ hk]
  have hd : List.drop ((Bencode.natDigits k.length).length + 1)
      (Bencode.natDigits k.length ++ 58 :: (k ++ rest)) = k ++ rest := by
    rw [List.drop_append, List.drop_eq_nil_of_le (by omega)]
    have : (Bencode.natDigits k.length).length + 1 - (Bencode.natDigits k.length).length = 1 := by omega
    rw [this]; rfl
  simp only [hd, List.length_append, List.take_left', List.drop_left']
  simp

/-- (1a) THE INFO-HASH IS THE SHA-1 OF THE SPAN OF `<V>` AS IT APPEARS IN THE FILE.
    For a torrent file `d <k₁><v₁> … <kₙ><vₙ> e <trailing>` with canonically encoded keys in
    ANY order, any unknown keys, and values that are well-formed for the scanner — whatever
    they contain: non-canonical integers, unsorted or duplicated inner keys — the bytes
    that are hashed are exactly the bytes of the value of the last `info` key.  Nothing
    is re-encoded, so no re-encoding can change the identity. -/
theorem C13_infohash_raw_bytes (kvs : List (Bytes × Bytes)) (trailing : Bytes)
    (hk : ∀ kv ∈ kvs, kv.1.length ≤ 2147483647)
    (hv : ∀ kv ∈ kvs, ∀ rest, rawVal (kv.2 ++ rest) = some rest) :
    let es := kvs.map (fun kv => ({ k := kv.1, ke := Bencode.encStr kv.1, v := kv.2 } : Entry))
    let file := 100 :: (flat es ++ 101 :: trailing)
    (infoSlice file).map (sliceBytes file) = lastInfo es none := by
  intro es file
  apply C13_infohash_raw
  intro e he
  simp only [es, List.mem_map] at he
  obtain ⟨kv, hkv, rfl⟩ := he
  refine ⟨fun rest => rawStr_encStr _ _ (hk kv hkv), hv kv hkv, ?_⟩
  obtain ⟨d, ds, hds, hd⟩ := Bencode.encStr_cons kv.1
  refine ⟨d, ds, hds, ?_⟩
  intro h; subst h
  rw [Bencode.not_digit_101] at hd; simp at hd

theorem bind_id_some {α : Type} {x : Option (Option α)} {a : α} (h : x.bind id = some a) :
    x = some (some a) := by
  cases x with
  | none => simp at h
  | some y => simp at h; rw [h]

/-- (1b) ReadTorrent over ANY byte string, with the Lean decoder: no fault.  The decoder's
    loops are fuelled by the input length, so nesting depth is immaterial (the Go decoder
    recurses per nesting level: the recorded zeebo finding is exactly "depth beyond the
    goroutine stack", the one kind of input on which the real decoder faults) -/
theorem C13_parse_total_bytes (bs : Bytes) (w : String) : readTorrentBytes bs ≠ .panic w := by
  unfold readTorrentBytes
  split
  · simp
  · simp only
    split
    · simp
    · rename_i bi _
      split
      · simp
      · simp
      · rename_i w' hw
        exact absurd hw (C13_no_panic 0 (by omega) bi w')

/-- … and an accepted byte string yields: the raw `info` value exactly as it lies in the
    file (its SHA-1 is the identity), decoded by `decodeBInfo`, with a self-consistent
    geometry and a usable namespace -/
theorem C13_readtorrent_bytes_valid {bs info : Bytes} {g : Geom}
    (h : readTorrentBytes bs = .ok info g) :
    (∃ ol bi, topInfo bs = some ol ∧ info = sliceBytes bs ol ∧ decodeBInfo info = some bi ∧
      metadataComplete 0 bi = .ok g) ∧
    g.Valid ∧ g.PathsNonEmpty ∧ validComponent g.name = true ∧
    g.files.Pairwise (fun a b => a.path ≠ b.path) := by
  unfold readTorrentBytes at h
  split at h
  · simp at h
  · rename_i ol hol
    simp only at h
    split at h
    · simp at h
    · rename_i bi hbi
      split at h
      · rename_i g' hg
        simp only [RtRes.ok.injEq] at h
        obtain ⟨h1, h2⟩ := h
        subst h1 h2
        have hw := C13_paths_wellformed hg
        exact ⟨⟨ol, bi, hol, rfl, hbi, hg⟩, C13_geometry hg, C13_paths_nonempty hg, hw.1, hw.2.2.2.1⟩
      · simp at h
      · simp at h

/-- MetadataComplete on bytes (what a magnet's completed buffer goes through): no fault, and
    acceptance implies a valid geometry -/
theorem C13_metadataCompleteBytes_total (info : Bytes) (w : String) :
    metadataCompleteBytes info ≠ .panic w := by
  unfold metadataCompleteBytes
  split
  · simp
  · exact C13_no_panic 0 (by omega) _ w

/-! ### (4) non-vacuity on raw bytes: a real (small) .torrent file -/

/-- `d8:announce3:a:b7:comment2:hi4:infod6:lengthi5e4:name1:x12:piece lengthi16384e6:pieces20:ABC…Tee` -/
def exFile : Bytes := [100, 56, 58, 97, 110, 110, 111, 117, 110, 99, 101, 51, 58, 97, 58, 98, 55, 58, 99, 111, 109, 109, 101, 110, 116, 50, 58, 104, 105, 52, 58, 105, 110, 102, 111, 100, 54, 58, 108, 101, 110, 103, 116, 104, 105, 53, 101, 52, 58, 110, 97, 109, 101, 49, 58, 120, 49, 50, 58, 112, 105, 101, 99, 101, 32, 108, 101, 110, 103, 116, 104, 105, 49, 54, 51, 56, 52, 101, 54, 58, 112, 105, 101, 99, 101, 115, 50, 48, 58, 65, 66, 67, 68, 69, 70, 71, 72, 73, 74, 75, 76, 77, 78, 79, 80, 81, 82, 83, 84, 101, 101]
/-- the same entries in another order -/
def exFile2 : Bytes := [100, 55, 58, 99, 111, 109, 109, 101, 110, 116, 50, 58, 104, 105, 52, 58, 105, 110, 102, 111, 100, 54, 58, 108, 101, 110, 103, 116, 104, 105, 53, 101, 52, 58, 110, 97, 109, 101, 49, 58, 120, 49, 50, 58, 112, 105, 101, 99, 101, 32, 108, 101, 110, 103, 116, 104, 105, 49, 54, 51, 56, 52, 101, 54, 58, 112, 105, 101, 99, 101, 115, 50, 48, 58, 65, 66, 67, 68, 69, 70, 71, 72, 73, 74, 75, 76, 77, 78, 79, 80, 81, 82, 83, 84, 101, 56, 58, 97, 110, 110, 111, 117, 110, 99, 101, 51, 58, 97, 58, 98, 101]
def exInfoBytes : Bytes := [100, 54, 58, 108, 101, 110, 103, 116, 104, 105, 53, 101, 52, 58, 110, 97, 109, 101, 49, 58, 120, 49, 50, 58, 112, 105, 101, 99, 101, 32, 108, 101, 110, 103, 116, 104, 105, 49, 54, 51, 56, 52, 101, 54, 58, 112, 105, 101, 99, 101, 115, 50, 48, 58, 65, 66, 67, 68, 69, 70, 71, 72, 73, 74, 75, 76, 77, 78, 79, 80, 81, 82, 83, 84, 101]

example : readTorrentBytes exFile = .ok exInfoBytes
    { name := [120], pieceLength := 16384, length := 5, multi := false, files := [],
      nInFlight := 1, nPieces := 1, nHashes := 1 } := by decide +kernel
-- key order and unknown keys do not change the identity: same raw info value
example : (infoSlice exFile).map (sliceBytes exFile) = some exInfoBytes := by decide +kernel
example : (infoSlice exFile2).map (sliceBytes exFile2) = some exInfoBytes := by decide +kernel
-- WriteTorrent's bytes for this torrent, read back over bytes: same info, same geometry
example : readTorrentBytes (writeTorrentBytes exInfoBytes 0 (writeFields [[[97, 58, 98]]] [])) =
    readTorrentBytes exFile := by decide +kernel
example : writeTorrentBytes exInfoBytes 0 (writeFields [[[97, 58, 98]]] []) =
    [100] ++ Bencode.encStr kAnnounce ++ Bencode.encStr [97, 58, 98] ++ Bencode.encStr kInfo ++
      exInfoBytes ++ [101] := by decide +kernel
-- deep nesting is no fault for the fuelled decoder (here 300 levels; any depth by the theorem)
example : readTorrentBytes ([100, 49, 58, 97] ++ List.replicate 300 108) = .noInfo := by decide +kernel

end Storrent.Meta
