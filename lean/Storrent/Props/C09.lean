import Storrent.Model.Sched
import Storrent.Lemmas.Sched
import Storrent.Lemmas.SchedAvail
import Storrent.Lemmas.SchedUnder
import Storrent.Lemmas.SchedFifo
import Storrent.Lemmas.SchedSat
import Storrent.Lemmas.SchedHist
import Storrent.Lemmas.SchedMeta
/-
C09 — Scheduler bookkeeping is conserved.

Model: `Model/Sched.lean` (one torrent, n peers, web-seed writers, the channels between them
as FIFO state; every atomic step of every actor is an `Op`; "all histories / all schedules"
= all `List Op`).  The model is the model of the REPAIRED tree (fix patches C09-01…04 in
hooks-staging/J/fixes); what the unrepaired code did is kept as `…_orig_…` definitions and
refuted below with concrete witnesses (each was first reproduced on the real code by the
harness oracle).

Main statement (`C09_inflight_conserved`): for every valid geometry — a last block shorter
than 16 KiB included — and every list of steps, as long as no `uint8` counter saturated and
Go did not fault, `inFlight[b] = owed b` where

  owed b = #(b in a PeerRequest still queued in some p.Event)
         + #(b in some peer's request queue or sent list)
         + #(blocks b covered by a TorData/TorDrop still in t.Event or in some p.events)
         + #(b still reserved by an open web-seed writer).
-/
namespace Storrent.Props.C09
open Storrent Storrent.Sched

/-! ### in-flight counters -/

theorem C09_inflight_conserved (g : Geom) (hg : g.Valid) (tcap : Nat) (ops : List Op) (b : Nat)
    (hb : b < g.nchunks)
    (hpanic : (run (init g tcap) ops).panicked = false) (hsat : (run (init g tcap) ops).sat = false) :
    getN (run (init g tcap) ops).inFlight b = owed (run (init g tcap) ops) b := by
  have hI := run_inv ops _ (init_inv g hg tcap) (init_minv g tcap)
  have hgg : (run (init g tcap) ops).g = g := by rw [run_g]; rfl
  exact hI.2 hpanic hsat b (by rw [hgg]; exact hb)

/-- what `owed` is when every channel is empty: the requests outstanding at the peers plus the
    blocks reserved by open web-seed writers -/
theorem owed_quiescent (s : State) (hq : quiescent s) (b : Nat) :
    owed s b = sumL (fun p => p.outstanding b) s.peers + sumL (fun w => cnt b (w.reserved s.g)) s.writers := by
  obtain ⟨h1, h2⟩ := hq
  unfold owed
  rw [h1]
  have : sumL (peerOwed s.g b) s.peers = sumL (fun p => p.outstanding b) s.peers := by
    apply sumL_congr
    intro p hp
    obtain ⟨h3, h4⟩ := h2 p hp
    simp [peerOwed_def, h3, h4]
  rw [this]; simp

/-- Corollary: once everything in transit has been processed, `inFlight[b]` is the number of
    requests for `b` outstanding at some peer or web seed. -/
theorem C09_quiescent (g : Geom) (hg : g.Valid) (tcap : Nat) (ops : List Op) (b : Nat) (hb : b < g.nchunks)
    (hpanic : (run (init g tcap) ops).panicked = false) (hsat : (run (init g tcap) ops).sat = false)
    (hq : quiescent (run (init g tcap) ops)) :
    getN (run (init g tcap) ops).inFlight b
      = sumL (fun p => p.outstanding b) (run (init g tcap) ops).peers
        + sumL (fun w => cnt b (w.reserved (run (init g tcap) ops).g)) (run (init g tcap) ops).writers := by
  rw [C09_inflight_conserved g hg tcap ops b hb hpanic hsat, owed_quiescent _ hq]

/-- … and zero when nobody is connected and no writer is open. -/
theorem C09_quiescent_zero (g : Geom) (hg : g.Valid) (tcap : Nat) (ops : List Op) (b : Nat) (hb : b < g.nchunks)
    (hpanic : (run (init g tcap) ops).panicked = false) (hsat : (run (init g tcap) ops).sat = false)
    (hq : quiescent (run (init g tcap) ops))
    (hgone : ∀ p ∈ (run (init g tcap) ops).peers, p.alive = false)
    (hclosed : ∀ w ∈ (run (init g tcap) ops).writers, w.isOpen = false) :
    getN (run (init g tcap) ops).inFlight b = 0 := by
  rw [C09_quiescent g hg tcap ops b hb hpanic hsat hq]
  have hI := run_inv ops _ (init_inv g hg tcap) (init_minv g tcap)
  have h1 : sumL (fun p => p.outstanding b) (run (init g tcap) ops).peers = 0 := by
    apply sumL_zero
    intro p hp
    obtain ⟨a1, a2⟩ := hI.1.deadOK p hp (hgone p hp)
    simp [outstanding_def, a1, a2]
  have h2 : sumL (fun w => cnt b (w.reserved (run (init g tcap) ops).g)) (run (init g tcap) ops).writers = 0 := by
    apply sumL_zero
    intro w hw
    simp [Writer.reserved, hclosed w hw]
  rw [h1, h2]

/-- The "Eek!  InFlight underflow." branch releases nothing that is owed: every decrement made
    by a TorData / TorDrop / TorPeerGoaway handler is matched by a unit of `owed`, so below
    saturation the counter never drops below what is outstanding (no block is ever considered
    free while a request for it is outstanding, and none stays busy forever). -/
theorem C09_never_stuck (g : Geom) (hg : g.Valid) (tcap : Nat) (ops : List Op) (b : Nat) (hb : b < g.nchunks)
    (hpanic : (run (init g tcap) ops).panicked = false) (hsat : (run (init g tcap) ops).sat = false)
    (hzero : owed (run (init g tcap) ops) b = 0) :
    getN (run (init g tcap) ops).inFlight b = 0 := by
  rw [C09_inflight_conserved g hg tcap ops b hb hpanic hsat, hzero]

/-- The "Eek!  InFlight underflow." branch of `noteInFlight` is unreachable: in every history in
    which no counter saturated and Go did not fault, no decrement ever found a zero counter (no
    TorData / TorDrop / TorPeerGoaway releases a block twice). -/
theorem C09_inflight_never_underflows (g : Geom) (hg : g.Valid) (tcap : Nat) (ops : List Op)
    (hpanic : (run (init g tcap) ops).panicked = false) (hsat : (run (init g tcap) ops).sat = false) :
    (run (init g tcap) ops).under = false := by
  have hU := run_inv_uinv ops _ (init_inv g hg tcap) (init_minv g tcap) (by intro h; simp [init] at h)
  cases hu : (run (init g tcap) ops).under with
  | false => rfl
  | true =>
    rcases hU hu with h | h
    · rw [hpanic] at h; cases h
    · rw [hsat] at h; cases h

/-! ### every commanded block is answered exactly once -/

/-- Each block of each PeerRequest a peer consumes, and each request a peer removes from its
    lists on ANY path — not advertised / duplicate (enqueue failure), choked and not allowed-fast,
    write failure, reject, choke (Fast and non-Fast), cancel of a queued request, expiry of a
    cancelled one, a Piece that is accepted, short, empty, over-long, misplaced or refused, and
    the final `Clear` on exit — is covered by exactly one TorData or TorDrop among the events
    that step emits, and nothing else is covered: as multisets,
    `pending before (+ commanded) = pending after + covered by the emitted events`. -/
theorem C09_every_command_answered (g : Geom) (hg : g.Valid) (p : Peer) (b : Nat) :
    (∀ (k : Nat) (e : PeerEv) (slow : Bool), (∀ cs, e = .request cs → p.hasInfo = true) →
        (handlePeerEv g k p e slow).1.outstanding b + covL g b (handlePeerEv g k p e slow).2.1
          = p.outstanding b + cnt b (reqChunks e)) ∧
    (∀ (pieces : List PieceSt) (i : Nat) (m : Msg) (slow : Bool),
        (∀ c, g.nchunks ≤ c → p.outstanding c = 0) →
        (handleMsg g pieces i p m slow).1.outstanding b + covL g b (handleMsg g pieces i p m slow).2.1
          = p.outstanding b) ∧
    (∀ (to fuel : Nat),
        (expireLoop g to fuel 0 p [] false).1.outstanding b + covL g b (expireLoop g to fuel 0 p [] false).2.1
          = p.outstanding b) ∧
    (∀ (i : Nat), covL g b (exitEvents g i p) = p.outstanding b) := by
  refine ⟨fun k e slow h => handlePeerEv_loc hg b k p e slow h, fun pieces i m slow h => handleMsg_loc hg b pieces i p m slow h,
    fun to fuel => ?_, fun i => exitEvents_cov hg b i p⟩
  have := expireLoop_loc hg b to fuel 0 p [] false
  simpa using this

/-- the side condition of the second clause holds in every reachable state -/
theorem C09_requests_valid (g : Geom) (hg : g.Valid) (tcap : Nat) (ops : List Op) :
    ∀ p ∈ (run (init g tcap) ops).peers, ∀ c, g.nchunks ≤ c → p.outstanding c = 0 := by
  intro p hp c hc
  have hI := run_inv ops _ (init_inv g hg tcap) (init_minv g tcap)
  have hgg : (run (init g tcap) ops).g = g := by rw [run_g]; rfl
  have := hI.1.chunksOK p hp c (by rw [hgg]; exact hc)
  omega

/-- the side condition of the first clause: in every reachable state (magnet torrents included) the
    PeerRequest at the head of a live peer's command channel finds the metadata known there — the
    torrent asks only after `writePeers(PeerMetadataComplete)` and the channel is FIFO -/
theorem C09_request_after_metadata (g : Geom) (hg : g.Valid) (tcap : Nat) (s0 : State) (h0 : IsStart g tcap s0)
    (ops : List Op) (p : Peer) (hp : p ∈ (run s0 ops).peers) (ha : p.alive = true)
    (cs : List Nat) (rest : List PeerEv) (hq : p.evq = .request cs :: rest) : p.hasInfo = true := by
  obtain ⟨hI, hM⟩ := start_inv hg h0
  have := (run_inv' ops s0 hI hM).2.safe p hp ha
  rw [hq] at this
  exact safeQ_request _ cs rest this

/-- a drop names exactly its block, for every chunk number -/
theorem C09_drop_covers (g : Geom) (hg : g.Valid) (c : Nat) : cov g (dropEv g c) = [c] := cov_dropEv hg c

/-! ### availability -/

/-- Every handler reports every change of the peer's bitmap, exactly: for each piece `i`,
    `new bit + retractions emitted = old bit + announcements emitted` (Have, Bitfield — including a
    repeated or changing one —, HaveAll, HaveNone, DontHave, and every message that does not touch
    the bitmap), the handlers of torrent commands and the timer emit nothing that changes
    availability and leave the bitmap alone, and the exit path retracts exactly the final bitmap.
    (`TorPeerBitmap`/`TorPeerHave` are applied by `noteAvailable` one unit per set bit, see the model.) -/
theorem C09_available_reported (g : Geom) (p : Peer) (i : Nat) (hp : BitsOK g p) :
    (∀ (pieces : List PieceSt) (k : Nat) (m : Msg) (slow : Bool),
        bitW (handleMsg g pieces k p m slow).1 i + sumL (evMinus i) (handleMsg g pieces k p m slow).2.1
          = bitW p i + sumL (evPlus i) (handleMsg g pieces k p m slow).2.1 ∧
        BitsOK g (handleMsg g pieces k p m slow).1) ∧
    (∀ (k : Nat) (e : PeerEv) (slow : Bool),
        -- commands of the torrent; PeerMetadataComplete fills and announces a seed's (empty) bitmap, once
        (bitW (handlePeerEv g k p e slow).1 i + sumL (evMinus i) (handlePeerEv g k p e slow).2.1
          = bitW p i + sumL (evPlus i) (handlePeerEv g k p e slow).2.1) ∧
        (e ≠ .metadata → (handlePeerEv g k p e slow).1.bits = p.bits ∧
          sumL (evPlus i) (handlePeerEv g k p e slow).2.1 = 0 ∧ sumL (evMinus i) (handlePeerEv g k p e slow).2.1 = 0)) ∧
    (∀ (to fuel : Nat),
        (expireLoop g to fuel 0 p [] false).1.bits = p.bits ∧
        sumL (evPlus i) (expireLoop g to fuel 0 p [] false).2.1 = 0 ∧
        sumL (evMinus i) (expireLoop g to fuel 0 p [] false).2.1 = 0) ∧
    (∀ (k : Nat), sumL (evMinus i) (exitEvents g k p) = bitW p i ∧ sumL (evPlus i) (exitEvents g k p) = 0) := by
  refine ⟨fun pieces k m slow => handleMsg_av g pieces k p m slow i hp, fun k e slow => ?_, fun to fuel => ?_,
    fun k => exitEvents_av g k p i⟩
  · refine ⟨(handlePeerEv_av g k p e slow i hp).1, fun hne => ?_⟩
    obtain ⟨h1, h2⟩ := handlePeerEv_quiet (neutral_plus i) g k p e slow hne
    obtain ⟨_, h3⟩ := handlePeerEv_quiet (neutral_minus i) g k p e slow hne
    exact ⟨h1.1, h2, h3⟩
  · obtain ⟨h1, h2⟩ := expireLoop_av (neutral_plus i) g to fuel 0 p [] false
    obtain ⟨_, h3⟩ := expireLoop_av (neutral_minus i) g to fuel 0 p [] false
    exact ⟨h1.1, h2, h3⟩

theorem advertised_eq (s : State) (hW : AWF s) (i : Nat) : advertised s i = bitSum s i := by
  unfold advertised bitSum
  apply sumL_congr
  intro p hp
  unfold bitW
  cases ha : p.alive with
  | true => simp
  | false => simp [hW.dead p hp ha i]

/-- The "Eek!  Available underflow." branch of `noteAvailable` is unreachable (below the `uint16`
    saturation): the availability events of one peer reach the torrent in the order in which the
    peer emitted them — `writeEvent` bypasses the overflow list only when it is empty, `Run` moves
    its head to the tail of `t.Event` — so, per peer and piece, the signs in transit alternate and
    end at the peer's current bit, and a retraction is applied only after its announcement. -/
theorem C09_available_never_underflows (g : Geom) (tcap : Nat) (ops : List Op)
    (hsat : (run (init g tcap) ops).sat = false) :
    (run (init g tcap) ops).aunder = false :=
  ((run_finv ops _ (init_finv g tcap) (init_ainv g tcap)).val hsat).1

/-- For all histories: `available[i]`, plus the announcements still in transit, equals the number
    of connected peers whose bitmap has `i`, plus the retractions still in transit.  (No hypothesis
    about the underflow branch any more: `C09_available_never_underflows`.) -/
theorem C09_available_conserved (g : Geom) (tcap : Nat) (ops : List Op) (i : Nat)
    (hsat : (run (init g tcap) ops).sat = false) :
    getN (run (init g tcap) ops).avail i + plusT (run (init g tcap) ops) i
      = advertised (run (init g tcap) ops) i + minusT (run (init g tcap) ops) i := by
  have hI := run_ainv ops _ (init_ainv g tcap)
  rw [advertised_eq _ hI.1, plusT_eq, minusT_eq]
  exact hI.2 (C09_available_never_underflows g tcap ops hsat) hsat i

/-- … hence, once events in transit have been processed, the number of connected peers currently
    advertising the piece; zero when nobody is connected. -/
theorem C09_available_quiescent (g : Geom) (tcap : Nat) (ops : List Op) (i : Nat)
    (hsat : (run (init g tcap) ops).sat = false)
    (hq : quiescent (run (init g tcap) ops)) :
    getN (run (init g tcap) ops).avail i = advertised (run (init g tcap) ops) i ∧
    ((∀ p ∈ (run (init g tcap) ops).peers, p.alive = false) → getN (run (init g tcap) ops).avail i = 0) := by
  have h := C09_available_conserved g tcap ops i hsat
  obtain ⟨h1, h2⟩ := hq
  have z : ∀ (f : TorEv → Nat), transit f (run (init g tcap) ops) = 0 := by
    intro f
    unfold transit
    rw [h1]
    have : sumL (fun p => sumL f p.overflow) (run (init g tcap) ops).peers = 0 := by
      apply sumL_zero
      intro p hp
      rw [(h2 p hp).2]; rfl
    rw [this]; rfl
  rw [plusT_eq, minusT_eq, z, z] at h
  refine ⟨by omega, fun hgone => ?_⟩
  have : advertised (run (init g tcap) ops) i = 0 := by
    unfold advertised
    apply sumL_zero
    intro p hp
    simp [hgone p hp]
  omega

/-! ### no counter saturates under the scheduler's guards -/

/-- `Guarded` (Model/Sched.lean) makes the enabling conditions of the real scheduler explicit: a block
    is requested from a peer only while `inFlight + (its multiplicity in the request) ≤ 3`
    (`periodicRequest`: `inFlight < maxInFlight(prio) ≤ 3` per entry), at most 50 peers ever enter the
    peer table, and no block is covered by more than 252 web-seed reservations over the history.
    Then, in every reachable state: no `uint8`/`uint16` saturated, `inFlight[b] ≤ 3 + (number of
    web-seed reservations that covered b)`, and the peer table has at most 50 entries.
    (The bound "≤ 4" does NOT hold for the code as written: `maybeWebseed` tests `inFlight == 0` only
    for the FIRST block of the hole it reserves and increments every block of the hole, so
    reservations can stack on a block; the bound below is the one that is true.) -/
theorem C09_no_saturation (g : Geom) (tcap : Nat) (ops : List Op) (hG : Guarded (init g tcap) ops) :
    (run (init g tcap) ops).sat = false ∧
    (∀ b, getN (run (init g tcap) ops).inFlight b ≤ 3 + resv (run (init g tcap) ops) b) ∧
    (run (init g tcap) ops).peers.length ≤ 50 := by
  have hK := run_kinv ops _ (init_kinv g tcap) (init_finv g tcap) (init_ainv g tcap) hG
  exact ⟨hK.nosat, hK.bound, hK.npeers⟩

/-- `C09_inflight_conserved` without the saturation hypothesis -/
theorem C09_inflight_conserved_guarded (g : Geom) (hg : g.Valid) (tcap : Nat) (ops : List Op) (b : Nat)
    (hb : b < g.nchunks) (hG : Guarded (init g tcap) ops)
    (hpanic : (run (init g tcap) ops).panicked = false) :
    getN (run (init g tcap) ops).inFlight b = owed (run (init g tcap) ops) b :=
  C09_inflight_conserved g hg tcap ops b hb hpanic (C09_no_saturation g tcap ops hG).1

/-- `C09_available_conserved` with no hypothesis about the counters at all -/
theorem C09_available_conserved_guarded (g : Geom) (tcap : Nat) (ops : List Op) (i : Nat)
    (hG : Guarded (init g tcap) ops) :
    (run (init g tcap) ops).aunder = false ∧
    getN (run (init g tcap) ops).avail i + plusT (run (init g tcap) ops) i
      = advertised (run (init g tcap) ops) i + minusT (run (init g tcap) ops) i :=
  ⟨C09_available_never_underflows g tcap ops (C09_no_saturation g tcap ops hG).1,
   C09_available_conserved g tcap ops i (C09_no_saturation g tcap ops hG).1⟩

/-- `available[i]` never exceeds the size of the peer table (≤ 50 = `MaxPeersPerTorrent`) -/
theorem C09_available_bounded (g : Geom) (tcap : Nat) (ops : List Op) (i : Nat)
    (hG : Guarded (init g tcap) ops) :
    getN (run (init g tcap) ops).avail i ≤ 50 := by
  obtain ⟨hs, _, hn⟩ := C09_no_saturation g tcap ops hG
  have hF := run_finv ops _ (init_finv g tcap) (init_ainv g tcap)
  rw [((hF.val hs).2 i)]
  have := sumI_le_length (wB (run (init g tcap) ops).tEvent i) (wB_le_one _ i)
    ((run (init g tcap) ops).peers.map strip) 0
  simp at this
  omega

/-! ### every commanded block is answered: lifted to histories -/

/-- For every history, every peer `k` and every block `b`: the number of times `b` occurred in a
    PeerRequest that peer `k` accepted (`request` answered ok) equals the number of TorData/TorDrop
    answers covering `b` that `k` emitted, plus the requests for `b` that `delPeer` released on its
    behalf when it had left (fix C09-03), plus what is still pending at `k` (in its command channel,
    queued or sent). -/
theorem C09_history_answered (g : Geom) (hg : g.Valid) (tcap : Nat) (ops : List Op) (k b : Nat) :
    histAccepted k b (init g tcap) ops
      = histAnswered k b (init g tcap) ops + histDrained k b (init g tcap) ops
        + pend k b (run (init g tcap) ops) := by
  have h := run_pend k b ops _ (init_inv g hg tcap) (init_minv g tcap)
  have h0 : pend k b (init g tcap) = 0 := by simp [pend, pendL, init]
  omega

/-- … hence once the peer has left and its TorPeerGoaway has been handled, everything it ever
    accepted was answered (or released by `delPeer`). -/
theorem C09_history_settled (g : Geom) (hg : g.Valid) (tcap : Nat) (ops : List Op) (k b : Nat) (p : Peer)
    (hp : (run (init g tcap) ops).peers[k]? = some p) (hdead : p.alive = false) (hq : p.evq = []) :
    histAccepted k b (init g tcap) ops
      = histAnswered k b (init g tcap) ops + histDrained k b (init g tcap) ops := by
  have h := C09_history_answered g hg tcap ops k b
  have hI := run_inv ops _ (init_inv g hg tcap) (init_minv g tcap)
  obtain ⟨a1, a2⟩ := hI.1.deadOK p (mem_of_get _ _ _ hp) hdead
  have : pend k b (run (init g tcap) ops) = 0 := by
    unfold pend; rw [pendL_of_get k b _ p hp]
    simp [outstanding_def, a1, a2, hq]
  omega

/-! ### across the metadata transition (magnet torrents)

`IsStart g tcap s0`: `s0` is `init g tcap` (metadata known from the start) or `initMagnet g tcap` (only the
info-hash is known; peers connect, send Have / Bitfield / HaveAll / HaveNone / DontHave in any
combination, and the step `metaComplete` — `gotMetadata` succeeding, `writePeers(PeerMetadataComplete)` —
happens at an arbitrary moment; every peer then handles its PeerMetadataComplete at its own pace). -/

theorem start_all {g : Geom} (hg : g.Valid) {tcap : Nat} {s0 : State} (h0 : IsStart g tcap s0) :
    Inv s0 ∧ MInv s0 ∧ AInv s0 ∧ FInv s0 ∧ KInv s0 ∧ UInv s0 ∧ s0.g = g ∧ (∀ k b, pend k b s0 = 0) := by
  rcases h0 with rfl | rfl
  · exact ⟨init_inv g hg tcap, init_minv g tcap, init_ainv g tcap, init_finv g tcap, init_kinv g tcap,
      (by intro h; simp [init] at h), rfl, fun k b => by simp [pend, pendL, init]⟩
  · have hA : AInv (initMagnet g tcap) :=
      ainv_frame (init g tcap) _ (init_ainv g tcap) rfl rfl (fun _ => ⟨rfl, rfl⟩) rfl rfl id
    have hF : FInv (initMagnet g tcap) :=
      finv_frameT (init g tcap) _ (init_finv g tcap) rfl (TSame.refl _) rfl rfl id
    have hK : KInv (initMagnet g tcap) :=
      kinv_of (init g tcap) _ (init_kinv g tcap) rfl (fun _ => Nat.le_refl _) rfl rfl
    exact ⟨initMagnet_inv g hg tcap, initMagnet_minv g tcap, hA, hF, hK,
      (by intro h; simp [initMagnet, init] at h), rfl, fun k b => by simp [pend, pendL, initMagnet, init]⟩

theorem run_all {g : Geom} (hg : g.Valid) {tcap : Nat} {s0 : State} (h0 : IsStart g tcap s0) (ops : List Op) :
    Inv (run s0 ops) ∧ AInv (run s0 ops) ∧ FInv (run s0 ops) ∧ UInv (run s0 ops) ∧ (run s0 ops).g = g := by
  obtain ⟨hI, hM, hA, hF, _, hU, hgg, _⟩ := start_all hg h0
  exact ⟨run_inv ops s0 hI hM, run_ainv ops s0 hA, run_finv ops s0 hF hA, run_inv_uinv ops s0 hI hM hU,
    by rw [run_g]; exact hgg⟩

/-- `C09_inflight_conserved` and `C09_inflight_never_underflows` from either start state -/
theorem C09_inflight_conserved_start (g : Geom) (hg : g.Valid) (tcap : Nat) (s0 : State) (h0 : IsStart g tcap s0)
    (ops : List Op) (hpanic : (run s0 ops).panicked = false) (hsat : (run s0 ops).sat = false) :
    (run s0 ops).under = false ∧ ∀ b, b < g.nchunks → getN (run s0 ops).inFlight b = owed (run s0 ops) b := by
  obtain ⟨hI, _, _, hU, hgg⟩ := run_all hg h0 ops
  refine ⟨?_, fun b hb => hI.2 hpanic hsat b (by rw [hgg]; exact hb)⟩
  cases hu : (run s0 ops).under with
  | false => rfl
  | true =>
    rcases hU hu with h | h
    · rw [hpanic] at h; cases h
    · rw [hsat] at h; cases h

/-- The availability clause of C09 across the metadata transition: for every history from either
    start state — peers advertising before the metadata is known (Have, also beyond the torrent;
    Bitfield; HaveAll; HaveNone; DontHave; repeated, changing, contradictory), the metadata
    completing at any moment, more advertisements, disconnects at any moment — the underflow branch
    of `noteAvailable` is never taken and `available[i]` + announcements in transit = number of
    connected peers whose bitmap has `i` + retractions in transit, for EVERY index `i` (also those
    that turn out to lie beyond the torrent). -/
theorem C09_available_conserved_start (g : Geom) (hg : g.Valid) (tcap : Nat) (s0 : State) (h0 : IsStart g tcap s0)
    (ops : List Op) (hsat : (run s0 ops).sat = false) (i : Nat) :
    (run s0 ops).aunder = false ∧
    getN (run s0 ops).avail i + plusT (run s0 ops) i = advertised (run s0 ops) i + minusT (run s0 ops) i := by
  obtain ⟨_, hA, hF, _, _⟩ := run_all hg h0 ops
  have hu := (hF.val hsat).1
  refine ⟨hu, ?_⟩
  rw [advertised_eq _ hA.1, plusT_eq, minusT_eq]
  exact hA.2 hu hsat i

/-- … at quiescence: the number of connected peers currently advertising `i`; zero when nobody is connected -/
theorem C09_available_quiescent_start (g : Geom) (hg : g.Valid) (tcap : Nat) (s0 : State) (h0 : IsStart g tcap s0)
    (ops : List Op) (hsat : (run s0 ops).sat = false) (hq : quiescent (run s0 ops)) (i : Nat) :
    getN (run s0 ops).avail i = advertised (run s0 ops) i ∧
    ((∀ p ∈ (run s0 ops).peers, p.alive = false) → getN (run s0 ops).avail i = 0) := by
  have h := (C09_available_conserved_start g hg tcap s0 h0 ops hsat i).2
  obtain ⟨h1, h2⟩ := hq
  have z : ∀ (f : TorEv → Nat), transit f (run s0 ops) = 0 := by
    intro f
    unfold transit
    rw [h1]
    have : sumL (fun p => sumL f p.overflow) (run s0 ops).peers = 0 := by
      apply sumL_zero
      intro p hp
      rw [(h2 p hp).2]; rfl
    rw [this]; rfl
  rw [plusT_eq, minusT_eq, z, z] at h
  refine ⟨by omega, fun hgone => ?_⟩
  have : advertised (run s0 ops) i = 0 := by
    unfold advertised
    apply sumL_zero
    intro p hp
    simp [hgone p hp]
  omega

/-- `C09_no_saturation` from either start state -/
theorem C09_no_saturation_start (g : Geom) (hg : g.Valid) (tcap : Nat) (s0 : State) (h0 : IsStart g tcap s0)
    (ops : List Op) (hG : Guarded s0 ops) :
    (run s0 ops).sat = false ∧ (∀ b, getN (run s0 ops).inFlight b ≤ 3 + resv (run s0 ops) b) ∧
    (run s0 ops).peers.length ≤ 50 := by
  obtain ⟨_, _, hA, hF, hK, _, _, _⟩ := start_all hg h0
  have := run_kinv ops s0 hK hF hA hG
  exact ⟨this.nosat, this.bound, this.npeers⟩

/-- `C09_history_answered` from either start state -/
theorem C09_history_answered_start (g : Geom) (hg : g.Valid) (tcap : Nat) (s0 : State) (h0 : IsStart g tcap s0)
    (ops : List Op) (k b : Nat) :
    histAccepted k b s0 ops = histAnswered k b s0 ops + histDrained k b s0 ops + pend k b (run s0 ops) := by
  obtain ⟨hI, hM, _, _, _, _, _, hz⟩ := start_all hg h0
  have h := run_pend k b ops s0 hI hM
  have := hz k b
  omega

/-! ### chunk arithmetic (`uint32`, as written) -/

/-- `fromChunk` (repaired) names the block's position, `toChunk` inverts it and `chunkSize` is the
    block's true size, for every block of every valid geometry. -/
theorem C09_chunk_arith (g : Geom) (hg : g.Valid) (c : Nat) (hc : c < g.nchunks) :
    fromChunk g c = (c / g.cpp, (c % g.cpp) * 16384) ∧
    (fromChunk g c).1 < g.npieces ∧ (fromChunk g c).2 < g.ps ∧
    toChunk g (fromChunk g c).1 (fromChunk g c).2 = c ∧
    chunkSize g c = min 16384 (g.len - c * 16384) := by
  have hcp := hg.cpp_pos
  have hcm := hg.cpp_mul
  have hk : c % g.cpp < g.cpp := Nat.mod_lt _ hcp
  have hn := nchunks_le hg
  have hi : c / g.cpp < g.npieces := by
    apply (Nat.div_lt_iff_lt_mul hcp).mpr; omega
  rw [fromChunk_spec hg]
  refine ⟨rfl, hi, by show c % g.cpp * 16384 < g.ps; omega, ?_, ?_⟩
  · show toChunk g (c / g.cpp) (c % g.cpp * 16384) = c
    rw [toChunk_spec hg _ _ hi (by omega)]
    have : c % g.cpp * 16384 / 16384 = c % g.cpp := by omega
    rw [this, Nat.div_add_mod']
  · have h2 : g.npieces * g.cpp < 4294967296 := hg.2.2.2.2
    unfold chunkSize
    unfold Geom.nchunks CS at *
    rw [u32_of_lt (by omega : g.len / 16384 < 4294967296), u32_of_lt (by omega : g.len % 16384 < 4294967296)]
    split <;> omega

theorem C09_chunk_arith_inverse (g : Geom) (hg : g.Valid) (idx begin : Nat) (hi : idx < g.npieces)
    (hb : begin < g.ps) (hal : begin % 16384 = 0) :
    fromChunk g (toChunk g idx begin) = (idx, begin) := by
  have hcp := hg.cpp_pos
  have hcm := hg.cpp_mul
  rw [toChunk_spec hg idx begin hi hb, fromChunk_spec hg]
  have hk : begin / 16384 < g.cpp := by omega
  have h1 : (idx * g.cpp + begin / 16384) / g.cpp = idx := by
    rw [Nat.mul_comm, Nat.mul_add_div hcp, Nat.div_eq_of_lt hk]; simp
  have h2 : (idx * g.cpp + begin / 16384) % g.cpp = begin / 16384 := by
    rw [Nat.mul_comm, Nat.mul_add_mod, Nat.mod_eq_of_lt hk]
  rw [h1, h2]
  have : begin / 16384 * 16384 = begin := Nat.div_mul_cancel (Nat.dvd_of_mod_eq_zero hal)
  rw [this]

/-- the upstream formula `(chunk * ChunkSize) % ps` in `uint32` -/
def C09_chunk_arith_orig_full : Prop :=
  ∀ (g : Geom), g.Valid → ∀ c, c < g.nchunks → fromChunkOrig g c = (c / g.cpp, (c % g.cpp) * 16384)

/-- refuted: 6 GiB torrent with 48 KiB pieces, chunk 2^18: upstream says begin 0, the block is at 16384 -/
theorem C09_chunk_arith_orig_full_refuted : ¬ C09_chunk_arith_orig_full := by
  intro h
  have := h { ps := 49152, len := 6442450944 }
    (by simp [Geom.Valid, Geom.npieces, Geom.cpp, CS, U32]) 262144 (by simp [Geom.nchunks, CS])
  simp [fromChunkOrig, Geom.cpp, CS, u32, U32] at this

/-- … and it is correct exactly where the product does not wrap -/
theorem C09_chunk_arith_orig_partial (g : Geom) (hg : g.Valid) (c : Nat) (hc : c < 262144) :
    fromChunkOrig g c = (c / g.cpp, (c % g.cpp) * 16384) := by
  have hcp := hg.cpp_pos
  have hcm := hg.cpp_mul
  have hk : c % g.cpp < g.cpp := Nat.mod_lt _ hcp
  unfold fromChunkOrig
  unfold CS
  rw [u32_of_lt (by omega : c * 16384 < 4294967296)]
  have h1 : c * 16384 = c % g.cpp * 16384 + g.ps * (c / g.cpp) := by
    have := Nat.div_add_mod c g.cpp
    calc c * 16384 = (g.cpp * (c / g.cpp) + c % g.cpp) * 16384 := by rw [this]
      _ = c % g.cpp * 16384 + (g.cpp * 16384) * (c / g.cpp) := by
        rw [Nat.add_mul, Nat.mul_right_comm, Nat.add_comm]
      _ = _ := by rw [hcm]
  rw [h1, Nat.add_mul_mod_self_left, Nat.mod_eq_of_lt (by omega)]

/-! ### what the unrepaired handlers released (each first reproduced on the real code) -/

/-- upstream `tor.handleEvent`: `chunks := c.Length / ChunkSize` (floor) -/
def covRangeOrig (g : Geom) (idx begin len : Nat) : List Nat :=
  if begin % CS ≠ 0 then []
  else if u32 (begin + len) > g.ps then []
  else chunksFrom (idx * g.cpp + begin / CS) (len / CS)

/-- (i) the TorData for the short final block of a 50 000-byte torrent released nothing … -/
theorem C09_orig_short_last_block_refuted :
    covRangeOrig { ps := 32768, len := 50000 } 1 16384 848 = [] ∧
    covRange { ps := 32768, len := 50000 } 1 16384 848 = [3] := by decide

/-- … nor did the web-seed writer's final TorDrop of a range ending in the short block -/
theorem C09_orig_writer_tail_refuted :
    covRangeOrig { ps := 32768, len := 50000 } 1 0 17232 = [2] ∧
    covRange { ps := 32768, len := 50000 } 1 0 17232 = [2, 3] := by decide

/-- (ii) an empty Piece produced TorData{Length:0}, which releases nothing even when rounding up:
    the repair is in the peer (the answer must be exactly the block) -/
theorem C09_orig_empty_piece_refuted (g : Geom) (idx begin : Nat) (b : Nat) :
    cnt b (covRange g idx begin 0) = 0 := covRange_zero g b idx begin

/-- (iii) a 32 KiB Piece produced TorData{Length:32768}, which releases the neighbour as well -/
theorem C09_orig_overlong_piece_refuted :
    covRange { ps := 65536, len := 196608 } 0 16384 32768 = [1, 2] := by decide

/-! ### non-vacuity -/

example : (Geom.Valid { ps := 32768, len := 50000 }) := by decide

/-- a history with a short last block, an accepted and a dropped answer, a timer, and a peer
    leaving with a request still in its command queue: the counters end at zero -/
def demoOps : List Op :=
  [ .connect true 8 64, .peerMsg 0 (.bitfield [0, 1]) false, .peerMsg 0 .unchoke false,
    .request 0 [0, 3] false, .peerEvent 0 false, .peerMsg 0 (.piece 1 16384 848) false,
    .torEvent, .torEvent, .torEvent, .request 0 [2] false, .exit 0,
    .torEvent, .torEvent, .torEvent ]

example : (run (init { ps := 32768, len := 50000 } 8) demoOps).inFlight = [0, 0, 0, 0] ∧
    (run (init { ps := 32768, len := 50000 } 8) demoOps).panicked = false ∧
    (run (init { ps := 32768, len := 50000 } 8) demoOps).sat = false ∧
    quiescent (run (init { ps := 32768, len := 50000 } 8) demoOps) := by
  refine ⟨by decide, by decide, by decide, by decide, ?_⟩
  intro p hp
  revert p
  decide

example : (run (init { ps := 32768, len := 50000 } 8) (demoOps.take 5)).inFlight = [1, 0, 0, 1] := by decide

/-- the seeded scenario on the model: HaveAll, then a redundant Have while the metadata is unknown;
    the metadata completes; the peer handles PeerMetadataComplete (error: it is dropped), leaves;
    availability is back to zero -/
example : (run (initMagnet { ps := 32768, len := 50000 } 8)
    [.connect true 8 64, .peerMsg 0 .haveAll false, .peerMsg 0 (.haveMsg 1) false, .torEvent, .metaComplete,
     .peerEvent 0 false, .exit 0, .torEvent, .torEvent]).avail = [0, 0] := by decide

/-- the guards are satisfiable: a connect and a request of two fresh blocks -/
example : Guarded (init { ps := 32768, len := 50000 } 8) [.connect true 8 64, .request 0 [0, 3] false] := by
  refine ⟨(by decide : (0 : Nat) < 50), ?_, trivial⟩
  intro c hc
  have h0 : (step (init { ps := 32768, len := 50000 } 8) (.connect true 8 64)).1.inFlight = [0, 0, 0, 0] := by decide
  rw [h0]
  simp only [cnt_cons, cnt_nil] at hc ⊢
  by_cases h1 : 0 = c
  · subst h1; simp [getN]
  · by_cases h3 : 3 = c
    · subst h3; simp [getN]
    · simp [h1, h3] at hc

/-- the history counters on the demo: block 3 was accepted once by peer 0 and answered once -/
example : histAccepted 0 3 (init { ps := 32768, len := 50000 } 8) demoOps = 1 ∧
    histAnswered 0 3 (init { ps := 32768, len := 50000 } 8) demoOps = 1 ∧
    histDrained 0 2 (init { ps := 32768, len := 50000 } 8) demoOps = 1 := by decide

end Storrent.Props.C09
