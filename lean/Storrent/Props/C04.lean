import Storrent.Model.Wire
import Storrent.Gen.WireTable
/-
C04 — Wire decoding is total, exactly framed and memory-bounded.

Theorems about `decode`, the model of protocol.Read instantiated with the guard table and
frame cap *regenerated from the source* (Gen.WireTable).  They hold for every byte string
`bs` (every id, sub-id, announced length 0 … 2^32-1, truncated or not) and for every
behaviour `bd` of the bencode decoder (a parameter: zeebo/bencode is outside the model).
-/
namespace Storrent.Props.C04
open Storrent Storrent.Wire

/-- the model the correspondence stream runs: generated table, generated cap -/
def decode (bd : BDec) (bs : Bytes) : Out := decodeWith Gen.wireGuards Gen.frameCap bd bs

/-- announced length of the frame at the head of `bs` -/
def announced (bs : Bytes) : Nat := rdBE (bs.take 4)

/-! #### tie to the source: the regenerated tables are the ones the proofs are about -/
theorem C04_gen_guards : Gen.wireGuards = expectedGuards := by decide
theorem C04_gen_cap : Gen.frameCap = expectedFrameCap := by decide

theorem decode_eq (bd : BDec) (bs : Bytes) :
    decode bd bs = decodeWith expectedGuards expectedFrameCap bd bs := by
  unfold decode; rw [C04_gen_guards, C04_gen_cap]

/-! #### the guard table, as a function of the id -/
theorem guard_rows (t : Nat) (row : GuardRow)
    (h : findGuard expectedGuards t none = some row) :
    row.fail = .errParse ∧
    ((t = 0 ∨ t = 1 ∨ t = 2 ∨ t = 3 ∨ t = 14 ∨ t = 15) → row.guard = .ne 1) ∧
    ((t = 4 ∨ t = 13 ∨ t = 17) → row.guard = .ne 5) ∧
    ((t = 6 ∨ t = 8 ∨ t = 16) → row.guard = .ne 13) ∧
    (t = 5 → row.guard = .lt 1) ∧ (t = 7 → row.guard = .lt 9) ∧
    (t = 9 → row.guard = .ne 3) ∧ (t = 20 → row.guard = .lt 2) ∧
    (t = 0 ∨ t = 1 ∨ t = 2 ∨ t = 3 ∨ t = 4 ∨ t = 5 ∨ t = 6 ∨ t = 7 ∨ t = 8 ∨ t = 9 ∨
      t = 13 ∨ t = 14 ∨ t = 15 ∨ t = 16 ∨ t = 17 ∨ t = 20) := by
  simp only [findGuard, expectedGuards, List.find?] at h
  repeat' split at h
  all_goals first
    | (cases h; simp_all; done)
    | (cases h; simp_all; omega)
    | (simp_all; done)
    | (simp_all; omega)

theorem sub_rows (sub : Nat) (row : GuardRow)
    (h : findGuard expectedGuards 20 (some sub) = some row) :
    ((sub = 3 ∨ sub = 4) → row.fail = .errParse) ∧
    (sub = 3 → row.guard = .subNe 4) ∧ (sub = 4 → row.guard = .subNe 1) ∧
    ((sub = 0 ∨ sub = 1 ∨ sub = 2) → row.guard = .none) ∧
    (sub = 0 ∨ sub = 1 ∨ sub = 2 ∨ sub = 3 ∨ sub = 4) := by
  simp only [findGuard, expectedGuards, List.find?] at h
  repeat' split at h
  all_goals first
    | (cases h; simp_all; done)
    | (cases h; simp_all; omega)
    | (simp_all; done)
    | (simp_all; omega)

end Storrent.Props.C04

namespace Storrent.Props.C04
open Storrent Storrent.Wire

/-- everything the property says about one frame body, for every id `t`, every announced
    length `1 ≤ L`, every remaining stream `rest` -/
def BodyOK (L : Nat) (rest : Bytes) (o : Out) : Prop :=
  o.res ≠ .nilnil ∧ o.res ≠ .panic ∧
  o.consumed ≤ 4 + L ∧ o.consumed ≤ 5 + rest.length ∧ 5 ≤ o.consumed ∧
  (∀ m, o.res = .msg m → o.consumed = 4 + L) ∧
  o.alloc ≤ 8 * L

theorem pooled_le (n : Nat) : pooled n ≤ n := by unfold pooled; split <;> omega

theorem body_unknown (bd : BDec) (L t : Nat) (rest : Bytes) (hL : 1 ≤ L)
    (h : findGuard expectedGuards t none = none) :
    BodyOK L rest (body expectedGuards bd L t rest) := by
  unfold body BodyOK
  simp only [h]
  split <;> simp <;> omega

/-- shape of the returned message w.r.t. the announced length -/
def BodyWF (L : Nat) (o : Out) : Prop :=
  (∀ bs, o.res = .msg (.bitfield bs) → bs.length = L - 1) ∧
  (∀ i b d, o.res = .msg (.piece i b d) → d.length = L - 9) ∧
  (∀ s t p tot d, o.res = .msg (.metadata s t p tot d) → d.length ≤ L - 2)

theorem bodyExt_ok (bd : BDec) (L : Nat) (rest : Bytes) (hL : 2 ≤ L) :
    BodyOK L rest (bodyExt expectedGuards bd L rest) ∧
    BodyWF L (bodyExt expectedGuards bd L rest) := by
  unfold bodyExt BodyOK BodyWF
  split
  · simp; omega
  · rename_i sb rest2
    simp only []
    split
    · -- unknown sub-id
      split <;> simp <;> omega
    · rename_i srow hs
      obtain ⟨sf, s3, s4, s012, ssub⟩ := sub_rows sb.toNat srow hs
      rcases ssub with h0|h0|h0|h0|h0
      all_goals simp only [h0]
      · simp [s012 (Or.inl h0), guardViolated]
        split
        · simp; omega
        · split <;> simp <;> omega
      · simp [s012 (Or.inr (Or.inl h0)), guardViolated]
        split
        · simp; omega
        · split <;> simp <;> omega
      · simp [s012 (Or.inr (Or.inr h0)), guardViolated]
        split
        · simp; omega
        · split <;> simp <;> (try omega)
          refine ⟨by omega, ?_⟩
          intro s t p tot d _ _ _ _ hd
          subst hd
          simp only [List.length_drop, List.length_take]
          omega
      · simp [s3 h0, sf (Or.inl h0), guardViolated, failRes]
        repeat' split
        all_goals (simp_all <;> omega)
      · simp [s4 h0, sf (Or.inr h0), guardViolated, failRes]
        repeat' split
        all_goals (simp_all <;> omega)

theorem body_known (bd : BDec) (L t : Nat) (rest : Bytes) (hL : 1 ≤ L) (row : GuardRow)
    (h : findGuard expectedGuards t none = some row) :
    BodyOK L rest (body expectedGuards bd L t rest) := by
  have g := guard_rows t row h
  obtain ⟨gf, g1, g5, g13, gbf, gpc, gport, gext, gt⟩ := g
  have hp := pooled_le (L - 9)
  unfold body BodyOK
  simp only [h]
  rcases gt with rfl|rfl|rfl|rfl|rfl|rfl|rfl|rfl|rfl|rfl|rfl|rfl|rfl|rfl|rfl|rfl
  all_goals simp only [gf, failRes, guardViolated]
  -- ids 0-3
  · simp [g1]; split <;> simp_all <;> omega
  · simp [g1]; split <;> simp_all <;> omega
  · simp [g1]; split <;> simp_all <;> omega
  · simp [g1]; split <;> simp_all <;> omega
  -- 4
  · simp [g5]; split <;> (try split) <;> simp_all <;> omega
  -- 5
  · simp [gbf]; split <;> (try split) <;> simp_all <;> omega
  -- 6
  · simp [g13]; split <;> (try split) <;> simp_all <;> omega
  -- 7
  · simp [gpc]; split <;> (try split) <;> (try split) <;> simp_all <;> omega
  -- 8
  · simp [g13]; split <;> (try split) <;> simp_all <;> omega
  -- 9
  · simp [gport]; split <;> (try split) <;> simp_all <;> omega
  -- 13
  · simp [g5]; split <;> (try split) <;> simp_all <;> omega
  -- 14, 15
  · simp [g1]; split <;> simp_all <;> omega
  · simp [g1]; split <;> simp_all <;> omega
  -- 16
  · simp [g13]; split <;> (try split) <;> simp_all <;> omega
  -- 17
  · simp [g5]; split <;> (try split) <;> simp_all <;> omega
  -- 20
  · simp [gext]
    split
    · simp; omega
    · exact (bodyExt_ok bd L rest (by omega)).1

end Storrent.Props.C04

namespace Storrent.Props.C04
open Storrent Storrent.Wire

theorem body_wf (bd : BDec) (L t : Nat) (rest : Bytes) (hL : 1 ≤ L) :
    BodyWF L (body expectedGuards bd L t rest) := by
  cases h : findGuard expectedGuards t none with
  | none =>
    unfold body BodyWF
    simp only [h]
    split <;> simp
  | some row =>
    have g := guard_rows t row h
    obtain ⟨gf, g1, g5, g13, gbf, gpc, gport, gext, gt⟩ := g
    unfold body BodyWF
    simp only [h]
    rcases gt with rfl|rfl|rfl|rfl|rfl|rfl|rfl|rfl|rfl|rfl|rfl|rfl|rfl|rfl|rfl|rfl
    all_goals simp only [gf, failRes, guardViolated]
    · simp [g1]; split <;> simp_all
    · simp [g1]; split <;> simp_all
    · simp [g1]; split <;> simp_all
    · simp [g1]; split <;> simp_all
    · simp [g5]; split <;> (try split) <;> simp_all
    · simp [gbf]; split <;> (try split) <;> simp_all <;> omega
    · simp [g13]; split <;> (try split) <;> simp_all
    · simp [gpc]; split <;> (try split) <;> (try split) <;> simp_all <;> omega
    · simp [g13]; split <;> (try split) <;> simp_all
    · simp [gport]; split <;> (try split) <;> simp_all
    · simp [g5]; split <;> (try split) <;> simp_all
    · simp [g1]; split <;> simp_all
    · simp [g1]; split <;> simp_all
    · simp [g13]; split <;> (try split) <;> simp_all
    · simp [g5]; split <;> (try split) <;> simp_all
    · simp [gext]
      split
      · simp
      · exact (bodyExt_ok bd L rest (by omega)).2

theorem body_ok (bd : BDec) (L t : Nat) (rest : Bytes) (hL : 1 ≤ L) :
    BodyOK L rest (body expectedGuards bd L t rest) := by
  cases h : findGuard expectedGuards t none with
  | none => exact body_unknown bd L t rest hL h
  | some row => exact body_known bd L t rest hL row h

/-- all clauses at once, for the expected tables -/
theorem decode_spec (bd : BDec) (bs : Bytes) :
    let o := decodeWith expectedGuards expectedFrameCap bd bs
    o.res ≠ .nilnil ∧ o.res ≠ .panic ∧ o.consumed ≤ bs.length ∧
    (4 ≤ bs.length → o.consumed ≤ 4 + announced bs) ∧
    (∀ m, o.res = .msg m → o.consumed = 4 + announced bs) ∧
    (announced bs > expectedFrameCap → 4 ≤ bs.length →
        o.res = .err .tooLong ∧ o.consumed = 4 ∧ o.alloc = 0) ∧
    o.alloc ≤ 8 * announced bs := by
  intro o
  show _ ∧ _
  unfold o decodeWith announced
  by_cases h4 : bs.length < 4
  · simp [h4]; omega
  · simp only [h4, if_false]
    by_cases h0 : rdBE (List.take 4 bs) = 0
    · simp [h0]; omega
    · simp only [h0, if_false]
      by_cases hc : rdBE (List.take 4 bs) > expectedFrameCap
      · simp [hc]; omega
      · simp only [hc, if_false]
        cases hd : List.drop 4 bs with
        | nil => simp; omega
        | cons t rest =>
          simp only []
          have hlen : bs.length = 5 + rest.length := by
            have := congrArg List.length hd
            simp [List.length_drop] at this
            omega
          have hb := body_ok bd (rdBE (List.take 4 bs)) t.toNat rest (by omega)
          obtain ⟨b1, b2, b3, b4, b5, b6, b7⟩ := hb
          refine ⟨b1, b2, by omega, fun _ => b3, b6, ?_, b7⟩
          intro hgt; simp_all

/-! ### The property theorems (about the model run by the correspondence stream) -/

/-- never "no message and no error" -/
theorem C04_never_nilnil (bd : BDec) (bs : Bytes) : (decode bd bs).res ≠ .nilnil := by
  rw [decode_eq]; exact (decode_spec bd bs).1

/-- never panics -/
theorem C04_no_panic (bd : BDec) (bs : Bytes) : (decode bd bs).res ≠ .panic := by
  rw [decode_eq]; exact (decode_spec bd bs).2.1

/-- a message consumes exactly the four-byte prefix plus the announced length -/
theorem C04_exact_frame (bd : BDec) (bs : Bytes) (m : Msg)
    (h : (decode bd bs).res = .msg m) : (decode bd bs).consumed = 4 + announced bs := by
  rw [decode_eq] at h ⊢; exact (decode_spec bd bs).2.2.2.2.1 m h

/-- in every outcome nothing beyond the frame (nor beyond the stream) is consumed -/
theorem C04_never_beyond (bd : BDec) (bs : Bytes) :
    (decode bd bs).consumed ≤ bs.length ∧
    (4 ≤ bs.length → (decode bd bs).consumed ≤ 4 + announced bs) := by
  rw [decode_eq]; exact ⟨(decode_spec bd bs).2.2.1, (decode_spec bd bs).2.2.2.1⟩

/-- frames above 1 MiB are refused at once, nothing read or allocated for them -/
theorem C04_cap (bd : BDec) (bs : Bytes) (h4 : 4 ≤ bs.length) (h : announced bs > 1048576) :
    (decode bd bs).res = .err .tooLong ∧ (decode bd bs).consumed = 4 ∧
    (decode bd bs).alloc = 0 := by
  rw [decode_eq]; exact (decode_spec bd bs).2.2.2.2.2.1 h h4

/-- data-dependent allocation is at most a small multiple of the announced length,
    hence at most 8 MiB per frame -/
theorem C04_alloc (bd : BDec) (bs : Bytes) :
    (decode bd bs).alloc ≤ 8 * announced bs ∧ (decode bd bs).alloc ≤ 8 * 1048576 := by
  rw [decode_eq]
  have hs := decode_spec bd bs
  refine ⟨hs.2.2.2.2.2.2, ?_⟩
  by_cases h : announced bs > expectedFrameCap
  · by_cases h4 : 4 ≤ bs.length
    · have := (hs.2.2.2.2.2.1 h h4).2.2; omega
    · unfold decodeWith; simp [show bs.length < 4 by omega]
  · have := hs.2.2.2.2.2.2; unfold expectedFrameCap at h; omega

/-! non-vacuity: concrete frames meeting the hypotheses -/
example : (decode leanBDec [0,0,0,5,4,0,0,0,7]).res = .msg (.have 7) := by decide
example : (decode leanBDec [0,0,0,2,14,0]).res = .err .parse := by decide
example : (decode leanBDec [0,0,0,1,20,9]).res = .err .parse := by decide
example : announced [0,32,0,0,5] > 1048576 ∧ 4 ≤ [0,32,0,0,5].length := by decide

end Storrent.Props.C04

namespace Storrent.Props.C04
open Storrent Storrent.Wire

/-- a returned message is well-formed w.r.t. the frame: a Bitfield carries exactly L-1
    bytes, a Piece exactly L-9, a metadata payload at most L-2 -/
theorem C04_wellformed (bd : BDec) (bs : Bytes) :
    (∀ x, (decode bd bs).res = .msg (.bitfield x) → x.length = announced bs - 1) ∧
    (∀ i b d, (decode bd bs).res = .msg (.piece i b d) → d.length = announced bs - 9) ∧
    (∀ s t p tot d, (decode bd bs).res = .msg (.metadata s t p tot d) →
        d.length ≤ announced bs - 2) := by
  rw [decode_eq]
  unfold decodeWith announced
  by_cases h4 : bs.length < 4
  · simp [h4]
  · simp only [h4, if_false]
    by_cases h0 : rdBE (List.take 4 bs) = 0
    · simp [h0]
    · simp only [h0, if_false]
      by_cases hc : rdBE (List.take 4 bs) > expectedFrameCap
      · simp [hc]
      · simp only [hc, if_false]
        cases hd : List.drop 4 bs with
        | nil => simp
        | cons t rest => exact body_wf bd _ t.toNat rest (by omega)

end Storrent.Props.C04
