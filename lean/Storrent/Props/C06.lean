import Storrent.Model.WireParse
import Storrent.Gen.WireTable
import Storrent.Lemmas.Bytes
import Storrent.Props.C04
import Storrent.Lemmas.Bencode
/-
C06 — Emitted messages round-trip and match an independent BitTorrent codec.

`encode` (Model/Wire.lean) is written from the BEPs; the correspondence stream ties
protocol.Write to it byte for byte and protocol.Read to `decode` on those bytes.
Here: exact layouts, round trip through the model of protocol.Read with any bytes
following, and decoding of concatenated streams.
-/
namespace Storrent.Props.C06
open Storrent Storrent.Wire Storrent.Props.C04

def U32 (n : Nat) : Prop := n < 4294967296

/-- well-formed fixed-layout messages storrent can emit -/
def WFfixed : Msg → Prop
  | .keepAlive | .choke | .unchoke | .interested | .notInterested | .haveAll | .haveNone => True
  | .have i | .suggest i | .allowedFast i => U32 i
  | .request i b l | .cancel i b l | .reject i b l => U32 i ∧ U32 b ∧ U32 l
  | .port p => p < 65536
  | .bitfield bs => bs.length + 1 ≤ 1048576
  | .piece i b d => U32 i ∧ U32 b ∧ d.length + 9 ≤ 1048576
  | _ => False

/-! #### tie to the source: the ids `protocol.Write` emits are the ids of `encode` -/
theorem C06_gen_agrees : Gen.writerTable = expectedWriter := by decide

/-! #### exact layouts ("matches BEP n" stated formally) -/
theorem C06_layout_request (i b l : Nat) :
    encode (.request i b l) = some (be32 13 ++ [6] ++ (be32 i ++ be32 b ++ be32 l)) := rfl
theorem C06_layout_cancel (i b l : Nat) :
    encode (.cancel i b l) = some (be32 13 ++ [8] ++ (be32 i ++ be32 b ++ be32 l)) := rfl
theorem C06_layout_reject (i b l : Nat) :
    encode (.reject i b l) = some (be32 13 ++ [16] ++ (be32 i ++ be32 b ++ be32 l)) := rfl
theorem C06_layout_have (i : Nat) : encode (.have i) = some (be32 5 ++ [4] ++ be32 i) := rfl
theorem C06_layout_piece (i b : Nat) (d : Bytes) :
    encode (.piece i b d) = some (be32 ((be32 i ++ be32 b ++ d).length + 1) ++ [7] ++
      (be32 i ++ be32 b ++ d)) := rfl
theorem C06_layout_bitfield (bs : Bytes) :
    encode (.bitfield bs) = some (be32 (bs.length + 1) ++ [5] ++ bs) := rfl
theorem C06_layout_port (p : Nat) : encode (.port p) = some (be32 3 ++ [9] ++ be16 p) := rfl
theorem C06_layout_simple :
    encode .keepAlive = some [0,0,0,0] ∧ encode .choke = some [0,0,0,1,0] ∧
    encode .unchoke = some [0,0,0,1,1] ∧ encode .interested = some [0,0,0,1,2] ∧
    encode .notInterested = some [0,0,0,1,3] ∧ encode .haveAll = some [0,0,0,1,14] ∧
    encode .haveNone = some [0,0,0,1,15] := by decide
theorem C06_layout_fast (i : Nat) :
    encode (.suggest i) = some (be32 5 ++ [13] ++ be32 i) ∧
    encode (.allowedFast i) = some (be32 5 ++ [17] ++ be32 i) := ⟨rfl, rfl⟩
theorem C06_layout_donthave (sub i : Nat) :
    encode (.dontHave sub i) = some (be32 6 ++ [20] ++ ([UInt8.ofNat sub] ++ be32 i)) := rfl

end Storrent.Props.C06

namespace Storrent.Props.C06
open Storrent Storrent.Wire Storrent.Props.C04

theorem recompose32 (n : Nat) (h : U32 n) :
    ((n / 16777216 % 256 * 256 + n / 65536 % 256) * 256 + n / 256 % 256) * 256 + n % 256 = n := by
  unfold U32 at h; omega
theorem recompose16 (n : Nat) (h : n < 65536) : n / 256 % 256 * 256 + n % 256 = n := by omega

abbrev dec (bd : BDec) (bs : Bytes) := decodeWith expectedGuards expectedFrameCap bd bs

macro "rt_simp" : tactic => `(tactic|
  simp [dec, decodeWith, rdBE, expectedFrameCap, body, bodyExt, findGuard, expectedGuards, guardViolated,
        be32, be16, frame])

macro "rt_fin" : tactic => `(tactic|
  (repeat' split) <;> first | rfl | omega | (simp_all <;> omega))

theorem rt_simple (bd : BDec) (rest : Bytes) :
    dec bd ([0,0,0,0] ++ rest) = ⟨.msg .keepAlive, 4, 0⟩ ∧
    dec bd ([0,0,0,1,0] ++ rest) = ⟨.msg .choke, 5, 0⟩ ∧
    dec bd ([0,0,0,1,1] ++ rest) = ⟨.msg .unchoke, 5, 0⟩ ∧
    dec bd ([0,0,0,1,2] ++ rest) = ⟨.msg .interested, 5, 0⟩ ∧
    dec bd ([0,0,0,1,3] ++ rest) = ⟨.msg .notInterested, 5, 0⟩ ∧
    dec bd ([0,0,0,1,14] ++ rest) = ⟨.msg .haveAll, 5, 0⟩ ∧
    dec bd ([0,0,0,1,15] ++ rest) = ⟨.msg .haveNone, 5, 0⟩ := by
  refine ⟨?_, ?_, ?_, ?_, ?_, ?_, ?_⟩ <;> rt_simp

theorem rt_have (bd : BDec) (rest : Bytes) (i : Nat) (h : U32 i) :
    dec bd (be32 5 ++ [4] ++ be32 i ++ rest) = ⟨.msg (.have i), 9, 0⟩ := by
  rt_simp; rw [recompose32 i h]; rt_fin
theorem rt_suggest (bd : BDec) (rest : Bytes) (i : Nat) (h : U32 i) :
    dec bd (be32 5 ++ [13] ++ be32 i ++ rest) = ⟨.msg (.suggest i), 9, 0⟩ := by
  rt_simp; rw [recompose32 i h]; rt_fin
theorem rt_allowedFast (bd : BDec) (rest : Bytes) (i : Nat) (h : U32 i) :
    dec bd (be32 5 ++ [17] ++ be32 i ++ rest) = ⟨.msg (.allowedFast i), 9, 0⟩ := by
  rt_simp; rw [recompose32 i h]; rt_fin
theorem rt_port (bd : BDec) (rest : Bytes) (i : Nat) (h : i < 65536) :
    dec bd (be32 3 ++ [9] ++ be16 i ++ rest) = ⟨.msg (.port i), 7, 0⟩ := by
  rt_simp; rw [recompose16 i h]; rt_fin
theorem rt_request (bd : BDec) (rest : Bytes) (i b l : Nat) (hi : U32 i) (hb : U32 b) (hl : U32 l) :
    dec bd (be32 13 ++ [6] ++ (be32 i ++ be32 b ++ be32 l) ++ rest)
      = ⟨.msg (.request i b l), 17, 0⟩ := by
  rt_simp; rw [recompose32 i hi, recompose32 b hb, recompose32 l hl]; rt_fin
theorem rt_cancel (bd : BDec) (rest : Bytes) (i b l : Nat) (hi : U32 i) (hb : U32 b) (hl : U32 l) :
    dec bd (be32 13 ++ [8] ++ (be32 i ++ be32 b ++ be32 l) ++ rest)
      = ⟨.msg (.cancel i b l), 17, 0⟩ := by
  rt_simp; rw [recompose32 i hi, recompose32 b hb, recompose32 l hl]; rt_fin
theorem rt_reject (bd : BDec) (rest : Bytes) (i b l : Nat) (hi : U32 i) (hb : U32 b) (hl : U32 l) :
    dec bd (be32 13 ++ [16] ++ (be32 i ++ be32 b ++ be32 l) ++ rest)
      = ⟨.msg (.reject i b l), 17, 0⟩ := by
  rt_simp; rw [recompose32 i hi, recompose32 b hb, recompose32 l hl]; rt_fin

end Storrent.Props.C06

namespace Storrent.Props.C06
open Storrent Storrent.Wire Storrent.Props.C04

theorem rt_bitfield (bd : BDec) (rest : Bytes) (bs : Bytes) (h : bs.length + 1 ≤ 1048576) :
    dec bd (be32 (bs.length + 1) ++ [5] ++ bs ++ rest)
      = ⟨.msg (.bitfield bs), 4 + (bs.length + 1), bs.length⟩ := by
  obtain ⟨a, b, c, d, hbe⟩ : ∃ a b c d, be32 (bs.length + 1) = [a, b, c, d] := ⟨_, _, _, _, rfl⟩
  have hr : rdBE [a, b, c, d] = bs.length + 1 := hbe ▸ rdBE_be32 _ (by omega)
  rw [hbe]
  simp only [dec, decodeWith, List.cons_append, List.nil_append, List.length_cons, List.take_succ_cons,
    List.take_zero, List.drop_succ_cons, List.drop_zero, hr, expectedFrameCap]
  simp [body, findGuard, expectedGuards, guardViolated]
  rt_fin

theorem rt_piece (bd : BDec) (rest : Bytes) (i b : Nat) (data : Bytes) (hi : U32 i) (hb : U32 b)
    (h : data.length + 9 ≤ 1048576) :
    dec bd (be32 ((be32 i ++ be32 b ++ data).length + 1) ++ [7] ++ (be32 i ++ be32 b ++ data) ++ rest)
      = ⟨.msg (.piece i b data), 4 + (data.length + 9), pooled data.length⟩ := by
  have hl : (be32 i ++ be32 b ++ data).length + 1 = data.length + 9 := by
    simp [be32_length]; omega
  rw [hl]
  obtain ⟨a, b', c, d, hbe⟩ : ∃ a b c d, be32 (data.length + 9) = [a, b, c, d] := ⟨_, _, _, _, rfl⟩
  have hr : rdBE [a, b', c, d] = data.length + 9 := hbe ▸ rdBE_be32 _ (by omega)
  rw [hbe]
  simp only [dec, decodeWith, List.cons_append, List.nil_append, List.length_cons, List.take_succ_cons,
    List.take_zero, List.drop_succ_cons, List.drop_zero, hr, expectedFrameCap]
  simp [body, findGuard, expectedGuards, guardViolated, be32, rdBE]
  rw [recompose32 i hi, recompose32 b hb]
  rt_fin

/-- **Round trip** of every fixed-layout message storrent can emit, through the model of
    protocol.Read (generated table), with any bytes following: same message back, exactly
    the frame consumed. -/
theorem C06_roundtrip_fixed (bd : BDec) (m : Msg) (h : WFfixed m) (rest : Bytes) :
    ∃ bs, encode m = some bs ∧ 4 ≤ bs.length ∧
      (decode bd (bs ++ rest)).res = .msg m ∧ (decode bd (bs ++ rest)).consumed = bs.length := by
  simp only [decode_eq]
  cases m <;> simp only [WFfixed] at h
  case keepAlive =>
    have := (rt_simple bd rest).1
    unfold dec at this
    have e : be32 0 = [0,0,0,0] := by decide
    exact ⟨_, rfl, by decide, by simp only [e]; rw [this], by simp only [e]; rw [this]; rfl⟩
  case choke =>
    have := (rt_simple bd rest).2.1
    unfold dec at this
    have e : frame 0 [] = [0,0,0,1,0] := by decide
    exact ⟨_, rfl, by decide, by rw [e, this], by rw [e, this]; rfl⟩
  case unchoke =>
    have := (rt_simple bd rest).2.2.1
    unfold dec at this
    have e : frame 1 [] = [0,0,0,1,1] := by decide
    exact ⟨_, rfl, by decide, by rw [e, this], by rw [e, this]; rfl⟩
  case interested =>
    have := (rt_simple bd rest).2.2.2.1
    unfold dec at this
    have e : frame 2 [] = [0,0,0,1,2] := by decide
    exact ⟨_, rfl, by decide, by rw [e, this], by rw [e, this]; rfl⟩
  case notInterested =>
    have := (rt_simple bd rest).2.2.2.2.1
    unfold dec at this
    have e : frame 3 [] = [0,0,0,1,3] := by decide
    exact ⟨_, rfl, by decide, by rw [e, this], by rw [e, this]; rfl⟩
  case haveAll =>
    have := (rt_simple bd rest).2.2.2.2.2.1
    unfold dec at this
    have e : frame 14 [] = [0,0,0,1,14] := by decide
    exact ⟨_, rfl, by decide, by rw [e, this], by rw [e, this]; rfl⟩
  case haveNone =>
    have := (rt_simple bd rest).2.2.2.2.2.2
    unfold dec at this
    have e : frame 15 [] = [0,0,0,1,15] := by decide
    exact ⟨_, rfl, by decide, by rw [e, this], by rw [e, this]; rfl⟩
  case «have» i =>
    have := rt_have bd rest i h
    unfold dec at this
    exact ⟨_, rfl, by simp [frame, be32_length], by rw [show frame 4 (be32 i) = be32 5 ++ [4] ++ be32 i from rfl, this],
      by rw [show frame 4 (be32 i) = be32 5 ++ [4] ++ be32 i from rfl, this]; rfl⟩
  case suggest i =>
    have := rt_suggest bd rest i h
    unfold dec at this
    exact ⟨_, rfl, by simp [frame, be32_length], by rw [show frame 13 (be32 i) = be32 5 ++ [13] ++ be32 i from rfl, this],
      by rw [show frame 13 (be32 i) = be32 5 ++ [13] ++ be32 i from rfl, this]; rfl⟩
  case allowedFast i =>
    have := rt_allowedFast bd rest i h
    unfold dec at this
    exact ⟨_, rfl, by simp [frame, be32_length], by rw [show frame 17 (be32 i) = be32 5 ++ [17] ++ be32 i from rfl, this],
      by rw [show frame 17 (be32 i) = be32 5 ++ [17] ++ be32 i from rfl, this]; rfl⟩
  case port p =>
    have := rt_port bd rest p h
    unfold dec at this
    exact ⟨_, rfl, by simp [frame, be32_length, be16_length], by rw [show frame 9 (be16 p) = be32 3 ++ [9] ++ be16 p from rfl, this],
      by rw [show frame 9 (be16 p) = be32 3 ++ [9] ++ be16 p from rfl, this]; rfl⟩
  case request i b l =>
    have := rt_request bd rest i b l h.1 h.2.1 h.2.2
    unfold dec at this
    have e : frame 6 (be32 i ++ be32 b ++ be32 l) = be32 13 ++ [6] ++ (be32 i ++ be32 b ++ be32 l) := rfl
    exact ⟨_, rfl, by simp [frame, be32_length], by rw [e, this], by rw [e, this]; rfl⟩
  case cancel i b l =>
    have := rt_cancel bd rest i b l h.1 h.2.1 h.2.2
    unfold dec at this
    have e : frame 8 (be32 i ++ be32 b ++ be32 l) = be32 13 ++ [8] ++ (be32 i ++ be32 b ++ be32 l) := rfl
    exact ⟨_, rfl, by simp [frame, be32_length], by rw [e, this], by rw [e, this]; rfl⟩
  case reject i b l =>
    have := rt_reject bd rest i b l h.1 h.2.1 h.2.2
    unfold dec at this
    have e : frame 16 (be32 i ++ be32 b ++ be32 l) = be32 13 ++ [16] ++ (be32 i ++ be32 b ++ be32 l) := rfl
    exact ⟨_, rfl, by simp [frame, be32_length], by rw [e, this], by rw [e, this]; rfl⟩
  case bitfield bs =>
    have := rt_bitfield bd rest bs h
    unfold dec at this
    have e : frame 5 bs = be32 (bs.length + 1) ++ [5] ++ bs := rfl
    exact ⟨_, rfl, by simp [frame, be32_length], by rw [e, this],
      by rw [e, this]; simp [be32_length] <;> omega⟩
  case piece i b d =>
    have := rt_piece bd rest i b d h.1 h.2.1 h.2.2
    unfold dec at this
    have e : frame 7 (be32 i ++ be32 b ++ d) =
        be32 ((be32 i ++ be32 b ++ d).length + 1) ++ [7] ++ (be32 i ++ be32 b ++ d) := rfl
    exact ⟨_, rfl, by simp [frame, be32_length], by rw [e, this],
      by rw [e, this]; simp [be32_length] <;> omega⟩

/-- concatenation of the encodings -/
def encodeAll : List Msg → Option Bytes
  | [] => some []
  | m :: ms => do
    let a ← encode m
    let b ← encodeAll ms
    pure (a ++ b)

/-- **Streams**: a concatenation of emitted messages decodes to the same sequence.
    (How the stream is cut into reads is invisible at this level: the reader consumes a
    flat byte sequence; `Props/C07` proves the chunked-source lemmas.) -/
theorem C06_stream_fixed (bd : BDec) (ms : List Msg) (h : ∀ m ∈ ms, WFfixed m)
    (fuel : Nat) (hf : ms.length ≤ fuel) :
    ∃ bs, encodeAll ms = some bs ∧
      decodeAll Gen.wireGuards Gen.frameCap bd fuel bs = ms.map .msg := by
  induction ms generalizing fuel with
  | nil => exact ⟨[], rfl, by cases fuel <;> simp [decodeAll]⟩
  | cons m ms ih =>
    obtain ⟨a, ha, hlen, hres, hcons⟩ := C06_roundtrip_fixed bd m (h m (by simp)) 
      ((encodeAll ms).getD [])
    cases fuel with
    | zero => simp at hf
    | succ fuel =>
      obtain ⟨b, hb, hdec⟩ := ih (fun x hx => h x (by simp [hx])) fuel (by simp at hf; omega)
      refine ⟨a ++ b, by simp [encodeAll, ha, hb], ?_⟩
      simp only [hb, Option.getD_some] at hres hcons
      have hne : (a ++ b).isEmpty = false := by
        cases a with
        | nil => simp at hlen
        | cons x xs => rfl
      unfold decodeAll
      simp only [hne]
      have hd : decodeWith Gen.wireGuards Gen.frameCap bd (a ++ b) = decode bd (a ++ b) := rfl
      rw [hd]
      simp only [hres, hcons, List.drop_left', List.map_cons]
      simp [hdec]

/-! non-vacuity -/
example : WFfixed (.request 1 16384 16384) ∧ WFfixed (.piece 0 0 [1,2,3]) := by
  simp [WFfixed, U32]

end Storrent.Props.C06

namespace Storrent.Props.C06
open Storrent Storrent.Bencode Storrent.Wire Storrent.Props.C04


theorem lookup_append (k : Bytes) (l1 l2 : List (Bytes × BV)) :
    lookup k (l1 ++ l2) = ((lookup k l2).or (lookup k l1)) := by
  unfold lookup
  simp [List.reverse_append, List.find?_append]
  cases List.find? (fun kv => kv.1 == k) l2.reverse <;> simp

theorem metaDict_good (t p tot : Nat) : ∀ kv ∈ metaDict t p tot, GoodKey kv.1 ∧ GoodBV kv.2 := by
  intro kv hkv
  unfold metaDict optKV at hkv
  split at hkv <;> simp at hkv
  · rcases hkv with h | h | h <;> subst h <;> simp [GoodKey, GoodBV, natV, strBytes]
  · rcases hkv with h | h <;> subst h <;> simp [GoodKey, GoodBV, natV, strBytes]

theorem decMeta_enc (t p tot : Nat) (ht : t < 256) (hp : U32 p) (htot : U32 tot) (data : Bytes) :
    decMeta (encDict (metaDict t p tot) ++ data)
      = some (some (t, p, tot, (encDict (metaDict t p tot)).length)) := by
  unfold decMeta
  rw [parseDict_enc _ (metaDict_good t p tot)]
  unfold U32 at hp htot
  by_cases h0 : tot = 0
  · subst h0
    simp [metaDict, optKV, getU, lookup, natV, strBytes, show ¬ ((t:Int) < 0) by omega,
      show ¬ ((p:Int) < 0) by omega, Nat.mod_eq_of_lt ht, Nat.mod_eq_of_lt hp]
  · simp [metaDict, optKV, getU, lookup, natV, strBytes, h0, show ¬ ((t:Int) < 0) by omega,
      show ¬ ((p:Int) < 0) by omega, show ¬ ((tot:Int) < 0) by omega,
      Nat.mod_eq_of_lt ht, Nat.mod_eq_of_lt hp, Nat.mod_eq_of_lt htot]



theorem rt_dontHave (bd : BDec) (rest : Bytes) (i : Nat) (h : U32 i) :
    dec bd (be32 6 ++ [20] ++ ([3] ++ be32 i) ++ rest) = ⟨.msg (.dontHave 3 i), 10, 0⟩ := by
  rt_simp; rw [recompose32 i h]; rt_fin

theorem rt_metadata (rest : Bytes) (t p tot : Nat) (data : Bytes)
    (ht : t < 256) (hp : U32 p) (htot : U32 tot)
    (hlen : (encDict (metaDict t p tot)).length + data.length + 2 ≤ 1048576) :
    let payload := [2] ++ encDict (metaDict t p tot) ++ data
    (dec leanBDec (be32 (payload.length + 1) ++ [20] ++ payload ++ rest)).res
        = .msg (.metadata 2 t p tot data) ∧
    (dec leanBDec (be32 (payload.length + 1) ++ [20] ++ payload ++ rest)).consumed
        = 4 + (payload.length + 1) := by
  intro payload
  have hpl : payload.length = (encDict (metaDict t p tot)).length + data.length + 1 := by
    simp [payload] <;> omega
  obtain ⟨a, b, c, d, hbe⟩ : ∃ a b c d, be32 (payload.length + 1) = [a, b, c, d] := ⟨_, _, _, _, rfl⟩
  have hr : rdBE [a, b, c, d] = payload.length + 1 := hbe ▸ rdBE_be32 _ (by omega)
  rw [hbe]
  have hm := decMeta_enc t p tot ht hp htot data
  simp only [dec, decodeWith, List.cons_append, List.nil_append, List.length_cons, List.take_succ_cons,
    List.take_zero, List.drop_succ_cons, List.drop_zero, hr, expectedFrameCap, payload]
  simp [body, bodyExt, findGuard, expectedGuards, guardViolated, leanBDec]
  rw [if_neg (by omega), if_neg (by omega), if_neg (by omega), if_neg (by omega)]
  have htk : List.take ((encDict (metaDict t p tot)).length + data.length)
      (encDict (metaDict t p tot) ++ (data ++ rest)) = encDict (metaDict t p tot) ++ data := by
    rw [← List.append_assoc]
    exact List.take_left' (by simp)
  rw [htk, hm]
  simp


/-- **Round trip of the bencoded metadata message** (BEP 9) and of lt_donthave through the
    model of protocol.Read instantiated with the Lean bencode decoder, any bytes following. -/
theorem C06_roundtrip_metadata (rest : Bytes) (t p tot : Nat) (data : Bytes)
    (ht : t < 256) (hp : U32 p) (htot : U32 tot)
    (hlen : (encDict (metaDict t p tot)).length + data.length + 2 ≤ 1048576) :
    ∃ bs, encode (.metadata 2 t p tot data) = some bs ∧
      (decode leanBDec (bs ++ rest)).res = .msg (.metadata 2 t p tot data) ∧
      (decode leanBDec (bs ++ rest)).consumed = bs.length := by
  have h := rt_metadata rest t p tot data ht hp htot hlen
  simp only [decode_eq]
  refine ⟨_, rfl, ?_, ?_⟩
  · exact h.1
  · rw [show frame 20 ([UInt8.ofNat 2] ++ encDict (metaDict t p tot) ++ data) =
        be32 (([2] ++ encDict (metaDict t p tot) ++ data).length + 1) ++ [20] ++
          ([2] ++ encDict (metaDict t p tot) ++ data) from rfl]
    rw [h.2]; simp [be32_length] <;> omega

theorem C06_roundtrip_donthave (bd : BDec) (rest : Bytes) (i : Nat) (h : U32 i) :
    ∃ bs, encode (.dontHave 3 i) = some bs ∧
      (decode bd (bs ++ rest)).res = .msg (.dontHave 3 i) ∧
      (decode bd (bs ++ rest)).consumed = bs.length := by
  have := rt_dontHave bd rest i h
  unfold dec at this
  simp only [decode_eq]
  have e : frame 20 ([UInt8.ofNat 3] ++ be32 i) = be32 6 ++ [20] ++ ([3] ++ be32 i) := rfl
  exact ⟨_, rfl, by rw [e, this], by rw [e, this]; rfl⟩

end Storrent.Props.C06

namespace Storrent.Props.C06
open Storrent Storrent.Bencode Storrent.Wire Storrent.Props.C04

def WFpeer (w : Nat) (p : PexPeer) : Prop := p.ip.length = w ∧ p.port < 65536 ∧ p.flags < 256

theorem parseCompact_enc (w : Nat) (ps : List PexPeer) (h : ∀ p ∈ ps, WFpeer w p) :
    parseCompact w ps.length (compact ps) (flagsOf ps) = ps := by
  induction ps with
  | nil => simp [parseCompact]
  | cons p ps ih =>
    obtain ⟨hip, hport, hfl⟩ := h p (by simp)
    have ih' := ih (fun q hq => h q (by simp [hq]))
    simp only [List.length_cons, parseCompact, compact, flagsOf, List.map_cons, List.flatten_cons]
    have hlen : ¬ ((p.ip ++ be16 p.port ++ (ps.map (fun p => p.ip ++ be16 p.port)).flatten).length < w + 2) := by
      simp [hip, be16_length] <;> omega
    rw [if_neg hlen]
    have h1 : List.take w (p.ip ++ be16 p.port ++ (ps.map (fun p => p.ip ++ be16 p.port)).flatten) = p.ip := by
      rw [List.append_assoc]; exact List.take_left' hip
    have h2 : List.drop w (p.ip ++ be16 p.port ++ (ps.map (fun p => p.ip ++ be16 p.port)).flatten)
        = be16 p.port ++ (ps.map (fun p => p.ip ++ be16 p.port)).flatten := by
      rw [List.append_assoc]; exact List.drop_left' hip
    have h3 : List.drop (w + 2) (p.ip ++ be16 p.port ++ (ps.map (fun p => p.ip ++ be16 p.port)).flatten)
        = (ps.map (fun p => p.ip ++ be16 p.port)).flatten := by
      exact List.drop_left' (by simp [hip, be16_length])
    rw [h1, h2, h3]
    have h4 : List.take 2 (be16 p.port ++ (ps.map (fun p => p.ip ++ be16 p.port)).flatten) = be16 p.port :=
      List.take_left' (be16_length _)
    rw [h4, rdBE_be16 _ hport]
    simp only [List.head?_cons, Option.map_some, Option.getD_some, List.tail_cons]
    have hf : (UInt8.ofNat p.flags).toNat = p.flags := by
      simp only [UInt8.toNat_ofNat']; omega
    rw [hf]
    have : parseCompact w ps.length (compact ps) (flagsOf ps) = ps := ih'
    simp only [compact, flagsOf] at this
    rw [this]

theorem compact_len (w : Nat) (ps : List PexPeer) (h : ∀ p ∈ ps, WFpeer w p) :
    (compact ps).length = ps.length * (w + 2) := by
  induction ps with
  | nil => simp [compact]
  | cons p ps ih =>
    have := ih (fun q hq => h q (by simp [hq]))
    simp only [compact, List.map_cons, List.flatten_cons, List.length_append, List.length_cons] at *
    rw [this, (h p (by simp)).1, be16_length]
    rw [Nat.succ_mul]; omega

theorem compactOf_enc (w : Nat) (ps : List PexPeer) (h : ∀ p ∈ ps, WFpeer w p) (f : Option Bytes)
    (hf : f = some (flagsOf ps)) :
    compactOf w (some (compact ps)) f = ps := by
  subst hf
  unfold compactOf
  simp only [compact_len w ps h, Option.getD_some]
  rw [Nat.mul_mod_left, if_pos rfl, Nat.mul_div_cancel _ (by omega : 0 < w + 2)]
  exact parseCompact_enc w ps h



theorem parseCompact_enc0 (w : Nat) (ps : List PexPeer) (h : ∀ p ∈ ps, WFpeer w p ∧ p.flags = 0) :
    parseCompact w ps.length (compact ps) [] = ps := by
  induction ps with
  | nil => simp [parseCompact]
  | cons p ps ih =>
    obtain ⟨⟨hip, hport, _⟩, hfl⟩ := h p (by simp)
    have ih' := ih (fun q hq => h q (by simp [hq]))
    simp only [List.length_cons, parseCompact, compact, List.map_cons, List.flatten_cons]
    have hlen : ¬ ((p.ip ++ be16 p.port ++ (ps.map (fun p => p.ip ++ be16 p.port)).flatten).length < w + 2) := by
      simp [hip, be16_length] <;> omega
    rw [if_neg hlen]
    have h1 : List.take w (p.ip ++ be16 p.port ++ (ps.map (fun p => p.ip ++ be16 p.port)).flatten) = p.ip := by
      rw [List.append_assoc]; exact List.take_left' hip
    have h2 : List.drop w (p.ip ++ be16 p.port ++ (ps.map (fun p => p.ip ++ be16 p.port)).flatten)
        = be16 p.port ++ (ps.map (fun p => p.ip ++ be16 p.port)).flatten := by
      rw [List.append_assoc]; exact List.drop_left' hip
    have h3 : List.drop (w + 2) (p.ip ++ be16 p.port ++ (ps.map (fun p => p.ip ++ be16 p.port)).flatten)
        = (ps.map (fun p => p.ip ++ be16 p.port)).flatten := by
      exact List.drop_left' (by simp [hip, be16_length])
    rw [h1, h2, h3]
    have h4 : List.take 2 (be16 p.port ++ (ps.map (fun p => p.ip ++ be16 p.port)).flatten) = be16 p.port :=
      List.take_left' (be16_length _)
    rw [h4, rdBE_be16 _ hport]
    simp only [List.head?_nil, Option.map_none, Option.getD_none, List.tail_nil]
    have : parseCompact w ps.length (compact ps) [] = ps := ih'
    simp only [compact] at this
    rw [this]
    cases p; simp_all

theorem compactOf_enc0 (w : Nat) (ps : List PexPeer) (h : ∀ p ∈ ps, WFpeer w p ∧ p.flags = 0) :
    compactOf w (some (compact ps)) none = ps := by
  unfold compactOf
  simp only [compact_len w ps (fun p hp => (h p hp).1), Option.getD_none]
  rw [Nat.mul_mod_left, if_pos rfl, Nat.mul_div_cancel _ (by omega : 0 < w + 2)]
  exact parseCompact_enc0 w ps h

theorem lookup_optKV (k : Bytes) (k' : String) (p : Bool) (v : BV) :
    lookup k (optKV k' p v) = if p ∧ strBytes k' = k then some v else none := by
  unfold optKV lookup
  cases p <;> simp



def WFpexList (ps : List PexPeer) : Prop :=
  (∀ p ∈ ps, (WFpeer 4 p ∨ WFpeer 16 p)) ∧ ps.length ≤ 1000000

theorem filter_is4_wf (ps : List PexPeer) (h : ∀ p ∈ ps, (WFpeer 4 p ∨ WFpeer 16 p)) :
    (∀ p ∈ ps.filter is4, WFpeer 4 p) ∧ (∀ p ∈ ps.filter (fun p => !is4 p), WFpeer 16 p) := by
  constructor
  · intro p hp
    simp [is4] at hp
    rcases h p hp.1 with h4 | h16
    · exact h4
    · exact absurd hp.2 (by rw [h16.1]; decide)
  · intro p hp
    simp [is4] at hp
    rcases h p hp.1 with h4 | h16
    · exact absurd h4.1 hp.2
    · exact h16

theorem compactOf_opt (w : Nat) (ps : List PexPeer) (h : ∀ p ∈ ps, WFpeer w p) :
    compactOf w (if (!ps.isEmpty) = true then some (compact ps) else none)
      (if (!ps.isEmpty) = true then some (flagsOf ps) else none) = ps := by
  cases ps with
  | nil => simp [compactOf]
  | cons p ps => simp only [List.isEmpty_cons, Bool.not_false, if_true]; exact compactOf_enc w _ h _ rfl

theorem compactOf_opt0 (w : Nat) (ps : List PexPeer) (h : ∀ p ∈ ps, WFpeer w p ∧ p.flags = 0) :
    compactOf w (if (!ps.isEmpty) = true then some (compact ps) else none) none = ps := by
  cases ps with
  | nil => simp [compactOf]
  | cons p ps => simp only [List.isEmpty_cons, Bool.not_false, if_true]; exact compactOf_enc0 w _ h

theorem getS_of_lookup (d : List (Bytes × BV)) (k : String) (c : Prop) [Decidable c] (s : Bytes)
    (h : lookup (strBytes k) d = if c then some (.str s) else none) :
    getS d k = some (if c then some s else none) := by
  unfold getS; rw [h]
  by_cases hc : c <;> simp [hc]

theorem or_none_left {α} (x : Option α) : (none : Option α).or x = x := by cases x <;> rfl
theorem or_if_some {α} (c : Prop) [Decidable c] (v : α) (x : Option α) :
    (if c then some v else none).or x = if c then some v else x := by split <;> simp

theorem getS_pex (a d : List PexPeer) :
    let dict := pexDict a d
    getS dict "added" = some (if (!(a.filter is4).isEmpty) = true then some (compact (a.filter is4)) else none) ∧
    getS dict "added.f" = some (if (!(a.filter is4).isEmpty) = true then some (flagsOf (a.filter is4)) else none) ∧
    getS dict "added6" = some (if (!(a.filter (fun p => !is4 p)).isEmpty) = true then some (compact (a.filter (fun p => !is4 p))) else none) ∧
    getS dict "added6.f" = some (if (!(a.filter (fun p => !is4 p)).isEmpty) = true then some (flagsOf (a.filter (fun p => !is4 p))) else none) ∧
    getS dict "dropped" = some (if (!(d.filter is4).isEmpty) = true then some (compact (d.filter is4)) else none) ∧
    getS dict "dropped6" = some (if (!(d.filter (fun p => !is4 p)).isEmpty) = true then some (compact (d.filter (fun p => !is4 p))) else none) := by
  intro dict
  refine ⟨?_, ?_, ?_, ?_, ?_, ?_⟩ <;>
  · apply getS_of_lookup
    simp only [dict, pexDict, lookup_append, lookup_optKV]
    simp [strBytes]



theorem filter_len_le (ps : List PexPeer) (f : PexPeer → Bool) : (ps.filter f).length ≤ ps.length :=
  List.length_filter_le f ps

theorem pexDict_good (a d : List PexPeer) (ha : WFpexList a) (hd : WFpexList d) :
    ∀ kv ∈ pexDict a d, GoodKey kv.1 ∧ GoodBV kv.2 := by
  obtain ⟨ha1, ha2⟩ := ha
  obtain ⟨hd1, hd2⟩ := hd
  have fa := filter_is4_wf a ha1
  have fd := filter_is4_wf d hd1
  have l1 := compact_len 4 _ fa.1
  have l2 := compact_len 16 _ fa.2
  have l3 := compact_len 4 _ fd.1
  have l4 := compact_len 16 _ fd.2
  have b1 := filter_len_le a is4
  have b2 := filter_len_le a (fun p => !is4 p)
  have b3 := filter_len_le d is4
  have b4 := filter_len_le d (fun p => !is4 p)
  intro kv hkv
  simp only [pexDict, optKV, List.mem_append] at hkv
  rcases hkv with ((((h | h) | h) | h) | h) | h <;>
    (split at h <;> simp at h; subst h; simp [GoodKey, GoodBV, strBytes, flagsOf]; omega)

theorem decPex_enc (a d : List PexPeer) (ha : WFpexList a) (hd : WFpexList d)
    (hd0 : ∀ p ∈ d, p.flags = 0) (rest : Bytes) :
    decPex (encDict (pexDict a d) ++ rest)
      = some (a.filter is4 ++ a.filter (fun p => !is4 p), d.filter is4 ++ d.filter (fun p => !is4 p)) := by
  unfold decPex
  rw [parseDict_enc _ (pexDict_good a d ha hd)]
  obtain ⟨g1, g2, g3, g4, g5, g6⟩ := getS_pex a d
  have fa := filter_is4_wf a ha.1
  have fd := filter_is4_wf d hd.1
  simp only [Option.bind_eq_bind, Option.bind_some, g1, g2, g3, g4, g5, g6, Option.pure_def]
  rw [compactOf_opt 4 _ fa.1, compactOf_opt 16 _ fa.2,
      compactOf_opt0 4 _ (fun p hp => ⟨fd.1 p hp, hd0 p ((List.mem_filter.mp hp).1)⟩),
      compactOf_opt0 16 _ (fun p hp => ⟨fd.2 p hp, hd0 p ((List.mem_filter.mp hp).1)⟩)]



/-- documented normalisation of a PEX list: IPv4 peers first (the compact format carries the
    two families in separate strings) -/
def v4first (ps : List PexPeer) : List PexPeer := ps.filter is4 ++ ps.filter (fun p => !is4 p)

theorem rt_pex (rest : Bytes) (a d : List PexPeer) (ha : WFpexList a) (hd : WFpexList d)
    (hd0 : ∀ p ∈ d, p.flags = 0)
    (hlen : (encDict (pexDict a d)).length + 2 ≤ 1048576) :
    let payload := [1] ++ encDict (pexDict a d)
    (dec leanBDec (be32 (payload.length + 1) ++ [20] ++ payload ++ rest)).res
        = .msg (.pex 1 (v4first a) (v4first d)) ∧
    (dec leanBDec (be32 (payload.length + 1) ++ [20] ++ payload ++ rest)).consumed
        = 4 + (payload.length + 1) := by
  intro payload
  have hpl : payload.length = (encDict (pexDict a d)).length + 1 := by
    simp [payload] <;> omega
  obtain ⟨a', b, c, d', hbe⟩ : ∃ a b c d, be32 (payload.length + 1) = [a, b, c, d] := ⟨_, _, _, _, rfl⟩
  have hr : rdBE [a', b, c, d'] = payload.length + 1 := hbe ▸ rdBE_be32 _ (by omega)
  rw [hbe]
  have hm := decPex_enc a d ha hd hd0 []
  rw [List.append_nil] at hm
  simp only [dec, decodeWith, List.cons_append, List.nil_append, List.length_cons, List.take_succ_cons,
    List.take_zero, List.drop_succ_cons, List.drop_zero, hr, expectedFrameCap, payload]
  simp [body, bodyExt, findGuard, expectedGuards, guardViolated, leanBDec]
  rw [if_neg (by omega), if_neg (by omega), if_neg (by omega)]
  rw [hm]
  simp only [v4first]
  rw [if_neg (by omega)]
  exact ⟨rfl, rfl⟩


/-- **Compact peer lists** (BEP 11 / BEP 23): parsing the compact form of a list of
    well-formed peers of one family gives the list back, flags included. -/
theorem C06_pex_compact (w : Nat) (ps : List PexPeer) (h : ∀ p ∈ ps, WFpeer w p) :
    compactOf w (some (compact ps)) (some (flagsOf ps)) = ps :=
  compactOf_enc w ps h _ rfl

/-- **Round trip of the PEX message** (ut_pex) through the model of protocol.Read with the
    Lean bencode decoder, any bytes following; the decoded lists are the emitted ones with
    the IPv4 peers first (flags of dropped peers are not transmitted). -/
theorem C06_roundtrip_pex (rest : Bytes) (a d : List PexPeer) (ha : WFpexList a) (hd : WFpexList d)
    (hd0 : ∀ p ∈ d, p.flags = 0) (hlen : (encDict (pexDict a d)).length + 2 ≤ 1048576) :
    ∃ bs, encode (.pex 1 a d) = some bs ∧
      (decode leanBDec (bs ++ rest)).res = .msg (.pex 1 (v4first a) (v4first d)) ∧
      (decode leanBDec (bs ++ rest)).consumed = bs.length := by
  have h := rt_pex rest a d ha hd hd0 hlen
  simp only [decode_eq]
  refine ⟨_, rfl, ?_, ?_⟩
  · exact h.1
  · rw [show frame 20 ([UInt8.ofNat 1] ++ encDict (pexDict a d)) =
        be32 (([1] ++ encDict (pexDict a d)).length + 1) ++ [20] ++ ([1] ++ encDict (pexDict a d)) from rfl]
    rw [h.2]; simp [be32_length] <;> omega

example : WFpexList [⟨[1,2,3,4], 6881, 1⟩, ⟨List.replicate 16 7, 80, 0⟩] := by
  refine ⟨?_, by decide⟩
  intro p hp
  simp at hp
  rcases hp with rfl | rfl
  · left; simp [WFpeer]
  · right; simp [WFpeer]

end Storrent.Props.C06

namespace Storrent.Props.C06
open Storrent Storrent.Bencode Storrent.Wire Storrent.Props.C04

structure WFext0 (e : Ext0) : Prop where
  ver : e.version.length < 2147483648
  port : e.port < 65536
  reqq : U32 e.reqq
  ms : U32 e.metadataSize
  v4 : ∀ s, e.ipv4 = some s → s.length = 4
  v6 : ∀ s, e.ipv6 = some s → s.length = 16
  msgs : ∀ kv ∈ e.messages, kv.1.length < 2147483648 ∧ kv.2 < 256
  msgsLen : e.messages.length ≤ 1000000

theorem lookup_single (k k' : Bytes) (v : BV) :
    lookup k [(k', v)] = if k' = k then some v else none := by
  unfold lookup; simp

theorem getU_of_lookup (d : List (Bytes × BV)) (k : String) (bits n : Nat) (c : Prop) [Decidable c]
    (h : lookup (strBytes k) d = if c then some (natV n) else none) (hn : n < 2 ^ bits) :
    getU d k bits = some (if c then n else 0) := by
  unfold getU; rw [h]
  by_cases hc : c <;> simp [hc, natV, Nat.mod_eq_of_lt hn]

theorem ext0_lookups (e : Ext0) :
    let d := ext0Dict e
    lookup (strBytes "e") d = (if e.encrypt = true then some (natV 1) else none) ∧
    lookup (strBytes "ipv4") d = (if e.ipv4.isSome = true then some (.str (e.ipv4.getD [])) else none) ∧
    lookup (strBytes "ipv6") d = (if e.ipv6.isSome = true then some (.str (e.ipv6.getD [])) else none) ∧
    lookup (strBytes "m") d = (if (!e.messages.isEmpty) = true then
        some (.dictI (e.messages.map (fun kv => (kv.1, (kv.2 : Int))))) else none) ∧
    lookup (strBytes "metadata_size") d = (if (e.metadataSize != 0) = true then some (natV e.metadataSize) else none) ∧
    lookup (strBytes "p") d = (if (e.port != 0) = true then some (natV e.port) else none) ∧
    lookup (strBytes "reqq") d = (if (e.reqq != 0) = true then some (natV e.reqq) else none) ∧
    lookup (strBytes "upload_only") d = some (natV (if e.uploadOnly then 1 else 0)) ∧
    lookup (strBytes "v") d = (if (!e.version.isEmpty) = true then some (.str e.version) else none) := by
  intro d
  refine ⟨?_, ?_, ?_, ?_, ?_, ?_, ?_, ?_, ?_⟩ <;>
  · simp only [d, ext0Dict, lookup_append, lookup_optKV, lookup_single]
    simp [strBytes]



theorem ext0Dict_good (e : Ext0) (h : WFext0 e) : ∀ kv ∈ ext0Dict e, GoodKey kv.1 ∧ GoodBV kv.2 := by
  intro kv hkv
  simp only [ext0Dict, optKV, List.mem_append] at hkv
  rcases hkv with (((((((h1 | h1) | h1) | h1) | h1) | h1) | h1) | h1) | h1
  · split at h1 <;> simp at h1; subst h1; simp [GoodKey, GoodBV, strBytes, natV]
  · split at h1 <;> simp at h1; subst h1
    rename_i hs
    obtain ⟨s, hs'⟩ := Option.isSome_iff_exists.mp hs
    simp [GoodKey, GoodBV, strBytes, hs', h.v4 s hs']
  · split at h1 <;> simp at h1; subst h1
    rename_i hs
    obtain ⟨s, hs'⟩ := Option.isSome_iff_exists.mp hs
    simp [GoodKey, GoodBV, strBytes, hs', h.v6 s hs']
  · split at h1 <;> simp at h1; subst h1
    simp only [GoodKey, GoodBV, strBytes]
    refine ⟨by decide, ?_⟩
    intro kv hkv
    simp at hkv
    obtain ⟨a, b, hab, rfl⟩ := hkv
    exact ⟨(h.msgs _ hab).1, by simp⟩
  · split at h1 <;> simp at h1; subst h1; simp [GoodKey, GoodBV, strBytes, natV]
  · split at h1 <;> simp at h1; subst h1; simp [GoodKey, GoodBV, strBytes, natV]
  · split at h1 <;> simp at h1; subst h1; simp [GoodKey, GoodBV, strBytes, natV]
  · simp at h1; subst h1; simp [GoodKey, GoodBV, strBytes, natV] <;> (split <;> simp)
  · split at h1 <;> simp at h1; subst h1; simp [GoodKey, GoodBV, strBytes]; exact h.ver

theorem decExt0_enc (e : Ext0) (h : WFext0 e) (rest : Bytes) :
    decExt0 (encDict (ext0Dict e) ++ rest) = some e := by
  unfold decExt0
  rw [parseDict_enc _ (ext0Dict_good e h)]
  obtain ⟨le, l4, l6, lm, lms, lp, lr, lu, lv⟩ := ext0_lookups e
  have gv : getS (ext0Dict e) "v" = some (if (!e.version.isEmpty) = true then some e.version else none) :=
    getS_of_lookup _ _ _ _ lv
  have g4 : getS (ext0Dict e) "ipv4" = some (if e.ipv4.isSome = true then some (e.ipv4.getD []) else none) :=
    getS_of_lookup _ _ _ _ l4
  have g6 : getS (ext0Dict e) "ipv6" = some (if e.ipv6.isSome = true then some (e.ipv6.getD []) else none) :=
    getS_of_lookup _ _ _ _ l6
  have gp := getU_of_lookup _ "p" 16 _ _ lp (by have := h.port; omega)
  have gr := getU_of_lookup _ "reqq" 32 _ _ lr (by have := h.reqq; unfold U32 at this; omega)
  have gms := getU_of_lookup _ "metadata_size" 32 _ _ lms (by have := h.ms; unfold U32 at this; omega)
  have gm : getM (ext0Dict e) = some e.messages := by
    unfold getM; rw [lm]
    cases hm : e.messages with
    | nil => simp
    | cons kv rest =>
      simp only [List.isEmpty_cons, Bool.not_false, if_true]
      have hall : (List.map (fun kv => (kv.1, (kv.2 : Int))) (kv :: rest)).all (fun kv => kv.2 ≥ 0) = true := by
        simp
      rw [if_pos hall]
      congr 1
      rw [List.map_map]
      have : ∀ x ∈ kv :: rest, ((fun kv : Bytes × Int => (kv.1, kv.2.toNat % 256)) ∘
          (fun kv : Bytes × Nat => (kv.1, (kv.2 : Int)))) x = x := by
        intro x hx
        have := (h.msgs x (by rw [hm]; exact hx)).2
        simp; rw [Nat.mod_eq_of_lt this]
      rw [List.map_congr_left this]; simp
  have gu : getB (ext0Dict e) "upload_only" = some e.uploadOnly := by
    unfold getB; rw [lu]; cases e.uploadOnly <;> simp [natV]
  have ge : getB (ext0Dict e) "e" = some e.encrypt := by
    unfold getB; rw [le]; cases e.encrypt <;> simp [natV]
  simp only [Option.bind_eq_bind, Option.bind_some, gv, g4, g6, gp, gr, gms, gm, gu, ge, Option.pure_def]
  congr 1
  cases e with
  | mk version port reqq ipv4 ipv6 metadataSize messages uploadOnly encrypt =>
    simp only [Ext0.mk.injEq]
    simp only [and_true]
    refine ⟨?_, ?_, ?_, ?_, ?_, ?_⟩
    · cases version <;> simp
    · by_cases hp : port = 0 <;> simp [hp]
    · by_cases hp : reqq = 0 <;> simp [hp]
    · cases ipv4 with
      | none => simp
      | some s => simp [h.v4 s rfl]
    · cases ipv6 with
      | none => simp
      | some s => simp [h.v6 s rfl]
    · by_cases hp : metadataSize = 0 <;> simp [hp]



theorem rt_ext0 (rest : Bytes) (e : Ext0) (h : WFext0 e)
    (hlen : (encDict (ext0Dict e)).length + 2 ≤ 1048576) :
    let payload := [0] ++ encDict (ext0Dict e)
    (dec leanBDec (be32 (payload.length + 1) ++ [20] ++ payload ++ rest)).res = .msg (.ext0 e) ∧
    (dec leanBDec (be32 (payload.length + 1) ++ [20] ++ payload ++ rest)).consumed
        = 4 + (payload.length + 1) := by
  intro payload
  have hpl : payload.length = (encDict (ext0Dict e)).length + 1 := by
    simp [payload] <;> omega
  obtain ⟨a', b, c, d', hbe⟩ : ∃ a b c d, be32 (payload.length + 1) = [a, b, c, d] := ⟨_, _, _, _, rfl⟩
  have hr : rdBE [a', b, c, d'] = payload.length + 1 := hbe ▸ rdBE_be32 _ (by omega)
  rw [hbe]
  have hm := decExt0_enc e h []
  rw [List.append_nil] at hm
  simp only [dec, decodeWith, List.cons_append, List.nil_append, List.length_cons, List.take_succ_cons,
    List.take_zero, List.drop_succ_cons, List.drop_zero, hr, expectedFrameCap, payload]
  simp [body, bodyExt, findGuard, expectedGuards, guardViolated, leanBDec]
  rw [if_neg (by omega), if_neg (by omega), if_neg (by omega)]
  rw [hm]
  rw [if_neg (by omega)]
  exact ⟨rfl, rfl⟩

/-- **Round trip of the extended handshake** (BEP 10) through the model of protocol.Read
    with the Lean bencode decoder, any bytes following. -/
theorem C06_roundtrip_ext0 (rest : Bytes) (e : Ext0) (h : WFext0 e)
    (hlen : (encDict (ext0Dict e)).length + 2 ≤ 1048576) :
    ∃ bs, encode (.ext0 e) = some bs ∧
      (decode leanBDec (bs ++ rest)).res = .msg (.ext0 e) ∧
      (decode leanBDec (bs ++ rest)).consumed = bs.length := by
  have hh := rt_ext0 rest e h hlen
  simp only [decode_eq]
  refine ⟨_, rfl, ?_, ?_⟩
  · exact hh.1
  · rw [show frame 20 ([0] ++ encDict (ext0Dict e)) =
        be32 (([0] ++ encDict (ext0Dict e)).length + 1) ++ [20] ++ ([0] ++ encDict (ext0Dict e)) from rfl]
    rw [hh.2]; simp [be32_length] <;> omega

example : WFext0 { version := [83], port := 6881, reqq := 250, ipv4 := some [1,2,3,4],
                   messages := [([117], 1)], uploadOnly := true } where
  ver := by decide
  port := by decide
  reqq := by unfold U32; decide
  ms := by unfold U32; decide
  v4 := by intro s h; cases h; rfl
  v6 := by intro s h; cases h
  msgs := by intro kv hkv; simp at hkv; subst hkv; decide
  msgsLen := by decide


end Storrent.Props.C06

namespace Storrent.Props.C06
open Storrent Storrent.Bencode Storrent.Wire Storrent.Props.C04

/-- every message storrent's writer can emit, with the side conditions under which
    `protocol.Write` produces a frame at all (field widths, frame under the 1 MiB cap);
    extension sub-ids are storrent's own (ut_pex = 1, ut_metadata = 2, lt_donthave = 3) -/
def WFemit : Msg → Prop
  | .ext0 e => WFext0 e ∧ (encDict (ext0Dict e)).length + 2 ≤ 1048576
  | .pex sub a d => sub = 1 ∧ WFpexList a ∧ WFpexList d ∧ (∀ p ∈ d, p.flags = 0) ∧
      (encDict (pexDict a d)).length + 2 ≤ 1048576
  | .metadata sub t p tot data => sub = 2 ∧ t < 256 ∧ U32 p ∧ U32 tot ∧
      (encDict (metaDict t p tot)).length + data.length + 2 ≤ 1048576
  | .dontHave sub i => sub = 3 ∧ U32 i
  | .uploadOnly _ _ | .extUnknown _ | .unknown _ => False
  | m => WFfixed m

/-- what an emitted message looks like after the round trip: identical, except that the
    two PEX lists come back with the IPv4 peers first (they travel in separate keys) -/
def received : Msg → Msg
  | .pex s a d => .pex s (v4first a) (v4first d)
  | m => m

/-- **Round trip of every emitted message** (all 20 kinds storrent writes), through the model
    of protocol.Read (regenerated guard table and cap) with the Lean bencode decoder, with any
    bytes following: the same message comes back and exactly its frame is consumed. -/
theorem C06_roundtrip_all (m : Msg) (h : WFemit m) (rest : Bytes) :
    ∃ bs, encode m = some bs ∧ 4 ≤ bs.length ∧
      (decode leanBDec (bs ++ rest)).res = .msg (received m) ∧
      (decode leanBDec (bs ++ rest)).consumed = bs.length := by
  have len4 : ∀ (id : Nat) (p : Bytes), 4 ≤ (frame id p).length := by
    intro id p; simp [frame, be32_length] <;> omega
  cases m
  case ext0 e =>
    obtain ⟨bs, hb, h1, h2⟩ := C06_roundtrip_ext0 rest e h.1 h.2
    refine ⟨bs, hb, ?_, h1, h2⟩
    have : bs = frame 20 ([0] ++ encDict (ext0Dict e)) := by
      have : encode (.ext0 e) = some (frame 20 ([0] ++ encDict (ext0Dict e))) := rfl
      rw [this] at hb; exact (Option.some.inj hb).symm
    rw [this]; exact len4 _ _
  case pex sub a d =>
    obtain ⟨rfl, ha, hd, hd0, hl⟩ := h
    obtain ⟨bs, hb, h1, h2⟩ := C06_roundtrip_pex rest a d ha hd hd0 hl
    refine ⟨bs, hb, ?_, h1, h2⟩
    have : encode (.pex 1 a d) = some (frame 20 ([UInt8.ofNat 1] ++ encDict (pexDict a d))) := rfl
    rw [this] at hb; rw [← Option.some.inj hb]; exact len4 _ _
  case metadata sub t p tot data =>
    obtain ⟨rfl, ht, hp, htot, hl⟩ := h
    obtain ⟨bs, hb, h1, h2⟩ := C06_roundtrip_metadata rest t p tot data ht hp htot hl
    refine ⟨bs, hb, ?_, h1, h2⟩
    have : encode (.metadata 2 t p tot data) =
        some (frame 20 ([UInt8.ofNat 2] ++ encDict (metaDict t p tot) ++ data)) := rfl
    rw [this] at hb; rw [← Option.some.inj hb]; exact len4 _ _
  case dontHave sub i =>
    obtain ⟨rfl, hi⟩ := h
    obtain ⟨bs, hb, h1, h2⟩ := C06_roundtrip_donthave leanBDec rest i hi
    refine ⟨bs, hb, ?_, h1, h2⟩
    have : encode (.dontHave 3 i) = some (frame 20 ([UInt8.ofNat 3] ++ be32 i)) := rfl
    rw [this] at hb; rw [← Option.some.inj hb]; exact len4 _ _
  case uploadOnly => exact absurd h (by simp [WFemit])
  case extUnknown => exact absurd h (by simp [WFemit])
  case unknown => exact absurd h (by simp [WFemit])
  all_goals exact C06_roundtrip_fixed leanBDec _ (by simpa [WFemit] using h) rest

/-- **Streams of arbitrary emitted messages**: the concatenation of the frames of any list of
    emitted messages (fixed-layout and bencoded ones mixed) decodes, frame by frame, to exactly
    that list — nothing lost, nothing merged, nothing left over. -/
theorem C06_stream_all (ms : List Msg) (h : ∀ m ∈ ms, WFemit m)
    (fuel : Nat) (hf : ms.length ≤ fuel) :
    ∃ bs, encodeAll ms = some bs ∧
      decodeAll Gen.wireGuards Gen.frameCap leanBDec fuel bs = ms.map (fun m => .msg (received m)) := by
  induction ms generalizing fuel with
  | nil => exact ⟨[], rfl, by cases fuel <;> simp [decodeAll]⟩
  | cons m ms ih =>
    obtain ⟨a, ha, hlen, hres, hcons⟩ := C06_roundtrip_all m (h m (by simp))
      ((encodeAll ms).getD [])
    cases fuel with
    | zero => simp at hf
    | succ fuel =>
      obtain ⟨b, hb, hdec⟩ := ih (fun x hx => h x (by simp [hx])) fuel (by simp at hf; omega)
      refine ⟨a ++ b, by simp [encodeAll, ha, hb], ?_⟩
      simp only [hb, Option.getD_some] at hres hcons
      have hne : (a ++ b).isEmpty = false := by
        cases a with
        | nil => simp at hlen
        | cons x xs => rfl
      unfold decodeAll
      simp only [hne]
      have hd : decodeWith Gen.wireGuards Gen.frameCap leanBDec (a ++ b) = decode leanBDec (a ++ b) := rfl
      rw [hd]
      simp only [hres, hcons, List.drop_left', List.map_cons]
      simp [hdec]

/-- a truncated stream never yields a message that was not sent: while the last frame is
    incomplete (fewer than 4 + announced bytes present) the decoder produces no message
    (consequence of `C04_exact_frame` and `C04_never_beyond`), for every bencode decoder -/
theorem C06_truncated_no_message (bd : BDec) (bs : Bytes) (h : bs.length < 4 + announced bs) :
    ∀ m, (decode bd bs).res ≠ .msg m := by
  intro m hm
  have h1 := C04_exact_frame bd bs m hm
  have h2 := (C04_never_beyond bd bs).1
  omega

example : WFemit (.dontHave 3 7) ∧ WFemit (.request 1 2 3) := by
  refine ⟨⟨rfl, by unfold U32; omega⟩, by simp [WFemit, WFfixed, U32]⟩

end Storrent.Props.C06
