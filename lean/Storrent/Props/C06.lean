import Storrent.Model.WireParse
import Storrent.Gen.WireTable
import Storrent.Lemmas.Bytes
import Storrent.Props.C04
import Storrent.Lemmas.Bencode
/-
C06 — Emitted messages round-trip and match an independent BitTorrent codec.

`encode` (Model/Wire.lean) is written from the BEPs; the correspondence stream ties
protocol.Write to it byte for byte and protocol.Read to `decode` on those bytes.
Here: exact layouts, round trip through the model of protocol.Read with any bytes
following, and decoding of concatenated streams.
-/
namespace Storrent.Props.C06
open Storrent Storrent.Wire Storrent.Props.C04

def U32 (n : Nat) : Prop := n < 4294967296

/-- well-formed fixed-layout messages storrent can emit -/
def WFfixed : Msg → Prop
  | .keepAlive | .choke | .unchoke | .interested | .notInterested | .haveAll | .haveNone => True
  | .have i | .suggest i | .allowedFast i => U32 i
  | .request i b l | .cancel i b l | .reject i b l => U32 i ∧ U32 b ∧ U32 l
  | .port p => p < 65536
  | .bitfield bs => bs.length + 1 ≤ 1048576
  | .piece i b d => U32 i ∧ U32 b ∧ d.length + 9 ≤ 1048576
  | _ => False

/-! #### tie to the source: the ids `protocol.Write` emits are the ids of `encode` -/
theorem C06_gen_agrees : Gen.writerTable = expectedWriter := by decide

/-! #### exact layouts ("matches BEP n" stated formally) -/
theorem C06_layout_request (i b l : Nat) :
    encode (.request i b l) = some (be32 13 ++ [6] ++ (be32 i ++ be32 b ++ be32 l)) := rfl
theorem C06_layout_cancel (i b l : Nat) :
    encode (.cancel i b l) = some (be32 13 ++ [8] ++ (be32 i ++ be32 b ++ be32 l)) := rfl
theorem C06_layout_reject (i b l : Nat) :
    encode (.reject i b l) = some (be32 13 ++ [16] ++ (be32 i ++ be32 b ++ be32 l)) := rfl
theorem C06_layout_have (i : Nat) : encode (.have i) = some (be32 5 ++ [4] ++ be32 i) := rfl
theorem C06_layout_piece (i b : Nat) (d : Bytes) :
    encode (.piece i b d) = some (be32 ((be32 i ++ be32 b ++ d).length + 1) ++ [7] ++
      (be32 i ++ be32 b ++ d)) := rfl
theorem C06_layout_bitfield (bs : Bytes) :
    encode (.bitfield bs) = some (be32 (bs.length + 1) ++ [5] ++ bs) := rfl
theorem C06_layout_port (p : Nat) : encode (.port p) = some (be32 3 ++ [9] ++ be16 p) := rfl
theorem C06_layout_simple :
    encode .keepAlive = some [0,0,0,0] ∧ encode .choke = some [0,0,0,1,0] ∧
    encode .unchoke = some [0,0,0,1,1] ∧ encode .interested = some [0,0,0,1,2] ∧
    encode .notInterested = some [0,0,0,1,3] ∧ encode .haveAll = some [0,0,0,1,14] ∧
    encode .haveNone = some [0,0,0,1,15] := by decide
theorem C06_layout_fast (i : Nat) :
    encode (.suggest i) = some (be32 5 ++ [13] ++ be32 i) ∧
    encode (.allowedFast i) = some (be32 5 ++ [17] ++ be32 i) := ⟨rfl, rfl⟩
theorem C06_layout_donthave (sub i : Nat) :
    encode (.dontHave sub i) = some (be32 6 ++ [20] ++ ([UInt8.ofNat sub] ++ be32 i)) := rfl

end Storrent.Props.C06

namespace Storrent.Props.C06
open Storrent Storrent.Wire Storrent.Props.C04

theorem recompose32 (n : Nat) (h : U32 n) :
    ((n / 16777216 % 256 * 256 + n / 65536 % 256) * 256 + n / 256 % 256) * 256 + n % 256 = n := by
  unfold U32 at h; omega
theorem recompose16 (n : Nat) (h : n < 65536) : n / 256 % 256 * 256 + n % 256 = n := by omega

abbrev dec (bd : BDec) (bs : Bytes) := decodeWith expectedGuards expectedFrameCap bd bs

macro "rt_simp" : tactic => `(tactic|
  simp [dec, decodeWith, rdBE, expectedFrameCap, body, findGuard, expectedGuards, guardViolated,
        be32, be16, frame])

macro "rt_fin" : tactic => `(tactic|
  (repeat' split) <;> first | rfl | omega | (simp_all <;> omega))

theorem rt_simple (bd : BDec) (rest : Bytes) :
    dec bd ([0,0,0,0] ++ rest) = ⟨.msg .keepAlive, 4, 0⟩ ∧
    dec bd ([0,0,0,1,0] ++ rest) = ⟨.msg .choke, 5, 0⟩ ∧
    dec bd ([0,0,0,1,1] ++ rest) = ⟨.msg .unchoke, 5, 0⟩ ∧
    dec bd ([0,0,0,1,2] ++ rest) = ⟨.msg .interested, 5, 0⟩ ∧
    dec bd ([0,0,0,1,3] ++ rest) = ⟨.msg .notInterested, 5, 0⟩ ∧
    dec bd ([0,0,0,1,14] ++ rest) = ⟨.msg .haveAll, 5, 0⟩ ∧
    dec bd ([0,0,0,1,15] ++ rest) = ⟨.msg .haveNone, 5, 0⟩ := by
  refine ⟨?_, ?_, ?_, ?_, ?_, ?_, ?_⟩ <;> rt_simp

theorem rt_have (bd : BDec) (rest : Bytes) (i : Nat) (h : U32 i) :
    dec bd (be32 5 ++ [4] ++ be32 i ++ rest) = ⟨.msg (.have i), 9, 0⟩ := by
  rt_simp; rw [recompose32 i h]; rt_fin
theorem rt_suggest (bd : BDec) (rest : Bytes) (i : Nat) (h : U32 i) :
    dec bd (be32 5 ++ [13] ++ be32 i ++ rest) = ⟨.msg (.suggest i), 9, 0⟩ := by
  rt_simp; rw [recompose32 i h]; rt_fin
theorem rt_allowedFast (bd : BDec) (rest : Bytes) (i : Nat) (h : U32 i) :
    dec bd (be32 5 ++ [17] ++ be32 i ++ rest) = ⟨.msg (.allowedFast i), 9, 0⟩ := by
  rt_simp; rw [recompose32 i h]; rt_fin
theorem rt_port (bd : BDec) (rest : Bytes) (i : Nat) (h : i < 65536) :
    dec bd (be32 3 ++ [9] ++ be16 i ++ rest) = ⟨.msg (.port i), 7, 0⟩ := by
  rt_simp; rw [recompose16 i h]; rt_fin
theorem rt_request (bd : BDec) (rest : Bytes) (i b l : Nat) (hi : U32 i) (hb : U32 b) (hl : U32 l) :
    dec bd (be32 13 ++ [6] ++ (be32 i ++ be32 b ++ be32 l) ++ rest)
      = ⟨.msg (.request i b l), 17, 0⟩ := by
  rt_simp; rw [recompose32 i hi, recompose32 b hb, recompose32 l hl]; rt_fin
theorem rt_cancel (bd : BDec) (rest : Bytes) (i b l : Nat) (hi : U32 i) (hb : U32 b) (hl : U32 l) :
    dec bd (be32 13 ++ [8] ++ (be32 i ++ be32 b ++ be32 l) ++ rest)
      = ⟨.msg (.cancel i b l), 17, 0⟩ := by
  rt_simp; rw [recompose32 i hi, recompose32 b hb, recompose32 l hl]; rt_fin
theorem rt_reject (bd : BDec) (rest : Bytes) (i b l : Nat) (hi : U32 i) (hb : U32 b) (hl : U32 l) :
    dec bd (be32 13 ++ [16] ++ (be32 i ++ be32 b ++ be32 l) ++ rest)
      = ⟨.msg (.reject i b l), 17, 0⟩ := by
  rt_simp; rw [recompose32 i hi, recompose32 b hb, recompose32 l hl]; rt_fin

end Storrent.Props.C06

namespace Storrent.Props.C06
open Storrent Storrent.Wire Storrent.Props.C04

theorem rt_bitfield (bd : BDec) (rest : Bytes) (bs : Bytes) (h : bs.length + 1 ≤ 1048576) :
    dec bd (be32 (bs.length + 1) ++ [5] ++ bs ++ rest)
      = ⟨.msg (.bitfield bs), 4 + (bs.length + 1), bs.length⟩ := by
  obtain ⟨a, b, c, d, hbe⟩ : ∃ a b c d, be32 (bs.length + 1) = [a, b, c, d] := ⟨_, _, _, _, rfl⟩
  have hr : rdBE [a, b, c, d] = bs.length + 1 := hbe ▸ rdBE_be32 _ (by omega)
  rw [hbe]
  simp only [dec, decodeWith, List.cons_append, List.nil_append, List.length_cons, List.take_succ_cons,
    List.take_zero, List.drop_succ_cons, List.drop_zero, hr, expectedFrameCap]
  simp [body, findGuard, expectedGuards, guardViolated]
  rt_fin

theorem rt_piece (bd : BDec) (rest : Bytes) (i b : Nat) (data : Bytes) (hi : U32 i) (hb : U32 b)
    (h : data.length + 9 ≤ 1048576) :
    dec bd (be32 ((be32 i ++ be32 b ++ data).length + 1) ++ [7] ++ (be32 i ++ be32 b ++ data) ++ rest)
      = ⟨.msg (.piece i b data), 4 + (data.length + 9), pooled data.length⟩ := by
  have hl : (be32 i ++ be32 b ++ data).length + 1 = data.length + 9 := by
    simp [be32_length]; omega
  rw [hl]
  obtain ⟨a, b', c, d, hbe⟩ : ∃ a b c d, be32 (data.length + 9) = [a, b, c, d] := ⟨_, _, _, _, rfl⟩
  have hr : rdBE [a, b', c, d] = data.length + 9 := hbe ▸ rdBE_be32 _ (by omega)
  rw [hbe]
  simp only [dec, decodeWith, List.cons_append, List.nil_append, List.length_cons, List.take_succ_cons,
    List.take_zero, List.drop_succ_cons, List.drop_zero, hr, expectedFrameCap]
  simp [body, findGuard, expectedGuards, guardViolated, be32, rdBE]
  rw [recompose32 i hi, recompose32 b hb]
  rt_fin

/-- **Round trip** of every fixed-layout message storrent can emit, through the model of
    protocol.Read (generated table), with any bytes following: same message back, exactly
    the frame consumed. -/
theorem C06_roundtrip_fixed (bd : BDec) (m : Msg) (h : WFfixed m) (rest : Bytes) :
    ∃ bs, encode m = some bs ∧ 4 ≤ bs.length ∧
      (decode bd (bs ++ rest)).res = .msg m ∧ (decode bd (bs ++ rest)).consumed = bs.length := by
  simp only [decode_eq]
  cases m <;> simp only [WFfixed] at h
  case keepAlive =>
    have := (rt_simple bd rest).1
    unfold dec at this
    have e : be32 0 = [0,0,0,0] := by decide
    exact ⟨_, rfl, by decide, by simp only [e]; rw [this], by simp only [e]; rw [this]; rfl⟩
  case choke =>
    have := (rt_simple bd rest).2.1
    unfold dec at this
    have e : frame 0 [] = [0,0,0,1,0] := by decide
    exact ⟨_, rfl, by decide, by rw [e, this], by rw [e, this]; rfl⟩
  case unchoke =>
    have := (rt_simple bd rest).2.2.1
    unfold dec at this
    have e : frame 1 [] = [0,0,0,1,1] := by decide
    exact ⟨_, rfl, by decide, by rw [e, this], by rw [e, this]; rfl⟩
  case interested =>
    have := (rt_simple bd rest).2.2.2.1
    unfold dec at this
    have e : frame 2 [] = [0,0,0,1,2] := by decide
    exact ⟨_, rfl, by decide, by rw [e, this], by rw [e, this]; rfl⟩
  case notInterested =>
    have := (rt_simple bd rest).2.2.2.2.1
    unfold dec at this
    have e : frame 3 [] = [0,0,0,1,3] := by decide
    exact ⟨_, rfl, by decide, by rw [e, this], by rw [e, this]; rfl⟩
  case haveAll =>
    have := (rt_simple bd rest).2.2.2.2.2.1
    unfold dec at this
    have e : frame 14 [] = [0,0,0,1,14] := by decide
    exact ⟨_, rfl, by decide, by rw [e, this], by rw [e, this]; rfl⟩
  case haveNone =>
    have := (rt_simple bd rest).2.2.2.2.2.2
    unfold dec at this
    have e : frame 15 [] = [0,0,0,1,15] := by decide
    exact ⟨_, rfl, by decide, by rw [e, this], by rw [e, this]; rfl⟩
  case «have» i =>
    have := rt_have bd rest i h
    unfold dec at this
    exact ⟨_, rfl, by simp [frame, be32_length], by rw [show frame 4 (be32 i) = be32 5 ++ [4] ++ be32 i from rfl, this],
      by rw [show frame 4 (be32 i) = be32 5 ++ [4] ++ be32 i from rfl, this]; rfl⟩
  case suggest i =>
    have := rt_suggest bd rest i h
    unfold dec at this
    exact ⟨_, rfl, by simp [frame, be32_length], by rw [show frame 13 (be32 i) = be32 5 ++ [13] ++ be32 i from rfl, this],
      by rw [show frame 13 (be32 i) = be32 5 ++ [13] ++ be32 i from rfl, this]; rfl⟩
  case allowedFast i =>
    have := rt_allowedFast bd rest i h
    unfold dec at this
    exact ⟨_, rfl, by simp [frame, be32_length], by rw [show frame 17 (be32 i) = be32 5 ++ [17] ++ be32 i from rfl, this],
      by rw [show frame 17 (be32 i) = be32 5 ++ [17] ++ be32 i from rfl, this]; rfl⟩
  case port p =>
    have := rt_port bd rest p h
    unfold dec at this
    exact ⟨_, rfl, by simp [frame, be32_length, be16_length], by rw [show frame 9 (be16 p) = be32 3 ++ [9] ++ be16 p from rfl, this],
      by rw [show frame 9 (be16 p) = be32 3 ++ [9] ++ be16 p from rfl, this]; rfl⟩
  case request i b l =>
    have := rt_request bd rest i b l h.1 h.2.1 h.2.2
    unfold dec at this
    have e : frame 6 (be32 i ++ be32 b ++ be32 l) = be32 13 ++ [6] ++ (be32 i ++ be32 b ++ be32 l) := rfl
    exact ⟨_, rfl, by simp [frame, be32_length], by rw [e, this], by rw [e, this]; rfl⟩
  case cancel i b l =>
    have := rt_cancel bd rest i b l h.1 h.2.1 h.2.2
    unfold dec at this
    have e : frame 8 (be32 i ++ be32 b ++ be32 l) = be32 13 ++ [8] ++ (be32 i ++ be32 b ++ be32 l) := rfl
    exact ⟨_, rfl, by simp [frame, be32_length], by rw [e, this], by rw [e, this]; rfl⟩
  case reject i b l =>
    have := rt_reject bd rest i b l h.1 h.2.1 h.2.2
    unfold dec at this
    have e : frame 16 (be32 i ++ be32 b ++ be32 l) = be32 13 ++ [16] ++ (be32 i ++ be32 b ++ be32 l) := rfl
    exact ⟨_, rfl, by simp [frame, be32_length], by rw [e, this], by rw [e, this]; rfl⟩
  case bitfield bs =>
    have := rt_bitfield bd rest bs h
    unfold dec at this
    have e : frame 5 bs = be32 (bs.length + 1) ++ [5] ++ bs := rfl
    exact ⟨_, rfl, by simp [frame, be32_length], by rw [e, this],
      by rw [e, this]; simp [be32_length] <;> omega⟩
  case piece i b d =>
    have := rt_piece bd rest i b d h.1 h.2.1 h.2.2
    unfold dec at this
    have e : frame 7 (be32 i ++ be32 b ++ d) =
        be32 ((be32 i ++ be32 b ++ d).length + 1) ++ [7] ++ (be32 i ++ be32 b ++ d) := rfl
    exact ⟨_, rfl, by simp [frame, be32_length], by rw [e, this],
      by rw [e, this]; simp [be32_length] <;> omega⟩

/-- concatenation of the encodings -/
def encodeAll : List Msg → Option Bytes
  | [] => some []
  | m :: ms => do
    let a ← encode m
    let b ← encodeAll ms
    pure (a ++ b)

/-- **Streams**: a concatenation of emitted messages decodes to the same sequence.
    (How the stream is cut into reads is invisible at this level: the reader consumes a
    flat byte sequence; `Props/C07` proves the chunked-source lemmas.) -/
theorem C06_stream_fixed (bd : BDec) (ms : List Msg) (h : ∀ m ∈ ms, WFfixed m)
    (fuel : Nat) (hf : ms.length ≤ fuel) :
    ∃ bs, encodeAll ms = some bs ∧
      decodeAll Gen.wireGuards Gen.frameCap bd fuel bs = ms.map .msg := by
  induction ms generalizing fuel with
  | nil => exact ⟨[], rfl, by cases fuel <;> simp [decodeAll]⟩
  | cons m ms ih =>
    obtain ⟨a, ha, hlen, hres, hcons⟩ := C06_roundtrip_fixed bd m (h m (by simp)) 
      ((encodeAll ms).getD [])
    cases fuel with
    | zero => simp at hf
    | succ fuel =>
      obtain ⟨b, hb, hdec⟩ := ih (fun x hx => h x (by simp [hx])) fuel (by simp at hf; omega)
      refine ⟨a ++ b, by simp [encodeAll, ha, hb], ?_⟩
      simp only [hb, Option.getD_some] at hres hcons
      have hne : (a ++ b).isEmpty = false := by
        cases a with
        | nil => simp at hlen
        | cons x xs => rfl
      unfold decodeAll
      simp only [hne]
      have hd : decodeWith Gen.wireGuards Gen.frameCap bd (a ++ b) = decode bd (a ++ b) := rfl
      rw [hd]
      simp only [hres, hcons, List.drop_left', List.map_cons]
      simp [hdec]

/-! non-vacuity -/
example : WFfixed (.request 1 16384 16384) ∧ WFfixed (.piece 0 0 [1,2,3]) := by
  simp [WFfixed, U32]

end Storrent.Props.C06

namespace Storrent.Props.C06
open Storrent Storrent.Bencode Storrent.Wire Storrent.Props.C04


theorem lookup_append (k : Bytes) (l1 l2 : List (Bytes × BV)) :
    lookup k (l1 ++ l2) = ((lookup k l2).or (lookup k l1)) := by
  unfold lookup
  simp [List.reverse_append, List.find?_append]
  cases List.find? (fun kv => kv.1 == k) l2.reverse <;> simp

theorem metaDict_good (t p tot : Nat) : ∀ kv ∈ metaDict t p tot, GoodKey kv.1 ∧ GoodBV kv.2 := by
  intro kv hkv
  unfold metaDict optKV at hkv
  split at hkv <;> simp at hkv
  · rcases hkv with h | h | h <;> subst h <;> simp [GoodKey, GoodBV, natV, strBytes]
  · rcases hkv with h | h <;> subst h <;> simp [GoodKey, GoodBV, natV, strBytes]

theorem decMeta_enc (t p tot : Nat) (ht : t < 256) (hp : U32 p) (htot : U32 tot) (data : Bytes) :
    decMeta (encDict (metaDict t p tot) ++ data)
      = some (some (t, p, tot, (encDict (metaDict t p tot)).length)) := by
  unfold decMeta
  rw [parseDict_enc _ (metaDict_good t p tot)]
  unfold U32 at hp htot
  by_cases h0 : tot = 0
  · subst h0
    simp [metaDict, optKV, getU, lookup, natV, strBytes, show ¬ ((t:Int) < 0) by omega,
      show ¬ ((p:Int) < 0) by omega, Nat.mod_eq_of_lt ht, Nat.mod_eq_of_lt hp]
  · simp [metaDict, optKV, getU, lookup, natV, strBytes, h0, show ¬ ((t:Int) < 0) by omega,
      show ¬ ((p:Int) < 0) by omega, show ¬ ((tot:Int) < 0) by omega,
      Nat.mod_eq_of_lt ht, Nat.mod_eq_of_lt hp, Nat.mod_eq_of_lt htot]



theorem rt_dontHave (bd : BDec) (rest : Bytes) (i : Nat) (h : U32 i) :
    dec bd (be32 6 ++ [20] ++ ([3] ++ be32 i) ++ rest) = ⟨.msg (.dontHave 3 i), 10, 0⟩ := by
  rt_simp; rw [recompose32 i h]; rt_fin

theorem rt_metadata (rest : Bytes) (t p tot : Nat) (data : Bytes)
    (ht : t < 256) (hp : U32 p) (htot : U32 tot)
    (hlen : (encDict (metaDict t p tot)).length + data.length + 2 ≤ 1048576) :
    let payload := [2] ++ encDict (metaDict t p tot) ++ data
    (dec leanBDec (be32 (payload.length + 1) ++ [20] ++ payload ++ rest)).res
        = .msg (.metadata 2 t p tot data) ∧
    (dec leanBDec (be32 (payload.length + 1) ++ [20] ++ payload ++ rest)).consumed
        = 4 + (payload.length + 1) := by
  intro payload
  have hpl : payload.length = (encDict (metaDict t p tot)).length + data.length + 1 := by
    simp [payload] <;> omega
  obtain ⟨a, b, c, d, hbe⟩ : ∃ a b c d, be32 (payload.length + 1) = [a, b, c, d] := ⟨_, _, _, _, rfl⟩
  have hr : rdBE [a, b, c, d] = payload.length + 1 := hbe ▸ rdBE_be32 _ (by omega)
  rw [hbe]
  have hm := decMeta_enc t p tot ht hp htot data
  simp only [dec, decodeWith, List.cons_append, List.nil_append, List.length_cons, List.take_succ_cons,
    List.take_zero, List.drop_succ_cons, List.drop_zero, hr, expectedFrameCap, payload]
  simp [body, findGuard, expectedGuards, guardViolated, leanBDec]
  rw [if_neg (by omega), if_neg (by omega), if_neg (by omega), if_neg (by omega)]
  have htk : List.take ((encDict (metaDict t p tot)).length + data.length)
      (encDict (metaDict t p tot) ++ (data ++ rest)) = encDict (metaDict t p tot) ++ data := by
    rw [← List.append_assoc]
    exact List.take_left' (by simp)
  rw [htk, hm]
  simp


/-- **Round trip of the bencoded metadata message** (BEP 9) and of lt_donthave through the
    model of protocol.Read instantiated with the Lean bencode decoder, any bytes following. -/
theorem C06_roundtrip_metadata (rest : Bytes) (t p tot : Nat) (data : Bytes)
    (ht : t < 256) (hp : U32 p) (htot : U32 tot)
    (hlen : (encDict (metaDict t p tot)).length + data.length + 2 ≤ 1048576) :
    ∃ bs, encode (.metadata 2 t p tot data) = some bs ∧
      (decode leanBDec (bs ++ rest)).res = .msg (.metadata 2 t p tot data) ∧
      (decode leanBDec (bs ++ rest)).consumed = bs.length := by
  have h := rt_metadata rest t p tot data ht hp htot hlen
  simp only [decode_eq]
  refine ⟨_, rfl, ?_, ?_⟩
  · exact h.1
  · rw [show frame 20 ([UInt8.ofNat 2] ++ encDict (metaDict t p tot) ++ data) =
        be32 (([2] ++ encDict (metaDict t p tot) ++ data).length + 1) ++ [20] ++
          ([2] ++ encDict (metaDict t p tot) ++ data) from rfl]
    rw [h.2]; simp [be32_length] <;> omega

theorem C06_roundtrip_donthave (bd : BDec) (rest : Bytes) (i : Nat) (h : U32 i) :
    ∃ bs, encode (.dontHave 3 i) = some bs ∧
      (decode bd (bs ++ rest)).res = .msg (.dontHave 3 i) ∧
      (decode bd (bs ++ rest)).consumed = bs.length := by
  have := rt_dontHave bd rest i h
  unfold dec at this
  simp only [decode_eq]
  have e : frame 20 ([UInt8.ofNat 3] ++ be32 i) = be32 6 ++ [20] ++ ([3] ++ be32 i) := rfl
  exact ⟨_, rfl, by rw [e, this], by rw [e, this]; rfl⟩

end Storrent.Props.C06
